import Heph.Model.Graph
