import Heph.Proofs.TransScalaState
import Heph.Proofs.TransKotlinHistory
/-! A Scala translator object forgets its history (`Agree` is the Kotlin model's relation on the
shared record `Obj`: equality of `ident, is_unit, is_lambda, _cast_integers, _nodes_stack, package`). -/
namespace Heph.TransScala
open Heph
open Heph.TransKotlin (St Obj initObj leaks leaksL effL Agree programClasses)

theorem programDoc_agree {a b : Obj} (h : Agree a b) (p : Program) : programDoc a p = programDoc b p := by
  obtain ⟨h1, h2, h3, h4, h5, h6⟩ := h
  obtain ⟨⟨i, u, l, c, s, x⟩, pr, pk⟩ := a
  obtain ⟨⟨i', u', l', c', s', x'⟩, pr', pk'⟩ := b
  simp only at h1 h2 h3 h4 h5 h6
  subst h1 h2 h3 h4 h5 h6
  rfl

theorem text_agree {a b : Obj} (h : Agree a b) (p : Program) : text a p = text b p := by
  simp only [text, translate, visitProgram, programDoc_agree h p]

/-- the state after `visit_program`: only `context`, `program` are new, and `ident` is 0 if a
    top-level declaration leaks -/
theorem visitProgram_st (ob : Obj) (p : Program) :
    (visitProgram ob p).st = effL p.decls { ob.st with context := programClasses p } ∧
    (visitProgram ob p).package = ob.package := by
  simp [visitProgram, programDoc, visitL_fst]

theorem visitProgram_agree (ob : Obj) (p : Program) (h : ob.st.ident = 0 ∨ leaksL p.decls = false) :
    Agree (visitProgram ob p) ob := by
  obtain ⟨hs, hp⟩ := visitProgram_st ob p
  refine ⟨?_, ?_, ?_, ?_, ?_, hp⟩ <;> rw [hs] <;> simp only [effL]
  cases hl : leaksL p.decls
  · rfl
  · rcases h with h | h
    · simp [h]
    · simp [hl] at h

theorem after_agree : ∀ (ps : List Program) (ob : Obj), ob.st.ident = 0 → Agree (after ob ps) ob
  | [], ob, _ => Agree.refl ob
  | p :: ps, ob, h => by
      have h1 := visitProgram_agree ob p (Or.inl h)
      have h2 := after_agree ps (visitProgram ob p) (h1.1.trans h)
      exact Agree.trans (by simpa [after] using h2) h1

/-- `_reset_state()` puts every attribute the visit methods work on back to its `__init__` value -/
theorem resetState_agree (ob : Obj) : Agree (resetState ob) (initObj ob.package) :=
  ⟨rfl, rfl, rfl, rfl, rfl, rfl⟩

end Heph.TransScala
