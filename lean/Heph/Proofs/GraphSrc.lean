import Heph.Proofs.GraphBasic
/-!
# `find_sources`

Measure of the worklist: `stack.length + n * unvisK g vis` with `n` the number of keys and
`unvisK` the number of keys not yet marked: popping a marked vertex drops the first summand
by one; marking a vertex pushes at most `n` predecessors and drops the second summand by `n`.
-/
namespace Heph.Graph

theorem mem_preds {g : Graph} (hg : WFG g) (v p : Nat) : p ∈ preds g v ↔ v ∈ adj g p := by
  rw [← exists_entry_iff hg p v]
  simp only [preds, List.mem_map, List.mem_filter, List.contains_iff_mem]
  constructor
  · rintro ⟨e, ⟨h1, h2⟩, h3⟩; exact ⟨e, h1, h3, h2⟩
  · rintro ⟨e, h1, h3, h2⟩; exact ⟨e, ⟨h1, h2⟩, h3⟩

theorem preds_length_le (g : Graph) (v : Nat) : (preds g v).length ≤ (keys g).length := by
  simp only [preds, keys, List.length_map]
  exact List.length_filter_le _ _

theorem preds_eq_nil {g : Graph} (hg : WFG g) (x : Nat) :
    preds g x = [] ↔ ∀ y ∈ keys g, x ∉ adj g y := by
  constructor
  · intro h y _ hy
    have : y ∈ preds g x := (mem_preds hg x y).2 hy
    rw [h] at this; simp at this
  · intro h
    apply List.eq_nil_iff_forall_not_mem.2
    intro p hp
    have := (mem_preds hg x p).1 hp
    exact h p (key_of_mem_adj this) this

def unvisK (g : Graph) (vis : List Nat) : Nat :=
  ((keys g).filter fun k => !vis.contains k).length

theorem filter_unvis_mono (l vis : List Nat) (v : Nat) :
    (l.filter fun k => !(vis ++ [v]).contains k).length ≤ (l.filter fun k => !vis.contains k).length := by
  induction l with
  | nil => simp
  | cons a l ih =>
    simp only [List.filter_cons]
    by_cases ha : a ∈ vis
    · have h1 : vis.contains a = true := by simpa using ha
      have h2 : (vis ++ [v]).contains a = true := by simp [ha]
      simp only [h1, h2, Bool.not_true, Bool.false_eq_true, if_false]; exact ih
    · have h1 : vis.contains a = false := by simpa using ha
      simp only [h1, Bool.not_false, if_true, List.length_cons]
      split
      · simp only [List.length_cons]; omega
      · omega

theorem filter_unvis_add (l vis : List Nat) (v : Nat) (hv : v ∈ l) (hn : v ∉ vis) :
    (l.filter fun k => !(vis ++ [v]).contains k).length + 1 ≤ (l.filter fun k => !vis.contains k).length := by
  induction l with
  | nil => simp at hv
  | cons a l ih =>
    simp only [List.filter_cons]
    by_cases hav : a = v
    · subst hav
      have h1 : vis.contains a = false := by simpa using hn
      have h2 : (vis ++ [a]).contains a = true := by simp
      have := filter_unvis_mono l vis a
      simp only [h1, h2, Bool.not_true, Bool.not_false, Bool.false_eq_true, if_false, if_true,
        List.length_cons]
      omega
    · have hv' : v ∈ l := by
        rcases List.mem_cons.1 hv with h | h
        · exact absurd h.symm hav
        · exact h
      have h2 : (vis ++ [v]).contains a = vis.contains a := by simp [hav]
      have := ih hv'
      rw [h2]
      split
      · simp only [List.length_cons]; omega
      · exact this

theorem unvisK_add (g : Graph) (vis : List Nat) (v : Nat) (hv : v ∈ keys g) (hn : v ∉ vis) :
    unvisK g (vis ++ [v]) + 1 ≤ unvisK g vis :=
  filter_unvis_add (keys g) vis v hv hn

theorem unvisK_le (g : Graph) (vis : List Nat) : unvisK g vis ≤ (keys g).length :=
  List.length_filter_le _ _

/-- closure under predecessors contains every key that reaches the set -/
theorem reach_back {g : Graph} (hg : WFG g) (T : List Nat)
    (hT : ∀ u ∈ T, ∀ p ∈ preds g u, p ∈ T) {a c : Nat} (h : Reach g a c) : c ∈ T → a ∈ T := by
  induction h with
  | refl => exact id
  | step _ h1 _ ih => intro hc; exact ih (hT _ hc _ ((mem_preds hg _ _).2 h1))

structure SInv (g : Graph) (v0 : Nat) (stack vis sources : List Nat) : Prop where
  stk : ∀ u ∈ stack, u ∈ keys g ∧ Reach g u v0
  src : ∀ x ∈ sources, x ∈ vis ∧ IsSourceOf g v0 x
  nodup : sources.Nodup
  closed : ∀ u ∈ vis, (preds g u = [] → u ∈ sources) ∧ ∀ p ∈ preds g u, p ∈ vis ∨ p ∈ stack
  start : v0 ∈ vis ∨ v0 ∈ stack

theorem srcLoop_correct {g : Graph} (hg : WFG g) (v0 : Nat) :
    ∀ (f : Nat) (stack vis sources : List Nat), SInv g v0 stack vis sources →
      stack.length + (keys g).length * unvisK g vis < f →
      ∃ l, srcLoop g f stack vis sources = .ok l ∧ l.Nodup ∧ ∀ x, x ∈ l ↔ IsSourceOf g v0 x := by
  intro f
  induction f with
  | zero => intro _ _ _ _ h; omega
  | succ f ih =>
    intro stack vis sources inv hlen
    cases stack with
    | nil =>
      refine ⟨sources, rfl, inv.nodup, ?_⟩
      intro x
      constructor
      · intro hx; exact (inv.src x hx).2
      · intro hx
        have hv0 : v0 ∈ vis := by
          rcases inv.start with h | h
          · exact h
          · simp at h
        have hxv : x ∈ vis := by
          refine reach_back hg vis ?_ hx.2.2 hv0
          intro u hu p hp
          rcases (inv.closed u hu).2 p hp with h | h
          · exact h
          · simp at h
        exact (inv.closed x hxv).1 ((preds_eq_nil hg x).2 hx.2.1)
    | cons v st =>
      have hvk := (inv.stk v (by simp)).1
      have hvr := (inv.stk v (by simp)).2
      have hk : (keys g).contains v = true := by simpa using hvk
      simp only [srcLoop, hk, Bool.not_true, Bool.false_eq_true, if_false]
      simp only [List.length_cons] at hlen
      by_cases hn : v ∈ vis
      · have hb : vis.contains v = true := by simpa using hn
        simp only [hb, if_true]
        apply ih _ _ _ _ (by omega)
        constructor
        · intro u hu; exact inv.stk u (List.mem_cons_of_mem _ hu)
        · exact inv.src
        · exact inv.nodup
        · intro u hu
          refine ⟨(inv.closed u hu).1, ?_⟩
          intro p hp
          rcases (inv.closed u hu).2 p hp with h | h
          · exact Or.inl h
          · rcases List.mem_cons.1 h with h | h
            · exact Or.inl (h ▸ hn)
            · exact Or.inr h
        · rcases inv.start with h | h
          · exact Or.inl h
          · rcases List.mem_cons.1 h with h | h
            · exact Or.inl (h ▸ hn)
            · exact Or.inr h
      · have hb : vis.contains v = false := by simpa using hn
        simp only [hb, Bool.false_eq_true, if_false]
        have hdrop := unvisK_add g vis v hvk hn
        have hmul : (keys g).length * unvisK g (vis ++ [v]) + (keys g).length
            ≤ (keys g).length * unvisK g vis := by
          have := Nat.mul_le_mul_left (keys g).length hdrop
          rw [Nat.mul_succ] at this; exact this
        by_cases hp : preds g v = []
        · have he : (preds g v).isEmpty = true := by simp [hp]
          simp only [he, if_true]
          apply ih _ _ _ _ (by omega)
          constructor
          · intro u hu; exact inv.stk u (List.mem_cons_of_mem _ hu)
          · intro x hx
            rcases List.mem_append.1 hx with hx | hx
            · exact ⟨by simp [(inv.src x hx).1], (inv.src x hx).2⟩
            · have : x = v := by simpa using hx
              subst this
              exact ⟨by simp, hvk, (preds_eq_nil hg x).1 hp, hvr⟩
          · refine List.nodup_append.2 ⟨inv.nodup, by simp, ?_⟩
            intro a ha b hb'
            have : b = v := by simpa using hb'
            subst this
            intro e; subst e
            exact hn (inv.src a ha).1
          · intro u hu
            rcases List.mem_append.1 hu with hu | hu
            · refine ⟨fun h => by simp [(inv.closed u hu).1 h], ?_⟩
              intro p hp'
              rcases (inv.closed u hu).2 p hp' with h | h
              · exact Or.inl (by simp [h])
              · rcases List.mem_cons.1 h with h | h
                · exact Or.inl (by simp [h])
                · exact Or.inr h
            · have : u = v := by simpa using hu
              subst this
              refine ⟨fun _ => by simp, ?_⟩
              intro p hp'
              rw [hp] at hp'; simp at hp'
          · rcases inv.start with h | h
            · exact Or.inl (by simp [h])
            · rcases List.mem_cons.1 h with h | h
              · exact Or.inl (by simp [h])
              · exact Or.inr h
        · have he : (preds g v).isEmpty = false := by simp [hp]
          simp only [he, Bool.false_eq_true, if_false]
          have hpl := preds_length_le g v
          apply ih _ _ _ _ (by simp only [List.length_append, List.length_reverse]; omega)
          constructor
          · intro u hu
            rcases List.mem_append.1 hu with hu | hu
            · have hu' : u ∈ preds g v := by simpa using hu
              have hadj := (mem_preds hg v u).1 hu'
              exact ⟨key_of_mem_adj hadj, Reach.trans (Reach.step (Reach.refl u) hadj hvk) hvr⟩
            · exact inv.stk u (List.mem_cons_of_mem _ hu)
          · intro x hx
            exact ⟨by simp [(inv.src x hx).1], (inv.src x hx).2⟩
          · exact inv.nodup
          · intro u hu
            rcases List.mem_append.1 hu with hu | hu
            · refine ⟨(inv.closed u hu).1, ?_⟩
              intro p hp'
              rcases (inv.closed u hu).2 p hp' with h | h
              · exact Or.inl (by simp [h])
              · rcases List.mem_cons.1 h with h | h
                · exact Or.inl (by simp [h])
                · exact Or.inr (by simp [h])
            · have : u = v := by simpa using hu
              subst this
              refine ⟨fun h => absurd h hp, ?_⟩
              intro p hp'
              exact Or.inr (by simp [hp'])
          · rcases inv.start with h | h
            · exact Or.inl (by simp [h])
            · rcases List.mem_cons.1 h with h | h
              · exact Or.inl (by simp [h])
              · exact Or.inr (by simp [h])

theorem findSources_correct {g : Graph} (hg : WFG g) (v : Nat) (hv : v ∈ keys g) :
    ∃ l, findSources g v = .ok l ∧ l.Nodup ∧ ∀ x, x ∈ l ↔ IsSourceOf g v x := by
  unfold findSources
  apply srcLoop_correct hg v
  · constructor
    · intro u hu
      have : u = v := by simpa using hu
      subst this; exact ⟨hv, Reach.refl _⟩
    · intro x hx; simp at hx
    · simp
    · intro u hu; simp at hu
    · exact Or.inr (by simp)
  · have := unvisK_le g []
    have := Nat.mul_le_mul_left (keys g).length this
    unfold srcFuel
    simp only [List.length_cons, List.length_nil]; omega

theorem findSources_keyError (g : Graph) (v : Nat) (hv : v ∉ keys g) :
    findSources g v = .keyError := by
  have : srcFuel g = ((keys g).length * (keys g).length + (keys g).length + 1) + 1 := rfl
  unfold findSources
  rw [this]
  simp [srcLoop, hv]

end Heph.Graph
