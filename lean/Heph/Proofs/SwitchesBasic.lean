import Heph.Model.Switches
import Heph.Proofs.TypesBasic
/-!
# Helper lemmas for C17: `subnodes` is the reflexive-transitive closure of `children`;
  unfolding of `switchesOK`
-/
namespace Heph.Switches
open Heph Heph.Ty

theorem mem_subnodesL {l : List Node} {e : Node} : e ∈ subnodesL l ↔ ∃ u ∈ l, e ∈ subnodes u := by
  induction l with
  | nil => simp [subnodesL]
  | cons a as ih => simp [subnodesL, ih]

theorem mem_subnodesO {o : Option Node} {e : Node} : e ∈ subnodesO o ↔ ∃ u, o = some u ∧ e ∈ subnodes u := by
  cases o <;> simp [subnodesO]

theorem mem_subnodesOL {o : Option (List Node)} {e : Node} :
    e ∈ subnodesOL o ↔ ∃ l, o = some l ∧ e ∈ subnodesL l := by
  cases o <;> simp [subnodesOL]

theorem self_mem_subnodes (n : Node) : n ∈ subnodes n := by
  cases n <;> simp [subnodes]

/-- `subnodes n` is `n` followed by the sub-nodes of its children -/
theorem subnodes_eq (n : Node) : subnodes n = n :: subnodesL (children n) := by
  have app : ∀ (a b : List Node), subnodesL (a ++ b) = subnodesL a ++ subnodesL b := by
    intro a b
    induction a with
    | nil => simp [subnodesL]
    | cons x xs ih => simp [subnodesL, ih]
  have one : ∀ (x : Node), subnodesL [x] = subnodes x := by intro x; simp [subnodesL]
  have opt : ∀ (o : Option Node), subnodesL o.toList = subnodesO o := by
    intro o; cases o <;> simp [subnodesL, subnodesO]
  cases n with
  | superInst t a => cases a <;> simp [subnodes, children, subnodesOL, subnodesL]
  | assign nm e r => simp [subnodes, children, subnodesL, opt]
  | binop k l r op => simp [subnodes, children, subnodesL]
  | cond c t f ty => simp [subnodes, children, subnodesL]
  | _ => simp [subnodes, children, subnodesL, app, one, opt]

theorem child_mem_subnodes {n c : Node} (h : c ∈ children n) : c ∈ subnodes n := by
  rw [subnodes_eq]
  exact List.mem_cons_of_mem _ (mem_subnodesL.2 ⟨c, h, self_mem_subnodes c⟩)

end Heph.Switches

namespace Heph.Switches
open Heph

theorem sizeOf_child {n c : Node} (h : c ∈ children n) : sizeOf c < sizeOf n := by
  have L : ∀ {l : List Node}, c ∈ l → sizeOf c < sizeOf l := fun h => List.sizeOf_lt_of_mem h
  have O : ∀ {o : Option Node}, c ∈ o.toList → sizeOf c < sizeOf o := by
    intro o h; cases o <;> simp at h; subst h; simp
  cases n <;> simp only [children, List.mem_append, List.mem_cons, List.not_mem_nil, or_false] at h
  case block b f => have := L h; simp; omega
  case superInst t a =>
    cases a with
    | none => simp at h
    | some l => have := L (l := l) (by simpa using h); simp; omega
  case classDecl nm ct fin fs ss fns tps =>
    rcases h with h | h | h <;> have := L h <;> simp <;> omega
  case varDecl => subst h; simp; omega
  case callArg => subst h; simp; omega
  case paramDecl nm t va d => have := O h; simp; omega
  case funcDecl nm ps rt it b fin ov tps ft =>
    rcases h with h | h
    · have := L h; simp; omega
    · have := O h; simp; omega
  case lambda nm ps rt b sg =>
    rcases h with h | h
    · have := L h; simp; omega
    · subst h; simp; omega
  case funcRef f r sg => have := O h; simp; omega
  case arrayE t n es => have := L h; simp; omega
  case isE => subst h; simp; omega
  case binop => rcases h with h | h <;> subst h <;> simp <;> omega
  case cond => rcases h with h | h | h <;> subst h <;> simp <;> omega
  case newE t a ci => have := L h; simp; omega
  case fieldAccess => subst h; simp; omega
  case call f a r ta ci rc =>
    rcases h with h | h
    · have := L h; simp; omega
    · have := O h; simp; omega
  case assign nm e r =>
    rcases h with h | h
    · subst h; simp; omega
    · have := O h; simp; omega
  all_goals exact absurd h (by simp)

/-- sub-nodes of sub-nodes are sub-nodes -/
theorem subnodes_trans : ∀ (n x y : Node), x ∈ subnodes n → y ∈ subnodes x → y ∈ subnodes n := by
  suffices H : ∀ (k : Nat) (n : Node), sizeOf n = k → ∀ x y, x ∈ subnodes n → y ∈ subnodes x → y ∈ subnodes n from
    fun n => H _ n rfl
  intro k
  induction k using Nat.strongRecOn with
  | _ k ih =>
    intro n hk x y hx hy
    rw [subnodes_eq n] at hx
    cases hx with
    | head => exact hy
    | tail _ hx =>
      obtain ⟨c, hc, hxc⟩ := mem_subnodesL.1 hx
      rw [subnodes_eq n]
      have hlt := sizeOf_child hc
      exact List.mem_cons_of_mem _ (mem_subnodesL.2 ⟨c, hc, ih (sizeOf c) (by omega) c rfl x y hxc hy⟩)

/-- reachability by child steps -/
inductive Reach : Node → Node → Prop
  | refl (n : Node) : Reach n n
  | step {n m c : Node} : Reach n m → c ∈ children m → Reach n c

/-- `subnodes n` is exactly the set of nodes reachable from `n` by child steps -/
theorem mem_subnodes_iff_reach (n m : Node) : m ∈ subnodes n ↔ Reach n m := by
  constructor
  · suffices H : ∀ (k : Nat) (n : Node), sizeOf n = k → m ∈ subnodes n → Reach n m from H _ n rfl
    intro k
    induction k using Nat.strongRecOn with
    | _ k ih =>
      intro n hk h
      rw [subnodes_eq n] at h
      cases h with
      | head => exact Reach.refl _
      | tail _ h =>
        obtain ⟨c, hc, hmc⟩ := mem_subnodesL.1 h
        have hlt := sizeOf_child hc
        have r1 : Reach c m := ih (sizeOf c) (by omega) c rfl hmc
        have r0 : Reach n c := Reach.step (Reach.refl n) hc
        clear ih hmc h
        induction r1 with
        | refl => exact r0
        | step _ hc' ih' => exact Reach.step ih' hc'
  · intro h
    induction h with
    | refl => exact self_mem_subnodes _
    | step _ hc ih => exact subnodes_trans _ _ _ ih (child_mem_subnodes hc)

end Heph.Switches
