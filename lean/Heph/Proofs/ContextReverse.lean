import Heph.Proofs.ContextCurrent
/-! The reverse index `_namespaces`.  For a value `v` that the history only ever adds at one
site `(k, ns, nm)`: as long as `v` is *live* there (in the map of kind `k` and, for
functions/variables/classes, in `decls`), `get_namespace v = ns`. -/
namespace Heph.Context

theorem getNamespace_addEntity (c : Ctx) (ns' : Ns) (k' : Kind) (nm' : String) (w v : Val) :
    getNamespace (addEntity c ns' k' nm' w) v = if w = v then some ns' else getNamespace c v := by
  simp only [getNamespace, addEntity, aGet_aSet]

theorem removeEntity_cases (c : Ctx) (ns' : Ns) (k' : Kind) (nm' : String) :
    (removeEntity c ns' k' nm' = c) ∨
    (∃ decl, aGet (current c ns' k') nm' = some decl ∧
      ∀ v, getNamespace (removeEntity c ns' k' nm') v = if decl = v then none else getNamespace c v) := by
  unfold removeEntity current
  cases aGet c.context ns' with
  | none => exact Or.inl rfl
  | some e =>
    simp only
    cases hn : aGet (e.get k') nm' with
    | none => exact Or.inl rfl
    | some decl =>
      refine Or.inr ⟨decl, rfl, ?_⟩
      intro v
      simp only [getNamespace, aGet_aDel]

/-- `(ns', k', nm')` is one of the places where `add k ns nm _` writes -/
def atSite (k : EKind) (ns : Ns) (nm : String) (ns' : Ns) (k' : Kind) (nm' : String) : Prop :=
  ns' = ns ∧ nm' = nm ∧ (k' = k.toKind ∨ (k.binds = true ∧ k' = .decls))

/-- `v` is where `add k ns nm v` put it -/
def live (c : Ctx) (k : EKind) (ns : Ns) (nm : String) (v : Val) : Prop :=
  aGet (current c ns k.toKind) nm = some v ∧ (k.binds = true → aGet (current c ns .decls) nm = some v)

structure RevInv (c : Ctx) (k : EKind) (ns : Ns) (nm : String) (v : Val) : Prop where
  only : ∀ ns' k' nm', aGet (current c ns' k') nm' = some v → atSite k ns nm ns' k' nm'
  rev : live c k ns nm v → getNamespace c v = some ns

theorem RevInv.empty (k : EKind) (ns : Ns) (nm : String) (v : Val) : RevInv Ctx.empty k ns nm v :=
  ⟨fun _ _ _ h => by simp [current_empty] at h, fun h => by simp [live, current_empty] at h⟩

/-- adding another value keeps the invariant -/
theorem RevInv.addOther {c : Ctx} {k : EKind} {ns : Ns} {nm : String} {v : Val}
    (h : RevInv c k ns nm v) (ns' : Ns) (k' : Kind) (nm' : String) (w : Val) (hw : w ≠ v) :
    RevInv (addEntity c ns' k' nm' w) k ns nm v := by
  have key : ∀ ns'' k'' nm'', aGet (current (addEntity c ns' k' nm' w) ns'' k'') nm'' = some v →
      aGet (current c ns'' k'') nm'' = some v := by
    intro ns'' k'' nm'' h1
    rw [current_addEntity] at h1
    split at h1
    · rw [aGet_aSet] at h1
      split at h1
      · exact absurd (Option.some.inj h1) hw
      · exact h1
    · exact h1
  constructor
  · intro ns'' k'' nm'' h1; exact h.only _ _ _ (key _ _ _ h1)
  · intro hl
    rw [getNamespace_addEntity, if_neg hw]
    exact h.rev ⟨key _ _ _ hl.1, fun hb => key _ _ _ (hl.2 hb)⟩

/-- adding `v` itself at its site keeps the invariant -/
theorem RevInv.addSelf {c : Ctx} {k : EKind} {ns : Ns} {nm : String} {v : Val}
    (h : RevInv c k ns nm v) (k' : Kind) (hk : k' = k.toKind ∨ (k.binds = true ∧ k' = .decls)) :
    RevInv (addEntity c ns k' nm v) k ns nm v := by
  constructor
  · intro ns'' k'' nm'' h1
    rw [current_addEntity] at h1
    split at h1
    · rename_i hc
      rw [aGet_aSet] at h1
      split at h1
      · rename_i hnm
        exact ⟨hc.1.symm, hnm.symm, hc.2 ▸ hk⟩
      · exact h.only _ _ _ h1
    · exact h.only _ _ _ h1
  · intro _
    rw [getNamespace_addEntity, if_pos rfl]

theorem RevInv.removeEntity {c : Ctx} {k : EKind} {ns : Ns} {nm : String} {v : Val}
    (h : RevInv c k ns nm v) (ns' : Ns) (k' : Kind) (nm' : String) :
    RevInv (removeEntity c ns' k' nm') k ns nm v := by
  have key : ∀ ns'' k'' nm'', aGet (current (Heph.Context.removeEntity c ns' k' nm') ns'' k'') nm'' = some v →
      aGet (current c ns'' k'') nm'' = some v := by
    intro ns'' k'' nm'' h1
    rw [current_removeEntity] at h1
    split at h1
    · rw [aGet_aDel] at h1
      split at h1
      · cases h1
      · exact h1
    · exact h1
  constructor
  · intro ns'' k'' nm'' h1; exact h.only _ _ _ (key _ _ _ h1)
  · intro hl
    have hlive : live c k ns nm v := ⟨key _ _ _ hl.1, fun hb => key _ _ _ (hl.2 hb)⟩
    rcases removeEntity_cases c ns' k' nm' with h0 | ⟨decl, hd, hrev⟩
    · rw [h0]; exact h.rev hlive
    · rw [hrev]
      by_cases hdv : decl = v
      · -- the removed entry held `v`: it was at the site, so `v` is no longer live
        exfalso
        subst hdv
        obtain ⟨h1, h2, h3⟩ := h.only _ _ _ hd
        subst h1; subst h2
        have gone : aGet (current (Heph.Context.removeEntity c ns' k' nm') ns' k') nm' = none := by
          rw [current_removeEntity, if_pos ⟨rfl, rfl⟩, aGet_aDel, if_pos rfl]
        rcases h3 with h3 | ⟨hb, h3⟩
        · subst h3; have := hl.1; rw [gone] at this; cases this
        · subst h3; have := hl.2 hb; rw [gone] at this; cases this
      · rw [if_neg hdv]; exact h.rev hlive

theorem RevInv.removeNamespace {c : Ctx} {k : EKind} {ns : Ns} {nm : String} {v : Val}
    (h : RevInv c k ns nm v) (ns' : Ns) : RevInv (removeNamespace c ns') k ns nm v := by
  have key : ∀ ns'' k'' nm'', aGet (current (Heph.Context.removeNamespace c ns') ns'' k'') nm'' = some v →
      aGet (current c ns'' k'') nm'' = some v := by
    intro ns'' k'' nm'' h1
    rw [current_removeNamespace] at h1
    split at h1
    · cases h1
    · exact h1
  constructor
  · intro ns'' k'' nm'' h1; exact h.only _ _ _ (key _ _ _ h1)
  · intro hl
    have : getNamespace (Heph.Context.removeNamespace c ns') v = getNamespace c v := rfl
    rw [this]
    exact h.rev ⟨key _ _ _ hl.1, fun hb => key _ _ _ (hl.2 hb)⟩

/-- one operation of a history that adds `v` only at `(k, ns, nm)` -/
theorem RevInv.step {c : Ctx} {k : EKind} {ns : Ns} {nm : String} {v : Val}
    (h : RevInv c k ns nm v) (op : Op)
    (hop : ∀ k' ns' nm', op = .add k' ns' nm' v → k' = k ∧ ns' = ns ∧ nm' = nm) :
    RevInv (Heph.Context.step c op) k ns nm v := by
  cases op with
  | add k' ns' nm' w =>
    simp only [Heph.Context.step, addK]
    by_cases hw : w = v
    · subst hw
      obtain ⟨h1, h2, h3⟩ := hop k' ns' nm' rfl
      subst h1; subst h2; subst h3
      have a1 := h.addSelf k'.toKind (Or.inl rfl)
      by_cases hb : k'.binds = true
      · rw [if_pos hb]; exact a1.addSelf .decls (Or.inr ⟨hb, rfl⟩)
      · rw [if_neg hb]; exact a1
    · have a1 := h.addOther ns' k'.toKind nm' w hw
      by_cases hb : k'.binds = true
      · rw [if_pos hb]; exact a1.addOther ns' .decls nm' w hw
      · rw [if_neg hb]; exact a1
  | remove k' ns' nm' =>
    simp only [Heph.Context.step, removeK]
    have a1 := h.removeEntity ns' k'.toKind nm'
    by_cases hb : k'.binds = true
    · rw [if_pos hb]; exact a1.removeEntity ns' .decls nm'
    · rw [if_neg hb]; exact a1
  | removeNamespace ns' => exact h.removeNamespace ns'

theorem RevInv.foldl {k : EKind} {ns : Ns} {nm : String} {v : Val} (ops : List Op) (c : Ctx)
    (h : RevInv c k ns nm v)
    (hops : ∀ k' ns' nm', Op.add k' ns' nm' v ∈ ops → k' = k ∧ ns' = ns ∧ nm' = nm) :
    RevInv (ops.foldl Heph.Context.step c) k ns nm v := by
  induction ops generalizing c with
  | nil => exact h
  | cons op r ih =>
    simp only [List.foldl_cons]
    apply ih
    · apply h.step
      intro k' ns' nm' e
      exact hops k' ns' nm' (e ▸ List.mem_cons_self)
    · intro k' ns' nm' hm
      exact hops k' ns' nm' (List.mem_cons_of_mem _ hm)

theorem revInv_run (ops : List Op) (k : EKind) (ns : Ns) (nm : String) (v : Val)
    (hops : ∀ k' ns' nm', Op.add k' ns' nm' v ∈ ops → k' = k ∧ ns' = ns ∧ nm' = nm) :
    RevInv (run ops) k ns nm v :=
  RevInv.foldl ops Ctx.empty (RevInv.empty k ns nm v) hops

/-- right after an `add`, the reverse lookup of the added value answers the namespace -/
theorem getNamespace_addK (c : Ctx) (k : EKind) (ns : Ns) (nm : String) (v : Val) :
    getNamespace (addK c k ns nm v) v = some ns := by
  unfold addK
  by_cases hb : k.binds = true
  · simp [hb, getNamespace_addEntity]
  · simp [hb, getNamespace_addEntity]

end Heph.Context
