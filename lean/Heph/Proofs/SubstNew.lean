import Heph.Proofs.SubstEmpty
/-!
# Instantiation (`TypeConstructor.new`) against substitution on syntax (helper lemmas of C07)
-/
namespace Heph.Ty

mutual
theorem hasTV_of_mentionsTV : ∀ t, mentionsTV t = false → hasTV t = false
  | builtin .., _ => by simp [hasTV]
  | simple .., _ => by simp [hasTV]
  | tparam .., h => by simp [mentionsTV] at h
  | tcon .., h => by simp [mentionsTV] at h
  | wild v b, h => by
      simp only [mentionsTV] at h
      simp only [hasTV, hasTVO_of_mentionsTVO b h]
  | param nm con args ss, h => by
      simp only [mentionsTV, Bool.or_eq_false_iff] at h
      simp only [hasTV, hasTVL_of_mentionsTVL args h.1]
  | nothing, _ => by simp [hasTV]
  | ext _, _ => by simp [hasTV]
theorem hasTVL_of_mentionsTVL : ∀ l, mentionsTVL l = false → hasTVL l = false
  | [], _ => by simp [hasTVL]
  | x :: xs, h => by
      simp only [mentionsTVL, Bool.or_eq_false_iff] at h
      simp [hasTVL, hasTV_of_mentionsTV x h.1, hasTVL_of_mentionsTVL xs h.2]
theorem hasTVO_of_mentionsTVO : ∀ o, mentionsTVO o = false → hasTVO o = false
  | none, _ => by simp [hasTVO]
  | some x, h => by
      simp only [mentionsTVO] at h
      simp [hasTVO, hasTV_of_mentionsTV x h]
end

/-- the declared supertypes under a map: parameterized ones are substituted, the others kept -/
theorem instSupsS_eq_map (σ : TMap) : ∀ css : List Ty,
    instSupsS css σ = css.map (fun d => if d.isParam then substS σ d else d)
  | [] => by simp [instSupsS]
  | t :: rest => by
      cases t <;> simp [instSupsS, isParam, instSupsS_eq_map σ rest]

/-- a map that binds every member of `ps` binds everything `==` to a member of `ps` -/
theorem TMap.covers_of_get {σ : TMap} {ps : List Ty}
    (h : ∀ p ∈ ps, (σ.get p).isSome = true) : σ.covers ps := by
  intro x hx
  unfold memBeq at hx
  rw [List.any_eq_true] at hx
  obtain ⟨e, he, hb⟩ := hx
  have := h e he
  rw [TMap.get_isSome, TMap.hasKey_iff] at this ⊢
  obtain ⟨p, hp, hpe⟩ := this
  exact ⟨p, hp, beq_trans _ _ _ hpe hb⟩

theorem closedCon_supsWithin (c : Ty) (h : closedCon c = true) :
    supsWithin (conParams c) (conSups c) = true := by
  cases c <;> simp_all [closedCon, conParams, conSups, supsWithin]

theorem tconNew_sups (con : Ty) (args : List Ty) :
    (tconNew con args).sups = performSubstL (conSups con) (TMap.mk (conParams con) args) := by
  simp only [tconNew, sups, conSups_performSubst]

theorem conSups_conWithSups (c : Ty) (ss : List Ty) :
    conSups (conWithSups c ss) = if c.isTCon then ss else [] := by
  cases c <;> simp [conWithSups, conSups, isTCon]

theorem conWithSups_performSubst (c : Ty) (m : TMap) :
    conWithSups (performSubst c m) (conSups c) = c := by
  cases c <;> simp [conWithSups, performSubst, conSups]

theorem tconNew_eq (con : Ty) (args : List Ty) :
    tconNew con args =
      param (conName con) con args (performSubstL (conSups con) (TMap.mk (conParams con) args)) := by
  simp only [tconNew, conWithSups_performSubst, conSups_performSubst]

/-- the supertypes of an instance of a closed class at type-variable-free arguments are the
    declared ones under the syntactic substitution -/
theorem tconNew_sups_eq (con : Ty) (args : List Ty) (h : hasTVL args = false)
    (hcl : closedCon con = true) (hlen : (conParams con).length ≤ args.length) :
    (tconNew con args).sups = instSupsS (conSups con) (TMap.mk (conParams con) args) := by
  rw [tconNew_sups]
  exact performSubstL_eq _ _ (conParams con)
    (TMap.mk_pres (hasTV · = false) _ _ (hasTVL_false_mem h))
    (TMap.mk_covers _ _ hlen) (closedCon_supsWithin con hcl)

theorem mem_instSupsS_param {σ : TMap} {s : Ty} : ∀ {css : List Ty}, s ∈ instSupsS css σ →
    s.isParam = true → ∃ nm c as ss, param nm c as ss ∈ css ∧ s = substS σ (param nm c as ss) := by
  intro css hs hp
  rw [instSupsS_eq_map, List.mem_map] at hs
  obtain ⟨d, hd, rfl⟩ := hs
  cases d with
  | param nm c as ss => exact ⟨nm, c, as, ss, hd, by simp [isParam]⟩
  | _ => simp [isParam] at hp

theorem supsWithin_mem {cps : List Ty} : ∀ {css : List Ty}, supsWithin cps css = true →
    ∀ {nm c as ss}, param nm c as ss ∈ css → tvarsWithin cps (param nm c as ss) = true
  | [], _, _, _, _, _, hm => by simp at hm
  | t :: rest, h, nm, c, as, ss, hm => by
      simp only [List.mem_cons] at hm
      cases t with
      | param nm' c' as' ss' =>
        simp only [supsWithin, Bool.and_eq_true] at h
        rcases hm with hm | hm
        · rw [hm]; exact h.1
        · exact supsWithin_mem h.2 hm
      | _ =>
        simp only [supsWithin, Bool.and_eq_true] at h
        rcases hm with hm | hm
        · cases hm
        · exact supsWithin_mem h.2 hm

/-- results of `new` are consistent (when their arguments are) -/
theorem tconNew_consistent (con : Ty) (args : List Ty) (ha : ConsistentL args) :
    Consistent (tconNew con args) := by
  rw [tconNew_eq]
  simp only [Consistent]
  exact ⟨trivial, ha, trivial⟩

end Heph.Ty
