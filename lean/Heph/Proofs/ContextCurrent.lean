import Heph.Spec.Context
import Heph.Proofs.ContextBasic
/-! `current (run ops) ns k = specCurrent ops ns k`: every map of every namespace of the model
is the insertion-ordered dictionary the specification computes from the history. -/
namespace Heph.Context

theorem current_addEntity (c : Ctx) (ns0 : Ns) (k0 : Kind) (name : String) (v : Val) (ns : Ns) (k : Kind) :
    current (addEntity c ns0 k0 name v) ns k =
      if ns0 = ns ∧ k0 = k then aSet (current c ns k) name v else current c ns k := by
  unfold current addEntity
  simp only [aGet_aSet]
  by_cases h : ns0 = ns
  · subst h
    simp only [if_true, true_and, Entities.get_set]
    cases hg : aGet c.context ns0 <;> by_cases hk : k0 = k <;> simp [hk, Entities.get]
    · cases k <;> rfl
    · cases k <;> rfl
  · simp [h]

theorem current_removeEntity (c : Ctx) (ns0 : Ns) (k0 : Kind) (name : String) (ns : Ns) (k : Kind) :
    current (removeEntity c ns0 k0 name) ns k =
      if ns0 = ns ∧ k0 = k then aDel (current c ns k) name else current c ns k := by
  unfold removeEntity
  cases hg : aGet c.context ns0 with
  | none =>
    simp only
    split
    · rename_i h; obtain ⟨h1, _⟩ := h; subst h1
      simp [current, hg, aDel]
    · rfl
  | some e =>
    simp only
    cases hn : aGet (e.get k0) name with
    | none =>
      simp only
      split
      · rename_i h; obtain ⟨h1, h2⟩ := h; subst h1; subst h2
        simp only [current, hg]
        exact (aDel_of_absent _ _ hn).symm
      · rfl
    | some decl =>
      simp only [current, aGet_aSet]
      by_cases h : ns0 = ns
      · subst h
        simp only [if_true, true_and, Entities.get_set, hg]
        by_cases hk : k0 = k <;> simp [hk]
      · simp [h]

theorem current_removeNamespace (c : Ctx) (ns0 ns : Ns) (k : Kind) :
    current (removeNamespace c ns0) ns k = if ns0 = ns then [] else current c ns k := by
  unfold current removeNamespace
  simp only [aGet_aDel]
  by_cases h : ns0 = ns <;> simp [h]

/-- one operation acts on map `k` of namespace `ns` exactly as the specification says,
    whatever the state -/
theorem current_step (c : Ctx) (op : Op) (ns : Ns) (k : Kind) :
    current (step c op) ns k = specStep ns k (current c ns k) op := by
  cases op with
  | add k' ns' nm v =>
    simp only [step, addK, specStep, writes]
    by_cases hb : k'.binds
    · simp only [hb, if_true, current_addEntity, Bool.true_and, Bool.or_eq_true, beq_iff_eq]
      by_cases hns : ns' = ns
      · subst hns
        by_cases h1 : k'.toKind = k
        · have : Kind.decls ≠ k := fun h => toKind_ne_decls k' (h1.trans h.symm)
          simp [h1, this]
        · by_cases h2 : Kind.decls = k
          · simp [h1, h2]
          · have : ¬ k = Kind.decls := fun h => h2 h.symm
            simp [h1, h2, this]
      · simp [hns]
    · simp only [hb, Bool.false_eq_true, if_false, current_addEntity, Bool.false_and, Bool.or_false,
        beq_iff_eq]
  | remove k' ns' nm =>
    simp only [step, removeK, specStep, writes]
    by_cases hb : k'.binds
    · simp only [hb, if_true, current_removeEntity, Bool.true_and, Bool.or_eq_true, beq_iff_eq]
      by_cases hns : ns' = ns
      · subst hns
        by_cases h1 : k'.toKind = k
        · have : Kind.decls ≠ k := fun h => toKind_ne_decls k' (h1.trans h.symm)
          simp [h1, this]
        · by_cases h2 : Kind.decls = k
          · simp [h1, h2]
          · have : ¬ k = Kind.decls := fun h => h2 h.symm
            simp [h1, h2, this]
      · simp [hns]
    · simp only [hb, Bool.false_eq_true, if_false, current_removeEntity, Bool.false_and, Bool.or_false,
        beq_iff_eq]
  | removeNamespace ns' =>
    simp only [step, specStep, current_removeNamespace]

theorem current_foldl (ops : List Op) (c : Ctx) (ns : Ns) (k : Kind) :
    current (ops.foldl step c) ns k = ops.foldl (specStep ns k) (current c ns k) := by
  induction ops generalizing c with
  | nil => rfl
  | cons op r ih => simp only [List.foldl_cons, ih, current_step]

theorem current_empty (ns : Ns) (k : Kind) : current Ctx.empty ns k = [] := rfl

theorem current_run (ops : List Op) (ns : Ns) (k : Kind) :
    current (run ops) ns k = specCurrent ops ns k := by
  unfold run specCurrent
  rw [current_foldl, current_empty]

/-! ## the specification dictionaries have unique keys -/

theorem nodup_specStep (ns : Ns) (k : Kind) (acc : Dict) (op : Op) (h : (aKeys acc).Nodup) :
    (aKeys (specStep ns k acc op)).Nodup := by
  cases op with
  | add k' ns' nm v => simp only [specStep]; split; exact nodup_aSet _ _ _ h; exact h
  | remove k' ns' nm => simp only [specStep]; split; exact nodup_aDel _ _ h; exact h
  | removeNamespace ns' => simp only [specStep]; split; simp [aKeys]; exact h

theorem nodup_specCurrent (ops : List Op) (ns : Ns) (k : Kind) : (aKeys (specCurrent ops ns k)).Nodup := by
  unfold specCurrent
  suffices ∀ acc : Dict, (aKeys acc).Nodup → (aKeys (ops.foldl (specStep ns k) acc)).Nodup from
    this [] (by simp [aKeys])
  induction ops with
  | nil => intro acc h; exact h
  | cons op r ih => intro acc h; exact ih _ (nodup_specStep ns k acc op h)

theorem nodup_current_run (ops : List Op) (ns : Ns) (k : Kind) : (aKeys (current (run ops) ns k)).Nodup := by
  rw [current_run]; exact nodup_specCurrent ops ns k

end Heph.Context
