import Heph.Proofs.GraphBasic
/-!
# The two breadth-first searches (`reachable`, `connected`)

Both loops are instances of one generic loop `gbfs step`; `StepSpec` says what one iteration
does to the queue and to the list `rem` of still-unvisited keys, and `gbfs_correct` derives
soundness, completeness and fuel adequacy from it in one induction.  The measure is
`queue.length + rem.length`, which drops by exactly one per iteration.
-/
namespace Heph.Graph

def gbfs (step : Nat → List Nat → List Nat → List Nat × List Nat) (d : Nat) :
    Nat → List Nat → List Nat → Option Bool
  | 0, _, _ => none
  | _+1, [], _ => some false
  | f+1, v :: q, r =>
    if v == d then some true else gbfs step d f (step v q r).1 (step v q r).2

theorem bfs_eq_gbfs (g : Graph) (d f : Nat) (q r : List Nat) :
    bfs g d f q r = gbfs (fun v q r => visitAdj (adj g v) q r) d f q r := by
  induction f generalizing q r with
  | zero => rfl
  | succ f ih =>
    cases q with
    | nil => rfl
    | cons v q => simp only [bfs, gbfs, ih]

theorem cbfs_eq_gbfs (g : Graph) (d f : Nat) (q r : List Nat) :
    cbfs g d f q r = gbfs (fun v q r => connItems v g q r) d f q r := by
  induction f generalizing q r with
  | zero => rfl
  | succ f ih =>
    cases q with
    | nil => rfl
    | cons v q => simp only [cbfs, gbfs, ih]

/-- what one iteration does: the still-unvisited `E`-neighbours of `v` move from `rem` to the
    end of the queue -/
def StepSpec (K : List Nat) (E : Nat → Nat → Prop)
    (step : Nat → List Nat → List Nat → List Nat × List Nat) : Prop :=
  ∀ v q r, r.Nodup → (∀ x ∈ r, x ∈ K) →
    (step v q r).2.Nodup ∧
    (step v q r).1.length + (step v q r).2.length = q.length + r.length ∧
    (∀ x, x ∈ (step v q r).2 ↔ x ∈ r ∧ ¬ E v x) ∧
    ∃ new, (step v q r).1 = q ++ new ∧ ∀ x, x ∈ new ↔ x ∈ r ∧ E v x

structure BInv (K : List Nat) (E : Nat → Nat → Prop) (s d : Nat) (q r : List Nat) : Prop where
  nodup : r.Nodup
  sub : ∀ x ∈ r, x ∈ K
  reach : ∀ v ∈ q, Star E s v
  startK : s ∈ K
  startR : s ∉ r
  closed : ∀ v ∈ K, v ∉ r → v ∉ q → v ≠ d ∧ ∀ w, E v w → w ∉ r

theorem gbfs_correct {K : List Nat} {E : Nat → Nat → Prop}
    {step : Nat → List Nat → List Nat → List Nat × List Nat}
    (hE : ∀ a b, E a b → b ∈ K) (hs : StepSpec K E step) (s d : Nat) :
    ∀ f q r, BInv K E s d q r → q.length + r.length < f →
      (gbfs step d f q r = some true ∧ Star E s d) ∨
      (gbfs step d f q r = some false ∧ ¬ Star E s d) := by
  intro f
  induction f with
  | zero => intro q r _ h; omega
  | succ f ih =>
    intro q r inv hlen
    cases q with
    | nil =>
      right
      refine ⟨rfl, ?_⟩
      intro hstar
      have hP : d ∈ K ∧ d ∉ r := by
        refine Star.closed (P := fun x => x ∈ K ∧ x ∉ r) ?_ hstar ⟨inv.startK, inv.startR⟩
        intro a b ha hab
        exact ⟨hE a b hab, (inv.closed a ha.1 ha.2 (by simp)).2 b hab⟩
      exact (inv.closed d hP.1 hP.2 (by simp)).1 rfl
    | cons v q =>
      simp only [gbfs]
      by_cases hvd : v = d
      · left
        subst hvd
        exact ⟨by simp, inv.reach v (by simp)⟩
      · have hvd' : (v == d) = false := by simpa using hvd
        simp only [hvd', Bool.false_eq_true, if_false]
        obtain ⟨hnd, hl, hrem, new, hq, hnew⟩ := hs v q r inv.nodup inv.sub
        apply ih
        · constructor
          · exact hnd
          · intro x hx; exact inv.sub x ((hrem x).1 hx).1
          · intro w hw
            rw [hq, List.mem_append] at hw
            rcases hw with hw | hw
            · exact inv.reach w (by simp [hw])
            · exact Star.step (inv.reach v (by simp)) ((hnew w).1 hw).2
          · exact inv.startK
          · intro h; exact inv.startR ((hrem s).1 h).1
          · intro u huK hur huq
            rw [hq, List.mem_append] at huq
            have huq1 : u ∉ q := fun c => huq (Or.inl c)
            have hunew : u ∉ new := fun c => huq (Or.inr c)
            have hur0 : u ∉ r := by
              intro c
              by_cases he : E v u
              · exact hunew ((hnew u).2 ⟨c, he⟩)
              · exact hur ((hrem u).2 ⟨c, he⟩)
            by_cases huv : u = v
            · subst huv
              refine ⟨hvd, ?_⟩
              intro w hw c
              exact ((hrem w).1 c).2 hw
            · have := inv.closed u huK hur0 (by simp [huv, huq1])
              refine ⟨this.1, ?_⟩
              intro w hw c
              exact this.2 w hw ((hrem w).1 c).1
        · simp only [List.length_cons] at hlen
          omega

/-! ### `visitAdj` -/

theorem visitAdj_spec (ws : List Nat) : ∀ (q r : List Nat), r.Nodup →
    (visitAdj ws q r).2.Nodup ∧
    (visitAdj ws q r).1.length + (visitAdj ws q r).2.length = q.length + r.length ∧
    (∀ x, x ∈ (visitAdj ws q r).2 ↔ x ∈ r ∧ x ∉ ws) ∧
    ∃ new, (visitAdj ws q r).1 = q ++ new ∧ ∀ x, x ∈ new ↔ x ∈ r ∧ x ∈ ws := by
  induction ws with
  | nil =>
    intro q r hr
    simp only [visitAdj]
    exact ⟨hr, trivial, by simp, [], by simp, by simp⟩
  | cons w ws ih =>
    intro q r hr
    simp only [visitAdj]
    by_cases hw : w ∈ r
    · have hc : r.contains w = true := by simpa using hw
      simp only [hc, if_true]
      obtain ⟨h1, h2, h3, new, h4, h5⟩ := ih (q ++ [w]) (r.erase w) (hr.erase w)
      refine ⟨h1, ?_, ?_, w :: new, ?_, ?_⟩
      · rw [h2, List.length_append, List.length_erase_of_mem hw]
        have : 0 < r.length := List.length_pos_of_mem hw
        simp only [List.length_cons, List.length_nil]; omega
      · intro x
        rw [h3, hr.mem_erase_iff]
        simp only [List.mem_cons, not_or]
        constructor
        · rintro ⟨⟨a, b⟩, c⟩; exact ⟨b, a, c⟩
        · rintro ⟨b, a, c⟩; exact ⟨⟨a, b⟩, c⟩
      · rw [h4]; simp
      · intro x
        simp only [List.mem_cons, h5, hr.mem_erase_iff]
        constructor
        · rintro (rfl | ⟨⟨_, b⟩, c⟩)
          · exact ⟨hw, Or.inl rfl⟩
          · exact ⟨b, Or.inr c⟩
        · rintro ⟨b, c⟩
          by_cases hx : x = w
          · exact Or.inl hx
          · rcases c with c | c
            · exact absurd c hx
            · exact Or.inr ⟨⟨hx, b⟩, c⟩
    · have hc : r.contains w = false := by simpa using hw
      simp only [hc, Bool.false_eq_true, if_false]
      obtain ⟨h1, h2, h3, new, h4, h5⟩ := ih q r hr
      refine ⟨h1, h2, ?_, new, h4, ?_⟩
      · intro x
        rw [h3]
        simp only [List.mem_cons, not_or]
        constructor
        · rintro ⟨a, b⟩; exact ⟨a, fun e => hw (e ▸ a), b⟩
        · rintro ⟨a, _, b⟩; exact ⟨a, b⟩
      · intro x
        rw [h5]
        simp only [List.mem_cons]
        constructor
        · rintro ⟨a, b⟩; exact ⟨a, Or.inr b⟩
        · rintro ⟨a, b | b⟩
          · exact absurd (b ▸ a) hw
          · exact ⟨a, b⟩

theorem stepSpec_reach (g : Graph) :
    StepSpec (keys g) (KeyEdge g) (fun v q r => visitAdj (adj g v) q r) := by
  intro v q r hr hsub
  obtain ⟨h1, h2, h3, new, h4, h5⟩ := visitAdj_spec (adj g v) q r hr
  refine ⟨h1, h2, ?_, new, h4, ?_⟩
  · intro x; rw [h3]
    constructor
    · rintro ⟨a, b⟩; exact ⟨a, fun e => b e.1⟩
    · rintro ⟨a, b⟩; exact ⟨a, fun e => b ⟨e, hsub x a⟩⟩
  · intro x; rw [h5]
    constructor
    · rintro ⟨a, b⟩; exact ⟨a, b, hsub x a⟩
    · rintro ⟨a, b⟩; exact ⟨a, b.1⟩

/-! ### `connItems` -/

/-- the contribution of one dictionary item to the neighbours of `v` -/
def ItemE (v x : Nat) (p : Nat × List Nat) : Prop := (v = p.1 ∧ x ∈ p.2) ∨ (x = p.1 ∧ v ∈ p.2)

theorem connItems_spec (v : Nat) (rest : Graph) : ∀ (q r : List Nat), r.Nodup →
    (connItems v rest q r).2.Nodup ∧
    (connItems v rest q r).1.length + (connItems v rest q r).2.length = q.length + r.length ∧
    (∀ x, x ∈ (connItems v rest q r).2 ↔ x ∈ r ∧ ¬ ∃ p ∈ rest, ItemE v x p) ∧
    ∃ new, (connItems v rest q r).1 = q ++ new ∧ ∀ x, x ∈ new ↔ x ∈ r ∧ ∃ p ∈ rest, ItemE v x p := by
  induction rest with
  | nil =>
    intro q r hr
    simp only [connItems]
    exact ⟨hr, trivial, by simp, [], by simp, by simp⟩
  | cons p rest ih =>
    intro q r hr
    obtain ⟨node, adjs⟩ := p
    simp only [connItems]
    -- first half: the `if next_v == node` loop
    have A : ∃ q1 r1, (if (v == node) = true then visitAdj adjs q r else (q, r)) = (q1, r1) ∧
        r1.Nodup ∧ q1.length + r1.length = q.length + r.length ∧
        (∀ x, x ∈ r1 ↔ x ∈ r ∧ ¬ (v = node ∧ x ∈ adjs)) ∧
        ∃ new, q1 = q ++ new ∧ ∀ x, x ∈ new ↔ x ∈ r ∧ (v = node ∧ x ∈ adjs) := by
      by_cases hv : v = node
      · have hb : (v == node) = true := by simpa using hv
        obtain ⟨h1, h2, h3, new, h4, h5⟩ := visitAdj_spec adjs q r hr
        refine ⟨_, _, by rw [if_pos hb], h1, h2, ?_, new, h4, ?_⟩
        · intro x; rw [h3]; simp [hv]
        · intro x; rw [h5]; simp [hv]
      · have hb : ¬ (v == node) = true := by simpa using hv
        refine ⟨q, r, by rw [if_neg hb], hr, rfl, ?_, [], by simp, ?_⟩
        · intro x; simp [hv]
        · intro x; simp [hv]
    obtain ⟨q1, r1, e1, hr1, hl1, hm1, new1, hq1, hn1⟩ := A
    rw [e1]
    simp only
    -- second half: `if next_v in adjs and not visited[node]`
    have B : ∃ q2 r2, (if (adjs.contains v && r1.contains node) = true
          then (q1 ++ [node], r1.erase node) else (q1, r1)) = (q2, r2) ∧
        r2.Nodup ∧ q2.length + r2.length = q.length + r.length ∧
        (∀ x, x ∈ r2 ↔ x ∈ r ∧ ¬ ItemE v x (node, adjs)) ∧
        ∃ new, q2 = q ++ new ∧ ∀ x, x ∈ new ↔ x ∈ r ∧ ItemE v x (node, adjs) := by
      by_cases hc : v ∈ adjs ∧ node ∈ r1
      · have hb : (adjs.contains v && r1.contains node) = true := by simpa using hc
        refine ⟨_, _, by rw [if_pos hb], hr1.erase node, ?_, ?_, new1 ++ [node], ?_, ?_⟩
        · rw [List.length_append, List.length_erase_of_mem hc.2]
          have : 0 < r1.length := List.length_pos_of_mem hc.2
          simp only [List.length_cons, List.length_nil]; omega
        · intro x
          rw [hr1.mem_erase_iff, hm1]
          simp only [ItemE]
          constructor
          · rintro ⟨a, b, c⟩
            exact ⟨b, fun h => h.elim c (fun h => a h.1)⟩
          · rintro ⟨b, c⟩
            exact ⟨fun h => c (Or.inr ⟨h, hc.1⟩), b, fun h => c (Or.inl h)⟩
        · rw [hq1]; simp
        · intro x
          simp only [List.mem_append, hn1, List.mem_singleton, ItemE]
          constructor
          · rintro (⟨a, b⟩ | rfl)
            · exact ⟨a, Or.inl b⟩
            · exact ⟨((hm1 x).1 hc.2).1, Or.inr ⟨rfl, hc.1⟩⟩
          · rintro ⟨a, b | b⟩
            · exact Or.inl ⟨a, b⟩
            · exact Or.inr b.1
      · have hb : ¬ (adjs.contains v && r1.contains node) = true := by simpa using hc
        refine ⟨q1, r1, by rw [if_neg hb], hr1, hl1, ?_, new1, hq1, ?_⟩
        · intro x
          rw [hm1]
          simp only [ItemE]
          constructor
          · rintro ⟨a, b⟩
            refine ⟨a, fun h => h.elim b (fun h => ?_)⟩
            obtain ⟨rfl, h2⟩ := h
            exact hc ⟨h2, (hm1 x).2 ⟨a, b⟩⟩
          · rintro ⟨a, b⟩
            exact ⟨a, fun h => b (Or.inl h)⟩
        · intro x
          rw [hn1]
          simp only [ItemE]
          constructor
          · rintro ⟨a, b⟩; exact ⟨a, Or.inl b⟩
          · rintro ⟨a, b | b⟩
            · exact ⟨a, b⟩
            · obtain ⟨rfl, h2⟩ := b
              by_cases h3 : v = x ∧ x ∈ adjs
              · exact ⟨a, h3⟩
              · exact absurd ⟨h2, (hm1 x).2 ⟨a, h3⟩⟩ hc
    obtain ⟨q2, r2, e2, hr2, hl2, hm2, new2, hq2, hn2⟩ := B
    rw [e2]
    simp only
    obtain ⟨h1, h2, h3, new, h4, h5⟩ := ih q2 r2 hr2
    refine ⟨h1, by rw [h2, hl2], ?_, new2 ++ new, by rw [h4, hq2, List.append_assoc], ?_⟩
    · intro x
      rw [h3, hm2]
      simp only [List.mem_cons, exists_eq_or_imp, not_or, and_assoc]
    · intro x
      simp only [List.mem_append, hn2, h5, hm2, List.mem_cons, exists_eq_or_imp]
      constructor
      · rintro (⟨a, b⟩ | ⟨⟨a, _⟩, b⟩)
        · exact ⟨a, Or.inl b⟩
        · exact ⟨a, Or.inr b⟩
      · rintro ⟨a, b | b⟩
        · exact Or.inl ⟨a, b⟩
        · by_cases h : ItemE v x (node, adjs)
          · exact Or.inl ⟨a, h⟩
          · exact Or.inr ⟨⟨a, h⟩, b⟩

theorem itemE_iff {g : Graph} (hg : WFG g) (v x : Nat) :
    (∃ p ∈ g, ItemE v x p) ↔ x ∈ adj g v ∨ v ∈ adj g x := by
  rw [← exists_entry_iff hg v x, ← exists_entry_iff hg x v]
  simp only [ItemE]
  constructor
  · rintro ⟨p, hp, ⟨a, b⟩ | ⟨a, b⟩⟩
    · exact Or.inl ⟨p, hp, a.symm, b⟩
    · exact Or.inr ⟨p, hp, a.symm, b⟩
  · rintro (⟨p, hp, a, b⟩ | ⟨p, hp, a, b⟩)
    · exact ⟨p, hp, Or.inl ⟨a.symm, b⟩⟩
    · exact ⟨p, hp, Or.inr ⟨a.symm, b⟩⟩

theorem stepSpec_conn {g : Graph} (hg : WFG g) :
    StepSpec (keys g) (Sym g) (fun v q r => connItems v g q r) := by
  intro v q r hr hsub
  obtain ⟨h1, h2, h3, new, h4, h5⟩ := connItems_spec v g q r hr
  have key : ∀ x ∈ r, ((∃ p ∈ g, ItemE v x p) ↔ Sym g v x) := by
    intro x hx
    rw [itemE_iff hg]
    have := hsub x hx
    simp only [Sym, this, and_true]
  refine ⟨h1, h2, ?_, new, h4, ?_⟩
  · intro x; rw [h3]
    constructor
    · rintro ⟨a, b⟩; exact ⟨a, fun e => b ((key x a).2 e)⟩
    · rintro ⟨a, b⟩; exact ⟨a, fun e => b ((key x a).1 e)⟩
  · intro x; rw [h5]
    constructor
    · rintro ⟨a, b⟩; exact ⟨a, (key x a).1 b⟩
    · rintro ⟨a, b⟩; exact ⟨a, (key x a).2 b⟩

/-! ### the top-level queries -/

theorem binv_init {g : Graph} (hg : WFG g) (E : Nat → Nat → Prop) {s : Nat} (hs : s ∈ keys g)
    (d : Nat) : BInv (keys g) E s d [s] ((keys g).erase s) := by
  have hg' : (keys g).Nodup := hg
  constructor
  · exact hg'.erase s
  · intro x hx; exact List.mem_of_mem_erase hx
  · intro v hv
    have : v = s := by simpa using hv
    subst this; exact Star.refl _
  · exact hs
  · intro h; exact ((hg'.mem_erase_iff).1 h).1 rfl
  · intro v hv hvr hvq
    have hne : v ≠ s := by simpa using hvq
    exact absurd ((hg'.mem_erase_iff).2 ⟨hne, hv⟩) hvr

theorem init_len {g : Graph} {s : Nat} (hs : s ∈ keys g) :
    [s].length + ((keys g).erase s).length < (keys g).length + 1 := by
  rw [List.length_erase_of_mem hs]
  have : 0 < (keys g).length := List.length_pos_of_mem hs
  simp only [List.length_cons, List.length_nil]; omega

/-- `reachable` answers, and answers exactly `s ∈ keys g ∧ Reach g s d` -/
theorem reachable_correct {g : Graph} (hg : WFG g) (s d : Nat) :
    (reachable g s d = some true ∧ (s ∈ keys g ∧ Reach g s d)) ∨
    (reachable g s d = some false ∧ ¬ (s ∈ keys g ∧ Reach g s d)) := by
  unfold reachable
  by_cases hs : s ∈ keys g
  · have hc : (keys g).contains s = true := by simpa using hs
    simp only [hc, if_true, bfs_eq_gbfs, reach_iff_star]
    rcases gbfs_correct (fun a b h => h.2) (stepSpec_reach g) s d _ _ _
      (binv_init hg (KeyEdge g) hs d) (init_len hs) with h | h
    · exact Or.inl ⟨h.1, hs, h.2⟩
    · exact Or.inr ⟨h.1, fun c => h.2 c.2⟩
  · have hc : (keys g).contains s = false := by simpa using hs
    simp only [hc, Bool.false_eq_true, if_false]
    exact Or.inr ⟨trivial, fun c => hs c.1⟩

theorem sym_key {g : Graph} {a b : Nat} (h : Sym g a b) : b ∈ keys g := by
  rcases h with h | h <;> exact h.2

/-- `connected` answers, and answers exactly `s ∈ keys g ∧ Conn g s d` -/
theorem connected_correct {g : Graph} (hg : WFG g) (s d : Nat) :
    (connected g s d = some true ∧ (s ∈ keys g ∧ Conn g s d)) ∨
    (connected g s d = some false ∧ ¬ (s ∈ keys g ∧ Conn g s d)) := by
  unfold connected
  by_cases hs : s ∈ keys g
  · have hc : (keys g).contains s = true := by simpa using hs
    simp only [hc, if_true, cbfs_eq_gbfs, conn_iff_star]
    rcases gbfs_correct (fun a b h => sym_key h) (stepSpec_conn hg) s d _ _ _
      (binv_init hg (Sym g) hs d) (init_len hs) with h | h
    · exact Or.inl ⟨h.1, hs, h.2⟩
    · exact Or.inr ⟨h.1, fun c => h.2 c.2⟩
  · have hc : (keys g).contains s = false := by simpa using hs
    simp only [hc, Bool.false_eq_true, if_false]
    exact Or.inr ⟨trivial, fun c => hs c.1⟩

/-- `bi_reachable` -/
theorem biReachable_correct {g : Graph} (hg : WFG g) (s d : Nat) :
    (biReachable g s d = some true ∧ BiReach g s d) ∨
    (biReachable g s d = some false ∧ ¬ BiReach g s d) := by
  unfold biReachable BiReach
  rcases reachable_correct hg s d with h | h
  · rw [h.1]; exact Or.inl ⟨rfl, Or.inl h.2⟩
  · rw [h.1]
    rcases reachable_correct hg d s with h' | h'
    · exact Or.inl ⟨h'.1, Or.inr h'.2⟩
    · exact Or.inr ⟨h'.1, fun c => c.elim h.2 h'.2⟩

end Heph.Graph
