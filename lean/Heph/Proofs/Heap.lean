import Heph.Spec.Heap
namespace Heph.Heap

theorem exec_length_ge (h : Heap) (s : Stmt) : h.length ≤ (exec h s).length := by
  cases s <;> simp [exec]

theorem run_length_ge (h : Heap) (ss : List Stmt) : h.length ≤ (run h ss).length := by
  induction ss generalizing h with
  | nil => simp [run]
  | cons s ss ih =>
    have := ih (exec h s)
    have h2 := exec_length_ge h s
    simp only [run, List.foldl_cons] at *
    omega

theorem exec_preserves (h : Heap) (s : Stmt) (base : Nat) (hb : base ≤ h.length)
    (hs : match s with | .write a _ _ => base ≤ a | .alloc _ => True) :
    ∀ a, a < base → (exec h s)[a]? = h[a]? := by
  intro a ha
  cases s with
  | alloc o =>
    simp only [exec]
    rw [List.getElem?_append_left (by omega)]
  | write b f v =>
    simp only [exec]
    have hs' : base ≤ b := hs
    have : b ≠ a := by
      intro hba
      subst hba
      exact absurd hs' (by omega)
    rw [List.getElem?_modify]
    simp [this]

theorem run_preserves (ss : List Stmt) : ∀ (h : Heap) (base : Nat), base ≤ h.length →
    FreshWrites base ss → ∀ a, a < base → (run h ss)[a]? = h[a]? := by
  induction ss with
  | nil => intro h base _ _ a _; simp [run]
  | cons s ss ih =>
    intro h base hb hf a ha
    have hs := hf s (by simp)
    have hrest : FreshWrites base ss := fun s' hs' => hf s' (by simp [hs'])
    have h1 := exec_preserves h s base hb hs a ha
    have hlen := exec_length_ge h s
    have h2 := ih (exec h s) base (by omega) hrest a ha
    simp only [run, List.foldl_cons] at *
    rw [h2, h1]

end Heph.Heap
