import Heph.Proofs.OracleDict
/-! What the loops of `check_oracle` do when they end without an exception (any variant). -/
namespace Heph.Oracle

/-- one of the two `if`s of the inner loop fires for file `f` -/
def mismatchFile (o : Outcome) (f : Nat × Bool) : Bool :=
  (f.2 && o.isFailed f.1) || (!f.2 && !o.isFailed f.1)

def Prog.mismatch (o : Outcome) (p : Prog) : Bool := p.files.any (mismatchFile o)

theorem any_mismatch (o : Outcome) (l : List (Nat × Bool)) :
    l.any (mismatchFile o) =
      (l.any (fun f => f.2 && o.isFailed f.1) || l.any (fun f => !f.2 && !o.isFailed f.1)) := by
  induction l with
  | nil => rfl
  | cons h t ih =>
    simp only [List.any_cons, ih, mismatchFile]
    cases h.2 <;> cases o.isFailed h.1 <;> simp <;>
      cases (t.any fun f => f.2 && o.isFailed f.1) <;> simp

theorem mismatch_eq (o : Outcome) (p : Prog) :
    p.mismatch o = (p.correctRejected o || p.incorrectAccepted o) := any_mismatch o p.files

theorem incorrectAccepted_hasIncorrect {o : Outcome} {p : Prog} (h : p.incorrectAccepted o = true) :
    p.hasIncorrect = true := by
  unfold Prog.incorrectAccepted at h
  unfold Prog.hasIncorrect
  rw [List.any_eq_true] at h ⊢
  obtain ⟨f, hf, h2⟩ := h
  exact ⟨f, hf, by simp at h2; simp [h2.1]⟩

/-- the decision table without the crash row -/
theorem faulty_noCrash {o : Outcome} (hc : o.crash = none) (p : Prog) :
    faulty o p = (p.toolFailed || p.mismatch o) := by
  unfold faulty
  rw [mismatch_eq, hc]
  cases hia : p.incorrectAccepted o
  · simp
  · simp [incorrectAccepted_hasIncorrect hia]

theorem promote_ok {v : Variant} {fs fs' : FS} {pid : Nat} (h : promote v fs pid = .ok fs') :
    ∀ q, q ∈ fs' ↔ q ∈ fs ∨ q = .saved pid := copytree_ok h

theorem fileStep_ok {v : Variant} {o : Outcome} {inj : Option String} {pid : Nat} {st st' : LoopSt}
    {f : Nat × Bool} (h : fileStep v o inj pid st f = .ok st') :
    (∀ k, k ∈ keys st'.out ↔ k ∈ keys st.out ∨ (k = pid ∧ mismatchFile o f = true)) ∧
    (∀ q, q ∈ st'.fs ↔ q ∈ st.fs ∨ (q = .saved pid ∧ mismatchFile o f = true)) ∧
    (∀ k, k ≠ pid → st'.out.lookup k = st.out.lookup k) := by
  obtain ⟨fid, ex⟩ := f
  cases ex <;> cases hf : o.isFailed fid <;>
    simp only [fileStep, hf, mismatchFile, Bool.and_true, Bool.and_false, Bool.not_true, Bool.not_false,
      Bool.or_false, Bool.or_true, if_true, if_false,
      Bool.false_eq_true, and_false, or_false, and_true] at h ⊢
  · -- expected to be rejected, accepted
    unfold stepIncorrect at h
    split at h
    · cases h
    · rename_i m hm
      simp only at h
      split at h
      · cases h
      · rename_i fs2 hp
        cases h
        refine ⟨fun k => ?_, fun q => ?_, fun k hk => ?_⟩
        · rw [mem_keys_dictSet]; grind
        · exact promote_ok hp q
        · exact lookup_dictSet_ne _ _ _ _ hk
  · cases h; simp
  · cases h; simp
  · -- expected to compile, rejected
    unfold stepCorrect at h
    simp only at h
    split at h
    · cases h
    · rename_i fs2 hp
      cases h
      refine ⟨fun k => ?_, fun q => ?_, fun k hk => ?_⟩
      · rw [mem_keys_dictSet]; grind
      · exact promote_ok hp q
      · exact lookup_dictSet_ne _ _ _ _ hk

theorem filesLoop_ok {v : Variant} {o : Outcome} {inj : Option String} {pid : Nat} :
    ∀ {files : List (Nat × Bool)} {st st' : LoopSt}, filesLoop v o inj pid st files = .ok st' →
    (∀ k, k ∈ keys st'.out ↔ k ∈ keys st.out ∨ (k = pid ∧ files.any (mismatchFile o) = true)) ∧
    (∀ q, q ∈ st'.fs ↔ q ∈ st.fs ∨ (q = .saved pid ∧ files.any (mismatchFile o) = true)) ∧
    (∀ k, k ≠ pid → st'.out.lookup k = st.out.lookup k) := by
  intro files
  induction files with
  | nil => intro st st' h; simp only [filesLoop] at h; cases h; simp
  | cons f t ih =>
    intro st st' h
    simp only [filesLoop] at h
    split at h
    · cases h
    · rename_i st1 h1
      obtain ⟨a1, a2, a3⟩ := fileStep_ok h1
      obtain ⟨b1, b2, b3⟩ := ih h
      refine ⟨fun k => ?_, fun q => ?_, fun k hk => ?_⟩
      · rw [b1, a1, List.any_cons, Bool.or_eq_true]; grind
      · rw [b2, a2, List.any_cons, Bool.or_eq_true]; grind
      · rw [b3 k hk, a3 k hk]

/-- what one round of the outer loop does to `output` and the directories -/
theorem progStep_ok {v : Variant} {o : Outcome} {st st' : Reported × FS} {p : Prog}
    (h : progStep v o st p = .ok st') :
    (∀ k, k ∈ keys st'.1 ↔ k ∈ keys st.1 ∨ (k = p.pid ∧ (p.toolFailed || p.mismatch o) = true)) ∧
    (∀ q, q ∈ st'.2 ↔ (q ∈ st.2 ∨ (p.toolFailed = false ∧ p.mismatch o = true ∧ q = .saved p.pid)) ∧
        (p.toolFailed = false → q ≠ .tmp p.pid)) ∧
    (∀ k, k ≠ p.pid → st'.1.lookup k = st.1.lookup k) := by
  unfold progStep at h
  split at h
  · rename_i ht
    cases h
    refine ⟨fun k => ?_, fun q => ?_, fun k hk => ?_⟩
    · simp only [mem_keys_dictSet, ht, Bool.true_or, and_true]; grind
    · simp [ht]
    · exact lookup_dictSet_ne _ _ _ _ hk
  · rename_i ht
    have ht' : p.toolFailed = false := by simpa using ht
    split at h
    · cases h
    · rename_i ls hl
      split at h
      · cases h
      · rename_i fs2 hr
        cases h
        obtain ⟨a1, a2, a3⟩ := filesLoop_ok hl
        have hrm := rmtree_ok hr
        refine ⟨fun k => ?_, fun q => ?_, fun k hk => ?_⟩
        · simp only [a1, ht', Bool.false_or, Prog.mismatch]
        · simp only [hrm, a2, ht', Prog.mismatch, true_and, forall_const, ne_eq]
          grind
        · exact a3 k hk

theorem progsLoop_ok {v : Variant} {o : Outcome} :
    ∀ {ps : List Prog} {st st' : Reported × FS}, progsLoop v o st ps = .ok st' →
    (∀ k, k ∈ keys st'.1 ↔ k ∈ keys st.1 ∨ ∃ p ∈ ps, p.pid = k ∧ (p.toolFailed || p.mismatch o) = true) ∧
    (∀ q, q ∈ st'.2 ↔ (q ∈ st.2 ∨ ∃ p ∈ ps, p.toolFailed = false ∧ p.mismatch o = true ∧ q = .saved p.pid) ∧
        (∀ p ∈ ps, p.toolFailed = false → q ≠ .tmp p.pid)) := by
  intro ps
  induction ps with
  | nil => intro st st' h; simp only [progsLoop] at h; cases h; simp
  | cons p t ih =>
    intro st st' h
    simp only [progsLoop] at h
    split at h
    · cases h
    · rename_i st1 h1
      obtain ⟨a1, a2, _⟩ := progStep_ok h1
      obtain ⟨b1, b2⟩ := ih h
      refine ⟨fun k => ?_, fun q => ?_⟩
      · rw [b1, a1]; simp only [List.mem_cons, exists_eq_or_imp]; grind
      · rw [b2, a2]; simp only [List.mem_cons, exists_eq_or_imp, forall_eq_or_imp]
        constructor
        · rintro ⟨(⟨h1 | h1, h2⟩ | h1), h3⟩
          · exact ⟨Or.inl h1, h2, h3⟩
          · exact ⟨Or.inr (Or.inl h1), h2, h3⟩
          · refine ⟨Or.inr (Or.inr h1), ?_, h3⟩
            obtain ⟨p', _, _, _, rfl⟩ := h1
            intro _ hq; cases hq
        · rintro ⟨h1 | h1 | h1, h2, h3⟩
          · exact ⟨Or.inl ⟨Or.inl h1, h2⟩, h3⟩
          · exact ⟨Or.inl ⟨Or.inr h1, h2⟩, h3⟩
          · exact ⟨Or.inr h1, h3⟩

theorem crashLoop_ok {v : Variant} {msg : String} :
    ∀ {ps : List Prog} {st st' : Reported × FS}, crashLoop v msg st ps = .ok st' →
    (∀ k, k ∈ keys st'.1 ↔ k ∈ keys st.1 ∨ ∃ p ∈ ps, p.pid = k ∧ (v.crashFix || !p.toolFailed) = true) ∧
    (∀ q, q ∈ st'.2 ↔ q ∈ st.2 ∨ ∃ p ∈ ps, p.toolFailed = false ∧ q = .saved p.pid) := by
  intro ps
  induction ps with
  | nil => intro st st' h; simp only [crashLoop] at h; cases h; simp
  | cons p t ih =>
    intro st st' h
    simp only [crashLoop] at h
    split at h
    · rename_i ht
      split at h
      · rename_i hv
        obtain ⟨b1, b2⟩ := ih h
        refine ⟨fun k => ?_, fun q => ?_⟩
        · rw [b1]; simp only [mem_keys_dictSet, List.mem_cons, exists_eq_or_imp, hv, Bool.true_or, and_true]
          grind
        · rw [b2]; simp only [List.mem_cons, exists_eq_or_imp, ht]; simp
      · rename_i hv
        obtain ⟨b1, b2⟩ := ih h
        refine ⟨fun k => ?_, fun q => ?_⟩
        · rw [b1]; simp only [List.mem_cons, exists_eq_or_imp, ht]
          simp [hv]
        · rw [b2]; simp only [List.mem_cons, exists_eq_or_imp, ht]; simp
    · rename_i ht
      have ht' : p.toolFailed = false := by simpa using ht
      split at h
      · cases h
      · rename_i fs2 hc
        obtain ⟨b1, b2⟩ := ih h
        have hcp := copytree_ok hc
        refine ⟨fun k => ?_, fun q => ?_⟩
        · rw [b1]; simp only [mem_keys_dictSet, List.mem_cons, exists_eq_or_imp, ht', Bool.not_false, Bool.or_true, and_true]
          grind
        · rw [b2]; simp only [hcp, List.mem_cons, exists_eq_or_imp, ht', true_and]
          grind

end Heph.Oracle
