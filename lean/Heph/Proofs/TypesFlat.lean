import Heph.Proofs.TypesBasic
import Heph.Proofs.TypesFuel
import Heph.Proofs.TypesSound
/-!
# Exactness on the non-generic fragment, relative to a consistent universe

`flat` types are built from built-ins (other than the bottom ones) and simple classifiers only.
In a consistent universe `U` (`Spec/Subtyping.lean`), for a flat `s`:
`SubT U s t ↔ t ∈ closure s ↔ isSubtype s t = .yes`.

Also: a decidable structural equality `eqS` and `consistentL`, to establish `Consistent (univ ts)`
of concrete universes by `decide`.
-/
namespace Heph
namespace Ty

/-! ## structural equality, decidable consistency of a finite universe -/

mutual
def eqS : Ty → Ty → Bool
  | builtin c n nt p ss, builtin c' n' nt' p' ss' =>
      c == c' && n == n' && nt == nt' && p == p' && eqSL ss ss'
  | simple n ss, simple n' ss' => n == n' && eqSL ss ss'
  | tparam n v b, tparam n' v' b' => n == n' && v == v' && eqSO b b'
  | wild v b, wild v' b' => v == v' && eqSO b b'
  | tcon c n ps ss, tcon c' n' ps' ss' => c == c' && n == n' && eqSL ps ps' && eqSL ss ss'
  | param n con as ss, param n' con' as' ss' => n == n' && eqS con con' && eqSL as as' && eqSL ss ss'
  | nothing, nothing => true
  | ext c, ext c' => c == c'
  | _, _ => false
def eqSL : List Ty → List Ty → Bool
  | [], [] => true
  | x :: xs, y :: ys => eqS x y && eqSL xs ys
  | _, _ => false
def eqSO : Option Ty → Option Ty → Bool
  | none, none => true
  | some x, some y => eqS x y
  | _, _ => false
end

theorem eqSL_eq {xs : List Ty} (ih : ∀ x ∈ xs, ∀ y, eqS x y = true → x = y) :
    ∀ ys, eqSL xs ys = true → xs = ys := by
  induction xs with
  | nil => intro ys h; cases ys <;> simp [eqSL] at h ⊢
  | cons a as iha =>
    intro ys h
    cases ys with
    | nil => simp [eqSL] at h
    | cons b bs =>
      simp only [eqSL, Bool.and_eq_true] at h
      rw [ih a List.mem_cons_self b h.1,
        iha (fun x hx => ih x (List.mem_cons_of_mem _ hx)) bs h.2]

theorem eqSO_eq {bd : Option Ty} (ih : ∀ x, bd = some x → ∀ y, eqS x y = true → x = y) :
    ∀ bd', eqSO bd bd' = true → bd = bd' := by
  intro bd' h
  cases bd <;> cases bd' <;> simp [eqSO] at h ⊢
  exact ih _ rfl _ h

theorem eqS_eq : ∀ (x y : Ty), eqS x y = true → x = y := by
  intro x
  induction x using ind' with
  | hb c nm nt p ss ih =>
    intro y h
    cases y <;> try (simp [eqS] at h; done)
    simp only [eqS, Bool.and_eq_true, beq_iff_eq] at h
    obtain ⟨⟨⟨⟨rfl, rfl⟩, rfl⟩, rfl⟩, h5⟩ := h
    rw [eqSL_eq ih _ h5]
  | hs nm ss ih =>
    intro y h
    cases y <;> try (simp [eqS] at h; done)
    simp only [eqS, Bool.and_eq_true, beq_iff_eq] at h
    obtain ⟨rfl, h2⟩ := h
    rw [eqSL_eq ih _ h2]
  | htp nm v bd ih =>
    intro y h
    cases y <;> try (simp [eqS] at h; done)
    simp only [eqS, Bool.and_eq_true, beq_iff_eq] at h
    obtain ⟨⟨rfl, rfl⟩, h3⟩ := h
    rw [eqSO_eq ih _ h3]
  | hw v bd ih =>
    intro y h
    cases y <;> try (simp [eqS] at h; done)
    simp only [eqS, Bool.and_eq_true, beq_iff_eq] at h
    obtain ⟨rfl, h3⟩ := h
    rw [eqSO_eq ih _ h3]
  | htc c nm ps ss ih1 ih2 =>
    intro y h
    cases y <;> try (simp [eqS] at h; done)
    simp only [eqS, Bool.and_eq_true, beq_iff_eq] at h
    obtain ⟨⟨⟨rfl, rfl⟩, h3⟩, h4⟩ := h
    rw [eqSL_eq ih1 _ h3, eqSL_eq ih2 _ h4]
  | hp nm con as ss ih1 ih2 ih3 =>
    intro y h
    cases y <;> try (simp [eqS] at h; done)
    simp only [eqS, Bool.and_eq_true, beq_iff_eq] at h
    obtain ⟨⟨⟨rfl, h2⟩, h3⟩, h4⟩ := h
    rw [ih1 _ h2, eqSL_eq ih2 _ h3, eqSL_eq ih3 _ h4]
  | hn =>
    intro y h
    cases y <;> try (simp [eqS] at h; done)
    rfl
  | he c =>
    intro y h
    cases y <;> try (simp [eqS] at h; done)
    simp only [eqS, beq_iff_eq] at h
    rw [h]

/-- `==` is structural equality on a list of types (decidable) -/
def consistentL (us : List Ty) : Bool :=
  us.all fun x => us.all fun y => !(beq x y) || eqS x y

theorem consistent_of_consistentL {ts : List Ty} (h : consistentL (subtermsL ts) = true) :
    Consistent (univ ts) := by
  intro x y hx hy hb
  simp only [consistentL, List.all_eq_true] at h
  have := h x hx y hy
  simp only [hb, Bool.not_true, Bool.false_or] at this
  exact eqS_eq x y this

/-! ## the closure, generically -/

theorem closure_induct {P : Ty → Prop} (hP : ∀ s, P s → ∀ x ∈ sups s, P x) :
    ∀ (s e : Ty), P s → e ∈ closure s → P e := by
  intro s
  have key : ∀ (s : Ty), (∀ x ∈ sups s, ∀ e, P x → e ∈ closure x → P e) →
      ∀ e, P s → e ∈ closure s → P e := by
    intro s ih e hs he
    rw [closure_eq] at he
    cases he with
    | head => exact hs
    | tail _ he =>
      obtain ⟨u, hu, heu⟩ := mem_closureL.1 he
      exact ih u hu e (hP s hs u hu) heu
  induction s using ind' with
  | hb c nm nt p ss ih => exact key _ ih
  | hs nm ss ih => exact key _ ih
  | htp nm v bd ih => exact key _ (by intro x hx; cases hx)
  | hw v bd ih => exact key _ (by intro x hx; cases hx)
  | htc c nm ps ss ih1 ih2 => exact key _ ih2
  | hp nm con as ss ih1 ih2 ih3 => exact key _ ih3
  | hn => exact key _ (by intro x hx; cases hx)
  | he c => exact key _ (by intro x hx; cases hx)

theorem closure_sups_sub {s x : Ty} (hx : x ∈ sups s) : ∀ e ∈ closure x, e ∈ closure s := by
  intro e he
  rw [closure_eq s]
  exact List.mem_cons_of_mem _ (mem_closureL.2 ⟨x, hx, he⟩)

/-- the closure is transitively closed -/
theorem closure_trans {s u : Ty} (hu : u ∈ closure s) : ∀ e ∈ closure u, e ∈ closure s :=
  closure_induct (P := fun x => ∀ e ∈ closure x, e ∈ closure s)
    (fun _ hx _ hy e he => hx e (closure_sups_sub hy e he)) s u (fun _ he => he) hu

/-! ## flat types -/

mutual
/-- built from built-ins (not the bottom ones) and simple classifiers only -/
def flat : Ty → Bool
  | builtin _ _ nt _ ss => !nt && flatL ss
  | simple _ ss => flatL ss
  | _ => false
def flatL : List Ty → Bool
  | [] => true
  | x :: xs => flat x && flatL xs
end

theorem flatL_iff {ss : List Ty} : flatL ss = true ↔ ∀ x ∈ ss, flat x = true := by
  induction ss with
  | nil => simp [flatL]
  | cons a as ih => simp [flatL, ih]

theorem flat_sups {s : Ty} (h : flat s = true) : ∀ x ∈ sups s, flat x = true := by
  apply flatL_iff.1
  cases s <;> simp only [flat, Bool.and_eq_true] at h <;> simp [sups, h] <;> cases h

theorem flat_closure {s e : Ty} (h : flat s = true) (he : e ∈ closure s) : flat e = true :=
  closure_induct (P := fun x => flat x = true) (fun _ hs => flat_sups hs) s e h he

theorem flat_reg : ∀ (s : Ty), flat s = true → reg s = true := by
  intro s
  induction s using ind' with
  | hb c nm nt p ss ih =>
    intro h
    simp only [flat, Bool.and_eq_true] at h
    simp only [reg]
    exact regL_iff.2 (fun x hx => ih x hx (flatL_iff.1 h.2 x hx))
  | hs nm ss ih =>
    intro h
    simp only [flat] at h
    simp only [reg]
    exact regL_iff.2 (fun x hx => ih x hx (flatL_iff.1 h x hx))
  | htp nm v bd ih => intro h; simp [flat] at h
  | hw v bd ih => intro h; simp [flat] at h
  | htc c nm ps ss ih1 ih2 => intro h; simp [flat] at h
  | hp nm con as ss ih1 ih2 ih3 => intro h; simp [flat] at h
  | hn => intro h; simp [flat] at h
  | he c => intro h; simp [flat] at h

theorem flat_wf : ∀ (s : Ty), flat s = true → wf s = true := by
  intro s
  induction s using ind' with
  | hb c nm nt p ss ih =>
    intro h
    simp only [flat, Bool.and_eq_true] at h
    simp only [wf]
    exact wfL_iff.2 (fun x hx => ih x hx (flatL_iff.1 h.2 x hx))
  | hs nm ss ih =>
    intro h
    simp only [flat] at h
    simp only [wf]
    exact wfL_iff.2 (fun x hx => ih x hx (flatL_iff.1 h x hx))
  | htp nm v bd ih => intro h; simp [flat] at h
  | hw v bd ih => intro h; simp [flat] at h
  | htc c nm ps ss ih1 ih2 => intro h; simp [flat] at h
  | hp nm con as ss ih1 ih2 ih3 => intro h; simp [flat] at h
  | hn => intro h; simp [flat] at h
  | he c => intro h; simp [flat] at h

/-! ## no exceptions on flat receivers -/

def NoErr (r : Res) : Prop := r ≠ .typeError ∧ r ≠ .attrError

theorem anyRes_noErr {xs : List Ty} {g : Ty → Res} (h : ∀ x ∈ xs, NoErr (g x)) :
    NoErr (anyRes xs g) := by
  induction xs with
  | nil => simp [anyRes, NoErr]
  | cons x xs ih =>
    simp only [anyRes]
    split
    · simp [NoErr]
    · exact ih (fun y hy => h y (List.mem_cons_of_mem _ hy))
    · exact h x List.mem_cons_self

theorem flat_noErr : ∀ f, (∀ s t, flat s = true → NoErr (isSub f s t)) ∧
    (∀ s t, flat s = true → NoErr (nominal f s t)) := by
  intro f
  induction f with
  | zero => exact ⟨fun s t _ => by simp [isSub, NoErr], fun s t _ => by simp [nominal, NoErr]⟩
  | succ f ih =>
    obtain ⟨ihS, ihN⟩ := ih
    refine ⟨?_, ?_⟩
    · intro s t hs
      cases s <;> simp only [flat] at hs <;> try cases hs
      · simp only [isSub]
        split
        · simp [NoErr]
        · cases (beq t _ || memBeq t _) <;> simp [Res.ofBool, NoErr]
      · simp only [isSub]
        exact ihN _ _ (by simpa [flat] using hs)
    · intro s t hs
      simp only [nominal]
      split
      · simp [NoErr]
      · apply anyRes_noErr
        intro st hst
        exact ihS st t (flat_closure hs (List.mem_filter.1 hst).1)

theorem anyRes_yes_of {xs : List Ty} {g : Ty → Res} (hall : ∀ x ∈ xs, g x = .yes ∨ g x = .no)
    (hex : ∃ x ∈ xs, g x = .yes) : anyRes xs g = .yes := by
  induction xs with
  | nil => obtain ⟨x, hx, _⟩ := hex; cases hx
  | cons a as ih =>
    simp only [anyRes]
    rcases hall a List.mem_cons_self with ha | ha
    · rw [ha]
    · rw [ha]
      apply ih (fun y hy => hall y (List.mem_cons_of_mem _ hy))
      obtain ⟨x, hx, hgx⟩ := hex
      cases hx with
      | head => rw [ha] at hgx; cases hgx
      | tail _ hx => exact ⟨x, hx, hgx⟩

/-! ## completeness on flat receivers -/

/-- in a consistent universe, the declarative supertypes of a flat type are the elements of
    its supertype closure -/
theorem subT_flat_closure {U : Ty → Prop} (hC : Consistent U) {s t : Ty}
    (h : SubT U s t) : U s → U t → flat s = true → t ∈ closure s := by
  refine SubT.rec (U := U)
    (motive_1 := fun s t _ => U s → U t → flat s = true → t ∈ closure s)
    (motive_2 := fun _ _ _ _ => True)
    (motive_3 := fun _ _ _ _ => True)
    ?_ ?_ ?_ ?_ ?_ ?_ ?_ ?_ ?_ ?_ ?_ ?_ ?_ ?_ ?_ ?_ ?_ ?_ ?_ ?_ ?_ h
  · intro s t hb us ut _
    rw [hC s t us ut hb]; exact self_mem_closure t
  · intro s t hb us ut _
    rw [hC t s ut us hb]; exact self_mem_closure s
  · intro s u t uu _ _ ih1 ih2 us ut hf
    have h1 := ih1 us uu hf
    exact closure_trans h1 t (ih2 uu ut (flat_closure hf h1))
  · intro t _ _ hf; simp [flat] at hf
  · intro c nm p ss t _ _ hf; simp [flat] at hf
  · intro s u hu _ _ _
    exact closure_sups_sub hu u (self_mem_closure u)
  · intro nm v bd _ _ hf; simp [flat] at hf
  · intro sb ob _ _ _ _ hf; simp [flat] at hf
  · intro nm con as ss nm' con' bs ss' _ _ _ _ _ hf; simp [flat] at hf
  all_goals (intros; trivial)

/-- … and the code finds every element of the closure (given enough fuel) -/
theorem closure_yes {U : Ty → Prop} (hU : ClosedU U) (hC : Consistent U) : ∀ f,
    (∀ s t, U s → flat s = true → t ∈ closure s → 2 * (size s + size t) + 2 ≤ f →
      isSub f s t = .yes) ∧
    (∀ s t, U s → flat s = true → t ∈ closure s → 2 * (size s + size t) + 1 ≤ f →
      nominal f s t = .yes) := by
  intro f
  induction f with
  | zero =>
    refine ⟨fun s t _ _ _ h => by omega, fun s t _ _ _ h => ?_⟩
    have := size_pos s; omega
  | succ f ih =>
    obtain ⟨ihS, ihN⟩ := ih
    refine ⟨?_, ?_⟩
    · intro s t us hs ht hf
      have hrt := flat_reg t (flat_closure hs ht)
      cases s <;> simp only [flat] at hs <;> try cases hs
      · rename_i c nm nt p ss
        simp only [Bool.and_eq_true, Bool.not_eq_true'] at hs
        obtain ⟨rfl, _⟩ := hs
        simp only [isSub]
        have : memBeq t (closure (builtin c nm false p ss)) = true :=
          memBeq_iff.2 ⟨t, ht, beq_refl t hrt⟩
        simp [this, Res.ofBool]
      · simp only [isSub]
        exact ihN _ _ us (by simpa [flat] using hs) ht (by omega)
    · intro s t us hs ht hf
      have hft := flat_closure hs ht
      have hrt := flat_reg t hft
      have hrs := flat_reg s hs
      simp only [nominal]
      split
      · rfl
      · rename_i hne
        have hts : t ≠ s := by
          intro heq; subst heq; exact hne (beq_refl _ hrt)
        rw [closure_eq] at ht
        cases ht with
        | head => exact absurd rfl hts
        | tail _ ht =>
          obtain ⟨u, hu, htu⟩ := mem_closureL.1 ht
          have huc : u ∈ closure s := closure_sups_sub hu u (self_mem_closure u)
          have hlt : size u < size s := by
            have := size_le_sizeL hu
            have := sizeL_sups_lt s
            omega
          have uu : U u := closedU_closure hU s u us huc
          apply anyRes_yes_of
          · intro x hx
            obtain ⟨hxc, hxne⟩ := List.mem_filter.1 hx
            have hfx := flat_closure hs hxc
            have hxs : x ≠ s := by
              intro heq; subst heq; simp [beq_refl _ hrs] at hxne
            have := size_closure_lt hxc hxs
            have hfuel := (fuel_all f).1 x t (flat_reg x hfx) hrt (by omega)
            have ⟨h1, h2⟩ := (flat_noErr f).1 x t hfx
            cases hr : isSub f x t <;> simp_all
          · refine ⟨u, List.mem_filter.2 ⟨huc, ?_⟩, ?_⟩
            · cases hb : beq u s
              · rfl
              · have := hC u s uu us hb
                subst this; omega
            · exact ihS u t uu (flat_sups hs u hu) htu (by omega)

/-- **exactness on the non-generic fragment**: for a flat receiver in a consistent universe
    the answer of `is_subtype` is exactly the declarative relation -/
theorem flat_exact {U : Ty → Prop} (hU : ClosedU U) (hC : Consistent U) {s t : Ty} (us : U s)
    (ut : U t) (hs : flat s = true) (ht : wf t = true) :
    SubT U s t ↔ isSubtype s t = .yes := by
  constructor
  · intro h
    have := subT_flat_closure hC h us ut hs
    exact (closure_yes hU hC _).1 s t us hs this (Nat.le_refl _)
  · intro h
    exact (sound_all hU _).1 s t us ut (flat_wf s hs) ht h

end Ty
end Heph
