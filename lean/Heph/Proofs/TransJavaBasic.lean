import Heph.Model.TransJava
/-! Basic facts about the Java translator model: `_reset_state`, history, list helpers. -/
namespace Heph.TransJava

theorem resetState_eq_init (s : St) : resetState s = St.init := rfl

theorem visitProgram_fst (e : Env) (pkg : String) (st : St) (decls : List Node) :
    (visitProgram e pkg st decls).1 = St.init := by
  unfold visitProgram
  split
  rfl

/-- the translator state after translating the programs of `hist` one after the other -/
def stateAfter (hist : List (Env × String × List Node)) : St :=
  hist.foldl (fun st h => (visitProgram h.1 h.2.1 st h.2.2).1) St.init

theorem foldl_visitProgram_init (hist : List (Env × String × List Node)) (st : St) (h : st = St.init) :
    hist.foldl (fun st h => (visitProgram h.1 h.2.1 st h.2.2).1) st = St.init := by
  induction hist generalizing st with
  | nil => simpa using h
  | cons x xs ih =>
    simp only [List.foldl_cons]
    exact ih _ (visitProgram_fst _ _ _ _)

theorem stateAfter_eq_init (hist : List (Env × String × List Node)) : stateAfter hist = St.init :=
  foldl_visitProgram_init hist St.init rfl

/-- `visitL` answers one text per child -/
theorem visitL_length (v : St → Node → St × Text) (st : St) (xs : List Node) :
    (visitL v st xs).2.length = xs.length := by
  unfold visitL
  suffices h : ∀ (acc : St × List Text),
      (xs.foldl (fun (acc : St × List Text) x => ((v acc.1 x).1, acc.2 ++ [(v acc.1 x).2])) acc).2.length
        = acc.2.length + xs.length by
    simpa using h (st, [])
  induction xs with
  | nil => intro acc; simp
  | cons x xs ih => intro acc; simp only [List.foldl_cons, ih, List.length_append, List.length_cons, List.length_nil]; omega

end Heph.TransJava
