import Heph.Proofs.OracleHistory
/-! What is left when a sequential session ends: only saved test cases. -/
namespace Heph.Oracle

theorem mem_stageAll (ps : List Path) : ∀ (fs : FS) (q : Path), q ∈ stageAll fs ps ↔ q ∈ fs ∨ q ∈ ps := by
  unfold stageAll
  induction ps with
  | nil => intro fs q; simp
  | cons p t ih =>
    intro fs q
    simp only [List.foldl_cons]
    rw [ih]
    split
    · rename_i hp
      simp only [List.mem_cons]
      constructor
      · rintro (h | h)
        · exact Or.inl h
        · exact Or.inr (Or.inr h)
      · rintro (h | h | h)
        · exact Or.inl h
        · subst h; exact Or.inl hp
        · exact Or.inr h
    · simp only [List.mem_append, List.mem_cons]
      grind

theorem mkRound_stage_batch (it : Nat) (l : List SProg) (k : Nat)
    (h : Path.batch k ∈ (mkRound it l).stage) : k = it := by
  simp [mkRound] at h
  exact h

theorem mkRound_dir (it : Nat) (l : List SProg) : (mkRound it l).batch.dir = it := rfl

theorem sessionLoop_seq_onlySaved {v : Variant} {n batch : Nat} {sps : List SProg} :
    ∀ (fuel it : Nat) (st : Stats × FS) (s : Stats) (fs : FS),
    sessionLoop v .sequential ⟨none, some n, batch⟩ sps fuel it st = .done s fs →
    (∀ k, Path.batch k ∉ st.2) → ∀ q ∈ fs, ∃ k, q = Path.saved k := by
  intro fuel
  induction fuel with
  | zero => intro it st s fs h; simp [sessionLoop] at h
  | succ f ih =>
    intro it st s fs h hinv
    simp only [sessionLoop] at h
    split at h
    · cases h
      intro q hq
      have hq' := List.mem_filter.1 hq
      cases q with
      | tmp k => simp [isTmp] at hq'
      | saved k => exact ⟨k, rfl⟩
      | batch k => exact absurd hq'.1 (hinv k)
    · rw [getBatches_iterations] at h
      simp only at h
      split at h
      · cases h
      · rename_i st1 hr
        refine ih _ st1 s fs h (fun k hk => ?_)
        rcases roundStep_inv hr with ⟨res, fs', hc, rfl⟩ | ⟨hm, _⟩
        · have h3 := ((checkOracleV_ok hc).2.2.1 k).1 hk
          rw [mkRound_dir] at h3
          rcases (mem_stageAll _ _ _).1 h3.1 with h4 | h4
          · exact hinv k h4
          · exact h3.2 (mkRound_stage_batch _ _ _ h4)
        · cases hm

theorem reportedRow_of_compilerFault (v : Variant) (o : Outcome) (p : Prog)
    (h : compilerFault o p = true) : reportedRow v o p = true := by
  rw [compilerFault_eq] at h
  unfold reportedRow
  cases hc : o.crash with
  | none => simp [hc] at h; simp [h.2]
  | some m => simp at h; simp [h.1]

theorem mkRound_stage_saved (it : Nat) (l : List SProg) (k : Nat) :
    Path.saved k ∉ (mkRound it l).stage := by
  simp [mkRound]

/-- every test case saved during a sequential session belongs to a program listed in the faults -/
theorem sessionLoop_seq_savedListed {v : Variant} {n batch : Nat} {sps : List SProg} :
    ∀ (fuel it : Nat) (st : Stats × FS) (s : Stats) (fs : FS),
    sessionLoop v .sequential ⟨none, some n, batch⟩ sps fuel it st = .done s fs →
    (∀ k, Path.saved k ∈ st.2 → k ∈ keys st.1.faults) →
    ∀ k, Path.saved k ∈ fs → k ∈ keys s.faults := by
  intro fuel
  induction fuel with
  | zero => intro it st s fs h; simp [sessionLoop] at h
  | succ f ih =>
    intro it st s fs h hinv
    simp only [sessionLoop] at h
    split at h
    · cases h
      intro k hk
      exact hinv k (List.mem_filter.1 hk).1
    · rw [getBatches_iterations] at h
      simp only at h
      split at h
      · cases h
      · rename_i st1 hr
        refine ih _ st1 s fs h (fun k hk => ?_)
        rw [roundStep_keys hr]
        rcases roundStep_inv hr with ⟨res, fs', hc, rfl⟩ | ⟨hm, _⟩
        · rcases ((checkOracleV_ok hc).2.1 k).1 hk with h3 | ⟨p, hp, hpid, hcf⟩
          · rcases (mem_stageAll _ _ _).1 h3 with h4 | h4
            · exact Or.inl (hinv k h4)
            · exact absurd h4 (mkRound_stage_saved _ _ _)
          · exact Or.inr ⟨p, hp, hpid, reportedRow_of_compilerFault _ _ _ hcf⟩
        · cases hm

theorem runSession_seq_onlySaved {v : Variant} {batch : Nat} {sps : List SProg} {s : Stats} {fs : FS}
    (h : runSession v .sequential batch sps = .done s fs) : ∀ q ∈ fs, ∃ k, q = Path.saved k := by
  unfold runSession at h
  exact sessionLoop_seq_onlySaved _ 1 _ s fs h (by simp)

theorem runSession_seq_savedListed {v : Variant} {batch : Nat} {sps : List SProg} {s : Stats} {fs : FS}
    (h : runSession v .sequential batch sps = .done s fs) : ∀ k, Path.saved k ∈ fs → k ∈ keys s.faults := by
  unfold runSession at h
  exact sessionLoop_seq_savedListed _ 1 _ s fs h (by simp)

end Heph.Oracle
