import Heph.Spec.Subst
/-!
# `==` on types is transitive (and reflexive on well-formed types); facts about type maps

Helper lemmas of C07 (`Props/C07.lean`).
-/
namespace Heph.Ty

/-! ### `beq` -/


mutual
theorem beq_refl_of_wf : ∀ t, wf t = true → beq t t = true
  | builtin .., _ => by simp [beq]
  | simple nm ss, h => by
      simp only [wf] at h
      simp [beq, beqL_refl_of_wf ss h]
  | tparam nm v b, h => by
      simp only [wf] at h
      simp [beq, beqO_refl_of_wf b h]
  | wild v b, h => by
      simp only [wf] at h
      simp [beq, beqO_refl_of_wf b h]
  | tcon .., _ => by simp [beq]
  | param nm con args ss, h => by
      cases con <;> simp [wf] at h
      rename_i cls cnm ps css
      simp [beq, beqL_refl_of_wf ss h.1.1, beqL_refl_of_wf args h.1.2, beqL_refl_of_wf ps h.2]
  | nothing, _ => by simp [beq]
  | ext _, _ => by simp [beq]
theorem beqL_refl_of_wf : ∀ l, wfL l = true → beqL l l = true
  | [], _ => by simp [beqL]
  | x :: xs, h => by
      simp only [wfL, Bool.and_eq_true] at h
      simp [beqL, beq_refl_of_wf x h.1, beqL_refl_of_wf xs h.2]
theorem beqO_refl_of_wf : ∀ o, wfO o = true → beqO o o = true
  | none, _ => by simp [beqO]
  | some x, h => by
      simp only [wfO] at h
      simp [beqO, beq_refl_of_wf x h]
end


theorem sizeL_conParams_le (c : Ty) : sizeL (conParams c) ≤ size c := by
  cases c <;> simp [conParams, size, sizeL]; omega
theorem sizeL_conSups_le (c : Ty) : sizeL (conSups c) ≤ size c := by
  cases c <;> simp [conSups, size, sizeL]

mutual
theorem beq_trans : ∀ a b c, beq a b = true → beq b c = true → beq a c = true
  | builtin .., b, c, h1, h2 => by
      cases b <;> simp [beq] at h1
      cases c <;> simp [beq] at h2
      simp [beq, h1, h2]
  | simple nm sp, b, c, h1, h2 => by
      cases b <;> simp [beq] at h1
      cases c <;> simp [beq] at h2
      simp [beq, h1, h2, beqL_trans sp _ _ h1.2 h2.2]
  | tparam nm v bd, b, c, h1, h2 => by
      cases b <;> simp [beq] at h1
      cases c <;> simp [beq] at h2
      simp [beq, h1, h2, beqO_trans bd _ _ h1.2 h2.2]
  | wild v bd, b, c, h1, h2 => by
      cases b <;> simp [beq] at h1
      cases c <;> simp [beq] at h2
      simp [beq, h1, h2, beqO_trans bd _ _ h1.2 h2.2]
  | tcon .., b, c, h1, h2 => by
      cases b <;> simp [beq] at h1
      cases c <;> simp [beq] at h2
      simp [beq, h1, h2]
  | param nm con args ss, b, c, h1, h2 => by
      cases b <;> try (simp [beq] at h1; done)
      cases c <;> try (simp [beq] at h2; done)
      rename_i nm' con' args' ss' nm'' con'' args'' ss''
      cases con <;> cases con' <;> try (simp [beq] at h1; done)
      cases con'' <;> try (simp [beq] at h2; done)
      rename_i cls cnm ps css cls' cnm' ps' css' cls'' cnm'' ps'' css''
      simp [beq] at h1 h2
      obtain ⟨⟨⟨e1, s1⟩, c1⟩, a1⟩ := h1
      obtain ⟨⟨⟨e2, s2⟩, c2⟩, a2⟩ := h2
      simp [beq, e1, e2, beqL_trans ss _ _ s1 s2, beqL_trans args _ _ a1 a2, c1.1, c2.1,
        beqL_trans ps _ _ c1.2 c2.2]
  | nothing, b, c, h1, h2 => by
      cases b <;> simp [beq] at h1
      exact h2
  | ext _, b, c, h1, h2 => by
      cases b <;> simp [beq] at h1
      cases c <;> simp [beq] at h2
      simp [beq, h1, h2]
theorem beqL_trans : ∀ a b c, beqL a b = true → beqL b c = true → beqL a c = true
  | [], b, c, h1, h2 => by
      cases b <;> simp [beqL] at h1
      exact h2
  | x :: xs, b, c, h1, h2 => by
      cases b <;> simp [beqL] at h1
      cases c <;> simp [beqL] at h2
      simp [beqL, beq_trans x _ _ h1.1 h2.1, beqL_trans xs _ _ h1.2 h2.2]
theorem beqO_trans : ∀ a b c, beqO a b = true → beqO b c = true → beqO a c = true
  | none, b, c, h1, h2 => by
      cases b <;> simp [beqO] at h1
      exact h2
  | some x, b, c, h1, h2 => by
      cases b <;> simp [beqO] at h1
      cases c <;> simp [beqO] at h2
      simp [beqO, beq_trans x _ _ h1 h2]
end


/-! ### type maps -/

mutual
theorem beq_symm : ∀ a b, beq a b = true → beq b a = true
  | builtin .., b, h => by
      cases b <;> simp [beq] at h
      simp [beq, h]
  | simple nm sp, b, h => by
      cases b <;> simp [beq] at h
      simp [beq, h, beqL_symm sp _ h.2]
  | tparam nm v bd, b, h => by
      cases b <;> simp [beq] at h
      simp [beq, h, beqO_symm bd _ h.2]
  | wild v bd, b, h => by
      cases b <;> simp [beq] at h
      simp [beq, h, beqO_symm bd _ h.2]
  | tcon .., b, h => by
      cases b <;> simp [beq] at h
      simp [beq, h]
  | param nm con args ss, b, h => by
      cases b <;> try (simp [beq] at h; done)
      rename_i nm' con' args' ss'
      cases con <;> cases con' <;> try (simp [beq] at h; done)
      rename_i cls cnm ps css cls' cnm' ps' css'
      simp [beq] at h
      obtain ⟨⟨⟨e1, s1⟩, c1⟩, a1⟩ := h
      simp [beq, e1, beqL_symm ss _ s1, beqL_symm args _ a1, c1.1, beqL_symm ps _ c1.2]
  | nothing, b, h => by
      cases b <;> simp [beq] at h
      simp [beq]
  | ext _, b, h => by
      cases b <;> simp [beq] at h
      simp [beq, h]
theorem beqL_symm : ∀ a b, beqL a b = true → beqL b a = true
  | [], b, h => by
      cases b <;> simp [beqL] at h
      simp [beqL]
  | x :: xs, b, h => by
      cases b <;> simp [beqL] at h
      simp [beqL, beq_symm x _ h.1, beqL_symm xs _ h.2]
theorem beqO_symm : ∀ a b, beqO a b = true → beqO b a = true
  | none, b, h => by
      cases b <;> simp [beqO] at h
      simp [beqO]
  | some x, b, h => by
      cases b <;> simp [beqO] at h
      simp [beqO, beq_symm x _ h]
end

theorem TMap.get_mem {m : TMap} {k r : Ty} (h : m.get k = some r) : ∃ p ∈ m, p.2 = r := by
  unfold TMap.get at h
  cases hf : m.find? (fun p => beq p.1 k) with
  | none => simp [hf] at h
  | some p =>
    simp [hf] at h
    exact ⟨p, List.mem_of_find?_eq_some hf, h⟩

theorem TMap.get_pres (P : Ty → Prop) {m : TMap} (hm : ∀ p ∈ m, P p.2) {k r : Ty}
    (h : m.get k = some r) : P r := by
  obtain ⟨p, hp, rfl⟩ := TMap.get_mem h
  exact hm p hp

theorem TMap.set_pres (P : Ty → Prop) (m : TMap) (k v : Ty) (hm : ∀ p ∈ m, P p.2) (hv : P v) :
    ∀ p ∈ TMap.set m k v, P p.2 := by
  intro p hp
  unfold TMap.set at hp
  split at hp
  · simp only [List.mem_map] at hp
    obtain ⟨q, hq, rfl⟩ := hp
    split
    · exact hv
    · exact hm q hq
  · simp only [List.mem_append, List.mem_singleton] at hp
    rcases hp with hp | rfl
    · exact hm p hp
    · exact hv

theorem TMap.foldl_pres (P : Ty → Prop) (l : List (Ty × Ty)) :
    ∀ (m : TMap), (∀ p ∈ m, P p.2) → (∀ kv ∈ l, P kv.2) →
      ∀ p ∈ l.foldl (fun m kv => TMap.set m kv.1 kv.2) m, P p.2 := by
  induction l with
  | nil => intro m hm _; simpa using hm
  | cons kv l ih =>
    intro m hm hl
    simp only [List.foldl_cons]
    apply ih
    · exact TMap.set_pres P m kv.1 kv.2 hm (hl kv (by simp))
    · intro kv' h; exact hl kv' (by simp [h])

/-- every value of `{tp: args[i]}` is one of the arguments -/
theorem TMap.mk_pres (P : Ty → Prop) (ks vs : List Ty) (hv : ∀ v ∈ vs, P v) :
    ∀ p ∈ TMap.mk ks vs, P p.2 := by
  unfold TMap.mk
  apply TMap.foldl_pres P
  · simp
  · intro kv h
    exact hv _ (List.of_mem_zip h).2

def TMap.hasKey (m : TMap) (x : Ty) : Bool := m.any (fun p => beq p.1 x)


theorem TMap.get_isSome (m : TMap) (x : Ty) : (m.get x).isSome = m.hasKey x := by
  unfold TMap.get TMap.hasKey
  simp only [Option.isSome_map]
  induction m with
  | nil => rfl
  | cons p m ih => simp only [List.find?_cons, List.any_cons]; cases p.1.beq x <;> simp [ih]

theorem TMap.hasKey_iff (m : TMap) (x : Ty) :
    m.hasKey x = true ↔ ∃ p ∈ m, beq p.1 x = true := by
  unfold TMap.hasKey; simp

theorem TMap.set_hasKey_mono (m : TMap) (k v x : Ty) (h : m.hasKey x = true) :
    (TMap.set m k v).hasKey x = true := by
  rw [TMap.hasKey_iff] at h ⊢
  obtain ⟨p, hp, hb⟩ := h
  unfold TMap.set
  split
  · refine ⟨if beq p.1 k then (p.1, v) else p, List.mem_map.2 ⟨p, hp, rfl⟩, ?_⟩
    split <;> exact hb
  · exact ⟨p, by simp [hp], hb⟩

theorem TMap.set_hasKey_new (m : TMap) (k v x : Ty) (h : beq k x = true) :
    (TMap.set m k v).hasKey x = true := by
  by_cases hk : m.hasKey k = true
  · have := TMap.set_hasKey_mono m k v k hk
    rw [TMap.hasKey_iff] at this ⊢
    obtain ⟨p, hp, hb⟩ := this
    exact ⟨p, hp, beq_trans _ _ _ hb h⟩
  · rw [TMap.hasKey_iff]
    unfold TMap.set
    have : (m.any fun p => beq p.1 k) = false := by
      simpa [TMap.hasKey] using hk
    rw [if_neg (by simp [this])]
    exact ⟨(k, v), by simp, h⟩

theorem TMap.foldl_hasKey (x : Ty) (l : List (Ty × Ty)) :
    ∀ (m : TMap), (m.hasKey x = true ∨ ∃ kv ∈ l, beq kv.1 x = true) →
      (l.foldl (fun m kv => TMap.set m kv.1 kv.2) m).hasKey x = true := by
  induction l with
  | nil => intro m h; simpa using h
  | cons kv l ih =>
    intro m h
    simp only [List.foldl_cons]
    apply ih
    rcases h with h | ⟨kv', hm, hb⟩
    · exact Or.inl (TMap.set_hasKey_mono _ _ _ _ h)
    · simp only [List.mem_cons] at hm
      rcases hm with rfl | hm
      · exact Or.inl (TMap.set_hasKey_new _ _ _ _ hb)
      · exact Or.inr ⟨kv', hm, hb⟩

theorem mem_zip_of_le {e : Ty} : ∀ (ks vs : List Ty), e ∈ ks → ks.length ≤ vs.length →
    ∃ v, (e, v) ∈ ks.zip vs
  | [], _, h, _ => by simp at h
  | k :: ks, [], _, hl => by simp at hl
  | k :: ks, v :: vs, h, hl => by
      simp only [List.mem_cons] at h
      rcases h with rfl | h
      · exact ⟨v, by simp⟩
      · obtain ⟨w, hw⟩ := mem_zip_of_le ks vs h (by simpa using hl)
        exact ⟨w, by simp [hw]⟩

/-- `{tp: args[i]}` binds every variable that is `==` to one of the parameters -/
theorem TMap.mk_covers (ks vs : List Ty) (h : ks.length ≤ vs.length) :
    (TMap.mk ks vs).covers ks := by
  intro x hx
  rw [TMap.get_isSome]
  unfold memBeq at hx
  rw [List.any_eq_true] at hx
  obtain ⟨e, he, hb⟩ := hx
  obtain ⟨v, hv⟩ := mem_zip_of_le ks vs he h
  unfold TMap.mk
  exact TMap.foldl_hasKey x _ _ (Or.inr ⟨(e, v), hv, hb⟩)

/-! ### `strip` and type maps -/

/-- the map with the recorded constructor supertypes of its values forgotten -/
def stripM (m : TMap) : TMap := m.map (fun p => (p.1, strip p.2))

theorem stripL_eq_map : ∀ l, stripL l = l.map strip
  | [] => rfl
  | x :: xs => by simp [stripL, stripL_eq_map xs]

theorem stripM_get (m : TMap) (k : Ty) : (stripM m).get k = (m.get k).map strip := by
  unfold stripM TMap.get
  induction m with
  | nil => rfl
  | cons p m ih =>
    simp only [List.map_cons, List.find?_cons]
    cases p.1.beq k <;> simp_all

theorem stripM_set (m : TMap) (k v : Ty) :
    stripM (TMap.set m k v) = TMap.set (stripM m) k (strip v) := by
  unfold stripM TMap.set
  simp only [List.any_map, Function.comp_def]
  split
  · simp only [List.map_map]
    apply List.map_congr_left
    intro p _
    simp only [Function.comp]
    split <;> rfl
  · simp

theorem stripM_foldl (l : List (Ty × Ty)) : ∀ m : TMap,
    stripM (l.foldl (fun m kv => TMap.set m kv.1 kv.2) m) =
      (l.map fun kv => (kv.1, strip kv.2)).foldl (fun m kv => TMap.set m kv.1 kv.2) (stripM m) := by
  induction l with
  | nil => intro m; rfl
  | cons kv l ih => intro m; simp only [List.foldl_cons, List.map_cons, ih, stripM_set]

theorem stripM_mk (ks vs : List Ty) : stripM (TMap.mk ks vs) = TMap.mk ks (stripL vs) := by
  unfold TMap.mk
  rw [stripM_foldl, stripL_eq_map, List.zip_map_right]
  rfl

end Heph.Ty
