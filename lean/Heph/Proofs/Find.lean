import Heph.Model.Find
import Heph.Proofs.TypesBasic
import Heph.Proofs.TypesSound
import Heph.Proofs.CheckSubD
import Heph.Proofs.FindBeq
/-!
# Lemmas about the model of `_find_types` (C09)

Membership in the set operations, the loop invariants of `subLoop` (soundness: only elements of
`types` that the subtype test accepted and that are not `==` the query; completeness: every such
element is represented), `boundFilter`, and the shape of `findTypes`.
-/
namespace Heph
namespace Find
open Ty

/-! ## sets -/

theorem mem_addTy {xs : List Ty} {x r : Ty} (h : r ∈ addTy xs x) : r ∈ xs ∨ r = x := by
  unfold addTy at h
  split at h
  · exact Or.inl h
  · rcases List.mem_append.1 h with h | h
    · exact Or.inl h
    · exact Or.inr (by simpa using h)

theorem subset_addTy {xs : List Ty} {x r : Ty} (h : r ∈ xs) : r ∈ addTy xs x := by
  unfold addTy
  split
  · exact h
  · exact List.mem_append_left _ h

theorem memBeq_append {x : Ty} {xs ys : List Ty} :
    memBeq x (xs ++ ys) = (memBeq x xs || memBeq x ys) := by
  simp [memBeq, List.any_append]

theorem memBeq_mono_addTy {xs : List Ty} {x y : Ty} (h : memBeq y xs = true) :
    memBeq y (addTy xs x) = true := by
  unfold addTy
  split
  · exact h
  · rw [memBeq_append, h]; rfl

/-- after `s.add(x)` the set contains (a representative of) `x`, provided `x == x` -/
theorem memBeq_addTy_self {xs : List Ty} {x : Ty} (hx : beq x x = true) :
    memBeq x (addTy xs x) = true := by
  unfold addTy
  split
  · assumption
  · rw [memBeq_append]
    simp [memBeq, hx]

theorem mem_discardTy {xs : List Ty} {x r : Ty} (h : r ∈ discardTy xs x) :
    r ∈ xs ∧ beq r x = false := by
  unfold discardTy at h
  have := List.mem_filter.1 h
  exact ⟨this.1, by simpa using this.2⟩

/-- after `s.discard(x)` nothing `==` to `x` is left -/
theorem memBeq_discardTy {xs : List Ty} {x : Ty} : memBeq x (discardTy xs x) = false := by
  unfold memBeq discardTy
  rw [Bool.eq_false_iff]
  intro h
  obtain ⟨e, he, hb⟩ := List.any_eq_true.1 h
  have := (List.mem_filter.1 he).2
  simp [hb] at this

theorem mem_foldl_addTy (l : List Ty) : ∀ (acc : List Ty) (r : Ty),
    r ∈ l.foldl addTy acc → r ∈ acc ∨ r ∈ l := by
  induction l with
  | nil => intro acc r h; exact Or.inl h
  | cons a l ih =>
    intro acc r h
    simp only [List.foldl_cons] at h
    rcases ih _ _ h with h | h
    · rcases mem_addTy h with h | h
      · exact Or.inl h
      · exact Or.inr (h ▸ List.mem_cons_self)
    · exact Or.inr (List.mem_cons_of_mem _ h)

theorem mem_toSet {l : List Ty} {r : Ty} (h : r ∈ toSet l) : r ∈ l := by
  rcases mem_foldl_addTy l [] r h with h | h
  · cases h
  · exact h

/-- `set(l)` represents every element of `l` (up to `==`, which is transitive) -/
theorem memBeq_foldl_addTy (l : List Ty) : ∀ (acc : List Ty) (y : Ty),
    (memBeq y acc = true ∨ ∃ e ∈ l, beq e y = true) → memBeq y (l.foldl addTy acc) = true := by
  induction l with
  | nil =>
    intro acc y h
    rcases h with h | ⟨e, he, _⟩
    · exact h
    · cases he
  | cons a l ih =>
    intro acc y h
    simp only [List.foldl_cons]
    apply ih
    rcases h with h | ⟨e, he, hb⟩
    · exact Or.inl (memBeq_mono_addTy h)
    · rcases List.mem_cons.1 he with rfl | he
      · left
        unfold addTy
        split
        · rename_i hm
          obtain ⟨e', he', hb'⟩ := memBeq_iff.1 hm
          exact memBeq_iff.2 ⟨e', he', tyBeq_trans _ _ _ hb' hb⟩
        · rw [memBeq_append]
          simp [memBeq, hb]
      · exact Or.inr ⟨e, he, hb⟩

theorem memBeq_toSet {l : List Ty} {u t : Ty} (hu : u ∈ l) (hq : beq u t = true) :
    memBeq t (toSet l) = true :=
  memBeq_foldl_addTy l [] t (Or.inr ⟨u, hu, hq⟩)

/-! ## the subtype loop -/

theorem FR.ofRes_ok {α} {r : Res} {y n : FR α} {a : α} (h : FR.ofRes r y n = .ok a) :
    (r = .yes ∧ y = .ok a) ∨ (r = .no ∧ n = .ok a) := by
  cases r <;> simp [FR.ofRes] at h ⊢ <;> exact h

/-- soundness of the loop: a result element was there before, or is an element of `types` that
    is not `==` the query and that `is_subtype` accepted -/
theorem subLoop_sound (etype : Ty) : ∀ (cs acc l : List Ty), subLoop etype cs acc = .ok l →
    ∀ r ∈ l, r ∈ acc ∨ (r ∈ cs ∧ beq etype r = false ∧ isSubtype r etype = .yes) := by
  intro cs
  induction cs with
  | nil =>
    intro acc l h r hr
    simp only [subLoop, FR.ok.injEq] at h
    subst h
    exact Or.inl hr
  | cons c cs ih =>
    intro acc l h r hr
    unfold subLoop at h
    split at h
    · rcases ih _ _ h r hr with h' | ⟨h1, h2, h3⟩
      · exact Or.inl h'
      · exact Or.inr ⟨List.mem_cons_of_mem _ h1, h2, h3⟩
    · rename_i hne
      split at h
      · rename_i hy
        rcases ih _ _ h r hr with h' | ⟨h1, h2, h3⟩
        · rcases mem_addTy h' with h' | h'
          · exact Or.inl h'
          · subst h'
            exact Or.inr ⟨List.mem_cons_self, by simpa using hne, hy⟩
        · exact Or.inr ⟨List.mem_cons_of_mem _ h1, h2, h3⟩
      · rcases ih _ _ h r hr with h' | ⟨h1, h2, h3⟩
        · exact Or.inl h'
        · exact Or.inr ⟨List.mem_cons_of_mem _ h1, h2, h3⟩
      · cases h
      · cases h
      · cases h

/-- the accumulator only grows (as a set) -/
theorem subLoop_acc (etype : Ty) : ∀ (cs acc l : List Ty), subLoop etype cs acc = .ok l →
    ∀ y, memBeq y acc = true → memBeq y l = true := by
  intro cs
  induction cs with
  | nil =>
    intro acc l h y hy
    simp only [subLoop, FR.ok.injEq] at h
    subst h
    exact hy
  | cons c cs ih =>
    intro acc l h y hy
    unfold subLoop at h
    split at h
    · exact ih _ _ h y hy
    · split at h
      · exact ih _ _ h y (memBeq_mono_addTy hy)
      · exact ih _ _ h y hy
      · cases h
      · cases h
      · cases h

/-- completeness of the loop: every element of `types` that is not `==` the query and that
    `is_subtype` accepts is represented in the result -/
theorem subLoop_complete (etype : Ty) : ∀ (cs acc l : List Ty), subLoop etype cs acc = .ok l →
    ∀ c ∈ cs, beq c c = true → beq etype c = false → isSubtype c etype = .yes →
      memBeq c l = true := by
  intro cs
  induction cs with
  | nil => intro acc l _ c hc; cases hc
  | cons d cs ih =>
    intro acc l h c hc hcc hne hy
    unfold subLoop at h
    rcases List.mem_cons.1 hc with rfl | hc
    · rw [if_neg (by simp [hne]), hy] at h
      exact subLoop_acc etype _ _ _ h c (memBeq_addTy_self hcc)
    · split at h
      · exact ih _ _ h c hc hcc hne hy
      · split at h
        · exact ih _ _ h c hc hcc hne hy
        · exact ih _ _ h c hc hcc hne hy
        · cases h
        · cases h
        · cases h

/-! ## the bound filter -/

theorem boundFilter_sound (b : Ty) : ∀ (xs l : List Ty), boundFilter b xs = .ok l →
    ∀ r ∈ l, r ∈ xs ∧ isSubtype r b = .yes := by
  intro xs
  induction xs with
  | nil =>
    intro l h r hr
    simp only [boundFilter, FR.ok.injEq] at h
    subst h; cases hr
  | cons x xs ih =>
    intro l h r hr
    unfold boundFilter at h
    split at h
    · rename_i hy
      split at h
      · rename_i l' hl'
        simp only [FR.ok.injEq] at h
        subst h
        rcases List.mem_cons.1 hr with rfl | hr
        · exact ⟨List.mem_cons_self, hy⟩
        · obtain ⟨h1, h2⟩ := ih _ hl' r hr
          exact ⟨List.mem_cons_of_mem _ h1, h2⟩
      · rename_i hne
        exact absurd h (by
          intro h'
          exact hne _ h')
    · obtain ⟨h1, h2⟩ := ih _ h r hr
      exact ⟨List.mem_cons_of_mem _ h1, h2⟩
    · cases h
    · cases h
    · cases h

/-! ## the shape of `findTypes` -/

theorem FR.bind_ok {α β} {x : FR α} {f : α → FR β} {b : β} (h : x.bind f = .ok b) :
    ∃ a, x = .ok a ∧ f a = .ok b := by
  cases x <;> simp [FR.bind] at h
  exact ⟨_, rfl, h⟩

theorem findTypes_ok {etype : Ty} {types : List Ty} {getSub includeSelf : Bool}
    {bound related : Option Ty} {l : List Ty}
    (h : findTypes etype types getSub includeSelf bound related = .ok l) :
    ∃ s0, startSet etype types getSub = .ok s0 ∧
      finish getSub bound (withSelf includeSelf etype (withRelated etype related s0)) = .ok l :=
  FR.bind_ok h

theorem finish_sub {bound : Option Ty} {s2 l : List Ty} (h : finish true bound s2 = .ok l) :
    l = s2 := by
  simp [finish] at h; exact h.symm

theorem finish_nobound {getSub : Bool} {s2 l : List Ty} (h : finish getSub none s2 = .ok l) :
    l = s2 := by
  cases getSub <;> simp [finish] at h <;> exact h.symm

theorem finish_bound {b : Ty} {s2 l : List Ty} (h : finish false (some b) s2 = .ok l) :
    boundFilter b s2 = .ok l := by
  simpa [finish] using h

theorem finish_mem {getSub : Bool} {bound : Option Ty} {s2 l : List Ty}
    (h : finish getSub bound s2 = .ok l) : ∀ r ∈ l, r ∈ s2 := by
  intro r hr
  cases getSub
  · cases bound with
    | none => rw [finish_nobound h] at hr; exact hr
    | some b => exact (boundFilter_sound b _ _ (finish_bound h) r hr).1
  · rw [finish_sub h] at hr; exact hr

theorem memBeq_withRelated {etype : Ty} {related : Option Ty} {s0 : List Ty} {y : Ty}
    (h : memBeq y s0 = true) : memBeq y (withRelated etype related s0) = true := by
  unfold withRelated
  split
  · split
    · exact memBeq_mono_addTy h
    · exact h
  · exact h

end Find
end Heph
