import Heph.Model.Closed
/-!
# `closedCheck` decides `Closed`

The checker evaluates the decision procedure of `Resolves` at every site of `programSites`; so
its verdict is exactly the declarative statement (`closedCheck_iff`), for every program — no
assumption that the program was produced by the generator.  Also: the class hierarchy the checker
walks is contained in the declarative superclass relation `SuperOf` (`hier_superOf`).
-/
namespace Heph.Scope
open Heph

theorem siteOk_iff (kw : List String) (s : Site) : siteOk kw s = true ↔ Resolves kw s.env s.use := by
  simp [siteOk]

theorem closed_sound (p : Program) (kw : List String) : closedCheck p kw = .ok → Closed p kw := by
  intro h s hs
  unfold closedCheck at h
  split at h
  · next hnone =>
    have h1 := List.find?_eq_none.mp hnone s hs
    simpa [siteOk] using h1
  · cases h

theorem closed_complete (p : Program) (kw : List String) : Closed p kw → closedCheck p kw = .ok := by
  intro h
  unfold closedCheck
  split
  · rfl
  · next s hsome =>
    have hmem := List.mem_of_find?_eq_some hsome
    have hbad := List.find?_some hsome
    have := h s hmem
    simp [siteOk, this] at hbad

theorem closedCheck_iff (p : Program) (kw : List String) : closedCheck p kw = .ok ↔ Closed p kw :=
  ⟨closed_sound p kw, closed_complete p kw⟩

/-- a rejection names a site of the program at which the use does not resolve -/
theorem closedCheck_error (p : Program) (kw : List String) (path why : String) :
    closedCheck p kw = .error path why →
    ∃ s ∈ programSites p, s.path = path ∧ ¬ Resolves kw s.env s.use := by
  intro h
  unfold closedCheck at h
  split at h
  · cases h
  · next s hsome =>
    refine ⟨s, List.mem_of_find?_eq_some hsome, ?_, ?_⟩
    · injection h
    · have hbad := List.find?_some hsome
      simpa [siteOk] using hbad

/-! ## the hierarchy walked by the checker is the declarative one -/

/-- `SuperOf tops name c`: `c` is the declaration of class `name` or of one of its (transitive)
    superclasses, following the class names of the `superInst` types -/
inductive SuperOf (tops : List Node) : String → Node → Prop
  | self {name c} : findClass tops name = some c → SuperOf tops name c
  | step {name c s t m nm c'} : findClass tops name = some c → s ∈ classSupers c → superType s = some t →
      tyClassName (substTy m t) = some nm → SuperOf tops nm c' → SuperOf tops name c'

theorem hier_superOf (tops : List Node) :
    ∀ fuel, (∀ name targs cm, cm ∈ hier tops fuel name targs → SuperOf tops name cm.1) ∧
      (∀ name c m ss cm, findClass tops name = some c → (∀ s ∈ ss, s ∈ classSupers c) →
        cm ∈ hierSupers tops fuel m ss → SuperOf tops name cm.1) := by
  intro fuel
  induction fuel with
  | zero =>
    constructor
    · intro name targs cm h; simp [hier] at h
    · intro name c m ss cm hc hss h
      induction ss with
      | nil => simp [hierSupers] at h
      | cons s ss ih =>
        simp only [hierSupers, List.mem_append] at h
        rcases h with h | h
        · split at h
          · simp at h
          · split at h
            · simp at h
            · simp [hier] at h
        · exact ih (fun s hs => hss s (List.mem_cons_of_mem _ hs)) h
  | succ n ih =>
    have hS : ∀ name c m ss cm, findClass tops name = some c → (∀ s ∈ ss, s ∈ classSupers c) →
        cm ∈ hierSupers tops n m ss → SuperOf tops name cm.1 := ih.2
    have hH : ∀ name targs cm, cm ∈ hier tops (n + 1) name targs → SuperOf tops name cm.1 := by
      intro name targs cm h
      simp only [hier] at h
      split at h
      · simp at h
      · next c hc =>
        simp only [List.mem_cons] at h
        rcases h with h | h
        · subst h; exact SuperOf.self hc
        · exact hS name c _ _ cm hc (fun s hs => hs) h
    refine ⟨hH, ?_⟩
    intro name c m ss cm hc hss h
    induction ss with
    | nil => simp [hierSupers] at h
    | cons s ss ihs =>
      simp only [hierSupers, List.mem_append] at h
      rcases h with h | h
      · split at h
        · simp at h
        · next t ht =>
          split at h
          · simp at h
          · next nm hnm =>
            exact SuperOf.step hc (hss s List.mem_cons_self) ht hnm (hH nm _ cm h)
      · exact ihs (fun s hs => hss s (List.mem_cons_of_mem _ hs)) h

/-- every class the member lookup visits is the receiver's class or a superclass of it -/
theorem hierOfType_superOf (tops : List Node) (t : Ty) (nm : String) (cm : Node × TMap) :
    tyClassName t = some nm → cm ∈ hierOfType tops (some t) → SuperOf tops nm cm.1 := by
  intro hnm h
  simp only [hierOfType, hnm] at h
  exact (hier_superOf tops _).1 nm _ cm h

end Heph.Scope
