import Heph.Model.Types
/-!
# Decidable equality of `Ty` (the deriving handler does not cover nested inductives)

Used by the `decide` proofs of the concrete examples and counterexamples of C07.
-/
namespace Heph.Ty

mutual
/-- structural equality test -/
def eqB : Ty → Ty → Bool
  | builtin c n nt p ss, builtin c' n' nt' p' ss' =>
      c == c' && n == n' && nt == nt' && p == p' && eqBL ss ss'
  | simple n ss, simple n' ss' => n == n' && eqBL ss ss'
  | tparam n v b, tparam n' v' b' => n == n' && v == v' && eqBO b b'
  | wild v b, wild v' b' => v == v' && eqBO b b'
  | tcon c n ps ss, tcon c' n' ps' ss' => c == c' && n == n' && eqBL ps ps' && eqBL ss ss'
  | param n con as ss, param n' con' as' ss' => n == n' && eqB con con' && eqBL as as' && eqBL ss ss'
  | nothing, nothing => true
  | ext c, ext c' => c == c'
  | _, _ => false
def eqBL : List Ty → List Ty → Bool
  | [], [] => true
  | x :: xs, y :: ys => eqB x y && eqBL xs ys
  | _, _ => false
def eqBO : Option Ty → Option Ty → Bool
  | none, none => true
  | some x, some y => eqB x y
  | _, _ => false
end

mutual
theorem eq_of_eqB : ∀ a b, eqB a b = true → a = b
  | builtin .., b, h => by
      cases b <;> simp [eqB] at h
      simp [h, eq_of_eqBL _ _ h.2]
  | simple n ss, b, h => by
      cases b <;> simp [eqB] at h
      simp [h, eq_of_eqBL _ _ h.2]
  | tparam n v bd, b, h => by
      cases b <;> simp [eqB] at h
      simp [h, eq_of_eqBO _ _ h.2]
  | wild v bd, b, h => by
      cases b <;> simp [eqB] at h
      simp [h, eq_of_eqBO _ _ h.2]
  | tcon c n ps ss, b, h => by
      cases b <;> simp [eqB] at h
      simp [h, eq_of_eqBL _ _ h.1.2, eq_of_eqBL _ _ h.2]
  | param n con as ss, b, h => by
      cases b <;> simp [eqB] at h
      simp [h, eq_of_eqB _ _ h.1.1.2, eq_of_eqBL _ _ h.1.2, eq_of_eqBL _ _ h.2]
  | nothing, b, h => by
      cases b <;> simp [eqB] at h
      rfl
  | ext c, b, h => by
      cases b <;> simp [eqB] at h
      simp [h]
theorem eq_of_eqBL : ∀ a b, eqBL a b = true → a = b
  | [], b, h => by
      cases b <;> simp [eqBL] at h
      rfl
  | x :: xs, b, h => by
      cases b <;> simp [eqBL] at h
      simp [eq_of_eqB _ _ h.1, eq_of_eqBL _ _ h.2]
theorem eq_of_eqBO : ∀ a b, eqBO a b = true → a = b
  | none, b, h => by
      cases b <;> simp [eqBO] at h
      rfl
  | some x, b, h => by
      cases b <;> simp [eqBO] at h
      simp [eq_of_eqB _ _ h]
end

mutual
theorem eqB_refl : ∀ a, eqB a a = true
  | builtin _ _ _ _ ss => by simp [eqB, eqBL_refl ss]
  | simple _ ss => by simp [eqB, eqBL_refl ss]
  | tparam _ _ b => by simp [eqB, eqBO_refl b]
  | wild _ b => by simp [eqB, eqBO_refl b]
  | tcon _ _ ps ss => by simp [eqB, eqBL_refl ps, eqBL_refl ss]
  | param _ con as ss => by simp [eqB, eqB_refl con, eqBL_refl as, eqBL_refl ss]
  | nothing => by simp [eqB]
  | ext _ => by simp [eqB]
theorem eqBL_refl : ∀ a, eqBL a a = true
  | [] => by simp [eqBL]
  | x :: xs => by simp [eqBL, eqB_refl x, eqBL_refl xs]
theorem eqBO_refl : ∀ a, eqBO a a = true
  | none => by simp [eqBO]
  | some x => by simp [eqBO, eqB_refl x]
end

instance : DecidableEq Ty := fun a b =>
  if h : eqB a b = true then isTrue (eq_of_eqB a b h)
  else isFalse (fun e => h (e ▸ eqB_refl a))

end Heph.Ty
