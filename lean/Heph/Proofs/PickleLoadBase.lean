import Heph.Proofs.PickleStable
/-! `load ∘ dump` (C13): the simulation invariant between a run of the pickler and the run of the unpickler's
VM on the op-codes emitted so far.  Definitions and the state-transition lemmas.  Core Lean only. -/
namespace Heph.Pickle

/-! ## running a STOP-free prefix of a stream -/

/-- run op-codes with `step` (no STOP among them, `step .stop = none`) -/
def steps (hr : String → String → Bool) : List Op → LState → Option LState
  | [], st => some st
  | op :: ops, st => (step hr st op).bind (steps hr ops)

theorem steps_append (hr : String → String → Bool) (xs ys : List Op) (s : LState) :
    steps hr (xs ++ ys) s = (steps hr xs s).bind (steps hr ys) := by
  induction xs generalizing s with
  | nil => rfl
  | cons x xs ih =>
    simp only [List.cons_append, steps]
    cases step hr s x with
    | none => rfl
    | some s1 => exact ih s1

theorem steps_snoc {hr : String → String → Bool} {xs : List Op} {op : Op} {s s1 s2 : LState}
    (h1 : steps hr xs s = some s1) (h2 : step hr s1 op = some s2) : steps hr (xs ++ [op]) s = some s2 := by
  rw [steps_append, h1]
  simp [steps, h2]

theorem run_of_steps {hr : String → String → Bool} :
    ∀ {ops : List Op} {s s' : LState}, steps hr ops s = some s' → run hr (ops ++ [.stop]) s = some s'
  | [], s, s', h => by
    simp only [steps, Option.some.injEq] at h
    subst h
    simp [run]
  | op :: ops, s, s', h => by
    simp only [steps] at h
    cases h1 : step hr s op with
    | none => simp [h1] at h
    | some s1 =>
      rw [h1] at h
      have ih := run_of_steps (ops := ops) (s := s1) (s' := s') h
      cases op
      all_goals first
        | (simp [step] at h1; done)
        | simp only [List.cons_append, run, h1, ih]

/-! ## monotonicity of the relations in the address map -/

def Ext (g g' : Nat → Option Nat) : Prop := ∀ a a', g a = some a' → g' a = some a'

theorem Ext.refl (g : Nat → Option Nat) : Ext g g := fun _ _ e => e

theorem Ext.trans {g g' g'' : Nat → Option Nat} (h1 : Ext g g') (h2 : Ext g' g'') : Ext g g'' :=
  fun a a' e => h2 a a' (h1 a a' e)

def upd (g : Nat → Option Nat) (a a' : Nat) : Nat → Option Nat := fun b => if b = a then some a' else g b

theorem upd_self (g : Nat → Option Nat) (a a' : Nat) : upd g a a' a = some a' := by simp [upd]

theorem Ext.upd {g : Nat → Option Nat} {a : Nat} (hn : g a = none) (a' : Nat) : Ext g (upd g a a') := by
  intro b b' e
  by_cases hb : b = a
  · subst hb; rw [hn] at e; cases e
  · simp [Heph.Pickle.upd, hb, e]

theorem ValRel.mono {g g' : Nat → Option Nat} (he : Ext g g') {v v' : Val} (h : ValRel g v v') : ValRel g' v v' := by
  cases v <;> cases v' <;> simp_all [ValRel]
  exact he _ _ h

theorem AllRel.imp {α β : Type} {R R' : α → β → Prop} (hi : ∀ a b, R a b → R' a b) {xs : List α} {ys : List β}
    (h : AllRel R xs ys) : AllRel R' xs ys := by
  induction h with
  | nil => exact .nil
  | cons hab _ ih => exact .cons (hi _ _ hab) ih

theorem PairRel.mono {g g' : Nat → Option Nat} (he : Ext g g') {p q : Val × Val} (h : PairRel g p q) : PairRel g' p q :=
  ⟨h.1.mono he, h.2.mono he⟩

theorem OptValRel.mono {g g' : Nat → Option Nat} (he : Ext g g') {s s' : Option Val} (h : OptValRel g s s') :
    OptValRel g' s s' := by
  cases s <;> cases s' <;> simp_all [OptValRel]
  exact ValRel.mono he h

theorem ObjRel.mono {g g' : Nat → Option Nat} (he : Ext g g') {o o' : Obj} (h : ObjRel g o o') : ObjRel g' o o' := by
  cases o <;> cases o' <;> simp only [ObjRel] at h ⊢ <;> try exact h
  · exact h.imp fun _ _ => ValRel.mono he
  · exact h.imp fun _ _ => ValRel.mono he
  · exact h.imp fun _ _ => PairRel.mono he
  · exact h.imp fun _ _ => ValRel.mono he
  · exact h.imp fun _ _ => ValRel.mono he
  · exact ⟨h.1.mono he, h.2.mono he⟩
  · exact ⟨h.1.mono he, h.2.mono he⟩
  · exact ⟨h.1.mono he, h.2.1.imp fun _ _ => PairRel.mono he, h.2.2.mono he⟩

theorem AllRel.snoc {α β : Type} {R : α → β → Prop} {xs : List α} {ys : List β} {x : α} {y : β}
    (h : AllRel R xs ys) (hxy : R x y) : AllRel R (xs ++ [x]) (ys ++ [y]) :=
  h.append (.cons hxy .nil)

/-! ## heap extension -/

/-- every existing cell is unchanged -/
def HeapExt (H H' : Heap) : Prop := H.size ≤ H'.size ∧ ∀ b, b < H.size → H'[b]? = H[b]?

theorem HeapExt.refl (H : Heap) : HeapExt H H := ⟨Nat.le_refl _, fun _ _ => rfl⟩

theorem HeapExt.trans {H H' H'' : Heap} (h1 : HeapExt H H') (h2 : HeapExt H' H'') : HeapExt H H'' :=
  ⟨Nat.le_trans h1.1 h2.1, fun b hb => by rw [h2.2 b (Nat.lt_of_lt_of_le hb h1.1), h1.2 b hb]⟩

theorem HeapExt.push (H : Heap) (o : Obj) : HeapExt H (H.push o) :=
  ⟨by simp, fun b hb => by simp [Array.getElem?_push, Nat.ne_of_lt hb]⟩

theorem HeapExt.get {H H' : Heap} (he : HeapExt H H') {b : Nat} {o : Obj} (e : H[b]? = some o) : H'[b]? = some o := by
  rw [he.2 b (lt_size_of_getElem? e)]; exact e

/-! ## the invariant -/

/-- the kinds that are memoised BEFORE their contents are written -/
def Obj.openable : Obj → Bool
  | .list _ => true
  | .dict _ => true
  | .set _ => true
  | .inst _ _ => true
  | .reduced _ _ _ => true
  | _ => false

/-- the object at `a` is finished: not on the pickler's stack of containers in progress -/
def Done (opn : Nat → Prop) (a : Nat) (o : Obj) : Prop := ¬ opn a ∨ o.openable = false

/-- `L` is the VM state after the op-codes emitted so far; `g` maps every memoised address to the address of
its rebuilt object; finished objects are related to their rebuilt objects (children in order) -/
structure Inv (hr : String → String → Bool) (h : Heap) (g : Nat → Option Nat) (opn : Nat → Prop)
    (st : DState) (L : LState) : Prop where
  runs : steps hr st.out.toList initL = some L
  tblsz : st.tbl.size = h.size
  memosz : L.memo.size = st.n
  heapsz : L.heap.size = st.n
  memo_of : ∀ a i, st.get a = some i → ∃ a', g a = some a' ∧ L.memo[i]? = some (.ref a')
  dom : ∀ a a', g a = some a' → st.get a ≠ none
  inj : ∀ a b c, g a = some c → g b = some c → a = b
  bound : ∀ a a', g a = some a' → a' < L.heap.size
  surj : ∀ a', a' < L.heap.size → ∃ a, g a = some a'
  cell : ∀ a a', g a = some a' → ∃ o, h[a]? = some o ∧ (Done opn a o → ∃ o', L.heap[a']? = some o' ∧ ObjRel g o o')

variable {hr : String → String → Bool} {h : Heap} {g : Nat → Option Nat} {opn : Nat → Prop} {st : DState} {L : LState}

theorem emit_toList (st : DState) (op : Op) : (st.emit op).out.toList = st.out.toList ++ [op] := by
  simp [DState.emit]

/-- an op-code that leaves the memo alone, does not allocate and changes no finished cell -/
theorem Inv.emit_gen (I : Inv hr h g opn st L) {op : Op} {L' : LState} (hs : step hr L op = some L')
    (hm : L'.memo = L.memo) (hsz : L'.heap.size = L.heap.size)
    (hfr : ∀ b b' o, g b = some b' → h[b]? = some o → Done opn b o → L'.heap[b']? = L.heap[b']?) :
    Inv hr h g opn (st.emit op) L' where
  runs := by rw [emit_toList]; exact steps_snoc I.runs hs
  tblsz := I.tblsz
  memosz := by rw [hm]; exact I.memosz
  heapsz := by rw [hsz]; exact I.heapsz
  memo_of := fun a i e => by rw [hm]; exact I.memo_of a i e
  dom := I.dom
  inj := I.inj
  bound := fun a a' e => by rw [hsz]; exact I.bound a a' e
  surj := fun a' ha' => I.surj a' (by rw [← hsz]; exact ha')
  cell := fun a a' e => by
    obtain ⟨o, ho, hd⟩ := I.cell a a' e
    refine ⟨o, ho, fun d => ?_⟩
    obtain ⟨o', ho', hr'⟩ := hd d
    exact ⟨o', by rw [hfr a a' o e ho d]; exact ho', hr'⟩

theorem Inv.emit_same (I : Inv hr h g opn st L) {op : Op} {L' : LState} (hs : step hr L op = some L')
    (hm : L'.memo = L.memo) (hh : L'.heap = L.heap) : Inv hr h g opn (st.emit op) L' :=
  I.emit_gen hs hm (by rw [hh]) (fun _ _ _ _ _ _ => by rw [hh])

/-- an op-code that rewrites the cell of a container in progress -/
theorem Inv.emit_set (I : Inv hr h g opn st L) {op : Op} {L' : LState} (hs : step hr L op = some L')
    (hm : L'.memo = L.memo) {a a' : Nat} {o o2 : Obj} (hg : g a = some a') (ho : h[a]? = some o)
    (hopn : opn a) (hopen : o.openable = true) (hh : L'.heap = L.heap.setIfInBounds a' o2) :
    Inv hr h g opn (st.emit op) L' := by
  refine I.emit_gen hs hm (by rw [hh]; simp) ?_
  intro b b' ob eb hob d
  rw [hh]
  by_cases hba : a' = b'
  · subst hba
    have : b = a := I.inj b a a' eb hg
    subst this
    rw [ho] at hob
    cases hob
    rcases d with d | d
    · exact absurd hopn d
    · rw [hopen] at d; cases d
  · simp [hba]

theorem Inv.g_none (I : Inv hr h g opn st L) {a : Nat} (hget : st.get a = none) : g a = none := by
  cases e : g a with
  | none => rfl
  | some a' => exact absurd hget (I.dom a a' e)

/-- an allocating op-code followed by MEMOIZE -/
theorem Inv.alloc_memoize (I : Inv hr h g opn st L) {op : Op} {L1 : LState} (hs : step hr L op = some L1)
    {o o' : Obj} {S : List Val} {a : Nat}
    (hheap : L1.heap = L.heap.push o') (hm : L1.memo = L.memo) (hstk : L1.stack = .ref L.heap.size :: S)
    (hget : st.get a = none) (ho : h[a]? = some o)
    (hrel : o.openable = false → ObjRel (upd g a L.heap.size) o o') :
    step hr L1 .memoize = some { L1 with memo := L1.memo.push (.ref L.heap.size) } ∧
    Inv hr h (upd g a L.heap.size) (fun b => opn b ∨ b = a) ((st.emit op).memoize a)
      { L1 with memo := L1.memo.push (.ref L.heap.size) } := by
  have hstep : step hr L1 .memoize = some { L1 with memo := L1.memo.push (.ref L.heap.size) } := by
    simp only [step, hstk]
  have halt : a < (st.emit op).tbl.size := by
    show a < st.tbl.size
    rw [I.tblsz]; exact lt_size_of_getElem? ho
  have hgn := I.g_none hget
  have hext : Ext g (upd g a L.heap.size) := Ext.upd hgn _
  refine ⟨hstep, ?_⟩
  refine
    { runs := ?_, tblsz := ?_, memosz := ?_, heapsz := ?_, memo_of := ?_, dom := ?_, inj := ?_, bound := ?_, cell := ?_,
      surj := ?_ }
  · have : ((st.emit op).memoize a).out.toList = (st.out.toList ++ [op]) ++ [.memoize] := by
      simp [DState.memoize, DState.emit]
    rw [this]
    exact steps_snoc (steps_snoc I.runs hs) hstep
  · simp [DState.memoize, DState.emit, I.tblsz]
  · simp [DState.memoize, DState.emit, hm, I.memosz]
  · simp [DState.memoize, DState.emit, hheap, I.heapsz]
  · intro b i e
    rw [get_memoize _ _ _ halt] at e
    by_cases hb : b = a
    · subst hb
      simp only [if_true] at e
      have hi : i = st.n := by
        have : (st.emit op).n = st.n := rfl
        rw [this] at e; exact (Option.some.inj e).symm
      refine ⟨L.heap.size, upd_self _ _ _, ?_⟩
      subst hi
      show (L1.memo.push _)[st.n]? = _
      rw [hm, ← I.memosz]
      simp
    · simp only [hb, if_false, get_emit] at e
      obtain ⟨b', eb, em⟩ := I.memo_of b i e
      refine ⟨b', hext _ _ eb, ?_⟩
      have hlt : i < L.memo.size := by
        by_cases hlt : i < L.memo.size
        · exact hlt
        · simp [Array.getElem?_eq_none (Nat.le_of_not_lt hlt)] at em
      simp [hm, Array.getElem?_push, Nat.ne_of_lt hlt, em]
  · intro b b' e
    rw [get_memoize _ _ _ halt]
    by_cases hb : b = a
    · simp [hb]
    · simp only [hb, if_false, get_emit]
      simp only [upd, hb, if_false] at e
      exact I.dom b b' e
  · intro b c d eb ec
    simp only [upd] at eb ec
    by_cases hb : b = a <;> by_cases hc : c = a
    · rw [hb, hc]
    · simp only [hb, hc, if_true, if_false] at eb ec
      have := I.bound c d ec
      have : d = L.heap.size := (Option.some.inj eb).symm
      omega
    · simp only [hb, hc, if_true, if_false] at eb ec
      have := I.bound b d eb
      have : d = L.heap.size := (Option.some.inj ec).symm
      omega
    · simp only [hb, hc, if_false] at eb ec
      exact I.inj b c d eb ec
  · intro b b' e
    simp only [upd] at e
    show b' < L1.heap.size
    rw [hheap]
    by_cases hb : b = a
    · simp only [hb, if_true] at e
      have : b' = L.heap.size := (Option.some.inj e).symm
      simp [this]
    · simp only [hb, if_false] at e
      have := I.bound b b' e
      simp; omega
  · intro b' hb'
    have hb2 : b' < L.heap.size + 1 := by
      have : b' < L1.heap.size := hb'
      rw [hheap] at this
      simpa using this
    by_cases hlt : b' < L.heap.size
    · obtain ⟨b, eb⟩ := I.surj b' hlt
      exact ⟨b, hext _ _ eb⟩
    · have : b' = L.heap.size := by omega
      exact ⟨a, by rw [this]; exact upd_self _ _ _⟩
  · intro b b' e
    by_cases hb : b = a
    · subst hb
      simp only [upd, if_true] at e
      have hb' : b' = L.heap.size := (Option.some.inj e).symm
      refine ⟨o, ho, fun d => ?_⟩
      have hno : o.openable = false := by
        rcases d with d | d
        · exact absurd (Or.inr rfl) d
        · exact d
      refine ⟨o', ?_, hrel hno⟩
      show L1.heap[b']? = some o'
      rw [hheap, hb']
      simp
    · simp only [upd, hb, if_false] at e
      obtain ⟨ob, hob, hd⟩ := I.cell b b' e
      refine ⟨ob, hob, fun d => ?_⟩
      have d' : Done opn b ob := by
        rcases d with d | d
        · exact Or.inl fun hp => d (Or.inl hp)
        · exact Or.inr d
      obtain ⟨ob', hob', hrel'⟩ := hd d'
      refine ⟨ob', ?_, hrel'.mono hext⟩
      show L1.heap[b']? = some ob'
      rw [hheap]
      exact (HeapExt.push _ _).get hob'

/-- the container at `a` has received all its contents -/
theorem Inv.close (I : Inv hr h g (fun b => opn b ∨ b = a) st L) {a' : Nat} {o o' : Obj}
    (hg : g a = some a') (ho : h[a]? = some o) (ho' : L.heap[a']? = some o') (hrel : ObjRel g o o') :
    Inv hr h g opn st L :=
  { I with
    cell := fun b b' e => by
      by_cases hb : b = a
      · subst hb
        rw [hg] at e
        cases e
        exact ⟨o, ho, fun _ => ⟨o', ho', hrel⟩⟩
      · obtain ⟨ob, hob, hd⟩ := I.cell b b' e
        refine ⟨ob, hob, fun d => hd ?_⟩
        rcases d with d | d
        · exact Or.inl fun hp => hp.elim d hb
        · exact Or.inr d }


/-- allocating op-code + MEMOIZE for an object that is complete at once (string, tuple, frozenset, class) -/
theorem Inv.alloc_done (I : Inv hr h g opn st L) {op : Op} {L1 : LState} (hs : step hr L op = some L1)
    {o o' : Obj} {S : List Val} {a : Nat}
    (hheap : L1.heap = L.heap.push o') (hm : L1.memo = L.memo) (hstk : L1.stack = .ref L.heap.size :: S)
    (hget : st.get a = none) (ho : h[a]? = some o) (hrel : ObjRel (upd g a L.heap.size) o o') :
    ∃ L', Ext g (upd g a L.heap.size) ∧ Inv hr h (upd g a L.heap.size) opn ((st.emit op).memoize a) L' ∧
      L'.metas = L1.metas ∧ HeapExt L.heap L'.heap ∧ L'.stack = .ref L.heap.size :: S := by
  obtain ⟨_, I2⟩ := I.alloc_memoize hs hheap hm hstk hget ho (fun _ => hrel)
  refine ⟨_, Ext.upd (I.g_none hget) _, I2.close (upd_self _ _ _) ho ?_ hrel, rfl, ?_, hstk⟩
  · show L1.heap[L.heap.size]? = some o'
    rw [hheap]; simp
  · show HeapExt L.heap L1.heap
    rw [hheap]; exact HeapExt.push _ _

/-- allocating op-code + MEMOIZE for a container whose contents follow -/
theorem Inv.alloc_open (I : Inv hr h g opn st L) {op : Op} {L1 : LState} (hs : step hr L op = some L1)
    {o o' : Obj} {S : List Val} {a : Nat}
    (hheap : L1.heap = L.heap.push o') (hm : L1.memo = L.memo) (hstk : L1.stack = .ref L.heap.size :: S)
    (hget : st.get a = none) (ho : h[a]? = some o) (hopen : o.openable = true) :
    ∃ L', Ext g (upd g a L.heap.size) ∧
      Inv hr h (upd g a L.heap.size) (fun b => opn b ∨ b = a) ((st.emit op).memoize a) L' ∧
      L'.metas = L1.metas ∧ HeapExt L.heap L'.heap ∧ L'.stack = .ref L.heap.size :: S ∧
      L'.heap[L.heap.size]? = some o' := by
  obtain ⟨_, I2⟩ := I.alloc_memoize (o' := o') hs hheap hm hstk hget ho (fun hf => by rw [hopen] at hf; cases hf)
  refine ⟨_, Ext.upd (I.g_none hget) _, I2, rfl, ?_, hstk, ?_⟩
  · show HeapExt L.heap L1.heap
    rw [hheap]; exact HeapExt.push _ _
  · show L1.heap[L.heap.size]? = some o'
    rw [hheap]; simp

/-- pushing a value: no allocation -/
theorem Inv.push (I : Inv hr h g opn st L) {op : Op} {v : Val} (hs : step hr L op = some (L.push v)) :
    Inv hr h g opn (st.emit op) (L.push v) :=
  I.emit_same hs rfl rfl

/-! ## strings and class names survive -/

theorem Inv.strOf (I : Inv hr h g opn st L) {m m' : Val} {s : String} (hv : ValRel g m m')
    (hs : strOf h m = some s) : strOf L.heap m' = some s := by
  cases m with
  | ref b =>
    obtain ⟨b', rfl, eb⟩ := valRel_ref_left hv
    obtain ⟨o, ho, hd⟩ := I.cell b b' eb
    simp only [Heph.Pickle.strOf, ho] at hs
    cases o <;> simp at hs
    subst hs
    obtain ⟨o', ho', hrel⟩ := hd (Or.inr rfl)
    cases o' <;> simp only [ObjRel] at hrel <;> try exact hrel.elim
    subst hrel
    simp [Heph.Pickle.strOf, ho']
  | _ => simp [Heph.Pickle.strOf] at hs

theorem Inv.clsName (I : Inv hr h g opn st L) {c c' : Val} {p : String × String} (hv : ValRel g c c')
    (hs : clsName h c = some p) : clsName L.heap c' = some p := by
  cases c with
  | ref b =>
    obtain ⟨b', rfl, eb⟩ := valRel_ref_left hv
    obtain ⟨o, ho, hd⟩ := I.cell b b' eb
    simp only [Heph.Pickle.clsName, ho] at hs
    cases o <;> simp at hs
    rename_i m q
    obtain ⟨o', ho', hrel⟩ := hd (Or.inr rfl)
    cases o' <;> simp only [ObjRel] at hrel <;> try exact hrel.elim
    rename_i m' q'
    cases hm : Heph.Pickle.strOf h m with
    | none => simp [hm] at hs
    | some ms =>
      cases hq : Heph.Pickle.strOf h q with
      | none => simp [hm, hq] at hs
      | some qs =>
        simp only [hm, hq, Option.some.injEq] at hs
        subst hs
        simp [Heph.Pickle.clsName, ho', I.strOf hrel.1 hm, I.strOf hrel.2 hq]
  | _ => simp [Heph.Pickle.clsName] at hs

/-! ## the result of a sub-traversal -/

/-- what a sub-traversal (from pickler state `st`/VM state `L` to `st'`/`L'`) guarantees besides its pushes -/
structure Sub (hr : String → String → Bool) (h : Heap) (opn : Nat → Prop) (g : Nat → Option Nat) (L : LState)
    (g' : Nat → Option Nat) (st' : DState) (L' : LState) : Prop where
  ext : Ext g g'
  inv : Inv hr h g' opn st' L'
  metas : L'.metas = L.metas
  hext : HeapExt L.heap L'.heap

theorem Sub.trans {g g' g'' : Nat → Option Nat} {L L' L'' : LState} {st' st'' : DState}
    (s1 : Sub hr h opn g L g' st' L') (s2 : Sub hr h opn g' L' g'' st'' L'') : Sub hr h opn g L g'' st'' L'' :=
  ⟨s1.ext.trans s2.ext, s2.inv, s2.metas.trans s1.metas, s1.hext.trans s2.hext⟩

end Heph.Pickle
