import Heph.Spec.Diag
/-! Generic lemmas for C14: list helpers, `findAll` over a text made of lines, locality of the
crash searches. -/
namespace Heph.Diag

/-- `chars! "ab"` is the list literal `['a', 'b']` (the same value as `"ab".toList`, but the
kernel does not have to decode the string: `decide` on `String.toList` is ~20 times slower) -/
scoped macro "chars! " s:str : term => do
  let cs := s.getString.toList.toArray.map fun c => Lean.Syntax.mkCharLit c
  `([$cs,*])

example : chars! "a/b c" = "a/b c".toList := by decide

/-! ## list helpers -/

theorem takeWhile_append_all (p : Char → Bool) (a b : List Char) (ha : ∀ c ∈ a, p c = true) :
    (a ++ b).takeWhile p = a ++ b.takeWhile p := by
  induction a with
  | nil => rfl
  | cons x xs ih =>
    have hx : p x = true := ha x (by simp)
    simp only [List.cons_append, List.takeWhile_cons, hx, ite_true]
    rw [ih (fun c hc => ha c (by simp [hc]))]

theorem dropWhile_append_all (p : Char → Bool) (a b : List Char) (ha : ∀ c ∈ a, p c = true) :
    (a ++ b).dropWhile p = b.dropWhile p := by
  induction a with
  | nil => rfl
  | cons x xs ih =>
    have hx : p x = true := ha x (by simp)
    simp only [List.cons_append, List.dropWhile_cons, hx, if_true]
    exact ih (fun c hc => ha c (by simp [hc]))

theorem takeWhile_stop (p : Char → Bool) (a : List Char) (x : Char) (r : List Char)
    (ha : ∀ c ∈ a, p c = true) (hx : p x = false) : (a ++ x :: r).takeWhile p = a := by
  rw [takeWhile_append_all p a _ ha]; simp [hx]

theorem dropWhile_stop (p : Char → Bool) (a : List Char) (x : Char) (r : List Char)
    (ha : ∀ c ∈ a, p c = true) (hx : p x = false) : (a ++ x :: r).dropWhile p = x :: r := by
  rw [dropWhile_append_all p a _ ha]; simp [hx]

theorem contains_false_iff (l : List Char) (x : Char) : l.contains x = false ↔ x ∉ l := by
  simp

theorem firstLine_append_nl (a r : List Char) (ha : '\n' ∉ a) : firstLine (a ++ '\n' :: r) = a := by
  unfold firstLine
  apply takeWhile_stop
  · intro c hc
    have : c ≠ '\n' := fun h => ha (h ▸ hc)
    simp [this]
  · simp

theorem afterLine_append_nl (a r : List Char) (ha : '\n' ∉ a) :
    afterLine (a ++ '\n' :: r) = '\n' :: r := by
  unfold afterLine
  apply dropWhile_stop
  · intro c hc
    have : c ≠ '\n' := fun h => ha (h ▸ hc)
    simp [this]
  · simp

theorem firstLine_nil : firstLine [] = [] := rfl

theorem firstLine_no_nl (a : List Char) (ha : '\n' ∉ a) : firstLine a = a := by
  unfold firstLine
  have h := takeWhile_append_all (· != '\n') a [] (by
    intro c hc
    have : c ≠ '\n' := fun h => ha (h ▸ hc)
    simp [this])
  simpa using h

theorem eat_append (p s : List Char) : eat p (p ++ s) = some s := by
  induction p with
  | nil => cases s <;> rfl
  | cons x xs ih => simp [eat, ih]

theorem eat_eq_some {p s r : List Char} (h : eat p s = some r) : s = p ++ r := by
  induction p generalizing s with
  | nil => cases s <;> simp_all [eat]
  | cons x xs ih =>
    cases s with
    | nil => simp [eat] at h
    | cons c cs =>
      simp only [eat] at h
      split at h
      · rename_i hxc
        have := ih h
        simp_all
      · cases h

/-! ## backtracking helpers -/

theorem firstDown1_eq_some {α} {f : Nat → Option α} {n : Nat} {x : α}
    (h : firstDown1 f n = some x) : ∃ k, 1 ≤ k ∧ k ≤ n ∧ f k = some x := by
  induction n with
  | zero => simp [firstDown1] at h
  | succ k ih =>
    simp only [firstDown1] at h
    split at h
    · rename_i y hy
      cases h
      exact ⟨k + 1, by omega, by omega, hy⟩
    · obtain ⟨j, h1, h2, h3⟩ := ih h
      exact ⟨j, h1, by omega, h3⟩

theorem firstDown1_top {α} {f : Nat → Option α} {n : Nat} {x : α} (hn : 1 ≤ n)
    (h : f n = some x) : firstDown1 f n = some x := by
  cases n with
  | zero => omega
  | succ k => simp [firstDown1, h]

theorem firstDown0_eq_some {α} {f : Nat → Option α} {n : Nat} {x : α}
    (h : firstDown0 f n = some x) : ∃ k, k ≤ n ∧ f k = some x := by
  simp only [firstDown0] at h
  split at h
  · rename_i y hy
    cases h
    obtain ⟨k, _, h2, h3⟩ := firstDown1_eq_some hy
    exact ⟨k, h2, h3⟩
  · exact ⟨0, by omega, h⟩

/-! ## `findAll` -/

theorem findAllGo_skip {α} (m : List Char → Option (α × Nat)) (p rest : List Char) :
    findAllGo m (p ++ rest) p.length = findAllGo m rest 0 := by
  induction p with
  | nil => cases rest <;> rfl
  | cons x xs ih => simpa [findAllGo] using ih

theorem findAll_hit {α} (m : List Char → Option (α × Nat)) (p rest : List Char) (x : α)
    (hp : p ≠ []) (h : m (p ++ rest) = some (x, p.length)) :
    findAll m (p ++ rest) = x :: findAll m rest := by
  cases p with
  | nil => exact absurd rfl hp
  | cons c cs =>
    simp only [findAll, List.cons_append, findAllGo]
    simp only [List.cons_append] at h
    rw [h]
    simp only [List.length_cons, Nat.add_sub_cancel]
    rw [findAllGo_skip]

theorem findAll_miss {α} (m : List Char → Option (α × Nat)) (p rest : List Char)
    (h : ∀ t, t ≠ [] → t <:+ p → m (t ++ rest) = none) :
    findAll m (p ++ rest) = findAll m rest := by
  induction p with
  | nil => rfl
  | cons c cs ih =>
    have h0 := h (c :: cs) (by simp) (List.suffix_refl _)
    simp only [findAll, List.cons_append, findAllGo]
    simp only [List.cons_append] at h0
    rw [h0]
    exact ih (fun t ht hs => h t ht (List.IsSuffix.trans hs (List.suffix_cons c cs)))

/-! ## infix test -/

theorem hasInfix_of_eq (K a b : List Char) : hasInfix K (a ++ K ++ b) = true := by
  induction a with
  | nil =>
    cases hK : K ++ b with
    | nil =>
      have hKb := List.append_eq_nil_iff.mp hK
      simp [hKb.1, hKb.2, hasInfix]
    | cons c tl =>
      simp only [List.nil_append, hK, hasInfix]
      have : K.isPrefixOf (c :: tl) = true := by
        rw [← hK]; simp [List.isPrefixOf_iff_prefix]
      simp [this]
  | cons x xs ih =>
    simp only [List.cons_append, hasInfix]
    simp only [List.append_assoc] at ih
    simp [ih]

/-- a matcher whose every match has the key on the first line of the text it starts in -/
def KeyLocal {α} (m : List Char → Option α) (K : List Char) : Prop :=
  ∀ s x, m s = some x → ∃ a b, firstLine s = a ++ K ++ b

theorem suffix_snoc {t l : List Char} {x : Char} (h : t <:+ l ++ [x]) (ht : t ≠ []) :
    ∃ u, t = u ++ [x] ∧ u <:+ l := by
  obtain ⟨pre, hpre⟩ := h
  rcases List.eq_nil_or_concat t with h0 | ⟨u, y, hu⟩
  · exact absurd h0 ht
  · subst hu
    simp only [List.concat_eq_append] at *
    rw [← List.append_assoc] at hpre
    have := List.append_inj' hpre (by simp)
    obtain ⟨h1, h2⟩ := this
    simp only [List.cons.injEq, and_true] at h2
    subst h2
    exact ⟨u, rfl, ⟨pre, h1⟩⟩

/-- the rest `t` of a line without the key, and the newline after it, contribute no match -/
theorem findAll_skip_line {α} {m : List Char → Option (α × Nat)} {K : List Char}
    (hm : KeyLocal m K) (l t rest : List Char) (ht : t <:+ l) (hl : '\n' ∉ l)
    (hk : hasInfix K l = false) : findAll m (t ++ '\n' :: rest) = findAll m rest := by
  have : t ++ '\n' :: rest = (t ++ ['\n']) ++ rest := by simp
  rw [this]
  apply findAll_miss
  intro u hu hs
  obtain ⟨v, hv, hvs⟩ := suffix_snoc hs hu
  subst hv
  cases hmv : m (v ++ ['\n'] ++ rest) with
  | none => rfl
  | some x =>
    exfalso
    obtain ⟨a, b, hab⟩ := hm _ _ hmv
    have hvl : v <:+ l := List.IsSuffix.trans hvs ht
    have hnl : '\n' ∉ v := fun h => hl (hvl.subset h)
    have : v ++ ['\n'] ++ rest = v ++ '\n' :: rest := by simp
    rw [this, firstLine_append_nl v rest hnl] at hab
    obtain ⟨pre, hpre⟩ := hvl
    have : l = (pre ++ a) ++ K ++ b := by rw [← hpre, hab]; simp
    rw [this, hasInfix_of_eq] at hk
    cases hk

theorem unlines_cons (l : List Char) (ls : List (List Char)) :
    unlines (l :: ls) = l ++ '\n' :: unlines ls := by
  simp [unlines]

theorem unlines_append (a b : List (List Char)) : unlines (a ++ b) = unlines a ++ unlines b := by
  simp [unlines]

theorem unlines_nil : unlines [] = [] := rfl

/-- lines without the key contribute no match -/
theorem findAll_skip_lines {α} {m : List Char → Option (α × Nat)} {K : List Char}
    (hm : KeyLocal m K) (ls : List (List Char)) (rest : List Char)
    (h : ∀ l ∈ ls, '\n' ∉ l ∧ hasInfix K l = false) :
    findAll m (unlines ls ++ rest) = findAll m rest := by
  induction ls with
  | nil => rfl
  | cons l ls ih =>
    rw [unlines_cons]
    have hl := h l (by simp)
    simp only [List.append_assoc, List.cons_append]
    rw [findAll_skip_line hm l l _ (List.suffix_refl l) hl.1 hl.2]
    exact ih (fun l' hl' => h l' (by simp [hl']))

/-! ## locality of the crash searches -/

theorem eatW_local (pat : List (Option Char)) (hp : ∀ p ∈ pat, p ≠ some '\n') (t rest : List Char) :
    eatW pat (t ++ '\n' :: rest) = eatW pat (t ++ ['\n']) := by
  induction pat generalizing t with
  | nil => simp [eatW]
  | cons p ps ih =>
    cases t with
    | nil =>
      have hp0 := hp p (by simp)
      cases p with
      | none => simp [eatW]
      | some x =>
        have : x ≠ '\n' := fun h => hp0 (by rw [h])
        have hb : (x == '\n') = false := by simp [this]
        simp [eatW, hb]
    | cons c cs =>
      simp only [List.cons_append, eatW]
      rw [ih (fun q hq => hp q (by simp [hq]))]

theorem eatW_nil_of_ne (pat : List (Option Char)) (hp : pat ≠ []) : eatW pat [] = false := by
  cases pat with
  | nil => exact absurd rfl hp
  | cons _ _ => rfl

theorem searchW_line (pat : List (Option Char)) (hne : pat ≠ []) (hp : ∀ p ∈ pat, p ≠ some '\n')
    (l rest : List Char) :
    searchW pat (l ++ '\n' :: rest) = (searchW pat (l ++ ['\n']) || searchW pat rest) := by
  induction l with
  | nil =>
    simp only [List.nil_append, searchW, eatW_nil_of_ne pat hne, Bool.or_false]
    have := eatW_local pat hp [] rest
    simp only [List.nil_append] at this
    rw [this]
  | cons c cs ih =>
    simp only [List.cons_append, searchW]
    have := eatW_local pat hp (c :: cs) rest
    simp only [List.cons_append] at this
    rw [this, ih, Bool.or_assoc]

theorem searchW_unlines (pat : List (Option Char)) (hne : pat ≠ []) (hp : ∀ p ∈ pat, p ≠ some '\n')
    (ls : List (List Char)) (rest : List Char) :
    searchW pat (unlines ls ++ rest) =
      (ls.any (fun l => searchW pat (l ++ ['\n'])) || searchW pat rest) := by
  induction ls with
  | nil => simp [unlines]
  | cons l ls ih =>
    rw [unlines_cons]
    simp only [List.append_assoc, List.cons_append, List.any_cons]
    rw [searchW_line pat hne hp, ih, Bool.or_assoc]

theorem isPrefixOf_local (pat : List Char) (hp : '\n' ∉ pat) (t rest : List Char) :
    pat.isPrefixOf (t ++ '\n' :: rest) = pat.isPrefixOf (t ++ ['\n']) := by
  induction pat generalizing t with
  | nil => simp [List.isPrefixOf]
  | cons p ps ih =>
    have hp0 : p ≠ '\n' := fun h => hp (by simp [h])
    cases t with
    | nil =>
      have hb : (p == '\n') = false := by simp [hp0]
      simp [List.isPrefixOf, hb]
    | cons c cs =>
      simp only [List.cons_append, List.isPrefixOf]
      rw [ih (fun h => hp (by simp [h]))]

theorem isPrefixOf_snoc_nl (p : List Char) (hnl : '\n' ∉ p) (t : List Char) :
    p.isPrefixOf (t ++ ['\n']) = p.isPrefixOf t := by
  induction p generalizing t with
  | nil => simp [List.isPrefixOf]
  | cons x xs ih =>
    have hx : x ≠ '\n' := fun h => hnl (by simp [h])
    have hxs : '\n' ∉ xs := fun h => hnl (by simp [h])
    cases t with
    | nil => simp [List.isPrefixOf, hx]
    | cons y ys =>
      simp only [List.cons_append, List.isPrefixOf, ih hxs ys]

theorem searchThenNl_line (pat : List Char) (hp : '\n' ∉ pat) (l rest : List Char) :
    searchThenNl pat (l ++ '\n' :: rest)
      = (searchThenNl pat (l ++ ['\n']) || searchThenNl pat rest) := by
  induction l with
  | nil =>
    have := isPrefixOf_local pat hp [] rest
    simp only [List.nil_append] at this
    simp [searchThenNl, this]
  | cons c cs ih =>
    have := isPrefixOf_local pat hp (c :: cs) rest
    simp only [List.cons_append] at this
    simp only [List.cons_append, searchThenNl]
    rw [this, ih]
    simp [Bool.or_assoc]

theorem searchThenNl_unlines (pat : List Char) (hp : '\n' ∉ pat) (ls : List (List Char))
    (rest : List Char) :
    searchThenNl pat (unlines ls ++ rest) =
      (ls.any (fun l => searchThenNl pat (l ++ ['\n'])) || searchThenNl pat rest) := by
  induction ls with
  | nil => simp [unlines]
  | cons l ls ih =>
    rw [unlines_cons]
    simp only [List.append_assoc, List.cons_append, List.any_cons]
    rw [searchThenNl_line pat hp, ih, Bool.or_assoc]

end Heph.Diag
