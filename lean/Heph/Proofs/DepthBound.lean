import Heph.Model.Depth
/-! The potential argument behind `nesting_bound` (C18). -/
namespace Heph.Depth

/-- what `SkeletonOK` gives, as propositions -/
structure OKFacts (sk : Skeleton) : Prop where
  cutK_pos : 1 ≤ sk.cutK
  gen : ∀ G ∈ sk.gens, ∀ s ∈ G.sites, s.void = "no" ∧ s.cnt ≤ s.off ∧ s.cnt ≤ sk.maxCnt
  leaf : ∀ G ∈ sk.gens, G.name ∈ sk.branch 1 → ∀ s ∈ G.sites,
    (s.ol = "True" ∨ s.ol = "pass") ∧ (s.cnt = 0 ∨ ∃ k, cutBound s = some k ∧ k ≤ sk.cutK)
  root : ∀ R ∈ sk.roots, ∀ s ∈ R.sites, s.cnt ≤ sk.maxCnt

theorem okFacts {sk : Skeleton} (h : SkeletonOK sk = true) : OKFacts sk := by
  simp only [SkeletonOK, Bool.and_eq_true, List.all_eq_true, decide_eq_true_eq] at h
  obtain ⟨⟨⟨⟨_, hk⟩, hg⟩, hl⟩, hr⟩ := h
  refine ⟨hk, ?_, ?_, ?_⟩
  · intro G hG s hs
    have := hg G hG s hs
    simp only [genSiteOK, Bool.and_eq_true, decide_eq_true_eq, beq_iff_eq] at this
    exact ⟨this.1.1.1, this.1.1.2, this.1.2⟩
  · intro G hG hname s hs
    have := hl G hG
    simp only [Bool.or_eq_true, Bool.not_eq_true', List.all_eq_true] at this
    rcases this with hno | hall
    · exact absurd hname (by simpa using hno)
    · have := hall s hs
      simp only [leafSiteOK, Bool.and_eq_true, Bool.or_eq_true, beq_iff_eq] at this
      refine ⟨this.1, ?_⟩
      rcases this.2 with h0 | hc
      · exact Or.inl h0
      · right
        cases hcb : cutBound s with
        | none => simp [hcb] at hc
        | some k => exact ⟨k, rfl, by simpa [hcb] using hc⟩
  · intro R hR s hs
    exact hr R hR s hs

/-- the potential of a `generate_expr` state -/
def pot (sk : Skeleton) (m d : Nat) (ol v : Bool) : Nat :=
  (sk.cutK * m - d) + (if v then 3 * sk.maxCnt else if leafMode m d ol then sk.maxCnt else 2 * sk.maxCnt)

theorem pot_le (sk : Skeleton) (m d : Nat) (ol v : Bool) :
    pot sk m d ol v ≤ (sk.cutK * m - d) + 3 * sk.maxCnt := by
  unfold pot; cases v <;> cases leafMode m d ol <;> simp <;> omega

theorem pot_nonvoid_le (sk : Skeleton) (m d : Nat) (ol : Bool) :
    pot sk m d ol false ≤ (sk.cutK * m - d) + 2 * sk.maxCnt := by
  unfold pot; simp only [Bool.false_eq_true, if_false]; split <;> omega

theorem leafMode_mono {m d d' : Nat} {ol : Bool} {a : String} (h : leafMode m d ol = true) (hd : d ≤ d')
    (ha : a = "True" ∨ a = "pass") : leafMode m d' (olNext a ol) = true := by
  simp only [leafMode, Bool.or_eq_true, decide_eq_true_eq] at *
  rcases h with h | h
  · left; omega
  · right
    rcases ha with rfl | rfl
    · simp [olNext]
    · simp [olNext, h]

variable {sk : Skeleton} {m : Nat}

mutual
theorem admits_bound (F : OKFacts sk) :
    ∀ (s : Shape) (d : Nat) (ol v : Bool), admits sk m d ol v s → s.wdepth ≤ pot sk m d ol v
  | .leaf, _, _, _, _ => by simp [Shape.wdepth]
  | .node g ks, d, ol, v, h => by
    simp only [admits] at h
    obtain ⟨G, hG, hname, hallow, hk⟩ := h
    have kb := kids_bound F ks G.sites d ol hk
    have hgen : ∀ s ∈ G.sites, s.void = "no" ∧ s.cnt ≤ s.off ∧ s.cnt ≤ sk.maxCnt := F.gen G hG
    simp only [Shape.wdepth]
    cases v with
    | true =>
      have := kb.1 hgen
      simp only [pot, if_true]; exact this
    | false =>
      cases hlm : leafMode m d ol with
      | true =>
        have hin : G.name ∈ sk.branch 1 := by
          simp only [Skeleton.allowed, Bool.false_eq_true, if_false, hlm, if_true] at hallow
          rw [hname]; exact hallow
        have := kb.2.2.1 (fun s hs => ⟨hgen s hs, F.leaf G hG hin s hs⟩) hlm
        simp only [pot, Bool.false_eq_true, if_false, hlm, if_true]; exact this
      | false =>
        have hdm : d < m ∧ ol = false := by
          simp only [leafMode, Bool.or_eq_false_iff, decide_eq_false_iff_not] at hlm
          exact ⟨by omega, hlm.2⟩
        have := kb.2.1 hgen hdm.1 hdm.2
        simp only [pot, Bool.false_eq_true, if_false, hlm]; exact this

theorem kids_bound (F : OKFacts sk) :
    ∀ (ks : Kids) (sites : List FSite) (d : Nat) (ol : Bool), admitsKids sk m sites d ol ks →
      ((∀ s ∈ sites, s.void = "no" ∧ s.cnt ≤ s.off ∧ s.cnt ≤ sk.maxCnt) →
          ks.wdepth ≤ (sk.cutK * m - d) + 3 * sk.maxCnt) ∧
      ((∀ s ∈ sites, s.void = "no" ∧ s.cnt ≤ s.off ∧ s.cnt ≤ sk.maxCnt) → d < m → ol = false →
          ks.wdepth ≤ (sk.cutK * m - d) + 2 * sk.maxCnt) ∧
      ((∀ s ∈ sites, (s.void = "no" ∧ s.cnt ≤ s.off ∧ s.cnt ≤ sk.maxCnt) ∧
            (s.ol = "True" ∨ s.ol = "pass") ∧ (s.cnt = 0 ∨ ∃ k, cutBound s = some k ∧ k ≤ sk.cutK)) →
          leafMode m d ol = true → ks.wdepth ≤ (sk.cutK * m - d) + sk.maxCnt) ∧
      ((∀ s ∈ sites, s.cnt ≤ sk.maxCnt) → ks.wdepth ≤ (sk.cutK * m - d) + 4 * sk.maxCnt)
  | .nil, _, _, _, _ => by simp [Kids.wdepth]
  | .cons c sh rest, sites, d, ol, h => by
    simp only [admitsKids] at h
    obtain ⟨⟨s, hs, hc, hkid⟩, hrest⟩ := h
    have ih2 := kids_bound F rest sites d ol hrest
    have hKm : m ≤ sk.cutK * m := Nat.le_mul_of_pos_left m F.cutK_pos
    simp only [Kids.wdepth]
    rcases hkid with rfl | ⟨d', v', hd, hcut, hvoid, hsh⟩
    · simp only [Shape.wdepth]
      refine ⟨?_, ?_, ?_, ?_⟩
      · intro hall
        have := (hall s hs).2.2
        have := ih2.1 hall
        omega
      · intro hall hdm hol
        have := (hall s hs).2.2
        have := ih2.2.1 hall hdm hol
        omega
      · intro hall hlm
        have := (hall s hs).1.2.2
        have := ih2.2.2.1 hall hlm
        omega
      · intro hall
        have := hall s hs
        have := ih2.2.2.2 hall
        omega
    have ih1 := admits_bound F sh d' (olNext s.ol ol) v' hsh
    refine ⟨?_, ?_, ?_, ?_⟩
    · intro hall
      obtain ⟨hv, hco, hcC⟩ := hall s hs
      have hv' : v' = false := hvoid.1 hv
      subst hv'
      have := pot_nonvoid_le sk m d' (olNext s.ol ol)
      have := ih2.1 hall
      omega
    · intro hall hdm hol
      obtain ⟨hv, hco, hcC⟩ := hall s hs
      have hv' : v' = false := hvoid.1 hv
      subst hv'
      have hr := ih2.2.1 hall hdm hol
      have hp : pot sk m d' (olNext s.ol ol) false ≤ (sk.cutK * m - d) + 2 * sk.maxCnt - c := by
        unfold pot
        simp only [Bool.false_eq_true, if_false]
        split
        · omega
        · rename_i hl
          have : d' < m := by
            simp only [leafMode, Bool.or_eq_true, decide_eq_true_eq, not_or] at hl
            omega
          omega
      have hcb : c ≤ (sk.cutK * m - d) + 2 * sk.maxCnt := by omega
      omega
    · intro hall hlm
      obtain ⟨⟨hv, hco, hcC⟩, hol, hcutc⟩ := hall s hs
      have hv' : v' = false := hvoid.1 hv
      subst hv'
      have hr := ih2.2.2.1 hall hlm
      have hlm' := leafMode_mono (m := m) (d' := d') hlm (by omega) hol
      have hp : pot sk m d' (olNext s.ol ol) false = (sk.cutK * m - d') + sk.maxCnt := by
        simp [pot, hlm']
      rcases hcutc with h0 | ⟨k, hk, hkK⟩
      · omega
      · have hd'k : d' ≤ k * m := hcut k hk
        have : k * m ≤ sk.cutK * m := Nat.mul_le_mul_right m hkK
        omega
    · intro hall
      have hcC := hall s hs
      have := pot_le sk m d' (olNext s.ol ol) v'
      have := ih2.2.2.2 hall
      omega
end

end Heph.Depth
