import Heph.Proofs.TransJavaBalBlock
/-! Full balance proof, `visit_lambda` and `visit_func_decl` (methods, and nested functions printed
as `FunctionN<types> name = (params) -> body;`, whose type list and parameter names are cut out of
the parameters' texts with `rsplit`, `split()[-1]` and `replace("...", "[]")`). -/
namespace Heph.TransJava
open Heph
set_option linter.unusedSimpArgs false
set_option linter.unusedVariables false
set_option linter.unusedSectionVars false

/-! ### entering and leaving a function -/

theorem StOK2.funcEnter {st : St} (h : StOK2 st) (name : String) (nv : Bool) : StOK2 (funcEnter st name nv).1 := by
  unfold TransJava.funcEnter
  simp only
  (repeat' split) <;> exact h.with_eq rfl rfl rfl

theorem StOK2.funcLeave {s : St} (h : StOK2 s) (st0 : St) (name : String) (old : Nat) (nfb : Option Bool) :
    StOK2 (funcLeave st0 name old nfb s) := by
  unfold TransJava.funcLeave
  simp only
  (repeat' split) <;> exact h.with_eq rfl rfl rfl

/-! ### texts -/

theorem neutral_lambdaBodyText {bodyRes : Text} (h : Neutral bodyRes) (isExpr nonVoid : Bool) {sm : String}
    (hsm : BrFree sm) : Neutral (lambdaBodyText bodyRes isExpr nonVoid sm) := by
  have hsm := hsm.neutral
  unfold lambdaBodyText
  split
  · split
    · have hbr : Neutral (if nonVoid then addStringAt bodyRes "return " (leadingSpaces bodyRes) else bodyRes) := by
        split
        · exact neutral_addStringAt _ h (by decide)
        · exact h
      simp only
      generalize (if nonVoid then addStringAt bodyRes "return " (leadingSpaces bodyRes) else bodyRes) = br at hbr
      fin_neutral [hbr.eq, hsm.eq]
    · exact h
  · exact neutral_empty

theorem neutral_funcBodyText {bodyRes : Text} (h : Neutral bodyRes) (isExpr nonVoid : Bool) {closing : String}
    (hc : BrFree closing) : Neutral (funcBodyText bodyRes isExpr nonVoid closing) := by
  have hc := hc.neutral
  unfold funcBodyText
  split
  · split
    · have hbr : Neutral (if nonVoid then addStringAt bodyRes "return " (leadingSpaces bodyRes) else bodyRes) := by
        split
        · exact neutral_addStringAt _ h (by decide)
        · exact h
      simp only
      generalize (if nonVoid then addStringAt bodyRes "return " (leadingSpaces bodyRes) else bodyRes) = br at hbr
      fin_neutral [hbr.eq, hc.eq]
    · exact h
  · exact neutral_empty

theorem neutral_nestedFuncText {idt name : String} (hi : BrFree idt) (hname : BrFree name) {inferred : Option Ty}
    (hinf : TyOKO inferred) {paramRes : List Text} (hp : ∀ r ∈ paramRes, ParamTextOK r) {bodyT : Text}
    (hb : Neutral bodyT) : Neutral (nestedFuncText idt name inferred paramRes bodyT) := by
  have hi := hi.neutral
  have hname := hname.neutral
  unfold nestedFuncText
  simp only
  have hty : Neutral (join ", " (List.map boxedOf
      (List.map (fun x => replaceDots (rsplit1 x)) paramRes ++ [typeNameO inferred true false]))) := by
    apply neutral_join (by decide)
    intro x hx
    obtain ⟨y, hy, rfl⟩ := List.mem_map.mp hx
    rcases List.mem_append.mp hy with hy | hy
    · obtain ⟨r, hr, rfl⟩ := List.mem_map.mp hy
      exact (hp r hr).1
    · simp only [List.mem_singleton] at hy
      rw [hy]
      exact neutral_boxedOf (neutral_typeNameO _ hinf _ _)
  have hps : Neutral (join ", " (List.map lastWord paramRes)) := by
    apply neutral_join (by decide)
    intro x hx
    obtain ⟨r, hr, rfl⟩ := List.mem_map.mp hx
    exact (hp r hr).2
  have hn : Neutral (toString (List.map lastWord paramRes).length) := BrFree.neutral (brs_toString_nat _)
  generalize join ", " (List.map boxedOf
      (List.map (fun x => replaceDots (rsplit1 x)) paramRes ++ [typeNameO inferred true false])) = tys at hty
  generalize join ", " (List.map lastWord paramRes) = ps at hps
  generalize toString (List.map lastWord paramRes).length = n at hn
  fin_neutral [hi.eq, hname.eq, hty.eq, hps.eq, hn.eq, hb.eq]

theorem neutral_methodText {idt name : String} (hi : BrFree idt) (hname : BrFree name) (isFinal : Bool)
    {tparams : List Ty} (htp : ∀ t ∈ tparams, TyOK t) {inferred : Option Ty} (hinf : TyOKO inferred)
    {paramRes : List Text} (hp : ∀ r ∈ paramRes, Neutral r) {bodyT : Text} (hb : Neutral bodyT) :
    Neutral (methodText idt name isFinal tparams inferred paramRes bodyT) := by
  have hi := hi.neutral
  have hname := hname.neutral
  unfold methodText
  simp only
  have htpr : Neutral (join ", " (tparams.map typeParamStr)) := by
    apply neutral_join (by decide)
    intro x hx
    obtain ⟨t, ht, rfl⟩ := List.mem_map.mp hx
    exact (htp t ht).tparam
  have h1 : Neutral (if join ", " (tparams.map typeParamStr) != "" then "<" ++ join ", " (tparams.map typeParamStr) ++ "> " else "") := by
    split
    · fin_neutral [htpr.eq]
    · exact neutral_empty
  generalize (if join ", " (tparams.map typeParamStr) != "" then "<" ++ join ", " (tparams.map typeParamStr) ++ "> " else "") = tp at h1
  have h2 := neutral_typeNameO inferred hinf false false
  generalize typeNameO inferred false false = rt at h2
  have h3 := neutral_join (sep := ", ") (by decide) hp
  generalize join ", " paramRes = ps at h3
  have h4 : Neutral (if isFinal then "final " else "") := by split <;> exact BrFree.neutral (by decide)
  generalize (if isFinal then "final " else "") = fi at h4
  have h5 : Neutral (if bodyT == "" then "abstract " else "") := by split <;> exact BrFree.neutral (by decide)
  generalize (if bodyT == "" then "abstract " else "") = ab at h5
  have h6 : Neutral (if bodyT == "" then ";" else "") := by split <;> exact BrFree.neutral (by decide)
  generalize (if bodyT == "" then ";" else "") = sc at h6
  fin_neutral [hi.eq, hname.eq, h1.eq, h2.eq, h3.eq, h4.eq, h5.eq, h6.eq, hb.eq]

/-! ### the two visit methods -/

theorem ok2_lambda (e : Env) {v : St → Node → St × Text} (hv : VOK2 v) (st : St) (hst : StOK2 st)
    (name : String) (params : List Node) (ret : Option Ty) (body : Node) (sig : Option Ty)
    (hn : AtomsOK (.lambda name params ret body sig)) :
    StOK2 (visitNode e v st (.lambda name params ret body sig)).1 ∧
      Neutral (visitNode e v st (.lambda name params ret body sig)).2 := by
  atoms_unfold hn
  obtain ⟨⟨⟨⟨hname, hparams⟩, hret⟩, hbody⟩, _⟩ := hn
  simp only [visitNode]
  generalize hp : visitL v _ params = p
  have h : StOK2 p.1 ∧ (∀ r ∈ p.2, Neutral r) ∧
      ((∀ x ∈ params, isParamDecl x = true) → ∀ r ∈ p.2, ParamTextOK r) := by
    rw [← hp]
    apply visitL_ok2 hv params _ _ hparams
    (repeat' split) <;> first
      | exact hst.funcEnter name (notVoid ret)
      | exact (hst.funcEnter name (notVoid ret)).with_eq rfl rfl rfl
  clear hp
  obtain ⟨s1, paramRes⟩ := p
  simp only at h ⊢
  have h' := hv s1 body h.1 hbody
  generalize v s1 body = q at h'
  obtain ⟨s2, bodyRes⟩ := q
  simp only at h' ⊢
  refine ⟨h'.1.funcLeave _ _ _ _, ?_⟩
  have hb := neutral_lambdaBodyText h'.2.1 (!isBlock body) (notVoid ret) (brFree_semi s2)
  generalize lambdaBodyText bodyRes (!isBlock body) (notVoid ret) (semi s2) = bt at hb
  have hj := neutral_join (sep := ", ") (by decide) h.2.1
  generalize join ", " paramRes = ps at hj
  fin_neutral [hb.eq, hj.eq]

theorem ok2_funcDecl (e : Env) {v : St → Node → St × Text} (hv : VOK2 v) (st : St) (hst : StOK2 st)
    (name : String) (params : List Node) (rt inferred : Option Ty) (body : Option Node) (isFinal ov : Bool)
    (tparams : List Ty) (ft : Nat)
    (hn : AtomsOK (.funcDecl name params rt inferred body isFinal ov tparams ft)) :
    StOK2 (visitNode e v st (.funcDecl name params rt inferred body isFinal ov tparams ft)).1 ∧
      Neutral (visitNode e v st (.funcDecl name params rt inferred body isFinal ov tparams ft)).2 := by
  atoms_unfold hn
  obtain ⟨⟨⟨⟨⟨⟨hname, hparams⟩, hpd⟩, hret⟩, hinf⟩, hbody⟩, htps⟩ := hn
  have hname := BrFree.ofB hname
  have hinf := TyOKO.ofWF hinf
  have htps : ∀ t ∈ tparams, TyOK t := fun t ht => TyOK.ofWF ((WFL_iff _).1 htps t ht)
  simp only [visitNode]
  generalize hp : visitL v _ params = p
  have h : StOK2 p.1 ∧ (∀ r ∈ p.2, Neutral r) ∧ (∀ r ∈ p.2, ParamTextOK r) := by
    rw [← hp]
    have key : ∀ S, StOK2 S → StOK2 (visitL v S params).1 ∧ (∀ r ∈ (visitL v S params).2, Neutral r) ∧
        (∀ r ∈ (visitL v S params).2, ParamTextOK r) := by
      intro S hS
      have := visitL_ok2 hv params S hS hparams
      exact ⟨this.1, this.2.1, this.2.2 (by simpa [List.all_eq_true] using hpd)⟩
    apply key
    (repeat' split) <;> exact (hst.funcEnter name (notVoid inferred)).with_eq rfl rfl rfl
  clear hp
  obtain ⟨s1, paramRes⟩ := p
  simp only at h ⊢
  cases body with
  | none =>
    simp only
    have hb : ∀ old, Neutral (funcBodyText "" true (notVoid inferred) (identOld s1 old)) :=
      fun old => neutral_funcBodyText neutral_empty true (notVoid inferred) (brFree_identOld s1 old)
    split
    · dsimp only
      refine ⟨StOK2.funcLeave ?_ _ _ _ _, neutral_nestedFuncText (brFree_identOld _ _) hname hinf h.2.2 (hb _)⟩
      exact h.1.with_eq rfl rfl rfl
    · dsimp only
      exact ⟨h.1.funcLeave _ _ _ _, neutral_methodText (brFree_identOld _ _) hname _ htps hinf h.2.1 (hb _)⟩
  | some b =>
    simp only
    have h' := hv s1 b h.1 hbody
    generalize v s1 b = q at h'
    obtain ⟨s2, bodyRes⟩ := q
    simp only at h' ⊢
    have hb : ∀ old, Neutral (funcBodyText bodyRes (!isBlock b) (notVoid inferred) (identOld s2 old)) :=
      fun old => neutral_funcBodyText h'.2.1 (!isBlock b) (notVoid inferred) (brFree_identOld s2 old)
    split
    · dsimp only
      refine ⟨StOK2.funcLeave ?_ _ _ _ _, neutral_nestedFuncText (brFree_identOld _ _) hname hinf h.2.2 (hb _)⟩
      exact h'.1.with_eq rfl rfl rfl
    · dsimp only
      exact ⟨h'.1.funcLeave _ _ _ _, neutral_methodText (brFree_identOld _ _) hname _ htps hinf h.2.1 (hb _)⟩

end Heph.TransJava
