import Heph.Model.Pool
/-!
# Lemmas about the identifier pool: freshness of `word`, case functions, reserved-word removal
-/
namespace Heph.Pool

/-! ## characters -/

theorem toLower_of_isLower {c : Char} (h : c.isLower = true) : c.toLower = c := by
  simp only [Char.isLower, Bool.and_eq_true, decide_eq_true_eq] at h
  simp only [Char.toLower]
  split
  · next h1 =>
    simp only [UInt32.le_iff_toNat_le, ge_iff_le, seval] at h h1
    omega
  · rfl

theorem toLower_toLower (c : Char) : c.toLower.toLower = c.toLower := by
  simp only [Char.toLower]
  split
  · split
    · next h1 h2 =>
      simp only [UInt32.le_iff_toNat_le, UInt32.toNat_add, ge_iff_le, seval] at h1 h2
      omega
    · simp
  · rfl

theorem toLower_toUpper (c : Char) : c.toUpper.toLower = c.toLower := by
  by_cases hl : ('a'.val ≤ c.val ∧ c.val ≤ 'z'.val)
  · have hu : c.toUpper = ⟨c.val + ('A'.val - 'a'.val), by
        simp only [UInt32.le_iff_toNat_le, seval] at hl
        have : (c.val + ('A'.val - 'a'.val)).toNat = c.val.toNat - 32 := by
          simp only [UInt32.toNat_add, seval]; omega
        simp only [UInt32.isValidChar, Nat.isValidChar, this]; omega⟩ := by
      simp only [Char.toUpper, hl, and_self, dite_true]
    have hnl : ¬ (c.val ≥ 'A'.val ∧ c.val ≤ 'Z'.val) := by
      simp only [UInt32.le_iff_toNat_le, ge_iff_le, seval] at hl ⊢; omega
    rw [hu]
    simp only [Char.toLower, hnl, dite_false]
    have hv : (c.val + ('A'.val - 'a'.val)).toNat = c.val.toNat - 32 := by
      simp only [UInt32.le_iff_toNat_le, seval] at hl
      simp only [UInt32.toNat_add, seval]; omega
    have hup : (c.val + ('A'.val - 'a'.val)) ≥ 'A'.val ∧ (c.val + ('A'.val - 'a'.val)) ≤ 'Z'.val := by
      simp only [seval] at hv
      simp only [UInt32.le_iff_toNat_le, ge_iff_le, seval] at hl ⊢; omega
    simp only [hup, and_self, dite_true]
    apply Char.ext
    apply UInt32.toNat_inj.mp
    simp only [UInt32.le_iff_toNat_le, seval] at hl
    simp only [UInt32.toNat_add, seval]
    omega
  · have : c.toUpper = c := by simp only [Char.toUpper, hl, dite_false]
    rw [this]

theorem isLower_toUpper_false {c : Char} (h : c.isLower = true) : c.toUpper.isLower = false := by
  simp only [Char.isLower, Bool.and_eq_true, decide_eq_true_eq] at h
  have hl : ('a'.val ≤ c.val ∧ c.val ≤ 'z'.val) := h
  have hv : (c.val + ('A'.val - 'a'.val)).toNat = c.val.toNat - 32 := by
    simp only [UInt32.le_iff_toNat_le, seval] at hl
    simp only [UInt32.toNat_add, seval]; omega
  simp only [Char.toUpper, hl, and_self, dite_true, Char.isLower, Bool.and_eq_false_iff, decide_eq_false_iff_not]
  simp only [seval] at hv
  simp only [UInt32.le_iff_toNat_le, ge_iff_le, seval] at hl ⊢
  omega

theorem toUpper_inj_of_isLower {c d : Char} (hc : c.isLower = true) (hd : d.isLower = true)
    (h : c.toUpper = d.toUpper) : c = d := by
  have h1 := congrArg Char.toLower h
  rwa [toLower_toUpper, toLower_toUpper, toLower_of_isLower hc, toLower_of_isLower hd] at h1

/-! ## words -/

/-- the shape of every entry of `src/resources/words`: ASCII lower-case letters only -/
def IsLowerWord (w : String) : Prop := ∀ c ∈ w.toList, c.isLower = true

instance (w : String) : Decidable (IsLowerWord w) := by unfold IsLowerWord; exact inferInstance

theorem map_toLower_of_lower {cs : List Char} (h : ∀ c ∈ cs, c.isLower = true) : cs.map Char.toLower = cs := by
  induction cs with
  | nil => rfl
  | cons c cs ih =>
    simp only [List.map_cons, toLower_of_isLower (h c List.mem_cons_self),
      ih (fun d hd => h d (List.mem_cons_of_mem _ hd))]

theorem lower_of_isLowerWord {w : String} (h : IsLowerWord w) : lower w = w := by
  unfold lower
  rw [map_toLower_of_lower h, String.ofList_toList]

theorem lower_lower (w : String) : lower (lower w) = lower w := by
  unfold lower
  simp only [String.toList_ofList, List.map_map]
  congr 1
  apply List.map_congr_left
  intro c _
  exact toLower_toLower c

theorem lower_capitalize (w : String) : lower (capitalize w) = lower w := by
  unfold lower capitalize
  split
  · next h => simp [h]
  · next c cs h =>
    simp only [h, String.toList_ofList, List.map_cons, List.map_map, toLower_toUpper]
    congr 2
    apply List.map_congr_left
    intro d _
    exact toLower_toLower d

theorem lower_genIdentifier (m : Mode) (w : String) : lower (genIdentifier m w) = lower w := by
  cases m
  · rfl
  · exact lower_lower w
  · exact lower_capitalize w

theorem capitalize_inj {w v : String} (hw : IsLowerWord w) (hv : IsLowerWord v)
    (h : capitalize w = capitalize v) : w = v := by
  have h1 := congrArg lower h
  rwa [lower_capitalize, lower_capitalize, lower_of_isLowerWord hw, lower_of_isLowerWord hv] at h1

/-- the identifier determines the word it was made from, whatever the mode -/
theorem genIdentifier_word {m m' : Mode} {w v : String} (hw : IsLowerWord w) (hv : IsLowerWord v)
    (h : genIdentifier m w = genIdentifier m' v) : w = v := by
  have h1 := congrArg lower h
  rwa [lower_genIdentifier, lower_genIdentifier, lower_of_isLowerWord hw, lower_of_isLowerWord hv] at h1

/-! ## draws -/

theorem word_spec {p p' : Pool} {c w : String} (h : p.word c = some (w, p')) :
    w = c ∧ w ∈ p.words ∧ w ∉ p'.words ∧ (∀ x ∈ p'.words, x ∈ p.words) ∧ p'.initial = p.initial := by
  unfold Pool.word at h
  split at h
  · next hm =>
    injection h with h
    injection h with h1 h2
    subst h1 h2
    refine ⟨rfl, hm, ?_, ?_, rfl⟩
    · simp
    · intro x hx
      exact (List.mem_filter.mp hx).1
  · cases h

theorem draws_spec : ∀ (cs : List String) (p p' : Pool) (rs : List String), p.draws cs = some (rs, p') →
    rs = cs ∧ rs.Nodup ∧ (∀ r ∈ rs, r ∈ p.words) ∧ (∀ r ∈ rs, r ∉ p'.words) ∧
      (∀ x ∈ p'.words, x ∈ p.words) ∧ p'.initial = p.initial := by
  intro cs
  induction cs with
  | nil =>
    intro p p' rs h
    simp only [Pool.draws] at h
    injection h with h
    injection h with h1 h2
    subst h1 h2
    simp
  | cons c cs ih =>
    intro p p' rs h
    simp only [Pool.draws] at h
    split at h
    · cases h
    · next w p1 hw =>
      split at h
      · cases h
      · next ws p2 hd =>
        injection h with h
        injection h with h1 h2
        subst h1 h2
        obtain ⟨e1, m1, n1, s1, i1⟩ := word_spec hw
        obtain ⟨e2, nd2, m2, n2, s2, i2⟩ := ih p1 p2 ws hd
        subst e1
        refine ⟨by rw [e2], ?_, ?_, ?_, ?_, ?_⟩
        · refine List.nodup_cons.mpr ⟨?_, nd2⟩
          intro hin
          exact n1 (m2 _ hin)
        · intro r hr
          rcases List.mem_cons.mp hr with h | h
          · subst h; exact m1
          · exact s1 _ (m2 _ h)
        · intro r hr
          rcases List.mem_cons.mp hr with h | h
          · subst h; intro hin; exact n1 (s2 _ hin)
          · exact n2 _ h
        · intro x hx; exact s1 _ (s2 _ hx)
        · rw [i2, i1]

/-! ## reserved words -/

theorem mem_removeReserved {pool kw : List String} {w : String} :
    w ∈ removeReserved pool kw ↔ w ∈ pool ∧ w ∉ kw := by
  simp [removeReserved, List.mem_filter]

theorem mem_removeReservedFixed {pool kw : List String} {w : String} :
    w ∈ removeReservedFixed pool kw ↔ w ∈ pool ∧ lower w ∉ kw.map lower := by
  simp [removeReservedFixed, List.mem_filter]

/-- case-insensitive removal keeps no word any of whose spellings is a keyword — for every pool
    and every keyword list -/
theorem not_reserved_of_fixed (pool kw : List String) (w : String) (m : Mode)
    (h : w ∈ removeReservedFixed pool kw) : genIdentifier m w ∉ kw := by
  intro hin
  have h2 := (mem_removeReservedFixed.mp h).2
  apply h2
  rw [← lower_genIdentifier m w]
  exact List.mem_map_of_mem hin

theorem caps_spec {samples blacklist : List String} {s : String} (h : caps samples blacklist = some s) :
    s ∈ samples ∧ s ∉ blacklist := by
  unfold caps at h
  refine ⟨List.mem_of_find?_eq_some h, ?_⟩
  have := List.find?_some h
  simpa using this

/-! ## identifiers of one program are distinct -/

/-- identifiers made (in whatever modes) from the words of one draw history over a lower-case
    pool are pairwise distinct: equal identifiers come from the same draw -/
theorem identifiers_distinct {p p' : Pool} {cs rs : List String} (hl : ∀ w ∈ p.words, IsLowerWord w)
    (h : p.draws cs = some (rs, p')) (mode : Nat → Mode) (i j : Nat) (hi : i < rs.length) (hj : j < rs.length)
    (heq : genIdentifier (mode i) rs[i] = genIdentifier (mode j) rs[j]) : i = j := by
  obtain ⟨_, nd, mem, _, _, _⟩ := draws_spec cs p p' rs h
  have hw := genIdentifier_word (hl _ (mem _ (List.getElem_mem hi))) (hl _ (mem _ (List.getElem_mem hj))) heq
  exact (List.getElem_inj nd).mp hw

/-! ## the two variants of the removal -/

theorem removeReservedVariant_true : removeReservedVariant true = removeReservedFixed := rfl
theorem removeReservedVariant_false : removeReservedVariant false = removeReserved := rfl

/-- what survives any variant of the removal was in the pool -/
theorem mem_pool_of_mem_variant {b : Bool} {pool kw : List String} {w : String}
    (h : w ∈ removeReservedVariant b pool kw) : w ∈ pool := by
  cases b
  · exact (mem_removeReserved.mp h).1
  · exact (mem_removeReservedFixed.mp h).1

/-- only words equal to a keyword up to case can ever yield a keyword -/
theorem lower_mem_of_reserved {kw : List String} {w : String} {m : Mode} (h : genIdentifier m w ∈ kw) :
    lower w ∈ kw.map lower := by
  rw [← lower_genIdentifier m w]
  exact List.mem_map_of_mem h

/-- words drawn after `remove_reserved_words` (repaired variant) never yield a keyword -/
theorem drawn_not_reserved_of_fixed (p p' : Pool) (kw cs rs : List String) (m : Mode)
    (h : Pool.draws { initial := removeReservedFixed p.initial kw, words := removeReservedFixed p.words kw } cs
          = some (rs, p')) :
    ∀ r ∈ rs, genIdentifier m r ∉ kw := by
  intro r hr
  obtain ⟨_, _, mem, _, _, _⟩ := draws_spec cs _ p' rs h
  exact not_reserved_of_fixed p.words kw r m (mem r hr)

end Heph.Pool
