import Heph.Proofs.DiagLine
/-! The crash tests on rendered output: a batch of well-formed items never looks like a crash,
and an appended stack trace always does (all four compilers). -/
namespace Heph.Diag

theorem crashSearch_unlines (c : Compiler) (ls : List (List Char)) (rest : List Char) :
    crashSearch c (unlines ls ++ rest)
      = (ls.any (fun l => crashSearch c (l ++ ['\n'])) || crashSearch c rest) := by
  cases c with
  | javac => exact searchThenNl_unlines _ (by decide) ls rest
  | kotlinc => exact searchThenNl_unlines _ (by decide) ls rest
  | groovyc => exact searchW_unlines _ (by decide) (by decide) ls rest
  | scalac => exact searchW_unlines _ (by decide) (by decide) ls rest

theorem stackOverflowSearch_unlines (ls : List (List Char)) (rest : List Char) :
    stackOverflowSearch (unlines ls ++ rest)
      = (ls.any (fun l => stackOverflowSearch (l ++ ['\n'])) || stackOverflowSearch rest) :=
  searchW_unlines _ (by decide) (by decide) ls rest

theorem crashSearch_nil (c : Compiler) : crashSearch c [] = false := by
  cases c <;> rfl

theorem lineCrash_false {c : Compiler} {l : List Char} (h : lineCrash c l = false) :
    crashSearch c (l ++ ['\n']) = false ∧
      (c = .groovyc → stackOverflowSearch (l ++ ['\n']) = false) := by
  unfold lineCrash at h
  simp only [Bool.or_eq_false_iff, Bool.and_eq_false_iff] at h
  refine ⟨h.1, fun hc => ?_⟩
  rcases h.2 with h2 | h2
  · subst hc; simp at h2
  · exact h2

theorem lineCrash_nil (c : Compiler) : lineCrash c [] = false := by
  cases c <;> decide

/-- no line of a well-formed item fires a crash pattern -/
theorem wf_lines_noCrash {c : Compiler} {i : Item} (h : wfItem c i = true) :
    ∀ l ∈ itemLines c i, lineCrash c l = false := by
  cases i with
  | error f l col msg pad det =>
    simp only [wfItem, Bool.and_eq_true, Bool.not_eq_true'] at h
    obtain ⟨⟨_, hh⟩, hdet⟩ := h
    have hd : ∀ d ∈ det, lineCrash c d = false := by
      intro d hd
      cases c <;> simp only [detailOK, List.all_eq_true, Bool.and_eq_true, Bool.not_eq_true'] at hdet
      · exact (textOK_spec (hdet d hd)).2.2
      · exact (textOK_spec (hdet d hd)).2.2
      · exact (hdet d hd).2
      · exact (textOK_spec (hdet.1 d hd)).2.2
    intro x hx
    simp only [itemLines, List.mem_cons, List.mem_append] at hx
    rcases hx with rfl | hx | hx
    · exact hh
    · exact hd x hx
    · split at hx
      · simp only [List.mem_cons, List.mem_nil_iff, or_false] at hx
        subst hx; exact lineCrash_nil c
      · simp at hx
  | warning f l col msg pad det =>
    simp only [wfItem, Bool.and_eq_true, List.all_eq_true] at h
    intro x hx
    exact (textOK_spec (h.2 x hx)).2.2
  | note t =>
    simp only [wfItem] at h
    intro x hx
    simp only [itemLines, List.mem_cons, List.mem_nil_iff, or_false] at hx
    subst hx
    exact (textOK_spec h).2.2
  | summary n =>
    simp only [wfItem, List.all_eq_true] at h
    intro x hx
    exact (textOK_spec (h x hx)).2.2

theorem any_false_of_forall {α} (l : List α) (p : α → Bool) (h : ∀ x ∈ l, p x = false) :
    l.any p = false := by
  simp only [List.any_eq_false]
  intro x hx; simp [h x hx]

theorem crashSearch_render (c : Compiler) (is : List Item) (rest : List Char)
    (h : ∀ i ∈ is, WFItem c i) : crashSearch c (render c is ++ rest) = crashSearch c rest := by
  unfold render
  rw [crashSearch_unlines, any_false_of_forall]
  · simp
  · intro l hl
    simp only [List.mem_flatMap] at hl
    obtain ⟨i, hi, hl⟩ := hl
    exact (lineCrash_false (wf_lines_noCrash (h i hi) l hl)).1

theorem stackOverflowSearch_render (is : List Item) (rest : List Char)
    (h : ∀ i ∈ is, WFItem .groovyc i) :
    stackOverflowSearch (render .groovyc is ++ rest) = stackOverflowSearch rest := by
  unfold render
  rw [stackOverflowSearch_unlines, any_false_of_forall]
  · simp
  · intro l hl
    simp only [List.mem_flatMap] at hl
    obtain ⟨i, hi, hl⟩ := hl
    exact (lineCrash_false (wf_lines_noCrash (h i hi) l hl)).2 rfl

theorem crashSearch_trace (c : Compiler) (t : Trace) (h : WFTrace c t) :
    crashSearch c (renderTrace (some t)) = true := by
  unfold renderTrace Trace.lines
  have := crashSearch_unlines c (t.head :: t.frames) []
  simp only [List.append_nil] at this
  rw [this]
  unfold WFTrace at h
  simp [h]

theorem applyFilters_nil (s : List Char) : applyFilters [] s = s := rfl

/-- output that carries a stack trace is a crash, output of diagnostics alone is not -/
theorem analyze_crash_iff (c : Compiler) (fs : List (List Char)) (is : List Item) (ot : Option Trace)
    (h : ∀ i ∈ is, WFItem c i) (ht : ∀ t ∈ ot, WFTrace c t) :
    (analyze c fs (render c is ++ renderTrace ot)).crash = true ↔ ot ≠ none := by
  cases ot with
  | some t =>
    have h1 : crashSearch c (render c is ++ renderTrace (some t)) = true := by
      rw [crashSearch_render c is _ h]; exact crashSearch_trace c t (ht t rfl)
    simp [analyze, h1]
  | none =>
    have h1 : crashSearch c (render c is ++ renderTrace none) = false := by
      rw [crashSearch_render c is _ h]; exact crashSearch_nil c
    have h2 : c = .groovyc → stackOverflowSearch (render c is ++ renderTrace none) = false := by
      intro hc; subst hc
      rw [stackOverflowSearch_render is _ h]; rfl
    simp only [analyze, h1, ne_eq, not_true_eq_false, iff_false, Bool.not_eq_true]
    by_cases hc : c = .groovyc
    · simp [h2 hc]
    · have : (c == Compiler.groovyc) = false := by simpa using hc
      simp [this]

end Heph.Diag
