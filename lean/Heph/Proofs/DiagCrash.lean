import Heph.Proofs.DiagLine
/-! The crash tests on rendered output: a batch of well-formed items never looks like a crash,
and an appended stack trace always does (all four compilers; for javac both variants of the
crash pattern, see `JavaCrashVariant`). -/
namespace Heph.Diag

/-! ## one-line patterns (everything except the repaired javac pattern) -/

theorem crashSearchV_unlines (v : JavaCrashVariant) (c : Compiler)
    (hcv : ¬ (c = .javac ∧ v = .framed)) (ls : List (List Char)) (rest : List Char) :
    crashSearchV v c (unlines ls ++ rest)
      = (ls.any (fun l => crashSearchV v c (l ++ ['\n'])) || crashSearchV v c rest) := by
  cases c with
  | javac =>
    cases v with
    | asis => exact searchThenNl_unlines _ (by decide) ls rest
    | framed => exact absurd ⟨rfl, rfl⟩ hcv
  | kotlinc => exact searchThenNl_unlines _ (by decide) ls rest
  | groovyc => exact searchW_unlines _ (by decide) (by decide) ls rest
  | scalac => exact searchW_unlines _ (by decide) (by decide) ls rest

theorem stackOverflowSearch_unlines (ls : List (List Char)) (rest : List Char) :
    stackOverflowSearch (unlines ls ++ rest)
      = (ls.any (fun l => stackOverflowSearch (l ++ ['\n'])) || stackOverflowSearch rest) :=
  searchW_unlines _ (by decide) (by decide) ls rest

theorem crashSearchV_nil (v : JavaCrashVariant) (c : Compiler) : crashSearchV v c [] = false := by
  cases c <;> cases v <;> rfl

theorem crashSearch_nil (c : Compiler) : crashSearch c [] = false := crashSearchV_nil _ c

/-! ## the repaired javac pattern `(java\.lang.*)\n([ \t]+at .*)` -/

theorem dropWhile_append_stop (p : Char → Bool) (l : List Char) (x : Char) (X : List Char)
    (hx : p x = false) : (l ++ x :: X).dropWhile p = l.dropWhile p ++ x :: X := by
  induction l with
  | nil => simp [List.dropWhile_cons, hx]
  | cons c cs ih =>
    simp only [List.cons_append, List.dropWhile_cons]
    split
    · exact ih
    · rfl

/-- whether a line is a frame line does not depend on what follows its newline -/
theorem frameLine_line (l X : List Char) : frameLine (l ++ '\n' :: X) = frameLine l := by
  cases l with
  | nil => simp [frameLine, isBlank]
  | cons c cs =>
    have h1 := dropWhile_append_stop isBlank (c :: cs) '\n' X (by decide)
    simp only [List.cons_append] at h1
    simp only [frameLine, List.cons_append, h1]
    have h2 := isPrefixOf_local "at ".toList (by decide) ((c :: cs).dropWhile isBlank) X
    rw [h2, isPrefixOf_snoc_nl _ (by decide)]

theorem frameLine_unlines (ls : List (List Char)) :
    frameLine (unlines ls) = (match ls with
      | [] => false
      | l :: _ => frameLine l) := by
  cases ls with
  | nil => rfl
  | cons l ls => rw [unlines_cons, frameLine_line]

theorem hasInfix_nil_of_ne (pat : List Char) (hne : pat ≠ []) : hasInfix pat [] = false := by
  cases pat with
  | nil => exact absurd rfl hne
  | cons _ _ => rfl

/-- the literal inside a line `t`, then the newline, then a frame line -/
theorem searchThenFrame_line (pat : List Char) (hne : pat ≠ []) (hnl : '\n' ∉ pat)
    (t R : List Char) (ht : '\n' ∉ t) :
    searchThenFrame pat (t ++ '\n' :: R)
      = ((hasInfix pat t && frameLine R) || searchThenFrame pat R) := by
  induction t with
  | nil =>
    have h0 : pat.isPrefixOf ('\n' :: R) = false := by
      cases pat with
      | nil => exact absurd rfl hne
      | cons x xs =>
        have : x ≠ '\n' := fun h => hnl (by simp [h])
        simp [List.isPrefixOf, this]
    simp [searchThenFrame, h0, hasInfix_nil_of_ne pat hne]
  | cons c cs ih =>
    have hcs : '\n' ∉ cs := fun h => ht (by simp [h])
    have ha : afterLine (c :: (cs ++ '\n' :: R)) = '\n' :: R := by
      have := afterLine_append_nl (c :: cs) R ht
      simpa using this
    have hp : pat.isPrefixOf (c :: (cs ++ '\n' :: R)) = pat.isPrefixOf (c :: cs) := by
      have := isPrefixOf_local pat hnl (c :: cs) R
      simp only [List.cons_append] at this
      rw [this]
      have := isPrefixOf_snoc_nl pat hnl (c :: cs)
      simpa using this
    simp only [List.cons_append, searchThenFrame, ha, hp, ih hcs, hasInfix]
    cases pat.isPrefixOf (c :: cs) <;> cases hasInfix pat cs <;> cases frameLine R <;> simp

/-- exact: on newline-terminated lines the repaired pattern fires iff a line that contains
`java.lang` is directly followed by a frame line -/
theorem searchThenFrame_unlines (ls : List (List Char)) (h : ∀ l ∈ ls, '\n' ∉ l) :
    searchThenFrame "java.lang".toList (unlines ls) = framePairs ls := by
  induction ls with
  | nil => rfl
  | cons l ls ih =>
    have hl := h l (by simp)
    have ih' := ih (fun x hx => h x (by simp [hx]))
    rw [unlines_cons, searchThenFrame_line _ (by decide) (by decide) l _ hl, ih', frameLine_unlines]
    cases ls with
    | nil => simp [framePairs]
    | cons l2 rest => simp [framePairs]

theorem framePairs_false_of_noFrame (ls : List (List Char)) (h : ∀ l ∈ ls, frameLine l = false) :
    framePairs ls = false := by
  induction ls with
  | nil => rfl
  | cons l ls ih =>
    cases ls with
    | nil => rfl
    | cons l2 rest =>
      simp only [framePairs, h l2 (by simp), Bool.and_false, Bool.false_or]
      exact ih (fun x hx => h x (by simp [hx]))

theorem framePairs_false_of_noMarker (ls : List (List Char))
    (h : ∀ l ∈ ls, hasInfix "java.lang".toList l = false) : framePairs ls = false := by
  induction ls with
  | nil => rfl
  | cons l ls ih =>
    cases ls with
    | nil => rfl
    | cons l2 rest =>
      simp only [framePairs, h l (by simp), Bool.false_and, Bool.false_or]
      exact ih (fun x hx => h x (by simp [hx]))

/-! ## searching is monotone in what is put in front -/

theorem searchThenNl_mono (pat pre rest : List Char) (h : searchThenNl pat rest = true) :
    searchThenNl pat (pre ++ rest) = true := by
  induction pre with
  | nil => exact h
  | cons c cs ih => simp [searchThenNl, ih]

theorem searchThenFrame_mono (pat pre rest : List Char) (h : searchThenFrame pat rest = true) :
    searchThenFrame pat (pre ++ rest) = true := by
  induction pre with
  | nil => exact h
  | cons c cs ih => simp [searchThenFrame, ih]

theorem searchW_mono (pat : List (Option Char)) (pre rest : List Char) (h : searchW pat rest = true) :
    searchW pat (pre ++ rest) = true := by
  induction pre with
  | nil => exact h
  | cons c cs ih => simp [searchW, ih]

theorem crashSearchV_mono (v : JavaCrashVariant) (c : Compiler) (pre rest : List Char)
    (h : crashSearchV v c rest = true) : crashSearchV v c (pre ++ rest) = true := by
  cases c with
  | javac =>
    cases v with
    | asis => exact searchThenNl_mono _ pre rest h
    | framed => exact searchThenFrame_mono _ pre rest h
  | kotlinc => exact searchThenNl_mono _ pre rest h
  | groovyc => exact searchW_mono _ pre rest h
  | scalac => exact searchW_mono _ pre rest h

/-! ## lines of well-formed items -/

theorem lineCrashV_false_search (v : JavaCrashVariant) (c : Compiler)
    (hcv : ¬ (c = .javac ∧ v = .framed)) (l : List Char) (h : lineCrashV v c l = false) :
    crashSearchV v c (l ++ ['\n']) = false := by
  cases c <;> cases v <;> simp only [lineCrashV, Bool.or_eq_false_iff] at h
  · exact h.1
  · exact absurd ⟨rfl, rfl⟩ hcv
  all_goals exact h.1

theorem lineCrashV_groovy_so (v : JavaCrashVariant) (l : List Char)
    (h : lineCrashV v .groovyc l = false) : stackOverflowSearch (l ++ ['\n']) = false := by
  cases v <;> simp only [lineCrashV, Bool.or_eq_false_iff] at h <;> simpa using h.2

/-- lines on which the per-line clause holds never look like a crash -/
theorem crashSearchV_lines_false (v : JavaCrashVariant) (c : Compiler) (ls : List (List Char))
    (hnl : c = .javac → ∀ l ∈ ls, '\n' ∉ l) (h : ∀ l ∈ ls, lineCrashV v c l = false) :
    crashSearchV v c (unlines ls) = false := by
  by_cases hcv : c = .javac ∧ v = .framed
  · obtain ⟨hc, hv⟩ := hcv
    subst hc; subst hv
    show searchThenFrame "java.lang".toList (unlines ls) = false
    rw [searchThenFrame_unlines ls (hnl rfl)]
    exact framePairs_false_of_noFrame ls h
  · have := crashSearchV_unlines v c hcv ls []
    simp only [List.append_nil] at this
    rw [this, crashSearchV_nil, Bool.or_false, List.any_eq_false]
    intro l hl
    simp [lineCrashV_false_search v c hcv l (h l hl)]

theorem lineCrash_nil (c : Compiler) : lineCrash c [] = false := by
  unfold lineCrash
  cases c <;> cases javaCrashVariant <;> decide

/-- no line of a well-formed item fires a crash pattern -/
theorem wf_lines_noCrash {c : Compiler} {i : Item} (h : wfItem c i = true) :
    ∀ l ∈ itemLines c i, lineCrash c l = false := by
  cases i with
  | error f l col msg pad det =>
    simp only [wfItem, Bool.and_eq_true, Bool.not_eq_true'] at h
    obtain ⟨⟨_, hh⟩, hdet⟩ := h
    have hd : ∀ d ∈ det, lineCrash c d = false := by
      intro d hd
      cases c <;> simp only [detailOK, List.all_eq_true, Bool.and_eq_true, Bool.not_eq_true'] at hdet
      · exact (textOK_spec (hdet d hd)).2.2
      · exact (textOK_spec (hdet d hd)).2.2
      · exact (hdet d hd).2
      · exact (textOK_spec (hdet.1 d hd)).2.2
    intro x hx
    simp only [itemLines, List.mem_cons, List.mem_append] at hx
    rcases hx with rfl | hx | hx
    · exact hh
    · exact hd x hx
    · split at hx
      · simp only [List.mem_cons, List.mem_nil_iff, or_false] at hx
        subst hx; exact lineCrash_nil c
      · simp at hx
  | warning f l col msg pad det =>
    simp only [wfItem, Bool.and_eq_true, List.all_eq_true] at h
    intro x hx
    exact (textOK_spec (h.2 x hx)).2.2
  | note t =>
    simp only [wfItem] at h
    intro x hx
    simp only [itemLines, List.mem_cons, List.mem_nil_iff, or_false] at hx
    subst hx
    exact (textOK_spec h).2.2
  | summary n =>
    simp only [wfItem, List.all_eq_true] at h
    intro x hx
    exact (textOK_spec (h x hx)).2.2

/-- the lines of a well-formed javac item contain no newline -/
theorem wf_lines_nl_javac {i : Item} (h : wfItem .javac i = true) :
    ∀ l ∈ itemLines .javac i, '\n' ∉ l := by
  cases i with
  | error f l col msg pad det =>
    simp only [wfItem, Bool.and_eq_true, Bool.not_eq_true', detailOK, List.all_eq_true] at h
    obtain ⟨⟨⟨⟨⟨hf, hl⟩, _⟩, hmsg⟩, _⟩, hdet⟩ := h
    obtain ⟨stem, hf1, _, hf3⟩ := fileOK_split hf
    obtain ⟨_, _, hlnl⟩ := digitsOK_spec hl
    have hmsg' : '\n' ∉ msg := by simpa using hmsg
    intro x hx
    simp only [itemLines, List.mem_cons, List.mem_append] at hx
    rcases hx with rfl | hx | hx
    · simp only [errorHeader, hf1, ext, List.mem_append, List.mem_cons, not_or]
      refine ⟨⟨fun hm => ?_, by decide, by decide⟩, by decide, ⟨hlnl, by decide⟩, hmsg'⟩
      have := hf3 _ hm
      rw [isClsJ_nl] at this; cases this
    · exact (textOK_spec (hdet x hx)).1
    · simp at hx
  | warning f l col msg pad det =>
    simp only [wfItem, Bool.and_eq_true, List.all_eq_true] at h
    intro x hx
    exact (textOK_spec (h.2 x hx)).1
  | note t =>
    simp only [wfItem] at h
    intro x hx
    simp only [itemLines, List.mem_cons, List.mem_nil_iff, or_false] at hx
    subst hx
    exact (textOK_spec h).1
  | summary n =>
    simp only [wfItem, List.all_eq_true] at h
    intro x hx
    exact (textOK_spec (h x hx)).1

theorem any_false_of_forall {α} (l : List α) (p : α → Bool) (h : ∀ x ∈ l, p x = false) :
    l.any p = false := by
  simp only [List.any_eq_false]
  intro x hx; simp [h x hx]

/-- a batch of well-formed items, alone, is never a crash -/
theorem crashSearch_render_nil (c : Compiler) (is : List Item) (h : ∀ i ∈ is, WFItem c i) :
    crashSearch c (render c is) = false := by
  unfold crashSearch render
  apply crashSearchV_lines_false
  · intro hc; subst hc
    intro l hl
    simp only [List.mem_flatMap] at hl
    obtain ⟨i, hi, hl⟩ := hl
    exact wf_lines_nl_javac (h i hi) l hl
  · intro l hl
    simp only [List.mem_flatMap] at hl
    obtain ⟨i, hi, hl⟩ := hl
    exact wf_lines_noCrash (h i hi) l hl

theorem stackOverflowSearch_render (is : List Item) (rest : List Char)
    (h : ∀ i ∈ is, WFItem .groovyc i) :
    stackOverflowSearch (render .groovyc is ++ rest) = stackOverflowSearch rest := by
  unfold render
  rw [stackOverflowSearch_unlines, any_false_of_forall]
  · simp
  · intro l hl
    simp only [List.mem_flatMap] at hl
    obtain ⟨i, hi, hl⟩ := hl
    exact lineCrashV_groovy_so _ l (wf_lines_noCrash (h i hi) l hl)

theorem applyFilters_nil (s : List Char) : applyFilters [] s = s := rfl

/-- output that carries a stack trace is a crash, output of diagnostics alone is not -/
theorem analyze_crash_iff (c : Compiler) (fs : List (List Char)) (is : List Item) (ot : Option Trace)
    (h : ∀ i ∈ is, WFItem c i) (ht : ∀ t ∈ ot, WFTrace c t) :
    (analyze c fs (render c is ++ renderTrace ot)).crash = true ↔ ot ≠ none := by
  cases ot with
  | some t =>
    have h1 : crashSearch c (render c is ++ renderTrace (some t)) = true :=
      crashSearchV_mono _ c _ _ (ht t rfl)
    simp [analyze, h1]
  | none =>
    have h1 : crashSearch c (render c is ++ renderTrace none) = false := by
      simp only [renderTrace, List.append_nil]; exact crashSearch_render_nil c is h
    have h2 : c = .groovyc → stackOverflowSearch (render c is ++ renderTrace none) = false := by
      intro hc; subst hc
      rw [stackOverflowSearch_render is _ h]; rfl
    simp only [analyze, h1, ne_eq, not_true_eq_false, iff_false, Bool.not_eq_true]
    by_cases hc : c = .groovyc
    · simp [h2 hc]
    · have : (c == Compiler.groovyc) = false := by simpa using hc
      simp [this]

end Heph.Diag
