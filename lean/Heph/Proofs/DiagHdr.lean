import Heph.Proofs.DiagBasic
/-! The header `([cls]+.EXT):TAIL` shared by javac, kotlinc and groovyc: what a match looks
like (`matchHdr_eq_some`), where the key sits (`matchHdr_keyLocal…`), and that a well-formed
header at the start of the text is matched in full at the first attempt (`matchHdr_hit`). -/
namespace Heph.Diag

theorem firstLine_append_left (a b : List Char) (ha : '\n' ∉ a) :
    firstLine (a ++ b) = a ++ firstLine b := by
  unfold firstLine
  apply takeWhile_append_all
  intro c hc
  have : c ≠ '\n' := fun h => ha (h ▸ hc)
  simp [this]

theorem mem_takeWhile_sat (p : Char → Bool) (s : List Char) : ∀ x ∈ s.takeWhile p, p x = true := by
  induction s with
  | nil => simp
  | cons c tl ih =>
    intro x hx
    simp only [List.takeWhile_cons] at hx
    split at hx
    · rename_i hc
      simp only [List.mem_cons] at hx
      rcases hx with rfl | hx
      · exact hc
      · exact ih x hx
    · simp at hx

theorem take_le_takeWhile (p : Char → Bool) (s : List Char) (k : Nat)
    (hk : k ≤ (s.takeWhile p).length) : ∀ x ∈ s.take k, p x = true := by
  intro x hx
  have hs : s = s.takeWhile p ++ s.dropWhile p := (List.takeWhile_append_dropWhile).symm
  rw [hs, List.take_append_of_le_length hk] at hx
  exact mem_takeWhile_sat p s x (List.mem_of_mem_take hx)

theorem attemptHdr_eq_some {ext : List Char} {tail : List Char → Option (List Char × Nat)}
    {s : List Char} {k : Nat} {g : List Char × List Char} {n : Nat}
    (h : attemptHdr ext tail s k = some (g, n)) :
    ∃ c r3 g2 n2, c ≠ '\n' ∧ s = s.take k ++ c :: (ext ++ ':' :: r3) ∧ tail r3 = some (g2, n2)
      ∧ g = (s.take k ++ c :: ext, g2) ∧ n = k + 1 + (ext.length + 1) + n2 := by
  unfold attemptHdr at h
  split at h
  · cases h
  · rename_i c r1 hdrop
    split at h
    · cases h
    · rename_i hc
      split at h
      · cases h
      · rename_i r3 heat
        split at h
        · cases h
        · rename_i g2 n2 htail
          simp only [Option.some.injEq, Prod.mk.injEq] at h
          refine ⟨c, r3, g2, n2, ?_, ?_, htail, h.1.symm, h.2.symm⟩
          · intro hcn; exact hc (by simp [hcn])
          · have h1 := eat_eq_some heat
            have h2 : s = s.take k ++ s.drop k := (List.take_append_drop k s).symm
            rw [hdrop, h1] at h2
            simpa using h2

theorem matchHdr_eq_some {cls : Char → Bool} {ext : List Char}
    {tail : List Char → Option (List Char × Nat)} {s : List Char} {g : List Char × List Char} {n : Nat}
    (h : matchHdr cls ext tail s = some (g, n)) :
    ∃ k c r3 g2 n2, 1 ≤ k ∧ (∀ x ∈ s.take k, cls x = true) ∧ c ≠ '\n'
      ∧ s = s.take k ++ c :: (ext ++ ':' :: r3) ∧ tail r3 = some (g2, n2)
      ∧ g = (s.take k ++ c :: ext, g2) ∧ n = k + 1 + (ext.length + 1) + n2 := by
  unfold matchHdr at h
  obtain ⟨k, hk1, hk2, hk3⟩ := firstDown1_eq_some h
  obtain ⟨c, r3, g2, n2, h1, h2, h3, h4, h5⟩ := attemptHdr_eq_some hk3
  exact ⟨k, c, r3, g2, n2, hk1, take_le_takeWhile cls s k hk2, h1, h2, h3, h4, h5⟩

/-- the key is in the tail (javac, kotlinc: ` error:`) -/
theorem matchHdr_keyLocal_tail (cls : Char → Bool) (ext : List Char)
    (tail : List Char → Option (List Char × Nat)) (K : List Char)
    (hcls : cls '\n' = false) (hext : '\n' ∉ ext)
    (htail : ∀ r x, tail r = some x → ∃ a b, firstLine r = a ++ K ++ b) :
    KeyLocal (matchHdr cls ext tail) K := by
  intro s x hx
  obtain ⟨g, n⟩ := x
  obtain ⟨k, c, r3, g2, n2, _, hk, hc, hs, ht, _, _⟩ := matchHdr_eq_some hx
  obtain ⟨a, b, hab⟩ := htail _ _ ht
  have hpre : '\n' ∉ s.take k ++ c :: (ext ++ [':']) := by
    intro hm
    simp only [List.mem_append, List.mem_cons, List.mem_nil_iff, or_false] at hm
    rcases hm with hm | hm | hm | hm
    · have := hk _ hm; rw [hcls] at this; cases this
    · exact hc hm.symm
    · exact hext hm
    · cases hm
  generalize s.take k = pre at hk hs hpre
  have : s = (pre ++ c :: (ext ++ [':'])) ++ r3 := by
    rw [hs]; simp
  refine ⟨pre ++ c :: (ext ++ [':']) ++ a, b, ?_⟩
  rw [this, firstLine_append_left _ _ hpre, hab]
  simp

/-- the key is the extension and the colon (groovyc: `groovy:`) -/
theorem matchHdr_keyLocal_ext (cls : Char → Bool) (ext : List Char)
    (tail : List Char → Option (List Char × Nat))
    (hcls : cls '\n' = false) (hext : '\n' ∉ ext) :
    KeyLocal (matchHdr cls ext tail) (ext ++ [':']) := by
  intro s x hx
  obtain ⟨g, n⟩ := x
  obtain ⟨k, c, r3, g2, n2, _, hk, hc, hs, _, _, _⟩ := matchHdr_eq_some hx
  have hpre : '\n' ∉ s.take k ++ c :: (ext ++ [':']) := by
    intro hm
    simp only [List.mem_append, List.mem_cons, List.mem_nil_iff, or_false] at hm
    rcases hm with hm | hm | hm | hm
    · have := hk _ hm; rw [hcls] at this; cases this
    · exact hc hm.symm
    · exact hext hm
    · cases hm
  generalize s.take k = pre at hk hs hpre
  have : s = (pre ++ c :: (ext ++ [':'])) ++ r3 := by
    rw [hs]; simp
  refine ⟨pre ++ [c], firstLine r3, ?_⟩
  rw [this, firstLine_append_left _ _ hpre]
  simp

/-- a header whose stem consists of class characters is matched at the first attempt -/
theorem matchHdr_hit (cls : Char → Bool) (ext : List Char)
    (tail : List Char → Option (List Char × Nat)) (stem r3 g2 : List Char) (n2 : Nat)
    (hne : stem ≠ []) (hstem : ∀ c ∈ stem, cls c = true) (hdot : cls '.' = false)
    (ht : tail r3 = some (g2, n2)) :
    matchHdr cls ext tail (stem ++ '.' :: (ext ++ ':' :: r3))
      = some ((stem ++ '.' :: ext, g2), stem.length + 1 + (ext.length + 1) + n2) := by
  unfold matchHdr
  rw [takeWhile_stop cls stem '.' _ hstem hdot]
  apply firstDown1_top
  · cases stem with
    | nil => exact absurd rfl hne
    | cons _ _ => simp
  · unfold attemptHdr
    have h1 : (stem ++ '.' :: (ext ++ ':' :: r3)).drop stem.length = '.' :: (ext ++ ':' :: r3) :=
      List.drop_left
    have h2 : (stem ++ '.' :: (ext ++ ':' :: r3)).take stem.length = stem := List.take_left
    have h3 : eat (ext ++ [':']) (ext ++ ':' :: r3) = some r3 := by
      have := eat_append (ext ++ [':']) r3
      simpa using this
    rw [h1]
    simp only [h2, h3, ht]
    simp

/-! ## pieces of the javac / kotlinc tails -/

theorem isDigitPy_of_isDigit (c : Char) (h : c.isDigit = true) : isDigitPy c = true := by
  simp only [Char.isDigit, Bool.and_eq_true, decide_eq_true_eq, ge_iff_le] at h
  obtain ⟨h1, h2⟩ := h
  rw [UInt32.le_iff_toNat_le] at h1 h2
  have h1' : 48 ≤ c.toNat := h1
  have h2' : c.toNat ≤ 57 := h2
  unfold isDigitPy digitRanges
  rw [List.any_cons]
  simp only [h1', h2', decide_true, Bool.and_self, Bool.true_or]

theorem isDigitPy_colon : isDigitPy ':' = false := by decide
theorem isDigitPy_space : isDigitPy ' ' = false := by decide

theorem digits1_append (ds : List Char) (x : Char) (r : List Char) (hne : ds ≠ [])
    (hds : ∀ c ∈ ds, isDigitPy c = true) (hx : isDigitPy x = false) :
    digits1 (ds ++ x :: r) = some (x :: r) := by
  cases ds with
  | nil => exact absurd rfl hne
  | cons d ds' =>
    have hd : isDigitPy d = true := hds d (by simp)
    have := dropWhile_stop isDigitPy (d :: ds') x r hds hx
    simp only [List.cons_append] at this
    simp only [digits1, List.cons_append, hd, if_true, this]

theorem digits1_eq_some {s r : List Char} (h : digits1 s = some r) : ∃ ds, s = ds ++ r := by
  unfold digits1 at h
  split at h
  · split at h
    · cases h
      exact ⟨_, (List.takeWhile_append_dropWhile).symm⟩
    · cases h
  · cases h

theorem spaces_split (s : List Char) (h : s.head? = some ' ') :
    ∃ sp, s = sp ++ ' ' :: s.dropWhile (· == ' ') := by
  induction s with
  | nil => simp at h
  | cons c tl ih =>
    simp only [List.head?_cons, Option.some.injEq] at h
    subst h
    by_cases h2 : tl.head? = some ' '
    · obtain ⟨sp, hsp⟩ := ih h2
      refine ⟨' ' :: sp, ?_⟩
      simp only [List.dropWhile_cons, beq_self_eq_true, if_true, List.cons_append]
      rw [← hsp]
    · refine ⟨[], ?_⟩
      cases tl with
      | nil => simp
      | cons d tl' =>
        have : d ≠ ' ' := by simpa using h2
        simp [this]

theorem spaces1_eq_some {s r : List Char} (h : spaces1 s = some r) : ∃ sp, s = sp ++ ' ' :: r := by
  unfold spaces1 at h
  split at h
  · rename_i c tl
    split at h
    · rename_i hc
      cases h
      have : c = ' ' := by simpa using hc
      subst this
      exact spaces_split _ rfl
    · cases h
  · cases h

theorem spaces1_single (x : Char) (r : List Char) (hx : x ≠ ' ') :
    spaces1 (' ' :: x :: r) = some (x :: r) := by
  simp [spaces1, hx]

/-- `:[ ]+error:` always contains ` error:` -/
theorem errTail_key {r0 r1 r2 r3 : List Char} (h1 : eat [':'] r0 = some r1)
    (h2 : spaces1 r1 = some r2) (h3 : eat "error:".toList r2 = some r3) :
    ∃ a, r0 = a ++ " error:".toList ++ r3 := by
  have e1 := eat_eq_some h1
  obtain ⟨sp, e2⟩ := spaces1_eq_some h2
  have e3 := eat_eq_some h3
  refine ⟨':' :: sp, ?_⟩
  rw [e1, e2, e3]
  simp

theorem javaShape_key {l : List Char} (h : javaShape l = true) :
    ∃ a b, l = a ++ " error:".toList ++ b := by
  unfold javaShape at h
  simp only [bind, Option.isSome_iff_exists, Option.bind_eq_some_iff] at h
  obtain ⟨_, r1, h1, r2, h2, r3, h3, r4, h4, _⟩ := h
  obtain ⟨ds, hds⟩ := digits1_eq_some h1
  obtain ⟨a, ha⟩ := errTail_key h2 h3 h4
  refine ⟨ds ++ a, r4, ?_⟩
  rw [hds, ha]; simp

theorem kotlinMsg_key {l m : List Char} (h : kotlinMsg l = some m) :
    ∃ a b, l = a ++ " error:".toList ++ b := by
  unfold kotlinMsg at h
  simp only [bind, Option.bind_eq_some_iff] at h
  obtain ⟨r1, h1, r2, h2, r3, h3, r4, h4, r5, h5, r6, h6, _⟩ := h
  obtain ⟨ds, hds⟩ := digits1_eq_some h1
  have e2 := eat_eq_some h2
  obtain ⟨ds2, hds2⟩ := digits1_eq_some h3
  obtain ⟨a, ha⟩ := errTail_key h4 h5 h6
  refine ⟨ds ++ ':' :: ds2 ++ a, r6, ?_⟩
  rw [hds, e2, hds2, ha]; simp

theorem javaTail_key : ∀ r x, javaTail r = some x → ∃ a b, firstLine r = a ++ " error:".toList ++ b := by
  intro r x h
  unfold javaTail at h
  simp only at h
  split at h
  · rename_i hc
    simp only [Bool.and_eq_true] at hc
    exact javaShape_key hc.1
  · cases h

theorem kotlinTail_key : ∀ r x, kotlinTail r = some x → ∃ a b, firstLine r = a ++ " error:".toList ++ b := by
  intro r x h
  unfold kotlinTail at h
  simp only at h
  split at h
  · rename_i m hm
    exact kotlinMsg_key hm
  · cases h

theorem isClsJ_nl : isClsJ '\n' = false := by decide
theorem isClsG_nl : isClsG '\n' = false := by decide
theorem isClsJ_dot : isClsJ '.' = false := by decide
theorem isClsG_dot : isClsG '.' = false := by decide

theorem matchJava_keyLocal : KeyLocal matchJava " error:".toList :=
  matchHdr_keyLocal_tail _ _ _ _ isClsJ_nl (by decide) javaTail_key

theorem matchKotlin_keyLocal : KeyLocal matchKotlin " error:".toList :=
  matchHdr_keyLocal_tail _ _ _ _ isClsJ_nl (by decide) kotlinTail_key

theorem matchGroovy_keyLocal : KeyLocal matchGroovy "groovy:".toList :=
  matchHdr_keyLocal_ext isClsG "groovy".toList groovyTail isClsG_nl (by decide)

end Heph.Diag
