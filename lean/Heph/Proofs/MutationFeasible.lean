import Heph.Spec.Mutation
import Heph.Proofs.GraphDfs
/-!
# The verification step of `is_combination_feasible` against its reachability restatement

`verify` (model of step 2) walks the graph with C19's `dfs`; `DeclsOK` / `InstsOK`
(`Heph/Spec/Mutation.lean`) state the same criterion with `ReachAny`.  The bridge is
`Heph.Graph.dfs_correct`.
-/
namespace Heph.Mut
open Heph Heph.Graph

theorem kind_beq (a b : TGKind) : (a == b) = true ↔ a = b := by
  cases a <;> cases b <;> decide

/-- the declarations loop for ONE declaration -/
def DeclOK (nodes : List TGNode) (g : Edges) (d : Nat) : Prop :=
  ∀ n, n ≠ d → ReachAny (toGraph g) d n → badFor nodes d n = false

theorem verifyDecls_spec (nodes : List TGNode) (g : Edges) :
    ∀ c : List Nat, verifyDecls nodes g c = .ok true ↔
      ∀ d ∈ c, kindOf nodes d = .declN → DeclOK nodes g d
  | [] => by simp [verifyDecls]
  | d :: ds => by
    have ih := verifyDecls_spec nodes g ds
    unfold verifyDecls
    by_cases hk : kindOf nodes d = .declN
    · have hk' : (kindOf nodes d == TGKind.declN) = true := (kind_beq _ _).2 hk
      simp only [hk', if_true]
      obtain ⟨l, hl, hm⟩ := dfs_correct (toGraph g) d
      rw [hl]
      simp only
      by_cases hb : l.any (badFor nodes d) = true
      · simp only [hb, if_true]
        constructor
        · intro h; cases h
        · intro h
          exfalso
          obtain ⟨n, hn, hbad⟩ := List.any_eq_true.1 hb
          have := h d (List.mem_cons_self) hk n ((hm n).1 hn).1 ((hm n).1 hn).2
          rw [this] at hbad; cases hbad
      · have hb' : l.any (badFor nodes d) = false := by simpa using hb
        simp only [hb', Bool.false_eq_true, if_false]
        rw [ih]
        constructor
        · intro h x hx hxk
          rcases List.mem_cons.1 hx with rfl | hx
          · intro n hne hr
            have hn : n ∈ l := (hm n).2 ⟨hne, hr⟩
            have := List.any_eq_false.1 hb' n hn
            simpa using this
          · exact h x hx hxk
        · intro h x hx hxk
          exact h x (List.mem_cons_of_mem _ hx) hxk
    · have hk' : (kindOf nodes d == TGKind.declN) = false := by
        cases h : (kindOf nodes d == TGKind.declN)
        · rfl
        · exact absurd ((kind_beq _ _).1 h) hk
      simp only [hk', Bool.false_eq_true, if_false]
      rw [ih]
      constructor
      · intro h x hx hxk
        rcases List.mem_cons.1 hx with rfl | hx
        · exact absurd hxk hk
        · exact h x hx hxk
      · intro h x hx hxk
        exact h x (List.mem_cons_of_mem _ hx) hxk

/-- one type variable of an omitted constructor call is justified -/
def TvOK (nodes : List TGNode) (g : Edges) (removed : List String) (c tv : Nat) : Prop :=
  ∃ a, assigned nodes c tv = .ok a ∧
    ∃ n, n ≠ tv ∧ ReachAny (toGraph g) tv n ∧ goodFor nodes removed a n = true

theorem verifyInstLoop_spec (nodes : List TGNode) (g : Edges) (removed : List String) (c : Nat) :
    ∀ tvs : List (Nat × Bool), verifyInstLoop nodes g removed c tvs = .ok true ↔
      ∀ tv ∈ tvs, TvOK nodes g removed c tv.1
  | [] => by simp [verifyInstLoop]
  | tv :: tvs => by
    have ih := verifyInstLoop_spec nodes g removed c tvs
    unfold verifyInstLoop
    cases ha : assigned nodes c tv.1 with
    | error e =>
        simp only
        constructor
        · intro h; cases h
        · intro h
          obtain ⟨a, h1, _⟩ := h tv List.mem_cons_self
          rw [ha] at h1; cases h1
    | ok a =>
        simp only
        obtain ⟨l, hl, hm⟩ := dfs_correct (toGraph g) tv.1
        rw [hl]
        simp only
        by_cases hb : l.any (goodFor nodes removed a) = true
        · simp only [hb, if_true]
          rw [ih]
          constructor
          · intro h x hx
            rcases List.mem_cons.1 hx with rfl | hx
            · obtain ⟨n, hn, hgood⟩ := List.any_eq_true.1 hb
              exact ⟨a, ha, n, ((hm n).1 hn).1, ((hm n).1 hn).2, hgood⟩
            · exact h x hx
          · intro h x hx
            exact h x (List.mem_cons_of_mem _ hx)
        · have hb' : l.any (goodFor nodes removed a) = false := by simpa using hb
          simp only [hb', Bool.false_eq_true, if_false]
          constructor
          · intro h; cases h
          · intro h
            exfalso
            obtain ⟨a', h1, n, hne, hr, hgood⟩ := h tv List.mem_cons_self
            rw [ha] at h1
            cases h1
            have hn : n ∈ l := (hm n).2 ⟨hne, hr⟩
            have := List.any_eq_false.1 hb' n hn
            rw [hgood] at this
            exact this rfl

theorem verifyInsts_spec (nodes : List TGNode) (g : Edges) (removed : List String) :
    ∀ c : List Nat, verifyInsts nodes g removed c = .ok true ↔
      ∀ ci ∈ c, kindOf nodes ci = .instCall →
        ∃ tvs, lookup g ci = some tvs ∧ ∀ tv ∈ tvs, TvOK nodes g removed ci tv.1
  | [] => by simp [verifyInsts]
  | ci :: cs => by
    have ih := verifyInsts_spec nodes g removed cs
    unfold verifyInsts
    by_cases hk : kindOf nodes ci = .instCall
    · have hk' : (kindOf nodes ci == TGKind.instCall) = true := (kind_beq _ _).2 hk
      simp only [hk', if_true]
      cases hl : lookup g ci with
      | none =>
          simp only
          constructor
          · intro h; cases h
          · intro h
            obtain ⟨tvs, h1, _⟩ := h ci List.mem_cons_self hk
            rw [hl] at h1; cases h1
      | some tvs =>
          simp only
          have hloop := verifyInstLoop_spec nodes g removed ci tvs
          cases hv : verifyInstLoop nodes g removed ci tvs with
          | error e =>
              simp only
              constructor
              · intro h; cases h
              · intro h
                exfalso
                obtain ⟨tvs', h1, h2⟩ := h ci List.mem_cons_self hk
                rw [hl] at h1
                cases h1
                have := hloop.2 h2
                rw [hv] at this; cases this
          | ok b =>
              cases b with
              | false =>
                  simp only
                  constructor
                  · intro h; cases h
                  · intro h
                    exfalso
                    obtain ⟨tvs', h1, h2⟩ := h ci List.mem_cons_self hk
                    rw [hl] at h1
                    cases h1
                    have := hloop.2 h2
                    rw [hv] at this; cases this
              | true =>
                  simp only
                  rw [ih]
                  constructor
                  · intro h x hx hxk
                    rcases List.mem_cons.1 hx with rfl | hx
                    · exact ⟨tvs, hl, hloop.1 hv⟩
                    · exact h x hx hxk
                  · intro h x hx hxk
                    exact h x (List.mem_cons_of_mem _ hx) hxk
    · have hk' : (kindOf nodes ci == TGKind.instCall) = false := by
        cases h : (kindOf nodes ci == TGKind.instCall)
        · rfl
        · exact absurd ((kind_beq _ _).1 h) hk
      simp only [hk', Bool.false_eq_true, if_false]
      rw [ih]
      constructor
      · intro h x hx hxk
        rcases List.mem_cons.1 hx with rfl | hx
        · exact absurd hxk hk
        · exact h x hx hxk
      · intro h x hx hxk
        exact h x (List.mem_cons_of_mem _ hx) hxk

/-- step 2 of `is_combination_feasible` answers `True` exactly when the reachability criterion
    holds -/
theorem verify_spec (nodes : List TGNode) (g : Edges) (c : List Nat) :
    verify nodes g c = .ok true ↔ DeclsOK nodes g c ∧ InstsOK nodes g c := by
  unfold verify
  have hd := verifyDecls_spec nodes g c
  have hi := verifyInsts_spec nodes g (removedIds nodes c) c
  have hD : DeclsOK nodes g c ↔ ∀ d ∈ c, kindOf nodes d = .declN → DeclOK nodes g d := Iff.rfl
  have hI : InstsOK nodes g c ↔ ∀ ci ∈ c, kindOf nodes ci = .instCall →
      ∃ tvs, lookup g ci = some tvs ∧ ∀ tv ∈ tvs, TvOK nodes g (removedIds nodes c) ci tv.1 := Iff.rfl
  rw [hD, hI, ← hd, ← hi]
  cases hv : verifyDecls nodes g c with
  | error e => simp
  | ok b =>
      cases b with
      | false => simp
      | true => simp

/-- the verification never runs out of fuel: `dfs` always answers -/
theorem verifyDecls_ne_fuel (nodes : List TGNode) (g : Edges) :
    ∀ c : List Nat, verifyDecls nodes g c ≠ .error .fuel
  | [] => by simp [verifyDecls]
  | d :: ds => by
    have ih := verifyDecls_ne_fuel nodes g ds
    unfold verifyDecls
    obtain ⟨l, hl, _⟩ := dfs_correct (toGraph g) d
    rw [hl]
    split
    · simp only
      split
      · simp
      · exact ih
    · exact ih

end Heph.Mut
