import Heph.Model.Types
/-!
# `==` on types is symmetric and transitive

Copies of `beq_symm` / `beq_trans` of `Proofs/SubstBeq.lean` (C07) under other names: that file
imports `Spec/Subst.lean`, whose `Ty.wf` clashes with the `Ty.wf` of `Spec/Subtyping.lean`, so it
cannot be imported next to the subtype relation.
-/
namespace Heph.Find
open Heph.Ty

mutual
theorem tyBeq_trans : ∀ a b c, beq a b = true → beq b c = true → beq a c = true
  | builtin .., b, c, h1, h2 => by
      cases b <;> simp [beq] at h1
      cases c <;> simp [beq] at h2
      simp [beq, h1, h2]
  | simple nm sp, b, c, h1, h2 => by
      cases b <;> simp [beq] at h1
      cases c <;> simp [beq] at h2
      simp [beq, h1, h2, tyBeqL_trans sp _ _ h1.2 h2.2]
  | tparam nm v bd, b, c, h1, h2 => by
      cases b <;> simp [beq] at h1
      cases c <;> simp [beq] at h2
      simp [beq, h1, h2, tyBeqO_trans bd _ _ h1.2 h2.2]
  | wild v bd, b, c, h1, h2 => by
      cases b <;> simp [beq] at h1
      cases c <;> simp [beq] at h2
      simp [beq, h1, h2, tyBeqO_trans bd _ _ h1.2 h2.2]
  | tcon .., b, c, h1, h2 => by
      cases b <;> simp [beq] at h1
      cases c <;> simp [beq] at h2
      simp [beq, h1, h2]
  | param nm con args ss, b, c, h1, h2 => by
      cases b <;> try (simp [beq] at h1; done)
      cases c <;> try (simp [beq] at h2; done)
      rename_i nm' con' args' ss' nm'' con'' args'' ss''
      cases con <;> cases con' <;> try (simp [beq] at h1; done)
      cases con'' <;> try (simp [beq] at h2; done)
      rename_i cls cnm ps css cls' cnm' ps' css' cls'' cnm'' ps'' css''
      simp [beq] at h1 h2
      obtain ⟨⟨⟨e1, s1⟩, c1⟩, a1⟩ := h1
      obtain ⟨⟨⟨e2, s2⟩, c2⟩, a2⟩ := h2
      simp [beq, e1, e2, tyBeqL_trans ss _ _ s1 s2, tyBeqL_trans args _ _ a1 a2, c1.1, c2.1,
        tyBeqL_trans ps _ _ c1.2 c2.2]
  | nothing, b, c, h1, h2 => by
      cases b <;> simp [beq] at h1
      exact h2
  | ext _, b, c, h1, h2 => by
      cases b <;> simp [beq] at h1
      cases c <;> simp [beq] at h2
      simp [beq, h1, h2]
theorem tyBeqL_trans : ∀ a b c, beqL a b = true → beqL b c = true → beqL a c = true
  | [], b, c, h1, h2 => by
      cases b <;> simp [beqL] at h1
      exact h2
  | x :: xs, b, c, h1, h2 => by
      cases b <;> simp [beqL] at h1
      cases c <;> simp [beqL] at h2
      simp [beqL, tyBeq_trans x _ _ h1.1 h2.1, tyBeqL_trans xs _ _ h1.2 h2.2]
theorem tyBeqO_trans : ∀ a b c, beqO a b = true → beqO b c = true → beqO a c = true
  | none, b, c, h1, h2 => by
      cases b <;> simp [beqO] at h1
      exact h2
  | some x, b, c, h1, h2 => by
      cases b <;> simp [beqO] at h1
      cases c <;> simp [beqO] at h2
      simp [beqO, tyBeq_trans x _ _ h1 h2]
end

mutual
theorem tyBeq_symm : ∀ a b, beq a b = true → beq b a = true
  | builtin .., b, h => by
      cases b <;> simp [beq] at h
      simp [beq, h]
  | simple nm sp, b, h => by
      cases b <;> simp [beq] at h
      simp [beq, h, tyBeqL_symm sp _ h.2]
  | tparam nm v bd, b, h => by
      cases b <;> simp [beq] at h
      simp [beq, h, tyBeqO_symm bd _ h.2]
  | wild v bd, b, h => by
      cases b <;> simp [beq] at h
      simp [beq, h, tyBeqO_symm bd _ h.2]
  | tcon .., b, h => by
      cases b <;> simp [beq] at h
      simp [beq, h]
  | param nm con args ss, b, h => by
      cases b <;> try (simp [beq] at h; done)
      rename_i nm' con' args' ss'
      cases con <;> cases con' <;> try (simp [beq] at h; done)
      rename_i cls cnm ps css cls' cnm' ps' css'
      simp [beq] at h
      obtain ⟨⟨⟨e1, s1⟩, c1⟩, a1⟩ := h
      simp [beq, e1, tyBeqL_symm ss _ s1, tyBeqL_symm args _ a1, c1.1, tyBeqL_symm ps _ c1.2]
  | nothing, b, h => by
      cases b <;> simp [beq] at h
      simp [beq]
  | ext _, b, h => by
      cases b <;> simp [beq] at h
      simp [beq, h]
theorem tyBeqL_symm : ∀ a b, beqL a b = true → beqL b a = true
  | [], b, h => by
      cases b <;> simp [beqL] at h
      simp [beqL]
  | x :: xs, b, h => by
      cases b <;> simp [beqL] at h
      simp [beqL, tyBeq_symm x _ h.1, tyBeqL_symm xs _ h.2]
theorem tyBeqO_symm : ∀ a b, beqO a b = true → beqO b a = true
  | none, b, h => by
      cases b <;> simp [beqO] at h
      simp [beqO]
  | some x, b, h => by
      cases b <;> simp [beqO] at h
      simp [beqO, tyBeq_symm x _ h]
end


end Heph.Find
