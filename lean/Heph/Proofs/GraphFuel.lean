import Heph.Proofs.GraphBfs
import Heph.Proofs.GraphDfs
import Heph.Proofs.GraphSrc
/-!
# Fuel independence

More fuel never changes an answer, hence whatever a worklist answers with *any* fuel is the
answer characterised in `GraphBfs`/`GraphDfs`/`GraphSrc` (soundness for every fuel).
-/
namespace Heph.Graph

theorem gbfs_mono (step : Nat → List Nat → List Nat → List Nat × List Nat) (d : Nat) :
    ∀ (f k : Nat) (q r : List Nat) (b : Bool), gbfs step d f q r = some b →
      gbfs step d (f + k) q r = some b := by
  intro f
  induction f with
  | zero => intro k q r b h; simp [gbfs] at h
  | succ f ih =>
    intro k q r b h
    rw [show f + 1 + k = (f + k) + 1 by omega]
    cases q with
    | nil => simpa [gbfs] using h
    | cons v q =>
      simp only [gbfs] at h ⊢
      split
      · rename_i hv; simpa [hv] using h
      · rename_i hv; simp only [hv] at h; exact ih k _ _ b h

theorem gbfs_any_fuel {K : List Nat} {E : Nat → Nat → Prop}
    {step : Nat → List Nat → List Nat → List Nat × List Nat}
    (hE : ∀ a b, E a b → b ∈ K) (hs : StepSpec K E step) (s d : Nat)
    (f : Nat) (q r : List Nat) (inv : BInv K E s d q r) (b : Bool)
    (h : gbfs step d f q r = some b) : b = true ↔ Star E s d := by
  have h' := gbfs_mono step d f (q.length + r.length + 1) q r b h
  rcases gbfs_correct hE hs s d _ q r inv (show q.length + r.length < f + (q.length + r.length + 1) by omega)
    with c | c
  · rw [c.1] at h'; cases h'; simp [c.2]
  · rw [c.1] at h'; cases h'; simp [c.2]

/-- the loop of `reachable`, with any fuel: an answer is the right answer -/
theorem bfs_any_fuel {g : Graph} (hg : WFG g) {s : Nat} (hs : s ∈ keys g) (d f : Nat) (b : Bool)
    (h : bfs g d f [s] ((keys g).erase s) = some b) : b = true ↔ Reach g s d := by
  rw [bfs_eq_gbfs] at h
  rw [reach_iff_star]
  exact gbfs_any_fuel (fun a b h => h.2) (stepSpec_reach g) s d f _ _ (binv_init hg _ hs d) b h

/-- the loop of `connected`, with any fuel: an answer is the right answer -/
theorem cbfs_any_fuel {g : Graph} (hg : WFG g) {s : Nat} (hs : s ∈ keys g) (d f : Nat) (b : Bool)
    (h : cbfs g d f [s] ((keys g).erase s) = some b) : b = true ↔ Conn g s d := by
  rw [cbfs_eq_gbfs] at h
  rw [conn_iff_star]
  exact gbfs_any_fuel (fun a b h => sym_key h) (stepSpec_conn hg) s d f _ _ (binv_init hg _ hs d) b h

theorem dfsLoop_mono (g : Graph) : ∀ (f k : Nat) (stack vis l : List Nat),
    dfsLoop g f stack vis = some l → dfsLoop g (f + k) stack vis = some l := by
  intro f
  induction f with
  | zero => intro k st vis l h; simp [dfsLoop] at h
  | succ f ih =>
    intro k st vis l h
    rw [show f + 1 + k = (f + k) + 1 by omega]
    cases st with
    | nil => simpa [dfsLoop] using h
    | cons n st =>
      simp only [dfsLoop] at h ⊢
      split
      · rename_i hv; simp only [hv, if_true] at h; exact ih k _ _ l h
      · rename_i hv; simp only [hv] at h; exact ih k _ _ l h

/-- the loop of `dfs`, with any fuel: an answer is the set of vertices reachable from the source -/
theorem dfsLoop_any_fuel (g : Graph) (s f : Nat) (l : List Nat)
    (h : dfsLoop g f (adj g s) [s] = some l) : ∀ n, n ∈ l ↔ n = s ∨ ReachAny g s n := by
  have h' := dfsLoop_mono g f (dfsFuel g) _ _ l h
  obtain ⟨l', e, hl⟩ := dfs_correct g s
  have hfuel : (adj g s).length + unvisW g [s] < f + dfsFuel g := by
    have := unvisW_add g [] s (by simp)
    rw [unvisW_nil] at this
    simp only [List.nil_append] at this
    unfold dfsFuel; omega
  obtain ⟨l2, h1, h2, h3, h4⟩ := dfsLoop_correct g _ (adj g s) [s] hfuel
  rw [h'] at h1; cases h1
  intro n
  constructor
  · intro hn
    rcases h3 n hn with c | ⟨m, hm, hs⟩
    · exact Or.inl (by simpa using c)
    · exact Or.inr (reachAny_of_star hm hs)
  · rintro (rfl | hr)
    · exact h2 n (by simp)
    · have hcl := h4 (by
        intro v hv w hw
        have : v = s := by simpa using hv
        subst this; exact Or.inr hw)
      have hs : s ∈ l := h2 s (by simp)
      induction hr with
      | one h => exact hcl _ hs _ h
      | step _ h ih => exact hcl _ ih _ h

theorem srcLoop_mono (g : Graph) : ∀ (f k : Nat) (stack vis sources l : List Nat),
    srcLoop g f stack vis sources = .ok l → srcLoop g (f + k) stack vis sources = .ok l := by
  intro f
  induction f with
  | zero => intro k st vis src l h; simp [srcLoop] at h
  | succ f ih =>
    intro k st vis src l h
    rw [show f + 1 + k = (f + k) + 1 by omega]
    cases st with
    | nil => simpa [srcLoop] using h
    | cons n st =>
      by_cases hk : n ∈ keys g
      · have hkb : (keys g).contains n = true := by simpa using hk
        simp only [srcLoop, hkb, Bool.not_true, Bool.false_eq_true, if_false] at h ⊢
        by_cases hn : n ∈ vis
        · have hb : vis.contains n = true := by simpa using hn
          simp only [hb, if_true] at h ⊢
          exact ih k _ _ _ l h
        · have hb : vis.contains n = false := by simpa using hn
          simp only [hb, Bool.false_eq_true, if_false] at h ⊢
          by_cases hp : (preds g n).isEmpty = true
          · simp only [hp, if_true] at h ⊢
            exact ih k _ _ _ l h
          · have hp' : (preds g n).isEmpty = false := by simpa using hp
            simp only [hp', Bool.false_eq_true, if_false] at h ⊢
            exact ih k _ _ _ l h
      · simp [srcLoop, hk] at h

/-- the loop of `find_sources`, with any fuel: an answer is the list of sources -/
theorem srcLoop_any_fuel {g : Graph} (hg : WFG g) {v : Nat} (hv : v ∈ keys g) (f : Nat)
    (l : List Nat) (h : srcLoop g f [v] [] [] = .ok l) :
    l.Nodup ∧ ∀ x, x ∈ l ↔ IsSourceOf g v x := by
  have h' := srcLoop_mono g f (srcFuel g) _ _ _ l h
  have inv : SInv g v [v] [] [] := by
    constructor
    · intro u hu
      have : u = v := by simpa using hu
      subst this; exact ⟨hv, Reach.refl _⟩
    · intro x hx; simp at hx
    · simp
    · intro u hu; simp at hu
    · exact Or.inr (by simp)
  obtain ⟨l2, e, h1, h2⟩ := srcLoop_correct hg v (f + srcFuel g) [v] [] [] inv (by
    have := unvisK_le g []
    have := Nat.mul_le_mul_left (keys g).length this
    unfold srcFuel
    simp only [List.length_cons, List.length_nil]; omega)
  rw [h'] at e; cases e
  exact ⟨h1, h2⟩

end Heph.Graph
