import Heph.Proofs.OracleCheck
/-! The repaired `check_oracle` returns normally on every staged batch. -/
namespace Heph.Oracle

theorem promote_total {v : Variant} (hv : v.bothFix = true) {fs : FS} {pid : Nat}
    (h : Path.tmp pid ∈ fs) : ∃ fs', promote v fs pid = .ok fs' ∧ Path.tmp pid ∈ fs' := by
  unfold promote
  rw [hv]
  obtain ⟨fs', h'⟩ := copytree_total_ok (d := Path.saved pid) h
  exact ⟨fs', h', ((copytree_ok h') _).2 (Or.inl h)⟩

theorem fileStep_total {v : Variant} (hv : v.bothFix = true) {o : Outcome} {inj : Option String}
    {pid : Nat} {st : LoopSt} {f : Nat × Bool}
    (htmp : Path.tmp pid ∈ st.fs) (hinj : f.2 = false → inj.isSome = true)
    (herr : pid ∈ keys st.out → st.err.isSome = true) :
    ∃ st', fileStep v o inj pid st f = .ok st' ∧ Path.tmp pid ∈ st'.fs ∧
      (pid ∈ keys st'.out → st'.err.isSome = true) := by
  obtain ⟨fid, ex⟩ := f
  obtain ⟨fs', hp, hp'⟩ := promote_total hv htmp
  cases ex <;> cases hf : o.isFailed fid <;> simp only [fileStep, hf, Bool.and_true, Bool.and_false,
      Bool.not_true, Bool.not_false, if_true, if_false, Bool.false_eq_true]
  · -- accepted although expected to be rejected
    obtain ⟨i, hi⟩ := Option.isSome_iff_exists.1 (hinj rfl)
    unfold stepIncorrect snbcMessage
    simp only [hv, if_true, hi]
    by_cases hk : pid ∈ keys st.out
    · obtain ⟨e, he⟩ := Option.isSome_iff_exists.1 (herr hk)
      simp only [hk, if_true, he, Option.map_some, hp]
      exact ⟨_, rfl, hp', fun _ => rfl⟩
    · simp only [hk, if_false, hp]
      exact ⟨_, rfl, hp', fun _ => rfl⟩
  · exact ⟨st, rfl, htmp, herr⟩
  · exact ⟨st, rfl, htmp, herr⟩
  · unfold stepCorrect
    simp only [hp]
    exact ⟨_, rfl, hp', fun _ => rfl⟩

theorem filesLoop_total {v : Variant} (hv : v.bothFix = true) {o : Outcome} {inj : Option String}
    {pid : Nat} : ∀ {files : List (Nat × Bool)} {st : LoopSt},
    Path.tmp pid ∈ st.fs → (files.any (fun f => !f.2) = true → inj.isSome = true) →
    (pid ∈ keys st.out → st.err.isSome = true) →
    ∃ st', filesLoop v o inj pid st files = .ok st' ∧ Path.tmp pid ∈ st'.fs := by
  intro files
  induction files with
  | nil => intro st h _ _; exact ⟨st, rfl, h⟩
  | cons f t ih =>
    intro st htmp hinj herr
    obtain ⟨st1, h1, h2, h3⟩ := fileStep_total hv (o := o) (f := f) htmp
      (fun hf => hinj (by simp [hf])) herr
    obtain ⟨st2, h4, h5⟩ := ih (st := st1) h2 (fun ht => hinj (by simp [ht])) h3
    exact ⟨st2, by simp only [filesLoop, h1, h4], h5⟩

theorem progsLoop_total {v : Variant} (hv : v.bothFix = true) {o : Outcome} :
    ∀ {ps : List Prog} {st : Reported × FS},
    (∀ p ∈ ps, p.toolFailed = false → Path.tmp p.pid ∈ st.2) →
    (ps.map (·.pid)).Nodup →
    (∀ p ∈ ps, p.pid ∉ keys st.1) →
    (∀ p ∈ ps, p.toolFailed = false → p.hasIncorrect = true → p.err.isSome = true) →
    ∃ st', progsLoop v o st ps = .ok st' := by
  intro ps
  induction ps with
  | nil => intro st _ _ _ _; exact ⟨st, rfl⟩
  | cons p t ih =>
    intro st htmp hnd hkeys hinj
    simp only [List.map_cons, List.nodup_cons, List.mem_map, not_exists, not_and] at hnd
    have hstep : ∃ st1, progStep v o st p = .ok st1 := by
      unfold progStep
      split
      · exact ⟨_, rfl⟩
      · rename_i ht
        have ht' : p.toolFailed = false := by simpa using ht
        obtain ⟨ls, h1, h2⟩ := filesLoop_total hv (o := o) (inj := p.err) (pid := p.pid)
          (files := p.files) (st := ⟨p.err, st.1, st.2⟩)
          (htmp p (List.mem_cons_self ..) ht')
          (fun h => hinj p (List.mem_cons_self ..) ht' h)
          (fun h => absurd h (hkeys p (List.mem_cons_self ..)))
        simp only [h1, rmtree_of_mem h2]
        exact ⟨_, rfl⟩
    obtain ⟨st1, h1⟩ := hstep
    obtain ⟨a1, a2, _⟩ := progStep_ok h1
    have hne : ∀ p' ∈ t, p'.pid ≠ p.pid := fun p' hp' he => hnd.1 p' hp' he
    obtain ⟨st2, h2⟩ := ih (st := st1)
      (fun p' hp' ht' => by
        rw [a2]
        refine ⟨Or.inl (htmp p' (List.mem_cons_of_mem _ hp') ht'), fun _ he => ?_⟩
        exact hne p' hp' (Path.tmp.inj he))
      hnd.2
      (fun p' hp' hk => by
        rw [a1] at hk
        rcases hk with hk | ⟨hk, _⟩
        · exact hkeys p' (List.mem_cons_of_mem _ hp') hk
        · exact hne p' hp' hk)
      (fun p' hp' => hinj p' (List.mem_cons_of_mem _ hp'))
    exact ⟨st2, by simp only [progsLoop, h1, h2]⟩

theorem crashLoop_total {v : Variant} {msg : String} :
    ∀ {ps : List Prog} {st : Reported × FS},
    (∀ p ∈ ps, p.toolFailed = false → Path.tmp p.pid ∈ st.2) →
    (∀ p ∈ ps, Path.saved p.pid ∉ st.2) →
    (ps.map (·.pid)).Nodup →
    ∃ st', crashLoop v msg st ps = .ok st' := by
  intro ps
  induction ps with
  | nil => intro st _ _ _; exact ⟨st, rfl⟩
  | cons p t ih =>
    intro st htmp hfresh hnd
    simp only [List.map_cons, List.nodup_cons, List.mem_map, not_exists, not_and] at hnd
    have hne : ∀ p' ∈ t, p'.pid ≠ p.pid := fun p' hp' he => hnd.1 p' hp' he
    simp only [crashLoop]
    split
    · split
      · exact ih (fun p' hp' => htmp p' (List.mem_cons_of_mem _ hp'))
          (fun p' hp' => hfresh p' (List.mem_cons_of_mem _ hp')) hnd.2
      · exact ih (fun p' hp' => htmp p' (List.mem_cons_of_mem _ hp'))
          (fun p' hp' => hfresh p' (List.mem_cons_of_mem _ hp')) hnd.2
    · rename_i ht
      have ht' : p.toolFailed = false := by simpa using ht
      rw [copytree_fresh (htmp p (List.mem_cons_self ..) ht') (hfresh p (List.mem_cons_self ..))]
      simp only
      refine ih (fun p' hp' ht2 => ?_) (fun p' hp' hm => ?_) hnd.2
      · exact List.mem_append_left _ (htmp p' (List.mem_cons_of_mem _ hp') ht2)
      · rcases List.mem_append.1 hm with hm | hm
        · exact hfresh p' (List.mem_cons_of_mem _ hp') hm
        · simp only [List.mem_singleton, Path.saved.injEq] at hm
          exact hne p' hp' hm

/-- the repaired `check_oracle` raises nothing on a staged batch -/
theorem checkOracleV_total {v : Variant} (hv : v.bothFix = true) {b : Batch} {o : Outcome} {fs : FS}
    (hs : Staged b fs) : ∃ r, checkOracleV v b o fs = .ok r := by
  unfold checkOracleV
  split
  · rename_i msg hc
    rw [rmtree_of_mem hs.dir]
    simp only
    obtain ⟨st', h⟩ := crashLoop_total (v := v) (msg := msg) (ps := b.progs)
      (st := ([], fs.filter (· ≠ Path.batch b.dir)))
      (fun p hp ht => by simp [hs.tmp p hp ht])
      (fun p hp hm => hs.fresh p hp (List.mem_filter.1 hm).1)
      hs.nodup
    exact ⟨st', h⟩
  · obtain ⟨st', h⟩ := progsLoop_total hv (o := o) (ps := b.progs) (st := ([], fs))
      hs.tmp hs.nodup (fun p _ => by simp [keys]) hs.inj
    obtain ⟨_, a2⟩ := progsLoop_ok h
    have : Path.batch b.dir ∈ st'.2 := by rw [a2]; exact ⟨Or.inl hs.dir, fun _ _ _ h => by cases h⟩
    simp only [h, rmtree_of_mem this]
    exact ⟨_, rfl⟩

end Heph.Oracle
