import Heph.Proofs.OracleMsg
/-! Counters and the faults dictionary over histories of batches and over the loop `_run`. -/
namespace Heph.Oracle

theorem updateStats_sum (s : Stats) (b t : Nat) (r : Reported) :
    (updateStats s b t r).passed + (updateStats s b t r).failed = s.passed + s.failed + b := by
  simp only [updateStats]
  omega

theorem updateStats_keys (s : Stats) (b t : Nat) (r : Reported) (k : Nat) :
    k ∈ keys (updateStats s b t r).faults ↔ k ∈ keys s.faults ∨ k ∈ keys r := by
  simp only [updateStats, mem_keys_dictUpdate]

theorem roundStep_inv {v : Variant} {m : Mode} {st st' : Stats × FS} {r : Round}
    (h : roundStep v m st r = .ok st') :
    (∃ res fs', checkOracleV v r.batch r.outcome (stageAll st.2 r.stage) = .ok (res, fs') ∧
        st' = (updateStats st.1 r.batch.progs.length r.time res, fs')) ∨
    (m = .pool ∧ ∃ x, checkOracleV v r.batch r.outcome (stageAll st.2 r.stage) = .error x ∧
        st' = (updateStats st.1 r.batch.progs.length r.time [], x.fs)) := by
  unfold roundStep at h
  dsimp only at h
  cases hc : checkOracleV v r.batch r.outcome (stageAll st.2 r.stage) with
  | ok pr =>
    obtain ⟨res, fs'⟩ := pr
    rw [hc] at h
    cases h
    exact Or.inl ⟨res, fs', rfl, rfl⟩
  | error x =>
    rw [hc] at h
    cases m with
    | sequential => cases h
    | pool => cases h; exact Or.inr ⟨rfl, x, rfl, rfl⟩

/-- `passed + failed` grows by the batch size in every round, whatever happens in it -/
theorem roundStep_sum {v : Variant} {m : Mode} {st st' : Stats × FS} {r : Round}
    (h : roundStep v m st r = .ok st') :
    st'.1.passed + st'.1.failed = st.1.passed + st.1.failed + r.batch.progs.length := by
  rcases roundStep_inv h with ⟨res, fs', _, rfl⟩ | ⟨_, x, _, rfl⟩ <;> exact updateStats_sum ..

theorem runHistory_sum {v : Variant} {m : Mode} :
    ∀ {rs : List Round} {st st' : Stats × FS}, runHistory v m st rs = .ok st' →
    st'.1.passed + st'.1.failed = st.1.passed + st.1.failed + ((rs.map (·.batch.progs.length)).sum : Nat) := by
  intro rs
  induction rs with
  | nil => intro st st' h; simp only [runHistory] at h; cases h; simp
  | cons r t ih =>
    intro st st' h
    simp only [runHistory] at h
    split at h
    · cases h
    · rename_i st1 h1
      rw [ih h, roundStep_sum h1]
      simp only [List.map_cons, List.sum_cons]
      omega

/-- sequential mode: the faults dictionary holds exactly the programs of the rows the code
    of variant `v` reports -/
theorem roundStep_keys {v : Variant} {st st' : Stats × FS} {r : Round}
    (h : roundStep v .sequential st r = .ok st') (k : Nat) :
    k ∈ keys st'.1.faults ↔ k ∈ keys st.1.faults ∨
      ∃ p ∈ r.batch.progs, p.pid = k ∧ reportedRow v r.outcome p = true := by
  rcases roundStep_inv h with ⟨res, fs', hc, rfl⟩ | ⟨hm, _⟩
  · rw [updateStats_keys, (checkOracleV_ok hc).1]
  · cases hm

theorem runHistory_keys {v : Variant} :
    ∀ {rs : List Round} {st st' : Stats × FS}, runHistory v .sequential st rs = .ok st' →
    ∀ k, k ∈ keys st'.1.faults ↔ k ∈ keys st.1.faults ∨
      ∃ r ∈ rs, ∃ p ∈ r.batch.progs, p.pid = k ∧ reportedRow v r.outcome p = true := by
  intro rs
  induction rs with
  | nil => intro st st' h k; simp only [runHistory] at h; cases h; simp
  | cons r t ih =>
    intro st st' h k
    simp only [runHistory] at h
    split at h
    · cases h
    · rename_i st1 h1
      rw [ih h, roundStep_keys h1]
      simp only [List.mem_cons, exists_eq_or_imp]
      grind

/-- `failed` counts the reported programs of every round -/
theorem roundStep_failed {v : Variant} {st st' : Stats × FS} {r : Round}
    (h : roundStep v .sequential st r = .ok st') :
    ∃ res fs', checkOracleV v r.batch r.outcome (stageAll st.2 r.stage) = .ok (res, fs') ∧
      st'.1.failed = st.1.failed + res.length := by
  rcases roundStep_inv h with ⟨res, fs', hc, rfl⟩ | ⟨hm, _⟩
  · exact ⟨res, fs', hc, rfl⟩
  · cases hm

/-! ### the loop `_run` -/

theorem finalCleanup_noTmp (fs : FS) : ∀ q ∈ finalCleanup fs, isTmp q = false := by
  intro q hq
  simpa [finalCleanup] using (List.mem_filter.1 hq).2

theorem mkRound_size (it : Nat) (sps : List SProg) : (mkRound it sps).batch.progs.length = sps.length := by
  simp [mkRound]

theorem getBatches_iterations (n batch p : Nat) :
    getBatches ⟨none, some n, batch⟩ p = some (min (batch : Int) ((n : Int) - (p : Int))) := rfl

theorem sessionLoop_done {v : Variant} {m : Mode} {n batch : Nat} {sps : List SProg}
    (hn : sps.length = n) :
    ∀ (fuel it : Nat) (st : Stats × FS) (s : Stats) (fs : FS),
    sessionLoop v m ⟨none, some n, batch⟩ sps fuel it st = .done s fs →
    1 ≤ it → it ≤ n + 1 → st.1.passed + st.1.failed = (it : Int) - 1 →
    s.passed + s.failed = n ∧ ∀ q ∈ fs, isTmp q = false := by
  intro fuel
  induction fuel with
  | zero => intro it st s fs h; simp [sessionLoop] at h
  | succ f ih =>
    intro it st s fs h h1 h2 hinv
    simp only [sessionLoop] at h
    split at h
    · rename_i hstop
      cases h
      refine ⟨?_, finalCleanup_noTmp _⟩
      cases n with
      | zero => simp [stopCondition, truthy] at hstop
      | succ n' =>
        simp [stopCondition, truthy] at hstop
        rw [hinv]; omega
    · rw [getBatches_iterations] at h
      simp only at h
      split at h
      · cases h
      · rename_i st1 hr
        have hsz := roundStep_sum hr
        rw [mkRound_size] at hsz
        have hlen : ((sps.drop (it - 1)).take (min (batch : Int) ((n : Int) - ((it - 1 : Nat) : Int))).toNat).length
            = (min (batch : Int) ((n : Int) - ((it - 1 : Nat) : Int))).toNat := by
          rw [List.length_take, List.length_drop, hn]
          omega
        rw [hlen] at hsz
        refine ih _ st1 s fs h (by omega) (by omega) ?_
        rw [hsz, hinv]
        omega

/-- a session that runs to its end has counted every program and removed the staging area -/
theorem runSession_done {v : Variant} {m : Mode} {batch : Nat} {sps : List SProg} {s : Stats} {fs : FS}
    (h : runSession v m batch sps = .done s fs) :
    s.passed + s.failed = sps.length ∧ ∀ q ∈ fs, isTmp q = false := by
  unfold runSession at h
  exact sessionLoop_done rfl _ 1 _ s fs h (by omega) (by omega) (by simp [Stats.init])

end Heph.Oracle
