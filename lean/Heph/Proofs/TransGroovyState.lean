import Heph.Model.TransGroovy
/-! State discipline of the Groovy translator model: every visit hands the control state back
    exactly as it received it; only the three result places (`Out`) change. -/
namespace Heph.TransGroovy
open Heph

@[simp] theorem pop_push (t : Tag) (st : St) : pop (push t st) = st := rfl

@[simp] theorem fin_fst (k : Kind) (st : St) (o : Out) (res : Text) : (fin k st o res).1 = pop st := rfl

/-- the restoring assignments of `visit_func_decl` / `visit_lambda` undo the ones made on entry,
    provided the children handed the state back -/
theorem funcLeave_funcEnter (isFunc : Bool) (entry : St) (unit isExpr : Bool) :
    funcLeave isFunc entry (funcEnter isFunc entry unit isExpr) = entry := by
  obtain ⟨ident, isUnit, cast, ns, insideIs, iif, stack, fi, ctx, ts, acn⟩ := entry
  cases isFunc <;> cases insideIs <;> cases isExpr <;> cases h : parentIsGlobal ns <;>
    simp [funcLeave, funcEnter, funcOld, h]

mutual
theorem visit_fst : ∀ (n : Node) (st : St) (o : Out), (visit st o n).1 = st
  | .block body isFunc, st, o => by
      simp only [visit, fin_fst, blockKids_fst body, pop_push]
  | .superInst t args, st, o => by
      simp only [visit, fin_fst, pop_push]
  | .classDecl name ctype isFinal fields supers funcs tparams, st, o => by
      simp only [visit, fin_fst, visitL_fst fields, visitL_fst supers, visitL_fst funcs, push, pop]; simp
  | .varDecl name expr isFinal varType inferred, st, o => by
      simp only [visit, fin_fst, visit_fst expr, push, pop]; simp
  | .callArg expr name, st, o => by
      simp only [visit, fin_fst, visit_fst expr, push, pop]; simp
  | .fieldDecl .., st, o => by simp only [visit, fin_fst, pop_push]
  | .paramDecl name t vararg dflt, st, o => by
      simp only [visit, fin_fst, visitO_fst dflt, push, pop]; simp
  | .funcDecl name params retType inferred body isFinal override tparams ft, st, o => by
      simp only [visit, fin_fst, visitL_fst params, visitO_fst body, funcLeave_funcEnter, push, pop]; simp
  | .lambda nm params retType body sig, st, o => by
      simp only [visit, fin_fst, visitL_fst params, visit_fst body, funcLeave_funcEnter, push, pop]; simp
  | .funcRef func receiver sig, st, o => by
      simp only [visit, fin_fst, visitO_fst receiver, push, pop]; simp
  | .bottom t, st, o => by simp only [visit, fin_fst, pop_push]
  | .intC lit t, st, o => by simp only [visit, fin_fst, pop_push]
  | .realC lit t, st, o => by simp only [visit, fin_fst, pop_push]
  | .boolC lit, st, o => by simp only [visit, fin_fst, pop_push]
  | .charC lit, st, o => by simp only [visit, fin_fst, pop_push]
  | .stringC lit, st, o => by simp only [visit, fin_fst, pop_push]
  | .arrayE t len exprs, st, o => by
      simp only [visit]
      split
      · simp only [fin_fst, pop_push]
      · simp only [fin_fst, visitL_fst exprs, push, pop]; simp
  | .variable name, st, o => by simp only [visit, fin_fst, pop_push]
  | .binop kind l r op, st, o => by
      simp only [visit, fin_fst, visit_fst l, visit_fst r, push, pop]; simp
  | .cond c t f ty, st, o => by
      simp only [visit, fin_fst, visit_fst c, visit_fst t, visit_fst f, push, pop]; simp
  | .isE e t isNot, st, o => by
      simp only [visit, fin_fst, visit_fst e, push, pop]; simp
  | .newE t args canInfer, st, o => by
      simp only [visit, fin_fst, visitL_fst args, push, pop]; simp
  | .fieldAccess e field, st, o => by
      simp only [visit, fin_fst, visit_fst e, push, pop]; simp
  | .call func args receiver targs canInfer rc, st, o => by
      simp only [visit, fin_fst, visitO_fst receiver, visitL_fst args, push, pop]; simp
  | .assign name expr receiver, st, o => by
      simp only [visit, fin_fst, visitO_fst receiver, visit_fst expr, push, pop]; simp
theorem visitL_fst : ∀ (ns : List Node) (st : St) (o : Out), (visitL st o ns).1 = st
  | [], st, o => by simp only [visitL]
  | x :: xs, st, o => by simp only [visitL, visit_fst x, visitL_fst xs]
theorem visitO_fst : ∀ (x : Option Node) (st : St) (o : Out), (visitO st o x).1 = st
  | none, st, o => by simp only [visitO]
  | some x, st, o => by simp only [visitO, visit_fst x]
theorem blockKids_fst : ∀ (ns : List Node) (isFunc : Bool) (st : St) (o : Out), (blockKids isFunc st o ns).1 = st
  | [], isFunc, st, o => by simp only [blockKids]
  | [x], isFunc, st, o => by
      simp only [blockKids]
      split
      · simp only [visit_fst x]
      · exact visit_fst x st o
  | x :: y :: rest, isFunc, st, o => by
      simp only [blockKids, visit_fst x, blockKids_fst (y :: rest)]
end

end Heph.TransGroovy
