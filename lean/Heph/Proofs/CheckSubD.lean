import Heph.Proofs.TypesBasic
import Heph.Model.SubD
/-!
# Soundness of the decider `isSubD` w.r.t. declarative assignability `Asg` (C01)

Induction on the fuel, proving the statements for `isSubD`, `anySubD`, `argsD` and `argD`
simultaneously; one "step" lemma per function (as in `Proofs/TypesSound.lean`).

The star rule (`starOut`) makes the decider call itself on `substituteType dbd m`, the declared
bound of a parameter under the arguments of the left-hand instantiation.  The induction needs this
type in the universe.  The exact requirement is `BoundsU U`; it follows from closure of the
universe under substitution (`boundsU_of_substClosed`), which is how `subD_sound_all` and
`isSubD_sound` are stated; the primed versions take `BoundsU U` directly.

Also: `SubT.toAsg` — `Asg` contains the declarative subtype relation of C06.
-/
namespace Heph
namespace Ty

variable {U : Ty → Prop}

/-! ## type maps: the values of `TMap.mk ks vs` come from `vs` -/

theorem TMap.set_values {P : Ty → Prop} {m : TMap} {k v : Ty} (hm : ∀ p ∈ m, P p.2) (hv : P v) :
    ∀ p ∈ TMap.set m k v, P p.2 := by
  intro p hp
  unfold TMap.set at hp
  split at hp
  · obtain ⟨q, hq, rfl⟩ := List.mem_map.1 hp
    split
    · exact hv
    · exact hm q hq
  · rcases List.mem_append.1 hp with hp | hp
    · exact hm p hp
    · have : p = (k, v) := by simpa using hp
      subst this
      exact hv

theorem TMap.foldl_set_values {P : Ty → Prop} (l : List (Ty × Ty)) :
    ∀ (m : TMap), (∀ p ∈ m, P p.2) → (∀ kv ∈ l, P kv.2) →
      ∀ p ∈ l.foldl (fun m kv => TMap.set m kv.1 kv.2) m, P p.2 := by
  induction l with
  | nil => intro m hm _ p hp; exact hm p hp
  | cons kv l ih =>
    intro m hm hl
    simp only [List.foldl_cons]
    exact ih _ (TMap.set_values hm (hl kv List.mem_cons_self))
      (fun x hx => hl x (List.mem_cons_of_mem _ hx))

theorem TMap.mk_values {P : Ty → Prop} {ks vs : List Ty} (hv : ∀ v ∈ vs, P v) :
    ∀ p ∈ TMap.mk ks vs, P p.2 := by
  unfold TMap.mk
  apply TMap.foldl_set_values
  · intro p hp; cases hp
  · intro kv hkv
    exact hv kv.2 (List.of_mem_zip hkv).2

/-! ## universes -/

/-- what the star rule needs of a universe: with an instantiation it contains the declared
    bounds of the constructor's parameters under the instantiation's own arguments -/
def BoundsU (U : Ty → Prop) : Prop :=
  ∀ nm con as ss, U (param nm con as ss) → ∀ tnm v dbd, tparam tnm v (some dbd) ∈ conParams con →
    U (substituteType dbd (TMap.mk (conParams con) as))

theorem conParams_sub_children (con : Ty) : ∀ x ∈ conParams con, x ∈ children con := by
  cases con <;> simp [conParams, children] <;> intro x hx <;> simp [hx]

theorem closedU_con {nm con as ss} (hU : ClosedU U) (h : U (param nm con as ss)) : U con :=
  hU _ h con (by simp [children])

/-- a universe closed under sub-terms and substitution satisfies `BoundsU` -/
theorem boundsU_of_substClosed (hU : ClosedU U)
    (hS : ∀ x m, U x → (∀ p ∈ m, U p.2) → U (substituteType x m)) : BoundsU U := by
  intro nm con as ss up tnm v dbd hmem
  have ucon := closedU_con hU up
  have utp := hU _ ucon _ (conParams_sub_children con _ hmem)
  exact hS _ _ (closedU_tparam hU utp) (TMap.mk_values (closedU_args hU up))

/-! ## the statements, by fuel -/

def SoundD (U : Ty → Prop) (B : List Ty) (f : Nat) : Prop :=
  ∀ s t, U s → U t → isSubD B f s t = true → Asg U s t
def SoundAny (U : Ty → Prop) (B : List Ty) (f : Nat) : Prop :=
  ∀ us t, (∀ u ∈ us, U u) → U t → anySubD B f us t = true → ∃ u ∈ us, Asg U u t
/-- the side condition says: the substituted declared bounds of the parameters are in `U` -/
def SoundArgs (U : Ty → Prop) (B : List Ty) (f : Nat) : Prop :=
  ∀ m tps as bs, (∀ a ∈ as, U a) → (∀ b ∈ bs, U b) →
    (∀ nm v dbd, tparam nm v (some dbd) ∈ tps → U (substituteType dbd m)) →
    argsD B f m tps as bs = true → AsgArgs U m tps as bs
def SoundArg (U : Ty → Prop) (B : List Ty) (f : Nat) : Prop :=
  ∀ m tp a b, U a → U b →
    (∀ nm v dbd, tp = tparam nm v (some dbd) → U (substituteType dbd m)) →
    argD B f m tp a b = true → AsgArg U m tp a b

theorem notWild_of {a : Ty} (h : ∀ (v : Nat) (b : Option Ty), a = wild v b → False) :
    isWild a = false := by
  cases a <;> simp [isWild]
  exact h _ _ rfl

theorem boxOf_some {B : List Ty} {s b : Ty} (h : boxOf B s = some b) : b ∈ B ∧ beq b s = true := by
  unfold boxOf at h
  split at h
  · refine ⟨List.mem_of_find?_eq_some h, ?_⟩
    have := List.find?_some h
    simp only [Bool.and_eq_true] at this
    exact this.1
  · cases h

theorem isBottomTy_asg {s t : Ty} (h : isBottomTy s = true) : Asg U s t := by
  cases s <;> simp only [isBottomTy] at h <;> try cases h
  · exact Asg.botBuiltin
  · exact Asg.bot

/-- `anySubD` -/
theorem anySubD_step {B : List Ty} {f : Nat} (ihD : SoundD U B f) (ihAny : SoundAny U B f) :
    SoundAny U B (f + 1) := by
  intro us t hus ut h
  match us with
  | [] => simp [anySubD] at h
  | u :: us =>
    simp only [anySubD, Bool.or_eq_true] at h
    rcases h with h | h
    · exact ⟨u, List.mem_cons_self, ihD _ _ (hus u List.mem_cons_self) ut h⟩
    · obtain ⟨x, hx, hxa⟩ := ihAny us t (fun x hx => hus x (List.mem_cons_of_mem _ hx)) ut h
      exact ⟨x, List.mem_cons_of_mem _ hx, hxa⟩

/-- `argsD` -/
theorem argsD_step {B : List Ty} {f : Nat} (ihArg : SoundArg U B f) (ihArgs : SoundArgs U B f) :
    SoundArgs U B (f + 1) := by
  intro m tps as bs ua ub hbd h
  match tps, as, bs with
  | [], _, _ => exact AsgArgs.stop (Or.inl rfl)
  | _ :: _, [], _ => exact AsgArgs.stop (Or.inr (Or.inl rfl))
  | _ :: _, _ :: _, [] => exact AsgArgs.stop (Or.inr (Or.inr rfl))
  | tp :: tps, a :: as, b :: bs =>
    simp only [argsD, Bool.and_eq_true] at h
    exact AsgArgs.cons
      (ihArg _ _ _ _ (ua a List.mem_cons_self) (ub b List.mem_cons_self)
        (fun nm v dbd e => hbd nm v dbd (e ▸ List.mem_cons_self)) h.1)
      (ihArgs _ _ _ _ (fun x hx => ua x (List.mem_cons_of_mem _ hx))
        (fun x hx => ub x (List.mem_cons_of_mem _ hx))
        (fun nm v dbd hx => hbd nm v dbd (List.mem_cons_of_mem _ hx)) h.2)

theorem notWild_of2 {a : Ty} (h1 : ∀ (v : Nat), a = wild v none → False)
    (h2 : ∀ (v : Nat) (x : Ty), a = wild v (some x) → False) : isWild a = false := by
  apply notWild_of
  intro v b e
  cases b with
  | none => exact h1 v e
  | some x => exact h2 v x e

theorem star_side {a : Ty} (h : ∀ (v : Nat), a = wild v none → False) :
    isWild a = false ∨ (boundOf a).isSome = true := by
  cases a with
  | wild v b =>
    cases b with
    | none => exact (h v rfl).elim
    | some x => exact Or.inr rfl
  | _ => exact Or.inl rfl

/-- `argD` -/
theorem argD_step (hU : ClosedU U) {B : List Ty} {f : Nat} (ihD : SoundD U B f) :
    SoundArg U B (f + 1) := by
  intro m tp a b ua ub hbd h
  simp only [argD, Bool.or_eq_true] at h
  rcases h with h | h
  · exact AsgArg.same h
  · split at h
    · -- star against `out y`
      simp only [Bool.or_eq_true] at h
      rcases h with h | h
      · exact AsgArg.outTop h
      · split at h
        · exact AsgArg.starOut (ihD _ _ (hbd _ _ _ rfl) (closedU_wild hU ub) h)
        · cases h
    · cases h
    · rename_i hna
      exact AsgArg.star (star_side hna)
    · simp only [Bool.or_eq_true] at h
      rcases h with h | h
      · exact AsgArg.outTop h
      · exact AsgArg.outOut (ihD _ _ (closedU_wild hU ua) (closedU_wild hU ub) h)
    · exact AsgArg.inIn (ihD _ _ (closedU_wild hU ub) (closedU_wild hU ua) h)
    · exact AsgArg.outTop h
    · cases h
    · -- `out x` at a covariant position against a proper type
      rename_i hnb
      simp only [Bool.and_eq_true, beq_iff_eq] at h
      exact AsgArg.projDeclCo h.1 (notWild_of hnb) (ihD _ _ (closedU_wild hU ua) ub h.2)
    · rename_i hnb
      simp only [Bool.and_eq_true, beq_iff_eq] at h
      exact AsgArg.projDeclContra h.1 (notWild_of hnb) (ihD _ _ ub (closedU_wild hU ua) h.2)
    · cases h
    · -- a proper type against `out y`
      rename_i hn1 _ hn2
      simp only [Bool.or_eq_true] at h
      rcases h with h | h
      · exact AsgArg.outTop h
      · exact AsgArg.useOut (notWild_of2 hn1 hn2) (ihD _ _ ua (closedU_wild hU ub) h)
    · rename_i hn1 _ hn2
      exact AsgArg.useIn (notWild_of2 hn1 hn2) (ihD _ _ (closedU_wild hU ub) ua h)
    · cases h
    · -- two proper types: declaration-site variance
      rename_i _ _ _ hna _ _ _ hnb _ _ _ _ _
      simp only [Bool.or_eq_true, Bool.and_eq_true, beq_iff_eq] at h
      rcases h with h | h
      · exact AsgArg.declCo h.1 (notWild_of hna) (notWild_of hnb) (ihD _ _ ua ub h.2)
      · exact AsgArg.declContra h.1 (notWild_of hna) (notWild_of hnb) (ihD _ _ ub ua h.2)

/-- `isSubD` -/
theorem isSubD_step (hU : ClosedU U) (hBd : BoundsU U) {B : List Ty} (hB : ∀ b ∈ B, U b) {f : Nat}
    (ihD : SoundD U B f) (ihAny : SoundAny U B f) (ihArgs : SoundArgs U B f) :
    SoundD U B (f + 1) := by
  intro s t us ut h
  simp only [isSubD, Bool.or_eq_true] at h
  rcases h with (((((((h | h) | h) | h) | h) | h) | h) | h)
  · exact Asg.refl h
  · exact Asg.reflR h
  · exact Asg.top h
  · exact isBottomTy_asg h
  · -- bound chain of a type variable; two covariant projections
    split at h
    · exact Asg.trans (closedU_tparam hU us) Asg.tvar (ihD _ _ (closedU_tparam hU us) ut h)
    · split at h
      · exact Asg.projOut (ihD _ _ (closedU_wild hU us) (closedU_wild hU ut) h)
      · cases h
    · cases h
  · -- a primitive and its box are one type
    split at h
    · rename_i b hb
      obtain ⟨hmem, hbeq⟩ := boxOf_some hb
      exact Asg.trans (hB b hmem) (Asg.reflR hbeq) (ihD _ _ (hB b hmem) ut h)
    · cases h
  · -- a stored supertype
    obtain ⟨u, hu, hut⟩ := ihAny _ _ (closedU_sups hU us) ut h
    exact Asg.trans (closedU_sups hU us u hu) (Asg.nominal hu) hut
  · -- two instantiations of one constructor
    split at h
    · simp only [Bool.and_eq_true] at h
      exact Asg.args h.1 (ihArgs _ _ _ _ (closedU_args hU us) (closedU_args hU ut)
        (fun tnm v dbd hmem => hBd _ _ _ _ us tnm v dbd hmem) h.2)
    · cases h

/-- soundness of the four functions for every fuel, for a universe with `BoundsU` -/
theorem subD_sound_all' (hU : ClosedU U) (hBd : BoundsU U) (B : List Ty) (hB : ∀ b ∈ B, U b) :
    ∀ f, SoundD U B f ∧ SoundAny U B f ∧ SoundArgs U B f ∧ SoundArg U B f := by
  intro f
  induction f with
  | zero =>
    refine ⟨?_, ?_, ?_, ?_⟩
    · intro s t _ _ h; simp [isSubD] at h
    · intro us t _ _ h; simp [anySubD] at h
    · intro m tps as bs _ _ _ h; simp [argsD] at h
    · intro m tp a b _ _ _ h; simp [argD] at h
  | succ f ih =>
    obtain ⟨ihD, ihAny, ihArgs, ihArg⟩ := ih
    exact ⟨isSubD_step hU hBd hB ihD ihAny ihArgs, anySubD_step ihD ihAny,
      argsD_step ihArg ihArgs, argD_step hU ihD⟩

/-- soundness of the four functions for every fuel, for a universe closed under sub-terms and
    substitution -/
theorem subD_sound_all (hU : ClosedU U)
    (hS : ∀ x m, U x → (∀ p ∈ m, U p.2) → U (substituteType x m))
    (B : List Ty) (hB : ∀ b ∈ B, U b) :
    ∀ f, SoundD U B f ∧ SoundAny U B f ∧ SoundArgs U B f ∧ SoundArg U B f :=
  subD_sound_all' hU (boundsU_of_substClosed hU hS) B hB

/-- **soundness of the decider**: an accepted pair is declaratively assignable -/
theorem isSubD_sound' (hU : ClosedU U) (hBd : BoundsU U) (B : List Ty) (hB : ∀ b ∈ B, U b)
    (f : Nat) (s t : Ty) (us : U s) (ut : U t) (h : isSubD B f s t = true) : Asg U s t :=
  (subD_sound_all' hU hBd B hB f).1 s t us ut h

theorem isSubD_sound (hU : ClosedU U)
    (hS : ∀ x m, U x → (∀ p ∈ m, U p.2) → U (substituteType x m))
    (B : List Ty) (hB : ∀ b ∈ B, U b)
    (f : Nat) (s t : Ty) (us : U s) (ut : U t) (h : isSubD B f s t = true) : Asg U s t :=
  (subD_sound_all hU hS B hB f).1 s t us ut h

theorem isSubDTop_sound' (hU : ClosedU U) (hBd : BoundsU U) (B : List Ty) (hB : ∀ b ∈ B, U b)
    (s t : Ty) (us : U s) (ut : U t) (h : isSubDTop B s t = true) : Asg U s t :=
  isSubD_sound' hU hBd B hB _ s t us ut h

theorem isSubDTop_sound (hU : ClosedU U)
    (hS : ∀ x m, U x → (∀ p ∈ m, U p.2) → U (substituteType x m))
    (B : List Ty) (hB : ∀ b ∈ B, U b)
    (s t : Ty) (us : U s) (ut : U t) (h : isSubDTop B s t = true) : Asg U s t :=
  isSubD_sound hU hS B hB _ s t us ut h

/-! ## `Asg` extends the declarative subtype relation of C06 -/

theorem SubT.toAsg_all {s t : Ty} (h : SubT U s t) : Asg U s t := by
  refine SubT.rec (U := U)
    (motive_1 := fun s t _ => Asg U s t)
    (motive_2 := fun tps as bs _ => ∀ m, AsgArgs U m tps as bs)
    (motive_3 := fun tp a b _ => ∀ m, AsgArg U m tp a b)
    ?_ ?_ ?_ ?_ ?_ ?_ ?_ ?_ ?_ ?_ ?_ ?_ ?_ ?_ ?_ ?_ ?_ ?_ ?_ ?_ ?_ h
  · intro s t h; exact Asg.refl h
  · intro s t h; exact Asg.reflR h
  · intro s u t hu _ _ ih1 ih2; exact Asg.trans hu ih1 ih2
  · intro t; exact Asg.bot
  · intro c nm p ss t; exact Asg.botBuiltin
  · intro s u h; exact Asg.nominal h
  · intro nm v bd; exact Asg.tvar
  · intro sb ob _ ih; exact Asg.projOut ih
  · intro nm con as ss nm' con' bs ss' hc _ ih; exact Asg.args hc (ih _)
  · intro tps as bs h m; exact AsgArgs.stop h
  · intro tp tps a as b bs _ _ ih1 ih2 m; exact AsgArgs.cons (ih1 m) (ih2 m)
  · intro tp a b h m; exact AsgArg.same h
  · intro tp a b h1 h2 h3 _ ih m; exact AsgArg.declCo h1 h2 h3 ih
  · intro tp a b h1 h2 h3 _ ih m; exact AsgArg.declContra h1 h2 h3 ih
  · intro tp a bd h1 _ ih m; exact AsgArg.useOut h1 ih
  · intro tp a bd h1 _ ih m; exact AsgArg.useIn h1 ih
  · intro tp bd bd' _ ih m; exact AsgArg.outOut ih
  · intro tp bd bd' _ ih m; exact AsgArg.inIn ih
  · intro tp a v h m; exact AsgArg.star h
  · intro tp bd b h1 h2 _ ih m; exact AsgArg.projDeclCo h1 h2 ih
  · intro tp bd b h1 h2 _ ih m; exact AsgArg.projDeclContra h1 h2 ih

/-- every declarative subtype judgement of C06 is an assignability judgement -/
theorem SubT.toAsg {s t : Ty} (h : SubT U s t) : Asg U s t := SubT.toAsg_all h

theorem Cont.toAsgArg {tp a b : Ty} (h : Cont U tp a b) (m : TMap) : AsgArg U m tp a b := by
  cases h with
  | same h => exact AsgArg.same h
  | declCo h1 h2 h3 h4 => exact AsgArg.declCo h1 h2 h3 h4.toAsg
  | declContra h1 h2 h3 h4 => exact AsgArg.declContra h1 h2 h3 h4.toAsg
  | useOut h1 h2 => exact AsgArg.useOut h1 h2.toAsg
  | useIn h1 h2 => exact AsgArg.useIn h1 h2.toAsg
  | outOut h1 => exact AsgArg.outOut h1.toAsg
  | inIn h1 => exact AsgArg.inIn h1.toAsg
  | star h1 => exact AsgArg.star h1
  | projDeclCo h1 h2 h3 => exact AsgArg.projDeclCo h1 h2 h3.toAsg
  | projDeclContra h1 h2 h3 => exact AsgArg.projDeclContra h1 h2 h3.toAsg

theorem ContL.toAsgArgs {tps as bs : List Ty} (h : ContL U tps as bs) (m : TMap) :
    AsgArgs U m tps as bs := by
  induction tps generalizing as bs with
  | nil => exact AsgArgs.stop (Or.inl rfl)
  | cons tp tps ih =>
    cases h with
    | stop h => exact AsgArgs.stop h
    | cons h1 h2 => exact AsgArgs.cons (h1.toAsgArg m) (ih h2)

/-! ## the decider answers `true`: the hypotheses are satisfiable -/

section Examples

/-- the top built-in, a primitive, its box (stores a supertype), a generic class `C<T : A>` -/
private def exObj : Ty := builtin "c.Object" "Object" false false []
private def exNum : Ty := builtin "c.Number" "Number" false false [exObj]
private def exInt : Ty := builtin "c.Integer" "int" false true []
private def exBox : Ty := builtin "c.Integer" "Integer" false false [exNum]
private def exA : Ty := simple "A" []
private def exA1 : Ty := simple "A1" [exA]
private def exT : Ty := tparam "T" 0 (some exA)
private def exC : Ty := tcon "c.TC" "C" [exT] []
private def exCof (a : Ty) : Ty := param "C" exC [a] []

/-- a classifier is below the top type -/
example : isSubDTop [] exA exObj = true := by decide
/-- a stored supertype -/
example : isSubDTop [] exA1 exA = true := by decide
/-- a primitive is below the supertype stored in its box -/
example : isSubDTop [exBox] exInt exNum = true := by decide
/-- … and not without the table of boxes -/
example : isSubDTop [] exInt exNum = false := by decide
/-- a type variable is below what its bound is below -/
example : isSubDTop [] (tparam "X" 0 (some exA1)) exA = true := by decide
/-- star containment: `C<A1> ≤ C<*>` -/
example : isSubDTop [] (exCof exA1) (exCof (wild 0 none)) = true := by decide
/-- use-site covariance: `C<A1> ≤ C<out A>` -/
example : isSubDTop [] (exCof exA1) (exCof (wild 1 (some exA))) = true := by decide
/-- the star rule: `C<*> ≤ C<out A>` because `T : A` -/
example : isSubDTop [] (exCof (wild 0 none)) (exCof (wild 1 (some exA))) = true := by decide
/-- … and `C<*>` is not below `C<out A1>` -/
example : isSubDTop [] (exCof (wild 0 none)) (exCof (wild 1 (some exA1))) = false := by decide
/-- everything is contained in `out Top` -/
example : isSubDTop [] (exCof (wild 2 (some exA))) (exCof (wild 1 (some exObj))) = true := by decide

/-- the hypotheses of `isSubD_sound` are met: the full universe is closed under everything, a
    finite one is `ClosedU` (`closedU_univ`) -/
example : Asg (fun _ => True) exInt exNum :=
  isSubDTop_sound (fun _ _ _ _ => trivial) (fun _ _ _ _ => trivial) [exBox] (fun _ _ => trivial)
    exInt exNum trivial trivial (by decide)

/-- a *finite* universe with `BoundsU`: the sub-terms of `C<*>` and `C<out A>` -/
private def exU : Ty → Prop := univ [exCof (wild 0 none), exCof (wild 1 (some exA))]

private theorem exU_A : exU exA := by
  simp [exU, univ, subtermsL, subterms, subtermsO, exCof, exC, exT, exA]

private theorem exU_bounds : BoundsU exU := by
  intro nm con as ss h tnm v dbd hmem
  simp [exU, univ, subtermsL, subterms, subtermsO, exCof, exC, exT, exA] at h
  rcases h with ⟨rfl, rfl, rfl, rfl⟩ | ⟨rfl, rfl, rfl, rfl⟩ <;>
  · simp only [conParams, List.mem_singleton, tparam.injEq, Option.some.injEq] at hmem
    obtain ⟨rfl, rfl, rfl⟩ := hmem
    exact exU_A

/-- the hypotheses of `isSubDTop_sound'` are met by a finite universe, on the star rule -/
example : Asg exU (exCof (wild 0 none)) (exCof (wild 1 (some exA))) :=
  isSubDTop_sound' (closedU_univ _) exU_bounds [] (fun _ h => nomatch h) _ _
    (univ_mem List.mem_cons_self) (univ_mem (List.mem_cons_of_mem _ List.mem_cons_self))
    (by decide)

end Examples

end Ty
end Heph
