import Heph.Proofs.DiagCrash
import Heph.Proofs.DiagGroup
/-! Filters (`re.sub(p, '', output)` for a literal `p`) on rendered compiler output.

A filter pattern is removed from the *text* before the error pattern runs (the crash test reads
the unfiltered text). A literal filter therefore disregards a diagnostic only when it deletes
its header line; a filter equal to a fragment of a message merely shortens that message. -/
namespace Heph.Diag

/-! ## A. text level -/

theorem removeGo_skip (p a rest : List Char) :
    removeGo p (a ++ rest) a.length = removeGo p rest 0 := by
  induction a with
  | nil => cases rest <;> rfl
  | cons x xs ih => simpa [removeGo] using ih

theorem removeGo_nil (p : List Char) (k : Nat) : removeGo p [] k = [] := by
  cases k <;> rfl

theorem isPrefixOf_self (p : List Char) : p.isPrefixOf p = true := by
  induction p with
  | nil => rfl
  | cons x xs ih => simp [List.isPrefixOf, ih]

theorem removeLit_self (p : List Char) (hp : p ≠ []) : removeLit p p = [] := by
  cases p with
  | nil => exact absurd rfl hp
  | cons c tl =>
    have h := removeGo_skip (c :: tl) tl []
    simp only [List.append_nil] at h
    simp only [removeLit, List.isEmpty_cons, Bool.false_eq_true, if_false, removeGo,
      isPrefixOf_self, if_true, List.length_cons, Nat.add_sub_cancel, h]

theorem removeGo_absent (p s : List Char) (h : hasInfix p s = false) : removeGo p s 0 = s := by
  induction s with
  | nil => rfl
  | cons c tl ih =>
    simp only [hasInfix, Bool.or_eq_false_iff] at h
    simp only [removeGo, h.1, Bool.false_eq_true, if_false, ih h.2]

theorem removeLit_absent (p s : List Char) (h : hasInfix p s = false) : removeLit p s = s := by
  unfold removeLit
  split
  · rfl
  · exact removeGo_absent p s h

/-- a pattern without a newline does not see a newline appended to the text -/
theorem isPrefixOf_snoc_nl (p : List Char) (hnl : '\n' ∉ p) (t : List Char) :
    p.isPrefixOf (t ++ ['\n']) = p.isPrefixOf t := by
  induction p generalizing t with
  | nil => simp [List.isPrefixOf]
  | cons x xs ih =>
    have hx : x ≠ '\n' := fun h => hnl (by simp [h])
    have hxs : '\n' ∉ xs := fun h => hnl (by simp [h])
    cases t with
    | nil => simp [List.isPrefixOf, hx]
    | cons y ys =>
      simp only [List.cons_append, List.isPrefixOf, ih hxs ys]

theorem isPrefixOf_length_le {p t : List Char} (h : p.isPrefixOf t = true) :
    p.length ≤ t.length :=
  (List.isPrefixOf_iff_prefix.1 h).length_le

theorem removeGo_line (p : List Char) (hp : p ≠ []) (hnl : '\n' ∉ p) (l rest : List Char) (k : Nat)
    (hk : k ≤ l.length) :
    removeGo p (l ++ '\n' :: rest) k = removeGo p l k ++ '\n' :: removeGo p rest 0 := by
  induction l generalizing k with
  | nil =>
    have hk0 : k = 0 := by simpa using hk
    subst hk0
    have h0 : p.isPrefixOf ('\n' :: rest) = false := by
      cases p with
      | nil => exact absurd rfl hp
      | cons x xs =>
        have hx : x ≠ '\n' := fun h => hnl (by simp [h])
        simp [List.isPrefixOf, hx]
    simp only [List.nil_append, removeGo, h0, Bool.false_eq_true, if_false]
  | cons c l' ih =>
    cases k with
    | succ k' =>
      simp only [List.cons_append, removeGo]
      exact ih k' (by simpa using hk)
    | zero =>
      have e : p.isPrefixOf (c :: l' ++ '\n' :: rest) = p.isPrefixOf (c :: l') := by
        rw [isPrefixOf_local p hnl (c :: l') rest, isPrefixOf_snoc_nl p hnl]
      simp only [List.cons_append, removeGo]
      rw [show p.isPrefixOf (c :: (l' ++ '\n' :: rest)) = p.isPrefixOf (c :: l') from e]
      by_cases hpre : p.isPrefixOf (c :: l') = true
      · simp only [hpre, if_true]
        have := isPrefixOf_length_le hpre
        exact ih (p.length - 1) (by simp only [List.length_cons] at this; omega)
      · simp only [hpre, if_false, Bool.false_eq_true, List.cons_append]
        rw [ih 0 (Nat.zero_le _)]

/-- line locality of a literal filter without a newline -/
theorem removeLit_line (p : List Char) (hnl : '\n' ∉ p) (l rest : List Char) :
    removeLit p (l ++ '\n' :: rest) = removeLit p l ++ '\n' :: removeLit p rest := by
  unfold removeLit
  split
  · rfl
  · rename_i h
    exact removeGo_line p (by intro h0; exact h (by simp [h0])) hnl l rest 0 (Nat.zero_le _)

theorem removeLit_nil (p : List Char) : removeLit p [] = [] := by
  unfold removeLit; split <;> rfl

theorem removeLit_unlines (p : List Char) (hnl : '\n' ∉ p) (ls : List (List Char)) :
    removeLit p (unlines ls) = unlines (ls.map (removeLit p)) := by
  induction ls with
  | nil => exact removeLit_nil p
  | cons l ls ih =>
    simp only [List.map_cons, unlines_cons, removeLit_line p hnl, ih]

/-- if the filter text occurs only as complete lines, exactly those lines are emptied -/
theorem removeLit_unlines_whole (p : List Char) (hp : p ≠ []) (hnl : '\n' ∉ p)
    (ls : List (List Char)) (h : ∀ l ∈ ls, l = p ∨ hasInfix p l = false) :
    removeLit p (unlines ls) = unlines (ls.map fun l => if l = p then [] else l) := by
  rw [removeLit_unlines p hnl]
  congr 1
  apply List.map_congr_left
  intro l hl
  by_cases hlp : l = p
  · simp only [hlp, if_true, removeLit_self p hp]
  · simp only [hlp, if_false]
    rcases h l hl with h1 | h1
    · exact absurd h1 hlp
    · exact removeLit_absent p l h1

end Heph.Diag
