import Heph.Proofs.DiagCrash
import Heph.Proofs.DiagGroup
/-! Filters (`re.sub(p, '', output)` for a literal `p`) on rendered compiler output.

A filter pattern is removed from the *text* before the error pattern runs (the crash test reads
the unfiltered text). A literal filter therefore disregards a diagnostic only when it deletes
its header line; a filter equal to a fragment of a message merely shortens that message. -/
namespace Heph.Diag

/-! ## A. text level -/

theorem removeGo_skip (p a rest : List Char) :
    removeGo p (a ++ rest) a.length = removeGo p rest 0 := by
  induction a with
  | nil => cases rest <;> rfl
  | cons x xs ih => simpa [removeGo] using ih

theorem removeGo_nil (p : List Char) (k : Nat) : removeGo p [] k = [] := by
  cases k <;> rfl

theorem isPrefixOf_self (p : List Char) : p.isPrefixOf p = true := by
  induction p with
  | nil => rfl
  | cons x xs ih => simp [List.isPrefixOf, ih]

theorem removeLit_self (p : List Char) (hp : p ≠ []) : removeLit p p = [] := by
  cases p with
  | nil => exact absurd rfl hp
  | cons c tl =>
    have h := removeGo_skip (c :: tl) tl []
    simp only [List.append_nil] at h
    simp only [removeLit, List.isEmpty_cons, Bool.false_eq_true, if_false, removeGo,
      isPrefixOf_self, if_true, List.length_cons, Nat.add_sub_cancel, h]

theorem removeGo_absent (p s : List Char) (h : hasInfix p s = false) : removeGo p s 0 = s := by
  induction s with
  | nil => rfl
  | cons c tl ih =>
    simp only [hasInfix, Bool.or_eq_false_iff] at h
    simp only [removeGo, h.1, Bool.false_eq_true, if_false, ih h.2]

theorem removeLit_absent (p s : List Char) (h : hasInfix p s = false) : removeLit p s = s := by
  unfold removeLit
  split
  · rfl
  · exact removeGo_absent p s h

/-- a pattern without a newline does not see a newline appended to the text -/
theorem isPrefixOf_length_le {p t : List Char} (h : p.isPrefixOf t = true) :
    p.length ≤ t.length :=
  (List.isPrefixOf_iff_prefix.1 h).length_le

theorem removeGo_line (p : List Char) (hp : p ≠ []) (hnl : '\n' ∉ p) (l rest : List Char) (k : Nat)
    (hk : k ≤ l.length) :
    removeGo p (l ++ '\n' :: rest) k = removeGo p l k ++ '\n' :: removeGo p rest 0 := by
  induction l generalizing k with
  | nil =>
    have hk0 : k = 0 := by simpa using hk
    subst hk0
    have h0 : p.isPrefixOf ('\n' :: rest) = false := by
      cases p with
      | nil => exact absurd rfl hp
      | cons x xs =>
        have hx : x ≠ '\n' := fun h => hnl (by simp [h])
        simp [List.isPrefixOf, hx]
    simp only [List.nil_append, removeGo, h0, Bool.false_eq_true, if_false]
  | cons c l' ih =>
    cases k with
    | succ k' =>
      simp only [List.cons_append, removeGo]
      exact ih k' (by simpa using hk)
    | zero =>
      have e : p.isPrefixOf (c :: l' ++ '\n' :: rest) = p.isPrefixOf (c :: l') := by
        rw [isPrefixOf_local p hnl (c :: l') rest, isPrefixOf_snoc_nl p hnl]
      simp only [List.cons_append, removeGo]
      rw [show p.isPrefixOf (c :: (l' ++ '\n' :: rest)) = p.isPrefixOf (c :: l') from e]
      by_cases hpre : p.isPrefixOf (c :: l') = true
      · simp only [hpre, if_true]
        have := isPrefixOf_length_le hpre
        exact ih (p.length - 1) (by simp only [List.length_cons] at this; omega)
      · simp only [hpre, if_false, Bool.false_eq_true, List.cons_append]
        rw [ih 0 (Nat.zero_le _)]

/-- line locality of a literal filter without a newline -/
theorem removeLit_line (p : List Char) (hnl : '\n' ∉ p) (l rest : List Char) :
    removeLit p (l ++ '\n' :: rest) = removeLit p l ++ '\n' :: removeLit p rest := by
  unfold removeLit
  split
  · rfl
  · rename_i h
    exact removeGo_line p (by intro h0; exact h (by simp [h0])) hnl l rest 0 (Nat.zero_le _)

theorem removeLit_nil (p : List Char) : removeLit p [] = [] := by
  unfold removeLit; split <;> rfl

theorem removeLit_unlines (p : List Char) (hnl : '\n' ∉ p) (ls : List (List Char)) :
    removeLit p (unlines ls) = unlines (ls.map (removeLit p)) := by
  induction ls with
  | nil => exact removeLit_nil p
  | cons l ls ih =>
    simp only [List.map_cons, unlines_cons, removeLit_line p hnl, ih]

/-- if the filter text occurs only as complete lines, exactly those lines are emptied -/
theorem removeLit_unlines_whole (p : List Char) (hp : p ≠ []) (hnl : '\n' ∉ p)
    (ls : List (List Char)) (h : ∀ l ∈ ls, l = p ∨ hasInfix p l = false) :
    removeLit p (unlines ls) = unlines (ls.map fun l => if l = p then [] else l) := by
  rw [removeLit_unlines p hnl]
  congr 1
  apply List.map_congr_left
  intro l hl
  by_cases hlp : l = p
  · simp only [hlp, if_true, removeLit_self p hp]
  · simp only [hlp, if_false]
    rcases h l hl with h1 | h1
    · exact absurd h1 hlp
    · exact removeLit_absent p l h1

/-! ## B. a filter equal to an error header line disregards exactly those errors -/

/-- the item is an error whose header line is exactly `p` -/
def isHdr (c : Compiler) (p : List Char) : Item → Bool
  | .error f l col m pad _ => errorHeader c f l col m pad == p
  | _ => false

/-- what is left of an item after `p` has been removed from the text: an error whose header is
`p` becomes an empty line followed by its detail lines -/
def strip (c : Compiler) (p : List Char) : Item → List Item
  | .error f l col m pad det =>
    if errorHeader c f l col m pad = p then .note [] :: det.map .note
    else [.error f l col m pad det]
  | i => [i]

theorem strip_of_not_isHdr (c : Compiler) (p : List Char) (i : Item) (h : isHdr c p i = false) :
    strip c p i = [i] := by
  cases i with
  | error f l col m pad det =>
    simp only [isHdr, beq_eq_false_iff_ne, ne_eq] at h
    simp only [strip, h, if_false]
  | warning f l col m pad det => rfl
  | note t => rfl
  | summary n => rfl

theorem hasInfix_key_header (c : Compiler) (hc : c = .javac ∨ c = .kotlinc)
    (f l col m : List Char) (pad : Nat) : hasInfix (key c) (errorHeader c f l col m pad) = true := by
  rcases hc with rfl | rfl
  · have := hasInfix_of_eq " error:".toList (f ++ ':' :: l ++ [':']) (' ' :: m)
    have e : errorHeader .javac f l col m pad = (f ++ ':' :: l ++ [':']) ++ " error:".toList ++ (' ' :: m) := by
      simp [errorHeader]
    rw [e]; exact this
  · have := hasInfix_of_eq " error:".toList (f ++ ':' :: (l ++ ':' :: col) ++ [':']) (' ' :: m)
    have e : errorHeader .kotlinc f l col m pad
        = (f ++ ':' :: (l ++ ':' :: col) ++ [':']) ++ " error:".toList ++ (' ' :: m) := by
      simp [errorHeader]
    rw [e]; exact this

theorem flatMap_note_lines (c : Compiler) (det : List (List Char)) :
    (det.map Item.note).flatMap (itemLines c) = det := by
  induction det with
  | nil => rfl
  | cons d ds ih => simp only [List.map_cons, List.flatMap_cons, itemLines, ih, List.singleton_append]

theorem wf_detail_textOK {c : Compiler} (hc : c = .javac ∨ c = .kotlinc) {f l col m : List Char}
    {pad : Nat} {det : List (List Char)} (h : wfItem c (.error f l col m pad det) = true) :
    ∀ d ∈ det, textOK c d = true := by
  simp only [wfItem, Bool.and_eq_true] at h
  have hd := h.2
  rcases hc with rfl | rfl <;> simpa only [detailOK, List.all_eq_true] using hd

/-- (i) per item: the lines after the removal are the lines of the stripped item -/
theorem strip_lines (c : Compiler) (hc : c = .javac ∨ c = .kotlinc) (p : List Char) (hp : p ≠ [])
    (i : Item) (hwf : WFItem c i)
    (hsep : ∀ x ∈ itemLines c i, (isHdr c p i = true ∧ x = p) ∨ hasInfix p x = false) :
    (itemLines c i).map (removeLit p) = (strip c p i).flatMap (itemLines c) := by
  by_cases hh : isHdr c p i = true
  · cases i with
    | error f l col m pad det =>
      have hhdr : errorHeader c f l col m pad = p := by simpa [isHdr] using hh
      have hg : (if c = Compiler.groovyc then [([] : List Char)] else []) = [] := by
        rcases hc with rfl | rfl <;> rfl
      have hdet : ∀ d ∈ det, hasInfix p d = false := by
        intro d hd
        rcases hsep d (by simp [itemLines, hd]) with ⟨_, h1⟩ | h1
        · have h2 := (textOK_spec (wf_detail_textOK hc hwf d hd)).2.1
          have h3 := hasInfix_key_header c hc f l col m pad
          rw [hhdr, ← h1, h2] at h3
          exact absurd h3 (by decide)
        · exact h1
      simp only [itemLines, hg, List.append_nil, strip, hhdr, if_true, List.map_cons,
        List.flatMap_cons, flatMap_note_lines, removeLit_self p hp, List.singleton_append]
      congr 1
      have : ∀ d ∈ det, removeLit p d = id d := fun d hd => removeLit_absent p d (hdet d hd)
      rw [List.map_congr_left this, List.map_id]
    | warning f l col m pad det => simp [isHdr] at hh
    | note t => simp [isHdr] at hh
    | summary n => simp [isHdr] at hh
  · have hh' : isHdr c p i = false := by simpa using hh
    rw [strip_of_not_isHdr c p i hh']
    simp only [List.flatMap_cons, List.flatMap_nil, List.append_nil]
    have : ∀ x ∈ itemLines c i, removeLit p x = id x := by
      intro x hx
      rcases hsep x hx with ⟨h1, _⟩ | h1
      · rw [hh'] at h1; exact absurd h1 (by decide)
      · exact removeLit_absent p x h1
    rw [List.map_congr_left this, List.map_id]

/-- (i) the filtered text is the rendering of the stripped batch -/
theorem render_strip (c : Compiler) (hc : c = .javac ∨ c = .kotlinc) (p : List Char) (hp : p ≠ [])
    (hnl : '\n' ∉ p) (is : List Item) (hwf : ∀ i ∈ is, WFItem c i)
    (hsep : ∀ i ∈ is, ∀ x ∈ itemLines c i, (isHdr c p i = true ∧ x = p) ∨ hasInfix p x = false) :
    removeLit p (render c is) = render c (is.flatMap (strip c p)) := by
  unfold render
  rw [removeLit_unlines p hnl]
  congr 1
  induction is with
  | nil => rfl
  | cons i is ih =>
    simp only [List.flatMap_cons, List.map_append, List.flatMap_append]
    rw [strip_lines c hc p hp i (hwf i (by simp)) (hsep i (by simp)),
      ih (fun j hj => hwf j (by simp [hj])) (fun j hj => hsep j (by simp [hj]))]

/-- (ii) well-formedness survives -/
theorem wf_strip (c : Compiler) (hc : c = .javac ∨ c = .kotlinc) (p : List Char) (is : List Item)
    (hwf : ∀ i ∈ is, WFItem c i) : ∀ j ∈ is.flatMap (strip c p), WFItem c j := by
  intro j hj
  obtain ⟨i, hi, hji⟩ := List.mem_flatMap.1 hj
  by_cases hh : isHdr c p i = true
  · cases i with
    | error f l col m pad det =>
      have hhdr : errorHeader c f l col m pad = p := by simpa [isHdr] using hh
      simp only [strip, hhdr, if_true, List.mem_cons, List.mem_map] at hji
      rcases hji with rfl | ⟨d, hd, rfl⟩
      · rcases hc with rfl | rfl <;> decide
      · exact wf_detail_textOK hc (hwf _ hi) d hd
    | warning f l col m pad det => simp [isHdr] at hh
    | note t => simp [isHdr] at hh
    | summary n => simp [isHdr] at hh
  · rw [strip_of_not_isHdr c p i (by simpa using hh)] at hji
    simp only [List.mem_cons, List.mem_nil_iff, or_false] at hji
    subst hji; exact hwf _ hi

theorem expected_notes (c : Compiler) (det : List (List Char)) (rest : List Item) :
    expected c (det.map Item.note ++ rest) = expected c rest := by
  induction det with
  | nil => rfl
  | cons d ds ih => simp only [List.map_cons, List.cons_append, expected, ih]

theorem captured_rest (c : Compiler) (hc : c = .javac ∨ c = .kotlinc) (l m : List Char)
    (det : List (List Char)) (r1 r2 : List Char) : captured c l m det r1 = captured c l m det r2 := by
  rcases hc with rfl | rfl <;> rfl

/-- for javac and kotlinc the ground truth of a batch is that of its parts -/
theorem expected_cons_line (c : Compiler) (hc : c = .javac ∨ c = .kotlinc) (i : Item)
    (r1 r2 : List Item) (h : expected c r1 = expected c r2) :
    expected c (i :: r1) = expected c (i :: r2) := by
  cases i with
  | error f l col m pad det =>
    simp only [expected, h, captured_rest c hc l m det (render c r1) (render c r2)]
  | warning f l col m pad det => simp only [expected, h]
  | note t => simp only [expected, h]
  | summary n => simp only [expected, h]

/-- (iii) the stripped batch has the errors of the batch without the filtered ones -/
theorem expected_strip (c : Compiler) (hc : c = .javac ∨ c = .kotlinc) (p : List Char)
    (is : List Item) :
    expected c (is.flatMap (strip c p)) = expected c (is.filter fun i => !isHdr c p i) := by
  induction is with
  | nil => rfl
  | cons i is ih =>
    simp only [List.flatMap_cons, List.filter_cons]
    by_cases hh : isHdr c p i = true
    · simp only [hh, Bool.not_true, Bool.false_eq_true, if_false]
      cases i with
      | error f l col m pad det =>
        have hhdr : errorHeader c f l col m pad = p := by simpa [isHdr] using hh
        simp only [strip, hhdr, if_true, List.cons_append, expected, expected_notes, ih]
      | warning f l col m pad det => simp [isHdr] at hh
      | note t => simp [isHdr] at hh
      | summary n => simp [isHdr] at hh
    · have hh' : isHdr c p i = false := by simpa using hh
      simp only [hh', Bool.not_false, if_true, strip_of_not_isHdr c p i hh', List.cons_append,
        List.nil_append]
      exact expected_cons_line c hc i _ _ ih

theorem findAll_render (c : Compiler) (hc : c = .javac ∨ c = .kotlinc) (is : List Item)
    (h : ∀ i ∈ is, WFItem c i) : findAll (matcher c) (render c is) = expected c is := by
  rcases hc with rfl | rfl
  · exact findAll_render_java is h
  · exact findAll_render_kotlin is h

/-- **A filter equal to an error's header line disregards exactly that error.** If the filter
text `p` occurs in the output only as complete error header lines, the analysis with filter `p`
reports no crash and exactly the errors whose header line is not `p`: no other file is dropped,
none is moved, and the messages of the others are unchanged. -/
theorem filter_drops_line (c : Compiler) (hc : c = .javac ∨ c = .kotlinc) (p : List Char)
    (hp : p ≠ []) (hnl : '\n' ∉ p) (is : List Item) (hwf : ∀ i ∈ is, WFItem c i)
    (hsep : ∀ i ∈ is, ∀ x ∈ itemLines c i, (isHdr c p i = true ∧ x = p) ∨ hasInfix p x = false) :
    analyze c [p] (render c is)
      = ⟨false, groupByFile (expected c (is.filter fun i => !isHdr c p i))⟩ := by
  have h1 : crashSearch c (render c is) = false := crashSearch_render_nil c is hwf
  have h2 : (c == Compiler.groovyc) = false := by rcases hc with rfl | rfl <;> rfl
  have h3 : applyFilters [p] (render c is) = removeLit p (render c is) := rfl
  simp only [analyze, h1, h2, h3, Bool.false_eq_true, if_false, Bool.false_and]
  rw [render_strip c hc p hp hnl is hwf hsep, findAll_render c hc _ (wf_strip c hc p is hwf),
    expected_strip c hc p is, groupMsgs_eq_groupByFile]

/-! ## filters that do not occur -/

theorem applyFilters_absent (fs : List (List Char)) (out : List Char)
    (h : ∀ p ∈ fs, hasInfix p out = false ∨ p = []) : applyFilters fs out = out := by
  induction fs with
  | nil => rfl
  | cons p ps ih =>
    have e : removeLit p out = out := by
      rcases h p (by simp) with h1 | h1
      · exact removeLit_absent p out h1
      · subst h1; rfl
    have : applyFilters (p :: ps) out = applyFilters ps (removeLit p out) := rfl
    rw [this, e]
    exact ih (fun q hq => h q (by simp [hq]))

/-- filters whose text does not occur in the output change nothing -/
theorem filter_absent (c : Compiler) (fs : List (List Char)) (out : List Char)
    (h : ∀ p ∈ fs, hasInfix p out = false ∨ p = []) : analyze c fs out = analyze c [] out := by
  unfold analyze
  rw [applyFilters_absent fs out h, applyFilters_nil]

/-! ## C. illustrations (javac, three files) -/

def exAlpha : List Char := chars! "/tmp/tmpab12cd_9/src/alpha/Main.java"
def exBeta : List Char := chars! "/tmp/tmpab12cd_9/src/beta/Main.java"
def exGamma : List Char := chars! "/tmp/tmpab12cd_9/src/gamma/Main.java"

def exBatch : List Item :=
  [ .error exAlpha (chars! "3") [] (chars! "incompatible types: String cannot be converted to int") 0 [],
    .error exBeta (chars! "7") [] (chars! "cannot find symbol") 0 [(chars! "  symbol:   variable x")],
    .error exGamma (chars! "12") [] (chars! "missing return statement") 0 [],
    .summary (chars! "3") ]

/-- the whole header line of beta's error -/
def exHeaderFilter : List Char :=
  (chars! "/tmp/tmpab12cd_9/src/beta/Main.java:7: error: cannot find symbol")

/-- a fragment of beta's message -/
def exFragmentFilter : List Char := (chars! " find symbol")

/-- the hypotheses of `filter_drops_line` are met by the batch and the header filter -/
example : exHeaderFilter ≠ [] ∧ '\n' ∉ exHeaderFilter ∧ (∀ i ∈ exBatch, WFItem .javac i) ∧
    (∀ i ∈ exBatch, ∀ x ∈ itemLines .javac i,
      (isHdr .javac exHeaderFilter i = true ∧ x = exHeaderFilter) ∨ hasInfix exHeaderFilter x = false) ∧
    (exBatch.filter fun i => !isHdr .javac exHeaderFilter i).length = 3 := by
  decide +kernel

/-- without a filter all three files are reported -/
theorem ex_no_filter :
    analyze .javac [] (render .javac exBatch) =
      ⟨false, [(exAlpha, [(chars! "3: error: incompatible types: String cannot be converted to int")]),
               (exBeta, [(chars! "7: error: cannot find symbol")]),
               (exGamma, [(chars! "12: error: missing return statement")])]⟩ := by
  decide +kernel

/-- (1) a filter equal to the whole header line of beta's error removes exactly beta -/
theorem ex_header_filter :
    analyze .javac [exHeaderFilter] (render .javac exBatch) =
      ⟨false, [(exAlpha, [(chars! "3: error: incompatible types: String cannot be converted to int")]),
               (exGamma, [(chars! "12: error: missing return statement")])]⟩ := by
  decide +kernel

/-- (2) a filter equal to a fragment of beta's message does **not** disregard the diagnostic:
beta stays in the result, with the shortened message -/
theorem ex_fragment_filter :
    analyze .javac [exFragmentFilter] (render .javac exBatch) =
      ⟨false, [(exAlpha, [(chars! "3: error: incompatible types: String cannot be converted to int")]),
               (exBeta, [(chars! "7: error: cannot")]),
               (exGamma, [(chars! "12: error: missing return statement")])]⟩ := by
  decide +kernel

/-- the hypotheses of `filter_absent` are met by a filter that does not occur -/
example : ∀ p ∈ [(chars! "no such text"), []], hasInfix p (render .javac exBatch) = false ∨ p = [] := by
  decide +kernel

end Heph.Diag
