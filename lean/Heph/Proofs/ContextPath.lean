import Heph.Proofs.ContextLookup
/-! The path mode of `_get_declarations` (an `OrderedDict` of the root updated along the path)
is, name by name, the innermost-prefix search. -/
namespace Heph.Context

/-- search from the innermost of `start ++ l.reverse` outwards, down to (not including) `start` -/
def upTo (f : Ns → Option Val) (start : Ns) : List String → Option Val → Option Val
  | [], d => d
  | x :: r, d =>
    match f (start ++ (x :: r).reverse) with
    | some v => some v
    | none => upTo f start r d

theorem upTo_snoc (f : Ns → Option Val) (start : Ns) (l : List String) (y : String) (d : Option Val) :
    upTo f start (l ++ [y]) d = upTo f (start ++ [y]) l ((f (start ++ [y])).or d) := by
  induction l with
  | nil =>
    simp only [List.nil_append, upTo, List.reverse_cons, List.reverse_nil]
    cases f (start ++ [y]) <;> rfl
  | cons x r ih =>
    simp only [List.cons_append, upTo, ih]
    have : start ++ (x :: (r ++ [y])).reverse = start ++ [y] ++ (x :: r).reverse := by simp
    rw [this]

theorem pathUnionGo_get (c : Ctx) (k : Kind) (name : String)
    (hN : ∀ p, (aKeys (current c p k)).Nodup) (start : Ns) (rest : List String) (acc : Dict) :
    aGet (pathUnionGo c k start rest acc) name =
      upTo (fun p => aGet (current c p k) name) start rest.reverse (aGet acc name) := by
  induction rest generalizing start acc with
  | nil => rfl
  | cons y ys ih =>
    simp only [pathUnionGo, List.reverse_cons]
    rw [ih, upTo_snoc, aGet_aUpdate _ _ (hN _)]

theorem innermostRev_snoc (g : Ns → Option Val) (l : List String) (r : String) :
    (innermostRev g (l ++ [r])).map (·.2) = upTo g [r] l (g [r]) := by
  induction l with
  | nil =>
    simp only [List.nil_append, innermostRev, List.reverse_cons, List.reverse_nil, upTo]
    cases g [r] <;> rfl
  | cons x l' ih =>
    have : (x :: (l' ++ [r])).reverse = r :: (x :: l').reverse := by simp
    simp only [List.cons_append, innermostRev, upTo, this, List.nil_append]
    cases g (r :: (x :: l').reverse) with
    | some v => rfl
    | none => exact ih

/-- the path union, looked up by name: the innermost prefix that has the name -/
theorem pathUnion_get (c : Ctx) (k : Kind) (hN : ∀ p, (aKeys (current c p k)).Nodup) (ns : Ns)
    (name : String) :
    aGet (pathUnion c ns k) name = (innermost (fun p => aGet (current c p k) name) ns).map (·.2) := by
  cases ns with
  | nil => rfl
  | cons r rest =>
    simp only [pathUnion, innermost, List.reverse_cons]
    rw [pathUnionGo_get c k name hN, innermostRev_snoc]

theorem nodup_pathUnionGo (c : Ctx) (k : Kind) (start : Ns) (rest : List String) (acc : Dict)
    (h : (aKeys acc).Nodup) : (aKeys (pathUnionGo c k start rest acc)).Nodup := by
  induction rest generalizing start acc with
  | nil => exact h
  | cons y ys ih => exact ih _ _ (nodup_aUpdate _ _ h)

theorem nodup_pathUnion (c : Ctx) (k : Kind) (hN : ∀ p, (aKeys (current c p k)).Nodup) (ns : Ns) :
    (aKeys (pathUnion c ns k)).Nodup := by
  cases ns with
  | nil => simp [pathUnion, aKeys]
  | cons r rest => exact nodup_pathUnionGo c k [r] rest _ (hN _)

theorem pathUnion_run_get (ops : List Op) (ns : Ns) (k : Kind) (name : String) :
    aGet (pathUnion (run ops) ns k) name = specPathGet ops ns k name := by
  rw [pathUnion_get _ _ (fun p => nodup_current_run ops p k)]
  unfold specPathGet
  congr 2
  funext p
  rw [current_run]

end Heph.Context
