import Heph.Proofs.TransKotlinDoc
/-! `sem` piece by piece: a piece is called for by the program iff one of the nodes the translator
visits (`printed`) contributes it (`own`); membership lemmas for docs; which node kind contributes
which tag. -/
namespace Heph.TransKotlin
open Heph
set_option linter.unusedSimpArgs false

def Own (ms : List Node) (pc : Piece) : Prop := ∃ m ∈ ms, pc ∈ own m

theorem Own_nil (pc : Piece) : Own [] pc ↔ False := by simp [Own]
theorem Own_cons (m : Node) (ms : List Node) (pc : Piece) : Own (m :: ms) pc ↔ pc ∈ own m ∨ Own ms pc := by
  simp [Own]
theorem Own_append (a b : List Node) (pc : Piece) : Own (a ++ b) pc ↔ Own a pc ∨ Own b pc := by
  simp [Own, or_and_right, exists_or]

mutual
theorem mem_sem (pc : Piece) : ∀ n : Node, pc ∈ sem n ↔ Own (printed n) pc
  | .block body _ => by simp [sem, printed, own, Own_cons, mem_semL pc body]
  | .superInst _ args => by simp [sem, printed, own, Own_cons, mem_semOL pc args]
  | .classDecl _ _ _ fields supers funcs _ => by
      simp [sem, printed, own, Own_cons, Own_append, mem_semL pc fields, mem_semL pc supers, mem_semL pc funcs, or_assoc]
  | .varDecl _ e _ vt _ => by cases vt <;> simp [sem, printed, own, Own_cons, mem_sem pc e, or_assoc]
  | .callArg e nm => by cases nm <;> simp [sem, printed, own, Own_cons, mem_sem pc e]
  | .fieldDecl .. => by simp [sem, printed, own, Own_cons, Own_nil]
  | .paramDecl _ _ _ dflt => by simp [sem, printed, own, Own_cons, mem_semO pc dflt]
  | .funcDecl _ params rt _ body _ _ _ _ => by
      cases rt <;> simp [sem, printed, own, Own_cons, Own_append, mem_semL pc params, mem_semO pc body, or_assoc] <;> grind
  | .lambda _ params rt body _ => by
      cases rt <;> cases hb : isBlock (some body) <;>
        simp [sem, printed, own, hb, Own_cons, Own_append, mem_semL pc params, mem_sem pc body] <;> grind
  | .funcRef _ receiver _ => by simp [sem, printed, own, Own_cons, mem_semO pc receiver, or_comm]
  | .bottom t => by cases t <;> simp [sem, printed, own, Own_cons, Own_nil]
  | .intC .. => by simp [sem, printed, own, Own_cons, Own_nil]
  | .realC .. => by simp [sem, printed, own, Own_cons, Own_nil]
  | .boolC .. => by simp [sem, printed, own, Own_cons, Own_nil]
  | .charC .. => by simp [sem, printed, own, Own_cons, Own_nil]
  | .stringC .. => by simp [sem, printed, own, Own_cons, Own_nil]
  | .arrayE _ len exprs => by
      by_cases h : (len == 0) = true <;> simp [sem, printed, own, h, Own_cons, Own_nil, mem_semL pc exprs]
  | .variable _ => by simp [sem, printed, own, Own_cons, Own_nil]
  | .binop _ l r _ => by
      simp [sem, printed, own, Own_cons, Own_append, mem_sem pc l, mem_sem pc r] <;> grind
  | .cond c t f _ => by
      simp [sem, printed, own, Own_cons, Own_append, mem_sem pc c, mem_sem pc t, mem_sem pc f]
  | .isE e _ _ => by simp [sem, printed, own, Own_cons, mem_sem pc e] <;> grind
  | .newE _ args _ => by simp [sem, printed, own, Own_cons, mem_semL pc args]
  | .fieldAccess e _ => by simp [sem, printed, own, Own_cons, mem_sem pc e, or_comm]
  | .call _ args receiver targs ci _ => by
      simp [sem, printed, own, Own_cons, Own_append, mem_semO pc receiver, mem_semL pc args] <;> grind
  | .assign _ expr receiver => by
      simp [sem, printed, own, Own_cons, Own_append, mem_semO pc receiver, mem_sem pc expr] <;> grind
theorem mem_semL (pc : Piece) : ∀ ns : List Node, pc ∈ semL ns ↔ Own (printedL ns) pc
  | [] => by simp [semL, printedL, Own_nil]
  | x :: xs => by simp [semL, printedL, Own_append, mem_sem pc x, mem_semL pc xs]
theorem mem_semO (pc : Piece) : ∀ x : Option Node, pc ∈ semO x ↔ Own (printedO x) pc
  | none => by simp [semO, printedO, Own_nil]
  | some x => by simp [semO, printedO, mem_sem pc x]
theorem mem_semOL (pc : Piece) : ∀ x : Option (List Node), pc ∈ semOL x ↔ Own (printedOL x) pc
  | none => by simp [semOL, printedOL, Own_nil]
  | some xs => by simp [semOL, printedOL, mem_semL pc xs]
end

/-! ## membership in a doc -/

theorem mem_obs_true (pc : Piece) (d : Doc) : pc ∈ obs true d ↔ pc ∈ d ∧ pc.1 ≠ Tag.other := by
  induction d with
  | nil => simp
  | cons a r ih =>
    obtain ⟨t, x⟩ := a
    by_cases h : t = Tag.other
    · subst h; rw [obs_cons_other, ih]; constructor
      · rintro ⟨h1, h2⟩; exact ⟨List.mem_cons_of_mem _ h1, h2⟩
      · rintro ⟨h1, h2⟩
        rcases List.mem_cons.mp h1 with h1 | h1
        · subst h1; exact absurd rfl h2
        · exact ⟨h1, h2⟩
    · rw [obs_cons_tag true t x r h, List.mem_cons, ih, List.mem_cons]; constructor
      · rintro (h1 | ⟨h1, h2⟩)
        · subst h1; exact ⟨Or.inl rfl, h⟩
        · exact ⟨Or.inr h1, h2⟩
      · rintro ⟨h1 | h1, h2⟩
        · exact Or.inl h1
        · exact Or.inr ⟨h1, h2⟩

theorem mem_obs_false (t : Tag) (d : Doc) : (t, "") ∈ obs false d ↔ t ≠ Tag.other ∧ ∃ x, (t, x) ∈ d := by
  induction d with
  | nil => simp
  | cons a r ih =>
    obtain ⟨u, y⟩ := a
    by_cases h : u = Tag.other
    · subst h; rw [obs_cons_other, ih]; constructor
      · rintro ⟨h1, x, h2⟩; exact ⟨h1, x, List.mem_cons_of_mem _ h2⟩
      · rintro ⟨h1, x, h2⟩
        rcases List.mem_cons.mp h2 with h2 | h2
        · exact absurd (congrArg Prod.fst h2) h1
        · exact ⟨h1, x, h2⟩
    · rw [obs_cons_tag false u y r h, List.mem_cons, ih]; constructor
      · rintro (h1 | ⟨h1, x, h2⟩)
        · have : t = u := congrArg Prod.fst h1
          subst this; exact ⟨h, y, List.mem_cons_self⟩
        · exact ⟨h1, x, List.mem_cons_of_mem _ h2⟩
      · rintro ⟨h1, x, h2⟩
        rcases List.mem_cons.mp h2 with h2 | h2
        · left; have : t = u := congrArg Prod.fst h2
          subst this; simp
        · exact Or.inr ⟨h1, x, h2⟩

/-- a tag occurs in a doc iff it occurs in its observation -/
theorem tag_mem_iff_of_obs_false {d e : Doc} (h : obs false d = obs false e) (t : Tag) (ht : t ≠ Tag.other) :
    (∃ x, (t, x) ∈ d) ↔ ∃ x, (t, x) ∈ e := by
  have a := mem_obs_false t d
  have b := mem_obs_false t e
  rw [h] at a
  constructor
  · intro hx; exact (b.mp (a.mpr ⟨ht, hx⟩)).2
  · intro hx; exact (a.mp (b.mpr ⟨ht, hx⟩)).2

theorem flatten_cons (p : Piece) (d : Doc) : flatten (p :: d) = p.2 ++ flatten d := by
  apply String.ext_iff.mpr  -- compare as lists of characters
  simp [flatten, String.toList_join, String.toList_append]

/-- the text of every piece is a part of the text -/
theorem piece_infix (pc : Piece) : ∀ d : Doc, pc ∈ d → ∃ a b, flatten d = a ++ pc.2 ++ b
  | [], h => by simp at h
  | q :: r, h => by
      rcases List.mem_cons.mp h with h | h
      · subst h; exact ⟨"", flatten r, by rw [flatten_cons]; simp⟩
      · obtain ⟨a, b, hab⟩ := piece_infix pc r h
        exact ⟨q.2 ++ a, b, by rw [flatten_cons, hab]; simp [String.append_assoc]⟩

/-! ## which node calls for a piece -/

theorem mem_tparamPieces (pc : Piece) (tps : List Ty) (h : pc ∈ tparamPieces tps) : ∃ n, pc.1 = Tag.tparamD n := by
  simp only [tparamPieces, List.mem_map] at h
  obtain ⟨t, _, rfl⟩ := h
  exact ⟨_, rfl⟩

theorem not_mem_tparamPieces (t : Tag) (x : String) (tps : List Ty) (h : ∀ n, t ≠ Tag.tparamD n) :
    (t, x) ∉ tparamPieces tps := fun hm => by
  obtain ⟨n, hn⟩ := mem_tparamPieces _ _ hm
  exact h n hn

theorem varAnnot_own (v x : String) (m : Node) :
    (Tag.varAnnot v, x) ∈ own m ↔ ∃ e f t i, m = .varDecl v e f (some t) i ∧ x = ": " ++ typeName t := by
  have nt := fun tps => not_mem_tparamPieces (Tag.varAnnot v) x tps (by intro n; simp)
  cases m <;> simp [own, nt]
  case varDecl name e f vt i => cases vt <;> simp <;> grind
  case callArg e nm => cases nm <;> simp <;> split <;> simp
  case funcDecl name ps rt inf body fin ov tps ft => cases rt <;> simp
  case lambda nm ps rt body sig => cases rt <;> split <;> simp
  case bottom t => cases t <;> simp
  case arrayE t len ex => split <;> simp

theorem retAnnot_own (f x : String) (m : Node) :
    (Tag.retAnnot f, x) ∈ own m ↔
      ∃ ps t inf body fin ov tps ft, m = .funcDecl f ps (some t) inf body fin ov tps ft ∧ x = ": " ++ typeName t := by
  have nt := fun tps => not_mem_tparamPieces (Tag.retAnnot f) x tps (by intro n; simp)
  cases m <;> simp [own, nt]
  case varDecl name e f vt i => cases vt <;> simp
  case callArg e nm => cases nm <;> simp <;> split <;> simp
  case funcDecl name ps rt inf body fin ov tps ft => cases rt <;> simp <;> grind
  case lambda nm ps rt body sig => cases rt <;> split <;> simp
  case bottom t => cases t <;> simp
  case arrayE t len ex => split <;> simp

theorem targs_own (f x : String) (m : Node) :
    (Tag.targs f, x) ∈ own m ↔
      ∃ args recv targs rc, m = .call f args recv targs false rc ∧ targs ≠ [] ∧
        x = "<" ++ ",".intercalate (targs.map typeName) ++ ">" := by
  have nt := fun tps => not_mem_tparamPieces (Tag.targs f) x tps (by intro n; simp)
  cases m <;> simp [own, nt]
  case varDecl name e f vt i => cases vt <;> simp
  case callArg e nm => cases nm <;> simp <;> split <;> simp
  case funcDecl name ps rt inf body fin ov tps ft => cases rt <;> simp
  case lambda nm ps rt body sig => cases rt <;> split <;> simp
  case bottom t => cases t <;> simp
  case arrayE t len ex => split <;> simp
  case call g a r ta ci rc => cases ci <;> cases ta <;> simp <;> grind

theorem lit_own (x : String) (m : Node) :
    (Tag.lit, x) ∈ own m ↔
      (∃ t, m = .intC x t) ∨ (∃ t, m = .realC x t) ∨ m = .boolC x ∨ m = .charC x ∨ m = .stringC x := by
  have nt := fun tps => not_mem_tparamPieces Tag.lit x tps (by intro n; simp)
  cases m <;> simp [own, nt]
  case varDecl name e f vt i => cases vt <;> simp
  case callArg e nm => cases nm <;> simp <;> split <;> simp
  case funcDecl name ps rt inf body fin ov tps ft => cases rt <;> simp
  case lambda nm ps rt body sig => cases rt <;> split <;> simp
  case bottom t => cases t <;> simp
  case arrayE t len ex => split <;> simp
  all_goals grind

theorem op_own (x : String) (m : Node) :
    (Tag.op, x) ∈ own m ↔
      (∃ k l r, m = .binop k l r x) ∨ (∃ e t b, m = .isE e t b ∧ x = if b then "!is" else "is") := by
  have nt := fun tps => not_mem_tparamPieces Tag.op x tps (by intro n; simp)
  cases m <;> simp [own, nt]
  case varDecl name e f vt i => cases vt <;> simp
  case callArg e nm => cases nm <;> simp <;> split <;> simp
  case funcDecl name ps rt inf body fin ov tps ft => cases rt <;> simp
  case lambda nm ps rt body sig => cases rt <;> split <;> simp
  case bottom t => cases t <;> simp
  case arrayE t len ex => split <;> simp
  all_goals grind

end Heph.TransKotlin
