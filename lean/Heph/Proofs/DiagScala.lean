import Heph.Proofs.DiagLine
/-! scalac: `-- .*Error: (.*\.scala):\d+:\d+ -+\n((?:[^-]+))`. Two greedy `.*` that backtrack;
the message group runs over the detail lines up to the next dash. `findAll` over a rendered
batch returns exactly the error items, in order. -/
namespace Heph.Diag

/-! ## backtracking: the first success from the top -/

theorem firstDown1_pick {α} {f : Nat → Option α} {n a0 : Nat} {x : α} (h0 : 1 ≤ a0) (h3 : a0 ≤ n)
    (h1 : ∀ a, a0 < a → a ≤ n → f a = none) (h2 : f a0 = some x) : firstDown1 f n = some x := by
  induction n with
  | zero => omega
  | succ k ih =>
    by_cases hk : a0 = k + 1
    · subst hk
      simp only [firstDown1, h2]
    · have hn : f (k + 1) = none := h1 (k + 1) (by omega) (by omega)
      simp only [firstDown1, hn]
      exact ih (by omega) (fun a ha1 ha2 => h1 a ha1 (by omega))

theorem firstDown1_none {α} {f : Nat → Option α} {n : Nat}
    (h1 : ∀ a, 0 < a → a ≤ n → f a = none) : firstDown1 f n = none := by
  induction n with
  | zero => rfl
  | succ k ih =>
    have hn : f (k + 1) = none := h1 (k + 1) (by omega) (by omega)
    simp only [firstDown1, hn]
    exact ih (fun a ha1 ha2 => h1 a ha1 (by omega))

theorem firstDown0_pick {α} {f : Nat → Option α} {n a0 : Nat} {x : α} (h3 : a0 ≤ n)
    (h1 : ∀ a, a0 < a → a ≤ n → f a = none) (h2 : f a0 = some x) : firstDown0 f n = some x := by
  unfold firstDown0
  by_cases h0 : a0 = 0
  · subst h0
    rw [firstDown1_none h1]
    exact h2
  · rw [firstDown1_pick (by omega) h3 h1 h2]

/-! ## where a literal cannot start -/

/-- a literal without a newline that starts inside the rest `t` of a line occurs in that line -/
theorem eat_none_of_noInfix (K t X body : List Char) (hK : '\n' ∉ K) (ht : t <:+ X) (hX : '\n' ∉ X)
    (hk : hasInfix K X = false) : eat K (t ++ '\n' :: body) = none := by
  cases he : eat K (t ++ '\n' :: body) with
  | none => rfl
  | some r2 =>
    exfalso
    have h1 := eat_eq_some he
    have hnl : '\n' ∉ t := fun h => hX (ht.subset h)
    have h2 : firstLine (t ++ '\n' :: body) = firstLine (K ++ r2) := by rw [h1]
    rw [firstLine_append_nl t body hnl, firstLine_append_left K r2 hK] at h2
    obtain ⟨pre, hpre⟩ := ht
    have : X = pre ++ K ++ firstLine r2 := by rw [← hpre, h2]; simp
    rw [this, hasInfix_of_eq] at hk
    cases hk

theorem hasInfix_append_false (K A B : List Char)
    (h : ∀ t, t ≠ [] → t <:+ A → K.isPrefixOf (t ++ B) = false) (hB : hasInfix K B = false) :
    hasInfix K (A ++ B) = false := by
  induction A with
  | nil => exact hB
  | cons x xs ih =>
    have h0 := h (x :: xs) (by simp) (List.suffix_refl _)
    simp only [List.cons_append] at h0
    simp only [List.cons_append, hasInfix, h0, Bool.false_or]
    exact ih (fun t ht hs => h t ht (List.IsSuffix.trans hs (List.suffix_cons x xs)))

/-- the literal's first character does not occur -/
theorem hasInfix_noHead (k : Char) (K A : List Char) (h : k ∉ A) : hasInfix (k :: K) A = false := by
  induction A with
  | nil => rfl
  | cons x xs ih =>
    have hx : (k == x) = false := by
      have : k ≠ x := fun e => h (by simp [e])
      simp [this]
    simp only [hasInfix, List.isPrefixOf, hx, Bool.false_and, Bool.false_or]
    exact ih (fun hm => h (by simp [hm]))

theorem hasInfix_noHead_append (k : Char) (K A B : List Char) (h : k ∉ A)
    (hB : hasInfix (k :: K) B = false) : hasInfix (k :: K) (A ++ B) = false := by
  apply hasInfix_append_false _ _ _ _ hB
  intro t ht hs
  cases t with
  | nil => exact absurd rfl ht
  | cons x xs =>
    have hx : (k == x) = false := by
      have : k ≠ x := fun e => h (hs.subset (by simp [e]))
      simp [this]
    simp only [List.cons_append, List.isPrefixOf, hx, Bool.false_and]

theorem drop_mid (pre : List Char) (c : Char) (X rest : List Char) (a : Nat)
    (h1 : pre.length < a) (h2 : a ≤ pre.length + 1 + X.length) :
    ∃ t, t <:+ X ∧ (pre ++ (c :: X ++ rest)).drop a = t ++ rest := by
  obtain ⟨j, hj⟩ : ∃ j, a = pre.length + (j + 1) := ⟨a - pre.length - 1, by omega⟩
  subst hj
  refine ⟨X.drop j, List.drop_suffix j X, ?_⟩
  rw [List.drop_length_add_append]
  simp only [List.cons_append, List.drop_succ_cons]
  exact List.drop_append_of_le_length (by omega)

/-- after the place `pre` where the literal `c :: …` really starts, no later start on the same
line works when the rest of the line does not contain the literal -/
theorem eat_none_mid (K pre : List Char) (c : Char) (X body : List Char) (a : Nat)
    (hK : '\n' ∉ K) (hX : '\n' ∉ X) (hk : hasInfix K X = false)
    (h1 : pre.length < a) (h2 : a ≤ pre.length + 1 + X.length) :
    eat K ((pre ++ (c :: X ++ '\n' :: body)).drop a) = none := by
  obtain ⟨t, ht, e⟩ := drop_mid pre c X ('\n' :: body) a h1 h2
  rw [e]
  exact eat_none_of_noInfix K t X body hK ht hX hk

/-! ## the position part `:\d+:\d+ -+` -/

def scPos (line col : List Char) (pad : Nat) : List Char :=
  ':' :: (line ++ ':' :: (col ++ ' ' :: dashes pad))

theorem notMem_scPos {line col : List Char} (pad : Nat) (hl : digitsOK line = true)
    (hc : digitsOK col = true) (x : Char) (h1 : isDigitPy x = false) (h2 : x ≠ ':') (h3 : x ≠ ' ')
    (h4 : x ≠ '-') : x ∉ scPos line col pad := by
  obtain ⟨_, hd, _⟩ := digitsOK_spec hl
  obtain ⟨_, hd2, _⟩ := digitsOK_spec hc
  intro hm
  simp only [scPos, dashes, List.mem_append, List.mem_cons, List.mem_replicate] at hm
  rcases hm with hm | hm | hm | hm | hm | hm
  · exact h2 hm
  · have := hd x hm; rw [h1] at this; cases this
  · exact h2 hm
  · have := hd2 x hm; rw [h1] at this; cases this
  · exact h3 hm
  · exact h4 hm.2

theorem dashes1_hit (pad : Nat) (R : List Char) : dashes1 (dashes pad ++ '\n' :: R) = some ('\n' :: R) := by
  have h := dropWhile_stop (· == '-') (dashes pad) '\n' R
    (by intro c hc
        simp only [dashes, List.mem_replicate] at hc
        simp [hc.2])
    (by decide)
  simp only [dashes, List.replicate_succ, List.cons_append] at h ⊢
  simp only [dashes1, beq_self_eq_true, if_true, h]

theorem scalaPos_hit (line col : List Char) (pad : Nat) (R : List Char) (hl : digitsOK line = true)
    (hc : digitsOK col = true) : scalaPos (scPos line col pad ++ '\n' :: R) = some ('\n' :: R) := by
  obtain ⟨hne, hd, _⟩ := digitsOK_spec hl
  obtain ⟨hne2, hd2, _⟩ := digitsOK_spec hc
  have e : scPos line col pad ++ '\n' :: R
      = ':' :: (line ++ ':' :: (col ++ ' ' :: (dashes pad ++ '\n' :: R))) := by simp [scPos]
  rw [e]
  unfold scalaPos
  simp only [bind, Option.bind, eat, beq_self_eq_true, if_true]
  rw [digits1_append line ':' _ hne hd isDigitPy_colon]
  simp only [eat, beq_self_eq_true, if_true]
  rw [digits1_append col ' ' _ hne2 hd2 isDigitPy_space]
  simp only [eat, beq_self_eq_true, if_true]
  exact dashes1_hit pad R

/-! ## the inner `.*` (group 1) -/

/-- what follows the stem's dot on the header line -/
def scTail (line col : List Char) (pad : Nat) : List Char := "scala".toList ++ scPos line col pad

theorem notMem_scTail {line col : List Char} (pad : Nat) (hl : digitsOK line = true)
    (hc : digitsOK col = true) (x : Char) (h0 : x ∉ "scala".toList) (h1 : isDigitPy x = false)
    (h2 : x ≠ ':') (h3 : x ≠ ' ') (h4 : x ≠ '-') : x ∉ scTail line col pad := by
  intro hm
  simp only [scTail, List.mem_append] at hm
  rcases hm with hm | hm
  · exact h0 hm
  · exact notMem_scPos pad hl hc x h1 h2 h3 h4 hm

theorem notMem_stem {stem : List Char} (hstem : ∀ x ∈ stem, isClsJ x = true) (x : Char)
    (hx : isClsJ x = false) : x ∉ stem := by
  intro hm
  have := hstem x hm
  rw [hx] at this
  cases this

theorem scalaB_hit (total : Nat) (stem line col : List Char) (pad : Nat) (body : List Char)
    (hstem : ∀ x ∈ stem, isClsJ x = true) (hl : digitsOK line = true) (hc : digitsOK col = true)
    (hb : body.takeWhile (· != '-') ≠ []) :
    firstDown0 (scalaAttemptB total (stem ++ ('.' :: scTail line col pad ++ '\n' :: body)))
        (firstLine (stem ++ ('.' :: scTail line col pad ++ '\n' :: body))).length
      = some ((stem ++ ".scala".toList, body.takeWhile (· != '-')),
          total - body.length + (body.takeWhile (· != '-')).length) := by
  have hXnl : '\n' ∉ scTail line col pad :=
    notMem_scTail pad hl hc '\n' (by decide) (by decide) (by decide) (by decide) (by decide)
  have hk : hasInfix ".scala".toList (scTail line col pad) = false :=
    hasInfix_noHead '.' "scala".toList _
      (notMem_scTail pad hl hc '.' (by decide) (by decide) (by decide) (by decide) (by decide))
  have hfl : firstLine (stem ++ ('.' :: scTail line col pad ++ '\n' :: body))
      = stem ++ '.' :: scTail line col pad := by
    have e : stem ++ ('.' :: scTail line col pad ++ '\n' :: body)
        = (stem ++ '.' :: scTail line col pad) ++ '\n' :: body := by simp
    rw [e]
    apply firstLine_append_nl
    intro hm
    simp only [List.mem_append, List.mem_cons] at hm
    rcases hm with hm | hm | hm
    · exact notMem_stem hstem '\n' (by decide) hm
    · revert hm; decide
    · exact hXnl hm
  rw [hfl]
  apply firstDown0_pick (a0 := stem.length)
  · simp only [List.length_append]; omega
  · intro b hb1 hb2
    unfold scalaAttemptB
    rw [eat_none_mid ".scala".toList stem '.' _ body b (by decide) hXnl hk hb1
      (by simp only [List.length_append, List.length_cons] at hb2; omega)]
  · unfold scalaAttemptB
    rw [List.drop_left, List.take_left]
    have e : '.' :: scTail line col pad ++ '\n' :: body
        = ".scala".toList ++ (scPos line col pad ++ '\n' :: body) := by simp [scTail]
    rw [e, eat_append]
    simp only [scalaPos_hit line col pad body hl hc]
    cases hm : body.takeWhile (· != '-') with
    | nil => exact absurd hm hb
    | cons x xs => simp

end Heph.Diag
