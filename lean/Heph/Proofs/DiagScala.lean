import Heph.Proofs.DiagLine
/-! scalac: `-- .*Error: (.*\.scala):\d+:\d+ -+\n((?:[^-]+))`. Two greedy `.*` that backtrack;
the message group runs over the detail lines up to the next dash. `findAll` over a rendered
batch returns exactly the error items, in order. -/
namespace Heph.Diag

/-! ## backtracking: the first success from the top -/

theorem firstDown1_pick {α} {f : Nat → Option α} {n a0 : Nat} {x : α} (h0 : 1 ≤ a0) (h3 : a0 ≤ n)
    (h1 : ∀ a, a0 < a → a ≤ n → f a = none) (h2 : f a0 = some x) : firstDown1 f n = some x := by
  induction n with
  | zero => omega
  | succ k ih =>
    by_cases hk : a0 = k + 1
    · subst hk
      simp only [firstDown1, h2]
    · have hn : f (k + 1) = none := h1 (k + 1) (by omega) (by omega)
      simp only [firstDown1, hn]
      exact ih (by omega) (fun a ha1 ha2 => h1 a ha1 (by omega))

theorem firstDown1_none {α} {f : Nat → Option α} {n : Nat}
    (h1 : ∀ a, 0 < a → a ≤ n → f a = none) : firstDown1 f n = none := by
  induction n with
  | zero => rfl
  | succ k ih =>
    have hn : f (k + 1) = none := h1 (k + 1) (by omega) (by omega)
    simp only [firstDown1, hn]
    exact ih (fun a ha1 ha2 => h1 a ha1 (by omega))

theorem firstDown0_pick {α} {f : Nat → Option α} {n a0 : Nat} {x : α} (h3 : a0 ≤ n)
    (h1 : ∀ a, a0 < a → a ≤ n → f a = none) (h2 : f a0 = some x) : firstDown0 f n = some x := by
  unfold firstDown0
  by_cases h0 : a0 = 0
  · subst h0
    rw [firstDown1_none h1]
    exact h2
  · rw [firstDown1_pick (by omega) h3 h1 h2]

/-! ## where a literal cannot start -/

/-- a literal without a newline that starts inside the rest `t` of a line occurs in that line -/
theorem eat_none_of_noInfix (K t X body : List Char) (hK : '\n' ∉ K) (ht : t <:+ X) (hX : '\n' ∉ X)
    (hk : hasInfix K X = false) : eat K (t ++ '\n' :: body) = none := by
  cases he : eat K (t ++ '\n' :: body) with
  | none => rfl
  | some r2 =>
    exfalso
    have h1 := eat_eq_some he
    have hnl : '\n' ∉ t := fun h => hX (ht.subset h)
    have h2 : firstLine (t ++ '\n' :: body) = firstLine (K ++ r2) := by rw [h1]
    rw [firstLine_append_nl t body hnl, firstLine_append_left K r2 hK] at h2
    obtain ⟨pre, hpre⟩ := ht
    have : X = pre ++ K ++ firstLine r2 := by rw [← hpre, h2]; simp
    rw [this, hasInfix_of_eq] at hk
    cases hk

theorem hasInfix_append_false (K A B : List Char)
    (h : ∀ t, t ≠ [] → t <:+ A → K.isPrefixOf (t ++ B) = false) (hB : hasInfix K B = false) :
    hasInfix K (A ++ B) = false := by
  induction A with
  | nil => exact hB
  | cons x xs ih =>
    have h0 := h (x :: xs) (by simp) (List.suffix_refl _)
    simp only [List.cons_append] at h0
    simp only [List.cons_append, hasInfix, h0, Bool.false_or]
    exact ih (fun t ht hs => h t ht (List.IsSuffix.trans hs (List.suffix_cons x xs)))

/-- the literal's first character does not occur -/
theorem hasInfix_noHead (k : Char) (K A : List Char) (h : k ∉ A) : hasInfix (k :: K) A = false := by
  induction A with
  | nil => rfl
  | cons x xs ih =>
    have hx : (k == x) = false := by
      have : k ≠ x := fun e => h (by simp [e])
      simp [this]
    simp only [hasInfix, List.isPrefixOf, hx, Bool.false_and, Bool.false_or]
    exact ih (fun hm => h (by simp [hm]))

theorem hasInfix_noHead_append (k : Char) (K A B : List Char) (h : k ∉ A)
    (hB : hasInfix (k :: K) B = false) : hasInfix (k :: K) (A ++ B) = false := by
  apply hasInfix_append_false _ _ _ _ hB
  intro t ht hs
  cases t with
  | nil => exact absurd rfl ht
  | cons x xs =>
    have hx : (k == x) = false := by
      have : k ≠ x := fun e => h (hs.subset (by simp [e]))
      simp [this]
    simp only [List.cons_append, List.isPrefixOf, hx, Bool.false_and]

theorem drop_mid (pre : List Char) (c : Char) (X rest : List Char) (a : Nat)
    (h1 : pre.length < a) (h2 : a ≤ pre.length + 1 + X.length) :
    ∃ t, t <:+ X ∧ (pre ++ (c :: X ++ rest)).drop a = t ++ rest := by
  obtain ⟨j, hj⟩ : ∃ j, a = pre.length + (j + 1) := ⟨a - pre.length - 1, by omega⟩
  subst hj
  refine ⟨X.drop j, List.drop_suffix j X, ?_⟩
  rw [List.drop_length_add_append]
  simp only [List.cons_append, List.drop_succ_cons]
  exact List.drop_append_of_le_length (by omega)

/-- after the place `pre` where the literal `c :: …` really starts, no later start on the same
line works when the rest of the line does not contain the literal -/
theorem eat_none_mid (K pre : List Char) (c : Char) (X body : List Char) (a : Nat)
    (hK : '\n' ∉ K) (hX : '\n' ∉ X) (hk : hasInfix K X = false)
    (h1 : pre.length < a) (h2 : a ≤ pre.length + 1 + X.length) :
    eat K ((pre ++ (c :: X ++ '\n' :: body)).drop a) = none := by
  obtain ⟨t, ht, e⟩ := drop_mid pre c X ('\n' :: body) a h1 h2
  rw [e]
  exact eat_none_of_noInfix K t X body hK ht hX hk

/-! ## the position part `:\d+:\d+ -+` -/

def scPos (line col : List Char) (pad : Nat) : List Char :=
  ':' :: (line ++ ':' :: (col ++ ' ' :: dashes pad))

theorem notMem_scPos {line col : List Char} (pad : Nat) (hl : digitsOK line = true)
    (hc : digitsOK col = true) (x : Char) (h1 : isDigitPy x = false) (h2 : x ≠ ':') (h3 : x ≠ ' ')
    (h4 : x ≠ '-') : x ∉ scPos line col pad := by
  obtain ⟨_, hd, _⟩ := digitsOK_spec hl
  obtain ⟨_, hd2, _⟩ := digitsOK_spec hc
  intro hm
  simp only [scPos, dashes, List.mem_append, List.mem_cons, List.mem_replicate] at hm
  rcases hm with hm | hm | hm | hm | hm | hm
  · exact h2 hm
  · have := hd x hm; rw [h1] at this; cases this
  · exact h2 hm
  · have := hd2 x hm; rw [h1] at this; cases this
  · exact h3 hm
  · exact h4 hm.2

theorem dashes1_hit (pad : Nat) (R : List Char) : dashes1 (dashes pad ++ '\n' :: R) = some ('\n' :: R) := by
  have h := dropWhile_stop (· == '-') (dashes pad) '\n' R
    (by intro c hc
        simp only [dashes, List.mem_replicate] at hc
        simp [hc.2])
    (by decide)
  simp only [dashes, List.replicate_succ, List.cons_append] at h ⊢
  simp only [dashes1, beq_self_eq_true, if_true, h]

theorem scalaPos_hit (line col : List Char) (pad : Nat) (R : List Char) (hl : digitsOK line = true)
    (hc : digitsOK col = true) : scalaPos (scPos line col pad ++ '\n' :: R) = some ('\n' :: R) := by
  obtain ⟨hne, hd, _⟩ := digitsOK_spec hl
  obtain ⟨hne2, hd2, _⟩ := digitsOK_spec hc
  have e : scPos line col pad ++ '\n' :: R
      = ':' :: (line ++ ':' :: (col ++ ' ' :: (dashes pad ++ '\n' :: R))) := by simp [scPos]
  rw [e]
  unfold scalaPos
  simp only [bind, Option.bind, eat, beq_self_eq_true, if_true]
  rw [digits1_append line ':' _ hne hd isDigitPy_colon]
  simp only [eat, beq_self_eq_true, if_true]
  rw [digits1_append col ' ' _ hne2 hd2 isDigitPy_space]
  simp only [eat, beq_self_eq_true, if_true]
  exact dashes1_hit pad R

/-! ## the inner `.*` (group 1) -/

/-- what follows the stem's dot on the header line -/
def scTail (line col : List Char) (pad : Nat) : List Char := "scala".toList ++ scPos line col pad

theorem notMem_scTail {line col : List Char} (pad : Nat) (hl : digitsOK line = true)
    (hc : digitsOK col = true) (x : Char) (h0 : x ∉ "scala".toList) (h1 : isDigitPy x = false)
    (h2 : x ≠ ':') (h3 : x ≠ ' ') (h4 : x ≠ '-') : x ∉ scTail line col pad := by
  intro hm
  simp only [scTail, List.mem_append] at hm
  rcases hm with hm | hm
  · exact h0 hm
  · exact notMem_scPos pad hl hc x h1 h2 h3 h4 hm

theorem notMem_stem {stem : List Char} (hstem : ∀ x ∈ stem, isClsJ x = true) (x : Char)
    (hx : isClsJ x = false) : x ∉ stem := by
  intro hm
  have := hstem x hm
  rw [hx] at this
  cases this

theorem scalaB_hit (total : Nat) (stem line col : List Char) (pad : Nat) (body : List Char)
    (hstem : ∀ x ∈ stem, isClsJ x = true) (hl : digitsOK line = true) (hc : digitsOK col = true)
    (hb : body.takeWhile (· != '-') ≠ []) :
    firstDown0 (scalaAttemptB total (stem ++ ('.' :: scTail line col pad ++ '\n' :: body)))
        (firstLine (stem ++ ('.' :: scTail line col pad ++ '\n' :: body))).length
      = some ((stem ++ ".scala".toList, body.takeWhile (· != '-')),
          total - body.length + (body.takeWhile (· != '-')).length) := by
  have hXnl : '\n' ∉ scTail line col pad :=
    notMem_scTail pad hl hc '\n' (by decide) (by decide) (by decide) (by decide) (by decide)
  have hk : hasInfix ".scala".toList (scTail line col pad) = false :=
    hasInfix_noHead '.' "scala".toList _
      (notMem_scTail pad hl hc '.' (by decide) (by decide) (by decide) (by decide) (by decide))
  have hfl : firstLine (stem ++ ('.' :: scTail line col pad ++ '\n' :: body))
      = stem ++ '.' :: scTail line col pad := by
    have e : stem ++ ('.' :: scTail line col pad ++ '\n' :: body)
        = (stem ++ '.' :: scTail line col pad) ++ '\n' :: body := by simp
    rw [e]
    apply firstLine_append_nl
    intro hm
    simp only [List.mem_append, List.mem_cons] at hm
    rcases hm with hm | hm | hm
    · exact notMem_stem hstem '\n' (by decide) hm
    · revert hm; decide
    · exact hXnl hm
  rw [hfl]
  apply firstDown0_pick (a0 := stem.length)
  · simp only [List.length_append]; omega
  · intro b hb1 hb2
    unfold scalaAttemptB
    rw [eat_none_mid ".scala".toList stem '.' _ body b (by decide) hXnl hk hb1
      (by simp only [List.length_append, List.length_cons] at hb2; omega)]
  · unfold scalaAttemptB
    rw [List.drop_left, List.take_left]
    have e : '.' :: scTail line col pad ++ '\n' :: body
        = ".scala".toList ++ (scPos line col pad ++ '\n' :: body) := by simp [scTail]
    rw [e, eat_append]
    simp only [scalaPos_hit line col pad body hl hc]
    cases hm : body.takeWhile (· != '-') with
    | nil => exact absurd hm hb
    | cons x xs => simp

/-! ## the outer `.*` -/

/-- `Error: ` does not start inside the stem of the file name: the stem consists of class
characters, the literal has a colon after `Error` where the file name has its dot -/
theorem stem_noKey (t stem Y : List Char) (hstem : ∀ x ∈ stem, isClsJ x = true) (ht : t <:+ stem) :
    "Error: ".toList.isPrefixOf (t ++ '.' :: Y) = false := by
  cases hp : "Error: ".toList.isPrefixOf (t ++ '.' :: Y) with
  | false => rfl
  | true =>
    exfalso
    obtain ⟨r, hr⟩ := List.isPrefixOf_iff_prefix.mp hp
    have h1 := dropWhile_stop isClsJ t '.' Y (fun c hc => hstem c (ht.subset hc)) (by decide)
    have h2 := dropWhile_stop isClsJ "Error".toList ':' (' ' :: r) (by decide) (by decide)
    have e : "Error".toList ++ ':' :: ' ' :: r = "Error: ".toList ++ r := by simp
    rw [e, hr, h1] at h2
    simp only [List.cons.injEq] at h2
    exact absurd h2.1 (by decide)

theorem header_noKey (stem line col : List Char) (pad : Nat)
    (hstem : ∀ x ∈ stem, isClsJ x = true) (hl : digitsOK line = true) (hc : digitsOK col = true) :
    hasInfix "Error: ".toList ("rror: ".toList ++ (stem ++ '.' :: scTail line col pad)) = false := by
  apply hasInfix_noHead_append 'E' "rror: ".toList _ _ (by decide)
  apply hasInfix_append_false
  · intro t _ ht
    exact stem_noKey t stem _ hstem ht
  · apply hasInfix_noHead 'E' "rror: ".toList
    intro hm
    simp only [List.mem_cons] at hm
    rcases hm with hm | hm
    · revert hm; decide
    · exact notMem_scTail pad hl hc 'E' (by decide) (by decide) (by decide) (by decide) (by decide) hm

theorem scalaA_hit (total : Nat) (kind stem line col : List Char) (pad : Nat) (body : List Char)
    (hkind : '\n' ∉ kind) (hstem : ∀ x ∈ stem, isClsJ x = true) (hl : digitsOK line = true)
    (hc : digitsOK col = true) (hb : body.takeWhile (· != '-') ≠ []) :
    firstDown0 (scalaAttemptA total
          (kind ++ ('E' :: ("rror: ".toList ++ (stem ++ '.' :: scTail line col pad)) ++ '\n' :: body)))
        (firstLine
          (kind ++ ('E' :: ("rror: ".toList ++ (stem ++ '.' :: scTail line col pad)) ++ '\n' :: body))).length
      = some ((stem ++ ".scala".toList, body.takeWhile (· != '-')),
          total - body.length + (body.takeWhile (· != '-')).length) := by
  have hXnl : '\n' ∉ "rror: ".toList ++ (stem ++ '.' :: scTail line col pad) := by
    intro hm
    simp only [List.mem_append, List.mem_cons] at hm
    rcases hm with hm | hm | hm | hm
    · revert hm; decide
    · exact notMem_stem hstem '\n' (by decide) hm
    · revert hm; decide
    · exact notMem_scTail pad hl hc '\n' (by decide) (by decide) (by decide) (by decide) (by decide) hm
  have hk := header_noKey stem line col pad hstem hl hc
  generalize hX : "rror: ".toList ++ (stem ++ '.' :: scTail line col pad) = X at hXnl hk
  have hfl : firstLine (kind ++ ('E' :: X ++ '\n' :: body)) = kind ++ 'E' :: X := by
    have e : kind ++ ('E' :: X ++ '\n' :: body) = (kind ++ 'E' :: X) ++ '\n' :: body := by simp
    rw [e]
    apply firstLine_append_nl
    intro hm
    simp only [List.mem_append, List.mem_cons] at hm
    rcases hm with hm | hm | hm
    · exact hkind hm
    · revert hm; decide
    · exact hXnl hm
  rw [hfl]
  apply firstDown0_pick (a0 := kind.length)
  · simp only [List.length_append]; omega
  · intro a ha1 ha2
    unfold scalaAttemptA
    rw [eat_none_mid "Error: ".toList kind 'E' X body a (by decide) hXnl hk ha1
      (by simp only [List.length_append, List.length_cons] at ha2; omega)]
  · unfold scalaAttemptA
    rw [List.drop_left]
    have e : 'E' :: X ++ '\n' :: body
        = "Error: ".toList ++ (stem ++ ('.' :: scTail line col pad ++ '\n' :: body)) := by
      rw [← hX]; simp
    rw [e, eat_append]
    exact scalaB_hit total stem line col pad body hstem hl hc hb

theorem matchScala_hit (f line col kind : List Char) (pad : Nat) (body : List Char)
    (hf : fileOK .scalac f = true) (hl : digitsOK line = true) (hc : digitsOK col = true)
    (hkind : '\n' ∉ kind) (hb : body.takeWhile (· != '-') ≠ []) :
    matchScala (errorHeader .scalac f line col kind pad ++ '\n' :: body)
      = some ((f, body.takeWhile (· != '-')),
          (errorHeader .scalac f line col kind pad ++ '\n' :: body.takeWhile (· != '-')).length) := by
  obtain ⟨stem, hf1, _, hf3⟩ := fileOK_split hf
  have e : errorHeader .scalac f line col kind pad ++ '\n' :: body
      = "-- ".toList ++ (kind ++ ('E' :: ("rror: ".toList ++ (stem ++ '.' :: scTail line col pad)) ++ '\n' :: body)) := by
    simp [errorHeader, hf1, ext, scTail, scPos]
  have hlen : (errorHeader .scalac f line col kind pad ++ '\n' :: body).length
      = (errorHeader .scalac f line col kind pad).length + 1 + body.length := by
    simp only [List.length_append, List.length_cons]; omega
  have hlen2 : (errorHeader .scalac f line col kind pad ++ '\n' :: body.takeWhile (· != '-')).length
      = (errorHeader .scalac f line col kind pad).length + 1 + (body.takeWhile (· != '-')).length := by
    simp only [List.length_append, List.length_cons]; omega
  unfold matchScala
  rw [hlen, hlen2, e, eat_append]
  simp only []
  rw [scalaA_hit _ kind stem line col pad body hkind hf3 hl hc hb, hf1]
  simp only [ext, Option.some.injEq, Prod.mk.injEq]
  refine ⟨?_, ?_⟩
  · simp
  · omega

/-! ## the key `Error: ` is on the first line of every match -/

theorem matchScala_eq_some {s : List Char} {x : (List Char × List Char) × Nat}
    (h : matchScala s = some x) :
    ∃ pre r2, '\n' ∉ pre ∧ s = "-- ".toList ++ (pre ++ ("Error: ".toList ++ r2)) := by
  unfold matchScala at h
  split at h
  · cases h
  · rename_i r hr
    have hs := eat_eq_some hr
    obtain ⟨a, ha, hA⟩ := firstDown0_eq_some h
    unfold scalaAttemptA at hA
    split at hA
    · cases hA
    · rename_i r2 hr2
      have h2 := eat_eq_some hr2
      refine ⟨r.take a, r2, ?_, ?_⟩
      · intro hm
        have := take_le_takeWhile (· != '\n') r a ha '\n' hm
        simp at this
      · rw [← h2, List.take_append_drop, hs]

theorem matchScala_keyLocal : KeyLocal matchScala "Error: ".toList := by
  intro s x hx
  obtain ⟨pre, r2, hpre, hs⟩ := matchScala_eq_some hx
  refine ⟨"-- ".toList ++ pre, firstLine r2, ?_⟩
  have e : s = ("-- ".toList ++ pre ++ "Error: ".toList) ++ r2 := by rw [hs]; simp
  rw [e, firstLine_append_left]
  intro hm
  simp only [List.mem_append] at hm
  rcases hm with (hm | hm) | hm
  · revert hm; decide
  · exact hpre hm
  · revert hm; decide

/-! ## a match starts with a dash -/

theorem matchScala_none_of_ne (c : Char) (tl : List Char) (hc : c ≠ '-') :
    matchScala (c :: tl) = none := by
  have : ('-' == c) = false := by
    have : '-' ≠ c := fun e => hc e.symm
    simp [this]
  simp [matchScala, eat, this]

theorem findAll_dropWhile_dash (s : List Char) :
    findAll matchScala (s.dropWhile (· != '-')) = findAll matchScala s := by
  induction s with
  | nil => rfl
  | cons c tl ih =>
    by_cases hc : c = '-'
    · subst hc
      simp
    · have h1 : (c != '-') = true := by simp [hc]
      rw [List.dropWhile_cons, if_pos h1, ih]
      simp only [findAll, findAllGo, matchScala_none_of_ne c tl hc]

/-! ## the batch -/

theorem captured_ne_nil (det : List (List Char)) (R : List Char)
    (hdet : (match det with
      | [] => false
      | d :: _ => d.head? != some '-') = true) :
    (unlines det ++ R).takeWhile (· != '-') ≠ [] := by
  cases det with
  | nil => cases hdet
  | cons d ds =>
    simp only at hdet
    rw [unlines_cons]
    cases d with
    | nil => simp
    | cons c cs =>
      have hc : (c != '-') = true := by simpa using hdet
      simp [hc]

theorem findAll_render_scala (is : List Item) (h : ∀ i ∈ is, WFItem .scalac i) :
    findAll matchScala (render .scalac is) = expected .scalac is := by
  have hm : KeyLocal matchScala (key .scalac) := matchScala_keyLocal
  induction is with
  | nil => rfl
  | cons i is ih =>
    have hi : wfItem .scalac i = true := h i (by simp)
    have ih' := ih (fun j hj => h j (by simp [hj]))
    rw [render_cons]
    cases i with
    | error f l col msg pad det =>
      simp only [wfItem, Bool.and_eq_true, Bool.not_eq_true', detailOK, List.all_eq_true] at hi
      obtain ⟨⟨⟨⟨⟨hf, hl⟩, hcol⟩, hmsg⟩, _⟩, hdet, hdet0⟩ := hi
      have hcol' : digitsOK col = true := by simpa using hcol
      have hmsg' : '\n' ∉ msg := by simpa using hmsg
      simp only [itemLines, expected, captured]
      have e : unlines (errorHeader .scalac f l col msg pad :: (det ++ if Compiler.scalac = Compiler.groovyc then [[]] else []))
            ++ render .scalac is
          = errorHeader .scalac f l col msg pad ++ '\n' :: (unlines det ++ render .scalac is) := by
        simp [unlines_cons]
      rw [e]
      generalize hbody : unlines det ++ render .scalac is = body
      have hb : body.takeWhile (· != '-') ≠ [] := by
        rw [← hbody]; exact captured_ne_nil det _ hdet0
      have hhit := matchScala_hit f l col msg pad body hf hl hcol' hmsg' hb
      have e2 : errorHeader .scalac f l col msg pad ++ '\n' :: body
          = (errorHeader .scalac f l col msg pad ++ '\n' :: body.takeWhile (· != '-'))
            ++ body.dropWhile (· != '-') := by
        simp [List.takeWhile_append_dropWhile]
      rw [e2] at hhit ⊢
      rw [findAll_hit matchScala _ _ _ (by simp) hhit, findAll_dropWhile_dash, ← hbody,
        findAll_skip_text hm det _ hdet, ih']
    | warning f l col msg pad det =>
      simp only [wfItem, Bool.and_eq_true, List.all_eq_true] at hi
      simp only [itemLines, expected]
      rw [findAll_skip_text hm _ _ hi.2, ih']
    | note t =>
      simp only [wfItem] at hi
      simp only [itemLines, expected]
      rw [findAll_skip_text hm _ _ (by simpa using hi), ih']
    | summary n =>
      simp only [wfItem, List.all_eq_true] at hi
      simp only [itemLines, expected]
      rw [findAll_skip_text hm _ _ hi, ih']

/-! ## the hypotheses are satisfiable: three errors in three files, a warning, the summary -/

def sampleDetail : List (List Char) :=
  ["3 |  val x: Int = \"a\"".toList, "  |               ^^^".toList,
   "  |               Found:    (\"a\" : String)".toList, "  |               Required: Int".toList]

def sampleBatch : List Item :=
  [ .error "/tmp/tmpab12cd_9/src/lorem/program.scala".toList "3".toList "17".toList
      "[E007] Type Mismatch ".toList 4 ["3 |  val x: Int = \"a\"".toList, "  |    ^^^".toList],
    .warning "/tmp/tmpab12cd_9/src/ipsum/program.scala".toList "5".toList "2".toList
      "[E129] Potential Issue ".toList 4 ["5 |  1".toList],
    .error "/tmp/tmpab12cd_9/src/ipsum/program.scala".toList "12".toList "8".toList
      "[E008] Not Found ".toList 5 ["12 |  foo(1)".toList, "   |  Not found: foo".toList],
    .error "/tmp/tmpab12cd_9/src/dolor/program.scala".toList "40".toList "21".toList
      "".toList 3 ["40 |  1".toList, [], "see `-explain`".toList],
    .summary "3".toList ]

theorem sampleBatch_wf : ∀ i ∈ sampleBatch, WFItem .scalac i := by decide +kernel

example : findAll matchScala (render .scalac sampleBatch) = expected .scalac sampleBatch :=
  findAll_render_scala sampleBatch sampleBatch_wf

/-- three matches, one per error item -/
example : (findAll matchScala (render .scalac sampleBatch)).map (·.1)
    = ["/tmp/tmpab12cd_9/src/lorem/program.scala".toList,
       "/tmp/tmpab12cd_9/src/ipsum/program.scala".toList,
       "/tmp/tmpab12cd_9/src/dolor/program.scala".toList] := by
  rw [findAll_render_scala sampleBatch sampleBatch_wf]
  rfl

end Heph.Diag
