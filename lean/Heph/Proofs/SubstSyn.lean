import Heph.Proofs.SubstBeq
/-!
# The code's substitution against substitution on syntax (helper lemmas of C07)
-/
namespace Heph.Ty


theorem lookup_pres (P : Ty → Prop) {σ : TMap} (hσ : ∀ p ∈ σ, P p.2) (t : Ty) (ht : P t) :
    P (match σ.get t with | some r => r | none => t) := by
  cases h : σ.get t with
  | none => exact ht
  | some r => exact TMap.get_pres P hσ h

theorem lookup_pres_covered (P : Ty → Prop) {σ : TMap} (hσ : ∀ p ∈ σ, P p.2) (t u : Ty)
    (ht : (σ.get t).isSome = true) :
    P (match σ.get t with | some r => r | none => u) := by
  cases h : σ.get t with
  | none => simp [h] at ht
  | some r => exact TMap.get_pres P hσ h

mutual
theorem hasTV_substS (σ : TMap) (hσ : ∀ p ∈ σ, hasTV p.2 = false) (ps : List Ty)
    (hc : σ.covers ps) : ∀ t, tvarsWithin ps t = true → hasTV (substS σ t) = false
  | builtin .., _ => by
      simp only [substS]; exact lookup_pres (hasTV · = false) hσ _ (by simp [hasTV])
  | simple .., _ => by
      simp only [substS]; exact lookup_pres (hasTV · = false) hσ _ (by simp [hasTV])
  | tparam nm v none, h => by
      simp only [substS]
      exact lookup_pres_covered (hasTV · = false) hσ _ _ (hc _ (by simpa [tvarsWithin] using h))
  | tparam nm v (some b), h => by
      simp only [substS]
      exact lookup_pres_covered (hasTV · = false) hσ _ _ (hc _ (by simpa [tvarsWithin] using h))
  | wild v none, _ => by
      simp only [substS]; exact lookup_pres (hasTV · = false) hσ _ (by simp [hasTV, hasTVO])
  | wild v (some b), h => by
      simp only [tvarsWithin, tvarsWithinO] at h
      simp only [substS, hasTV, hasTVO]
      exact hasTV_substS σ hσ ps hc b h
  | tcon .., h => by simp [tvarsWithin] at h
  | param nm con args ss, h => by
      simp only [tvarsWithin, Bool.and_eq_true] at h
      simp only [substS, hasTV]
      exact hasTVL_substSL σ hσ ps hc args h.1.1
  | nothing, _ => by
      simp only [substS]; exact lookup_pres (hasTV · = false) hσ _ (by simp [hasTV])
  | ext _, _ => by
      simp only [substS]; exact lookup_pres (hasTV · = false) hσ _ (by simp [hasTV])
theorem hasTVL_substSL (σ : TMap) (hσ : ∀ p ∈ σ, hasTV p.2 = false) (ps : List Ty)
    (hc : σ.covers ps) : ∀ l, tvarsWithinL ps l = true → hasTVL (substSL σ l) = false
  | [], _ => by simp [substSL, hasTVL]
  | x :: xs, h => by
      simp only [tvarsWithinL, Bool.and_eq_true] at h
      simp [substSL, hasTVL, hasTV_substS σ hσ ps hc x h.1, hasTVL_substSL σ hσ ps hc xs h.2]
end



theorem lookup_eq {σ : TMap} (hσ : ∀ p ∈ σ, hasTV p.2 = false) (t u : Ty) (dflt : Bool) :
    (match σ.get t with
      | none => u
      | some r => if (dflt && hasTV r) = true then u else r) =
    (match σ.get t with | some r => r | none => u) := by
  cases h : σ.get t with
  | none => rfl
  | some r => simp [TMap.get_pres (hasTV · = false) hσ h]

theorem lookup_eq_covered {σ : TMap} (hσ : ∀ p ∈ σ, hasTV p.2 = false) (t u u' : Ty) (dflt : Bool)
    (ht : (σ.get t).isSome = true) :
    (match σ.get t with
      | none => u
      | some r => if (dflt && hasTV r) = true then u else r) =
    (match σ.get t with | some r => r | none => u') := by
  cases h : σ.get t with
  | none => simp [h] at ht
  | some r => simp [TMap.get_pres (hasTV · = false) hσ h]

theorem conName_performSubst (c : Ty) (m : TMap) : conName (performSubst c m) = conName c := by
  cases c <;> simp [performSubst, conName]
theorem conName_instConS (c : Ty) (m : TMap) : conName (instConS c m) = conName c := by
  cases c <;> simp [instConS, conName]
theorem conParams_performSubst (c : Ty) (m : TMap) : conParams (performSubst c m) = conParams c := by
  cases c <;> simp [performSubst, conParams]
theorem conParams_instConS (c : Ty) (m : TMap) : conParams (instConS c m) = conParams c := by
  cases c <;> simp [instConS, conParams]
theorem conSups_performSubst (c : Ty) (m : TMap) :
    conSups (performSubst c m) = performSubstL (conSups c) m := by
  cases c <;> simp [performSubst, conSups, performSubstL]
theorem conSups_instConS (c : Ty) (m : TMap) :
    conSups (instConS c m) = instSupsS (conSups c) m := by
  cases c <;> simp [instConS, conSups, instSupsS]

theorem hasTVL_false_mem : ∀ {l : List Ty}, hasTVL l = false → ∀ v ∈ l, hasTV v = false
  | [], _, v, hv => by simp at hv
  | x :: xs, h, v, hv => by
      simp only [hasTVL, Bool.or_eq_false_iff] at h
      simp only [List.mem_cons] at hv
      rcases hv with rfl | hv
      · exact h.1
      · exact hasTVL_false_mem h.2 v hv

theorem length_substSL (σ : TMap) : ∀ l, (substSL σ l).length = l.length
  | [] => rfl
  | x :: xs => by simp [substSL, length_substSL σ xs]

mutual
theorem getSubst_eq : ∀ (t : Ty) (σ : TMap) (ps : List Ty) (dflt : Bool),
    (∀ p ∈ σ, hasTV p.2 = false) → σ.covers ps → tvarsWithin ps t = true →
    getSubst t σ dflt = substS σ t
  | builtin .., σ, ps, dflt, hσ, hc, h => by
      simp only [getSubst, substS]; exact lookup_eq hσ _ _ _
  | simple .., σ, ps, dflt, hσ, hc, h => by
      simp only [getSubst, substS]; exact lookup_eq hσ _ _ _
  | tparam nm v none, σ, ps, dflt, hσ, hc, h => by
      simp only [getSubst, substS]; exact lookup_eq hσ _ _ _
  | tparam nm v (some b), σ, ps, dflt, hσ, hc, h => by
      simp only [getSubst, substS]
      exact lookup_eq_covered hσ _ _ _ _ (hc _ (by simpa [tvarsWithin] using h))
  | wild v none, σ, ps, dflt, hσ, hc, h => by
      simp only [getSubst, substS]; exact lookup_eq hσ _ _ _
  | wild v (some b), σ, ps, dflt, hσ, hc, h => by
      simp only [tvarsWithin, tvarsWithinO] at h
      simp only [getSubst, substS, getSubst_eq b σ ps dflt hσ hc h]
  | tcon .., σ, ps, dflt, hσ, hc, h => by simp [tvarsWithin] at h
  | param nm con args ss, σ, ps, dflt, hσ, hc, h => by
      simp only [tvarsWithin, Bool.and_eq_true, decide_eq_true_eq] at h
      obtain ⟨⟨ha, hcon⟩, hlen⟩ := h
      have hargs := getSubstL_eq args σ ps dflt hσ hc ha
      have htv := hasTVL_substSL σ hσ ps hc args ha
      have hlen' : (conParams con).length ≤ (substSL σ args).length := by
        rw [length_substSL]; exact hlen
      have hm := TMap.mk_pres (hasTV · = false) (conParams con) (substSL σ args)
        (hasTVL_false_mem htv)
      have hcov := TMap.mk_covers (conParams con) (substSL σ args) hlen'
      have hcon' : performSubst con (TMap.mk (conParams con) (substSL σ args)) =
          instConS con (TMap.mk (conParams con) (substSL σ args)) := by
        cases con with
        | tcon cls cnm cps css =>
          simp only [closedCon] at hcon
          simp only [performSubst, instConS, conParams]
          simp only [conParams] at hm hcov
          rw [performSubstL_eq css _ cps hm hcov hcon]
        | _ => simp [performSubst, instConS]
      simp only [getSubst, substS, mkP, hargs, hcon', conName_instConS]
  | nothing, σ, ps, dflt, hσ, hc, h => by
      simp only [getSubst, substS]; exact lookup_eq hσ _ _ _
  | ext _, σ, ps, dflt, hσ, hc, h => by
      simp only [getSubst, substS]; exact lookup_eq hσ _ _ _
theorem getSubstL_eq : ∀ (l : List Ty) (σ : TMap) (ps : List Ty) (dflt : Bool),
    (∀ p ∈ σ, hasTV p.2 = false) → σ.covers ps → tvarsWithinL ps l = true →
    getSubstL l σ dflt = substSL σ l
  | [], _, _, _, _, _, _ => by simp [getSubstL, substSL]
  | x :: xs, σ, ps, dflt, hσ, hc, h => by
      simp only [tvarsWithinL, Bool.and_eq_true] at h
      simp only [getSubstL, substSL, getSubst_eq x σ ps dflt hσ hc h.1,
        getSubstL_eq xs σ ps dflt hσ hc h.2]
theorem performSubstL_eq : ∀ (css : List Ty) (m : TMap) (cps : List Ty),
    (∀ p ∈ m, hasTV p.2 = false) → m.covers cps → supsWithin cps css = true →
    performSubstL css m = instSupsS css m
  | [], _, _, _, _, _ => by simp [performSubstL, instSupsS]
  | t :: rest, m, cps, hm, hc, h => by
      cases t with
      | param nm con args ss =>
        simp only [supsWithin, Bool.and_eq_true] at h
        simp only [performSubstL, instSupsS, getSubst_eq (param nm con args ss) m cps true hm hc h.1,
          performSubstL_eq rest m cps hm hc h.2]
      | _ =>
        simp only [supsWithin, Bool.and_eq_true] at h
        simp only [performSubstL, instSupsS, performSubstL_eq rest m cps hm hc h.2]
end


/-! ### substituting ground types for all type variables leaves no type variable anywhere -/

theorem mentionsTVL_false_mem : ∀ {l : List Ty}, mentionsTVL l = false → ∀ v ∈ l, mentionsTV v = false
  | [], _, v, hv => by simp at hv
  | x :: xs, h, v, hv => by
      simp only [mentionsTVL, Bool.or_eq_false_iff] at h
      simp only [List.mem_cons] at hv
      rcases hv with rfl | hv
      · exact h.1
      · exact mentionsTVL_false_mem h.2 v hv

mutual
theorem mentionsTV_substS : ∀ (t : Ty) (σ : TMap) (ps : List Ty),
    (∀ p ∈ σ, mentionsTV p.2 = false) → σ.covers ps → tvarsWithin ps t = true →
    mentionsTV (substS σ t) = false
  | builtin c n nt p ss, σ, ps, hσ, hc, h => by
      simp only [substS]
      exact lookup_pres (mentionsTV · = false) hσ _ (by simpa [tvarsWithin, mentionsTV] using h)
  | simple n ss, σ, ps, hσ, hc, h => by
      simp only [substS]
      exact lookup_pres (mentionsTV · = false) hσ _ (by simpa [tvarsWithin, mentionsTV] using h)
  | tparam nm v none, σ, ps, hσ, hc, h => by
      simp only [substS]
      exact lookup_pres_covered (mentionsTV · = false) hσ _ _ (hc _ (by simpa [tvarsWithin] using h))
  | tparam nm v (some b), σ, ps, hσ, hc, h => by
      simp only [substS]
      exact lookup_pres_covered (mentionsTV · = false) hσ _ _ (hc _ (by simpa [tvarsWithin] using h))
  | wild v none, σ, ps, hσ, hc, h => by
      simp only [substS]
      exact lookup_pres (mentionsTV · = false) hσ _ (by simp [mentionsTV, mentionsTVO])
  | wild v (some b), σ, ps, hσ, hc, h => by
      simp only [tvarsWithin, tvarsWithinO] at h
      simp only [substS, mentionsTV, mentionsTVO]
      exact mentionsTV_substS b σ ps hσ hc h
  | tcon .., σ, ps, hσ, hc, h => by simp [tvarsWithin] at h
  | param nm con args ss, σ, ps, hσ, hc, h => by
      simp only [tvarsWithin, Bool.and_eq_true, decide_eq_true_eq] at h
      obtain ⟨⟨ha, hcon⟩, hlen⟩ := h
      have htv := mentionsTVL_substSL args σ ps hσ hc ha
      have hlen' : (conParams con).length ≤ (substSL σ args).length := by
        rw [length_substSL]; exact hlen
      have hm := TMap.mk_pres (mentionsTV · = false) (conParams con) (substSL σ args)
        (mentionsTVL_false_mem htv)
      have hcov := TMap.mk_covers (conParams con) (substSL σ args) hlen'
      have hsup : mentionsTVL (conSups (instConS con (TMap.mk (conParams con) (substSL σ args))))
          = false := by
        cases con with
        | tcon cls cnm cps css =>
          simp only [closedCon] at hcon
          simp only [instConS, conSups, conParams]
          simp only [conParams] at hm hcov
          exact mentionsTVL_instSupsS css _ cps hm hcov hcon
        | _ => simp [instConS, conSups, mentionsTVL]
      simp only [substS, mentionsTV, htv, hsup, Bool.or_self]
  | nothing, σ, ps, hσ, hc, h => by
      simp only [substS]
      exact lookup_pres (mentionsTV · = false) hσ _ (by simp [mentionsTV])
  | ext _, σ, ps, hσ, hc, h => by
      simp only [substS]
      exact lookup_pres (mentionsTV · = false) hσ _ (by simp [mentionsTV])
theorem mentionsTVL_substSL : ∀ (l : List Ty) (σ : TMap) (ps : List Ty),
    (∀ p ∈ σ, mentionsTV p.2 = false) → σ.covers ps → tvarsWithinL ps l = true →
    mentionsTVL (substSL σ l) = false
  | [], _, _, _, _, _ => by simp [substSL, mentionsTVL]
  | x :: xs, σ, ps, hσ, hc, h => by
      simp only [tvarsWithinL, Bool.and_eq_true] at h
      simp [substSL, mentionsTVL, mentionsTV_substS x σ ps hσ hc h.1,
        mentionsTVL_substSL xs σ ps hσ hc h.2]
theorem mentionsTVL_instSupsS : ∀ (css : List Ty) (m : TMap) (cps : List Ty),
    (∀ p ∈ m, mentionsTV p.2 = false) → m.covers cps → supsWithin cps css = true →
    mentionsTVL (instSupsS css m) = false
  | [], _, _, _, _, _ => by simp [instSupsS, mentionsTVL]
  | t :: rest, m, cps, hm, hc, h => by
      cases t with
      | param nm con args ss =>
        simp only [supsWithin, Bool.and_eq_true] at h
        simp only [instSupsS, mentionsTVL,
          mentionsTV_substS (param nm con args ss) m cps hm hc h.1,
          mentionsTVL_instSupsS rest m cps hm hc h.2, Bool.or_self]
      | _ =>
        simp only [supsWithin, Bool.and_eq_true, Bool.not_eq_true'] at h
        simp only [instSupsS, mentionsTVL, h.1, mentionsTVL_instSupsS rest m cps hm hc h.2,
          Bool.or_self]
end

end Heph.Ty
