import Heph.Spec.Unify
import Heph.Proofs.TypesBasic
/-!
# The dict of `unify_types` as a finite map (lemmas for C10)

Under the universe hypotheses (`==` is structural equality on the universe and reflexive), a
`UMap` whose keys lie in the universe and are pairwise different behaves like a finite map:
`get` is membership, `_update_type_var_map` either fails or yields a map that extends the old
one (`Ext`), and merging the result of a recursive call extends both maps.
-/
namespace Heph
namespace Unify
open Heph.Ty

variable {U : Ty → Prop} {fac : Option Ty}

def KeysIn (U : Ty → Prop) (m : UMap) : Prop := ∀ e ∈ m, U e.1
def ValsIn (U : Ty → Prop) (m : UMap) : Prop := ∀ k v, (k, some v) ∈ m → U v

/-- `m'` keeps every binding of `m` -/
def Ext (m m' : UMap) : Prop := ∀ k w, (k, some w) ∈ m → (k, some w) ∈ m'

theorem Ext.refl (m : UMap) : Ext m m := fun _ _ h => h
theorem Ext.trans {a b c : UMap} (h1 : Ext a b) (h2 : Ext b c) : Ext a c :=
  fun k w h => h2 k w (h1 k w h)

/-- the invariant of the dict under construction -/
structure MapOK (U : Ty → Prop) (fac : Option Ty) (m : UMap) : Prop where
  keys : KeysIn U m
  vals : ValsIn U m
  func : Functional m
  bounds : BoundsOK U fac m
  allSome : AllSome m

theorem MapOK.nil : MapOK U fac [] :=
  ⟨(by intro e he; cases he), (by intro k v h; cases h), List.Pairwise.nil,
   (by intro k v h; cases h), (by intro e he; cases he)⟩

theorem beq_iff_eq (hU : UnivOK U fac) {x y : Ty} (ux : U x) (uy : U y) :
    beq x y = true ↔ x = y :=
  ⟨hU.consistent x y ux uy, fun h => h ▸ hU.refl x ux⟩

theorem beq_false_iff_ne (hU : UnivOK U fac) {x y : Ty} (ux : U x) (uy : U y) :
    beq x y = false ↔ x ≠ y := by
  constructor
  · intro h heq
    rw [(beq_iff_eq hU ux uy).2 heq] at h
    cases h
  · intro h
    cases hb : beq x y with
    | false => rfl
    | true => exact absurd ((beq_iff_eq hU ux uy).1 hb) h

/-- `m.get(k)` is membership for a functional map over the universe -/
theorem get_iff_mem (hU : UnivOK U fac) {m : UMap} (hk : KeysIn U m) (hf : Functional m)
    {k : Ty} (uk : U k) (x : Option Ty) : m.get k = some x ↔ (k, x) ∈ m := by
  induction m with
  | nil => simp [UMap.get]
  | cons e rest ih =>
    have ue : U e.1 := hk e List.mem_cons_self
    have hk' : KeysIn U rest := fun a ha => hk a (List.mem_cons_of_mem _ ha)
    have hf' : Functional rest := (List.pairwise_cons.1 hf).2
    have hne : ∀ b ∈ rest, beq e.1 b.1 = false := (List.pairwise_cons.1 hf).1
    by_cases hb : beq e.1 k = true
    · have hek : e.1 = k := (beq_iff_eq hU ue uk).1 hb
      have hget : UMap.get (e :: rest) k = some e.2 := by
        simp [UMap.get, List.find?, hb]
      rw [hget]
      constructor
      · intro h
        have : e.2 = x := by simpa using h
        rw [← this, ← hek]
        exact List.mem_cons_self
      · intro h
        rcases List.mem_cons.1 h with h | h
        · rw [← h]
        · have := hne (k, x) h
          rw [hek] at this
          rw [hU.refl k uk] at this
          cases this
    · have hb' : beq e.1 k = false := by cases h : beq e.1 k <;> simp_all
      have hget : UMap.get (e :: rest) k = UMap.get rest k := by
        simp [UMap.get, List.find?, hb']
      rw [hget, ih hk' hf']
      constructor
      · intro h; exact List.mem_cons_of_mem _ h
      · intro h
        rcases List.mem_cons.1 h with h | h
        · rw [← h] at hb'
          rw [hU.refl k uk] at hb'
          cases hb'
        · exact h

/-- membership in `m[k] = v` -/
theorem mem_set (hU : UnivOK U fac) {m : UMap} (hk : KeysIn U m) {k : Ty} (uk : U k)
    (v : Option Ty) (e : Ty × Option Ty) :
    e ∈ m.set k v ↔ (e ∈ m ∧ e.1 ≠ k) ∨ e = (k, v) := by
  unfold UMap.set
  by_cases hany : m.any (fun p => beq p.1 k) = true
  · rw [if_pos hany]
    obtain ⟨p0, hp0, hb0⟩ := List.any_eq_true.1 hany
    have hp0k : p0.1 = k := (beq_iff_eq hU (hk p0 hp0) uk).1 hb0
    constructor
    · intro h
      obtain ⟨p, hp, hg⟩ := List.mem_map.1 h
      by_cases hb : beq p.1 k = true
      · rw [if_pos hb] at hg
        right
        rw [← hg, (beq_iff_eq hU (hk p hp) uk).1 hb]
      · rw [if_neg hb] at hg
        left
        rw [← hg]
        refine ⟨hp, ?_⟩
        intro heq
        apply hb
        rw [heq]
        exact hU.refl k uk
    · intro h
      rcases h with ⟨he, hne⟩ | he
      · refine List.mem_map.2 ⟨e, he, ?_⟩
        have : beq e.1 k = false := (beq_false_iff_ne hU (hk e he) uk).2 hne
        simp [this]
      · refine List.mem_map.2 ⟨p0, hp0, ?_⟩
        rw [if_pos hb0, he, hp0k]
  · rw [if_neg hany]
    have hall : ∀ p ∈ m, p.1 ≠ k := by
      intro p hp heq
      apply hany
      exact List.any_eq_true.2 ⟨p, hp, by rw [heq]; exact hU.refl k uk⟩
    constructor
    · intro h
      rcases List.mem_append.1 h with h | h
      · exact Or.inl ⟨h, hall e h⟩
      · exact Or.inr (by simpa using h)
    · intro h
      rcases h with ⟨he, _⟩ | he
      · exact List.mem_append.2 (Or.inl he)
      · exact List.mem_append.2 (Or.inr (by simp [he]))

theorem functional_set {m : UMap} (hf : Functional m)
    (k : Ty) (v : Option Ty) : Functional (m.set k v) := by
  unfold UMap.set
  by_cases hany : m.any (fun p => beq p.1 k) = true
  · rw [if_pos hany]
    unfold Functional
    rw [List.pairwise_map]
    refine List.Pairwise.imp ?_ hf
    intro a b hab
    have ha : (if beq a.1 k = true then (a.1, v) else a).1 = a.1 := by split <;> rfl
    have hb : (if beq b.1 k = true then (b.1, v) else b).1 = b.1 := by split <;> rfl
    rw [ha, hb]; exact hab
  · rw [if_neg hany]
    unfold Functional
    rw [List.pairwise_append]
    refine ⟨hf, List.pairwise_singleton _ _, ?_⟩
    intro a ha b hb
    have hbk : b = (k, v) := by simpa using hb
    rw [hbk]
    cases h : beq a.1 k with
    | false => rfl
    | true => exact absurd (List.any_eq_true.2 ⟨a, ha, h⟩) hany

/-- a successful `_update_type_var_map(m, k, v)` -/
theorem updateMap_ok (hU : UnivOK U fac) {m m' : UMap} (hm : MapOK U fac m) {k v : Ty}
    (uk : U k) (uv : U v) (hb : BoundOK1 U fac k v)
    (h : updateMap m k (some v) = some m') :
    MapOK U fac m' ∧ Ext m m' ∧ (k, some v) ∈ m' := by
  have hset : m' = m.set k (some v) ∧ (∀ w, m.get k = some (some w) → beq w v = true) := by
    unfold updateMap at h
    split at h
    · rename_i old hg
      split at h
      · rename_i hbeq
        refine ⟨by simpa using h.symm, ?_⟩
        intro w hw
        rw [hg] at hw
        have : old = w := by simpa using hw
        rw [← this]
        simpa [beqO] using hbeq
      · cases h
    · rename_i hnot
      refine ⟨by simpa using h.symm, ?_⟩
      intro w hw
      exact absurd hw (hnot w)
  obtain ⟨hm', hold⟩ := hset
  subst hm'
  have hmem := mem_set hU hm.keys uk (some v)
  refine ⟨⟨?_, ?_, functional_set hm.func k _, ?_, ?_⟩, ?_, (hmem _).2 (Or.inr rfl)⟩
  · intro e he
    rcases (hmem e).1 he with ⟨he, _⟩ | he
    · exact hm.keys e he
    · rw [he]; exact uk
  · intro k' w hkw
    rcases (hmem _).1 hkw with ⟨he, _⟩ | he
    · exact hm.vals k' w he
    · have : w = v := by
        have := congrArg Prod.snd he
        simpa using this
      rw [this]; exact uv
  · intro k' w hkw
    rcases (hmem _).1 hkw with ⟨he, _⟩ | he
    · exact hm.bounds k' w he
    · have h1 : k' = k := congrArg Prod.fst he
      have h2 : w = v := by
        have := congrArg Prod.snd he
        simpa using this
      rw [h1, h2]; exact hb
  · intro e he
    rcases (hmem e).1 he with ⟨he, _⟩ | he
    · exact hm.allSome e he
    · rw [he]; rfl
  · intro k' w hkw
    by_cases hkk : k' = k
    · subst hkk
      have hg : m.get k' = some (some w) := (get_iff_mem hU hm.keys hm.func uk _).2 hkw
      have hbeq := hold w hg
      have : w = v := (beq_iff_eq hU (hm.vals k' w hkw) uv).1 hbeq
      rw [this]
      exact (hmem _).2 (Or.inr rfl)
    · exact (hmem _).2 (Or.inl ⟨hkw, hkk⟩)

theorem MapOK.tail {e : Ty × Option Ty} {rest : UMap} (h : MapOK U fac (e :: rest)) :
    MapOK U fac rest :=
  ⟨fun a ha => h.keys a (List.mem_cons_of_mem _ ha),
   fun k v hkv => h.vals k v (List.mem_cons_of_mem _ hkv),
   (List.pairwise_cons.1 h.func).2,
   fun k v hkv => h.bounds k v (List.mem_cons_of_mem _ hkv),
   fun a ha => h.allSome a (List.mem_cons_of_mem _ ha)⟩

/-- merging the (good) result of a recursive call into the (good) dict -/
theorem mergeMap_ok (hU : UnivOK U fac) : ∀ (r m m' : UMap), MapOK U fac m → MapOK U fac r →
    mergeMap m r = some m' → MapOK U fac m' ∧ Ext m m' ∧ Ext r m' := by
  intro r
  induction r with
  | nil =>
    intro m m' hm _ h
    have : m' = m := by simpa [mergeMap] using h.symm
    subst this
    exact ⟨hm, Ext.refl _, by intro k w hkw; cases hkw⟩
  | cons e rest ih =>
    intro m m' hm hr h
    obtain ⟨k, x⟩ := e
    have hx : x.isSome = true := hr.allSome (k, x) List.mem_cons_self
    obtain ⟨v, rfl⟩ := Option.isSome_iff_exists.1 hx
    simp only [mergeMap] at h
    split at h
    · cases h
    · rename_i m1 hup
      have uk : U k := hr.keys (k, some v) List.mem_cons_self
      have uv : U v := hr.vals k v List.mem_cons_self
      have hb : BoundOK1 U fac k v := hr.bounds k v List.mem_cons_self
      obtain ⟨hm1, hext1, hin1⟩ := updateMap_ok hU hm uk uv hb hup
      obtain ⟨hm', hext2, hext3⟩ := ih m1 m' hm1 hr.tail h
      refine ⟨hm', hext1.trans hext2, ?_⟩
      intro k' w hkw
      rcases List.mem_cons.1 hkw with hkw | hkw
      · have h1 : k' = k := congrArg Prod.fst hkw
        have h2 : w = v := by
          have := congrArg Prod.snd hkw
          simpa using this
        rw [h1, h2]; exact hext2 k v hin1
      · exact hext3 k' w hkw

end Unify
end Heph
