import Heph.Spec.Oracle
/-! Lemmas about the insertion-ordered dictionaries and the file-system operations of the
oracle model. -/
namespace Heph.Oracle

-- results of the model are compared by `decide` in the examples and counterexamples
deriving instance DecidableEq for Except

/-- pids of a batch are keys of a dict: a pid names one program -/
theorem eq_of_pid_eq {ps : List Prog} (hnd : (ps.map (·.pid)).Nodup) {p q : Prog}
    (hp : p ∈ ps) (hq : q ∈ ps) (h : p.pid = q.pid) : p = q := by
  induction ps with
  | nil => cases hp
  | cons a t ih =>
    simp only [List.map_cons, List.nodup_cons, List.mem_map, not_exists, not_and] at hnd
    rcases List.mem_cons.1 hp with hpa | hp <;> rcases List.mem_cons.1 hq with hqa | hq
    · rw [hpa, hqa]
    · exact absurd (by rw [← hpa]; exact h.symm) (hnd.1 q hq)
    · exact absurd (by rw [← hqa]; exact h) (hnd.1 p hp)
    · exact ih hnd.2 hp hq

theorem mem_keys_dictSet (d : Reported) (k : Nat) (v : Option String) (x : Nat) :
    x ∈ keys (dictSet d k v) ↔ x = k ∨ x ∈ keys d := by
  induction d with
  | nil => simp [dictSet, keys]
  | cons h t ih =>
    obtain ⟨k', v'⟩ := h
    simp only [dictSet]
    split
    · subst k'; simp [keys]
    · simp only [keys, List.map_cons, List.mem_cons] at *
      grind

theorem lookup_dictSet_self (d : Reported) (k : Nat) (v : Option String) :
    (dictSet d k v).lookup k = some v := by
  induction d with
  | nil => simp [dictSet]
  | cons h t ih =>
    obtain ⟨k', v'⟩ := h
    simp only [dictSet]
    split
    · simp [List.lookup]
    · rename_i hne
      have : (k == k') = false := by simp; omega
      simp [List.lookup, this, ih]

theorem lookup_dictSet_ne (d : Reported) (k x : Nat) (v : Option String) (h : x ≠ k) :
    (dictSet d k v).lookup x = d.lookup x := by
  induction d with
  | nil =>
    have : (x == k) = false := by simp; omega
    simp [dictSet, List.lookup, this]
  | cons hd t ih =>
    obtain ⟨k', v'⟩ := hd
    simp only [dictSet]
    split
    · subst k'
      have : (x == k) = false := by simp; omega
      simp [List.lookup, this]
    · simp only [List.lookup]
      split <;> simp_all

theorem nodup_keys_dictSet (d : Reported) (k : Nat) (v : Option String) (h : (keys d).Nodup) :
    (keys (dictSet d k v)).Nodup := by
  induction d with
  | nil => simp [dictSet, keys]
  | cons hd t ih =>
    obtain ⟨k', v'⟩ := hd
    simp only [dictSet]
    split
    · subst k'; simpa [keys] using h
    · rename_i hne
      simp only [keys, List.map_cons, List.nodup_cons] at h ⊢
      refine ⟨?_, ih h.2⟩
      intro hm
      have := (mem_keys_dictSet t k v k').1 hm
      rcases this with h1 | h1
      · exact hne h1
      · exact h.1 h1

theorem length_dictSet (d : Reported) (k : Nat) (v : Option String) :
    (dictSet d k v).length = if k ∈ keys d then d.length else d.length + 1 := by
  induction d with
  | nil => simp [dictSet, keys]
  | cons hd t ih =>
    obtain ⟨k', v'⟩ := hd
    simp only [dictSet]
    split
    · subst k'; simp [keys]
    · rename_i hne
      have : ¬ k = k' := fun h => hne h.symm
      simp only [List.length_cons, ih, keys, List.map_cons, List.mem_cons, this, false_or]
      split <;> simp_all

theorem mem_keys_dictUpdate (d r : Reported) (x : Nat) :
    x ∈ keys (dictUpdate d r) ↔ x ∈ keys d ∨ x ∈ keys r := by
  unfold dictUpdate
  induction r generalizing d with
  | nil => simp [keys]
  | cons h t ih =>
    simp only [List.foldl_cons]
    rw [ih, mem_keys_dictSet]
    have : keys (h :: t) = h.1 :: keys t := rfl
    rw [this, List.mem_cons]
    grind

theorem nodup_keys_dictUpdate (d r : Reported) (h : (keys d).Nodup) : (keys (dictUpdate d r)).Nodup := by
  unfold dictUpdate
  induction r generalizing d with
  | nil => simpa using h
  | cons hd t ih => exact ih _ (nodup_keys_dictSet d _ _ h)

/-! ### the file system -/

theorem rmtree_ok {fs fs' : FS} {p : Path} (h : rmtree fs p = .ok fs') :
    ∀ q, q ∈ fs' ↔ q ∈ fs ∧ q ≠ p := by
  unfold rmtree at h
  split at h
  · cases h; intro q; simp
  · cases h

theorem rmtree_of_mem {fs : FS} {p : Path} (h : p ∈ fs) : rmtree fs p = .ok (fs.filter (· ≠ p)) := by
  simp [rmtree, h]

theorem copytree_ok {b : Bool} {fs fs' : FS} {s d : Path} (h : copytree b fs s d = .ok fs') :
    ∀ q, q ∈ fs' ↔ q ∈ fs ∨ q = d := by
  unfold copytree at h
  split at h
  · cases h
  · split at h
    · split at h
      · cases h; intro q; constructor
        · exact Or.inl
        · rintro (h1 | h1)
          · exact h1
          · subst h1; assumption
      · cases h
    · cases h; intro q; simp

theorem copytree_total_ok {fs : FS} {s d : Path} (hs : s ∈ fs) : ∃ fs', copytree true fs s d = .ok fs' := by
  unfold copytree
  simp only [hs, not_true_eq_false, if_false]
  split <;> simp

theorem copytree_fresh {b : Bool} {fs : FS} {s d : Path} (hs : s ∈ fs) (hd : d ∉ fs) :
    copytree b fs s d = .ok (fs ++ [d]) := by
  simp [copytree, hs, hd]

end Heph.Oracle
