import Heph.Proofs.TransJavaBalExpr
import Heph.Proofs.TransJavaBalInsert
/-! Full balance proof, `visit_block`: the return statement / `Type x_N = ` sugar (whose type name
comes from `get_type_hint` and may contain `[]`), the assembly of the block text, and the
`((Function0<T>) (() -> { … })).apply()` wrapping of a block that is not a function body. -/
namespace Heph.TransJava
open Heph
set_option linter.unusedSimpArgs false
set_option linter.unusedVariables false
set_option linter.unusedSectionVars false

theorem getLast?_mem {α : Type} {l : List α} {x : α} (h : l.getLast? = some x) : x ∈ l :=
  List.mem_of_getLast? h

theorem brFree_ite_semi (c : Bool) : BrFree (if c = true then ";" else "") := by cases c <;> decide

/-- `blockSugar`: the return statement and the semicolon are bracket-free, the sugar is neutral -/
theorem blockSugar_ok (e : Env) (he : EnvOK e) (st : St) (hsc : SCOK st.smartCasts) (body : List Node)
    (hb : AtomsOKL body) :
    BrFree (blockSugar e st body).1 ∧ Neutral (blockSugar e st body).2.1 ∧ BrFree (blockSugar e st body).2.2.1 := by
  have hE : BrFree "" := by decide
  have hNE : Neutral "" := neutral_empty
  have hR : Neutral "return " := BrFree.neutral (by decide)
  have hret0 : BrFree ("\n" ++ sp st.ident) := brFree_append (by decide) (brs_sp _)
  have hretN : BrFree ("\n" ++ sp st.ident ++ "return null;") := brFree_append hret0 (by decide)
  have hx : ∀ n : Nat, BrFree ("Object x_" ++ toString n ++ " = ") := fun n =>
    brFree_append (brFree_append (by decide) (brs_toString_nat n)) (by decide)
  unfold blockSugar
  simp only
  split
  · split
    · exact ⟨hretN, hNE, hE⟩
    · split
      · split
        · exact ⟨hretN, (hx _).neutral, hE⟩
        · exact ⟨hretN, hNE, hE⟩
      · exact ⟨hret0, hR, hE⟩
  · split
    · exact ⟨hret0, hR, hE⟩
    · have hret1 : BrFree (if st.isNestedFuncBlock = true then "\n" ++ sp st.ident ++ "return null;" else "\n" ++ sp st.ident) := by
        split
        · exact hretN
        · exact hret0
      split
      · exact ⟨hret1, hNE, hE⟩
      · rename_i l hl
        split
        · exact ⟨hret1, hNE, hE⟩
        · have hl' : AtomsOK l := AtomsOKL.mem hb l (getLast?_mem hl)
          have hhint := typeHint_ok he st.ns hsc l [] (by intro p hp; cases hp) hl'
          have hP : Neutral (if isBottom l = true then ("Object", "")
                  else if isFunctionType (typeHint e st.ns st.smartCasts [] l) = true then
                      (typeNameO (typeHint e st.ns st.smartCasts [] l) false false, if isLambda l = true then ";" else "")
                    else if isFuncRef l = true then (err "unmodelled:get_function_reference_type", "")
                      else (("Object", "") : String × String)).1 ∧
              BrFree (if isBottom l = true then ("Object", "")
                  else if isFunctionType (typeHint e st.ns st.smartCasts [] l) = true then
                      (typeNameO (typeHint e st.ns st.smartCasts [] l) false false, if isLambda l = true then ";" else "")
                    else if isFuncRef l = true then (err "unmodelled:get_function_reference_type", "")
                      else (("Object", "") : String × String)).2 := by
            split
            · exact ⟨BrFree.neutral (by decide), hE⟩
            · split
              · refine ⟨neutral_typeNameO _ (TyOKO.ofWF hhint) _ _, ?_⟩
                show BrFree (if isLambda l = true then ";" else "")
                split <;> decide
              · split
                · exact ⟨BrFree.neutral (by decide), hE⟩
                · exact ⟨BrFree.neutral (by decide), hE⟩
          generalize (if isBottom l = true then ("Object", "")
                  else if isFunctionType (typeHint e st.ns st.smartCasts [] l) = true then
                      (typeNameO (typeHint e st.ns st.smartCasts [] l) false false, if isLambda l = true then ";" else "")
                    else if isFuncRef l = true then (err "unmodelled:get_function_reference_type", "")
                      else (("Object", "") : String × String)) = P at hP
          refine ⟨?_, ?_, hP.2⟩
          · exact brFree_append hret1 (brFree_ite_semi _)
          · have h1 := hP.1
            have h2 : Neutral (toString st.xCounter) := BrFree.neutral (brs_toString_nat _)
            generalize toString st.xCounter = tx at h2
            show Neutral (P.1 ++ " x_" ++ tx ++ " = ")
            fin_neutral [h1.eq, h2.eq]

/-- the text `visit_block` assembles from neutral children is neutral -/
theorem blockText_ok (st : St) (rs : List Text) (hrs : ∀ r ∈ rs, Neutral r) (ret sugar ssemi : String)
    (hret : BrFree ret) (hsugar : Neutral sugar) (hss : BrFree ssemi) : Neutral (blockText st rs ret sugar ssemi) := by
  have hret := hret.neutral
  have hss := hss.neutral
  unfold blockText
  split
  · fin_neutral [hret.eq]
  · rename_i c
    have hc := hrs c (by simp)
    have h1 : Neutral (strip (addStringAt c sugar (leadingSpaces c) ++ ssemi)) :=
      neutral_strip (neutral_append (neutral_insert _ hc hsugar) hss)
    simp only
    generalize strip (addStringAt c sugar (leadingSpaces c) ++ ssemi) = c' at h1
    fin_neutral [hret.eq, h1.eq]
  · have hl : Neutral (rs.getLast?.getD "") := by
      cases h : rs.getLast? with
      | none => exact neutral_empty
      | some x => exact hrs x (List.mem_of_getLast? h)
    have hj : Neutral (join "\n" (rs.dropLast ++
        [addStringAt (rs.getLast?.getD "") sugar (leadingSpaces (rs.getLast?.getD "")) ++ ssemi])) := by
      apply neutral_join (by decide)
      intro x hx
      rcases List.mem_append.mp hx with hx | hx
      · exact hrs x ((List.dropLast_sublist _).subset hx)
      · simp only [List.mem_singleton] at hx
        rw [hx]
        exact neutral_append (neutral_insert _ hl hsugar) hss
    simp only
    generalize join "\n" (rs.dropLast ++
        [addStringAt (rs.getLast?.getD "") sugar (leadingSpaces (rs.getLast?.getD "")) ++ ssemi]) = j at hj
    fin_neutral [hret.eq, hj.eq]

theorem neutral_function0 {es res : String} (h1 : Neutral es) (h2 : Neutral res) :
    Neutral ("((Function0<" ++ es ++ ">) (() -> " ++ res ++ ")).apply()") := by
  fin_neutral [h1.eq, h2.eq]

theorem ok2_block (e : Env) (he : EnvOK e) {v : St → Node → St × Text} (hv : VOK2 v) (st : St) (hst : StOK2 st)
    (body : List Node) (isF : Bool) (hn : AtomsOK (.block body isF)) :
    StOK2 (visitNode e v st (.block body isF)).1 ∧ Neutral (visitNode e v st (.block body isF)).2 := by
  atoms_unfold hn
  simp only [visitNode]
  have h := visitBlockKids_ok hv body { st with isFuncNonVoidBlock := false, isNestedFuncBlock := false }
    (hst.with_eq rfl rfl rfl) hn
  generalize visitBlockKids v { st with isFuncNonVoidBlock := false, isNestedFuncBlock := false } body = p at h
  obtain ⟨s1, rs⟩ := p
  simp only at h ⊢
  have hbs := blockSugar_ok e he { s1 with isFuncNonVoidBlock := st.isFuncNonVoidBlock, isNestedFuncBlock := st.isNestedFuncBlock }
    h.1.2 body hn
  generalize blockSugar e { s1 with isFuncNonVoidBlock := st.isFuncNonVoidBlock, isNestedFuncBlock := st.isNestedFuncBlock } body = bs at hbs
  obtain ⟨ret, sugar, ssemi, x'⟩ := bs
  simp only at hbs ⊢
  have hres := blockText_ok { s1 with isFuncNonVoidBlock := st.isFuncNonVoidBlock, isNestedFuncBlock := st.isNestedFuncBlock, xCounter := x' }
    rs h.2 ret sugar ssemi hbs.1 hbs.2.1 hbs.2.2
  generalize blockText { s1 with isFuncNonVoidBlock := st.isFuncNonVoidBlock, isNestedFuncBlock := st.isNestedFuncBlock, xCounter := x' }
    rs ret sugar ssemi = res at hres
  split
  · refine ⟨h.1.with_eq rfl rfl rfl, ?_⟩
    apply neutral_function0 _ hres
    apply neutral_boxedOf
    apply neutral_typeNameO
    split
    · exact TyOKO.ofWF (t := some tyVoid) WF_tyVoid
    · exact TyOKO.ofWF (typeHintLast_ok he _ h.1.2 body hn)
  · exact ⟨h.1.with_eq rfl rfl rfl, hres⟩

end Heph.TransJava
