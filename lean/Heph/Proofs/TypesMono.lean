import Heph.Proofs.TypesBasic
/-!
# The answer of the model does not depend on the fuel

Once the fuel suffices (the answer is not `.fuel`), more fuel gives the same answer
(`isSub_mono`, `isSub_mono_add`).  Together with `Proofs/TypesFuel.lean`: on regular types every
fuel `≥ fuelFor s t` computes `isSubtype s t`.
-/
namespace Heph
namespace Ty

def MonoS (f : Nat) : Prop :=
  ∀ s t, isSub f s t ≠ .fuel → isSub (f + 1) s t = isSub f s t
def MonoN (f : Nat) : Prop :=
  ∀ s t, nominal f s t ≠ .fuel → nominal (f + 1) s t = nominal f s t
def MonoCL (f : Nat) : Prop :=
  ∀ tps as bs, containedL f tps as bs ≠ .fuel → containedL (f + 1) tps as bs = containedL f tps as bs
def MonoC (f : Nat) : Prop :=
  ∀ a b tp, contained f a b tp ≠ .fuel → contained (f + 1) a b tp = contained f a b tp

theorem anyRes_mono {xs : List Ty} {g g' : Ty → Res} (hg : ∀ x, g x ≠ .fuel → g' x = g x)
    (h : anyRes xs g ≠ .fuel) : anyRes xs g' = anyRes xs g := by
  induction xs with
  | nil => rfl
  | cons x xs ih =>
    simp only [anyRes] at h ⊢
    have hx : g x ≠ .fuel := by
      intro hx; rw [hx] at h; exact h rfl
    rw [hg x hx]
    split
    · rfl
    · rename_i hn; rw [hn] at h; exact ih h
    · rfl

theorem contained_mono_step {f : Nat} (ihS : MonoS f) : MonoC (f + 1) := by
  intro a b tp h
  simp only [contained] at h ⊢
  repeat' (split <;> try simp only at h)
  all_goals first | rfl | (apply ihS; simpa [*] using h)

theorem containedL_mono_step {f : Nat} (ihC : MonoC f) (ihCL : MonoCL f) : MonoCL (f + 1) := by
  intro tps as bs h
  match tps, as, bs with
  | [], _, _ => simp [containedL]
  | _ :: _, [], _ => simp [containedL]
  | _ :: _, _ :: _, [] => simp [containedL]
  | tp :: tps, a :: as, b :: bs =>
    simp only [containedL] at h ⊢
    have hc : contained f a b tp ≠ .fuel := by
      intro hc; rw [hc] at h; exact h rfl
    rw [ihC _ _ _ hc]
    split
    · rename_i hy; rw [hy] at h; exact ihCL _ _ _ h
    · rfl

theorem nominal_mono_step {f : Nat} (ihS : MonoS f) : MonoN (f + 1) := by
  intro s t h
  simp only [nominal] at h ⊢
  split
  · rfl
  · rename_i hc
    simp only [hc] at h
    exact anyRes_mono (fun x hx => ihS x t hx) h

theorem isSub_mono_step {f : Nat} (ihS : MonoS f) (ihN : MonoN f) (ihCL : MonoCL f) :
    MonoS (f + 1) := by
  intro s t h
  cases s with
  | nothing => simp [isSub]
  | ext c => simp [isSub]
  | builtin c nm nt p ss => simp only [isSub]
  | simple nm ss =>
    simp only [isSub] at h ⊢
    exact ihN _ _ h
  | tparam nm v bd => simp only [isSub]
  | wild v bd =>
    unfold isSub at h ⊢
    simp only at h ⊢
    repeat' (split <;> try simp only at h)
    all_goals first | rfl | (apply ihS; simpa [*] using h)
  | tcon c nm ps ss => simp only [isSub]
  | param nm con as ss =>
    simp only [isSub] at h ⊢
    have hn : nominal f (param nm con as ss) t ≠ .fuel := by
      intro hn; rw [hn] at h; exact h rfl
    rw [ihN _ _ hn]
    split
    · rfl
    · rename_i hno
      rw [hno] at h
      simp only at h
      repeat' (split <;> try simp only at h)
      all_goals first | rfl | (apply ihCL; simpa [*] using h)
    · rfl

theorem mono_all : ∀ f, MonoS f ∧ MonoN f ∧ MonoCL f ∧ MonoC f := by
  intro f
  induction f with
  | zero =>
    refine ⟨?_, ?_, ?_, ?_⟩
    · intro s t h; simp [isSub] at h
    · intro s t h; simp [nominal] at h
    · intro tps as bs h; simp [containedL] at h
    · intro a b tp h; simp [contained] at h
  | succ f ih =>
    obtain ⟨ihS, ihN, ihCL, ihC⟩ := ih
    exact ⟨isSub_mono_step ihS ihN ihCL, nominal_mono_step ihS,
      containedL_mono_step ihC ihCL, contained_mono_step ihS⟩

/-- one more unit of fuel does not change a definite answer -/
theorem isSub_mono (f : Nat) (s t : Ty) (h : isSub f s t ≠ .fuel) :
    isSub (f + 1) s t = isSub f s t := (mono_all f).1 s t h

/-- any amount of additional fuel does not change a definite answer -/
theorem isSub_mono_add (f k : Nat) (s t : Ty) (h : isSub f s t ≠ .fuel) :
    isSub (f + k) s t = isSub f s t := by
  induction k with
  | zero => rfl
  | succ k ih =>
    have : isSub (f + k) s t ≠ .fuel := by rw [ih]; exact h
    rw [← Nat.add_assoc, isSub_mono _ _ _ this, ih]

end Ty
end Heph
