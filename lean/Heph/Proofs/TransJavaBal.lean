import Heph.Model.TransJava
import Heph.Spec.JavaBalance
/-! Bracket balance of texts: scanner, neutrality, and the string helpers of the Java
translator model (`sp`, `join`, `lstrip`, `strip`, `collapseWs`, `addStringAt`, `rsplit1`,
`lastWord`, `replaceDots`, `boxedOf`, `toString`) with respect to it. -/
namespace Heph.TransJava

/-- parentheses, braces and square brackets of the text are properly nested and all closed -/
def Balanced (s : String) : Prop := scan [] s.toList = some []

/-- the bracket projection of a text -/
abbrev brs (s : String) : List Char := s.toList.filter isBr

/-- scanning the text leaves every stack as it was, whatever follows -/
def Neutral (s : String) : Prop := ∀ st rest, scan st (brs s ++ rest) = scan st rest

/-- the text contains none of the six characters -/
def BrFree (s : String) : Prop := brs s = []

instance (s : String) : Decidable (BrFree s) := inferInstanceAs (Decidable (brs s = []))

theorem scan_filter_append (l rest : List Char) : ∀ st, scan st (l.filter isBr ++ rest) = scan st (l ++ rest) := by
  induction l with
  | nil => intro st; rfl
  | cons c cs ih =>
    intro st
    by_cases h : isBr c = true
    · rw [List.filter_cons_of_pos h]
      simp only [List.cons_append, scan, ih]
    · have h' : isBr c = false := by simpa using h
      rw [List.filter_cons_of_neg h]
      rw [ih]
      have h1 : closerOf c = none := by
        simp only [isBr, Bool.or_eq_false_iff, beq_eq_false_iff_ne, ne_eq] at h'
        simp [closerOf, h']
      have h2 : isCloser c = false := by
        simp only [isBr, Bool.or_eq_false_iff, beq_eq_false_iff_ne, ne_eq] at h'
        simp [isCloser, h']
      simp [scan, h1, h2]

theorem scan_filter (st : List Char) (l : List Char) : scan st (l.filter isBr) = scan st l := by
  have := scan_filter_append l [] st
  simpa using this

theorem neutral_iff (s : String) : Neutral s ↔ ∀ st rest, scan st (s.toList ++ rest) = scan st rest := by
  unfold Neutral
  constructor
  · intro h st rest; rw [← scan_filter_append]; exact h st rest
  · intro h st rest; rw [scan_filter_append]; exact h st rest

theorem Neutral.balanced {s : String} (h : Neutral s) : Balanced s := by
  have := h [] []
  simp only [List.append_nil] at this
  unfold Balanced
  rw [← scan_filter]
  exact this

theorem BrFree.neutral {s : String} (h : BrFree s) : Neutral s := by
  intro st rest
  unfold BrFree at h
  rw [h]; rfl

@[simp] theorem scan_open_paren (st l) : scan st ('(' :: l) = scan (')' :: st) l := by simp [scan, closerOf]
@[simp] theorem scan_open_brace (st l) : scan st ('{' :: l) = scan ('}' :: st) l := by simp [scan, closerOf]
@[simp] theorem scan_open_brack (st l) : scan st ('[' :: l) = scan (']' :: st) l := by simp [scan, closerOf]
@[simp] theorem scan_close_paren (st l) : scan (')' :: st) (')' :: l) = scan st l := by simp [scan, closerOf, isCloser]
@[simp] theorem scan_close_brace (st l) : scan ('}' :: st) ('}' :: l) = scan st l := by simp [scan, closerOf, isCloser]
@[simp] theorem scan_close_brack (st l) : scan (']' :: st) (']' :: l) = scan st l := by simp [scan, closerOf, isCloser]

theorem brs_append (a b : String) : brs (a ++ b) = brs a ++ brs b := by
  simp [brs, String.toList_append]

theorem neutral_append {a b : String} (ha : Neutral a) (hb : Neutral b) : Neutral (a ++ b) := by
  intro st rest
  rw [brs_append, List.append_assoc, ha, hb]

theorem neutral_empty : Neutral "" := by intro st rest; rfl

theorem brFree_append {a b : String} (ha : BrFree a) (hb : BrFree b) : BrFree (a ++ b) := by
  unfold BrFree at *; rw [brs_append, ha, hb]; rfl

/-! ### whitespace helpers -/

theorem isBr_of_ws {c : Char} (h : isPyWs c = true) : isBr c = false := by
  by_cases h1 : isBr c = true
  · exfalso
    simp only [isBr, Bool.or_eq_true, beq_iff_eq] at h1
    rcases h1 with ((((h1 | h1) | h1) | h1) | h1) | h1 <;> subst h1 <;> revert h <;> decide
  · simpa using h1

theorem filter_dropWhile_ws (l : List Char) : (l.dropWhile isPyWs).filter isBr = l.filter isBr := by
  induction l with
  | nil => rfl
  | cons c cs ih =>
    by_cases h : isPyWs c = true
    · rw [List.dropWhile_cons_of_pos h, ih, List.filter_cons_of_neg (by simp [isBr_of_ws h])]
    · rw [List.dropWhile_cons_of_neg h]

theorem brs_sp (n : Nat) : brs (sp n) = [] := by
  simp only [brs, sp, String.toList_ofList]
  rw [List.filter_eq_nil_iff]
  intro a ha
  rw [List.mem_replicate] at ha
  rw [ha.2]; decide

theorem brs_lstrip (s : String) : brs (lstrip s) = brs s := by
  simp only [brs, lstrip, lstripL, String.toList_ofList, filter_dropWhile_ws]

theorem brs_strip (s : String) : brs (strip s) = brs s := by
  simp only [brs, strip, stripL, lstripL, String.toList_ofList, List.filter_reverse, filter_dropWhile_ws,
    List.reverse_reverse]

theorem filter_collapseAux (b : Bool) (l : List Char) : (collapseAux b l).filter isBr = l.filter isBr := by
  induction l generalizing b with
  | nil => rfl
  | cons c cs ih =>
    by_cases h : isPyWs c = true
    · have hsp : isBr ' ' = false := by decide
      cases b <;> simp [collapseAux, h, ih, isBr_of_ws h, hsp]
    · simp only [collapseAux, h, Bool.false_eq_true, ↓reduceIte, List.filter_cons, ih]

theorem brs_collapseWs (s : String) : brs (collapseWs s) = brs s := by
  simp only [brs, collapseWs, collapseWsL, String.toList_ofList, filter_collapseAux]

theorem brs_addStringAt (s sub : String) (pos : Nat) (h : BrFree sub) : brs (addStringAt s sub pos) = brs s := by
  unfold BrFree at h
  simp only [brs] at h
  simp only [brs, addStringAt, String.toList_ofList, List.filter_append, h, List.append_nil]
  rw [← List.filter_append, List.take_append_drop]

theorem brs_rep_is (n : Nat) : brs (rep "_is" n) = [] := by
  induction n with
  | zero => rfl
  | succ n ih => simp only [rep]; rw [brs_append, ih]; rfl

theorem brs_toString_nat (n : Nat) : brs (toString n) = [] := by
  show brs n.repr = []
  simp only [brs, Nat.toList_repr]
  rw [List.filter_eq_nil_iff]
  intro c hc
  have hd := Nat.isDigit_of_mem_toDigits (by decide) (by decide) hc
  by_cases h1 : isBr c = true
  · exfalso
    simp only [isBr, Bool.or_eq_true, beq_iff_eq] at h1
    rcases h1 with ((((h1 | h1) | h1) | h1) | h1) | h1 <;> subst h1 <;> revert hd <;> decide
  · exact h1

/-! ### join -/

theorem filter_intercalate_brfree (sep : List Char) (hs : sep.filter isBr = []) :
    ∀ (l : List (List Char)), (sep.intercalate l).filter isBr = (l.map (List.filter isBr)).flatten
  | [] => by simp
  | [x] => by simp
  | x :: y :: rest => by
    have ih := filter_intercalate_brfree sep hs (y :: rest)
    simp only [List.intercalate_cons_cons, List.filter_append, hs, List.append_nil, ih, List.map_cons,
      List.flatten_cons]

theorem brs_join (sep : String) (hs : BrFree sep) (xs : List String) :
    brs (join sep xs) = (xs.map brs).flatten := by
  unfold BrFree at hs
  simp only [brs] at hs
  simp only [brs, join, String.toList_intercalate, filter_intercalate_brfree _ hs, List.map_map]
  rfl

theorem scan_flatten_neutral (ls : List (List Char)) (h : ∀ l ∈ ls, ∀ st rest, scan st (l ++ rest) = scan st rest)
    (st rest : List Char) : scan st (ls.flatten ++ rest) = scan st rest := by
  induction ls with
  | nil => rfl
  | cons l ls ih =>
    simp only [List.flatten_cons, List.append_assoc]
    rw [h l (by simp), ih (fun l hl => h l (by simp [hl]))]

theorem neutral_join {sep : String} (hs : BrFree sep) {xs : List String} (h : ∀ x ∈ xs, Neutral x) :
    Neutral (join sep xs) := by
  intro st rest
  rw [brs_join sep hs]
  apply scan_flatten_neutral
  intro l hl
  rw [List.mem_map] at hl
  obtain ⟨x, hx, rfl⟩ := hl
  exact h x hx

theorem brFree_join {sep : String} (hs : BrFree sep) {xs : List String} (h : ∀ x ∈ xs, BrFree x) :
    BrFree (join sep xs) := by
  unfold BrFree
  rw [brs_join sep hs, List.flatten_eq_nil_iff]
  intro l hl
  rw [List.mem_map] at hl
  obtain ⟨x, hx, rfl⟩ := hl
  exact h x hx

theorem neutral_stringJoin {xs : List String} (h : ∀ x ∈ xs, Neutral x) : Neutral (String.join xs) := by
  induction xs with
  | nil => exact neutral_empty
  | cons x xs ih =>
    rw [String.join_cons]
    exact neutral_append (h x (by simp)) (ih fun y hy => h y (by simp [hy]))

/-! ### `boxedOf`, `replaceDots`, `rsplit1`, `lastWord` -/

theorem brs_boxedOf (s : String) : brs (boxedOf s) = brs s := by
  unfold boxedOf
  split <;> rfl

theorem scan_cons_congr (c : Char) {l1 l2 : List Char} (h : ∀ st, scan st l1 = scan st l2) (st : List Char) :
    scan st (c :: l1) = scan st (c :: l2) := by
  simp only [scan, h]

theorem scan_replaceDots (l rest : List Char) :
    ∀ st, scan st (replaceDotsL l ++ rest) = scan st (l ++ rest) := by
  fun_induction replaceDotsL l with
  | case1 cs ih =>
    intro st
    have e1 : closerOf '.' = none := by decide
    have e2 : isCloser '.' = false := by decide
    simp only [List.cons_append, scan_open_brack, scan_close_brack, ih]
    simp [scan, e1, e2]
  | case2 c cs _ ih => intro st; exact scan_cons_congr c ih st
  | case3 => intro st; rfl

theorem neutral_replaceDots {s : String} (h : Neutral s) : Neutral (replaceDots s) := by
  rw [neutral_iff] at h ⊢
  intro st rest
  simp only [replaceDots, String.toList_ofList]
  rw [scan_replaceDots]
  exact h st rest

/-- an identifier-like word: not empty, no white space -/
def WordL (w : List Char) : Prop := w ≠ [] ∧ ∀ c ∈ w, isPyWs c = false

theorem rsplit1L_word (a w : List Char) (hw : ∀ c ∈ w, isPyWs c = false) : rsplit1L (a ++ ' ' :: w) = a := by
  have hsp : ∀ c ∈ w.reverse, (c != ' ') = true := by
    intro c hc
    have := hw c (by simpa using hc)
    rw [bne_iff_ne]; intro h; subst h; revert this; decide
  unfold rsplit1L
  have hc : (a ++ ' ' :: w).contains ' ' = true := by simp
  rw [if_pos hc]
  have : (a ++ ' ' :: w).reverse = w.reverse ++ ' ' :: a.reverse := by simp
  rw [this, List.dropWhile_append_of_pos hsp]
  simp

theorem lastWordL_word (a w : List Char) (hw : WordL w) :
    lastWord (String.ofList (a ++ ' ' :: w)) = String.ofList w := by
  obtain ⟨hne, hws⟩ := hw
  unfold lastWord
  simp only [String.toList_ofList]
  have hrev : (a ++ ' ' :: w).reverse = w.reverse ++ ' ' :: a.reverse := by simp
  rw [hrev]
  obtain ⟨x, xs, hx⟩ : ∃ x xs, w.reverse = x :: xs := by
    cases h : w.reverse with
    | nil => exact absurd (by simpa using h) hne
    | cons x xs => exact ⟨x, xs, rfl⟩
  have hxs : ∀ c ∈ x :: xs, isPyWs c = false := by
    intro c hc; rw [← hx] at hc; exact hws c (by simpa using hc)
  have hx0 : isPyWs x = false := hxs x (by simp)
  have hdw : (x :: xs ++ ' ' :: a.reverse).dropWhile isPyWs = x :: xs ++ ' ' :: a.reverse := by
    rw [List.cons_append, List.dropWhile_cons_of_neg (by simp [hx0])]
  rw [hx, hdw]
  have htw : (x :: xs ++ ' ' :: a.reverse).takeWhile (fun c => !isPyWs c) = x :: xs := by
    rw [List.takeWhile_append_of_pos (by intro c hc; simp [hxs c hc])]
    have : isPyWs ' ' = true := by decide
    simp [this]
  simp only [List.cons_append, List.isEmpty_cons, Bool.false_eq_true, ↓reduceIte]
  rw [← List.cons_append, htw, ← hx, List.reverse_reverse]

end Heph.TransJava
