import Heph.Spec.Scope
/-!
# `sites` skips nothing: every name use occurring anywhere in a program has a site

`children n` are the direct sub-nodes of `n` (every `Node`-valued attribute of the AST class), `Occurs m n` its
reflexive-transitive closure ("`m` occurs in `n`"), `nodeUse m` the obligation a node carries by itself.
`sites_cover`: if `m` occurs in `n` and carries the obligation `u`, then `sites env path n` contains a site with use
`u` — whatever lambdas, nested functions, conditional branches, default values or super-constructor calls lie between.
-/
namespace Heph.Scope
open Heph

def children : Node → List Node
  | .block body _ => body
  | .superInst _ args => args.getD []
  | .classDecl _ _ _ fields supers funcs _ => fields ++ supers ++ funcs
  | .varDecl _ e _ _ _ => [e]
  | .callArg e _ => [e]
  | .paramDecl _ _ _ dflt => dflt.toList
  | .funcDecl _ params _ _ body _ _ _ _ => params ++ body.toList
  | .lambda _ params _ body _ => params ++ [body]
  | .funcRef _ recv _ => recv.toList
  | .arrayE _ _ es => es
  | .isE e _ _ => [e]
  | .binop _ l r _ => [l, r]
  | .cond c t f _ => [c, t, f]
  | .newE _ args _ => args
  | .fieldAccess e _ => [e]
  | .call _ args recv _ _ _ => args ++ recv.toList
  | .assign _ e recv => e :: recv.toList
  | _ => []

/-- `Occurs m n`: the node `m` occurs in `n` (at any depth) -/
inductive Occurs : Node → Node → Prop
  | refl (n : Node) : Occurs n n
  | step {m c n : Node} : c ∈ children n → Occurs m c → Occurs m n

/-- the obligation a node carries by itself -/
def nodeUse : Node → Option Use
  | .variable x => some (.var x)
  | .call f args recv _ _ _ => some (.call f args recv)
  | .funcRef f recv _ => some (.funcRef f recv)
  | .fieldAccess e f => some (.field e f)
  | .newE t args _ => some (.new t args.length)
  | .assign x _ recv => some (.assign x recv)
  | .superInst t args => some (.super t (args.map List.length))
  | .classDecl name .. => some (.ident name)
  | .varDecl name .. => some (.ident name)
  | .fieldDecl name .. => some (.ident name)
  | .paramDecl name .. => some (.ident name)
  | .funcDecl name .. => some (.ident name)
  | _ => none

theorem sitesL_sub {env : Env} {path : String} {c : Node} : ∀ {l : List Node}, c ∈ l →
    ∀ s ∈ sites env path c, s ∈ sitesL env path l := by
  intro l
  induction l with
  | nil => intro h; cases h
  | cons a as ih =>
    intro h s hs
    simp only [sitesL, List.mem_append]
    rcases List.mem_cons.mp h with h | h
    · subst h; exact Or.inl hs
    · exact Or.inr (ih h s hs)

theorem sitesO_sub {env : Env} {path : String} {c : Node} {o : Option Node} (h : c ∈ o.toList) :
    ∀ s ∈ sites env path c, s ∈ sitesO env path o := by
  cases o with
  | none => cases h
  | some a =>
    simp only [Option.toList_some, List.mem_singleton] at h
    subst h
    intro s hs
    simpa [sitesO] using hs

theorem sitesBlock_sub {path : String} {c : Node} : ∀ {l : List Node} {env : Env}, c ∈ l →
    ∃ env', ∀ s ∈ sites env' path c, s ∈ sitesBlock env path l := by
  intro l
  induction l with
  | nil => intro env h; cases h
  | cons a as ih =>
    intro env h
    rcases List.mem_cons.mp h with h | h
    · subst h
      cases hf : isFuncDecl c with
      | true => exact ⟨env.push c, fun s hs => by simp only [sitesBlock, hf, ↓reduceIte, List.mem_append]; exact Or.inl hs⟩
      | false =>
        exact ⟨env, fun s hs => by
          simp only [sitesBlock, hf, Bool.false_eq_true, ↓reduceIte, List.mem_append]; exact Or.inl hs⟩
    · cases hf : isFuncDecl a with
      | true =>
        obtain ⟨env', h'⟩ := ih (env := env.push a) h
        exact ⟨env', fun s hs => by simp only [sitesBlock, hf, ↓reduceIte, List.mem_append]; exact Or.inr (h' s hs)⟩
      | false =>
        obtain ⟨env', h'⟩ := ih (env := if isVarDecl a then env.push a else env) h
        exact ⟨env', fun s hs => by
          simp only [sitesBlock, hf, Bool.false_eq_true, ↓reduceIte, List.mem_append]; exact Or.inr (h' s hs)⟩

/-- the sites of a child, under the environment the walk gives it, are sites of the parent -/
theorem child_sites_sub {c n : Node} (h : c ∈ children n) (env : Env) (path : String) :
    ∃ env' path', ∀ s ∈ sites env' path' c, s ∈ sites env path n := by
  cases n with
  | block body isFunc =>
    obtain ⟨env', h'⟩ := sitesBlock_sub (path := path) (env := env) (show c ∈ body from h)
    exact ⟨env', path, fun s hs => by simp only [sites, List.mem_cons]; exact Or.inr (h' s hs)⟩
  | superInst t args =>
    cases args with
    | none => simp [children] at h
    | some as =>
      refine ⟨env, path ++ "/super", fun s hs => ?_⟩
      simp only [sites, List.mem_cons]
      exact Or.inr (Or.inr (sitesL_sub (by simpa [children] using h) s hs))
  | classDecl name ctype fin fields supers funcs tps =>
    simp only [children, List.mem_append] at h
    refine ⟨{ env.withTVars tps with cls := some (.classDecl name ctype fin fields supers funcs tps) },
      path ++ "/class:" ++ name, fun s hs => ?_⟩
    have h1 := fun l (hl : c ∈ l) => sitesL_sub hl s hs
    simp only [sites, List.mem_cons, List.mem_append]
    rcases h with (h | h) | h
    · simp [h1 _ h]
    · simp [h1 _ h]
    · simp [h1 _ h]
  | varDecl name e fin vt inf =>
    simp only [children, List.mem_singleton] at h
    subst h
    refine ⟨env, path ++ "/var:" ++ name, fun s hs => ?_⟩
    simp only [sites, List.mem_cons, List.mem_append]
    simp [hs]
  | callArg e nm =>
    simp only [children, List.mem_singleton] at h
    subst h
    exact ⟨env, path, fun s hs => by simpa only [sites] using hs⟩
  | paramDecl name t va dflt =>
    refine ⟨env, path ++ "/param:" ++ name, fun s hs => ?_⟩
    have h1 := sitesO_sub (show c ∈ dflt.toList from h) s hs
    simp only [sites, List.mem_cons]
    simp [h1]
  | funcDecl name params ret inf body fin ov tps ft =>
    simp only [children, List.mem_append] at h
    rcases h with h | h
    · refine ⟨env.withTVars tps, path ++ "/func:" ++ name, fun s hs => ?_⟩
      have h1 := sitesL_sub h s hs
      simp only [sites, List.mem_cons, List.mem_append]
      simp [h1]
    · refine ⟨(env.withTVars tps).enterFun params, path ++ "/func:" ++ name, fun s hs => ?_⟩
      have h1 := sitesO_sub h s hs
      simp only [sites, List.mem_cons, List.mem_append]
      simp [h1]
  | lambda name params ret body sig =>
    simp only [children, List.mem_append, List.mem_singleton] at h
    rcases h with h | h
    · refine ⟨env, path ++ "/lambda", fun s hs => ?_⟩
      have h1 := sitesL_sub h s hs
      simp only [sites, List.mem_cons, List.mem_append]
      simp [h1]
    · subst h
      refine ⟨env.enterFun params, path ++ "/lambda", fun s hs => ?_⟩
      simp only [sites, List.mem_cons, List.mem_append]
      simp [hs]
  | funcRef f recv sig =>
    refine ⟨env, path ++ "/funcref", fun s hs => ?_⟩
    have h1 := sitesO_sub (show c ∈ recv.toList from h) s hs
    simp only [sites, List.mem_cons, List.mem_append]
    simp [h1]
  | arrayE t len es =>
    refine ⟨env, path ++ "/array", fun s hs => ?_⟩
    have h1 := sitesL_sub (show c ∈ es from h) s hs
    simp only [sites, List.mem_cons]
    simp [h1]
  | isE e t isNot =>
    simp only [children, List.mem_singleton] at h
    subst h
    refine ⟨env, path ++ "/is", fun s hs => ?_⟩
    simp only [sites, List.mem_cons]
    simp [hs]
  | binop kind l r op =>
    simp only [children, List.mem_cons, List.not_mem_nil, or_false] at h
    refine ⟨env, path ++ "/binop", fun s hs => ?_⟩
    simp only [sites, List.mem_append]
    rcases h with h | h
    · subst h; exact Or.inl hs
    · subst h; exact Or.inr hs
  | cond cnd tb fb ty =>
    simp only [children, List.mem_cons, List.not_mem_nil, or_false] at h
    rcases h with h | h | h
    · subst h
      exact ⟨env, path ++ "/cond", fun s hs => by simp only [sites, List.mem_append]; exact Or.inl (Or.inl hs)⟩
    · subst h
      exact ⟨_, path ++ "/true", fun s hs => by simp only [sites, List.mem_append]; exact Or.inl (Or.inr hs)⟩
    · subst h
      exact ⟨env, path ++ "/false", fun s hs => by simp only [sites, List.mem_append]; exact Or.inr hs⟩
  | newE t args ci =>
    refine ⟨env, path ++ "/new", fun s hs => ?_⟩
    have h1 := sitesL_sub (show c ∈ args from h) s hs
    simp only [sites, List.mem_cons, List.mem_append]
    simp [h1]
  | fieldAccess e f =>
    simp only [children, List.mem_singleton] at h
    subst h
    refine ⟨env, path ++ "/fieldaccess", fun s hs => ?_⟩
    simp only [sites, List.mem_append]
    exact Or.inl hs
  | call f args recv targs ci rc =>
    simp only [children, List.mem_append] at h
    refine ⟨env, path ++ "/call:" ++ f, fun s hs => ?_⟩
    simp only [sites, List.mem_append]
    rcases h with h | h
    · simp [sitesL_sub h s hs]
    · simp [sitesO_sub h s hs]
  | assign x e recv =>
    simp only [children, List.mem_cons] at h
    refine ⟨env, path ++ "/assign:" ++ x, fun s hs => ?_⟩
    simp only [sites, List.mem_append]
    rcases h with h | h
    · subst h; simp [hs]
    · simp [sitesO_sub h s hs]
  | _ => simp [children] at h

/-- a node that carries an obligation has the site of that obligation -/
theorem self_site {m : Node} {u : Use} (h : nodeUse m = some u) (env : Env) (path : String) :
    ∃ s ∈ sites env path m, s.use = u := by
  cases m with
  | superInst t args =>
    simp only [nodeUse, Option.some.injEq] at h; subst h
    cases args <;> simp only [sites] <;> exact ⟨_, List.mem_cons_of_mem _ List.mem_cons_self, rfl⟩
  | classDecl name ctype fin fields supers funcs tps =>
    simp only [nodeUse, Option.some.injEq] at h; subst h
    simp only [sites]
    exact ⟨_, List.mem_append_left _ (List.mem_append_left _ (List.mem_append_left _ (List.mem_append_left _ List.mem_cons_self))), rfl⟩
  | varDecl name e fin vt inf =>
    simp only [nodeUse, Option.some.injEq] at h; subst h
    simp only [sites]; exact ⟨_, List.mem_cons_self, rfl⟩
  | fieldDecl name t fin co ov =>
    simp only [nodeUse, Option.some.injEq] at h; subst h
    simp only [sites]; exact ⟨_, List.mem_cons_self, rfl⟩
  | paramDecl name t va dflt =>
    simp only [nodeUse, Option.some.injEq] at h; subst h
    simp only [sites]; exact ⟨_, List.mem_cons_self, rfl⟩
  | funcDecl name params ret inf body fin ov tps ft =>
    simp only [nodeUse, Option.some.injEq] at h; subst h
    simp only [sites]
    exact ⟨_, List.mem_append_left _ (List.mem_append_left _ (List.mem_append_left _ List.mem_cons_self)), rfl⟩
  | funcRef f recv sig =>
    simp only [nodeUse, Option.some.injEq] at h; subst h
    simp only [sites]; exact ⟨_, List.mem_append_right _ List.mem_cons_self, rfl⟩
  | «variable» x =>
    simp only [nodeUse, Option.some.injEq] at h; subst h
    simp only [sites]; exact ⟨_, List.mem_cons_self, rfl⟩
  | newE t args ci =>
    simp only [nodeUse, Option.some.injEq] at h; subst h
    simp only [sites]; exact ⟨_, List.mem_cons_of_mem _ (List.mem_append_right _ List.mem_cons_self), rfl⟩
  | fieldAccess e f =>
    simp only [nodeUse, Option.some.injEq] at h; subst h
    simp only [sites]; exact ⟨_, List.mem_append_right _ List.mem_cons_self, rfl⟩
  | call f args recv targs ci rc =>
    simp only [nodeUse, Option.some.injEq] at h; subst h
    simp only [sites]; exact ⟨_, List.mem_append_right _ List.mem_cons_self, rfl⟩
  | assign x e recv =>
    simp only [nodeUse, Option.some.injEq] at h; subst h
    simp only [sites]; exact ⟨_, List.mem_append_right _ List.mem_cons_self, rfl⟩
  | _ => simp [nodeUse] at h

/-- **`sites` skips nothing**: a node occurring anywhere in `n` that carries an obligation has a site in the walk of `n` -/
theorem sites_cover {m n : Node} (h : Occurs m n) {u : Use} (hu : nodeUse m = some u) :
    ∀ (env : Env) (path : String), ∃ s ∈ sites env path n, s.use = u := by
  induction h with
  | refl => exact self_site hu
  | step hc _ ih =>
    intro env path
    obtain ⟨env', path', hsub⟩ := child_sites_sub hc env path
    obtain ⟨s, hs, hsu⟩ := ih env' path'
    exact ⟨s, hsub s hs, hsu⟩

/-- for whole programs -/
theorem programSites_cover (p : Program) {d m : Node} (hd : d ∈ p.decls) (h : Occurs m d) {u : Use}
    (hu : nodeUse m = some u) : ∃ s ∈ programSites p, s.use = u := by
  obtain ⟨s, hs, hsu⟩ := sites_cover h hu (initialEnv p) ""
  exact ⟨s, List.mem_cons_of_mem _ (sitesL_sub hd s hs), hsu⟩

end Heph.Scope
