import Heph.Proofs.TransJavaBalVisit
import Heph.Proofs.CheckUniv
/-! Well-formed types (`tyWF`: every node of the type has bracket-free names) print balanced
(`TyOK`), and the well-formed types are closed under sub-terms, supertype closure and the
substitutions `type_utils._comp_type` performs. -/
namespace Heph.TransJava
open Heph Heph.Ty
set_option linter.unusedSimpArgs false

theorem brFreeB_iff (s : String) : brFreeB s = true ↔ BrFree s := by
  unfold brFreeB BrFree brs
  rw [List.all_eq_true, List.filter_eq_nil_iff]
  constructor
  · intro h c hc; simpa using h c hc
  · intro h c hc; simpa using h c hc

theorem BrFree.ofB {s : String} (h : brFreeB s = true) : BrFree s := (brFreeB_iff s).1 h

/-- the well-formed types -/
def WF (t : Ty) : Prop := tyWF t = true

theorem WF_node (x : Ty) : WF x ↔ tyNameOK x = true ∧ ∀ c ∈ children x, WF c := by
  simp only [WF, tyWF, List.all_eq_true]
  constructor
  · intro h
    refine ⟨h x (self_mem_subterms x), ?_⟩
    intro c hc y hy
    apply h y
    rw [subterms_eq x]
    exact List.mem_cons_of_mem _ (mem_subtermsL.2 ⟨c, hc, hy⟩)
  · intro h y hy
    rw [subterms_eq x] at hy
    cases hy with
    | head => exact h.1
    | tail _ hy =>
      obtain ⟨c, hc, hyc⟩ := mem_subtermsL.1 hy
      exact h.2 c hc y hyc

theorem closedU_WF : ClosedU WF := fun x hx y hy => ((WF_node x).1 hx).2 y hy

theorem WF.closure {t u : Ty} (h : WF t) (hu : u ∈ Ty.closure t) : WF u := closedU_closure closedU_WF t u h hu

theorem WF.args {nm con as ss} (h : WF (.param nm con as ss)) : ∀ a ∈ as, WF a := closedU_args closedU_WF h
theorem WF.con {nm con as ss} (h : WF (.param nm con as ss)) : WF con := closedU_WF _ h con (by simp [children])
theorem WF.name {t : Ty} (h : WF t) : tyNameOK t = true := ((WF_node t).1 h).1

theorem WFO_iff (t : Option Ty) : tyWFO t = true ↔ ∀ x, t = some x → WF x := by
  cases t <;> simp [tyWFO, WF]

theorem WFL_iff (ts : List Ty) : tyWFL ts = true ↔ ∀ x ∈ ts, WF x := by
  simp [tyWFL, WF, List.all_eq_true]

/-! ## printed forms -/

theorem neutral_boxedOf {s : String} (h : Neutral s) : Neutral (boxedOf s) := by
  intro st rest; rw [brs_boxedOf]; exact h st rest

theorem neutral_err {w : String} (h : BrFree w) : Neutral (err w) := (brFree_lit_err w h).neutral

theorem neutral_angle {a b : String} (ha : BrFree a) (hb : Neutral b) : Neutral (a ++ "<" ++ b ++ ">") := by
  have ha := ha.neutral
  fin_neutral [ha.eq, hb.eq]

/-- what the induction on the type proves -/
structure Printed (t : Ty) : Prop where
  name : ∀ bv bx, Neutral (typeName t bv bx)
  arg : Neutral (typeArg t)
  getName : Neutral (Ty.getName t)

theorem neutral_typeArgs : ∀ (l : List Ty), (∀ x ∈ l, Neutral (typeArg x)) → Neutral (typeArgs l)
  | [], _ => by simp only [typeArgs]; exact neutral_empty
  | [a], h => by simp only [typeArgs]; exact h a (by simp)
  | a :: b :: rest, h => by
    simp only [typeArgs]
    exact neutral_append (neutral_append (h a (by simp)) (BrFree.neutral (by decide)))
      (neutral_typeArgs (b :: rest) fun x hx => h x (by simp [hx]))

theorem neutral_getNameL : ∀ (l : List Ty), (∀ x ∈ l, Neutral (Ty.getName x)) → Neutral (Ty.getNameL l)
  | [], _ => by simp only [Ty.getNameL]; exact neutral_empty
  | [a], h => by simp only [Ty.getNameL]; exact h a (by simp)
  | a :: b :: rest, h => by
    simp only [Ty.getNameL]
    exact neutral_append (neutral_append (h a (by simp)) (BrFree.neutral (by decide)))
      (neutral_getNameL (b :: rest) fun x hx => h x (by simp [hx]))

theorem printed_of_simpleName (t : Ty) (hn : BrFree (Ty.getName t))
    (h1 : ∀ bv bx, typeName t bv bx = if bx then boxedOf (Ty.getName t) else Ty.getName t)
    (h2 : typeArg t = typeName t true true) : Printed t := by
  have hname : ∀ bv bx, Neutral (typeName t bv bx) := by
    intro bv bx; rw [h1]; split
    · exact neutral_boxedOf hn.neutral
    · exact hn.neutral
  exact ⟨hname, by rw [h2]; exact hname _ _, hn.neutral⟩

theorem printed_of_WF : ∀ t, WF t → Printed t := by
  intro t
  induction t using Ty.ind' with
  | hb c nm nt p ss ih =>
    intro h
    have hn : BrFree nm := BrFree.ofB (by simpa [tyNameOK] using h.name)
    have hname : ∀ bv bx, Neutral (typeName (.builtin c nm nt p ss) bv bx) := by
      intro bv bx
      simp only [typeName]
      split
      · exact BrFree.neutral (by decide)
      · split
        · exact neutral_boxedOf hn.neutral
        · exact hn.neutral
    exact ⟨hname, by simp only [typeArg]; exact hname _ _, by simp only [Ty.getName]; exact hn.neutral⟩
  | hs nm ss ih =>
    intro h
    have hn : BrFree nm := BrFree.ofB (by simpa [tyNameOK] using h.name)
    exact printed_of_simpleName _ (by simpa only [Ty.getName] using hn)
      (by intro bv bx; simp only [typeName]) (by simp only [typeArg])
  | htp nm v bd ih =>
    intro h
    have hn : BrFree nm := BrFree.ofB (by simpa [tyNameOK] using h.name)
    exact printed_of_simpleName _ (by simpa only [Ty.getName] using hn)
      (by intro bv bx; simp only [typeName]) (by simp only [typeArg])
  | hw v bd ih =>
    intro h
    have hb : ∀ x, bd = some x → Printed x := fun x hx => ih x hx (closedU_WF _ h x (by simp [children, hx]))
    have hname : ∀ bv bx, Neutral (typeName (.wild v bd) bv bx) := by
      intro bv bx
      cases bd with
      | none => simp only [typeName]; exact neutral_err (by decide)
      | some b => simp only [typeName]; exact (hb b rfl).name bv bx
    refine ⟨hname, ?_, by simp only [Ty.getName]; exact BrFree.neutral (by decide)⟩
    unfold typeArg
    split
    · exact BrFree.neutral (by decide)
    · apply neutral_append
      · split <;> exact BrFree.neutral (by decide)
      · cases bd with
        | none => exact neutral_err (by decide)
        | some b => exact (hb b rfl).name _ _
  | htc c nm ps ss ih1 ih2 =>
    intro h
    have hn : BrFree nm := BrFree.ofB (by simpa [tyNameOK] using h.name)
    exact printed_of_simpleName _ (by simpa only [Ty.getName] using hn)
      (by intro bv bx; simp only [typeName]) (by simp only [typeArg])
  | hp nm con as ss ih1 ih2 ih3 =>
    intro h
    have hn : BrFree nm := BrFree.ofB (by simpa [tyNameOK] using h.name)
    have has : ∀ a ∈ as, Printed a := fun a ha => ih2 a ha (h.args a ha)
    have hgen : Neutral (nm ++ "<" ++ typeArgs as ++ ">") :=
      neutral_angle hn (neutral_typeArgs as fun x hx => (has x hx).arg)
    have hname : ∀ bv bx, Neutral (typeName (.param nm con as ss) bv bx) := by
      intro bv bx
      unfold typeName
      cases con with
      | tcon cls cn cps css =>
        dsimp only
        split
        · cases as with
          | nil => exact neutral_err (by decide)
          | cons a rest =>
            simp only
            have := (has a (by simp)).name false true
            fin_neutral [this.eq]
        · exact hgen
      | _ => exact hgen
    refine ⟨hname, by simp only [typeArg]; exact hname _ _, ?_⟩
    simp only [Ty.getName]
    exact neutral_angle hn (neutral_getNameL as fun x hx => (has x hx).getName)
  | hn =>
    intro _
    exact printed_of_simpleName _ (by decide) (by intro bv bx; simp only [typeName]) (by simp only [typeArg])
  | he c =>
    intro h
    have hn : BrFree c := BrFree.ofB (by simpa [tyNameOK] using h.name)
    have hname : ∀ bv bx, Neutral (typeName (.ext c) bv bx) := by
      intro bv bx
      simp only [typeName]
      exact neutral_err (brFree_append (by decide) hn)
    exact ⟨hname, by simp only [typeArg]; exact hname _ _, by simp only [Ty.getName]; exact hn.neutral⟩

theorem brFree_tyName_of_WF {t : Ty} (h : WF t) : BrFree (tyName t) := by
  have := h.name
  cases t <;> simp only [tyNameOK, tyName] at this ⊢ <;> first | exact BrFree.ofB this | decide

/-- a well-formed type prints balanced in every form the translator uses -/
theorem TyOK.ofWF {t : Ty} (h : WF t) : TyOK t := by
  have hp := printed_of_WF t h
  refine ⟨hp.name, hp.getName, brFree_tyName_of_WF h, ?_⟩
  cases t with
  | tparam nm v bd =>
    have hn : BrFree nm := BrFree.ofB (by simpa [tyNameOK] using h.name)
    simp only [typeParamStr]
    apply neutral_append hn.neutral
    cases bd with
    | none => exact neutral_empty
    | some b =>
      have hb : WF b := closedU_WF _ h b (by simp [children])
      exact neutral_append (BrFree.neutral (by decide)) (neutral_boxedOf ((printed_of_WF b hb).name _ _))
  | _ => simp only [typeParamStr]; exact hp.getName

theorem TyOKO.ofWF {t : Option Ty} (h : tyWFO t = true) : TyOKO t := by
  cases t with
  | none => trivial
  | some x => exact TyOK.ofWF h

/-! ## substitution -/

def MapWF (m : TMap) : Prop := ∀ p ∈ m, WF p.2

theorem MapWF.mk {ks vs : List Ty} (h : ∀ v ∈ vs, WF v) : MapWF (TMap.mk ks vs) :=
  fun p hp => h p.2 (TMap.mk_vals p hp)

theorem MapWF.get {m : TMap} (hm : MapWF m) {k r : Ty} (h : m.get k = some r) : WF r := by
  obtain ⟨p, hp, rfl⟩ := TMap.get_mem h
  exact hm p hp

theorem MapWF.set {m : TMap} (hm : MapWF m) (k : Ty) {v : Ty} (hv : WF v) : MapWF (m.set k v) := by
  intro p hp
  rcases TMap.set_mem hp with h | h
  · rw [h]; exact hv
  · exact hm p h

theorem MapWF.nil : MapWF [] := fun p hp => by cases hp

local macro "lookup_wf " ht:ident hm:ident : tactic =>
  `(tactic| (simp only [getSubst]; split; (· exact $ht); (· rename_i r hr; split; (· exact $ht); (· exact MapWF.get $hm hr))))

def SubstWF (t : Ty) : Prop :=
  (∀ m d, WF t → MapWF m → WF (getSubst t m d)) ∧ (∀ m, WF t → MapWF m → WF (performSubst t m))

theorem brFree_conName {c : Ty} (h : WF c) : brFreeB (conName c) = true := by
  have := h.name
  cases c <;> simp only [conName, tyNameOK] at this ⊢ <;> first | exact this | decide

theorem substWF : ∀ t, SubstWF t := by
  intro t
  induction t using Ty.ind' with
  | hb c nm nt p ss ih =>
    exact ⟨fun m d ht hm => by lookup_wf ht hm, fun m ht _ => by simpa only [performSubst] using ht⟩
  | hs nm ss ih =>
    exact ⟨fun m d ht hm => by lookup_wf ht hm, fun m ht _ => by simpa only [performSubst] using ht⟩
  | htp nm v bd ih =>
    refine ⟨?_, fun m ht _ => by simpa only [performSubst] using ht⟩
    intro m d ht hm
    cases bd with
    | none => lookup_wf ht hm
    | some b =>
      have hb : WF (tparam nm v (some (getSubst b m d))) := by
        rw [WF_node]
        refine ⟨by simpa [tyNameOK] using ht.name, ?_⟩
        intro c hc
        simp only [children, Option.toList, List.mem_singleton] at hc
        subst hc
        exact (ih b rfl).1 m d (closedU_WF _ ht b (by simp [children])) hm
      simp only [getSubst]
      split
      · exact hb
      · rename_i r hr
        split
        · exact hb
        · exact MapWF.get hm hr
  | hw v bd ih =>
    refine ⟨?_, fun m ht _ => by simpa only [performSubst] using ht⟩
    intro m d ht hm
    cases bd with
    | none => lookup_wf ht hm
    | some b =>
      simp only [getSubst]
      rw [WF_node]
      refine ⟨rfl, ?_⟩
      intro c hc
      simp only [children, Option.toList, List.mem_singleton] at hc
      subst hc
      exact (ih b rfl).1 m d (closedU_WF _ ht b (by simp [children])) hm
  | htc c nm ps ss ih1 ih2 =>
    refine ⟨fun m d ht hm => by lookup_wf ht hm, ?_⟩
    intro m ht hm
    have hc := closedU_WF _ ht
    simp only [performSubst]
    rw [WF_node]
    refine ⟨by simpa [tyNameOK] using ht.name, ?_⟩
    intro x hx
    simp only [children, List.mem_append] at hx
    rcases hx with hx | hx
    · exact hc x (by simp [children, hx])
    · obtain ⟨x0, hx0, h⟩ := mem_performSubstL hx
      have hg : WF x0 := hc x0 (by simp [children, hx0])
      rcases h with rfl | rfl
      · exact hg
      · exact (ih2 x0 hx0).1 m true hg hm
  | hp nm con as ss ih1 ih2 ih3 =>
    refine ⟨?_, fun m ht _ => by simpa only [performSubst] using ht⟩
    intro m d ht hm
    have hc := closedU_WF _ ht
    have hcon : WF con := hc con (by simp [children])
    have has : ∀ v ∈ getSubstL as m d, WF v := by
      intro v hv
      obtain ⟨x, hx, rfl⟩ := mem_getSubstL hv
      exact (ih2 x hx).1 m d (hc x (by simp [children, hx])) hm
    have hcon' : WF (performSubst con (TMap.mk (conParams con) (getSubstL as m d))) :=
      ih1.2 _ hcon (MapWF.mk has)
    simp only [getSubst, mkP]
    rw [WF_node]
    refine ⟨by simpa only [tyNameOK] using brFree_conName hcon', ?_⟩
    intro c hc'
    simp only [children, List.mem_cons, List.mem_append] at hc'
    rcases hc' with rfl | hc' | hc'
    · exact hcon'
    · exact has c hc'
    · apply closedU_WF _ hcon' c
      generalize performSubst con (TMap.mk (conParams con) (getSubstL as m d)) = con' at hc'
      cases con' <;> simp only [conSups, List.not_mem_nil] at hc'
      simp [children, hc']
  | hn =>
    exact ⟨fun m d ht hm => by lookup_wf ht hm, fun m ht _ => by simpa only [performSubst] using ht⟩
  | he c =>
    exact ⟨fun m d ht hm => by lookup_wf ht hm, fun m ht _ => by simpa only [performSubst] using ht⟩

theorem WF.subst {t : Ty} {m : TMap} (ht : WF t) (hm : MapWF m) : WF (substituteType t m) :=
  (substWF t).1 m false ht hm

end Heph.TransJava
