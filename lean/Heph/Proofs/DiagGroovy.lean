import Heph.Proofs.DiagLine
/-! groovyc: a diagnostic is a block `file: line: msg` + detail lines, closed by an empty line;
group 2 of the pattern is lazy and runs up to the first empty line. -/
namespace Heph.Diag

/-- no newline is directly followed by a newline or by the end -/
def noBlank : List Char → Bool
  | [] => true
  | c :: tl => (c != '\n' || (match tl with
      | [] => false
      | d :: _ => d != '\n')) && noBlank tl

theorem untilBlank_hit (C R : List Char) (h : noBlank C = true) :
    untilBlank (C ++ '\n' :: '\n' :: R) = some C := by
  induction C with
  | nil => simp [untilBlank]
  | cons c tl ih =>
    simp only [noBlank, Bool.and_eq_true, Bool.or_eq_true, bne_iff_ne, ne_eq] at h
    obtain ⟨h1, h2⟩ := h
    have hcond : (c == '\n' && (tl ++ '\n' :: '\n' :: R).head? == some '\n') = false := by
      rcases h1 with h1 | h1
      · simp [h1]
      · cases tl with
        | nil => simp at h1
        | cons d tl' =>
          have hd : d ≠ '\n' := by simpa using h1
          simp [hd]
    simp only [List.cons_append, untilBlank, hcond]
    rw [ih h2]
    simp

theorem noBlank_append_line (l X : List Char) (hl : '\n' ∉ l) (hX : noBlank X = true) :
    noBlank (l ++ X) = true := by
  induction l with
  | nil => simpa using hX
  | cons c tl ih =>
    have hc : c ≠ '\n' := fun h => hl (by simp [h])
    have htl : '\n' ∉ tl := fun h => hl (by simp [h])
    simp only [List.cons_append, noBlank, Bool.and_eq_true, Bool.or_eq_true, bne_iff_ne, ne_eq]
    exact ⟨Or.inl hc, ih htl⟩

theorem noBlank_details (det : List (List Char))
    (h : ∀ d ∈ det, d ≠ [] ∧ '\n' ∉ d) : noBlank (det.flatMap ('\n' :: ·)) = true := by
  induction det with
  | nil => rfl
  | cons d ds ih =>
    obtain ⟨hne, hnl⟩ := h d (by simp)
    have ih' := ih (fun x hx => h x (by simp [hx]))
    simp only [List.flatMap_cons, List.cons_append]
    cases d with
    | nil => exact absurd rfl hne
    | cons d0 dt =>
      have hd0 : d0 ≠ '\n' := fun h => hnl (by simp [h])
      have : noBlank ((d0 :: dt) ++ ds.flatMap ('\n' :: ·)) = true :=
        noBlank_append_line _ _ hnl ih'
      simp only [List.cons_append] at this
      simp only [noBlank, List.cons_append, Bool.and_eq_true, Bool.or_eq_true, bne_iff_ne, ne_eq]
      simp only [noBlank, Bool.and_eq_true, Bool.or_eq_true, bne_iff_ne, ne_eq] at this
      exact ⟨Or.inr hd0, this⟩

theorem line_unlines (l : List Char) (det : List (List Char)) :
    l ++ '\n' :: unlines det = (l ++ det.flatMap ('\n' :: ·)) ++ ['\n'] := by
  induction det generalizing l with
  | nil => simp [unlines]
  | cons d ds ih =>
    rw [unlines_cons]
    have := ih (l ++ '\n' :: d)
    simp only [List.append_assoc, List.cons_append, List.flatMap_cons] at this ⊢
    exact this

theorem isClsG_of_isClsJ (c : Char) (h : isClsJ c = true) : isClsG c = true := by
  simp [isClsG, h]

theorem matchGroovy_hit (f line col msg : List Char) (pad : Nat) (det : List (List Char)) (R : List Char)
    (hf : fileOK .groovyc f = true) (hl : digitsOK line = true) (hm : '\n' ∉ msg)
    (hdet : ∀ d ∈ det, d ≠ [] ∧ '\n' ∉ d) :
    matchGroovy (errorHeader .groovyc f line col msg pad ++ '\n' :: (unlines det ++ '\n' :: R))
      = some ((f, captured .groovyc line msg det []),
          (errorHeader .groovyc f line col msg pad ++ det.flatMap ('\n' :: ·)).length) := by
  obtain ⟨stem, hf1, hf2, hf3⟩ := fileOK_split hf
  obtain ⟨_, _, hlnl⟩ := digitsOK_spec hl
  let B0 : List Char := ' ' :: line ++ ": ".toList ++ msg
  have hB0 : '\n' ∉ B0 := by
    simp only [B0, List.cons_append, List.mem_cons, List.mem_append, not_or]
    exact ⟨by decide, ⟨hlnl, by decide⟩, hm⟩
  have hnb : noBlank (B0 ++ det.flatMap ('\n' :: ·)) = true :=
    noBlank_append_line _ _ hB0 (noBlank_details det hdet)
  have ht : groovyTail ((B0 ++ det.flatMap ('\n' :: ·)) ++ '\n' :: '\n' :: R)
      = some (B0 ++ det.flatMap ('\n' :: ·), (B0 ++ det.flatMap ('\n' :: ·)).length) := by
    unfold groovyTail
    rw [untilBlank_hit _ _ hnb]
  have := matchHdr_hit isClsG "groovy".toList groovyTail stem _ _ _ hf2
    (fun c hc => isClsG_of_isClsJ c (hf3 c hc)) isClsG_dot ht
  unfold matchGroovy
  have e : errorHeader .groovyc f line col msg pad ++ '\n' :: (unlines det ++ '\n' :: R)
      = stem ++ '.' :: ("groovy".toList ++ ':' :: ((B0 ++ det.flatMap ('\n' :: ·)) ++ '\n' :: '\n' :: R)) := by
    have h1 := line_unlines B0 det
    have : errorHeader .groovyc f line col msg pad = stem ++ '.' :: ("groovy".toList ++ ':' :: B0) := by
      simp [errorHeader, hf1, ext, B0]
    rw [this]
    have h2 : B0 ++ '\n' :: (unlines det ++ '\n' :: R) = (B0 ++ '\n' :: unlines det) ++ '\n' :: R := by simp
    simp only [List.append_assoc, List.cons_append]
    rw [h2, h1]
    simp
  rw [e, this, hf1]
  simp only [errorHeader, ext, captured, Option.some.injEq, Prod.mk.injEq, B0]
  refine ⟨?_, ?_⟩
  · trivial
  · simp only [List.length_append, List.length_cons]
    omega

theorem findAll_render_groovy (is : List Item) (h : ∀ i ∈ is, WFItem .groovyc i) :
    findAll matchGroovy (render .groovyc is) = expected .groovyc is := by
  have hm : KeyLocal matchGroovy (key .groovyc) := matchGroovy_keyLocal
  induction is with
  | nil => rfl
  | cons i is ih =>
    have hi : wfItem .groovyc i = true := h i (by simp)
    have ih' := ih (fun j hj => h j (by simp [hj]))
    rw [render_cons]
    cases i with
    | error f l col msg pad det =>
      simp only [wfItem, Bool.and_eq_true, Bool.not_eq_true', detailOK, List.all_eq_true] at hi
      obtain ⟨⟨⟨⟨⟨hf, hl⟩, _⟩, hmsg⟩, _⟩, hdet⟩ := hi
      have hmsg' : '\n' ∉ msg := by simpa using hmsg
      have hdet' : ∀ d ∈ det, d ≠ [] ∧ '\n' ∉ d := by
        intro d hd
        have := hdet d hd
        refine ⟨?_, by simpa using this.1.2⟩
        intro h0; rw [h0] at this; simp at this
      simp only [itemLines, expected, if_true]
      have e : unlines (errorHeader .groovyc f l col msg pad :: (det ++ [[]]))
            ++ render .groovyc is
          = errorHeader .groovyc f l col msg pad ++ '\n' :: (unlines det ++ '\n' :: render .groovyc is) := by
        simp [unlines]
      have e2 : errorHeader .groovyc f l col msg pad ++ '\n' :: (unlines det ++ '\n' :: render .groovyc is)
          = (errorHeader .groovyc f l col msg pad ++ det.flatMap ('\n' :: ·)) ++ '\n' :: '\n' :: render .groovyc is := by
        have h1 := line_unlines (errorHeader .groovyc f l col msg pad) det
        have h2 : errorHeader .groovyc f l col msg pad ++ '\n' :: (unlines det ++ '\n' :: render .groovyc is)
            = (errorHeader .groovyc f l col msg pad ++ '\n' :: unlines det) ++ '\n' :: render .groovyc is := by simp
        rw [h2, h1]; simp
      have hit := matchGroovy_hit f l col msg pad det (render .groovyc is) hf hl hmsg' hdet'
      rw [e2] at hit
      rw [e, e2, findAll_hit matchGroovy _ _ _ (by simp [errorHeader]) hit]
      rw [findAll_skip_nl hm (by decide), findAll_skip_nl hm (by decide), ih']
      simp [captured]
    | warning f l col msg pad det =>
      simp [wfItem] at hi
    | note t =>
      simp only [wfItem] at hi
      simp only [itemLines, expected]
      rw [findAll_skip_text hm _ _ (by simpa using hi), ih']
    | summary n =>
      simp only [wfItem, List.all_eq_true] at hi
      simp only [itemLines, expected]
      rw [findAll_skip_text hm _ _ hi, ih']

end Heph.Diag
