import Heph.Proofs.UnifySound
/-!
# C10: from the weak to the strict reading, and the hypotheses of the two variants

* `matches_strict`: when no assigned variable has a parameterized bound (`OpenStable`), a
  position treated as open is really left open by the assignment;
* `allMet_true`: the repaired variant needs no hypothesis;
* `allMet_and`: for the unchanged tree, `SameProjection ∧ NoStar` is what is needed.
-/
namespace Heph
namespace Unify
open Heph.Ty

theorem get_none_of_openStable {σ : UMap} (hs : OpenStable σ) {nm : String} {vr : Nat} {b : Ty}
    (hb : isParam b = true) : σ.get (tparam nm vr (some b)) = none := by
  unfold UMap.get
  have : σ.find? (fun p => beq p.1 (tparam nm vr (some b))) = none := by
    apply List.find?_eq_none.2
    intro e he hbeq
    have hst := hs e he
    obtain ⟨k, x⟩ := e
    cases k with
    | tparam nm' vr' bd' =>
      cases bd' with
      | none => simp [beq, beqO] at hbeq
      | some b' =>
        have h1 := hst b' rfl
        cases b with
        | param n c a s =>
          cases b' with
          | param n' c' a' s' => simp [isParam] at h1
          | _ => simp [beq, beqO] at hbeq
        | _ => simp [isParam] at hb
    | _ => simp [beq] at hbeq
  rw [this]; rfl

theorem matches_strict {σ : UMap} (hs : OpenStable σ) {t p : Ty} (h : Matches false σ t p) :
    Matches true σ t p := by
  refine Matches.rec (strict := false) (σ := σ)
    (motive_1 := fun t p _ => Matches true σ t p)
    (motive_2 := fun as bs _ => MatchesL true σ as bs)
    (motive_3 := fun a b _ => MatchesArg true σ a b)
    ?_ ?_ ?_ ?_ ?_ ?_ ?_ ?_ ?_ h
  · intro t p h1 h2; exact Matches.ground h1 h2
  · intro t p v h1 h2 h3; exact Matches.var h1 h2 h3
  · intro t nm vr b _ hb ht _ ih
    exact Matches.openVar (fun _ => get_none_of_openStable hs hb) hb ht ih
  · intro nm con as ss nm' con' bs ss' hc _ ih; exact Matches.app hc ih
  · intro bs; exact MatchesL.nil
  · intro a as b bs _ _ ih1 ih2; exact MatchesL.cons ih1 ih2
  · intro a b h1 h2; exact MatchesArg.same h1 h2
  · intro v a b _ ih; exact MatchesArg.proj ih
  · intro a b hw _ ih; exact MatchesArg.plain hw ih

theorem allMet_true : ∀ f, (∀ t p, allMetF f (fun _ _ => true) t p = true) ∧
    (∀ as bs, allMetL f (fun _ _ => true) as bs = true) := by
  intro f
  induction f with
  | zero => exact ⟨fun t p => by simp [allMetF], fun as bs => by simp [allMetL]⟩
  | succ f ih =>
    obtain ⟨ihF, ihL⟩ := ih
    constructor
    · intro t p
      simp only [allMetF, Bool.and_eq_true]
      constructor
      · split
        · exact ihF _ _
        · rfl
      · split
        · exact ihL _ _
        · rfl
    · intro as bs
      cases as with
      | nil => simp [allMetL]
      | cons a as =>
        cases bs with
        | nil => simp [allMetL]
        | cons b bs =>
          simp only [allMetL, Bool.and_eq_true]
          refine ⟨⟨trivial, ?_⟩, ihL _ _⟩
          split
          · exact ihF _ _
          · rfl

theorem allMet_and (c1 c2 : Ty → Ty → Bool) : ∀ f,
    (∀ t p, allMetF f c1 t p = true → allMetF f c2 t p = true →
      allMetF f (fun a b => c1 a b && c2 a b) t p = true) ∧
    (∀ as bs, allMetL f c1 as bs = true → allMetL f c2 as bs = true →
      allMetL f (fun a b => c1 a b && c2 a b) as bs = true) := by
  intro f
  induction f with
  | zero => exact ⟨fun t p _ _ => by simp [allMetF], fun as bs _ _ => by simp [allMetL]⟩
  | succ f ih =>
    obtain ⟨ihF, ihL⟩ := ih
    constructor
    · intro t p h1 h2
      simp only [allMetF, Bool.and_eq_true] at h1 h2 ⊢
      constructor
      · cases hl : (sups t).getLast? with
        | none => rfl
        | some s =>
          rw [hl] at h1 h2
          exact ihF s p h1.1 h2.1
      · cases t with
        | param nm con as ss =>
          cases p with
          | param nm' con' bs ss' => exact ihL as bs h1.2 h2.2
          | _ => rfl
        | _ => rfl
    · intro as bs h1 h2
      cases as with
      | nil => simp [allMetL]
      | cons a as =>
        cases bs with
        | nil => simp [allMetL]
        | cons b bs =>
          simp only [allMetL, Bool.and_eq_true] at h1 h2 ⊢
          refine ⟨⟨⟨h1.1.1, h2.1.1⟩, ?_⟩, ihL as bs h1.2 h2.2⟩
          cases hq : (unwrapPair a b).bind (fun q => recPair q.1 q.2) with
          | none => rfl
          | some q =>
            rw [hq] at h1 h2
            exact ihF q.1 q.2 h1.1.2 h2.1.2

end Unify
end Heph
