import Heph.Model.TransKotlin
/-! State discipline of the Kotlin translator model: what a visit leaves behind. -/
namespace Heph.TransKotlin
open Heph

mutual
/-- nodes whose visit leaves `ident = 0` behind: a super-class instantiation
    (`visit_super_instantiation` assigns `self.ident = 0` and never restores it) and a block
    (`visit_block` does not save `ident`) with such a statement -/
def leaks : Node → Bool
  | .superInst _ _ => true
  | .block body _ => leaksL body
  | _ => false
def leaksL : List Node → Bool
  | [] => false
  | x :: xs => leaks x || leaksL xs
end

def leaksO : Option Node → Bool | none => false | some x => leaks x

/-- the whole effect of a visit on the translator state -/
def eff (n : Node) (st : St) : St := { st with ident := bif leaks n then 0 else st.ident }
def effL (ns : List Node) (st : St) : St := { st with ident := bif leaksL ns then 0 else st.ident }
def effO (x : Option Node) (st : St) : St := { st with ident := bif leaksO x then 0 else st.ident }

@[simp] theorem pop_push (f : Frame) (st : St) : pop (push f st) = st := rfl

mutual
theorem visit_fst : ∀ (n : Node) (st : St), (visit st n).1 = eff n st
  | .block body isFunc, st => by
      simp only [visit, visitL_fst body, effL, eff, leaks, push, pop]; simp
  | .superInst t args, st => by
      simp only [visit, visitOL_fst args, effL, eff, leaks, push, pop]
      cases leaksL (args.getD []) <;> simp
  | .classDecl name ctype isFinal fields supers funcs tparams, st => by
      simp only [visit, visitL_fst fields, visitL_fst supers, visitL_fst funcs, effL, eff, leaks, push, pop]; simp
  | .varDecl name expr isFinal varType inferred, st => by
      simp only [visit, visit_fst expr, eff, leaks, push, pop]
      cases varType <;> simp
  | .callArg expr name, st => by
      simp only [visit, visit_fst expr, eff, leaks, push, pop]; simp
  | .fieldDecl .., st => by simp [visit, eff, leaks]
  | .paramDecl name t vararg dflt, st => by
      simp only [visit, visitO_fst dflt, effO, eff, leaks, push, pop]; simp
  | .funcDecl name params retType inferred body isFinal override tparams ft, st => by
      simp only [visit, visitL_fst params, visitO_fst body, effL, effO, eff, leaks, push, pop]
      cases isBlock body <;> simp
  | .lambda nm params retType body sig, st => by
      simp only [visit, visitL_fst params, visit_fst body, effL, eff, leaks, push, pop]
      cases isBlock (some body) <;> simp
  | .funcRef func receiver sig, st => by
      simp only [visit, visitO_fst receiver, effO, eff, leaks, push, pop]; simp
  | .bottom t, st => by simp [visit, eff, leaks]
  | .intC lit t, st => by simp [visit, eff, leaks]
  | .realC lit t, st => by simp [visit, eff, leaks]
  | .boolC lit, st => by simp [visit, eff, leaks]
  | .charC lit, st => by simp [visit, eff, leaks]
  | .stringC lit, st => by simp [visit, eff, leaks]
  | .arrayE t len exprs, st => by
      simp only [visit, eff, leaks]
      split
      · simp
      · simp only [visitL_fst exprs, effL, push, pop]; simp
  | .variable name, st => by simp [visit, eff, leaks]
  | .binop kind l r op, st => by
      simp only [visit, visit_fst l, visit_fst r, eff, leaks, push, pop]
      cases kind == "equality" <;> simp
  | .cond c t f ty, st => by
      simp only [visit, visit_fst c, visit_fst t, visit_fst f, eff, leaks, push, pop]; simp
  | .isE e t isNot, st => by
      simp only [visit, visit_fst e, eff, leaks, push, pop]; simp
  | .newE t args canInfer, st => by
      simp only [visit, visitL_fst args, effL, eff, leaks, push, pop]; simp
  | .fieldAccess e field, st => by
      simp only [visit, visit_fst e, eff, leaks, push, pop]; simp
  | .call func args receiver targs canInfer rc, st => by
      simp only [visit, visitO_fst receiver, visitL_fst args, effL, effO, eff, leaks, push, pop]; simp
  | .assign name expr receiver, st => by
      simp only [visit, visitO_fst receiver, visit_fst expr, effO, eff, leaks, push, pop]; simp
theorem visitL_fst : ∀ (ns : List Node) (st : St), (visitL st ns).1 = effL ns st
  | [], st => by simp [visitL, effL, leaksL]
  | x :: xs, st => by
      simp only [visitL, effL, eff, leaksL, visit_fst x, visitL_fst xs]
      cases leaks x <;> cases leaksL xs <;> simp
theorem visitO_fst : ∀ (x : Option Node) (st : St), (visitO st x).1 = effO x st
  | none, st => by simp [visitO, effO, leaksO]
  | some x, st => by simp only [visitO, effO, eff, leaksO, visit_fst x]
theorem visitOL_fst : ∀ (x : Option (List Node)) (st : St), (visitOL st x).1 = effL (x.getD []) st
  | none, st => by simp [visitOL, effL, leaksL]
  | some xs, st => by simp only [visitOL, Option.getD, visitL_fst xs]
end

end Heph.TransKotlin
