import Heph.Proofs.TypesBasic
/-!
# Soundness of the model of `is_subtype` w.r.t. the declarative relation `SubT` (C06)

Induction on the fuel, proving the statements for `isSub`, `nominal`, `containedL` and
`contained` simultaneously; one lemma per function ("step" lemmas take the statements at the
smaller fuel as hypotheses).
-/
namespace Heph
namespace Ty

variable {U : Ty → Prop}

def SoundS (U : Ty → Prop) (f : Nat) : Prop :=
  ∀ s t, U s → U t → wf s = true → wf t = true → isSub f s t = .yes → SubT U s t
def SoundN (U : Ty → Prop) (f : Nat) : Prop :=
  ∀ s t, U s → U t → wf s = true → wf t = true → nominal f s t = .yes → SubT U s t
def SoundCL (U : Ty → Prop) (f : Nat) : Prop :=
  ∀ tps as bs, (∀ a ∈ as, U a) → (∀ b ∈ bs, U b) → wfL as = true → wfL bs = true →
    projOK tps as = true → containedL f tps as bs = .yes → ContL U tps as bs
def SoundC (U : Ty → Prop) (f : Nat) : Prop :=
  ∀ a b tp, U a → U b → wf a = true → wf b = true → projOK1 tp a = true →
    contained f a b tp = .yes → Cont U tp a b

theorem isWild_false_of {a : Ty} (h : ∀ (v : Nat) (b : Option Ty), a = wild v b → False) :
    isWild a = false := by
  cases a <;> simp [isWild]
  exact h _ _ rfl

theorem ofBool_yes {b : Bool} (h : Res.ofBool b = .yes) : b = true := by
  cases b <;> simp [Res.ofBool] at h ⊢

/-- `_is_type_arg_contained` -/
theorem contained_step (hU : ClosedU U) {f : Nat} (ihS : SoundS U f) : SoundC U (f + 1) := by
  intro a b tp ua ub ha hb hp h
  simp only [contained] at h
  split at h
  · -- both arguments are projections
    split at h
    · have ⟨_, hwa⟩ := wf_wild ha
      have ⟨_, hwb⟩ := wf_wild hb
      have uwa := closedU_wild hU ua
      have uwb := closedU_wild hU ub
      split at h
      · rename_i hc
        simp only [Bool.and_eq_true, beq_iff_eq] at hc
        obtain ⟨rfl, rfl⟩ := hc
        exact Cont.outOut (ihS _ _ uwa uwb hwa hwb h)
      · split at h
        · rename_i hc
          simp only [Bool.and_eq_true, beq_iff_eq] at hc
          obtain ⟨rfl, rfl⟩ := hc
          exact Cont.inIn (ihS _ _ uwb uwa hwb hwa h)
        · cases h
    · exact Cont.star (Or.inr (by simp [boundOf]))
    · cases h
  · -- a projection against a proper type: decided by the declared variance
    rename_i v tb hnb
    have hbw := isWild_false_of hnb
    split at h
    · have ⟨_, hwa⟩ := wf_wild ha
      have uwa := closedU_wild hU ua
      have ⟨hv, hv2⟩ := projOK1_wild hp
      split at h
      · rename_i hc
        simp only [beq_iff_eq] at hc
        have : v = 1 := by rcases hv with hv | hv <;> omega
        subst this
        exact Cont.projDeclCo hc hbw (ihS _ _ uwa ub hwa hb h)
      · split at h
        · rename_i hc
          simp only [beq_iff_eq] at hc
          have : v = 2 := by rcases hv with hv | hv <;> omega
          subst this
          exact Cont.projDeclContra hc hbw (ihS _ _ ub uwa hb hwa h)
        · cases h
    · cases h
  · -- a proper type against a projection
    rename_i hna
    have haw := isWild_false_of hna
    split at h
    · have ⟨_, hwb⟩ := wf_wild hb
      have uwb := closedU_wild hU ub
      split at h
      · rename_i hc
        simp only [beq_iff_eq] at hc
        subst hc
        exact Cont.useOut haw (ihS _ _ ua uwb ha hwb h)
      · split at h
        · rename_i hc
          simp only [beq_iff_eq] at hc
          subst hc
          exact Cont.useIn haw (ihS _ _ uwb ua hwb ha h)
        · cases h
    · exact Cont.star (Or.inl haw)
  · -- two proper types: declaration-site variance
    rename_i hna hnb _
    have haw := isWild_false_of hna
    have hbw := isWild_false_of hnb
    split at h
    · exact Cont.same (ofBool_yes h)
    · rename_i hc0
      split at h
      · rename_i hc
        simp only [beq_iff_eq] at hc
        exact Cont.declCo hc haw hbw (ihS _ _ ua ub ha hb h)
      · rename_i hc1
        simp only [beq_iff_eq] at hc0 hc1
        have := projOK1_var hp
        exact Cont.declContra (by omega) haw hbw (ihS _ _ ub ua hb ha h)

/-- the `zip` loop -/
theorem containedL_step {f : Nat} (ihC : SoundC U f) (ihCL : SoundCL U f) : SoundCL U (f + 1) := by
  intro tps as bs ua ub hwa hwb hp h
  match tps, as, bs with
  | [], _, _ => exact ContL.stop (Or.inl rfl)
  | _ :: _, [], _ => exact ContL.stop (Or.inr (Or.inl rfl))
  | _ :: _, _ :: _, [] => exact ContL.stop (Or.inr (Or.inr rfl))
  | tp :: tps, a :: as, b :: bs =>
    simp only [containedL] at h
    have ⟨hwa1, hwa2⟩ := wfL_cons hwa
    have ⟨hwb1, hwb2⟩ := wfL_cons hwb
    have ⟨hp1, hp2⟩ := projOK_cons hp
    split at h
    · rename_i hc
      exact ContL.cons (ihC _ _ _ (ua a List.mem_cons_self) (ub b List.mem_cons_self) hwa1 hwb1 hp1 hc)
        (ihCL _ _ _ (fun x hx => ua x (List.mem_cons_of_mem _ hx))
          (fun x hx => ub x (List.mem_cons_of_mem _ hx)) hwa2 hwb2 hp2 h)
    · rename_i hne
      exact absurd h hne

/-- `SimpleClassifier.is_subtype` -/
theorem nominal_step (hU : ClosedU U) {f : Nat} (ihS : SoundS U f) : SoundN U (f + 1) := by
  intro s t us ut hs ht h
  simp only [nominal] at h
  split at h
  · rename_i hc
    exact SubT.reflR hc
  · obtain ⟨st, hst, hyes⟩ := anyRes_yes h
    have hmem : st ∈ closure s := (List.mem_filter.1 hst).1
    have hwst := wf_closure s st hs hmem
    have ust := closedU_closure hU s st us hmem
    have := ihS st t ust ut hwst ht hyes
    rcases closure_sub hU s st us hmem with rfl | hsub
    · exact this
    · exact SubT.trans ust hsub this

/-- dispatch on the class of the receiver -/
theorem isSub_step (hU : ClosedU U) {f : Nat} (ihS : SoundS U f) (ihN : SoundN U f)
    (ihCL : SoundCL U f) : SoundS U (f + 1) := by
  intro s t us ut hs ht h
  cases s with
  | nothing => exact SubT.bot
  | ext c => simp [isSub] at h
  | builtin c nm nt p ss =>
    simp only [isSub] at h
    split at h
    · rename_i hnt
      subst hnt
      exact SubT.botBuiltin
    · have h := ofBool_yes h
      simp only [Bool.or_eq_true] at h
      rcases h with h | h
      · exact SubT.reflR h
      · obtain ⟨e, he, hbeq⟩ := memBeq_iff.1 h
        rcases closure_sub hU _ e us he with rfl | hsub
        · exact SubT.refl hbeq
        · exact SubT.trans (closedU_closure hU _ e us he) hsub (SubT.refl hbeq)
  | simple nm ss =>
    simp only [isSub] at h
    exact ihN _ _ us ut hs ht h
  | tparam nm v bd =>
    simp only [isSub] at h
    split at h
    · cases h
    · exact SubT.trans (closedU_tparam hU us) SubT.tvar (SubT.refl (ofBool_yes h))
  | wild v bd =>
    simp only [isSub] at h
    split at h
    · split at h
      · rename_i hc
        simp only [Bool.and_eq_true, beq_iff_eq] at hc
        obtain ⟨rfl, rfl⟩ := hc
        split at h
        · exact SubT.projOut (ihS _ _ (closedU_wild hU us) (closedU_wild hU ut) (wf_wild hs).2 (wf_wild ht).2 h)
        · cases h
      · cases h
    · cases h
  | tcon c nm ps ss =>
    simp only [isSub] at h
    split at h
    · cases h
    · rename_i m hfind
      have hm : m ∈ closure (tcon c nm ps ss) := List.mem_of_find?_eq_some hfind
      have hbeq : beq t m = true := by simpa using List.find?_some hfind
      have : SubT U (tcon c nm ps ss) t := by
        rcases closure_sub hU _ m us hm with rfl | hsub
        · exact SubT.reflR hbeq
        · exact SubT.trans (closedU_closure hU _ m us hm) hsub (SubT.reflR hbeq)
      exact this
  | param nm con as ss =>
    simp only [isSub] at h
    split at h
    · rename_i hc
      exact ihN _ _ us ut hs ht hc
    · split at h
      · split at h
        · rename_i hc
          have ⟨_, hwa, _, hp⟩ := wf_param hs
          have ⟨_, hwb, _, _⟩ := wf_param ht
          exact SubT.args hc (ihCL _ _ _ (closedU_args hU us) (closedU_args hU ut) hwa hwb hp h)
        · cases h
      · cases h
    · rename_i hne _
      exact absurd h hne

theorem sound_all (hU : ClosedU U) : ∀ f, SoundS U f ∧ SoundN U f ∧ SoundCL U f ∧ SoundC U f := by
  intro f
  induction f with
  | zero =>
    refine ⟨?_, ?_, ?_, ?_⟩
    · intro s t _ _ _ _ h; simp [isSub] at h
    · intro s t _ _ _ _ h; simp [nominal] at h
    · intro tps as bs _ _ _ _ _ h; simp [containedL] at h
    · intro a b tp _ _ _ _ _ h; simp [contained] at h
  | succ f ih =>
    obtain ⟨ihS, ihN, ihCL, ihC⟩ := ih
    exact ⟨isSub_step hU ihS ihN ihCL, nominal_step hU ihS, containedL_step ihC ihCL, contained_step hU ihS⟩

end Ty
end Heph
