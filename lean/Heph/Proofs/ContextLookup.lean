import Heph.Proofs.ContextCurrent
/-! Scoped search (`innermost`) characterised declaratively; the module function `get_decl`
and the path mode of `_get_declarations` refine it. -/
namespace Heph.Context

/-! ## `innermost` is the longest non-empty prefix with a hit -/

theorem innermostRev_iff {α : Type} (g : Ns → Option α) (l : List String) (p : Ns) (a : α) :
    innermostRev g l = some (p, a) ↔
      p ≠ [] ∧ p <+: l.reverse ∧ g p = some a ∧
        ∀ q, p <+: q → q <+: l.reverse → q ≠ p → g q = none := by
  induction l with
  | nil =>
    simp only [innermostRev, List.reverse_nil, List.prefix_nil]
    constructor
    · intro h; cases h
    · rintro ⟨h1, h2, _⟩; exact absurd h2 h1
  | cons x rest ih =>
    have hrev : (x :: rest).reverse = rest.reverse ++ [x] := by simp
    cases hg : g (x :: rest).reverse with
    | some a' =>
      simp only [innermostRev, hg, Option.some.injEq, Prod.mk.injEq]
      constructor
      · rintro ⟨h1, h2⟩
        subst h1; subst h2
        refine ⟨by simp, List.prefix_rfl, hg, ?_⟩
        intro q h1 h2 h3
        exact absurd (h2.eq_of_length_le h1.length_le) h3
      · rintro ⟨_, h2, h3, h4⟩
        by_cases hp : (x :: rest).reverse = p
        · subst hp; rw [hg] at h3; exact ⟨rfl, Option.some.inj h3⟩
        · have := h4 _ h2 List.prefix_rfl hp
          rw [hg] at this; cases this
    | none =>
      simp only [innermostRev, hg]
      rw [ih, hrev]
      constructor
      · rintro ⟨h1, h2, h3, h4⟩
        refine ⟨h1, List.prefix_concat_iff.2 (Or.inr h2), h3, ?_⟩
        intro q hq1 hq2 hq3
        rcases List.prefix_concat_iff.1 hq2 with h | h
        · rw [h, ← hrev]; exact hg
        · exact h4 q hq1 h hq3
      · rintro ⟨h1, h2, h3, h4⟩
        have hp : p <+: rest.reverse := by
          rcases List.prefix_concat_iff.1 h2 with h | h
          · rw [h, ← hrev, hg] at h3; cases h3
          · exact h
        refine ⟨h1, hp, h3, ?_⟩
        intro q hq1 hq2 hq3
        exact h4 q hq1 (List.prefix_concat_iff.2 (Or.inr hq2)) hq3

/-- `innermost g ns = some (p, a)` iff `p` is a non-empty prefix of `ns` with `g p = some a`
    and no longer prefix of `ns` has a hit -/
theorem innermost_iff {α : Type} (g : Ns → Option α) (ns p : Ns) (a : α) :
    innermost g ns = some (p, a) ↔
      p ≠ [] ∧ p <+: ns ∧ g p = some a ∧ ∀ q, p <+: q → q <+: ns → q ≠ p → g q = none := by
  unfold innermost
  rw [innermostRev_iff, List.reverse_reverse]

theorem innermostRev_eq_none_iff {α : Type} (g : Ns → Option α) (l : List String) :
    innermostRev g l = none ↔ ∀ p, p ≠ [] → p <+: l.reverse → g p = none := by
  induction l with
  | nil =>
    simp only [innermostRev, List.reverse_nil, List.prefix_nil, true_iff]
    intro p h1 h2; exact absurd h2 h1
  | cons x rest ih =>
    have hrev : (x :: rest).reverse = rest.reverse ++ [x] := by simp
    cases hg : g (x :: rest).reverse with
    | some a' =>
      simp only [innermostRev, hg, reduceCtorEq, false_iff]
      intro h
      have := h (x :: rest).reverse (by simp) List.prefix_rfl
      rw [hg] at this; cases this
    | none =>
      simp only [innermostRev, hg]
      constructor
      · intro h0 p h1 h2
        rw [hrev] at h2
        rcases List.prefix_concat_iff.1 h2 with h3 | h3
        · rw [h3, ← hrev]; exact hg
        · exact ih.1 h0 p h1 h3
      · intro h
        apply ih.2
        intro p h1 h2
        apply h p h1
        rw [hrev]
        exact List.prefix_concat_iff.2 (Or.inr h2)

theorem innermost_eq_none_iff {α : Type} (g : Ns → Option α) (ns : Ns) :
    innermost g ns = none ↔ ∀ p, p ≠ [] → p <+: ns → g p = none := by
  unfold innermost
  rw [innermostRev_eq_none_iff, List.reverse_reverse]

/-! ## the local binding is the `decls` entry -/

theorem writes_decls (k : EKind) : writes k .decls = k.binds := by
  cases k <;> rfl

theorem specLocal_eq (ops : List Op) (ns : Ns) (name : String) :
    specLocal ops ns name = aGet (specCurrent ops ns .decls) name := by
  unfold specLocal specCurrent
  suffices ∀ (cur : Option Val) (acc : Dict), cur = aGet acc name →
      ops.foldl (fun cur op => match bindsDecl op ns name with | some b => b | none => cur) cur =
        aGet (ops.foldl (specStep ns .decls) acc) name from this none [] rfl
  induction ops with
  | nil => intro cur acc h; exact h
  | cons op r ih =>
    intro cur acc h
    simp only [List.foldl_cons]
    apply ih
    cases op with
    | add k ns' nm v =>
      simp only [bindsDecl, specStep, writes_decls]
      by_cases h1 : ns' = ns <;> by_cases h2 : k.binds <;> by_cases h3 : nm = name <;>
        simp [h1, h2, h3, aGet_aSet, h]
    | remove k ns' nm =>
      simp only [bindsDecl, specStep, writes_decls]
      by_cases h1 : ns' = ns <;> by_cases h2 : k.binds <;> by_cases h3 : nm = name <;>
        simp [h1, h2, h3, aGet_aDel, h]
    | removeNamespace ns' =>
      simp only [bindsDecl, specStep]
      by_cases h1 : ns' = ns <;> simp [h1, h]

/-! ## `prefix_lst` -/

theorem prefixLst_iff (p l : Ns) : prefixLst p l = true ↔ p ≠ [] ∧ p <+: l := by
  unfold prefixLst
  simp only [List.any_eq_true, List.mem_range, beq_iff_eq]
  constructor
  · rintro ⟨i, hi, h⟩
    refine ⟨?_, ?_⟩
    · intro hp; subst hp; simp at hi
    · rw [h]; exact List.take_prefix _ _
  · rintro ⟨h1, h2⟩
    refine ⟨p.length - 1, ?_, ?_⟩
    · cases p with
      | nil => exact absurd rfl h1
      | cons a r => simp
    · have : p.length - 1 + 1 = p.length := by
        cases p with
        | nil => exact absurd rfl h1
        | cons a r => simp
      rw [this]
      exact List.prefix_iff_eq_take.1 h2

theorem stopCond_nil (limit : Option Ns) : stopCond limit [] = false := by
  cases limit with
  | none => rfl
  | some l =>
    simp only [stopCond]
    cases h : prefixLst l [] with
    | false => rfl
    | true =>
      rw [prefixLst_iff] at h
      exact absurd (List.prefix_nil.1 h.2) h.1

/-! ## module function `get_decl` -/

theorem truthy_eq (v : Val) : v.truthy = !v.isNone := by cases v <;> rfl

theorem aGet_dropNone (d : Dict) (h : (aKeys d).Nodup) (name : String) :
    aGet (dropNone d) name =
      match aGet d name with
      | some v => if v.isNone then none else some v
      | none => none := by
  induction d with
  | nil => rfl
  | cons e r ih =>
    obtain ⟨a, b⟩ := e
    simp only [aKeys, List.map_cons, List.nodup_cons] at h
    have ih' := ih h.2
    unfold dropNone at ih' ⊢
    simp only [List.filter_cons, aGet_cons]
    by_cases hk : a = name
    · subst hk
      have hr : aGet r a = none := (aGet_eq_none_iff r a).2 h.1
      cases hb : b.isNone
      · simp [aGet_cons, hb]
      · simp only [Bool.not_true, Bool.false_eq_true, if_false, if_true]
        rw [ih', hr]
        simp [hb]
    · cases hb : b.isNone
      · simp [aGet_cons, hk, ih']
      · simp [hk, ih']

/-- what one round of the `while` loop of the module function `get_decl` finds in `p` -/
theorem round_eq (ops : List Op) (name : String) (p : Ns) :
    (match aGet (dropNone (current (run ops) p .decls)) name with
      | some v => if v.truthy then some v else none
      | none => none) = realDecl ops name p := by
  rw [aGet_dropNone _ (nodup_current_run ops p .decls), current_run, realDecl, specLocal_eq]
  cases aGet (specCurrent ops p .decls) name with
  | none => rfl
  | some v => cases v <;> rfl

theorem getDeclRev_none (ops : List Op) (name : String) (l : List String) :
    getDeclRev (run ops) name none l = innermostRev (realDecl ops name) l := by
  induction l with
  | nil => rfl
  | cons x rest ih =>
    have hs : stopCond none (x :: rest).reverse = true := by simp [stopCond]
    simp only [getDeclRev, hs, if_true, innermostRev]
    rw [← round_eq ops name (x :: rest).reverse, ih]
    cases aGet (dropNone (current (run ops) (x :: rest).reverse .decls)) name with
    | none => rfl
    | some v => cases hv : v.truthy <;> simp [hv]

theorem getDeclRev_limit (ops : List Op) (name : String) (limit : Ns) (l : List String) :
    getDeclRev (run ops) name (some limit) l = innermostRev (realDeclIn ops name limit) l := by
  induction l with
  | nil => rfl
  | cons x rest ih =>
    simp only [getDeclRev, innermostRev, stopCond]
    by_cases hs : prefixLst limit (x :: rest).reverse = true
    · have hs' := (prefixLst_iff _ _).1 hs
      have hg : realDeclIn ops name limit (x :: rest).reverse = realDecl ops name (x :: rest).reverse := by
        unfold realDeclIn; rw [if_pos hs']
      simp only [hs, ↓reduceIte]
      rw [hg, ← round_eq ops name (x :: rest).reverse, ih]
      cases aGet (dropNone (current (run ops) (x :: rest).reverse .decls)) name with
      | none => rfl
      | some v => cases hv : v.truthy <;> simp [hv]
    · have hs' : ¬ (limit ≠ [] ∧ limit <+: (x :: rest).reverse) := fun h => hs ((prefixLst_iff _ _).2 h)
      have hg : realDeclIn ops name limit (x :: rest).reverse = none := by
        unfold realDeclIn; rw [if_neg hs']
      simp only [hs]
      rw [hg]
      -- nothing further out can have `limit` as a prefix
      symm
      apply (innermostRev_eq_none_iff _ _).2
      intro p _ hp
      unfold realDeclIn
      rw [if_neg]
      rintro ⟨h1, h2⟩
      apply hs'
      refine ⟨h1, h2.trans (hp.trans ?_)⟩
      simp

end Heph.Context
