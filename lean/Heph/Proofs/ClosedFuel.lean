import Heph.Model.Scope
/-!
# Fuel adequacy of the class-hierarchy walk `hier`

`hierOfType` walks the superclass chain with fuel `tops.length + 1`.  If the class table admits a ranking — every
superclass reference of a declared class names a class of smaller rank (no inheritance cycle; e.g. the position of the
declaration when superclasses are declared first, as the generator does) — the walk never runs out of fuel: any fuel
above the rank of the class gives the same hierarchy.
-/
namespace Heph.Scope
open Heph

/-- every superclass reference of a declared class goes to a class name of smaller rank, whatever the substitution
    of the subclass's type parameters -/
def Ranked (tops : List Node) (rank : String → Nat) : Prop :=
  ∀ name c, findClass tops name = some c → ∀ s ∈ classSupers c, ∀ t, superType s = some t →
    ∀ m nm, tyClassName (substTy m t) = some nm → rank nm < rank name

theorem hier_fuel_irrelevant (tops : List Node) (rank : String → Nat) (hr : Ranked tops rank) :
    ∀ k name targs f1 f2, rank name < k → k ≤ f1 → k ≤ f2 → hier tops f1 name targs = hier tops f2 name targs := by
  intro k
  induction k with
  | zero => intro name targs f1 f2 h; omega
  | succ k ih =>
    intro name targs f1 f2 hrank h1 h2
    obtain ⟨g1, rfl⟩ : ∃ g, f1 = g + 1 := ⟨f1 - 1, by omega⟩
    obtain ⟨g2, rfl⟩ : ∃ g, f2 = g + 1 := ⟨f2 - 1, by omega⟩
    simp only [hier]
    cases hc : findClass tops name with
    | none => rfl
    | some c =>
      simp only
      congr 1
      -- the supers, one by one
      have key : ∀ ss m, (∀ s ∈ ss, s ∈ classSupers c) → hierSupers tops g1 m ss = hierSupers tops g2 m ss := by
        intro ss
        induction ss with
        | nil => intro m _; simp [hierSupers]
        | cons s ss ihs =>
          intro m hss
          simp only [hierSupers]
          rw [ihs m (fun x hx => hss x (List.mem_cons_of_mem _ hx))]
          congr 1
          cases ht : superType s with
          | none => rfl
          | some t =>
            simp only
            cases hn : tyClassName (substTy m t) with
            | none => rfl
            | some nm =>
              simp only
              have := hr name c hc s (hss s List.mem_cons_self) t ht m nm hn
              exact ih nm _ g1 g2 (by omega) (by omega) (by omega)
      exact key _ _ (fun s hs => hs)

/-- **fuel adequacy**: with a ranking, any fuel above the rank of the class computes the same hierarchy as the least
    sufficient fuel — the walk did not stop for lack of fuel -/
theorem hier_fuel_adequate (tops : List Node) (rank : String → Nat) (hr : Ranked tops rank) (name : String)
    (targs : List Ty) (fuel : Nat) (h : rank name < fuel) :
    hier tops fuel name targs = hier tops (rank name + 1) name targs :=
  hier_fuel_irrelevant tops rank hr (rank name + 1) name targs fuel (rank name + 1) (by omega) (by omega) (by omega)

/-- for the fuel `hierOfType` picks: adequate whenever the ranks stay within the number of declarations -/
theorem hierOfType_fuel_adequate (tops : List Node) (rank : String → Nat) (hr : Ranked tops rank)
    (hb : ∀ name, rank name ≤ tops.length) (t : Ty) (more : Nat) :
    hierOfType tops (some t) =
      match tyClassName t with
      | none => []
      | some nm => hier tops (tops.length + 1 + more) nm (tyArgs t) := by
  simp only [hierOfType]
  cases hn : tyClassName t with
  | none => rfl
  | some nm =>
    simp only
    exact hier_fuel_irrelevant tops rank hr (rank nm + 1) nm _ _ _ (by omega) (by have := hb nm; omega)
      (by have := hb nm; omega)

end Heph.Scope
