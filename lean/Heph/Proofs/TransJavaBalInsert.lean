import Heph.Proofs.TransJavaBal
/-! Inserting a neutral text into a neutral text (`add_string_at` with the `Type x_N = ` sugar of
`visit_block`, whose type name may contain `[]`): lemmas prepared for the block case of the
balance proof, which is not yet part of the proved fragment. -/
namespace Heph.TransJava
set_option linter.unusedSimpArgs false

theorem scan_append (a b : List Char) : ∀ st, scan st (a ++ b) = (scan st a).bind (fun st' => scan st' b) := by
  induction a with
  | nil => intro st; rfl
  | cons c cs ih =>
    intro st
    simp only [List.cons_append, scan]
    split
    · exact ih _
    · split
      · split
        · split
          · exact ih _
          · rfl
        · rfl
      · exact ih _

theorem neutral_insert {s sub : String} (pos : Nat) (h : Neutral s) (hs : Neutral sub) :
    Neutral (addStringAt s sub pos) := by
  intro st rest
  have e1 : brs (addStringAt s sub pos) = (s.toList.take pos).filter isBr ++ (brs sub ++ (s.toList.drop pos).filter isBr) := by
    simp [brs, addStringAt, String.toList_ofList, List.filter_append]
  have e2 : brs s = (s.toList.take pos).filter isBr ++ (s.toList.drop pos).filter isBr := by
    simp only [brs]; rw [← List.filter_append, List.take_append_drop]
  rw [e1, List.append_assoc, scan_append]
  have : ∀ st', scan st' ((brs sub ++ List.filter isBr (List.drop pos s.toList)) ++ rest)
      = scan st' (List.filter isBr (List.drop pos s.toList) ++ rest) := by
    intro st'; rw [List.append_assoc, hs]
  simp only [this]
  rw [← scan_append, ← List.append_assoc, ← e2]
  exact h st rest

end Heph.TransJava
