import Heph.Proofs.TransJavaBalFunc
/-! Full balance proof, `visit_class_decl`: header with type parameters, `extends` / `implements`
lists, the constructor built by `construct_constructor` (whose `super(...)` arguments are printed by
a fresh translator), fields and methods. -/
namespace Heph.TransJava
open Heph
set_option linter.unusedSimpArgs false
set_option linter.unusedVariables false
set_option linter.unusedSectionVars false

theorem classifySupers_ok (e : Env) (ns : List String) {supers : List Node} (hs : AtomsOKL supers) :
    ∀ p ∈ classifySupers e ns supers, Neutral p.1 := by
  intro p hp
  unfold classifySupers at hp
  simp only at hp
  obtain ⟨s, hs', hsp⟩ := List.mem_filterMap.mp hp
  have hsok := AtomsOKL.mem hs s hs'
  cases s <;> simp only at hsp <;> try cases hsp
  atoms_unfold hsok
  exact (TyOK.ofWF hsok.1).name _ _

theorem ctorParams_ok {fields : List Node} (hf : AtomsOKL fields) :
    ∀ q ∈ ctorParams fields, BrFree q.1 ∧ Neutral q.2 := by
  unfold ctorParams
  suffices h : ∀ (acc : List (String × String)), (∀ q ∈ acc, BrFree q.1 ∧ Neutral q.2) →
      ∀ q ∈ fields.foldl (fun a f => match f with
        | .fieldDecl name t _ _ _ =>
            if a.any (fun q => q.1 == name) then a.map (fun q => if q.1 == name then (name, typeName t false false) else q)
            else a ++ [(name, typeName t false false)]
        | _ => a) acc, BrFree q.1 ∧ Neutral q.2 from h [] (by intro q hq; cases hq)
  induction fields with
  | nil => intro acc h; exact h
  | cons f fs ih =>
    intro acc hacc
    simp only [List.foldl_cons]
    apply ih (AtomsOKL.cons hf).2
    have hfok := (AtomsOKL.cons hf).1
    split
    · rename_i name t _ _ _
      atoms_unfold hfok
      have hq : BrFree name ∧ Neutral (typeName t false false) := ⟨BrFree.ofB hfok.1, (TyOK.ofWF hfok.2).name _ _⟩
      split
      · intro q hq'
        obtain ⟨q0, hq0, rfl⟩ := List.mem_map.mp hq'
        split
        · exact hq
        · exact hacc q0 hq0
      · intro q hq'
        rcases List.mem_append.mp hq' with hq' | hq'
        · exact hacc q hq'
        · simp only [List.mem_singleton] at hq'; rw [hq']; exact hq
    · exact hacc

theorem neutral_ctorText (ident : Nat) {name : String} (hname : BrFree name) {fields : List Node}
    (hf : AtomsOKL fields) (supers : List Node) {superArgs : Text} (hsa : Neutral superArgs) :
    Neutral (ctorText ident name fields supers superArgs) := by
  have hname := hname.neutral
  unfold ctorText
  simp only
  have hparams : Neutral (join "," ((ctorParams fields).map fun p => p.2 ++ " " ++ p.1)) := by
    apply neutral_join (by decide)
    intro x hx
    obtain ⟨q, hq, rfl⟩ := List.mem_map.mp hx
    have := ctorParams_ok hf q hq
    exact neutral_append (neutral_append this.2 (BrFree.neutral (by decide))) this.1.neutral
  have hfs : ∀ x ∈ fields.map (fun fd => "this." ++ declName fd ++ " = " ++ declName fd ++ ";"), Neutral x := by
    intro x hx
    obtain ⟨fd, hfd, rfl⟩ := List.mem_map.mp hx
    have := (brFree_declName (AtomsOKL.mem hf fd hfd)).neutral
    generalize declName fd = dn at this
    fin_neutral [this.eq]
  have hcf : Neutral ((if !(fields.map fun fd => "this." ++ declName fd ++ " = " ++ declName fd ++ ";").isEmpty then "\n" ++ sp (ident + 2) else "") ++
      join ("\n" ++ sp (ident + 2)) (fields.map fun fd => "this." ++ declName fd ++ " = " ++ declName fd ++ ";")) := by
    apply neutral_append
    · split
      · exact BrFree.neutral (brFree_append (by decide) (brs_sp _))
      · exact neutral_empty
    · exact neutral_join (brFree_append (by decide) (brs_sp _)) hfs
  have hend : Neutral (if !(fields.map fun fd => "this." ++ declName fd ++ " = " ++ declName fd ++ ";").isEmpty then sp ident else "") := by
    split
    · exact neutral_sp _
    · exact neutral_empty
  generalize join "," ((ctorParams fields).map fun p => p.2 ++ " " ++ p.1) = ps at hparams
  generalize ((if !(fields.map fun fd => "this." ++ declName fd ++ " = " ++ declName fd ++ ";").isEmpty then "\n" ++ sp (ident + 2) else "") ++
      join ("\n" ++ sp (ident + 2)) (fields.map fun fd => "this." ++ declName fd ++ " = " ++ declName fd ++ ";")) = cf at hcf
  generalize (if !(fields.map fun fd => "this." ++ declName fd ++ " = " ++ declName fd ++ ";").isEmpty then sp ident else "") = en at hend
  cases hh : supers.head? with
  | none => fin_neutral [hname.eq, hparams.eq, hcf.eq, hend.eq]
  | some s0 =>
    cases s0 with
    | superInst t args =>
      simp only
      split
      · fin_neutral [hname.eq, hparams.eq, hcf.eq, hend.eq, hsa.eq]
      · fin_neutral [hname.eq, hparams.eq, hcf.eq, hend.eq]
    | _ => fin_neutral [hname.eq, hparams.eq, hcf.eq, hend.eq]

theorem neutral_ite {c : Prop} [Decidable c] {a b : String} (ha : Neutral a) (hb : Neutral b) :
    Neutral (if c then a else b) := by
  split
  · exact ha
  · exact hb

theorem neutral_lit {s : String} (h : BrFree s) : Neutral s := h.neutral

/-- the text leaves one `{` open -/
def Opens (b : String) : Prop := ∀ st rest, scan st (brs b ++ rest) = scan ('}' :: st) rest

theorem opens_brace : Opens " {\n" := by
  intro st rest
  have e1 : brs " {\n" = ['{'] := by decide
  rw [e1]; rfl

theorem Opens.append {b a : String} (hb : Opens b) (ha : Neutral a) : Opens (b ++ a) := by
  intro st rest
  rw [brs_append, List.append_assoc, hb, ha]

theorem Opens.close {b : String} (hb : Opens b) {n : Nat} (hz : brs (sp n) = []) : Neutral (b ++ "\n" ++ sp n ++ "}") := by
  intro st rest
  simp only [brs_append, List.append_assoc]
  have e1 : brs "\n" = [] := by decide
  have e2 : brs "}" = ['}'] := by decide
  rw [hb, e1, hz, e2]
  simp

theorem neutral_classText (old ident : Nat) {name : String} (hname : BrFree name) (ctype : Nat) (isFinal : Bool)
    {tparams : List Ty} (htp : ∀ t ∈ tparams, TyOK t) {classify : List (String × Option Bool)}
    (hcl : ∀ p ∈ classify, Neutral p.1) {ctor : Text} (hctor : Neutral ctor) {fieldRes funcRes : List Text}
    (hfr : ∀ r ∈ fieldRes, Neutral r) (hfu : ∀ r ∈ funcRes, Neutral r) :
    Neutral (classText old ident name ctype isFinal tparams classify ctor fieldRes funcRes) := by
  have hname := hname.neutral
  unfold classText
  simp only
  have htpr : Neutral (join ", " (tparams.map typeParamStr)) := by
    apply neutral_join (by decide)
    intro x hx
    obtain ⟨t, ht, rfl⟩ := List.mem_map.mp hx
    exact (htp t ht).tparam
  have hsup : Neutral (join ", " ((classify.filter fun p => p.2 != some true).map (·.1))) := by
    apply neutral_join (by decide)
    intro x hx
    obtain ⟨p, hp, rfl⟩ := List.mem_map.mp hx
    exact hcl p (List.mem_filter.mp hp).1
  have hint : Neutral (join ", " ((classify.filter fun p => p.2 == some true).map (·.1))) := by
    apply neutral_join (by decide)
    intro x hx
    obtain ⟨p, hp, rfl⟩ := List.mem_map.mp hx
    exact hcl p (List.mem_filter.mp hp).1
  generalize join ", " (tparams.map typeParamStr) = tpr at htpr
  generalize (classify.filter fun p => p.2 != some true).map (·.1) = superclasses at hsup
  generalize (classify.filter fun p => p.2 == some true).map (·.1) = interfaces at hint
  split
  · exact neutral_err (by decide)
  · -- header
    have h0 : Neutral (sp old ++ (if isFinal then "final " else "") ++
        (if ctype == 0 then "class" else if ctype == 1 then "interface" else "abstract class") ++ " " ++ name) := by
      refine neutral_append (neutral_append (neutral_append (neutral_append (neutral_sp _) ?_) ?_) (neutral_lit (by decide))) hname
      · exact neutral_ite (neutral_lit (by decide)) (neutral_lit (by decide))
      · exact neutral_ite (neutral_lit (by decide)) (neutral_ite (neutral_lit (by decide)) (neutral_lit (by decide)))
    generalize (sp old ++ (if isFinal then "final " else "") ++
        (if ctype == 0 then "class" else if ctype == 1 then "interface" else "abstract class") ++ " " ++ name) = r0 at h0
    have h1 : Neutral (if tpr != "" then r0 ++ "<" ++ tpr ++ ">" else r0) :=
      neutral_ite (by fin_neutral [h0.eq, htpr.eq]) h0
    generalize (if tpr != "" then r0 ++ "<" ++ tpr ++ ">" else r0) = r1 at h1
    have h2 : Neutral (if !superclasses.isEmpty then r1 ++ " extends " ++ join ", " superclasses else r1) :=
      neutral_ite (neutral_append (neutral_append h1 (neutral_lit (by decide))) hsup) h1
    generalize (if !superclasses.isEmpty then r1 ++ " extends " ++ join ", " superclasses else r1) = r2 at h2
    have h3 : Neutral (if !interfaces.isEmpty then
        r2 ++ (if ctype == 1 then " extends " else " implements ") ++ join ", " interfaces else r2) :=
      neutral_ite (neutral_append (neutral_append h2 (neutral_ite (neutral_lit (by decide)) (neutral_lit (by decide)))) hint) h2
    generalize (if !interfaces.isEmpty then
        r2 ++ (if ctype == 1 then " extends " else " implements ") ++ join ", " interfaces else r2) = r3 at h3
    apply neutral_append h3
    -- body
    split
    · have hjf := neutral_join (sep := "\n" ++ sp ident) (brFree_append (by decide) (brs_sp _)) hfr
      have hju := neutral_join (sep := "\n\n") (by decide) hfu
      generalize join ("\n" ++ sp ident) fieldRes = jf at hjf
      generalize join "\n\n" funcRes = ju at hju
      have b1 : Opens (if !fieldRes.isEmpty then " {\n" ++ sp ident ++ jf ++ "\n\n" else " {\n") := by
        split
        · exact ((opens_brace.append (neutral_sp _)).append hjf).append (neutral_lit (by decide))
        · exact opens_brace
      generalize (if !fieldRes.isEmpty then " {\n" ++ sp ident ++ jf ++ "\n\n" else " {\n") = x1 at b1
      have b2 : Opens (if !superclasses.isEmpty || !fieldRes.isEmpty then
          x1 ++ ctor ++ (if !funcRes.isEmpty then "\n\n" else "") else x1) := by
        split
        · exact (b1.append hctor).append (neutral_ite (neutral_lit (by decide)) (neutral_lit (by decide)))
        · exact b1
      generalize (if !superclasses.isEmpty || !fieldRes.isEmpty then
          x1 ++ ctor ++ (if !funcRes.isEmpty then "\n\n" else "") else x1) = x2 at b2
      have b3 : Opens (if !funcRes.isEmpty then x2 ++ ju else x2) := by
        split
        · exact b2.append hju
        · exact b2
      generalize (if !funcRes.isEmpty then x2 ++ ju else x2) = x3 at b3
      exact b3.close (brs_sp _)
    · intro st rest
      have e1 : brs " {}" = ['{', '}'] := by decide
      rw [e1]; simp

theorem ok2_classDecl (e : Env) {v : St → Node → St × Text} (hv : VOK2 v) (st : St) (hst : StOK2 st)
    (name : String) (ctype : Nat) (isFinal : Bool) (fields supers funcs : List Node) (tparams : List Ty)
    (hn : AtomsOK (.classDecl name ctype isFinal fields supers funcs tparams)) :
    StOK2 (visitNode e v st (.classDecl name ctype isFinal fields supers funcs tparams)).1 ∧
      Neutral (visitNode e v st (.classDecl name ctype isFinal fields supers funcs tparams)).2 := by
  atoms_unfold hn
  obtain ⟨⟨⟨⟨hname, hfields⟩, hsupers⟩, hfuncs⟩, htps⟩ := hn
  have hname := BrFree.ofB hname
  have htps : ∀ t ∈ tparams, TyOK t := fun t ht => TyOK.ofWF ((WFL_iff _).1 htps t ht)
  simp only [visitNode]
  have h1 := visitL_ok2 hv fields { st with ns := st.ns ++ [name], ident := st.ident + 2 } (hst.with_eq rfl rfl rfl) hfields
  generalize visitL v { st with ns := st.ns ++ [name], ident := st.ident + 2 } fields = p1 at h1
  obtain ⟨s1, fieldRes⟩ := p1
  simp only at h1 ⊢
  have h2 := visitL_ok2 hv supers s1 h1.1 hsupers
  generalize visitL v s1 supers = p2 at h2
  obtain ⟨s2, superRes⟩ := p2
  simp only at h2 ⊢
  have h3 := visitL_ok2 hv funcs s2 h2.1 hfuncs
  generalize visitL v s2 funcs = p3 at h3
  obtain ⟨s3, funcRes⟩ := p3
  simp only at h3 ⊢
  refine ⟨h3.1.with_eq rfl rfl rfl, ?_⟩
  apply neutral_classText _ _ hname _ _ htps (classifySupers_ok e _ hsupers) _ h1.2.1 h3.2.1
  apply neutral_ctorText _ hname hfields
  -- the arguments of `super(...)`, printed by a fresh translator
  cases supers with
  | nil => exact neutral_empty
  | cons s0 rest =>
    have hs0 := (AtomsOKL.cons hsupers).1
    cases s0 with
    | superInst t args =>
      atoms_unfold hs0
      cases args with
      | none => exact neutral_empty
      | some as =>
        cases as with
        | nil => exact neutral_empty
        | cons a as' =>
          simp only [List.head?_cons]
          apply neutral_collapseWs
          apply neutral_join (by decide)
          exact (visitL_ok2 hv (a :: as') _ (stOK2_fresh _ _) hs0.2).2.1
    | _ => exact neutral_empty

end Heph.TransJava
