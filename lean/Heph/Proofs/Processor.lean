import Heph.Model.Processor
/-! Lemmas about `Heph/Model/Processor.lean` used by `Props/C18.lean` (termination of the
    correctness-preserving loop) and `Props/C13.lean` (replay starts from the stored program). -/
namespace Heph.Processor

/-! ## the heap -/
theorem read_alloc [Inhabited P] (h : Heap P) (p : P) : (h.alloc p).1.read (h.alloc p).2 = p := by
  simp [Heap.alloc, Heap.read]

theorem alloc_addr (h : Heap P) (p : P) : (h.alloc p).2 = h.cells.length := rfl

theorem alloc_size (h : Heap P) (p : P) : (h.alloc p).1.cells.length = h.cells.length + 1 := by
  simp [Heap.alloc]

theorem write_size (h : Heap P) (a : Nat) (p : P) : (h.write a p).cells.length = h.cells.length := by
  simp [Heap.write]

/-! ## a step that succeeds advances the counter -/

/-- what the loop needs of `transform_program`: whenever it RETURNS (a pair or `None`), the counter has
    advanced by one and the schedule is the same -/
def StepAdvances [Inhabited P] (step : Step P) : Prop :=
  ∀ (beh : Beh P) (w : World P) (pr : Proc) (a : Nat) (x : Option (Nat × String)),
    (step beh w pr a).2.2 = .ok x →
      (step beh w pr a).2.1.cur = pr.cur + 1 ∧ (step beh w pr a).2.1.schedule = pr.schedule

theorem transformProgram_advances [Inhabited P] : StepAdvances (transformProgram (P := P)) := by
  intro beh w pr a x hx
  unfold transformProgram at hx ⊢
  cases hs : pr.schedule[pr.cur]? with
  | none => simp [hs] at hx
  | some name =>
    simp only [hs] at hx ⊢
    rcases happ : applyTransformation beh w pr.pid name (pr.cur + 1) a with ⟨w', r⟩
    cases r with
    | error e => simp [happ] at hx
    | ok v =>
      obtain ⟨a', t, info⟩ := v
      cases t <;> simp

theorem transformProgram_error_keeps [Inhabited P] (beh : Beh P) (w : World P) (pr : Proc) (a : Nat) (e : String)
    (h : (transformProgram beh w pr a).2.2 = .error e) : (transformProgram beh w pr a).2.1 = pr := by
  unfold transformProgram at h ⊢
  cases hs : pr.schedule[pr.cur]? with
  | none => simp
  | some name =>
    simp only [hs] at h ⊢
    rcases happ : applyTransformation beh w pr.pid name (pr.cur + 1) a with ⟨w', r⟩
    cases r with
    | error e => simp
    | ok v =>
      obtain ⟨a', t, info⟩ := v
      cases t <;> simp [happ] at h

/-! ## the loop -/

/-- with an advancing step and more fuel than transformations left, the loop ends by itself, after at most
    (on success: exactly) as many `transform_program` calls as transformations were left -/
theorem cpLoop_spec [Inhabited P] (step : Step P) (hstep : StepAdvances step) (beh : Beh P) (keepAll : Bool) :
    ∀ (fuel : Nat) (w : World P) (pr : Proc) (a : Nat) (ps : Option P) (n : Nat),
      pr.schedule.length - pr.cur < fuel →
      (cpLoop step beh keepAll fuel w pr a ps n).status ≠ .fuel ∧
      (cpLoop step beh keepAll fuel w pr a ps n).steps ≤ n + (pr.schedule.length - pr.cur) ∧
      ((cpLoop step beh keepAll fuel w pr a ps n).status = .done →
        (cpLoop step beh keepAll fuel w pr a ps n).steps = n + (pr.schedule.length - pr.cur) ∧
        (cpLoop step beh keepAll fuel w pr a ps n).proc.cur = max pr.cur pr.schedule.length ∧
        (cpLoop step beh keepAll fuel w pr a ps n).proc.schedule = pr.schedule) := by
  intro fuel
  induction fuel with
  | zero => intro w pr a ps n h; omega
  | succ f ih =>
    intro w pr a ps n h
    unfold cpLoop
    by_cases hc : pr.canTransform = true
    · have hlt : pr.cur < pr.schedule.length := by simpa [Proc.canTransform] using hc
      simp only [hc, if_true]
      rcases hst : step beh w pr a with ⟨w', pr', r⟩
      cases r with
      | error e =>
        exact ⟨by simp, by simp; omega, by simp⟩
      | ok x =>
        have hadv := hstep beh w pr a x (by rw [hst])
        rw [hst] at hadv
        simp only at hadv
        obtain ⟨hcur, hsch⟩ := hadv
        have hlen : pr'.schedule.length = pr.schedule.length := by rw [hsch]
        have hfuel : pr'.schedule.length - pr'.cur < f := by omega
        cases x with
        | none =>
          have := ih w' pr' a ps (n + 1) hfuel
          simp only
          refine ⟨this.1, by omega, fun hd => ?_⟩
          have := this.2.2 hd
          exact ⟨by omega, by omega, this.2.2.trans hsch⟩
        | some v =>
          obtain ⟨a', info⟩ := v
          simp only
          cases keepAll with
          | true =>
            simp only [if_true]
            have := ih (w'.save (.transformation pr'.pid (pr'.cur - 1)) (w'.heap.read a') (w'.heap.read a')) pr' a'
              (some (w'.heap.read a')) (n + 1) hfuel
            refine ⟨this.1, by omega, fun hd => ?_⟩
            have := this.2.2 hd
            exact ⟨by omega, by omega, this.2.2.trans hsch⟩
          | false =>
            simp only [Bool.false_eq_true, if_false]
            have := ih w' pr' a' ps (n + 1) hfuel
            refine ⟨this.1, by omega, fun hd => ?_⟩
            have := this.2.2 hd
            exact ⟨by omega, by omega, this.2.2.trans hsch⟩
    · have hge : pr.schedule.length ≤ pr.cur := by
        simp [Proc.canTransform] at hc; omega
      simp only [hc, Bool.false_eq_true, if_false]
      exact ⟨by simp, by omega, fun _ => ⟨by omega, by omega, by first | rfl | trivial⟩⟩

end Heph.Processor
