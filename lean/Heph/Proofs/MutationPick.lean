import Heph.Model.Mutation
/-!
# The search of `TypeErasure.visit_func_decl` against the explicit enumeration

`searchFrom` (the model's loop, which never builds the list of combinations) is `firstOk` over
`allCombos` (= `itertools.chain.from_iterable(combinations(xs, r) for r in range(len(xs), 0, -1))`,
checked against itertools by the harness); `firstOk` finds the first element that tests true.
-/
namespace Heph.Mut

variable {α : Type}

/-- continue a search: what the loops do with the result of the first part -/
def SRes.andThen (r : SRes α) (f : Nat → Nat → SRes α) : SRes α :=
  match r with
  | .next b k => f b k
  | res => res

theorem firstOk_append (p : List α → Except FErr Bool) :
    ∀ (l1 l2 : List (List α)) (b k : Nat),
      firstOk p (l1 ++ l2) b k = (firstOk p l1 b k).andThen (firstOk p l2)
  | [], l2, b, k => by simp [firstOk, SRes.andThen]
  | c :: cs, l2, 0, k => by simp [firstOk, SRes.andThen]
  | c :: cs, l2, b + 1, k => by
    simp only [List.cons_append, firstOk]
    cases p c with
    | error e => simp [SRes.andThen]
    | ok v =>
      cases v with
      | true => simp [SRes.andThen]
      | false => simpa using firstOk_append p cs l2 b (k + 1)

theorem searchR_eq (p : List α → Except FErr Bool) :
    ∀ (r : Nat) (xs acc : List α) (b k : Nat),
      searchR p r xs acc b k = firstOk p ((combos r xs).map (acc.reverse ++ ·)) b k
  | 0, xs, acc, b, k => by
    cases b with
    | zero => simp [searchR, combos, firstOk]
    | succ b =>
      simp only [searchR, combos, List.map_cons, List.map_nil, List.append_nil, firstOk]
  | r + 1, [], acc, b, k => by simp [searchR, combos, firstOk]
  | r + 1, x :: xs, acc, b, k => by
    have h1 := searchR_eq p r xs (x :: acc)
    have h2 := searchR_eq p (r + 1) xs acc
    simp only [searchR, combos, List.map_append, List.map_map]
    rw [firstOk_append, h1]
    have hm : (combos r xs).map (fun c => (x :: acc).reverse ++ c) =
        (combos r xs).map ((fun c => acc.reverse ++ c) ∘ fun c => x :: c) := by
      apply List.map_congr_left
      intro c _
      simp
    rw [hm]
    cases firstOk p ((combos r xs).map ((fun c => acc.reverse ++ c) ∘ fun c => x :: c)) b k with
    | next b' k' => simpa [SRes.andThen] using h2 b' k'
    | found c n => simp [SRes.andThen]
    | cutoff n => simp [SRes.andThen]
    | err e => simp [SRes.andThen]

theorem searchFrom_eq (p : List α → Except FErr Bool) (xs : List α) :
    ∀ (r b k : Nat), searchFrom p xs r b k = firstOk p (combosFrom r xs) b k
  | 0, b, k => by simp [searchFrom, combosFrom, firstOk]
  | r + 1, b, k => by
    have ih := searchFrom_eq p xs r
    simp only [searchFrom, combosFrom]
    rw [firstOk_append, searchR_eq]
    simp only [List.reverse_nil, List.nil_append, List.map_id']
    cases firstOk p (combos (r + 1) xs) b k with
    | next b' k' => simpa [SRes.andThen] using ih b' k'
    | found c n => simp [SRes.andThen]
    | cutoff n => simp [SRes.andThen]
    | err e => simp [SRes.andThen]

/-- what `firstOk` finds is the first element of the list that tests true -/
theorem firstOk_found (p : List α → Except FErr Bool) :
    ∀ (l : List (List α)) (b k : Nat) (c : List α) (n : Nat), firstOk p l b k = .found c n →
      ∃ pre post, l = pre ++ c :: post ∧ p c = .ok true ∧ (∀ c' ∈ pre, p c' = .ok false) ∧
        n = k + pre.length + 1 ∧ pre.length < b
  | [], b, k, c, n, h => by simp [firstOk] at h
  | c0 :: cs, 0, k, c, n, h => by simp [firstOk] at h
  | c0 :: cs, b + 1, k, c, n, h => by
    simp only [firstOk] at h
    cases hp : p c0 with
    | error e => rw [hp] at h; cases h
    | ok v =>
      rw [hp] at h
      cases v with
      | true =>
        simp only [SRes.found.injEq] at h
        obtain ⟨rfl, rfl⟩ := h
        exact ⟨[], cs, rfl, hp, by simp, by simp, by simp⟩
      | false =>
        simp only at h
        obtain ⟨pre, post, hl, hc, hpre, hn, hb⟩ := firstOk_found p cs b (k + 1) c n h
        refine ⟨c0 :: pre, post, by simp [hl], hc, ?_, ?_, ?_⟩
        · intro c' hc'
          rcases List.mem_cons.1 hc' with rfl | hc'
          · exact hp
          · exact hpre c' hc'
        · simp only [List.length_cons]; omega
        · simp only [List.length_cons]; omega

/-- when `firstOk` exhausts the list, every element tested false -/
theorem firstOk_next (p : List α → Except FErr Bool) :
    ∀ (l : List (List α)) (b k b' k' : Nat), firstOk p l b k = .next b' k' →
      (∀ c ∈ l, p c = .ok false) ∧ k' = k + l.length
  | [], b, k, b', k', h => by
    simp only [firstOk, SRes.next.injEq] at h
    simp [h.2]
  | c0 :: cs, 0, k, b', k', h => by simp [firstOk] at h
  | c0 :: cs, b + 1, k, b', k', h => by
    simp only [firstOk] at h
    cases hp : p c0 with
    | error e => rw [hp] at h; cases h
    | ok v =>
      rw [hp] at h
      cases v with
      | true => cases h
      | false =>
        simp only at h
        obtain ⟨h1, h2⟩ := firstOk_next p cs b (k + 1) b' k' h
        refine ⟨?_, by simp only [List.length_cons]; omega⟩
        intro c hc
        rcases List.mem_cons.1 hc with rfl | hc
        · exact hp
        · exact h1 c hc

end Heph.Mut

namespace Heph.Mut

/-- every combination enumerated is a sub-list (order kept) of the given list, of the asked size -/
theorem combos_sublist {α : Type} : ∀ (r : Nat) (xs c : List α), c ∈ combos r xs → c.Sublist xs ∧ c.length = r
  | 0, xs, c, h => by
    simp only [combos, List.mem_singleton] at h
    subst h
    exact ⟨List.nil_sublist _, rfl⟩
  | r + 1, [], c, h => by simp [combos] at h
  | r + 1, x :: xs, c, h => by
    simp only [combos, List.mem_append, List.mem_map] at h
    rcases h with ⟨c', hc', rfl⟩ | h
    · obtain ⟨h1, h2⟩ := combos_sublist r xs c' hc'
      exact ⟨h1.cons_cons x, by simp [h2]⟩
    · obtain ⟨h1, h2⟩ := combos_sublist (r + 1) xs c h
      exact ⟨h1.cons x, h2⟩

theorem combosFrom_sublist {α : Type} : ∀ (r : Nat) (xs c : List α), c ∈ combosFrom r xs →
    c.Sublist xs ∧ 0 < c.length ∧ c.length ≤ r
  | 0, xs, c, h => by simp [combosFrom] at h
  | r + 1, xs, c, h => by
    simp only [combosFrom, List.mem_append] at h
    rcases h with h | h
    · obtain ⟨h1, h2⟩ := combos_sublist (r + 1) xs c h
      exact ⟨h1, by omega, by omega⟩
    · obtain ⟨h1, h2, h3⟩ := combosFrom_sublist r xs c h
      exact ⟨h1, h2, by omega⟩

end Heph.Mut
