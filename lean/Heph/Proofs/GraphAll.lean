import Heph.Proofs.GraphBfs
import Mathlib.Data.List.Nodup
/-!
# The comprehension queries `find_all_bi_reachable`, `find_all_connected`, `none_reachable`,
`none_connected`
-/
namespace Heph.Graph

def allMStep (f : Nat → Option Bool) (acc : Option (List Nat)) (n : Nat) : Option (List Nat) :=
  match acc, f n with
  | some l, some true => some (l ++ [n])
  | some l, some false => some l
  | _, _ => none

theorem allM_eq (xs : List Nat) (f : Nat → Option Bool) :
    allM xs f = xs.foldl (allMStep f) (some []) := rfl

theorem foldl_allMStep (f : Nat → Option Bool) : ∀ (xs acc : List Nat), (∀ n ∈ xs, f n ≠ none) →
    xs.foldl (allMStep f) (some acc) = some (acc ++ xs.filter fun n => f n == some true) := by
  intro xs
  induction xs with
  | nil => intro acc _; simp
  | cons a xs ih =>
    intro acc h
    have ha := h a (by simp)
    have hxs : ∀ n ∈ xs, f n ≠ none := fun n hn => h n (List.mem_cons_of_mem _ hn)
    rw [List.foldl_cons]
    match hfa : f a with
    | none => exact absurd hfa ha
    | some true =>
      simp only [allMStep, hfa]
      rw [ih _ hxs]
      simp [hfa]
    | some false =>
      simp only [allMStep, hfa]
      rw [ih _ hxs]
      simp [hfa]

theorem allM_correct (xs : List Nat) (f : Nat → Option Bool) (h : ∀ n ∈ xs, f n ≠ none)
    (hx : xs.Nodup) :
    ∃ l, allM xs f = some l ∧ l.Nodup ∧ ∀ x, x ∈ l ↔ x ∈ xs ∧ f x = some true := by
  refine ⟨xs.filter fun n => f n == some true, ?_, hx.filter _, ?_⟩
  · rw [allM_eq, foldl_allMStep f xs [] h]; simp
  · intro x; simp [List.mem_filter]

theorem anyM_correct (f : Nat → Option Bool) : ∀ (xs : List Nat), (∀ n ∈ xs, f n ≠ none) →
    (anyM xs f = some true ∧ ∃ x ∈ xs, f x = some true) ∨
    (anyM xs f = some false ∧ ¬ ∃ x ∈ xs, f x = some true) := by
  intro xs
  induction xs with
  | nil => intro _; right; simp [anyM]
  | cons a xs ih =>
    intro h
    have ha := h a (by simp)
    have hxs : ∀ n ∈ xs, f n ≠ none := fun n hn => h n (List.mem_cons_of_mem _ hn)
    match hfa : f a with
    | none => exact absurd hfa ha
    | some true => left; simp [anyM, hfa]
    | some false =>
      rcases ih hxs with h' | h'
      · left
        obtain ⟨x, hx, hfx⟩ := h'.2
        exact ⟨by simp [anyM, hfa, h'.1], x, List.mem_cons_of_mem _ hx, hfx⟩
      · right
        refine ⟨by simp [anyM, hfa, h'.1], ?_⟩
        rintro ⟨x, hx, hfx⟩
        rcases List.mem_cons.1 hx with rfl | hx
        · rw [hfa] at hfx; simp at hfx
        · exact h'.2 ⟨x, hx, hfx⟩

theorem biReachable_ne_none {g : Graph} (hg : WFG g) (s d : Nat) : biReachable g s d ≠ none := by
  rcases biReachable_correct hg s d with h | h <;> simp [h.1]

theorem biReachable_true_iff {g : Graph} (hg : WFG g) (s d : Nat) :
    biReachable g s d = some true ↔ BiReach g s d := by
  rcases biReachable_correct hg s d with h | h <;> simp [h.1, h.2]

theorem connected_ne_none {g : Graph} (hg : WFG g) (s d : Nat) : connected g s d ≠ none := by
  rcases connected_correct hg s d with h | h <;> simp [h.1]

theorem connected_true_iff {g : Graph} (hg : WFG g) (s d : Nat) :
    connected g s d = some true ↔ s ∈ keys g ∧ Conn g s d := by
  rcases connected_correct hg s d with h | h <;> simp [h.1, h.2]

theorem findAllBiReachable_correct {g : Graph} (hg : WFG g) (v : Nat) :
    ∃ l, findAllBiReachable g v = some l ∧ l.Nodup ∧ ∀ x, x ∈ l ↔ x ∈ keys g ∧ BiReach g v x := by
  obtain ⟨l, h1, h2, h3⟩ := allM_correct (keys g) (fun n => biReachable g v n)
    (fun n _ => biReachable_ne_none hg v n) hg
  refine ⟨l, h1, h2, ?_⟩
  intro x; rw [h3, biReachable_true_iff hg]

theorem findAllConnected_correct {g : Graph} (hg : WFG g) (v : Nat) :
    ∃ l, findAllConnected g v = some l ∧ l.Nodup ∧
      ∀ x, x ∈ l ↔ x ∈ keys g ∧ v ∈ keys g ∧ Conn g v x := by
  obtain ⟨l, h1, h2, h3⟩ := allM_correct (keys g) (fun n => connected g v n)
    (fun n _ => connected_ne_none hg v n) hg
  refine ⟨l, h1, h2, ?_⟩
  intro x; rw [h3, connected_true_iff hg]

theorem noneReachable_correct {g : Graph} (hg : WFG g) (v nn : Nat) :
    (noneReachable g v nn = some true ∧ ∃ x ∈ keys g, BiReach g v x ∧ BiReach g x nn) ∨
    (noneReachable g v nn = some false ∧ ¬ ∃ x ∈ keys g, BiReach g v x ∧ BiReach g x nn) := by
  obtain ⟨l, h1, _, h3⟩ := findAllBiReachable_correct hg v
  unfold noneReachable
  rw [h1]
  simp only
  rcases anyM_correct (fun x => biReachable g x nn) l (fun n _ => biReachable_ne_none hg n nn)
    with h | h
  · left
    obtain ⟨x, hx, hb⟩ := h.2
    exact ⟨h.1, x, ((h3 x).1 hx).1, ((h3 x).1 hx).2, (biReachable_true_iff hg x nn).1 hb⟩
  · right
    refine ⟨h.1, ?_⟩
    rintro ⟨x, hx, h4, h5⟩
    exact h.2 ⟨x, (h3 x).2 ⟨hx, h4⟩, (biReachable_true_iff hg x nn).2 h5⟩

theorem Conn.trans {g : Graph} {a b c : Nat} (h1 : Conn g a b) (h2 : Conn g b c) : Conn g a c := by
  induction h2 with
  | refl => exact h1
  | step _ h3 ih => exact Conn.step ih h3

theorem noneConnected_correct {g : Graph} (hg : WFG g) (v nn : Nat) :
    (noneConnected g v nn = some true ∧ (v ∈ keys g ∧ Conn g v nn)) ∨
    (noneConnected g v nn = some false ∧ ¬ (v ∈ keys g ∧ Conn g v nn)) := by
  obtain ⟨l, h1, _, h3⟩ := findAllConnected_correct hg v
  unfold noneConnected
  rw [h1]
  simp only
  rcases anyM_correct (fun x => connected g x nn) l (fun n _ => connected_ne_none hg n nn)
    with h | h
  · left
    obtain ⟨x, hx, hb⟩ := h.2
    have hx' := (h3 x).1 hx
    exact ⟨h.1, hx'.2.1, hx'.2.2.trans ((connected_true_iff hg x nn).1 hb).2⟩
  · right
    refine ⟨h.1, ?_⟩
    rintro ⟨hv, hc⟩
    exact h.2 ⟨v, (h3 v).2 ⟨hv, hv, Conn.refl v⟩, (connected_true_iff hg v nn).2 ⟨hv, hc⟩⟩

end Heph.Graph
