import Heph.Proofs.DiagHdr
/-! javac and kotlinc: one diagnostic per line. `findAll` over a rendered batch returns exactly
the error items, in order. -/
namespace Heph.Diag

theorem fileOK_split {c : Compiler} {f : List Char} (h : fileOK c f = true) :
    ∃ stem, f = stem ++ '.' :: ext c ∧ stem ≠ [] ∧ ∀ x ∈ stem, isClsJ x = true := by
  unfold fileOK at h
  simp only [Bool.and_eq_true, Bool.not_eq_true', beq_iff_eq, List.all_eq_true] at h
  obtain ⟨⟨h1, h2⟩, h3⟩ := h
  generalize f.length - ('.' :: ext c).length = n at h1 h2 h3
  refine ⟨f.take n, ?_, ?_, h2⟩
  · have := (List.take_append_drop n f).symm
    rw [h3] at this; exact this
  · intro h0; rw [h0] at h1; simp at h1

theorem digitsOK_spec {d : List Char} (h : digitsOK d = true) :
    d ≠ [] ∧ (∀ c ∈ d, isDigitPy c = true) ∧ '\n' ∉ d := by
  unfold digitsOK at h
  simp only [Bool.and_eq_true, Bool.not_eq_true', List.all_eq_true] at h
  refine ⟨?_, fun c hc => isDigitPy_of_isDigit c (h.2 c hc), ?_⟩
  · intro h0; rw [h0] at h; simp at h
  · intro hm
    have := h.2 _ hm
    revert this; decide

theorem textOK_spec {c : Compiler} {l : List Char} (h : textOK c l = true) :
    '\n' ∉ l ∧ hasInfix (key c) l = false ∧ lineCrash c l = false := by
  unfold textOK at h
  simp only [Bool.and_eq_true, Bool.not_eq_true'] at h
  exact ⟨by simpa using h.1.1, h.1.2, h.2⟩

theorem render_cons (c : Compiler) (i : Item) (is : List Item) :
    render c (i :: is) = unlines (itemLines c i) ++ render c is := by
  simp [render, unlines_append]

/-- skipping a newline -/
theorem findAll_skip_nl {α} {m : List Char → Option (α × Nat)} {K : List Char}
    (hm : KeyLocal m K) (hK : K ≠ []) (rest : List Char) :
    findAll m ('\n' :: rest) = findAll m rest := by
  have := findAll_skip_line hm [] [] rest (List.suffix_refl _) (by simp)
    (by cases K with
        | nil => exact absurd rfl hK
        | cons _ _ => rfl)
  simpa using this

/-! ## javac -/

theorem javaShape_hit (line msg : List Char) (hl : digitsOK line = true) :
    javaShape (line ++ ": error: ".toList ++ msg) = true := by
  obtain ⟨hne, hd, _⟩ := digitsOK_spec hl
  unfold javaShape
  have e : line ++ ": error: ".toList ++ msg
      = line ++ ':' :: (' ' :: 'e' :: ("rror: ".toList ++ msg)) := by simp
  rw [e, digits1_append line ':' _ hne hd isDigitPy_colon]
  simp only [bind, Option.bind]
  simp only [eat, beq_self_eq_true, if_true]
  rw [spaces1_single 'e' _ (by decide)]
  simp [eat, spaces1]

theorem javaTail_hit (line msg R : List Char) (hl : digitsOK line = true) (hm : '\n' ∉ msg) :
    javaTail (line ++ ": error: ".toList ++ msg ++ '\n' :: R)
      = some (line ++ ": error: ".toList ++ msg, (line ++ ": error: ".toList ++ msg).length) := by
  have hnl : '\n' ∉ line ++ ": error: ".toList ++ msg := by
    obtain ⟨_, _, h3⟩ := digitsOK_spec hl
    simp only [List.mem_append, not_or]
    exact ⟨⟨h3, by decide⟩, hm⟩
  unfold javaTail
  simp only [firstLine_append_nl _ R hnl, afterLine_append_nl _ R hnl, javaShape_hit line msg hl]
  simp

theorem matchJava_hit (f line col msg : List Char) (pad : Nat) (R : List Char)
    (hf : fileOK .javac f = true) (hl : digitsOK line = true) (hm : '\n' ∉ msg) :
    matchJava (errorHeader .javac f line col msg pad ++ '\n' :: R)
      = some ((f, line ++ ": error: ".toList ++ msg), (errorHeader .javac f line col msg pad).length) := by
  obtain ⟨stem, hf1, hf2, hf3⟩ := fileOK_split hf
  have ht := javaTail_hit line msg R hl hm
  have := matchHdr_hit isClsJ "java".toList javaTail stem _ _ _ hf2 hf3 isClsJ_dot ht
  unfold matchJava
  have e : errorHeader .javac f line col msg pad ++ '\n' :: R
      = stem ++ '.' :: ("java".toList ++ ':' :: (line ++ ": error: ".toList ++ msg ++ '\n' :: R)) := by
    simp [errorHeader, hf1, ext]
  rw [e, this, hf1]
  simp only [errorHeader, ext, Option.some.injEq, Prod.mk.injEq, true_and]
  simp only [List.length_append, List.length_cons]
  omega

theorem findAll_skip_text {α} {c : Compiler} {m : List Char → Option (α × Nat)}
    (hm : KeyLocal m (key c)) (ls : List (List Char)) (rest : List Char)
    (h : ∀ l ∈ ls, textOK c l = true) :
    findAll m (unlines ls ++ rest) = findAll m rest :=
  findAll_skip_lines hm ls rest (fun l hl => ⟨(textOK_spec (h l hl)).1, (textOK_spec (h l hl)).2.1⟩)

theorem findAll_render_java (is : List Item) (h : ∀ i ∈ is, WFItem .javac i) :
    findAll matchJava (render .javac is) = expected .javac is := by
  have hm : KeyLocal matchJava (key .javac) := matchJava_keyLocal
  induction is with
  | nil => rfl
  | cons i is ih =>
    have hi : wfItem .javac i = true := h i (by simp)
    have ih' := ih (fun j hj => h j (by simp [hj]))
    rw [render_cons]
    cases i with
    | error f l col msg pad det =>
      simp only [wfItem, Bool.and_eq_true, Bool.not_eq_true', detailOK, List.all_eq_true] at hi
      obtain ⟨⟨⟨⟨⟨hf, hl⟩, _⟩, hmsg⟩, _⟩, hdet⟩ := hi
      have hmsg' : '\n' ∉ msg := by simpa using hmsg
      simp only [itemLines, expected, captured]
      have e : unlines (errorHeader .javac f l col msg pad :: (det ++ if Compiler.javac = Compiler.groovyc then [[]] else []))
            ++ render .javac is
          = errorHeader .javac f l col msg pad ++ '\n' :: (unlines det ++ render .javac is) := by
        simp [unlines_cons]
      rw [e, findAll_hit matchJava _ _ _ (by simp [errorHeader]) (matchJava_hit f l col msg pad _ hf hl hmsg')]
      rw [findAll_skip_nl hm (by decide), findAll_skip_text hm det _ hdet, ih']
    | warning f l col msg pad det =>
      simp only [wfItem, Bool.and_eq_true, List.all_eq_true] at hi
      simp only [itemLines, expected]
      rw [findAll_skip_text hm _ _ hi.2, ih']
    | note t =>
      simp only [wfItem] at hi
      simp only [itemLines, expected]
      rw [findAll_skip_text hm _ _ (by simpa using hi), ih']
    | summary n =>
      simp only [wfItem, List.all_eq_true] at hi
      simp only [itemLines, expected]
      rw [findAll_skip_text hm _ _ hi, ih']

/-! ## kotlinc -/

theorem kotlinMsg_hit (line col msg : List Char) (hl : digitsOK line = true) (hc : digitsOK col = true) :
    kotlinMsg (line ++ ':' :: (col ++ ": error: ".toList ++ msg)) = some (msg.dropWhile (· == ' ')) := by
  obtain ⟨hne, hd, _⟩ := digitsOK_spec hl
  obtain ⟨hne2, hd2, _⟩ := digitsOK_spec hc
  unfold kotlinMsg
  rw [digits1_append line ':' _ hne hd isDigitPy_colon]
  have e : col ++ ": error: ".toList ++ msg
      = col ++ ':' :: (' ' :: 'e' :: ("rror: ".toList ++ msg)) := by simp
  simp only [bind, Option.bind]
  simp only [eat, beq_self_eq_true, if_true]
  rw [e, digits1_append col ':' _ hne2 hd2 isDigitPy_colon]
  simp only [eat, beq_self_eq_true, if_true]
  rw [spaces1_single 'e' _ (by decide)]
  simp [eat, spaces1]

theorem kotlinTail_hit (line col msg R : List Char) (hl : digitsOK line = true)
    (hc : digitsOK col = true) (hm : '\n' ∉ msg) :
    kotlinTail (line ++ ':' :: (col ++ ": error: ".toList ++ msg) ++ '\n' :: R)
      = some (msg.dropWhile (· == ' '), (line ++ ':' :: (col ++ ": error: ".toList ++ msg)).length) := by
  have hnl : '\n' ∉ line ++ ':' :: (col ++ ": error: ".toList ++ msg) := by
    obtain ⟨_, _, h3⟩ := digitsOK_spec hl
    obtain ⟨_, _, h4⟩ := digitsOK_spec hc
    simp only [List.mem_append, List.mem_cons, not_or]
    exact ⟨h3, by decide, ⟨h4, by decide⟩, hm⟩
  unfold kotlinTail
  simp only [firstLine_append_nl _ R hnl, kotlinMsg_hit line col msg hl hc]

theorem matchKotlin_hit (f line col msg : List Char) (pad : Nat) (R : List Char)
    (hf : fileOK .kotlinc f = true) (hl : digitsOK line = true) (hc : digitsOK col = true)
    (hm : '\n' ∉ msg) :
    matchKotlin (errorHeader .kotlinc f line col msg pad ++ '\n' :: R)
      = some ((f, msg.dropWhile (· == ' ')), (errorHeader .kotlinc f line col msg pad).length) := by
  obtain ⟨stem, hf1, hf2, hf3⟩ := fileOK_split hf
  have ht := kotlinTail_hit line col msg R hl hc hm
  have := matchHdr_hit isClsJ "kt".toList kotlinTail stem _ _ _ hf2 hf3 isClsJ_dot ht
  unfold matchKotlin
  have e : errorHeader .kotlinc f line col msg pad ++ '\n' :: R
      = stem ++ '.' :: ("kt".toList ++ ':' :: (line ++ ':' :: (col ++ ": error: ".toList ++ msg) ++ '\n' :: R)) := by
    simp [errorHeader, hf1, ext]
  rw [e, this, hf1]
  simp only [errorHeader, ext, Option.some.injEq, Prod.mk.injEq, true_and]
  simp only [List.length_append, List.length_cons]
  omega

theorem findAll_render_kotlin (is : List Item) (h : ∀ i ∈ is, WFItem .kotlinc i) :
    findAll matchKotlin (render .kotlinc is) = expected .kotlinc is := by
  have hm : KeyLocal matchKotlin (key .kotlinc) := matchKotlin_keyLocal
  induction is with
  | nil => rfl
  | cons i is ih =>
    have hi : wfItem .kotlinc i = true := h i (by simp)
    have ih' := ih (fun j hj => h j (by simp [hj]))
    rw [render_cons]
    cases i with
    | error f l col msg pad det =>
      simp only [wfItem, Bool.and_eq_true, Bool.not_eq_true', detailOK, List.all_eq_true] at hi
      obtain ⟨⟨⟨⟨⟨hf, hl⟩, hcol⟩, hmsg⟩, _⟩, hdet⟩ := hi
      have hcol' : digitsOK col = true := by simpa using hcol
      have hmsg' : '\n' ∉ msg := by simpa using hmsg
      simp only [itemLines, expected, captured]
      have e : unlines (errorHeader .kotlinc f l col msg pad :: (det ++ if Compiler.kotlinc = Compiler.groovyc then [[]] else []))
            ++ render .kotlinc is
          = errorHeader .kotlinc f l col msg pad ++ '\n' :: (unlines det ++ render .kotlinc is) := by
        simp [unlines_cons]
      rw [e, findAll_hit matchKotlin _ _ _ (by simp [errorHeader]) (matchKotlin_hit f l col msg pad _ hf hl hcol' hmsg')]
      rw [findAll_skip_nl hm (by decide), findAll_skip_text hm det _ hdet, ih']
    | warning f l col msg pad det =>
      simp only [wfItem, Bool.and_eq_true, List.all_eq_true] at hi
      simp only [itemLines, expected]
      rw [findAll_skip_text hm _ _ hi.2, ih']
    | note t =>
      simp only [wfItem] at hi
      simp only [itemLines, expected]
      rw [findAll_skip_text hm _ _ (by simpa using hi), ih']
    | summary n =>
      simp only [wfItem, List.all_eq_true] at hi
      simp only [itemLines, expected]
      rw [findAll_skip_text hm _ _ hi, ih']

end Heph.Diag
