import Heph.Proofs.PickleIso
/-! `dump` is invariant under isomorphism (C13): a simulation between two runs of the pickler. -/
namespace Heph.Pickle

def OptRel {α β : Type} (R : α → β → Prop) : Option α → Option β → Prop
  | none, none => True
  | some x, some y => R x y
  | _, _ => False

/-- the two pickler states agree on everything the traversal can observe -/
structure SimRel (f : Nat → Option Nat) (hs hs' : Nat) (st st' : DState) : Prop where
  n_eq : st.n = st'.n
  out_eq : st.out = st'.out
  get_eq : ∀ a a', f a = some a' → st.get a = st'.get a'
  sz : st.tbl.size = hs
  sz' : st'.tbl.size = hs'

theorem get_emit (st : DState) (op : Op) (a : Nat) : (st.emit op).get a = st.get a := rfl

theorem get_memoize (st : DState) (a b : Nat) (ha : a < st.tbl.size) :
    (st.memoize a).get b = if b = a then some st.n else st.get b := by
  simp only [DState.get, DState.memoize]
  by_cases hba : b = a
  · subst hba
    simp [ha]
  · have : ¬ a = b := fun e => hba e.symm
    simp [hba, this]

variable {f : Nat → Option Nat} {hs hs' : Nat}

theorem SimRel.emit {st st' : DState} (h : SimRel f hs hs' st st') (op : Op) :
    SimRel f hs hs' (st.emit op) (st'.emit op) :=
  ⟨h.n_eq, by simp [DState.emit, h.out_eq], fun a a' e => by rw [get_emit, get_emit]; exact h.get_eq a a' e, h.sz, h.sz'⟩

theorem SimRel.memoize {st st' : DState} (h : SimRel f hs hs' st st')
    (inj : ∀ a b c, f a = some c → f b = some c → a = b)
    {a a' : Nat} (hf : f a = some a') (ha : a < hs) (ha' : a' < hs') :
    SimRel f hs hs' (st.memoize a) (st'.memoize a') := by
  refine ⟨by simp [DState.memoize, h.n_eq], by simp [DState.memoize, h.out_eq], ?_, by simp [DState.memoize, h.sz],
    by simp [DState.memoize, h.sz']⟩
  intro b b' hb
  rw [get_memoize _ _ _ (h.sz ▸ ha), get_memoize _ _ _ (h.sz' ▸ ha')]
  by_cases hba : b = a
  · subst hba
    have : b' = a' := by rw [hf] at hb; exact (Option.some.inj hb).symm
    simp [this, h.n_eq]
  · have : b' ≠ a' := fun e => hba (inj b a a' (e ▸ hb) hf)
    simp [hba, this, h.get_eq b b' hb]

theorem SimRel.emitPops {st st' : DState} (h : SimRel f hs hs' st st') (k : Nat) :
    SimRel f hs hs' (emitPops st k) (emitPops st' k) := by
  induction k generalizing st st' with
  | zero => exact h
  | succ k ih => exact ih (h.emit .pop)

theorem SimRel.trailing {st st' : DState} (h : SimRel f hs hs' st st') (len : Nat) (op : Op) :
    SimRel f hs hs' (trailingBatch len op st) (trailingBatch len op st') := by
  unfold trailingBatch
  split
  · exact (h.emit .mark).emit op
  · exact h

theorem OptRel.map_emit {x : Option DState} {y : Option DState} (h : OptRel (SimRel f hs hs') x y) (op : Op) :
    OptRel (SimRel f hs hs') (x.map (·.emit op)) (y.map (·.emit op)) := by
  cases x <;> cases y <;> simp_all [OptRel]
  exact h.emit op

/-- elements of two related containers, written by related element writers -/
theorem saveItems_sim {α β : Type} {R : α → β → Prop} {se : α → DState → Option DState} {se' : β → DState → Option DState}
    (hse : ∀ x y st st', R x y → SimRel f hs hs' st st' → OptRel (SimRel f hs hs') (se x st) (se' y st'))
    (single multi : Op) (style : Style) {xs : List α} {ys : List β} (hr : AllRel R xs ys) :
    ∀ (i : Nat) (st st' : DState), SimRel f hs hs' st st' →
      OptRel (SimRel f hs hs') (saveItems se single multi style i xs st) (saveItems se' single multi style i ys st') := by
  induction hr with
  | nil => intro i st st' h; simpa [saveItems, OptRel] using h
  | @cons a b as bs hab hrest ih =>
    intro i st st' h
    unfold saveItems
    simp only [hrest.isEmpty_eq]
    by_cases hc : (i % BATCH == 0 && bs.isEmpty && singleFormOK style i) = true
    · rw [if_pos hc, if_pos hc]
      exact OptRel.map_emit (hse a b st st' hab h) single
    · rw [if_neg hc, if_neg hc]
      have h1 : SimRel f hs hs' (if (i % BATCH == 0) = true then st.emit .mark else st)
          (if (i % BATCH == 0) = true then st'.emit .mark else st') := by
        split
        · exact h.emit .mark
        · exact h
      have h2 := hse a b _ _ hab h1
      cases hx : se a (if (i % BATCH == 0) = true then st.emit .mark else st) with
      | none =>
        cases hy : se' b (if (i % BATCH == 0) = true then st'.emit .mark else st') with
        | none => simp [OptRel]
        | some y => rw [hx, hy] at h2; exact h2.elim
      | some x =>
        cases hy : se' b (if (i % BATCH == 0) = true then st'.emit .mark else st') with
        | none => rw [hx, hy] at h2; exact h2.elim
        | some y =>
          rw [hx, hy] at h2
          simp only []
          apply ih
          split
          · exact h2.emit multi
          · exact h2


theorem OptRel.of_some {x y : DState} (h : SimRel f hs hs' x y) : OptRel (SimRel f hs hs') (some x) (some y) := h

theorem foldlM_sim {h h' : Heap} {fuel : Nat}
    (ih : ∀ v v' st st', ValRel f v v' → SimRel f hs hs' st st' →
      OptRel (SimRel f hs hs') (save h fuel v st) (save h' fuel v' st'))
    {xs ys : List Val} (hr : AllRel (ValRel f) xs ys) :
    ∀ st st', SimRel f hs hs' st st' →
      OptRel (SimRel f hs hs') (xs.foldlM (fun st x => save h fuel x st) st)
        (ys.foldlM (fun st x => save h' fuel x st) st') := by
  induction hr with
  | nil => intro st st' hst; simpa [OptRel] using hst
  | @cons a b as bs hab _ ihl =>
    intro st st' hst
    simp only [List.foldlM_cons]
    have h1 := ih a b st st' hab hst
    cases hx : save h fuel a st with
    | none =>
      cases hy : save h' fuel b st' with
      | none => simp [OptRel]
      | some y => rw [hx, hy] at h1; exact h1.elim
    | some x =>
      cases hy : save h' fuel b st' with
      | none => rw [hx, hy] at h1; exact h1.elim
      | some y =>
        rw [hx, hy] at h1
        simp only [Option.bind_eq_bind, Option.bind_some]
        exact ihl x y h1

theorem pair_sim {h h' : Heap} {fuel : Nat}
    (ih : ∀ v v' st st', ValRel f v v' → SimRel f hs hs' st st' →
      OptRel (SimRel f hs hs') (save h fuel v st) (save h' fuel v' st'))
    (p q : Val × Val) (st st' : DState) (hp : PairRel f p q) (hst : SimRel f hs hs' st st') :
    OptRel (SimRel f hs hs') ((save h fuel p.1 st).bind (save h fuel p.2))
      ((save h' fuel q.1 st').bind (save h' fuel q.2)) := by
  have h1 := ih p.1 q.1 st st' hp.1 hst
  cases hx : save h fuel p.1 st with
  | none =>
    cases hy : save h' fuel q.1 st' with
    | none => simp [OptRel]
    | some y => rw [hx, hy] at h1; exact h1.elim
  | some x =>
    cases hy : save h' fuel q.1 st' with
    | none => rw [hx, hy] at h1; exact h1.elim
    | some y =>
      rw [hx, hy] at h1
      simp only [Option.bind_some]
      exact ih p.2 q.2 x y hp.2 h1

theorem OptRel.map_trailing {x y : Option DState} (h : OptRel (SimRel f hs hs') x y) (len : Nat) (op : Op) :
    OptRel (SimRel f hs hs') (x.map (trailingBatch len op)) (y.map (trailingBatch len op)) := by
  cases x <;> cases y <;> simp_all [OptRel]
  exact h.trailing len op

theorem save_imm_sim {h h' : Heap} (fuel : Nat) {v v' : Val} {st st' : DState} (hv : ValRel f v v')
    (hnr : ∀ a, v ≠ .ref a) (hst : SimRel f hs hs' st st') :
    OptRel (SimRel f hs hs') (save h fuel v st) (save h' fuel v' st') := by
  cases v <;> cases v' <;> simp [ValRel] at hv <;> try (exact absurd rfl (hnr _))
  all_goals (try subst hv)
  all_goals (cases fuel <;> simp only [save] <;> exact hst.emit _)

theorem lt_size_of_getElem? {h : Heap} {a : Nat} {o : Obj} (e : h[a]? = some o) : a < h.size := by
  by_cases hlt : a < h.size
  · exact hlt
  · simp [Array.getElem?_eq_none (Nat.le_of_not_lt hlt)] at e

theorem state_sim {h h' : Heap} {fuel : Nat}
    (ih : ∀ v v' st st', ValRel f v v' → SimRel f hs hs' st st' →
      OptRel (SimRel f hs hs') (save h fuel v st) (save h' fuel v' st'))
    {s s' : Option Val} {st st' : DState} :
    OptValRel f s s' → SimRel f hs hs' st st' →
    OptRel (SimRel f hs hs')
      (match s with | none => some st | some x => (save h fuel x st).map (·.emit .build))
      (match s' with | none => some st' | some x => (save h' fuel x st').map (·.emit .build)) := by
  intro hs2 hst
  cases s <;> cases s'
  · exact hst
  · exact False.elim hs2
  · exact False.elim hs2
  · exact OptRel.map_emit (ih _ _ _ _ hs2 hst) .build

theorem OptRel.elim2 {α β : Type} {R : α → β → Prop} {x : Option α} {y : Option β} (h : OptRel R x y) :
    (x = none ∧ y = none) ∨ ∃ a b, x = some a ∧ y = some b ∧ R a b := by
  cases x <;> cases y
  · exact Or.inl ⟨rfl, rfl⟩
  · exact False.elim h
  · exact False.elim h
  · exact Or.inr ⟨_, _, rfl, rfl, h⟩

/-! ## the typing test of `save` gives the same answer on both sides -/

theorem strOf_isSome_iso {h h' : Heap}
    (step : ∀ a a', f a = some a' → ∃ o o', h[a]? = some o ∧ h'[a']? = some o' ∧ ObjRel f o o')
    {m m' : Val} (hv : ValRel f m m') : (strOf h m).isSome = (strOf h' m').isSome := by
  cases m with
  | ref b =>
    obtain ⟨b', rfl, hf⟩ := valRel_ref_left hv
    obtain ⟨o, o', ho, ho', hrel⟩ := step b b' hf
    simp only [strOf, ho, ho']
    cases o <;> cases o' <;> simp only [ObjRel] at hrel <;> first | exact hrel.elim | rfl
  | _ => cases m' <;> simp [ValRel] at hv <;> rfl

theorem clsName_isSome_iso {h h' : Heap}
    (step : ∀ a a', f a = some a' → ∃ o o', h[a]? = some o ∧ h'[a']? = some o' ∧ ObjRel f o o')
    {c c' : Val} (hv : ValRel f c c') : (clsName h c).isSome = (clsName h' c').isSome := by
  cases c with
  | ref b =>
    obtain ⟨b', rfl, hf⟩ := valRel_ref_left hv
    obtain ⟨o, o', ho, ho', hrel⟩ := step b b' hf
    simp only [clsName, ho, ho']
    cases o <;> cases o' <;> simp only [ObjRel] at hrel <;> (try exact hrel.elim) <;> (try rfl)
    rename_i m q m' q'
    have e1 := strOf_isSome_iso step hrel.1
    have e2 := strOf_isSome_iso step hrel.2
    cases h1 : strOf h m <;> cases h2 : strOf h q <;> cases h3 : strOf h' m' <;> cases h4 : strOf h' q' <;>
      simp_all
  | _ => cases c' <;> simp [ValRel] at hv <;> rfl

theorem cellOK_iso {h h' : Heap}
    (step : ∀ a a', f a = some a' → ∃ o o', h[a]? = some o ∧ h'[a']? = some o' ∧ ObjRel f o o')
    {o o' : Obj} (hrel : ObjRel f o o') : cellOK h o = cellOK h' o' := by
  cases o <;> cases o' <;> simp only [ObjRel] at hrel <;> (try exact hrel.elim) <;> simp only [cellOK]
  · rw [strOf_isSome_iso step hrel.1, strOf_isSome_iso step hrel.2]
  · rw [clsName_isSome_iso step hrel.1]
  · rw [clsName_isSome_iso step hrel.1]

theorem save_ref_sim {h h' : Heap}
    (inj : ∀ a b c, f a = some c → f b = some c → a = b)
    (step : ∀ a a', f a = some a' → ∃ o o', h[a]? = some o ∧ h'[a']? = some o' ∧ ObjRel f o o')
    {fuel : Nat}
    (ih : ∀ v v' st st', ValRel f v v' → SimRel f h.size h'.size st st' →
      OptRel (SimRel f h.size h'.size) (save h fuel v st) (save h' fuel v' st'))
    {a a' : Nat} (hf : f a = some a') {st st' : DState} (hst : SimRel f h.size h'.size st st') :
    OptRel (SimRel f h.size h'.size) (save h (fuel + 1) (.ref a) st) (save h' (fuel + 1) (.ref a') st') := by
  obtain ⟨o, o', ho, ho', hrel⟩ := step a a' hf
  have ha := lt_size_of_getElem? ho
  have ha' := lt_size_of_getElem? ho'
  simp only [save]
  rw [← hst.get_eq a a' hf]
  cases hg : st.get a with
  | some i => exact hst.emit _
  | none =>
    simp only [ho, ho']
    cases o <;> cases o' <;> simp only [ObjRel] at hrel <;> (try (exact False.elim hrel)) <;> dsimp only
    · -- str
      subst hrel
      exact (hst.emit _).memoize inj hf ha ha'
    · -- tuple
      rename_i xs ys
      rw [hrel.isEmpty_eq, hrel.length_eq]
      split
      · trivial
      · have hstart : SimRel f h.size h'.size (if ys.length ≤ 3 then st else st.emit .mark)
            (if ys.length ≤ 3 then st' else st'.emit .mark) := by
          split
          · exact hst
          · exact hst.emit _
        have hfold := foldlM_sim ih hrel _ _ hstart
        cases hx : xs.foldlM (fun st x => save h fuel x st) (if ys.length ≤ 3 then st else st.emit .mark) with
        | none =>
          cases hy : ys.foldlM (fun st x => save h' fuel x st) (if ys.length ≤ 3 then st' else st'.emit .mark) with
          | none => trivial
          | some y => rw [hx, hy] at hfold; exact False.elim hfold
        | some x =>
          cases hy : ys.foldlM (fun st x => save h' fuel x st) (if ys.length ≤ 3 then st' else st'.emit .mark) with
          | none => rw [hx, hy] at hfold; exact False.elim hfold
          | some y =>
            rw [hx, hy] at hfold
            have h1 : SimRel f h.size h'.size x y := hfold
            simp only []
            rw [← h1.get_eq a a' hf]
            cases x.get a with
            | some i =>
              refine SimRel.emit ?_ _
              split
              · exact h1.emitPops _
              · exact h1.emit _
            | none => exact (h1.emit _).memoize inj hf ha ha'
    · -- list
      rename_i xs ys
      exact saveItems_sim (fun x y st st' hxy hss => ih x y st st' hxy hss) _ _ _ hrel 0 _ _
        ((hst.emit _).memoize inj hf ha ha')
    · -- dict
      rename_i xs ys
      rw [hrel.length_eq]
      exact OptRel.map_trailing
        (saveItems_sim (fun p q st st' hp hss => pair_sim ih p q st st' hp hss) _ _ _ hrel 0 _ _
          ((hst.emit _).memoize inj hf ha ha')) _ _
    · -- set
      rename_i xs ys
      rw [hrel.length_eq]
      exact OptRel.map_trailing
        (saveItems_sim (fun x y st st' hxy hss => ih x y st st' hxy hss) _ _ _ hrel 0 _ _
          ((hst.emit _).memoize inj hf ha ha')) _ _
    · -- frozenset
      rename_i xs ys
      rcases (foldlM_sim ih hrel _ _ (hst.emit .mark)).elim2 with ⟨hx, hy⟩ | ⟨x, y, hx, hy, h1⟩
      · simp only [hx, hy]; trivial
      · simp only [hx, hy]
        rw [← h1.get_eq a a' hf]
        cases x.get a with
        | some i => exact (h1.emit _).emit _
        | none => exact (h1.emit _).memoize inj hf ha ha'
    · -- global
      rename_i m q m' q'
      rw [cellOK_iso (h := h) (h' := h') step (o := .global m q) (o' := .global m' q') hrel]
      split
      · rcases (ih _ _ st st' hrel.1 hst).elim2 with ⟨hx, hy⟩ | ⟨x, y, hx, hy, h1⟩
        · simp only [hx, hy]; trivial
        · simp only [hx, hy]
          rcases (ih _ _ x y hrel.2 h1).elim2 with ⟨hx2, hy2⟩ | ⟨x2, y2, hx2, hy2, h2⟩
          · simp only [hx2, hy2]; trivial
          · simp only [hx2, hy2]
            exact (h2.emit _).memoize inj hf ha ha'
      · trivial
    · -- inst
      rename_i c s c' s'
      rw [cellOK_iso (h := h) (h' := h') step (o := .inst c s) (o' := .inst c' s') hrel]
      split
      · rcases (ih _ _ st st' hrel.1 hst).elim2 with ⟨hx, hy⟩ | ⟨x, y, hx, hy, h1⟩
        · simp only [hx, hy]; trivial
        · simp only [hx, hy]
          exact state_sim ih hrel.2 (((h1.emit _).emit _).memoize inj hf ha ha')
      · trivial
    · -- reduced
      rename_i c kvs s c' kvs' s'
      rw [cellOK_iso (h := h) (h' := h') step (o := .reduced c kvs s) (o' := .reduced c' kvs' s') hrel]
      split
      · rcases (ih _ _ st st' hrel.1 hst).elim2 with ⟨hx, hy⟩ | ⟨x, y, hx, hy, h1⟩
        · simp only [hx, hy]; trivial
        · simp only [hx, hy]
          rcases (saveItems_sim (fun p q st st' hp hss => pair_sim ih p q st st' hp hss) .setitem .setitems .iter
            hrel.2.1 0 _ _ (((h1.emit (.tupleN 0)).emit .reduce).memoize inj hf ha ha')).elim2 with
            ⟨hx2, hy2⟩ | ⟨x2, y2, hx2, hy2, h2⟩
          · simp only [hx2, hy2]; trivial
          · simp only [hx2, hy2]
            exact state_sim ih hrel.2.2 h2
      · trivial

/-- **simulation**: two runs of the pickler on isomorphic rooted heaps, started in related states, stay
related — same op-codes, same memo indices for corresponding addresses (every fuel) -/
theorem save_sim {h h' : Heap}
    (inj : ∀ a b c, f a = some c → f b = some c → a = b)
    (step : ∀ a a', f a = some a' → ∃ o o', h[a]? = some o ∧ h'[a']? = some o' ∧ ObjRel f o o') :
    ∀ (fuel : Nat) (v v' : Val) (st st' : DState), ValRel f v v' → SimRel f h.size h'.size st st' →
      OptRel (SimRel f h.size h'.size) (save h fuel v st) (save h' fuel v' st') := by
  intro fuel
  induction fuel with
  | zero =>
    intro v v' st st' hv hst
    cases v with
    | ref a =>
      obtain ⟨a', rfl, _⟩ := valRel_ref_left hv
      simp only [save]
      trivial
    | _ => exact save_imm_sim 0 hv (by intro a; simp) hst
  | succ n ih =>
    intro v v' st st' hv hst
    cases v with
    | ref a =>
      obtain ⟨a', rfl, hf⟩ := valRel_ref_left hv
      exact save_ref_sim inj step ih hf hst
    | _ => exact save_imm_sim (n + 1) hv (by intro a; simp) hst

theorem initD_sim (h h' : Heap) : SimRel f h.size h'.size (initD h) (initD h') := by
  refine ⟨rfl, rfl, ?_, by simp [initD], by simp [initD]⟩
  intro a a' _
  simp only [DState.get, initD]
  by_cases ha : a < h.size <;> by_cases ha' : a' < h'.size <;> simp [ha, ha']

/-- the op-code stream is the same for isomorphic rooted heaps with equally many cells (the fuel and the
memo table are sized by the heap) -/
theorem dump_eq_of_iso {h h' : Heap} {r r' : Val} (iso : Iso h r h' r') (hsz : h.size = h'.size) :
    dump h r = dump h' r' := by
  obtain ⟨f, w⟩ := iso
  have hsim := save_sim w.inj w.step (dumpFuel h) r r' (initD h) (initD h') w.root (initD_sim h h')
  have hfuel : dumpFuel h' = dumpFuel h := by simp [dumpFuel, hsz]
  unfold dump
  rw [hfuel]
  rcases hsim.elim2 with ⟨hx, hy⟩ | ⟨x, y, hx, hy, h1⟩
  · rw [hx, hy]
  · rw [hx, hy]
    simp only [Option.map_some, h1.out_eq]

end Heph.Pickle
