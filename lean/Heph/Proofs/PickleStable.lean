import Heph.Proofs.PickleIso
/-! `dump` is invariant under isomorphism (C13): a simulation between two runs of the pickler. -/
namespace Heph.Pickle

def OptRel {α β : Type} (R : α → β → Prop) : Option α → Option β → Prop
  | none, none => True
  | some x, some y => R x y
  | _, _ => False

/-- the two pickler states agree on everything the traversal can observe -/
structure SimRel (f : Nat → Option Nat) (hs hs' : Nat) (st st' : DState) : Prop where
  n_eq : st.n = st'.n
  out_eq : st.out = st'.out
  get_eq : ∀ a a', f a = some a' → st.get a = st'.get a'
  sz : st.tbl.size = hs
  sz' : st'.tbl.size = hs'

theorem get_emit (st : DState) (op : Op) (a : Nat) : (st.emit op).get a = st.get a := rfl

theorem get_memoize (st : DState) (a b : Nat) (ha : a < st.tbl.size) :
    (st.memoize a).get b = if b = a then some st.n else st.get b := by
  simp only [DState.get, DState.memoize]
  by_cases hba : b = a
  · subst hba
    simp [ha]
  · have : ¬ a = b := fun e => hba e.symm
    simp [hba, this]

variable {f : Nat → Option Nat} {hs hs' : Nat}

theorem SimRel.emit {st st' : DState} (h : SimRel f hs hs' st st') (op : Op) :
    SimRel f hs hs' (st.emit op) (st'.emit op) :=
  ⟨h.n_eq, by simp [DState.emit, h.out_eq], fun a a' e => by rw [get_emit, get_emit]; exact h.get_eq a a' e, h.sz, h.sz'⟩

theorem SimRel.memoize {st st' : DState} (h : SimRel f hs hs' st st')
    (inj : ∀ a b c, f a = some c → f b = some c → a = b)
    {a a' : Nat} (hf : f a = some a') (ha : a < hs) (ha' : a' < hs') :
    SimRel f hs hs' (st.memoize a) (st'.memoize a') := by
  refine ⟨by simp [DState.memoize, h.n_eq], by simp [DState.memoize, h.out_eq], ?_, by simp [DState.memoize, h.sz],
    by simp [DState.memoize, h.sz']⟩
  intro b b' hb
  rw [get_memoize _ _ _ (h.sz ▸ ha), get_memoize _ _ _ (h.sz' ▸ ha')]
  by_cases hba : b = a
  · subst hba
    have : b' = a' := by rw [hf] at hb; exact (Option.some.inj hb).symm
    simp [this, h.n_eq]
  · have : b' ≠ a' := fun e => hba (inj b a a' (e ▸ hb) hf)
    simp [hba, this, h.get_eq b b' hb]

theorem SimRel.emitPops {st st' : DState} (h : SimRel f hs hs' st st') (k : Nat) :
    SimRel f hs hs' (emitPops st k) (emitPops st' k) := by
  induction k generalizing st st' with
  | zero => exact h
  | succ k ih => exact ih (h.emit .pop)

theorem SimRel.trailing {st st' : DState} (h : SimRel f hs hs' st st') (len : Nat) (op : Op) :
    SimRel f hs hs' (trailingBatch len op st) (trailingBatch len op st') := by
  unfold trailingBatch
  split
  · exact (h.emit .mark).emit op
  · exact h

theorem OptRel.map_emit {x : Option DState} {y : Option DState} (h : OptRel (SimRel f hs hs') x y) (op : Op) :
    OptRel (SimRel f hs hs') (x.map (·.emit op)) (y.map (·.emit op)) := by
  cases x <;> cases y <;> simp_all [OptRel]
  exact h.emit op

/-- elements of two related containers, written by related element writers -/
theorem saveItems_sim {α β : Type} {R : α → β → Prop} {se : α → DState → Option DState} {se' : β → DState → Option DState}
    (hse : ∀ x y st st', R x y → SimRel f hs hs' st st' → OptRel (SimRel f hs hs') (se x st) (se' y st'))
    (single multi : Op) (style : Style) {xs : List α} {ys : List β} (hr : AllRel R xs ys) :
    ∀ (i : Nat) (st st' : DState), SimRel f hs hs' st st' →
      OptRel (SimRel f hs hs') (saveItems se single multi style i xs st) (saveItems se' single multi style i ys st') := by
  induction hr with
  | nil => intro i st st' h; simpa [saveItems, OptRel] using h
  | @cons a b as bs hab hrest ih =>
    intro i st st' h
    unfold saveItems
    simp only [hrest.isEmpty_eq]
    by_cases hc : (i % BATCH == 0 && bs.isEmpty && singleFormOK style i) = true
    · rw [if_pos hc, if_pos hc]
      exact OptRel.map_emit (hse a b st st' hab h) single
    · rw [if_neg hc, if_neg hc]
      have h1 : SimRel f hs hs' (if (i % BATCH == 0) = true then st.emit .mark else st)
          (if (i % BATCH == 0) = true then st'.emit .mark else st') := by
        split
        · exact h.emit .mark
        · exact h
      have h2 := hse a b _ _ hab h1
      cases hx : se a (if (i % BATCH == 0) = true then st.emit .mark else st) with
      | none =>
        cases hy : se' b (if (i % BATCH == 0) = true then st'.emit .mark else st') with
        | none => simp [OptRel]
        | some y => rw [hx, hy] at h2; exact h2.elim
      | some x =>
        cases hy : se' b (if (i % BATCH == 0) = true then st'.emit .mark else st') with
        | none => rw [hx, hy] at h2; exact h2.elim
        | some y =>
          rw [hx, hy] at h2
          simp only []
          apply ih
          split
          · exact h2.emit multi
          · exact h2


end Heph.Pickle
