import Heph.Model.Depth
/-! Counting the power-set walk of `TypeErasure.visit_func_decl` (C18). -/
namespace Heph.Depth

theorem combinations_zero (l : List α) : combinations l 0 = [[]] := by
  cases l <;> rfl

theorem combinations_cons_succ (a : α) (l : List α) (r : Nat) :
    combinations (a :: l) (r + 1) = (combinations l r).map (a :: ·) ++ combinations l (r + 1) := by
  rw [combinations]

theorem length_combinations_cons (a : α) (l : List α) (r : Nat) :
    (combinations (a :: l) (r + 1)).length = (combinations l r).length + (combinations l (r + 1)).length := by
  rw [combinations_cons_succ, List.length_append, List.length_map]

theorem length_walk_nil (n : Nat) : (powerWalkFrom ([] : List α) n).length = 0 := by
  induction n with
  | zero => rfl
  | succ n ih => simp [powerWalkFrom, combinations, ih]

theorem length_walk_cons (a : α) (l : List α) (n : Nat) :
    (powerWalkFrom (a :: l) (n + 1)).length
      = (1 + (powerWalkFrom l n).length) + (powerWalkFrom l (n + 1)).length := by
  induction n with
  | zero =>
    simp only [powerWalkFrom, List.append_nil, List.length_nil, length_combinations_cons, combinations_zero,
      List.length_cons]
  | succ n ih =>
    rw [powerWalkFrom, List.length_append, ih, length_combinations_cons]
    simp only [powerWalkFrom, List.length_append]
    omega

/-- every combination of every size `1 … n ≥ len l`: one less than the power set -/
theorem length_walk_from (l : List α) : ∀ n, l.length ≤ n → (powerWalkFrom l n).length + 1 = 2 ^ l.length := by
  induction l with
  | nil => intro n _; simp [length_walk_nil]
  | cons a l ih =>
    intro n hn
    cases n with
    | zero => simp at hn
    | succ n =>
      have h1 := ih n (by simpa using hn)
      have h2 := ih (n + 1) (by simp at hn; omega)
      rw [length_walk_cons, List.length_cons, Nat.pow_succ]
      omega

theorem length_powerWalk (l : List α) : (powerWalk l).length = 2 ^ l.length - 1 := by
  have := length_walk_from l l.length (Nat.le_refl _)
  unfold powerWalk
  omega

/-- the members of `combinations l r` have length `r` -/
theorem length_of_mem_combinations : ∀ (l : List α) (r : Nat) (c : List α), c ∈ combinations l r → c.length = r
  | l, 0, c, h => by rw [combinations_zero] at h; simp at h; simp [h]
  | [], r + 1, c, h => by simp [combinations] at h
  | a :: l, r + 1, c, h => by
    rw [combinations_cons_succ, List.mem_append, List.mem_map] at h
    rcases h with ⟨c', hc', rfl⟩ | h
    · simp [length_of_mem_combinations l r c' hc']
    · exact length_of_mem_combinations l (r + 1) c h

/-- the walk never offers the empty combination -/
theorem powerWalk_nonempty (l : List α) : ∀ n c, c ∈ powerWalkFrom l n → c ≠ [] := by
  intro n
  induction n with
  | zero => intro c h; simp [powerWalkFrom] at h
  | succ n ih =>
    intro c h
    rw [powerWalkFrom, List.mem_append] at h
    rcases h with h | h
    · have := length_of_mem_combinations l (n + 1) c h
      intro hc; simp [hc] at this
    · exact ih c h

theorem loopTests_le (w mc : Nat) (ff : Option Nat) :
    loopTests w mc ff ≤ w ∧ (0 < mc → loopTests w mc ff ≤ mc + 1) := by
  unfold loopTests
  constructor
  · cases ff <;> simp <;> split <;> omega
  · intro h
    have : (mc == 0) = false := by simp; omega
    cases ff <;> simp [this] <;> omega

end Heph.Depth
