import Heph.Model.Mutation
/-!
# The hand-written structural equalities of `Model/Mutation.lean` are lawful

`tyEq a b = true ↔ a = b`, `nodeEq a b = true ↔ a = b`, `progEq p q = true ↔ p = q`.
-/
set_option linter.unusedSimpArgs false
set_option linter.unusedVariables false
namespace Heph.Mut
open Heph

mutual
theorem tyEq_sound : ∀ (a b : Ty), tyEq a b = true → a = b
  | .builtin .., b, h => by
      cases b <;> simp only [tyEq, Bool.and_eq_true, beq_iff_eq, Bool.false_eq_true] at h
      obtain ⟨⟨⟨⟨h1, h2⟩, h3⟩, h4⟩, h5⟩ := h
      rw [h1, h2, h3, h4, tyEqL_sound _ _ h5]
  | .simple .., b, h => by
      cases b <;> simp only [tyEq, Bool.and_eq_true, beq_iff_eq, Bool.false_eq_true] at h
      rw [h.1, tyEqL_sound _ _ h.2]
  | .tparam .., b, h => by
      cases b <;> simp only [tyEq, Bool.and_eq_true, beq_iff_eq, Bool.false_eq_true] at h
      rw [h.1.1, h.1.2, tyEqO_sound _ _ h.2]
  | .wild .., b, h => by
      cases b <;> simp only [tyEq, Bool.and_eq_true, beq_iff_eq, Bool.false_eq_true] at h
      rw [h.1, tyEqO_sound _ _ h.2]
  | .tcon .., b, h => by
      cases b <;> simp only [tyEq, Bool.and_eq_true, beq_iff_eq, Bool.false_eq_true] at h
      rw [h.1.1.1, h.1.1.2, tyEqL_sound _ _ h.1.2, tyEqL_sound _ _ h.2]
  | .param .., b, h => by
      cases b <;> simp only [tyEq, Bool.and_eq_true, beq_iff_eq, Bool.false_eq_true] at h
      rw [h.1.1.1, tyEq_sound _ _ h.1.1.2, tyEqL_sound _ _ h.1.2, tyEqL_sound _ _ h.2]
  | .nothing, b, h => by
      cases b <;> simp only [tyEq, Bool.false_eq_true] at h
      rfl
  | .ext .., b, h => by
      cases b <;> simp only [tyEq, beq_iff_eq, Bool.false_eq_true] at h
      rw [h]
theorem tyEqL_sound : ∀ (a b : List Ty), tyEqL a b = true → a = b
  | [], b, h => by cases b <;> simp only [tyEqL, Bool.false_eq_true] at h; rfl
  | x :: xs, b, h => by
      cases b <;> simp only [tyEqL, Bool.and_eq_true, Bool.false_eq_true] at h
      rw [tyEq_sound _ _ h.1, tyEqL_sound _ _ h.2]
theorem tyEqO_sound : ∀ (a b : Option Ty), tyEqO a b = true → a = b
  | none, b, h => by cases b <;> simp only [tyEqO, Bool.false_eq_true] at h; rfl
  | some x, b, h => by
      cases b <;> simp only [tyEqO, Bool.false_eq_true] at h
      rw [tyEq_sound _ _ h]
end

mutual
theorem tyEq_refl : ∀ (a : Ty), tyEq a a = true
  | .builtin _ _ _ _ ss => by simp [tyEq, tyEqL_refl ss]
  | .simple _ ss => by simp [tyEq, tyEqL_refl ss]
  | .tparam _ _ b => by simp [tyEq, tyEqO_refl b]
  | .wild _ b => by simp [tyEq, tyEqO_refl b]
  | .tcon _ _ ps ss => by simp [tyEq, tyEqL_refl ps, tyEqL_refl ss]
  | .param _ c as ss => by simp [tyEq, tyEq_refl c, tyEqL_refl as, tyEqL_refl ss]
  | .nothing => by simp [tyEq]
  | .ext _ => by simp [tyEq]
theorem tyEqL_refl : ∀ (a : List Ty), tyEqL a a = true
  | [] => by simp [tyEqL]
  | x :: xs => by simp [tyEqL, tyEq_refl x, tyEqL_refl xs]
theorem tyEqO_refl : ∀ (a : Option Ty), tyEqO a a = true
  | none => by simp [tyEqO]
  | some x => by simp [tyEqO, tyEq_refl x]
end

theorem tyEq_iff {a b : Ty} : tyEq a b = true ↔ a = b :=
  ⟨tyEq_sound a b, fun h => h ▸ tyEq_refl a⟩
theorem tyEqL_iff {a b : List Ty} : tyEqL a b = true ↔ a = b :=
  ⟨tyEqL_sound a b, fun h => h ▸ tyEqL_refl a⟩
theorem tyEqO_iff {a b : Option Ty} : tyEqO a b = true ↔ a = b :=
  ⟨tyEqO_sound a b, fun h => h ▸ tyEqO_refl a⟩

theorem optStrEq_iff {a b : Option String} : optStrEq a b = true ↔ a = b := by
  cases a <;> cases b <;> simp [optStrEq]

mutual
theorem nodeEq_sound : ∀ (a b : Node), nodeEq a b = true → a = b
  | .block .., b, h => by
      cases b <;> simp only [nodeEq, Bool.and_eq_true, beq_iff_eq, Bool.false_eq_true, tyEq_iff, tyEqL_iff, tyEqO_iff, optStrEq_iff] at h
      obtain ⟨h1, h2⟩ := h
      have e1 := nodeEqL_sound _ _ h1
      subst_vars; rfl
  | .superInst .., b, h => by
      cases b <;> simp only [nodeEq, Bool.and_eq_true, beq_iff_eq, Bool.false_eq_true, tyEq_iff, tyEqL_iff, tyEqO_iff, optStrEq_iff] at h
      obtain ⟨h1, h2⟩ := h
      have e2 := nodeEqOL_sound _ _ h2
      subst_vars; rfl
  | .classDecl .., b, h => by
      cases b <;> simp only [nodeEq, Bool.and_eq_true, beq_iff_eq, Bool.false_eq_true, tyEq_iff, tyEqL_iff, tyEqO_iff, optStrEq_iff] at h
      obtain ⟨⟨⟨⟨⟨⟨h1, h2⟩, h3⟩, h4⟩, h5⟩, h6⟩, h7⟩ := h
      have e4 := nodeEqL_sound _ _ h4
      have e5 := nodeEqL_sound _ _ h5
      have e6 := nodeEqL_sound _ _ h6
      subst_vars; rfl
  | .varDecl .., b, h => by
      cases b <;> simp only [nodeEq, Bool.and_eq_true, beq_iff_eq, Bool.false_eq_true, tyEq_iff, tyEqL_iff, tyEqO_iff, optStrEq_iff] at h
      obtain ⟨⟨⟨⟨h1, h2⟩, h3⟩, h4⟩, h5⟩ := h
      have e2 := nodeEq_sound _ _ h2
      subst_vars; rfl
  | .callArg .., b, h => by
      cases b <;> simp only [nodeEq, Bool.and_eq_true, beq_iff_eq, Bool.false_eq_true, tyEq_iff, tyEqL_iff, tyEqO_iff, optStrEq_iff] at h
      obtain ⟨h1, h2⟩ := h
      have e1 := nodeEq_sound _ _ h1
      subst_vars; rfl
  | .fieldDecl .., b, h => by
      cases b <;> simp only [nodeEq, Bool.and_eq_true, beq_iff_eq, Bool.false_eq_true, tyEq_iff, tyEqL_iff, tyEqO_iff, optStrEq_iff] at h
      obtain ⟨⟨⟨⟨h1, h2⟩, h3⟩, h4⟩, h5⟩ := h
      subst_vars; rfl
  | .paramDecl .., b, h => by
      cases b <;> simp only [nodeEq, Bool.and_eq_true, beq_iff_eq, Bool.false_eq_true, tyEq_iff, tyEqL_iff, tyEqO_iff, optStrEq_iff] at h
      obtain ⟨⟨⟨h1, h2⟩, h3⟩, h4⟩ := h
      have e4 := nodeEqO_sound _ _ h4
      subst_vars; rfl
  | .funcDecl .., b, h => by
      cases b <;> simp only [nodeEq, Bool.and_eq_true, beq_iff_eq, Bool.false_eq_true, tyEq_iff, tyEqL_iff, tyEqO_iff, optStrEq_iff] at h
      obtain ⟨⟨⟨⟨⟨⟨⟨⟨h1, h2⟩, h3⟩, h4⟩, h5⟩, h6⟩, h7⟩, h8⟩, h9⟩ := h
      have e2 := nodeEqL_sound _ _ h2
      have e5 := nodeEqO_sound _ _ h5
      subst_vars; rfl
  | .lambda .., b, h => by
      cases b <;> simp only [nodeEq, Bool.and_eq_true, beq_iff_eq, Bool.false_eq_true, tyEq_iff, tyEqL_iff, tyEqO_iff, optStrEq_iff] at h
      obtain ⟨⟨⟨⟨h1, h2⟩, h3⟩, h4⟩, h5⟩ := h
      have e2 := nodeEqL_sound _ _ h2
      have e4 := nodeEq_sound _ _ h4
      subst_vars; rfl
  | .funcRef .., b, h => by
      cases b <;> simp only [nodeEq, Bool.and_eq_true, beq_iff_eq, Bool.false_eq_true, tyEq_iff, tyEqL_iff, tyEqO_iff, optStrEq_iff] at h
      obtain ⟨⟨h1, h2⟩, h3⟩ := h
      have e2 := nodeEqO_sound _ _ h2
      subst_vars; rfl
  | .bottom .., b, h => by
      cases b <;> simp only [nodeEq, Bool.and_eq_true, beq_iff_eq, Bool.false_eq_true, tyEq_iff, tyEqL_iff, tyEqO_iff, optStrEq_iff] at h
      have h1 := h
      subst_vars; rfl
  | .intC .., b, h => by
      cases b <;> simp only [nodeEq, Bool.and_eq_true, beq_iff_eq, Bool.false_eq_true, tyEq_iff, tyEqL_iff, tyEqO_iff, optStrEq_iff] at h
      obtain ⟨h1, h2⟩ := h
      subst_vars; rfl
  | .realC .., b, h => by
      cases b <;> simp only [nodeEq, Bool.and_eq_true, beq_iff_eq, Bool.false_eq_true, tyEq_iff, tyEqL_iff, tyEqO_iff, optStrEq_iff] at h
      obtain ⟨h1, h2⟩ := h
      subst_vars; rfl
  | .boolC .., b, h => by
      cases b <;> simp only [nodeEq, Bool.and_eq_true, beq_iff_eq, Bool.false_eq_true, tyEq_iff, tyEqL_iff, tyEqO_iff, optStrEq_iff] at h
      have h1 := h
      subst_vars; rfl
  | .charC .., b, h => by
      cases b <;> simp only [nodeEq, Bool.and_eq_true, beq_iff_eq, Bool.false_eq_true, tyEq_iff, tyEqL_iff, tyEqO_iff, optStrEq_iff] at h
      have h1 := h
      subst_vars; rfl
  | .stringC .., b, h => by
      cases b <;> simp only [nodeEq, Bool.and_eq_true, beq_iff_eq, Bool.false_eq_true, tyEq_iff, tyEqL_iff, tyEqO_iff, optStrEq_iff] at h
      have h1 := h
      subst_vars; rfl
  | .arrayE .., b, h => by
      cases b <;> simp only [nodeEq, Bool.and_eq_true, beq_iff_eq, Bool.false_eq_true, tyEq_iff, tyEqL_iff, tyEqO_iff, optStrEq_iff] at h
      obtain ⟨⟨h1, h2⟩, h3⟩ := h
      have e3 := nodeEqL_sound _ _ h3
      subst_vars; rfl
  | .variable .., b, h => by
      cases b <;> simp only [nodeEq, Bool.and_eq_true, beq_iff_eq, Bool.false_eq_true, tyEq_iff, tyEqL_iff, tyEqO_iff, optStrEq_iff] at h
      have h1 := h
      subst_vars; rfl
  | .isE .., b, h => by
      cases b <;> simp only [nodeEq, Bool.and_eq_true, beq_iff_eq, Bool.false_eq_true, tyEq_iff, tyEqL_iff, tyEqO_iff, optStrEq_iff] at h
      obtain ⟨⟨h1, h2⟩, h3⟩ := h
      have e1 := nodeEq_sound _ _ h1
      subst_vars; rfl
  | .binop .., b, h => by
      cases b <;> simp only [nodeEq, Bool.and_eq_true, beq_iff_eq, Bool.false_eq_true, tyEq_iff, tyEqL_iff, tyEqO_iff, optStrEq_iff] at h
      obtain ⟨⟨⟨h1, h2⟩, h3⟩, h4⟩ := h
      have e2 := nodeEq_sound _ _ h2
      have e3 := nodeEq_sound _ _ h3
      subst_vars; rfl
  | .cond .., b, h => by
      cases b <;> simp only [nodeEq, Bool.and_eq_true, beq_iff_eq, Bool.false_eq_true, tyEq_iff, tyEqL_iff, tyEqO_iff, optStrEq_iff] at h
      obtain ⟨⟨⟨h1, h2⟩, h3⟩, h4⟩ := h
      have e1 := nodeEq_sound _ _ h1
      have e2 := nodeEq_sound _ _ h2
      have e3 := nodeEq_sound _ _ h3
      subst_vars; rfl
  | .newE .., b, h => by
      cases b <;> simp only [nodeEq, Bool.and_eq_true, beq_iff_eq, Bool.false_eq_true, tyEq_iff, tyEqL_iff, tyEqO_iff, optStrEq_iff] at h
      obtain ⟨⟨h1, h2⟩, h3⟩ := h
      have e2 := nodeEqL_sound _ _ h2
      subst_vars; rfl
  | .fieldAccess .., b, h => by
      cases b <;> simp only [nodeEq, Bool.and_eq_true, beq_iff_eq, Bool.false_eq_true, tyEq_iff, tyEqL_iff, tyEqO_iff, optStrEq_iff] at h
      obtain ⟨h1, h2⟩ := h
      have e1 := nodeEq_sound _ _ h1
      subst_vars; rfl
  | .call .., b, h => by
      cases b <;> simp only [nodeEq, Bool.and_eq_true, beq_iff_eq, Bool.false_eq_true, tyEq_iff, tyEqL_iff, tyEqO_iff, optStrEq_iff] at h
      obtain ⟨⟨⟨⟨⟨h1, h2⟩, h3⟩, h4⟩, h5⟩, h6⟩ := h
      have e2 := nodeEqL_sound _ _ h2
      have e3 := nodeEqO_sound _ _ h3
      subst_vars; rfl
  | .assign .., b, h => by
      cases b <;> simp only [nodeEq, Bool.and_eq_true, beq_iff_eq, Bool.false_eq_true, tyEq_iff, tyEqL_iff, tyEqO_iff, optStrEq_iff] at h
      obtain ⟨⟨h1, h2⟩, h3⟩ := h
      have e2 := nodeEq_sound _ _ h2
      have e3 := nodeEqO_sound _ _ h3
      subst_vars; rfl
theorem nodeEqL_sound : ∀ (a b : List Node), nodeEqL a b = true → a = b
  | [], b, h => by cases b <;> simp only [nodeEqL, Bool.false_eq_true] at h; rfl
  | x :: xs, b, h => by
      cases b <;> simp only [nodeEqL, Bool.and_eq_true, Bool.false_eq_true] at h
      rw [nodeEq_sound _ _ h.1, nodeEqL_sound _ _ h.2]
theorem nodeEqO_sound : ∀ (a b : Option Node), nodeEqO a b = true → a = b
  | none, b, h => by cases b <;> simp only [nodeEqO, Bool.false_eq_true] at h; rfl
  | some x, b, h => by
      cases b <;> simp only [nodeEqO, Bool.false_eq_true] at h
      rw [nodeEq_sound _ _ h]
theorem nodeEqOL_sound : ∀ (a b : Option (List Node)), nodeEqOL a b = true → a = b
  | none, b, h => by cases b <;> simp only [nodeEqOL, Bool.false_eq_true] at h; rfl
  | some x, b, h => by
      cases b <;> simp only [nodeEqOL, Bool.false_eq_true] at h
      rw [nodeEqL_sound _ _ h]
end

mutual
theorem nodeEq_refl : ∀ (a : Node), nodeEq a a = true
  | .block x1 x2 => by
      simp [nodeEq, tyEq_refl, tyEqL_refl, tyEqO_refl, optStrEq_iff, nodeEqL_refl x1]
  | .superInst x1 x2 => by
      simp [nodeEq, tyEq_refl, tyEqL_refl, tyEqO_refl, optStrEq_iff, nodeEqOL_refl x2]
  | .classDecl x1 x2 x3 x4 x5 x6 x7 => by
      simp [nodeEq, tyEq_refl, tyEqL_refl, tyEqO_refl, optStrEq_iff, nodeEqL_refl x4, nodeEqL_refl x5, nodeEqL_refl x6]
  | .varDecl x1 x2 x3 x4 x5 => by
      simp [nodeEq, tyEq_refl, tyEqL_refl, tyEqO_refl, optStrEq_iff, nodeEq_refl x2]
  | .callArg x1 x2 => by
      simp [nodeEq, tyEq_refl, tyEqL_refl, tyEqO_refl, optStrEq_iff, nodeEq_refl x1]
  | .fieldDecl x1 x2 x3 x4 x5 => by
      simp [nodeEq, tyEq_refl, tyEqL_refl, tyEqO_refl, optStrEq_iff]
  | .paramDecl x1 x2 x3 x4 => by
      simp [nodeEq, tyEq_refl, tyEqL_refl, tyEqO_refl, optStrEq_iff, nodeEqO_refl x4]
  | .funcDecl x1 x2 x3 x4 x5 x6 x7 x8 x9 => by
      simp [nodeEq, tyEq_refl, tyEqL_refl, tyEqO_refl, optStrEq_iff, nodeEqL_refl x2, nodeEqO_refl x5]
  | .lambda x1 x2 x3 x4 x5 => by
      simp [nodeEq, tyEq_refl, tyEqL_refl, tyEqO_refl, optStrEq_iff, nodeEqL_refl x2, nodeEq_refl x4]
  | .funcRef x1 x2 x3 => by
      simp [nodeEq, tyEq_refl, tyEqL_refl, tyEqO_refl, optStrEq_iff, nodeEqO_refl x2]
  | .bottom x1 => by
      simp [nodeEq, tyEq_refl, tyEqL_refl, tyEqO_refl, optStrEq_iff]
  | .intC x1 x2 => by
      simp [nodeEq, tyEq_refl, tyEqL_refl, tyEqO_refl, optStrEq_iff]
  | .realC x1 x2 => by
      simp [nodeEq, tyEq_refl, tyEqL_refl, tyEqO_refl, optStrEq_iff]
  | .boolC x1 => by
      simp [nodeEq, tyEq_refl, tyEqL_refl, tyEqO_refl, optStrEq_iff]
  | .charC x1 => by
      simp [nodeEq, tyEq_refl, tyEqL_refl, tyEqO_refl, optStrEq_iff]
  | .stringC x1 => by
      simp [nodeEq, tyEq_refl, tyEqL_refl, tyEqO_refl, optStrEq_iff]
  | .arrayE x1 x2 x3 => by
      simp [nodeEq, tyEq_refl, tyEqL_refl, tyEqO_refl, optStrEq_iff, nodeEqL_refl x3]
  | .variable x1 => by
      simp [nodeEq, tyEq_refl, tyEqL_refl, tyEqO_refl, optStrEq_iff]
  | .isE x1 x2 x3 => by
      simp [nodeEq, tyEq_refl, tyEqL_refl, tyEqO_refl, optStrEq_iff, nodeEq_refl x1]
  | .binop x1 x2 x3 x4 => by
      simp [nodeEq, tyEq_refl, tyEqL_refl, tyEqO_refl, optStrEq_iff, nodeEq_refl x2, nodeEq_refl x3]
  | .cond x1 x2 x3 x4 => by
      simp [nodeEq, tyEq_refl, tyEqL_refl, tyEqO_refl, optStrEq_iff, nodeEq_refl x1, nodeEq_refl x2, nodeEq_refl x3]
  | .newE x1 x2 x3 => by
      simp [nodeEq, tyEq_refl, tyEqL_refl, tyEqO_refl, optStrEq_iff, nodeEqL_refl x2]
  | .fieldAccess x1 x2 => by
      simp [nodeEq, tyEq_refl, tyEqL_refl, tyEqO_refl, optStrEq_iff, nodeEq_refl x1]
  | .call x1 x2 x3 x4 x5 x6 => by
      simp [nodeEq, tyEq_refl, tyEqL_refl, tyEqO_refl, optStrEq_iff, nodeEqL_refl x2, nodeEqO_refl x3]
  | .assign x1 x2 x3 => by
      simp [nodeEq, tyEq_refl, tyEqL_refl, tyEqO_refl, optStrEq_iff, nodeEq_refl x2, nodeEqO_refl x3]
theorem nodeEqL_refl : ∀ (a : List Node), nodeEqL a a = true
  | [] => by simp [nodeEqL]
  | x :: xs => by simp [nodeEqL, nodeEq_refl x, nodeEqL_refl xs]
theorem nodeEqO_refl : ∀ (a : Option Node), nodeEqO a a = true
  | none => by simp [nodeEqO]
  | some x => by simp [nodeEqO, nodeEq_refl x]
theorem nodeEqOL_refl : ∀ (a : Option (List Node)), nodeEqOL a a = true
  | none => by simp [nodeEqOL]
  | some x => by simp [nodeEqOL, nodeEqL_refl x]
end

theorem nodeEq_iff {a b : Node} : nodeEq a b = true ↔ a = b :=
  ⟨nodeEq_sound a b, fun h => h ▸ nodeEq_refl a⟩
theorem nodeEqL_iff {a b : List Node} : nodeEqL a b = true ↔ a = b :=
  ⟨nodeEqL_sound a b, fun h => h ▸ nodeEqL_refl a⟩

theorem ctxEq_iff {a b : CtxEntry} : ctxEq a b = true ↔ a = b := by
  cases a; cases b; simp [ctxEq, and_assoc]

theorem ctxEqL_iff : ∀ {a b : List CtxEntry}, ctxEqL a b = true ↔ a = b
  | [], [] => by simp [ctxEqL]
  | [], _ :: _ => by simp [ctxEqL]
  | _ :: _, [] => by simp [ctxEqL]
  | x :: xs, y :: ys => by simp [ctxEqL, ctxEq_iff, ctxEqL_iff (a := xs) (b := ys)]

theorem progEq_iff {p q : Program} : progEq p q = true ↔ p = q := by
  cases p; cases q
  simp [progEq, nodeEqL_iff, ctxEqL_iff, and_assoc]

theorem slotEq_iff {a b : Slot} : slotEq a b = true ↔ a = b := by
  cases a <;> cases b <;> simp [slotEq, tyEq_iff, tyEqL_iff, tyEqO_iff]

end Heph.Mut
