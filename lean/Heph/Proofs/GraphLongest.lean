import Heph.Proofs.GraphPaths
/-!
# `find_longest_paths`, `find_all_reachable`
-/
namespace Heph.Graph

theorem existIn_iff (x y : List Nat) : existIn x y = true ↔ x <+: y ∧ x ≠ y := by
  simp only [existIn, Bool.and_eq_true, decide_eq_true_eq, beq_iff_eq]
  constructor
  · rintro ⟨h1, h2⟩
    refine ⟨List.prefix_iff_eq_take.2 h2.symm, ?_⟩
    intro e; subst e; omega
  · rintro ⟨h1, h2⟩
    refine ⟨?_, (List.prefix_iff_eq_take.1 h1).symm⟩
    have := h1.length_le
    by_cases h : x.length = y.length
    · exact absurd (h1.eq_of_length h) h2
    · omega

theorem longest_mem (paths : List (List Nat)) (p : List Nat) :
    p ∈ (if paths.length == 1 then paths
         else paths.filter fun x => !(paths.any fun q => existIn x q)) ↔
      p ∈ paths ∧ ∀ q ∈ paths, p <+: q → q = p := by
  have hf : p ∈ (paths.filter fun x => !(paths.any fun q => existIn x q)) ↔
      p ∈ paths ∧ ∀ q ∈ paths, p <+: q → q = p := by
    simp only [List.mem_filter, Bool.not_eq_true', List.any_eq_false, existIn_iff, not_and,
      not_not]
    constructor
    · rintro ⟨a, b⟩; exact ⟨a, fun q hq hpq => (b q hq hpq).symm⟩
    · rintro ⟨a, b⟩; exact ⟨a, fun q hq hpq => (b q hq hpq).symm⟩
  by_cases h1 : paths.length = 1
  · have hb : (paths.length == 1) = true := by simpa using h1
    rw [if_pos hb]
    match paths, h1 with
    | [x], _ =>
      simp only [List.mem_singleton]
      constructor
      · rintro rfl; exact ⟨rfl, fun q hq _ => hq⟩
      · rintro ⟨a, _⟩; exact a
  · have hb : ¬ (paths.length == 1) = true := by simpa using h1
    rw [if_neg hb]; exact hf

theorem longest_nodup (paths : List (List Nat)) (h : paths.Nodup) :
    (if paths.length == 1 then paths
     else paths.filter fun x => !(paths.any fun q => existIn x q)).Nodup := by
  split
  · exact h
  · exact h.filter _

/-- `find_longest_paths` answers, with exactly the maximal simple paths from the vertex -/
theorem findLongestPaths_correct (g : Graph) (s : Nat) :
    ∃ l, findLongestPaths g s = some l ∧ (∀ p, p ∈ l ↔ MaximalPath g s p) ∧
      (AdjNodup g → l.Nodup) := by
  obtain ⟨paths, e, hl, hn⟩ := findAllPaths_correct g s
  have e2 : findLongestPaths g s = some (if paths.length == 1 then paths
      else paths.filter fun x => !(paths.any fun q => existIn x q)) := by
    simp only [findLongestPaths, e, Option.map_some]
  refine ⟨_, e2, ?_, ?_⟩
  · intro p
    rw [longest_mem]
    simp only [MaximalPath, hl]
  · intro h; exact longest_nodup paths (hn h)

/-! ### `find_all_reachable` -/

theorem setAdd_spec (acc : List Nat) (x : Nat) (h : acc.Nodup) :
    (setAdd acc x).Nodup ∧ ∀ y, y ∈ setAdd acc x ↔ y ∈ acc ∨ y = x := by
  unfold setAdd
  by_cases hx : x ∈ acc
  · have hb : acc.contains x = true := by simpa using hx
    simp only [hb, if_true]
    refine ⟨h, fun y => ⟨Or.inl, ?_⟩⟩
    rintro (a | rfl)
    · exact a
    · exact hx
  · have hb : acc.contains x = false := by simpa using hx
    simp only [hb, Bool.false_eq_true, if_false]
    refine ⟨List.nodup_append.2 ⟨h, by simp, ?_⟩, by simp⟩
    intro a ha b hb'
    have : b = x := by simpa using hb'
    subst this; intro e; subst e; exact hx ha

theorem foldl_setAdd_spec (p : List Nat) : ∀ (acc : List Nat), acc.Nodup →
    (p.foldl setAdd acc).Nodup ∧ ∀ y, y ∈ p.foldl setAdd acc ↔ y ∈ acc ∨ y ∈ p := by
  induction p with
  | nil => intro acc h; simp [h]
  | cons a p ih =>
    intro acc h
    obtain ⟨h1, h2⟩ := setAdd_spec acc a h
    obtain ⟨h3, h4⟩ := ih (setAdd acc a) h1
    refine ⟨h3, ?_⟩
    intro y
    rw [List.foldl_cons, h4, h2, List.mem_cons, or_assoc]

theorem union_spec (paths : List (List Nat)) : ∀ (acc : List Nat), acc.Nodup →
    (paths.foldl (fun acc p => p.foldl setAdd acc) acc).Nodup ∧
    ∀ y, y ∈ paths.foldl (fun acc p => p.foldl setAdd acc) acc ↔ y ∈ acc ∨ ∃ p ∈ paths, y ∈ p := by
  induction paths with
  | nil => intro acc h; simp [h]
  | cons a paths ih =>
    intro acc h
    obtain ⟨h1, h2⟩ := foldl_setAdd_spec a acc h
    obtain ⟨h3, h4⟩ := ih _ h1
    refine ⟨h3, ?_⟩
    intro y
    rw [List.foldl_cons, h4, h2]
    simp only [List.mem_cons, exists_eq_or_imp, or_assoc]

/-- in a finite list, an element satisfying `P` of maximal measure -/
theorem exists_max {α : Type} (m : α → Nat) (P : α → Prop) :
    ∀ (l : List α), (∃ x ∈ l, P x) → ∃ x ∈ l, P x ∧ ∀ y ∈ l, P y → m y ≤ m x := by
  intro l
  induction l with
  | nil => rintro ⟨x, hx, _⟩; simp at hx
  | cons a l ih =>
    rintro ⟨x, hx, hP⟩
    by_cases hl : ∃ x ∈ l, P x
    · obtain ⟨z, hz, hPz, hmax⟩ := ih hl
      by_cases ha : P a ∧ m z < m a
      · refine ⟨a, by simp, ha.1, ?_⟩
        intro y hy hPy
        rcases List.mem_cons.1 hy with rfl | hy
        · exact Nat.le_refl _
        · have := hmax y hy hPy; omega
      · refine ⟨z, List.mem_cons_of_mem _ hz, hPz, ?_⟩
        intro y hy hPy
        rcases List.mem_cons.1 hy with rfl | hy
        · by_cases h : m z < m y
          · exact absurd ⟨hPy, h⟩ ha
          · omega
        · exact hmax y hy hPy
    · have hxa : x = a := by
        rcases List.mem_cons.1 hx with h | h
        · exact h
        · exact absurd ⟨x, h, hP⟩ hl
      subst hxa
      refine ⟨x, by simp, hP, ?_⟩
      intro y hy hPy
      rcases List.mem_cons.1 hy with rfl | hy
      · exact Nat.le_refl _
      · exact absurd ⟨y, hy, hPy⟩ hl

/-- every simple path is a prefix of a maximal one -/
theorem exists_maximal (g : Graph) (s : Nat) (p : List Nat) (hp : SimplePath g s p) :
    ∃ q, MaximalPath g s q ∧ p <+: q := by
  obtain ⟨paths, _, hl, _⟩ := findAllPaths_correct g s
  obtain ⟨q, hq, hpq, hmax⟩ := exists_max List.length (fun q => p <+: q) paths
    ⟨p, (hl p).2 hp, List.prefix_refl p⟩
  refine ⟨q, ⟨(hl q).1 hq, ?_⟩, hpq⟩
  intro q' hq' hqq'
  have h1 := hmax q' ((hl q').2 hq') (hpq.trans hqq')
  exact (hqq'.eq_of_length_le h1).symm

/-- `find_all_reachable` answers, with (as a duplicate-free list) exactly the vertices that lie
    on some simple path from the vertex -/
theorem findAllReachable_correct (g : Graph) (s : Nat) :
    ∃ l, findAllReachable g s = some l ∧ l.Nodup ∧
      ∀ x, x ∈ l ↔ ∃ p, SimplePath g s p ∧ x ∈ p := by
  obtain ⟨paths, e, hl, _⟩ := findLongestPaths_correct g s
  obtain ⟨h1, h2⟩ := union_spec paths [] (by simp)
  have e2 : findAllReachable g s = some (paths.foldl (fun acc p => p.foldl setAdd acc) []) := by
    simp only [findAllReachable, e, Option.map_some]
  refine ⟨_, e2, h1, ?_⟩
  intro x
  rw [h2]
  simp only [List.not_mem_nil, false_or]
  constructor
  · rintro ⟨p, hp, hx⟩
    exact ⟨p, ((hl p).1 hp).1, hx⟩
  · rintro ⟨p, hp, hx⟩
    obtain ⟨q, hq, hpq⟩ := exists_maximal g s p hp
    exact ⟨q, (hl q).2 hq, hpq.subset hx⟩

end Heph.Graph
