import Heph.Proofs.PickleLoadObj
/-! `load ∘ dump` (C13): the simulation for every fuel and the round-trip theorems. -/
namespace Heph.Pickle

theorem wellTyped_cell {h : Heap} (hw : wellTyped h = true) {a : Nat} {o : Obj} (ho : h[a]? = some o) :
    cellOK h o = true := by
  simp only [wellTyped, List.all_eq_true] at hw
  apply hw
  have hlt := lt_size_of_getElem? ho
  rw [Array.getElem?_eq_getElem hlt] at ho
  cases ho
  simp

/-- **the simulation**: every successful `save` is matched by the VM run on the emitted op-codes (every heap,
every fuel, every hash table `hr`) -/
theorem save_load (hr : String → String → Bool) (h : Heap) : ∀ fuel, SaveOK hr h fuel := by
  intro fuel
  induction fuel with
  | zero =>
    intro v g opn st L st' I hsave
    cases v with
    | ref a => simp [save] at hsave
    | _ => exact save_imm_load 0 (by intro a; simp) I hsave
  | succ fuel ih =>
    intro v g opn st L st' I hsave
    cases v with
    | ref a =>
      cases hg : st.get a with
      | some i =>
        simp only [save, hg, Option.some.injEq] at hsave
        subst hsave
        obtain ⟨a', ea, I2⟩ := binget_load I hg
        exact ⟨g, _, .ref a', Sub.of_inv_same I2 rfl rfl, rfl, ea⟩
      | none =>
        cases ho : h[a]? with
        | none => simp [save, hg, ho] at hsave
        | some o =>
          cases o with
          | str s => exact save_str_load I hg ho hsave
          | tuple xs => exact save_tuple_load ih I hg ho hsave
          | list xs => exact save_list_load ih I hg ho hsave
          | dict kvs => exact save_dict_load ih I hg ho hsave
          | set xs => exact save_set_load ih I hg ho hsave
          | frozenset xs => exact save_frozenset_load ih I hg ho hsave
          | global m q => exact save_global_load ih I hg ho hsave
          | inst c s => exact save_inst_load ih I hg ho hsave
          | reduced c kvs s => exact save_reduced_load ih I hg ho hsave
    | _ => exact save_imm_load (fuel + 1) (by intro a; simp) I hsave

theorem initInv (hr : String → String → Bool) (h : Heap) :
    Inv hr h (fun _ => none) (fun _ => False) (initD h) initL where
  runs := rfl
  tblsz := by simp [initD]
  memosz := rfl
  heapsz := rfl
  memo_of := fun a i e => by
    simp only [DState.get, initD] at e
    by_cases ha : a < h.size <;> simp [ha] at e
  dom := fun _ _ e => by cases e
  inj := fun _ _ _ e => by cases e
  bound := fun _ _ e => by cases e
  surj := fun a' ha' => by simp [initL] at ha'
  cell := fun _ _ e => by cases e

/-- the whole run: the VM accepts the dumped stream, and its final state is related to the pickler's -/
theorem dump_run (hr : String → String → Bool) {h : Heap} {r : Val} {ops : List Op} (hd : dump h r = some ops) :
    ∃ (g : Nat → Option Nat) (st : DState) (L : LState) (r' : Val),
      save h (dumpFuel h) r (initD h) = some st ∧ ops = st.out.toList ++ [.stop] ∧
      Inv hr h g (fun _ => False) st L ∧ run hr ops initL = some L ∧ L.stack = [r'] ∧ ValRel g r r' := by
  simp only [dump, Option.map_eq_some_iff] at hd
  obtain ⟨st, hs, rfl⟩ := hd
  obtain ⟨g, L, r', s, hstk, hv⟩ := save_load hr h (dumpFuel h) r _ _ _ _ _ (initInv hr h) hs
  refine ⟨g, st, L, r', hs, by simp, s.inv, ?_, hstk, hv⟩
  have : (st.out.push Op.stop).toList = st.out.toList ++ [.stop] := by simp
  rw [this]
  exact run_of_steps s.inv.runs

theorem isoW_of_inv {hr : String → String → Bool} {h : Heap} {g : Nat → Option Nat} {st : DState} {L : LState}
    {r r' : Val} (I : Inv hr h g (fun _ => False) st L) (hv : ValRel g r r') : IsoW h r L.heap r' g where
  inj := I.inj
  root := hv
  step := fun a a' e => by
    obtain ⟨o, ho, hd⟩ := I.cell a a' e
    obtain ⟨o', ho', hrel⟩ := hd (Or.inl id)
    exact ⟨o, o', ho, ho', hrel⟩

/-- **load ∘ dump**: loading what was dumped rebuilds an isomorphic graph; the rebuilt heap has exactly one cell
per object the pickler memoised -/
theorem load_dump_iso_count {h : Heap} {r : Val} {ops : List Op} (hd : dump h r = some ops) :
    ∃ h' r', load ops = some (h', r') ∧ Iso h r h' r' ∧ dumpCount h r = some h'.size := by
  obtain ⟨g, st, L, r', hs, _, I, hrun, hstk, hv⟩ := dump_run noHash hd
  refine ⟨L.heap, r', ?_, ⟨g, isoW_of_inv I hv⟩, ?_⟩
  · simp only [load, hrun, hstk]
  · simp only [dumpCount, hs, Option.map_some, I.heapsz]

/-- the rebuilt heap is again well-typed -/
theorem loaded_wellTyped {hr : String → String → Bool} {h : Heap} {g : Nat → Option Nat} {st : DState} {L : LState}
    (hw : wellTyped h = true) (I : Inv hr h g (fun _ => False) st L) : wellTyped L.heap = true := by
  simp only [wellTyped, List.all_eq_true]
  intro o' hmem
  obtain ⟨a', ha', rfl⟩ := List.getElem_of_mem hmem
  have ha'' : a' < L.heap.size := by simpa using ha'
  obtain ⟨a, ea⟩ := I.surj a' ha''
  obtain ⟨o, ho, hd⟩ := I.cell a a' ea
  obtain ⟨o2, ho2, hrel⟩ := hd (Or.inl id)
  have hcell : L.heap[a']? = some (L.heap.toList[a']) := by
    rw [Array.getElem?_eq_getElem ha'']; simp
  rw [hcell] at ho2
  cases ho2
  have hok := wellTyped_cell hw ho
  generalize L.heap.toList[a'] = o2 at hrel
  cases o <;> cases o2 <;> simp only [ObjRel] at hrel <;> (try exact hrel.elim) <;> (try rfl)
  · simp only [cellOK, Bool.and_eq_true, Option.isSome_iff_exists] at hok ⊢
    obtain ⟨⟨ms, hms⟩, ⟨qs, hqs⟩⟩ := hok
    exact ⟨⟨ms, I.strOf hrel.1 hms⟩, ⟨qs, I.strOf hrel.2 hqs⟩⟩
  · simp only [cellOK, Option.isSome_iff_exists] at hok ⊢
    obtain ⟨p, hp⟩ := hok
    exact ⟨p, I.clsName hrel.1 hp⟩
  · simp only [cellOK, Option.isSome_iff_exists] at hok ⊢
    obtain ⟨p, hp⟩ := hok
    exact ⟨p, I.clsName hrel.1 hp⟩

/-- the number of memoised objects is invariant under isomorphism (same simulation as `dump_eq_of_iso`) -/
theorem dumpCount_eq_of_iso {h h' : Heap} {r r' : Val} (iso : Iso h r h' r') (hsz : h.size = h'.size) :
    dumpCount h r = dumpCount h' r' := by
  obtain ⟨f, w⟩ := iso
  have hsim := save_sim w.inj w.step (dumpFuel h) r r' (initD h) (initD h') w.root (initD_sim h h')
  have hfuel : dumpFuel h' = dumpFuel h := by simp [dumpFuel, hsz]
  unfold dumpCount
  rw [hfuel]
  rcases hsim.elim2 with ⟨hx, hy⟩ | ⟨x, y, hx, hy, h1⟩
  · rw [hx, hy]
  · rw [hx, hy]
    simp only [Option.map_some, h1.n_eq]

/-- **the round trip closes**: for a heap all of whose cells the pickler visits, the loaded heap is isomorphic,
again without unvisited cells, and dumps to the same op-codes -/
theorem roundtrip {h : Heap} {r : Val} {ops : List Op} (hd : dump h r = some ops)
    (hall : dumpCount h r = some h.size) :
    ∃ h' r', load ops = some (h', r') ∧ Iso h r h' r' ∧ h'.size = h.size ∧
      dumpCount h' r' = some h'.size ∧ dump h' r' = some ops := by
  obtain ⟨g, st, L, r', hs, _, I, hrun, hstk, hv⟩ := dump_run noHash hd
  have hiso : Iso h r L.heap r' := ⟨g, isoW_of_inv I hv⟩
  have hsz : h.size = L.heap.size := by
    simp only [dumpCount, hs, Option.map_some, Option.some.injEq] at hall
    rw [I.heapsz]; exact hall.symm
  refine ⟨L.heap, r', ?_, hiso, hsz.symm, ?_, ?_⟩
  · simp only [load, hrun, hstk]
  · rw [← dumpCount_eq_of_iso hiso hsz, hall, hsz]
  · rw [← dump_eq_of_iso hiso hsz]; exact hd

end Heph.Pickle
