import Heph.Proofs.TransJavaBalHint
/-! The induction invariant of the full balance proof (`VOK2`: on programs with well-formed atoms
every visit answers a neutral text, keeps the texts collected for `class Main` neutral and the
smart-cast stack well-formed), the child-list lemmas, and the leaf cases. -/
namespace Heph.TransJava
open Heph
set_option linter.unusedSimpArgs false
set_option linter.unusedVariables false
set_option linter.unusedSectionVars false

/-- the state invariant: collected texts are neutral, smart casts are well-formed types -/
def StOK2 (st : St) : Prop := StOK st ∧ SCOK st.smartCasts

/-- the invariant of a visit function on the whole node language -/
def VOK2 (v : St → Node → St × Text) : Prop :=
  ∀ st n, StOK2 st → AtomsOK n →
    StOK2 (v st n).1 ∧ Neutral (v st n).2 ∧ (isParamDecl n = true → ParamTextOK (v st n).2)

theorem stOK2_init : StOK2 St.init := ⟨stOK_init, fun p hp => by cases hp⟩

theorem StOK2.with_eq {s s' : St} (h : StOK2 s) (h1 : s'.mainChildren = s.mainChildren)
    (h2 : s'.mainMethod = s.mainMethod) (h3 : s'.smartCasts = s.smartCasts) : StOK2 s' := by
  unfold StOK2 at *; rw [h3]; exact ⟨h.1.with_eq h1 h2, h.2⟩

theorem StOK2.push {s s' : St} {key : Option String × Ty} (h : StOK2 s) (hk : WF key.2)
    (h1 : s'.mainChildren = s.mainChildren) (h2 : s'.mainMethod = s.mainMethod)
    (h3 : s'.smartCasts = s.smartCasts ++ [key]) : StOK2 s' := by
  unfold StOK2 at *; rw [h3]
  refine ⟨h.1.with_eq h1 h2, ?_⟩
  intro p hp
  rcases List.mem_append.mp hp with hp | hp
  · exact h.2 p hp
  · simp only [List.mem_singleton] at hp; rw [hp]; exact hk

theorem StOK2.pop {s s' : St} (h : StOK2 s) (h1 : s'.mainChildren = s.mainChildren)
    (h2 : s'.mainMethod = s.mainMethod) (h3 : s'.smartCasts = s.smartCasts.dropLast) : StOK2 s' := by
  unfold StOK2 at *; rw [h3]
  exact ⟨h.1.with_eq h1 h2, fun p hp => h.2 p ((List.dropLast_sublist _).subset hp)⟩

/-- a fresh translator with other scalar fields (the one `construct_constructor` builds) -/
theorem stOK2_fresh (c : Bool) (ns : List String) : StOK2 { St.init with castNumber := c, ns := ns } :=
  stOK2_init.with_eq rfl rfl rfl

theorem VOK2.st {v : St → Node → St × Text} (hv : VOK2 v) {s : St} {n : Node} (hs : StOK2 s) (hn : AtomsOK n) :
    StOK2 (v s n).1 := (hv s n hs hn).1
theorem VOK2.tx {v : St → Node → St × Text} (hv : VOK2 v) {s : St} {n : Node} (hs : StOK2 s) (hn : AtomsOK n) :
    Neutral (v s n).2 := (hv s n hs hn).2.1

/-! ### lists of children -/

theorem visitL_ok2 {v : St → Node → St × Text} (hv : VOK2 v) :
    ∀ (xs : List Node) (st : St), StOK2 st → AtomsOKL xs →
      StOK2 (visitL v st xs).1 ∧ (∀ r ∈ (visitL v st xs).2, Neutral r) ∧
        ((∀ x ∈ xs, isParamDecl x = true) → ∀ r ∈ (visitL v st xs).2, ParamTextOK r) := by
  intro xs st hst hxs
  unfold visitL
  suffices h : ∀ (acc : St × List Text), StOK2 acc.1 → (∀ r ∈ acc.2, Neutral r) →
      StOK2 (xs.foldl (fun (acc : St × List Text) x => ((v acc.1 x).1, acc.2 ++ [(v acc.1 x).2])) acc).1 ∧
      (∀ r ∈ (xs.foldl (fun (acc : St × List Text) x => ((v acc.1 x).1, acc.2 ++ [(v acc.1 x).2])) acc).2, Neutral r) ∧
      ((∀ x ∈ xs, isParamDecl x = true) → (∀ r ∈ acc.2, ParamTextOK r) →
        ∀ r ∈ (xs.foldl (fun (acc : St × List Text) x => ((v acc.1 x).1, acc.2 ++ [(v acc.1 x).2])) acc).2, ParamTextOK r) by
    have := h (st, []) hst (by intro r hr; cases hr)
    exact ⟨this.1, this.2.1, fun hp => this.2.2 hp (by intro r hr; cases hr)⟩
  induction xs with
  | nil => intro acc h1 h2; exact ⟨h1, h2, fun _ h3 => h3⟩
  | cons x xs ih =>
    intro acc h1 h2
    have hxs' := AtomsOKL.cons hxs
    simp only [List.foldl_cons]
    have hx := hv acc.1 x h1 hxs'.1
    have hn : ∀ r ∈ acc.2 ++ [(v acc.1 x).2], Neutral r := by
      intro r hr
      rcases List.mem_append.mp hr with hr | hr
      · exact h2 r hr
      · simp only [List.mem_singleton] at hr; rw [hr]; exact hx.2.1
    have := ih hxs'.2 ((v acc.1 x).1, acc.2 ++ [(v acc.1 x).2]) hx.1 hn
    refine ⟨this.1, this.2.1, ?_⟩
    intro hp h3
    apply this.2.2 (fun y hy => hp y (by simp [hy]))
    intro r hr
    rcases List.mem_append.mp hr with hr | hr
    · exact h3 r hr
    · simp only [List.mem_singleton] at hr; rw [hr]; exact hx.2.2 (hp x (by simp))

/-- the child loop of `visit_block` -/
theorem visitBlockKids_ok {v : St → Node → St × Text} (hv : VOK2 v) :
    ∀ (xs : List Node) (st : St), StOK2 st → AtomsOKL xs →
      StOK2 (visitBlockKids v st xs).1 ∧ (∀ r ∈ (visitBlockKids v st xs).2, Neutral r)
  | [], st, hst, _ => by simp only [visitBlockKids]; exact ⟨hst, by intro r hr; cases hr⟩
  | [x], st, hst, hxs => by
    simp only [visitBlockKids]
    have h := hv { st with castNumber := true } x (hst.with_eq rfl rfl rfl) (AtomsOKL.cons hxs).1
    refine ⟨h.1.with_eq rfl rfl rfl, ?_⟩
    intro r hr
    simp only [List.mem_singleton] at hr
    rw [hr]; exact h.2.1
  | x :: y :: rest, st, hst, hxs => by
    simp only [visitBlockKids]
    have h := hv st x hst (AtomsOKL.cons hxs).1
    have h' := visitBlockKids_ok hv (y :: rest) (v st x).1 h.1 (AtomsOKL.cons hxs).2
    refine ⟨h'.1, ?_⟩
    intro r hr
    rcases List.mem_cons.mp hr with hr | hr
    · rw [hr]; exact h.2.1
    · exact h'.2 r hr

/-- discharge `StOK2` of a state built from visits and field updates -/
macro "st_ok2" : tactic => `(tactic| iterate 24 (first
  | done
  | assumption
  | exact stOK2_init
  | exact stOK2_fresh _ _
  | refine VOK2.st ‹VOK2 _› ?_ (by assumption)
  | refine (visitL_ok2 ‹VOK2 _› _ _ ?_ (by assumption)).1
  | refine (visitBlockKids_ok ‹VOK2 _› _ _ ?_ (by assumption)).1
  | exact StOK2.with_eq (by assumption) rfl rfl rfl))

/-! ### atoms -/

theorem wordL_ofB {s : String} (h : wordB s = true) : WordL s.toList := by
  simp only [wordB, Bool.and_eq_true, Bool.not_eq_true', List.all_eq_true] at h
  refine ⟨?_, fun c hc => by simpa using h.2 c hc⟩
  intro hnil
  rw [hnil] at h
  simp at h

theorem WF_paramPrinted {t : Ty} (h : WF t) (vararg : Bool) : WF (paramPrinted t vararg) := by
  unfold paramPrinted
  split
  · exact h.args _ (by simp)
  · exact h

theorem WF_arrayElem {t : Ty} (h : WF t) : ∀ a, arrayElem t = some a → WF a := by
  intro a ha
  unfold arrayElem at ha
  split at ha
  · cases ha; exact h.args _ (by simp)
  · cases ha

theorem brFree_declName {n : Node} (h : AtomsOK n) : BrFree (declName n) := by
  cases n <;> simp only [declName] <;> first | (exact (show BrFree "" by decide)) | skip
  all_goals (atoms_unfold h)
  case funcDecl => exact BrFree.ofB h.1.1.1.1.1.1
  case classDecl => exact BrFree.ofB h.1.1.1.1
  case varDecl => exact BrFree.ofB h.1.1.1
  case fieldDecl => exact BrFree.ofB h.1
  case paramDecl => exact BrFree.ofB h.1.1
  case lambda => exact BrFree.ofB h.1.1.1.1

/-! ### leaves -/

section cases
variable (e : Env) {v : St → Node → St × Text} (hv : VOK2 v) (st : St) (hst : StOK2 st)
include hv hst

theorem ok2_bottom (t : Option Ty) (hn : AtomsOK (.bottom t)) :
    StOK2 (visitNode e v st (.bottom t)).1 ∧ Neutral (visitNode e v st (.bottom t)).2 := by
  atoms_unfold hn
  cases t with
  | none =>
    simp only [visitNode]
    refine ⟨hst, ?_⟩
    by_cases hp : parentIsFuncRef st = true <;> fin_neutral [hp]
  | some x =>
    simp only [visitNode]
    refine ⟨hst, ?_⟩
    have := (TyOK.ofWF (t := x) hn).name false false
    by_cases hb : Ty.beq x .nothing = true <;> by_cases hp : parentIsFuncRef st = true <;>
      fin_neutral [hb, hp, this.eq]

omit hv in
theorem ok2_lit (lit : String) (hl : BrFree lit) (pre post : String) (hpre : BrFree pre) (hpost : BrFree post) :
    Neutral (sp st.ident ++ pre ++ lit ++ post ++ semi st) := ok_leaf_lit st pre lit post hpre hl hpost

theorem ok2_intC (lit : String) (t : Option Ty) (hn : AtomsOK (.intC lit t)) :
    StOK2 (visitNode e v st (.intC lit t)).1 ∧ Neutral (visitNode e v st (.intC lit t)).2 := by
  atoms_unfold hn
  have h1 := (BrFree.ofB hn.1).neutral
  have hc : Neutral (intCast t lit) := by
    unfold intCast
    (repeat' split) <;> fin_neutral [h1.eq]
  simp only [visitNode]
  split
  · exact ⟨hst, by fin_neutral [h1.eq]⟩
  · exact ⟨hst, by fin_neutral [hc.eq]⟩

theorem ok2_realC (lit : String) (t : Option Ty) (hn : AtomsOK (.realC lit t)) :
    StOK2 (visitNode e v st (.realC lit t)).1 ∧ Neutral (visitNode e v st (.realC lit t)).2 := by
  atoms_unfold hn
  have h1 := (BrFree.ofB hn.1).neutral
  have hc : Neutral (realCast t lit) := by
    unfold realCast
    (repeat' split) <;> fin_neutral [h1.eq]
  simp only [visitNode]
  split
  · exact ⟨hst, by fin_neutral [h1.eq]⟩
  · exact ⟨hst, by fin_neutral [hc.eq]⟩

theorem ok2_boolC (lit : String) (hn : AtomsOK (.boolC lit)) :
    StOK2 (visitNode e v st (.boolC lit)).1 ∧ Neutral (visitNode e v st (.boolC lit)).2 := by
  atoms_unfold hn
  have h1 := (BrFree.ofB hn).neutral
  simp only [visitNode]
  exact ⟨hst, by fin_neutral [h1.eq]⟩

theorem ok2_charC (lit : String) (hn : AtomsOK (.charC lit)) :
    StOK2 (visitNode e v st (.charC lit)).1 ∧ Neutral (visitNode e v st (.charC lit)).2 := by
  atoms_unfold hn
  have h1 := (BrFree.ofB hn).neutral
  simp only [visitNode]
  exact ⟨hst, by fin_neutral [h1.eq]⟩

theorem ok2_stringC (lit : String) (hn : AtomsOK (.stringC lit)) :
    StOK2 (visitNode e v st (.stringC lit)).1 ∧ Neutral (visitNode e v st (.stringC lit)).2 := by
  atoms_unfold hn
  have h1 := (BrFree.ofB hn).neutral
  simp only [visitNode]
  exact ⟨hst, by fin_neutral [h1.eq]⟩

theorem ok2_variable (name : String) (hn : AtomsOK (.variable name)) :
    StOK2 (visitNode e v st (.variable name)).1 ∧ Neutral (visitNode e v st (.variable name)).2 := by
  atoms_unfold hn
  have h1 := (BrFree.ofB hn).neutral
  simp only [visitNode]
  exact ⟨hst, by fin_neutral [h1.eq]⟩

theorem ok2_superInst (t : Ty) (args : Option (List Node)) (hn : AtomsOK (.superInst t args)) :
    StOK2 (visitNode e v st (.superInst t args)).1 ∧ Neutral (visitNode e v st (.superInst t args)).2 := by
  atoms_unfold hn
  simp only [visitNode]
  exact ⟨hst, (TyOK.ofWF hn.1).name _ _⟩

theorem ok2_fieldDecl (name : String) (t : Ty) (fin co ov : Bool) (hn : AtomsOK (.fieldDecl name t fin co ov)) :
    StOK2 (visitNode e v st (.fieldDecl name t fin co ov)).1 ∧ Neutral (visitNode e v st (.fieldDecl name t fin co ov)).2 := by
  atoms_unfold hn
  have h1 := (BrFree.ofB hn.1).neutral
  have h2 := (TyOK.ofWF hn.2).name false false
  simp only [visitNode]
  refine ⟨hst, ?_⟩
  cases fin <;> fin_neutral [h1.eq, h2.eq]

theorem ok2_paramDecl (name : String) (t : Ty) (vararg : Bool) (d : Option Node) (hn : AtomsOK (.paramDecl name t vararg d)) :
    StOK2 (visitNode e v st (.paramDecl name t vararg d)).1 ∧ Neutral (visitNode e v st (.paramDecl name t vararg d)).2 ∧
      ParamTextOK (visitNode e v st (.paramDecl name t vararg d)).2 := by
  atoms_unfold hn
  simp only [visitNode]
  have := paramText_ok name (paramPrinted t vararg) vararg ⟨wordL_ofB hn.1.2, BrFree.ofB hn.1.1⟩
    (TyOK.ofWF (WF_paramPrinted hn.2 _))
  exact ⟨hst, this.1, this.2⟩

end cases

end Heph.TransJava
