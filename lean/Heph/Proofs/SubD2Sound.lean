import Heph.Model.SubD2
import Heph.Proofs.TypesBasic
/-!
# Soundness of the declarative decider `isSubD` w.r.t. `SubT U` (for every fuel)

Simultaneous induction on the fuel for `isSubD`, `anySubD`, `argsD`, `argD`.  No
well-formedness hypothesis is needed: the decider only ever answers `true` along a rule of `SubT`.
-/
namespace Heph
namespace Ty
namespace D2

variable {U : Ty → Prop}

def SndS (U : Ty → Prop) (f : Nat) : Prop := ∀ s t, U s → U t → isSubD f s t = true → SubT U s t
def SndA (U : Ty → Prop) (f : Nat) : Prop :=
  ∀ us t, (∀ u ∈ us, U u) → U t → anySubD f us t = true → ∃ u ∈ us, SubT U u t
def SndCL (U : Ty → Prop) (f : Nat) : Prop :=
  ∀ tps as bs, (∀ a ∈ as, U a) → (∀ b ∈ bs, U b) → argsD f tps as bs = true → ContL U tps as bs
def SndC (U : Ty → Prop) (f : Nat) : Prop :=
  ∀ tp a b, U a → U b → argD f tp a b = true → Cont U tp a b

theorem asProj_some {a : Ty} {v : Nat} {bd : Option Ty} (h : asProj a = some (v, bd)) : a = wild v bd := by
  cases a <;> simp [asProj] at h
  obtain ⟨rfl, rfl⟩ := h; rfl

theorem asProj_none {a : Ty} (h : asProj a = none) : isWild a = false := by
  cases a <;> simp [asProj, isWild] at h ⊢

theorem isBottomTy_sub {s t : Ty} (h : isBottomTy s = true) : SubT U s t := by
  cases s <;> simp [isBottomTy] at h
  · subst h; exact SubT.botBuiltin
  · exact SubT.bot

theorem argD_step (hU : ClosedU U) {f : Nat} (ih : SndS U f) : SndC U (f + 1) := by
  intro tp a b ua ub h
  simp only [argD, Bool.or_eq_true] at h
  rcases h with h | h
  · exact Cont.same h
  · split at h
    · rename_i va x vb y ha hb
      have ea := asProj_some ha
      have eb := asProj_some hb
      subst ea eb
      have ux := closedU_wild hU ua
      have uy := closedU_wild hU ub
      simp only [Bool.or_eq_true, Bool.and_eq_true, beq_iff_eq] at h
      rcases h with ⟨⟨rfl, rfl⟩, h⟩ | ⟨⟨rfl, rfl⟩, h⟩
      · exact Cont.outOut (ih _ _ ux uy h)
      · exact Cont.inIn (ih _ _ uy ux h)
    · cases h
    · rename_i vb hb hna
      have eb := asProj_some hb
      subst eb
      refine Cont.star ?_
      cases hpa : asProj a with
      | none => exact Or.inl (asProj_none hpa)
      | some pr =>
        obtain ⟨va, bd⟩ := pr
        have ea := asProj_some hpa
        subst ea
        cases bd with
        | none => exact absurd hpa (hna va)
        | some x => exact Or.inr (by simp [boundOf])
    · rename_i va x ha hb
      have ea := asProj_some ha
      subst ea
      have hbw := asProj_none hb
      have ux := closedU_wild hU ua
      simp only [Bool.or_eq_true, Bool.and_eq_true, beq_iff_eq] at h
      rcases h with ⟨⟨rfl, hv⟩, h⟩ | ⟨⟨rfl, hv⟩, h⟩
      · exact Cont.projDeclCo hv hbw (ih _ _ ux ub h)
      · exact Cont.projDeclContra hv hbw (ih _ _ ub ux h)
    · rename_i vb y ha hb
      have eb := asProj_some hb
      subst eb
      have haw := asProj_none ha
      have uy := closedU_wild hU ub
      simp only [Bool.or_eq_true, Bool.and_eq_true, beq_iff_eq] at h
      rcases h with ⟨rfl, h⟩ | ⟨rfl, h⟩
      · exact Cont.useOut haw (ih _ _ ua uy h)
      · exact Cont.useIn haw (ih _ _ uy ua h)
    · rename_i ha hb
      have haw := asProj_none ha
      have hbw := asProj_none hb
      simp only [Bool.or_eq_true, Bool.and_eq_true, beq_iff_eq] at h
      rcases h with ⟨hv, h⟩ | ⟨hv, h⟩
      · exact Cont.declCo hv haw hbw (ih _ _ ua ub h)
      · exact Cont.declContra hv haw hbw (ih _ _ ub ua h)

theorem argsD_step {f : Nat} (ihC : SndC U f) (ihCL : SndCL U f) : SndCL U (f + 1) := by
  intro tps as bs ua ub h
  match tps, as, bs with
  | [], [], [] => exact ContL.stop (Or.inl rfl)
  | tp :: tps, a :: as, b :: bs =>
    simp only [argsD, Bool.and_eq_true] at h
    exact ContL.cons (ihC _ _ _ (ua a (by simp)) (ub b (by simp)) h.1)
      (ihCL _ _ _ (fun x hx => ua x (by simp [hx])) (fun x hx => ub x (by simp [hx])) h.2)
  | [], _ :: _, _ => simp [argsD] at h
  | [], [], _ :: _ => simp [argsD] at h
  | _ :: _, [], _ => simp [argsD] at h
  | _ :: _, _ :: _, [] => simp [argsD] at h

theorem anySubD_step {f : Nat} (ihS : SndS U f) (ihA : SndA U f) : SndA U (f + 1) := by
  intro us t uu ut h
  match us with
  | [] => simp [anySubD] at h
  | u :: us =>
    simp only [anySubD, Bool.or_eq_true] at h
    rcases h with h | h
    · exact ⟨u, by simp, ihS _ _ (uu u (by simp)) ut h⟩
    · obtain ⟨w, hw, hs⟩ := ihA us t (fun x hx => uu x (by simp [hx])) ut h
      exact ⟨w, by simp [hw], hs⟩

theorem isSubD_step (hU : ClosedU U) {f : Nat} (ihS : SndS U f) (ihA : SndA U f) (ihCL : SndCL U f) :
    SndS U (f + 1) := by
  intro s t us ut h
  simp only [isSubD, Bool.or_eq_true] at h
  rcases h with ((((((h | h) | h) | h) | h) | h) | h)
  · exact SubT.refl h
  · exact SubT.reflR h
  · exact isBottomTy_sub h
  · split at h
    · rename_i nm v bd
      have ub := closedU_tparam hU us
      exact SubT.trans ub SubT.tvar (ihS _ _ ub ut h)
    · cases h
  · split at h
    · rename_i vs sb vt ob hs ht
      have es := asProj_some hs
      have et := asProj_some ht
      subst es et
      simp only [Bool.and_eq_true, beq_iff_eq] at h
      obtain ⟨⟨rfl, rfl⟩, h⟩ := h
      exact SubT.projOut (ihS _ _ (closedU_wild hU us) (closedU_wild hU ut) h)
    · cases h
  · obtain ⟨u, hu, hs⟩ := ihA _ _ (closedU_sups hU us) ut h
    exact SubT.trans (closedU_sups hU us u hu) (SubT.nominal hu) hs
  · split at h
    · rename_i nm con as ss nm' con' bs ss'
      simp only [Bool.and_eq_true] at h
      exact SubT.args h.1 (ihCL _ _ _ (closedU_args hU us) (closedU_args hU ut) h.2)
    · cases h

theorem isSubD_sound_all (hU : ClosedU U) : ∀ f, SndS U f ∧ SndA U f ∧ SndCL U f ∧ SndC U f := by
  intro f
  induction f with
  | zero =>
    refine ⟨?_, ?_, ?_, ?_⟩
    · intro s t _ _ h; simp [isSubD] at h
    · intro us t _ _ h; simp [anySubD] at h
    · intro tps as bs _ _ h; simp [argsD] at h
    · intro tp a b _ _ h; simp [argD] at h
  | succ f ih =>
    obtain ⟨iS, iA, iCL, iC⟩ := ih
    exact ⟨isSubD_step hU iS iA iCL, anySubD_step iS iA, argsD_step iC iCL, argD_step hU iS⟩

/-- **soundness of the declarative decider**, for every fuel -/
theorem isSubD_sound (hU : ClosedU U) (f : Nat) {s t : Ty} (us : U s) (ut : U t)
    (h : isSubD f s t = true) : SubT U s t :=
  (isSubD_sound_all hU f).1 s t us ut h

theorem isSubDTop_sound (hU : ClosedU U) {s t : Ty} (us : U s) (ut : U t)
    (h : isSubDTop s t = true) : SubT U s t :=
  isSubD_sound hU _ us ut h

end D2
end Ty
end Heph
