import Heph.Proofs.PickleStable
/-! `save` is monotone in its fuel (C13); hence isomorphic rooted heaps of ANY sizes have the same op-code stream
whenever both dumps succeed. -/
namespace Heph.Pickle

/-- `r'` succeeds wherever `r` does, with the same result -/
def FLe {α : Type} (r r' : α → DState → Option DState) : Prop := ∀ x s s', r x s = some s' → r' x s = some s'

theorem foldlM_mono {r r' : Val → DState → Option DState} (hle : FLe r r') :
    ∀ (xs : List Val) (st st' : DState), xs.foldlM (fun st x => r x st) st = some st' →
      xs.foldlM (fun st x => r' x st) st = some st' := by
  intro xs
  induction xs with
  | nil => intro st st' hs; exact hs
  | cons x xs ih =>
    intro st st' hs
    simp only [List.foldlM_cons, Option.bind_eq_bind] at hs ⊢
    cases hx : r x st with
    | none => simp [hx] at hs
    | some s1 =>
      rw [hx] at hs
      rw [hle x st s1 hx]
      exact ih s1 st' hs

theorem saveItems_mono {α : Type} {se se' : α → DState → Option DState} (hle : FLe se se') (single multi : Op)
    (style : Style) : ∀ (xs : List α) (i : Nat) (st st' : DState),
      saveItems se single multi style i xs st = some st' → saveItems se' single multi style i xs st = some st' := by
  intro xs
  induction xs with
  | nil => intro i st st' hs; simpa [saveItems] using hs
  | cons x xs ih =>
    intro i st st' hs
    unfold saveItems at hs ⊢
    dsimp only at hs ⊢
    by_cases hc : (i % BATCH == 0 && xs.isEmpty && singleFormOK style i) = true
    · rw [if_pos hc] at hs ⊢
      cases hx : se x st with
      | none => rw [hx] at hs; simp at hs
      | some s1 => rw [hx] at hs; rw [hle x st s1 hx]; exact hs
    · rw [if_neg hc] at hs ⊢
      cases hx : se x (if (i % BATCH == 0) = true then st.emit .mark else st) with
      | none => rw [hx] at hs; simp at hs
      | some s1 =>
        rw [hx] at hs
        rw [hle x _ s1 hx]
        dsimp only at hs ⊢
        exact ih _ _ _ hs

theorem pair_mono {r r' : Val → DState → Option DState} (hle : FLe r r') :
    FLe (fun (p : Val × Val) st => (r p.1 st).bind (r p.2)) (fun (p : Val × Val) st => (r' p.1 st).bind (r' p.2)) := by
  intro p s s' hs
  dsimp only at hs ⊢
  cases hk : r p.1 s with
  | none => simp [hk] at hs
  | some s1 =>
    rw [hk] at hs
    rw [hle _ _ _ hk]
    simp only [Option.bind_some] at hs ⊢
    exact hle _ _ _ hs

theorem state_mono {r r' : Val → DState → Option DState} (hle : FLe r r') {state : Option Val} {st st' : DState} :
    (match state with | none => some st | some s => (r s st).map (·.emit .build)) = some st' →
    (match state with | none => some st | some s => (r' s st).map (·.emit .build)) = some st' := by
  intro hs
  cases state with
  | none => exact hs
  | some s =>
    dsimp only at hs ⊢
    cases hk : r s st with
    | none => simp [hk] at hs
    | some s1 => rw [hk] at hs; rw [hle _ _ _ hk]; exact hs

/-- one more unit of fuel never hurts -/
theorem save_mono_succ {h : Heap} : ∀ (fuel : Nat) (v : Val) (st st' : DState),
    save h fuel v st = some st' → save h (fuel + 1) v st = some st' := by
  intro fuel
  induction fuel with
  | zero =>
    intro v st st' hs
    cases v <;> simp only [save] at hs ⊢ <;> first | exact hs | cases hs
  | succ n ih =>
    intro v st st' hs
    have hle : FLe (fun x s => save h n x s) (fun x s => save h (n + 1) x s) := fun x s s' e => ih x s s' e
    cases v with
    | ref a =>
      cases hg : st.get a with
      | some i => simp only [save, hg] at hs ⊢; exact hs
      | none =>
        cases ho : h[a]? with
        | none => simp [save, hg, ho] at hs
        | some o =>
          cases o with
          | str s => simp only [save, hg, ho] at hs ⊢; exact hs
          | tuple xs =>
            simp only [save, hg, ho] at hs ⊢
            split at hs
            · cases hs
            rename_i hne
            rw [if_neg hne]
            split at hs
            · cases hs
            rename_i st1 hfold
            rw [foldlM_mono hle _ _ _ hfold]
            exact hs
          | frozenset xs =>
            simp only [save, hg, ho] at hs ⊢
            split at hs
            · cases hs
            rename_i st1 hfold
            rw [foldlM_mono hle _ _ _ hfold]
            exact hs
          | list xs =>
            simp only [save, hg, ho] at hs ⊢
            exact saveItems_mono hle _ _ _ _ _ _ _ hs
          | dict kvs =>
            simp only [save, hg, ho, Option.map_eq_some_iff] at hs ⊢
            obtain ⟨s2, h2, e⟩ := hs
            exact ⟨s2, saveItems_mono (pair_mono hle) _ _ _ _ _ _ _ h2, e⟩
          | set xs =>
            simp only [save, hg, ho, Option.map_eq_some_iff] at hs ⊢
            obtain ⟨s2, h2, e⟩ := hs
            exact ⟨s2, saveItems_mono hle _ _ _ _ _ _ _ h2, e⟩
          | global m q =>
            simp only [save, hg, ho] at hs ⊢
            split at hs
            rotate_left
            · cases hs
            rename_i hok
            rw [if_pos hok]
            split at hs
            · cases hs
            rename_i s1 h1
            simp only [ih _ _ _ h1]
            split at hs
            · cases hs
            rename_i s2 h2
            simp only [ih _ _ _ h2]
            exact hs
          | inst c s =>
            simp only [save, hg, ho] at hs ⊢
            split at hs
            rotate_left
            · cases hs
            rename_i hok
            rw [if_pos hok]
            split at hs
            · cases hs
            rename_i s1 h1
            simp only [ih _ _ _ h1]
            exact state_mono hle hs
          | reduced c kvs s =>
            simp only [save, hg, ho] at hs ⊢
            split at hs
            rotate_left
            · cases hs
            rename_i hok
            rw [if_pos hok]
            split at hs
            · cases hs
            rename_i s1 h1
            simp only [ih _ _ _ h1]
            split at hs
            · cases hs
            rename_i s2 h2
            simp only [saveItems_mono (pair_mono hle) _ _ _ _ _ _ _ h2]
            exact state_mono hle hs
    | _ => simp only [save] at hs ⊢; exact hs

theorem save_mono {h : Heap} {fuel fuel' : Nat} (hle : fuel ≤ fuel') {v : Val} {st st' : DState}
    (hs : save h fuel v st = some st') : save h fuel' v st = some st' := by
  induction hle with
  | refl => exact hs
  | step _ ih => exact save_mono_succ _ _ _ _ ih

/-- **dump is invariant under isomorphism wherever it is defined**: isomorphic rooted heaps of any sizes on which
both dumps succeed have the same op-code stream.  (What the full `dump_stable` adds is that success itself does
not depend on the number of unvisited cells, i.e. adequacy of the fuel of the smaller heap.) -/
theorem dump_eq_of_iso_defined {h h' : Heap} {r r' : Val} {ops ops' : List Op} (iso : Iso h r h' r')
    (hd : dump h r = some ops) (hd' : dump h' r' = some ops') : ops = ops' := by
  obtain ⟨f, w⟩ := iso
  simp only [dump, Option.map_eq_some_iff] at hd hd'
  obtain ⟨st, hs, rfl⟩ := hd
  obtain ⟨st', hs', rfl⟩ := hd'
  have key : ∀ F, dumpFuel h ≤ F → dumpFuel h' ≤ F → st.out = st'.out := by
    intro F h1 h2
    have e1 := save_mono h1 hs
    have e2 := save_mono h2 hs'
    have hsim := save_sim w.inj w.step F r r' (initD h) (initD h') w.root (initD_sim h h')
    rw [e1, e2] at hsim
    exact hsim.out_eq
  have := key (max (dumpFuel h) (dumpFuel h')) (Nat.le_max_left _ _) (Nat.le_max_right _ _)
  rw [this]

/-- definedness transfers from the smaller heap to the larger one -/
theorem dump_up_of_iso {h h' : Heap} {r r' : Val} {ops : List Op} (iso : Iso h r h' r') (hsz : h.size ≤ h'.size)
    (hd : dump h r = some ops) : dump h' r' = some ops := by
  obtain ⟨f, w⟩ := iso
  simp only [dump, Option.map_eq_some_iff] at hd ⊢
  obtain ⟨st, hs, rfl⟩ := hd
  have hF : dumpFuel h ≤ dumpFuel h' := by
    simp only [dumpFuel]
    exact Nat.add_le_add_right (Nat.mul_le_mul (Nat.add_le_add_right hsz 1) (Nat.add_le_add_right hsz 1)) 1
  have e1 := save_mono hF hs
  have hsim := save_sim w.inj w.step (dumpFuel h') r r' (initD h) (initD h') w.root (initD_sim h h')
  rw [e1] at hsim
  cases hy : save h' (dumpFuel h') r' (initD h') with
  | none => rw [hy] at hsim; exact hsim.elim
  | some y =>
    rw [hy] at hsim
    have h1 : SimRel f h.size h'.size st y := hsim
    exact ⟨y, rfl, by rw [h1.out_eq]⟩

end Heph.Pickle
