import Heph.Proofs.SubstNew
import Heph.Proofs.SubstDecEq
/-!
# A concrete generic hierarchy (witnesses for the examples and counterexamples of C07)

```
class Root<T>
class Base<T> : Root<T>
class Lst<out T>
class Foo<X> : Base<Lst<X>>
class Box<X, Z : Lst<X>> : Base<Z>, Root<Base<out X>>
class Bad<X> : Base<Y>            -- Y is not a parameter of Bad
```
Declared supertypes are built with `TypeConstructor.new`, as the generators do.
-/
namespace Heph.C07W
open Heph.Ty

def tcCls : String := "<class 'src.ir.types.TypeConstructor'>"
def strT : Ty := builtin "<class 'src.ir.kotlin_types.StringType'>" "String" false false []
def intT : Ty := builtin "<class 'src.ir.kotlin_types.IntegerType'>" "Int" false false []
def tT : Ty := tparam "T" 0 none
def tOutT : Ty := tparam "T" 1 none
def tX : Ty := tparam "X" 0 none
def tY : Ty := tparam "Y" 0 none
def rootC : Ty := tcon tcCls "Root" [tT] []
def baseC : Ty := tcon tcCls "Base" [tT] [tconNew rootC [tT]]
def lstC : Ty := tcon tcCls "Lst" [tOutT] []
def fooC : Ty := tcon tcCls "Foo" [tX] [tconNew baseC [tconNew lstC [tX]]]
def tZ : Ty := tparam "Z" 0 (some (tconNew lstC [tX]))
def boxC : Ty :=
  tcon tcCls "Box" [tX, tZ] [tconNew baseC [tZ], tconNew rootC [tconNew baseC [wild 1 (some tX)]]]
def badC : Ty := tcon tcCls "Bad" [tX] [tconNew baseC [tY]]

end Heph.C07W
