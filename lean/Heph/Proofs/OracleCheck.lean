import Heph.Proofs.OracleLoops
/-! `check_oracle` as a whole: what a normal return says (any variant), and that the repaired
code always returns normally on a staged batch. -/
namespace Heph.Oracle

/-- the row of the decision table the code of variant `v` implements -/
def reportedRow (v : Variant) (o : Outcome) (p : Prog) : Bool :=
  match o.crash with
  | some _ => v.crashFix || !p.toolFailed
  | none => p.toolFailed || p.mismatch o

theorem reportedRow_repaired (v : Variant) (hv : v.crashFix = true) (o : Outcome) (p : Prog) :
    reportedRow v o p = faulty o p := by
  unfold reportedRow
  cases hc : o.crash with
  | none => simp [faulty_noCrash hc]
  | some m => simp [faulty, hc, hv]

theorem reportedRow_asIs_of_live (v : Variant) (o : Outcome) (p : Prog)
    (h : o.crash.isSome = true → p.toolFailed = false) : reportedRow v o p = faulty o p := by
  unfold reportedRow
  cases hc : o.crash with
  | none => simp [faulty_noCrash hc]
  | some m => simp [faulty, hc, h (by simp [hc])]

theorem compilerFault_eq (o : Outcome) (p : Prog) :
    compilerFault o p = (!p.toolFailed && (o.crash.isSome || p.mismatch o)) := by
  unfold compilerFault
  cases hc : o.crash with
  | none => rw [faulty_noCrash hc]; cases p.toolFailed <;> simp
  | some m => unfold faulty; rw [hc]; cases p.toolFailed <;> simp

/-- a normal return of `check_oracle`, any variant -/
theorem checkOracleV_ok {v : Variant} {b : Batch} {o : Outcome} {fs fs' : FS} {out : Reported}
    (h : checkOracleV v b o fs = .ok (out, fs')) :
    (∀ k, k ∈ keys out ↔ ∃ p ∈ b.progs, p.pid = k ∧ reportedRow v o p = true) ∧
    (∀ k, Path.saved k ∈ fs' ↔ Path.saved k ∈ fs ∨ ∃ p ∈ b.progs, p.pid = k ∧ compilerFault o p = true) ∧
    (∀ n, Path.batch n ∈ fs' ↔ Path.batch n ∈ fs ∧ n ≠ b.dir) ∧
    (∀ k, Path.tmp k ∈ fs' ↔ Path.tmp k ∈ fs ∧
        (o.crash = none → ∀ p ∈ b.progs, p.toolFailed = false → p.pid ≠ k)) := by
  unfold checkOracleV at h
  split at h
  · rename_i msg hc
    split at h
    · cases h
    · rename_i fs1 hr
      have hrm := rmtree_ok hr
      obtain ⟨a1, a2⟩ := crashLoop_ok h
      refine ⟨fun k => ?_, fun k => ?_, fun n => ?_, fun k => ?_⟩
      · rw [a1]; simp [keys, reportedRow, hc]
      · rw [a2, hrm]; simp only [compilerFault_eq, hc]; simp; grind
      · rw [a2, hrm]; simp
      · rw [a2, hrm]; simp [hc]
  · rename_i hc
    split at h
    · cases h
    · rename_i st hl
      split at h
      · cases h
      · rename_i fs2 hr
        cases h
        have hrm := rmtree_ok hr
        obtain ⟨a1, a2⟩ := progsLoop_ok hl
        refine ⟨fun k => ?_, fun k => ?_, fun n => ?_, fun k => ?_⟩
        · rw [a1]; simp [keys, reportedRow, hc]
        · rw [hrm, a2]; simp only [compilerFault_eq, hc]; simp; grind
        · rw [hrm, a2]; simp
        · rw [hrm, a2]; simp [hc]; grind

end Heph.Oracle
