import Heph.Proofs.GraphLongest
/-!
# Vertices on simple paths = the start vertex and everything reachable from it

(every walk can be shortened to a simple path by cutting its loops)
-/
namespace Heph.Graph

theorem reachAny_head {g : Graph} {a b x : Nat} (h : b ∈ adj g a) (h2 : ReachAny g b x) :
    ReachAny g a x := by
  induction h2 with
  | one h3 => exact ReachAny.step (ReachAny.one h) h3
  | step _ h3 ih => exact ReachAny.step ih h3

theorem isPath_reachAny {g : Graph} : ∀ (t : List Nat) (a : Nat), IsPath g (a :: t) →
    ∀ x ∈ t, ReachAny g a x
  | [], _, _ => by simp
  | b :: t, a, h => by
    intro x hx
    rcases List.mem_cons.1 hx with rfl | hx
    · exact ReachAny.one h.1
    · exact reachAny_head h.1 (isPath_reachAny t b h.2 x hx)

theorem isPath_snoc {g : Graph} {b c : Nat} (hc : c ∈ adj g b) : ∀ (p : List Nat), IsPath g p →
    p.getLast? = some b → IsPath g (p ++ [c])
  | [], h, _ => h.elim
  | [a], _, hl => by
    have : a = b := by simpa using hl
    subst this; exact ⟨hc, trivial⟩
  | a :: a' :: t, h, hl => by
    have hl' : (a' :: t).getLast? = some b := by simpa [List.getLast?_cons_cons] using hl
    exact ⟨h.1, isPath_snoc hc (a' :: t) h.2 hl'⟩

theorem isPath_prefix {g : Graph} {c : Nat} {p2 : List Nat} : ∀ (p1 : List Nat),
    IsPath g (p1 ++ c :: p2) → IsPath g (p1 ++ [c])
  | [], _ => trivial
  | [_], h => ⟨h.1, trivial⟩
  | _ :: a' :: t, h => ⟨h.1, isPath_prefix (a' :: t) h.2⟩

theorem exists_simple_of_reachAny {g : Graph} {s x : Nat} (h : ReachAny g s x) :
    ∃ p, p.head? = some s ∧ IsPath g p ∧ p.Nodup ∧ p.getLast? = some x := by
  have key : ∀ (p : List Nat) (b c : Nat), p.head? = some s → IsPath g p → p.Nodup →
      p.getLast? = some b → c ∈ adj g b →
      ∃ p', p'.head? = some s ∧ IsPath g p' ∧ p'.Nodup ∧ p'.getLast? = some c := by
    intro p b c hh hp hn hl hc
    by_cases hcp : c ∈ p
    · obtain ⟨p1, p2, rfl⟩ := List.append_of_mem hcp
      refine ⟨p1 ++ [c], ?_, isPath_prefix p1 hp, ?_, by simp⟩
      · cases p1 <;> simpa using hh
      · have : ((p1 ++ [c]) ++ p2).Nodup := by simpa using hn
        exact this.of_append_left
    · refine ⟨p ++ [c], ?_, isPath_snoc hc p hp hl, ?_, by simp⟩
      · cases p with
        | nil => simp at hh
        | cons a t => simpa using hh
      · refine List.nodup_append.2 ⟨hn, by simp, ?_⟩
        intro a ha b' hb'
        have : b' = c := by simpa using hb'
        subst this; intro e; subst e; exact hcp ha
  induction h with
  | one hb => exact key [s] s _ rfl trivial (by simp) rfl hb
  | step _ hc ih =>
    obtain ⟨p, h1, h2, h3, h4⟩ := ih
    exact key p _ _ h1 h2 h3 h4 hc

/-- the vertices on simple paths from `s` are `s` and everything reachable from it -/
theorem onSimplePath_iff (g : Graph) (s x : Nat) :
    (∃ p, SimplePath g s p ∧ x ∈ p) ↔ x = s ∨ ReachAny g s x := by
  constructor
  · rintro ⟨p, hp, hx⟩
    rw [simplePath_iff] at hp
    match p, hp, hx with
    | a :: t, hp, hx =>
      have : a = s := by simpa using hp.1
      subst this
      rcases List.mem_cons.1 hx with h | h
      · exact Or.inl h
      · exact Or.inr (isPath_reachAny t a hp.2.1 x h)
  · rintro (rfl | h)
    · exact ⟨[x], (simplePath_iff g x [x]).2 ⟨rfl, trivial, by simp⟩, by simp⟩
    · obtain ⟨p, h1, h2, h3, h4⟩ := exists_simple_of_reachAny h
      exact ⟨p, (simplePath_iff g s p).2 ⟨h1, h2, h3⟩, List.mem_of_getLast? h4⟩

end Heph.Graph
