import Heph.Spec.Typing
import Heph.Proofs.CheckSubD
import Heph.Proofs.CheckUniv
/-!
# Soundness of `checkProgram` for the declarative judgement `WT` (C01)

Every obligation the checker accepts holds declaratively: a Boolean side condition is the same
fact on both sides; an accepted assignability test is an `Asg` derivation in the universe of the
language's built-ins (`isSubDTop_sound` with `closedU_goodU`, `goodU_subst`, `goodU_of_table`).
-/
namespace Heph
namespace Check
open Heph.Ty

/-- an accepted assignability test is a declarative assignability -/
theorem asgB_sound (lt : LangTypes) (hT : tableOK lt.builtins = true) (a e : Ty)
    (h : asgB lt a e = true) : AsgP lt a e := by
  unfold asgB at h
  simp only [Bool.and_eq_true] at h
  obtain ⟨⟨hs, ht⟩, hd⟩ := h
  exact ⟨hs, ht, isSubDTop_sound (closedU_goodU lt.builtins)
    (fun x m hx hm => goodU_subst lt.builtins x m hx hm) lt.builtins (goodU_of_table hT) _ _ hs ht hd⟩

theorem judg_sound (lt : LangTypes) (hT : tableOK lt.builtins = true) (j : Judg)
    (h : j.check lt = true) : j.Holds lt := by
  cases j with
  | asg a e =>
    cases a with
    | none => simp [Judg.check] at h
    | some a => exact asgB_sound lt hT a e h
  | holds b => exact h

/-- acceptance means: no obligation fails -/
theorem checkProgram_ok_iff (lt : LangTypes) (p : Program) :
    checkProgram lt p = .ok ↔ ∀ o ∈ progObs lt p, o.j.check lt = true := by
  unfold checkProgram
  constructor
  · intro h o ho
    split at h
    · rename_i hnone
      have := List.find?_eq_none.1 hnone o ho
      simpa using this
    · cases h
  · intro h
    have : (progObs lt p).find? (fun o => !o.j.check lt) = none := by
      apply List.find?_eq_none.2
      intro o ho
      simp [h o ho]
    rw [this]

theorem tableOK_of_ok (lt : LangTypes) (p : Program) (h : checkProgram lt p = .ok) :
    tableOK lt.builtins = true := by
  have := (checkProgram_ok_iff lt p).1 h (ob [] "builtin-table" (.holds (tableOK lt.builtins)))
    (by simp [progObs])
  simpa [ob, Judg.check] using this

/-- **soundness of the checker**, for all programs -/
theorem check_sound_all (lt : LangTypes) (p : Program) (h : checkProgram lt p = .ok) : WT lt p := by
  intro o ho
  exact judg_sound lt (tableOK_of_ok lt p h) o.j ((checkProgram_ok_iff lt p).1 h o ho)

/-- the list of failures is empty exactly when the program is accepted -/
theorem failures_nil_iff (lt : LangTypes) (p : Program) :
    failures lt p = [] ↔ checkProgram lt p = .ok := by
  rw [checkProgram_ok_iff]
  unfold failures
  rw [List.filter_eq_nil_iff]
  constructor
  · intro h o ho
    have := h o ho
    simpa using this
  · intro h o ho
    simp [h o ho]

/-! ## the language table of a scope never changes -/

@[simp] theorem Env.lt_push (Γ : Env) (nm : String) (b : Bind) : (Γ.push nm b).lt = Γ.lt := rfl
@[simp] theorem Env.lt_extend (Γ : Env) (s : Node) : (Γ.extend s).lt = Γ.lt := by
  unfold Env.extend; split <;> (try split) <;> rfl
@[simp] theorem Env.lt_extendF (Γ : Env) (s : Node) : (Γ.extendF s).lt = Γ.lt := by
  unfold Env.extendF; split <;> rfl
@[simp] theorem Env.lt_smartCast (Γ : Env) (c : Node) : (Γ.smartCast c).lt = Γ.lt := by
  unfold Env.smartCast; split <;> (try split) <;> rfl
theorem Env.lt_foldl {α} (f : Env → α → Env) (h : ∀ Γ a, (f Γ a).lt = Γ.lt) (xs : List α) (Γ : Env) :
    (xs.foldl f Γ).lt = Γ.lt := by
  induction xs generalizing Γ with
  | nil => rfl
  | cons x xs ih => simp only [List.foldl]; rw [ih, h]
@[simp] theorem Env.lt_bindParams (Γ : Env) (ps : List Node) : (Γ.bindParams ps).lt = Γ.lt := by
  unfold Env.bindParams
  apply Env.lt_foldl
  intro Γ a; split <;> rfl
@[simp] theorem Env.lt_bindClass (Γ : Env) (c : Node) : (Γ.bindClass c).lt = Γ.lt := by
  unfold Env.bindClass
  apply Env.lt_foldl
  intro Γ km
  simp only
  rw [Env.lt_foldl, Env.lt_foldl]
  · intro Γ f; split <;> rfl
  · intro Γ g; rfl

/-! ## clause lemmas: the judgement unfolds along the walk -/

theorem forall_mem_append' {α} {P : α → Prop} {xs ys : List α} :
    (∀ o ∈ xs ++ ys, P o) ↔ (∀ o ∈ xs, P o) ∧ (∀ o ∈ ys, P o) := List.forall_mem_append

theorem forall_mem_cons' {α} {P : α → Prop} {x : α} {xs : List α} :
    (∀ o ∈ x :: xs, P o) ↔ P x ∧ (∀ o ∈ xs, P o) := List.forall_mem_cons

end Check
end Heph
