import Heph.Model.Univ
import Heph.Proofs.TypesBasic
/-!
# The universe `goodU B` of the types over one built-in table (C01)

* `goodU_iff`, `goodU_node`: unfolding of `goodU` (all nodes / this node and the children);
* `closedU_goodU`: the universe is closed under immediate sub-terms;
* `goodU_getSubst`, `goodU_performSubst`, `goodU_subst`: it is closed under
  `_get_type_substitution` (either `cond`), `perform_type_substitution` and `substitute_type`
  when the values of the type map lie in it;
* `goodU_of_table`: the members of a table that passes `tableOK` lie in the universe.
-/
namespace Heph
namespace Ty

/-! ## unfolding -/

theorem goodU_iff (B : List Ty) (x : Ty) : goodU B x ↔ ∀ y ∈ subterms x, nodeOK B y = true := by
  simp only [goodU, goodB, List.all_eq_true]

/-- a type is in the universe iff its root node is fine and its children are in the universe -/
theorem goodU_node (B : List Ty) (x : Ty) :
    goodU B x ↔ nodeOK B x = true ∧ ∀ c ∈ children x, goodU B c := by
  simp only [goodU_iff]
  constructor
  · intro h
    refine ⟨h x (self_mem_subterms x), ?_⟩
    intro c hc y hy
    apply h y
    rw [subterms_eq x]
    exact List.mem_cons_of_mem _ (mem_subtermsL.2 ⟨c, hc, hy⟩)
  · intro h y hy
    rw [subterms_eq x] at hy
    cases hy with
    | head => exact h.1
    | tail _ hy =>
      obtain ⟨c, hc, hyc⟩ := mem_subtermsL.1 hy
      exact h.2 c hc y hyc

/-- the universe of the types over `B` is closed under immediate sub-terms -/
theorem closedU_goodU (B : List Ty) : ClosedU (goodU B) :=
  fun x hx y hy => ((goodU_node B x).1 hx).2 y hy

/-- a node that is not a built-in is fine -/
theorem nodeOK_of_not_builtin (B : List Ty) {y : Ty} (h : y.isBuiltin = false) :
    nodeOK B y = true := by
  simp [nodeOK, h]

/-- a non-built-in root with children in the universe -/
theorem goodU_of_children (B : List Ty) {x : Ty} (hb : x.isBuiltin = false)
    (h : ∀ c ∈ children x, goodU B c) : goodU B x :=
  (goodU_node B x).2 ⟨nodeOK_of_not_builtin B hb, h⟩

theorem goodU_of_table {B : List Ty} (h : tableOK B = true) : ∀ b ∈ B, goodU B b := by
  simp only [tableOK, List.all_eq_true] at h
  exact h

/-! ## type maps -/

theorem TMap.get_mem {m : TMap} {k r : Ty} (h : m.get k = some r) : ∃ p ∈ m, p.2 = r := by
  simp only [TMap.get, Option.map_eq_some_iff] at h
  obtain ⟨p, hp, hr⟩ := h
  exact ⟨p, List.mem_of_find?_eq_some hp, hr⟩

theorem TMap.set_mem {m : TMap} {k v : Ty} {p : Ty × Ty} (h : p ∈ m.set k v) :
    p.2 = v ∨ p ∈ m := by
  simp only [TMap.set] at h
  split at h
  · obtain ⟨q, hq, hqp⟩ := List.mem_map.1 h
    split at hqp
    · subst hqp; exact Or.inl rfl
    · subst hqp; exact Or.inr hq
  · rcases List.mem_append.1 h with h | h
    · exact Or.inr h
    · simp only [List.mem_singleton] at h
      subst h; exact Or.inl rfl

theorem TMap.foldl_set_vals (P : Ty → Prop) :
    ∀ (l : List (Ty × Ty)) (acc : TMap), (∀ kv ∈ l, P kv.2) → (∀ p ∈ acc, P p.2) →
      ∀ p ∈ l.foldl (fun m kv => TMap.set m kv.1 kv.2) acc, P p.2 := by
  intro l
  induction l with
  | nil => intro acc _ hacc; simpa using hacc
  | cons kv l ih =>
    intro acc hl hacc
    simp only [List.foldl_cons]
    apply ih
    · exact fun q hq => hl q (List.mem_cons_of_mem _ hq)
    · intro p hp
      rcases TMap.set_mem hp with h | h
      · rw [h]; exact hl kv List.mem_cons_self
      · exact hacc p h

/-- the values of `{tp: args[i] …}` are arguments -/
theorem TMap.mk_vals {ks vs : List Ty} : ∀ p ∈ TMap.mk ks vs, p.2 ∈ vs := by
  apply TMap.foldl_set_vals (fun v => v ∈ vs)
  · intro kv hkv
    exact (List.of_mem_zip hkv).2
  · intro p hp; cases hp

/-! ## substitution stays in the universe -/

/-- `goodU` of every value of a type map -/
def goodM (B : List Ty) (m : TMap) : Prop := ∀ p ∈ m, goodU B p.2

theorem goodM_mk (B : List Ty) {ks vs : List Ty} (h : ∀ v ∈ vs, goodU B v) :
    goodM B (TMap.mk ks vs) :=
  fun p hp => h p.2 (TMap.mk_vals p hp)

theorem goodU_get (B : List Ty) {m : TMap} (hm : goodM B m) {k r : Ty} (h : m.get k = some r) :
    goodU B r := by
  obtain ⟨p, hp, rfl⟩ := TMap.get_mem h
  exact hm p hp

/-- closes the "look the type up, else keep it" branch of `_get_type_substitution`,
    given `ht : goodU B t` and `hm : goodM B m` -/
local macro "lookup_case " ht:ident hm:ident : tactic =>
  `(tactic| (simp only [getSubst]; split; (· exact $ht); (· rename_i r hr; split; (· exact $ht); (· exact goodU_get _ $hm hr))))

theorem mem_getSubstL {xs : List Ty} {m : TMap} {d : Bool} {y : Ty} (h : y ∈ getSubstL xs m d) :
    ∃ x ∈ xs, y = getSubst x m d := by
  induction xs with
  | nil => simp [getSubstL] at h
  | cons a as ih =>
    simp only [getSubstL, List.mem_cons] at h
    rcases h with h | h
    · exact ⟨a, List.mem_cons_self, h⟩
    · obtain ⟨x, hx, hy⟩ := ih h
      exact ⟨x, List.mem_cons_of_mem _ hx, hy⟩

theorem mem_performSubstL {xs : List Ty} {m : TMap} {y : Ty} (h : y ∈ performSubstL xs m) :
    ∃ x ∈ xs, y = x ∨ y = getSubst x m true := by
  induction xs with
  | nil => simp [performSubstL] at h
  | cons a as ih =>
    have key : y = a ∨ y = getSubst a m true ∨ y ∈ performSubstL as m := by
      cases a <;> simp only [performSubstL, List.mem_cons] at h <;> rcases h with h | h <;> simp [h]
    rcases key with h | h | h
    · exact ⟨a, List.mem_cons_self, Or.inl h⟩
    · exact ⟨a, List.mem_cons_self, Or.inr h⟩
    · obtain ⟨x, hx, hy⟩ := ih h
      exact ⟨x, List.mem_cons_of_mem _ hx, hy⟩

/-- the statement proved by induction on the type -/
def SubstOK (B : List Ty) (t : Ty) : Prop :=
  (∀ m d, goodU B t → goodM B m → goodU B (getSubst t m d)) ∧
  (∀ m, goodU B t → goodM B m → goodU B (performSubst t m))

theorem substOK_param (B : List Ty) (nm : String) (con : Ty) (as ss : List Ty)
    (ih1 : SubstOK B con) (ih2 : ∀ x ∈ as, SubstOK B x) : SubstOK B (param nm con as ss) := by
  refine ⟨?_, fun m ht _ => by simpa only [performSubst] using ht⟩
  intro m d ht hm
  have hc := closedU_goodU B _ ht
  have hcon : goodU B con := hc con (by simp [children])
  have has : ∀ v ∈ getSubstL as m d, goodU B v := by
    intro v hv
    obtain ⟨x, hx, rfl⟩ := mem_getSubstL hv
    exact (ih2 x hx).1 m d (hc x (by simp [children, hx])) hm
  have hcon' : goodU B (performSubst con (TMap.mk (conParams con) (getSubstL as m d))) :=
    ih1.2 _ hcon (goodM_mk B has)
  simp only [getSubst, mkP]
  apply goodU_of_children B rfl
  intro c hc'
  simp only [children, List.mem_cons, List.mem_append] at hc'
  rcases hc' with rfl | hc' | hc'
  · exact hcon'
  · exact has c hc'
  · apply closedU_goodU B _ hcon' c
    generalize performSubst con (TMap.mk (conParams con) (getSubstL as m d)) = con' at hc'
    cases con' <;> simp only [conSups, List.not_mem_nil] at hc'
    simp [children, hc']

theorem substOK_tcon (B : List Ty) (c nm : String) (ps ss : List Ty)
    (ih2 : ∀ x ∈ ss, SubstOK B x) : SubstOK B (tcon c nm ps ss) := by
  refine ⟨fun m d ht hm => by lookup_case ht hm, ?_⟩
  intro m ht hm
  have hc := closedU_goodU B _ ht
  simp only [performSubst]
  apply goodU_of_children B rfl
  intro x hx
  simp only [children, List.mem_append] at hx
  rcases hx with hx | hx
  · exact hc x (by simp [children, hx])
  · obtain ⟨x0, hx0, h⟩ := mem_performSubstL hx
    have hg : goodU B x0 := hc x0 (by simp [children, hx0])
    rcases h with rfl | rfl
    · exact hg
    · exact (ih2 x0 hx0).1 m true hg hm

theorem substOK_tparam (B : List Ty) (nm : String) (v : Nat) (bd : Option Ty)
    (ih : ∀ x, bd = some x → SubstOK B x) : SubstOK B (tparam nm v bd) := by
  refine ⟨?_, fun m ht _ => by simpa only [performSubst] using ht⟩
  intro m d ht hm
  cases bd with
  | none => lookup_case ht hm
  | some b =>
    have hb : goodU B (tparam nm v (some (getSubst b m d))) := by
      apply goodU_of_children B rfl
      intro c hc
      simp only [children, Option.toList, List.mem_singleton] at hc
      subst hc
      exact (ih b rfl).1 m d (closedU_goodU B _ ht b (by simp [children])) hm
    simp only [getSubst]
    split
    · exact hb
    · rename_i r hr
      split
      · exact hb
      · exact goodU_get B hm hr

theorem substOK_wild (B : List Ty) (v : Nat) (bd : Option Ty)
    (ih : ∀ x, bd = some x → SubstOK B x) : SubstOK B (wild v bd) := by
  refine ⟨?_, fun m ht _ => by simpa only [performSubst] using ht⟩
  intro m d ht hm
  cases bd with
  | none => lookup_case ht hm
  | some b =>
    simp only [getSubst]
    apply goodU_of_children B rfl
    intro c hc
    simp only [children, Option.toList, List.mem_singleton] at hc
    subst hc
    exact (ih b rfl).1 m d (closedU_goodU B _ ht b (by simp [children])) hm

theorem substOK (B : List Ty) : ∀ t, SubstOK B t := by
  intro t
  induction t using ind' with
  | hb c nm nt p ss ih =>
    exact ⟨fun m d ht hm => by lookup_case ht hm,
      fun m ht _ => by simpa only [performSubst] using ht⟩
  | hs nm ss ih =>
    exact ⟨fun m d ht hm => by lookup_case ht hm,
      fun m ht _ => by simpa only [performSubst] using ht⟩
  | htp nm v bd ih => exact substOK_tparam B nm v bd ih
  | hw v bd ih => exact substOK_wild B v bd ih
  | htc c nm ps ss ih1 ih2 => exact substOK_tcon B c nm ps ss ih2
  | hp nm con as ss ih1 ih2 ih3 => exact substOK_param B nm con as ss ih1 ih2
  | hn =>
    exact ⟨fun m d ht hm => by lookup_case ht hm,
      fun m ht _ => by simpa only [performSubst] using ht⟩
  | he c =>
    exact ⟨fun m d ht hm => by lookup_case ht hm,
      fun m ht _ => by simpa only [performSubst] using ht⟩

/-- `_get_type_substitution` (either `cond`) stays in the universe -/
theorem goodU_getSubst (B : List Ty) (x : Ty) (m : TMap) (d : Bool) (hx : goodU B x)
    (hm : ∀ p ∈ m, goodU B p.2) : goodU B (getSubst x m d) :=
  (substOK B x).1 m d hx hm

/-- `perform_type_substitution` stays in the universe -/
theorem goodU_performSubst (B : List Ty) (con : Ty) (m : TMap) (hx : goodU B con)
    (hm : ∀ p ∈ m, goodU B p.2) : goodU B (performSubst con m) :=
  (substOK B con).2 m hx hm

/-- `substitute_type` stays in the universe -/
theorem goodU_subst (B : List Ty) (x : Ty) (m : TMap) (hx : goodU B x)
    (hm : ∀ p ∈ m, goodU B p.2) : goodU B (substituteType x m) :=
  goodU_getSubst B x m false hx hm

/-! ## concrete instances -/

namespace CheckUnivEx
def anyT : Ty := builtin "AnyType" "Any" false false []
def strT : Ty := builtin "StringType" "String" false false [anyT]
/-- the table of the built-ins -/
def B : List Ty := [anyT, strT]
def tpT : Ty := tparam "T" 0 (some anyT)
def listCon : Ty := tcon "TypeConstructor" "List" [tpT] [anyT]
/-- `List<T>` and `List<String>` -/
def listOfT : Ty := param "List" listCon [tpT] [anyT]
def listOfStr : Ty := param "List" listCon [strT] [anyT]
/-- a foreign copy of `Any` (same class, hence `==` to `Any`) that stores `String` as a supertype -/
def any' : Ty := builtin "AnyType" "Any" false false [strT]
/-- a class that extends the foreign copy -/
def clsA : Ty := simple "A" [any']
end CheckUnivEx

open CheckUnivEx in
example : tableOK B = true := by decide
open CheckUnivEx in
example : goodB B listOfT = true := by decide
open CheckUnivEx in
example : goodB B listOfStr = true := by decide
/-- the foreign copy is `==` to `Any` but is rejected, and so is everything built over it -/
example : beq CheckUnivEx.any' CheckUnivEx.anyT = true ∧ goodB CheckUnivEx.B CheckUnivEx.any' = false ∧
    goodB CheckUnivEx.B CheckUnivEx.clsA = false := by decide
open CheckUnivEx in
/-- the hypotheses of `goodU_subst` are met, the substitution is not the identity -/
example : goodU B listOfT ∧ (∀ p ∈ [(tpT, strT)], goodU B p.2) ∧
    seq (substituteType listOfT [(tpT, strT)]) listOfStr = true ∧
    goodU B (substituteType listOfT [(tpT, strT)]) := by
  have h1 : goodU B listOfT := by unfold goodU; decide
  have h2 : ∀ p ∈ [(tpT, strT)], goodU B p.2 := by
    intro p hp
    simp only [List.mem_singleton] at hp
    subst hp
    exact goodU_of_table (by decide) strT (by simp [B])
  exact ⟨h1, h2, by decide, goodU_subst B _ _ h1 h2⟩
open CheckUnivEx in
example : ∀ c ∈ children listOfStr, goodU B c := closedU_goodU B listOfStr (by unfold goodU; decide)

end Ty
end Heph
