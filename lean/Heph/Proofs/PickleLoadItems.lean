import Heph.Proofs.PickleLoadSeq
/-! `load ∘ dump` (C13): the contents of a container in progress, written in batches (`saveItems`). -/
namespace Heph.Pickle

variable {hr : String → String → Bool} {h : Heap} {opn : Nat → Prop}

/-- every existing cell except `a'` is unchanged -/
def HeapExtX (a' : Nat) (H H' : Heap) : Prop := H.size ≤ H'.size ∧ ∀ b, b < H.size → b ≠ a' → H'[b]? = H[b]?

theorem HeapExtX.refl (a' : Nat) (H : Heap) : HeapExtX a' H H := ⟨Nat.le_refl _, fun _ _ _ => rfl⟩

theorem HeapExtX.trans {a' : Nat} {H H' H'' : Heap} (h1 : HeapExtX a' H H') (h2 : HeapExtX a' H' H'') :
    HeapExtX a' H H'' :=
  ⟨Nat.le_trans h1.1 h2.1, fun b hb hne => by rw [h2.2 b (Nat.lt_of_lt_of_le hb h1.1) hne, h1.2 b hb hne]⟩

theorem HeapExt.toX {H H' : Heap} (he : HeapExt H H') (a' : Nat) : HeapExtX a' H H' :=
  ⟨he.1, fun b hb _ => he.2 b hb⟩

theorem HeapExtX.set (a' : Nat) (H : Heap) (o : Obj) : HeapExtX a' H (H.setIfInBounds a' o) :=
  ⟨by simp, fun b _ hne => by simp [Ne.symm hne]⟩

theorem get_set_self {H : Heap} {a' : Nat} {o o2 : Obj} (e : H[a']? = some o) :
    (H.setIfInBounds a' o2)[a']? = some o2 := by
  simp [lt_size_of_getElem? e]

/-- the container protocol: where the VM is between two elements of the container at `a'` -/
def Form {α : Type} (flat : α → List Val) (a' : Nat) (S : List Val) (M : List (List Val)) (flushed : Bool)
    (cur : List α) (L : LState) : Prop :=
  if flushed then cur = [] ∧ L.stack = .ref a' :: S ∧ L.metas = M
  else L.stack = (cur.flatMap flat).reverse ∧ L.metas = (.ref a' :: S) :: M

/-- what the batch op-code (APPENDS / SETITEMS / ADDITEMS) does to the VM -/
def MultiSpec {α : Type} (hr : String → String → Bool) (flat : α → List Val) (mk : List α → Obj) (multi : Op)
    (a' : Nat) (S : List Val) (M : List (List Val)) : Prop :=
  ∀ (L : LState) (cur ys : List α), L.metas = (.ref a' :: S) :: M → L.stack = (cur.flatMap flat).reverse →
    L.heap[a']? = some (mk ys) →
    ∃ L2, step hr L multi = some L2 ∧ L2.stack = .ref a' :: S ∧ L2.metas = M ∧
      L2.heap = L.heap.setIfInBounds a' (mk (ys ++ cur)) ∧ L2.memo = L.memo

/-- what the single-element op-code (APPEND / SETITEM) does to the VM -/
def SingleSpec {α : Type} (hr : String → String → Bool) (flat : α → List Val) (mk : List α → Obj) (single : Op)
    (a' : Nat) (S : List Val) : Prop :=
  ∀ (L : LState) (x' : α) (ys : List α), L.stack = (flat x').reverse ++ .ref a' :: S →
    L.heap[a']? = some (mk ys) →
    ∃ L2, step hr L single = some L2 ∧ L2.stack = .ref a' :: S ∧ L2.metas = L.metas ∧
      L2.heap = L.heap.setIfInBounds a' (mk (ys ++ [x'])) ∧ L2.memo = L.memo

/-- what writing one element does: it pushes the element's value(s), related to the element -/
def ElemOK {α : Type} (hr : String → String → Bool) (h : Heap) (opn : Nat → Prop) (flat : α → List Val)
    (ER : (Nat → Option Nat) → α → α → Prop) (se : α → DState → Option DState) : Prop :=
  ∀ (x : α) (g : Nat → Option Nat) (st : DState) (L : LState) (st' : DState), Inv hr h g opn st L →
    se x st = some st' →
    ∃ g' L' x', Sub hr h opn g L g' st' L' ∧ L'.stack = (flat x').reverse ++ L.stack ∧ ER g' x x'

theorem saveItems_load {α : Type} {flat : α → List Val} {ER : (Nat → Option Nat) → α → α → Prop}
    (ERmono : ∀ g g' x y, Ext g g' → ER g x y → ER g' x y)
    {mk : List α → Obj} {se : α → DState → Option DState} {single multi : Op} {style : Style}
    {a a' : Nat} {S : List Val} {M : List (List Val)} {o : Obj}
    (hse : ElemOK hr h opn flat ER se)
    (hmulti : MultiSpec hr flat mk multi a' S M)
    (hsingle : (∃ i, singleFormOK style i = true) → SingleSpec hr flat mk single a' S)
    (hopn : opn a) (ho : h[a]? = some o) (hopen : o.openable = true) :
    ∀ (xs : List α) (i : Nat) (g : Nat → Option Nat) (st : DState) (L : LState) (st' : DState) (cur ys : List α),
      Inv hr h g opn st L → g a = some a' → L.heap[a']? = some (mk ys) →
      Form flat a' S M (i % BATCH == 0 || xs.isEmpty) cur L →
      saveItems se single multi style i xs st = some st' →
      ∃ g' L' new, Ext g g' ∧ Inv hr h g' opn st' L' ∧ L'.stack = .ref a' :: S ∧ L'.metas = M ∧
        L'.heap[a']? = some (mk (ys ++ cur ++ new)) ∧ AllRel (ER g') xs new ∧ HeapExtX a' L.heap L'.heap := by
  intro xs
  induction xs with
  | nil =>
    intro i g st L st' cur ys I hg hcell hform hsave
    simp only [saveItems, Option.some.injEq] at hsave
    subst hsave
    simp only [Form, List.isEmpty_nil, Bool.or_true, if_true] at hform
    obtain ⟨hc, hstk, hm⟩ := hform
    subst hc
    exact ⟨g, L, [], Ext.refl g, I, hstk, hm, by simpa using hcell, .nil, HeapExtX.refl _ _⟩
  | cons x xs ihl =>
    intro i g st L st' cur ys I hg hcell hform hsave
    have ha' : a' < L.heap.size := lt_size_of_getElem? hcell
    unfold saveItems at hsave
    dsimp only at hsave
    by_cases hc : (i % BATCH == 0 && xs.isEmpty && singleFormOK style i) = true
    · -- the single form
      rw [if_pos hc] at hsave
      simp only [Bool.and_eq_true] at hc
      obtain ⟨⟨hstart, hxs⟩, hsf⟩ := hc
      have hxs' : xs = [] := List.isEmpty_iff.mp hxs
      subst hxs'
      simp only [Form, hstart, Bool.true_or, if_true] at hform
      obtain ⟨hcur, hstk, hm⟩ := hform
      subst hcur
      cases hx : se x st with
      | none => simp [hx] at hsave
      | some st1 =>
        rw [hx] at hsave
        simp only [Option.map_some, Option.some.injEq] at hsave
        subst hsave
        obtain ⟨g1, L1, x1, s1, hstk1, hx1⟩ := hse x g st L st1 I hx
        have hcell1 : L1.heap[a']? = some (mk ys) := s1.hext.get hcell
        obtain ⟨L2, hs2, hstk2, hm2, hh2, hmm2⟩ := hsingle ⟨i, hsf⟩ L1 x1 ys (by rw [hstk1, hstk]) hcell1
        have I2 := s1.inv.emit_set hs2 hmm2 (s1.ext a a' hg) ho hopn hopen hh2
        refine ⟨g1, L2, [x1], s1.ext, I2, hstk2, by rw [hm2, s1.metas, hm], ?_, .cons hx1 .nil, ?_⟩
        · rw [hh2, get_set_self hcell1]; simp
        · rw [hh2]; exact (s1.hext.toX a').trans (HeapExtX.set _ _ _)
    · -- inside a batch
      rw [if_neg hc] at hsave
      -- the state after the optional MARK is in the `mid-batch` form
      have hmid : ∃ La, Inv hr h g opn (if (i % BATCH == 0) = true then st.emit .mark else st) La ∧
          La.stack = (cur.flatMap flat).reverse ∧ La.metas = (.ref a' :: S) :: M ∧ La.heap = L.heap := by
        by_cases hstart : (i % BATCH == 0) = true
        · simp only [Form, hstart, Bool.true_or, if_true] at hform
          obtain ⟨hcur, hstk, hm⟩ := hform
          subst hcur
          rw [if_pos hstart]
          exact ⟨_, mark_load I, rfl, by simp [hstk, hm], rfl⟩
        · have hb : (i % BATCH == 0) = false := by simpa using hstart
          simp only [Form, hb, List.isEmpty_cons, Bool.or_false, Bool.false_eq_true, if_false] at hform
          rw [if_neg hstart]
          exact ⟨L, I, hform.1, hform.2, rfl⟩
      obtain ⟨La, Ia, hstka, hma, hha⟩ := hmid
      cases hx : se x (if (i % BATCH == 0) = true then st.emit .mark else st) with
      | none => rw [hx] at hsave; simp at hsave
      | some st1 =>
        rw [hx] at hsave
        dsimp only at hsave
        obtain ⟨g1, L1, x1, s1, hstk1, hx1⟩ := hse x g _ La st1 Ia hx
        have hcell1 : L1.heap[a']? = some (mk ys) := s1.hext.get (by rw [hha]; exact hcell)
        have hstk1' : L1.stack = ((cur ++ [x1]).flatMap flat).reverse := by
          rw [hstk1, hstka]; simp
        have hm1 : L1.metas = (.ref a' :: S) :: M := by rw [s1.metas, hma]
        have hX1 : HeapExtX a' L.heap L1.heap := by rw [← hha]; exact s1.hext.toX a'
        by_cases hend : ((i + 1) % BATCH == 0 || xs.isEmpty) = true
        · rw [if_pos hend] at hsave
          obtain ⟨L2, hs2, hstk2, hm2, hh2, hmm2⟩ := hmulti L1 (cur ++ [x1]) ys hm1 hstk1' hcell1
          have I2 := s1.inv.emit_set hs2 hmm2 (s1.ext a a' hg) ho hopn hopen hh2
          have hcell2 : L2.heap[a']? = some (mk (ys ++ (cur ++ [x1]))) := by
            rw [hh2, get_set_self hcell1]
          have hform2 : Form flat a' S M ((i + 1) % BATCH == 0 || xs.isEmpty) ([] : List α) L2 := by
            unfold Form
            rw [if_pos hend]
            exact ⟨rfl, hstk2, hm2⟩
          obtain ⟨g3, L3, new, hext3, I3, hstk3, hm3, hcell3, hrel3, hX3⟩ :=
            ihl (i + 1) g1 _ L2 st' [] (ys ++ (cur ++ [x1])) I2 (s1.ext a a' hg) hcell2 hform2 hsave
          refine ⟨g3, L3, x1 :: new, s1.ext.trans hext3, I3, hstk3, hm3, ?_, .cons (ERmono _ _ _ _ hext3 hx1) hrel3, ?_⟩
          · rw [hcell3]; simp
          · refine (hX1.trans ?_).trans hX3
            rw [hh2]; exact HeapExtX.set _ _ _
        · rw [if_neg hend] at hsave
          have hform2 : Form flat a' S M ((i + 1) % BATCH == 0 || xs.isEmpty) (cur ++ [x1]) L1 := by
            have : ((i + 1) % BATCH == 0 || xs.isEmpty) = false := by simpa using hend
            simp only [Form, this, Bool.false_eq_true, if_false]
            exact ⟨hstk1', hm1⟩
          obtain ⟨g3, L3, new, hext3, I3, hstk3, hm3, hcell3, hrel3, hX3⟩ :=
            ihl (i + 1) g1 _ L1 st' (cur ++ [x1]) ys s1.inv (s1.ext a a' hg) hcell1 hform2 hsave
          refine ⟨g3, L3, x1 :: new, s1.ext.trans hext3, I3, hstk3, hm3, ?_, .cons (ERmono _ _ _ _ hext3 hx1) hrel3,
            hX1.trans hX3⟩
          rw [hcell3]; simp

/-- the extra empty batch that the C loops of an exact dict / a set write after a full last batch -/
theorem trailingBatch_load {α : Type} {flat : α → List Val} {mk : List α → Obj} {multi : Op}
    {g : Nat → Option Nat} {st : DState} {L : LState}
    {a a' : Nat} {S : List Val} {M : List (List Val)} {o : Obj} {ys : List α}
    (hmulti : MultiSpec hr flat mk multi a' S M)
    (hopn : opn a) (ho : h[a]? = some o) (hopen : o.openable = true)
    (I : Inv hr h g opn st L) (hg : g a = some a') (hcell : L.heap[a']? = some (mk ys))
    (hstk : L.stack = .ref a' :: S) (hm : L.metas = M) (len : Nat) :
    ∃ L', Inv hr h g opn (trailingBatch len multi st) L' ∧ L'.stack = .ref a' :: S ∧ L'.metas = M ∧
      L'.heap[a']? = some (mk ys) ∧ HeapExtX a' L.heap L'.heap := by
  unfold trailingBatch
  split
  · have I1 := mark_load I
    obtain ⟨L2, hs2, hstk2, hm2, hh2, hmm2⟩ :=
      hmulti { L with metas := L.stack :: L.metas, stack := [] } [] ys (by simp [hstk, hm]) (by simp) hcell
    have I2 := I1.emit_set hs2 hmm2 hg ho hopn hopen hh2
    refine ⟨L2, I2, hstk2, hm2, ?_, ?_⟩
    · rw [hh2]
      have : (L.heap.setIfInBounds a' (mk (ys ++ [])))[a']? = some (mk (ys ++ [])) := get_set_self hcell
      simpa using this
    · rw [hh2]; exact HeapExtX.set _ _ _
  · exact ⟨L, I, hstk, hm, hcell, HeapExtX.refl _ _⟩

end Heph.Pickle
