import Heph.Model.Assignable
/-!
# The assignment-target filter only yields non-final targets
-/
namespace Heph.Assignable

/-- what a candidate is: either a variable of the context whose `is_final` attribute is `False`
    (assigned directly), or a field whose `is_final` is `False` of the class of a (final, searched)
    variable of the context, assigned through that variable -/
def Justified (vs : List VarInfo) (c : Cand) : Prop :=
  (c.recv = none ∧ ∃ v ∈ vs, v.name = c.name ∧ v.isFinal = some false)
  ∨ (∃ v ∈ vs, c.recv = some v.name ∧ v.searched = true ∧ ∃ fs, v.fields = some fs ∧ (c.name, false) ∈ fs)

theorem varCands_spec {jl : Bool} {v : VarInfo} {cs : List Cand} (h : varCands jl v = some cs) :
    ∀ c ∈ cs, c.isFinal = false ∧ jl = false ∧ Justified [v] c := by
  intro c hc
  unfold varCands at h
  split at h
  · injection h with h; subst h; cases hc
  · next hjl =>
    split at h
    · next hf =>
      injection h with h; subst h
      simp only [List.mem_singleton] at hc
      subst hc
      refine ⟨rfl, by simpa using hjl, Or.inl ⟨rfl, v, List.mem_singleton.mpr rfl, rfl, ?_⟩⟩
      unfold VarInfo.finalAttr at hf
      cases hv : v.isFinal with
      | none => simp [hv] at hf
      | some b => cases b <;> simp_all
    · split at h
      · injection h with h; subst h; cases hc
      · next hs =>
        split at h
        · cases h
        · next fs hfs =>
          injection h with h; subst h
          obtain ⟨f, hf, rfl⟩ := List.mem_map.mp hc
          obtain ⟨hmem, hnf⟩ := List.mem_filter.mp hf
          have hf2 : f.2 = false := by simpa using hnf
          refine ⟨hf2, by simpa using hjl, Or.inr ⟨v, List.mem_singleton.mpr rfl, rfl, by simpa using hs, fs, hfs, ?_⟩⟩
          have : (f.1, false) = f := by rw [← hf2]
          simpa [this] using hmem

theorem Justified.mono {vs ws : List VarInfo} {c : Cand} (hsub : ∀ v ∈ vs, v ∈ ws) :
    Justified vs c → Justified ws c := by
  rintro (⟨h1, v, hv, h2⟩ | ⟨v, hv, h2⟩)
  · exact Or.inl ⟨h1, v, hsub v hv, h2⟩
  · exact Or.inr ⟨v, hsub v hv, h2⟩

/-- every candidate `_get_assignable_vars` returns is non-final and justified, and inside a Java
    lambda there are none -/
theorem assignableVars_spec (jl : Bool) : ∀ (vs : List VarInfo) (cs : List Cand),
    assignableVars jl vs = some cs → ∀ c ∈ cs, c.isFinal = false ∧ jl = false ∧ Justified vs c := by
  intro vs
  induction vs with
  | nil =>
    intro cs h c hc
    simp only [assignableVars] at h
    injection h with h; subst h; cases hc
  | cons v vs ih =>
    intro cs h c hc
    simp only [assignableVars] at h
    split at h
    · cases h
    · next c1 h1 =>
      split at h
      · cases h
      · next rest h2 =>
        injection h with h; subst h
        rcases List.mem_append.mp hc with hc | hc
        · obtain ⟨a, b, j⟩ := varCands_spec h1 c hc
          exact ⟨a, b, j.mono (by intro x hx; rw [List.mem_singleton.mp hx]; exact List.mem_cons_self)⟩
        · obtain ⟨a, b, j⟩ := ih rest h2 c hc
          exact ⟨a, b, j.mono (fun x hx => List.mem_cons_of_mem _ hx)⟩

end Heph.Assignable
