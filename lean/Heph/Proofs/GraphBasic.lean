import Heph.Spec.Graph
/-! Basic facts about `keys`, `adj`, `WFG` and the declarative relations of `Heph/Spec/Graph.lean`. -/
namespace Heph.Graph

theorem keys_cons (p : Nat × List Nat) (g : Graph) : keys (p :: g) = p.1 :: keys g := rfl

theorem adj_cons (p : Nat × List Nat) (g : Graph) (v : Nat) :
    adj (p :: g) v = if p.1 = v then p.2 else adj g v := by
  unfold adj
  by_cases h : p.1 = v
  · simp [h]
  · have : (p.1 == v) = false := by simpa using h
    simp [this, h]

theorem adj_nil (v : Nat) : adj [] v = [] := rfl

/-- `graph[v]` of the model is an entry of the graph -/
theorem adj_entry {g : Graph} {v : Nat} (h : v ∈ keys g) : (v, adj g v) ∈ g := by
  induction g with
  | nil => simp [keys] at h
  | cons p g ih =>
    rw [adj_cons]
    by_cases hp : p.1 = v
    · simp only [hp, if_true]; subst hp; simp
    · simp only [hp, if_false]
      rw [keys_cons] at h
      have : v ∈ keys g := by
        rcases List.mem_cons.1 h with h | h
        · exact absurd h.symm hp
        · exact h
      exact List.mem_cons_of_mem _ (ih this)

theorem adj_of_not_key {g : Graph} {v : Nat} (h : v ∉ keys g) : adj g v = [] := by
  induction g with
  | nil => rfl
  | cons p g ih =>
    rw [keys_cons] at h
    rw [adj_cons]
    have h1 : p.1 ≠ v := fun e => h (by simp [e])
    have h2 : v ∉ keys g := fun e => h (by simp [e])
    simp [h1, ih h2]

theorem key_of_mem_adj {g : Graph} {v w : Nat} (h : w ∈ adj g v) : v ∈ keys g := by
  by_cases hv : v ∈ keys g
  · exact hv
  · rw [adj_of_not_key hv] at h; simp at h

theorem mem_keys_of_mem {g : Graph} {p : Nat × List Nat} (h : p ∈ g) : p.1 ∈ keys g :=
  List.mem_map_of_mem h

theorem WFG.tail {p : Nat × List Nat} {g : Graph} (h : WFG (p :: g)) : WFG g := by
  unfold WFG at *; rw [keys_cons] at h; exact (List.nodup_cons.1 h).2

theorem WFG.head {p : Nat × List Nat} {g : Graph} (h : WFG (p :: g)) : p.1 ∉ keys g := by
  unfold WFG at *; rw [keys_cons] at h; exact (List.nodup_cons.1 h).1

/-- with unique keys, every entry is what `graph[key]` returns -/
theorem adj_eq_of_mem {g : Graph} (hg : WFG g) {p : Nat × List Nat} (h : p ∈ g) :
    adj g p.1 = p.2 := by
  induction g with
  | nil => simp at h
  | cons q g ih =>
    rw [adj_cons]
    rcases List.mem_cons.1 h with h | h
    · subst h; simp
    · have : q.1 ≠ p.1 := fun e => hg.head (e ▸ mem_keys_of_mem h)
      simp [this, ih hg.tail h]

theorem exists_entry_iff {g : Graph} (hg : WFG g) (a b : Nat) :
    (∃ p ∈ g, p.1 = a ∧ b ∈ p.2) ↔ b ∈ adj g a := by
  constructor
  · rintro ⟨p, hp, rfl, hb⟩
    rw [adj_eq_of_mem hg hp]; exact hb
  · intro h
    exact ⟨(a, adj g a), adj_entry (key_of_mem_adj h), rfl, h⟩

/-! ### generic reflexive–transitive closure, and the bridges to `Reach` / `Conn` -/

inductive Star (E : Nat → Nat → Prop) : Nat → Nat → Prop
  | refl (v : Nat) : Star E v v
  | step {a b c : Nat} : Star E a b → E b c → Star E a c

theorem Star.closed {E : Nat → Nat → Prop} {P : Nat → Prop}
    (hc : ∀ a b, P a → E a b → P b) {s x : Nat} (h : Star E s x) : P s → P x := by
  induction h with
  | refl => exact id
  | step _ he ih => intro hs; exact hc _ _ (ih hs) he

theorem Star.trans {E : Nat → Nat → Prop} {a b c : Nat} (h1 : Star E a b) (h2 : Star E b c) :
    Star E a c := by
  induction h2 with
  | refl => exact h1
  | step _ he ih => exact Star.step ih he

/-- the edge relation of `reachable` -/
def KeyEdge (g : Graph) (b c : Nat) : Prop := c ∈ adj g b ∧ c ∈ keys g

theorem reach_iff_star (g : Graph) (a b : Nat) : Reach g a b ↔ Star (KeyEdge g) a b := by
  constructor
  · intro h
    induction h with
    | refl => exact Star.refl _
    | step _ h1 h2 ih => exact Star.step ih ⟨h1, h2⟩
  · intro h
    induction h with
    | refl => exact Reach.refl _
    | step _ he ih => exact Reach.step ih he.1 he.2

theorem conn_iff_star (g : Graph) (a b : Nat) : Conn g a b ↔ Star (Sym g) a b := by
  constructor
  · intro h
    induction h with
    | refl => exact Star.refl _
    | step _ h1 ih => exact Star.step ih h1
  · intro h
    induction h with
    | refl => exact Conn.refl _
    | step _ he ih => exact Conn.step ih he

theorem Reach.trans {g : Graph} {a b c : Nat} (h1 : Reach g a b) (h2 : Reach g b c) :
    Reach g a c := by
  induction h2 with
  | refl => exact h1
  | step _ h3 h4 ih => exact Reach.step ih h3 h4

end Heph.Graph
