import Heph.Proofs.TransJavaBalClass
import Heph.Proofs.TransJavaBalProgram
/-! Full balance proof, assembly: every visit method keeps the invariant (`visitNode_ok2`), hence
every fuel-indexed `visit` does (`visit_ok2`), hence the compilation unit assembled by
`visit_program` is neutral (`translateFrom_neutral_full`). -/
namespace Heph.TransJava
open Heph
set_option linter.unusedSimpArgs false
set_option linter.unusedVariables false

theorem visitNode_ok2 (e : Env) (he : EnvOK e) {v : St → Node → St × Text} (hv : VOK2 v) (st : St) (hst : StOK2 st)
    (n : Node) (hn : AtomsOK n) :
    StOK2 (visitNode e v st n).1 ∧ Neutral (visitNode e v st n).2 ∧
      (isParamDecl n = true → ParamTextOK (visitNode e v st n).2) := by
  have np : ∀ {P Q : Prop} {m : Node}, isParamDecl m = false → P ∧ Q →
      P ∧ Q ∧ (isParamDecl m = true → ParamTextOK (visitNode e v st m).2) :=
    fun hm h => ⟨h.1, h.2, fun h' => by rw [hm] at h'; cases h'⟩
  cases n
  case block => exact np rfl (ok2_block e he hv st hst _ _ hn)
  case superInst => exact np rfl (ok2_superInst e hv st hst _ _ hn)
  case classDecl => exact np rfl (ok2_classDecl e hv st hst _ _ _ _ _ _ _ hn)
  case varDecl => exact np rfl (ok2_varDecl e hv st hst _ _ _ _ _ hn)
  case callArg => exact np rfl (ok2_callArg e hv st hst _ _ hn)
  case fieldDecl => exact np rfl (ok2_fieldDecl e hv st hst _ _ _ _ _ hn)
  case paramDecl =>
    have := ok2_paramDecl e hv st hst _ _ _ _ hn
    exact ⟨this.1, this.2.1, fun _ => this.2.2⟩
  case funcDecl => exact np rfl (ok2_funcDecl e hv st hst _ _ _ _ _ _ _ _ _ hn)
  case lambda => exact np rfl (ok2_lambda e hv st hst _ _ _ _ _ hn)
  case funcRef => exact np rfl (ok2_funcRef e hv st hst _ _ _ hn)
  case bottom => exact np rfl (ok2_bottom e hv st hst _ hn)
  case intC => exact np rfl (ok2_intC e hv st hst _ _ hn)
  case realC => exact np rfl (ok2_realC e hv st hst _ _ hn)
  case boolC => exact np rfl (ok2_boolC e hv st hst _ hn)
  case charC => exact np rfl (ok2_charC e hv st hst _ hn)
  case stringC => exact np rfl (ok2_stringC e hv st hst _ hn)
  case arrayE => exact np rfl (ok2_arrayE e hv st hst _ _ _ hn)
  case «variable» => exact np rfl (ok2_variable e hv st hst _ hn)
  case isE => exact np rfl (ok2_isE e hv st hst _ _ _ hn)
  case binop => exact np rfl (ok2_binop e hv st hst _ _ _ _ hn)
  case cond => exact np rfl (ok2_cond e hv st hst _ _ _ _ hn)
  case newE => exact np rfl (ok2_newE e hv st hst _ _ _ hn)
  case fieldAccess => exact np rfl (ok2_fieldAccess e hv st hst _ _ hn)
  case call => exact np rfl (ok2_call e he hv st hst _ _ _ _ _ _ hn)
  case assign => exact np rfl (ok2_assign e hv st hst _ _ _ hn)

theorem route_ok2 (st : St) (n : Node) (res : Text) (hst : StOK2 st) (hr : Neutral res) : StOK2 (route st n res) := by
  refine ⟨route_ok st n res hst.1 hr, ?_⟩
  have : (route st n res).smartCasts = st.smartCasts := by
    unfold route
    (repeat' split) <;> rfl
  rw [this]; exact hst.2

/-- every `visit` (any fuel) keeps the invariant on programs with well-formed atoms -/
theorem visit_ok2 (e : Env) (he : EnvOK e) : ∀ f, VOK2 (visit e f)
  | 0 => by
    intro st n hst _
    exact ⟨hst, BrFree.neutral (show BrFree fuelMark by decide), fun _ => paramTextOK_fuelMark⟩
  | f+1 => by
    intro st n hst hn
    have h := visitNode_ok2 e he (visit_ok2 e he f) { st with nodesStack := tagOf n :: st.nodesStack }
      (hst.with_eq rfl rfl rfl) n hn
    simp only [visit]
    exact ⟨route_ok2 _ _ _ (h.1.with_eq rfl rfl rfl) h.2.1, h.2.1, h.2.2⟩

/-- the unit assembled by `visit_program` is neutral for every program with well-formed atoms in a
context of well-formed declarations, whatever neutral texts the translator state already holds -/
theorem translateFrom_neutral_full (e : Env) (he : EnvOK e) (pkg : String) (st : St) (decls : List Node)
    (hst : StOK2 st) (hp : BrFree pkg) (hd : AtomsOKL decls) : Neutral (translateFrom e pkg st decls) := by
  have h := visitL_ok2 (visit_ok2 e he (fuelOf decls)) decls st hst hd
  exact translateFrom_neutral_of e pkg st decls hp ⟨h.1.1, h.2.1⟩

end Heph.TransJava
