import Heph.Proofs.TransJavaBalVisit
/-! Bracket balance of the compilation unit assembled by `visit_program`. -/
namespace Heph.TransJava
set_option linter.unusedSimpArgs false

theorem neutral_functionalInterfaces (nums : List Nat) : Neutral (functionalInterfaces nums) := by
  unfold functionalInterfaces
  simp only
  have hone : ∀ n : Nat, Neutral ("interface Function" ++ toString n ++ "<" ++
      join ", " ((List.range (n + 1)).map fun i => if i < n then "A" ++ toString (i + 1) else "R") ++ "> {\n" ++ sp 2 ++
      "public R apply(" ++ join ", " ((List.range n).map fun i => "A" ++ toString (i + 1) ++ " a" ++ toString (i + 1)) ++
      ");\n}\n\n") := by
    intro n
    have h1 : BrFree (join ", " ((List.range (n + 1)).map fun i => if i < n then "A" ++ toString (i + 1) else "R")) := by
      apply brFree_join (by decide)
      intro x hx
      obtain ⟨i, _, rfl⟩ := List.mem_map.mp hx
      split
      · exact brFree_append (by decide) (brs_toString_nat _)
      · decide
    have h2 : BrFree (join ", " ((List.range n).map fun i => "A" ++ toString (i + 1) ++ " a" ++ toString (i + 1))) := by
      apply brFree_join (by decide)
      intro x hx
      obtain ⟨i, _, rfl⟩ := List.mem_map.mp hx
      exact brFree_append (brFree_append (brFree_append (by decide) (brs_toString_nat _)) (by decide)) (brs_toString_nat _)
    have h1 := h1.neutral
    have h2 := h2.neutral
    generalize join ", " ((List.range (n + 1)).map fun i => if i < n then "A" ++ toString (i + 1) else "R") = tps at h1
    generalize join ", " ((List.range n).map fun i => "A" ++ toString (i + 1) ++ " a" ++ toString (i + 1)) = ps at h2
    have h0 : Neutral (toString n) := BrFree.neutral (brs_toString_nat n)
    generalize toString n = tn at h0
    fin_neutral [h0.eq, h1.eq, h2.eq]
  have hres := neutral_stringJoin (xs := nums.map fun n => "interface Function" ++ toString n ++ "<" ++
      join ", " ((List.range (n + 1)).map fun i => if i < n then "A" ++ toString (i + 1) else "R") ++ "> {\n" ++ sp 2 ++
      "public R apply(" ++ join ", " ((List.range n).map fun i => "A" ++ toString (i + 1) ++ " a" ++ toString (i + 1)) ++
      ");\n}\n\n") (by
        intro x hx
        obtain ⟨n, _, rfl⟩ := List.mem_map.mp hx
        exact hone n)
  split
  · exact neutral_append (BrFree.neutral (by decide)) hres
  · exact neutral_empty

theorem neutral_staticMember {d : Text} (h : Neutral d) : Neutral (sp 2 ++ "static " ++ lstrip d) := by
  fin_neutral [h.eq]

/-- the unit assembled by `visit_program` is neutral when the visits of the top-level declarations
leave neutral collected texts and answer neutral texts -/
theorem translateFrom_neutral_of (e : Env) (pkg : String) (st : St) (decls : List Node) (hp : BrFree pkg)
    (h : StOK (visitL (visit e (fuelOf decls)) st decls).1 ∧
      ∀ r ∈ (visitL (visit e (fuelOf decls)) st decls).2, Neutral r) : Neutral (translateFrom e pkg st decls) := by
  unfold translateFrom visitProgram
  generalize visitL (visit e (fuelOf decls)) st decls = r at h
  obtain ⟨s1, rs⟩ := r
  simp only at h ⊢
  obtain ⟨⟨hmc, hmm⟩, hrs⟩ := h
  have hpk : Neutral (if pkg != "" then "package " ++ pkg ++ ";\n\n" else "") := by
    have := hp.neutral
    split
    · fin_neutral [this.eq]
    · exact neutral_empty
  have hmd : Neutral (join "\n\n" (s1.mainChildren.map fun d => sp 2 ++ "static " ++ lstrip d)) := by
    apply neutral_join (by decide)
    intro x hx
    obtain ⟨d, hd', rfl⟩ := List.mem_map.mp hx
    exact neutral_staticMember (hmc d hd')
  have hmain : Neutral (if s1.mainMethod != "" then "\n\n" ++ sp 2 ++ "static " ++ lstrip s1.mainMethod else "") := by
    split
    · fin_neutral [hmm.eq]
    · exact neutral_empty
  have hfi := neutral_functionalInterfaces s1.functionInterfaces
  have hoth : Neutral (join "\n\n" (((decls.zip rs).filter fun p => !(st.ns == ["global"] && routed p.1)).map (·.2))) := by
    apply neutral_join (by decide)
    intro x hx
    obtain ⟨p, hp', rfl⟩ := List.mem_map.mp hx
    exact hrs _ (List.of_mem_zip (List.mem_filter.mp hp').1).2
  have hoth' : Neutral (if join "\n\n" (((decls.zip rs).filter fun p => !(st.ns == ["global"] && routed p.1)).map (·.2)) != ""
      then "\n\n" ++ join "\n\n" (((decls.zip rs).filter fun p => !(st.ns == ["global"] && routed p.1)).map (·.2)) else "") := by
    split
    · exact neutral_append (BrFree.neutral (by decide)) hoth
    · exact neutral_empty
  generalize (if pkg != "" then "package " ++ pkg ++ ";\n\n" else "") = a at hpk
  generalize join "\n\n" (s1.mainChildren.map fun d => sp 2 ++ "static " ++ lstrip d) = b at hmd
  generalize (if s1.mainMethod != "" then "\n\n" ++ sp 2 ++ "static " ++ lstrip s1.mainMethod else "") = c at hmain
  generalize functionalInterfaces s1.functionInterfaces = d at hfi
  generalize (if join "\n\n" (((decls.zip rs).filter fun p => !(st.ns == ["global"] && routed p.1)).map (·.2)) != ""
      then "\n\n" ++ join "\n\n" (((decls.zip rs).filter fun p => !(st.ns == ["global"] && routed p.1)).map (·.2)) else "") = f at hoth'
  fin_neutral [hpk.eq, hmd.eq, hmain.eq, hfi.eq, hoth'.eq]

/-- the unit assembled by `visit_program` is neutral when the translator starts in a state whose
collected texts are neutral and every top-level declaration lies in the fragment `NodeOK` -/
theorem translateFrom_neutral (e : Env) (pkg : String) (st : St) (decls : List Node) (hst : StOK st)
    (hp : BrFree pkg) (hd : NodesOK decls) : Neutral (translateFrom e pkg st decls) :=
  translateFrom_neutral_of e pkg st decls hp (visitL_ok (visit_ok e (fuelOf decls)) decls st hst hd)

end Heph.TransJava
