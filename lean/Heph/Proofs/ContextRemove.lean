import Heph.Proofs.ContextLookup
/-! After `remove_func/var/class ns name`, resolving `name` from `ns` falls through to the
enclosing namespaces. -/
namespace Heph.Context

theorem innermostRev_congr {α : Type} (g g' : Ns → Option α) (l : List String)
    (h : ∀ p, p ≠ [] → p <+: l.reverse → g p = g' p) : innermostRev g l = innermostRev g' l := by
  induction l with
  | nil => rfl
  | cons x rest ih =>
    have hrev : (x :: rest).reverse = rest.reverse ++ [x] := by simp
    simp only [innermostRev]
    rw [h (x :: rest).reverse (by simp) List.prefix_rfl, ih]
    intro p h1 h2
    apply h p h1
    rw [hrev]
    exact List.prefix_concat_iff.2 (Or.inr h2)

theorem specLocal_snoc_remove (ops : List Op) (k : EKind) (ns : Ns) (nm : String) (ns' : Ns) (nm' : String) :
    specLocal (ops ++ [.remove k ns nm]) ns' nm' =
      if ns = ns' ∧ nm = nm' ∧ k.binds = true then none else specLocal ops ns' nm' := by
  simp only [specLocal, List.foldl_append, List.foldl_cons, List.foldl_nil, bindsDecl]
  by_cases h : ns = ns' ∧ nm = nm' ∧ k.binds = true <;> simp [h]

theorem specLookup_remove (ops : List Op) (k : EKind) (hb : k.binds = true) (ns : Ns) (name : String) :
    specLookup (ops ++ [.remove k ns name]) ns name = specLookup ops ns.dropLast name := by
  unfold specLookup innermost
  generalize hl : ns.reverse = l
  have hns : ns = l.reverse := by rw [← hl, List.reverse_reverse]
  cases l with
  | nil => subst hns; rfl
  | cons x rest =>
    have hd : ns.dropLast.reverse = rest := by
      rw [hns]; simp
    rw [hd]
    simp only [innermostRev]
    have h0 : realDecl (ops ++ [.remove k ns name]) name (x :: rest).reverse = none := by
      unfold realDecl
      rw [specLocal_snoc_remove, if_pos ⟨hns, rfl, hb⟩]
    rw [h0]
    apply innermostRev_congr
    intro p _ hp
    unfold realDecl
    rw [specLocal_snoc_remove, if_neg]
    rintro ⟨h1, _⟩
    have hlen := hp.length_le
    rw [← h1, hns] at hlen
    simp at hlen
    omega

end Heph.Context
