import Heph.Proofs.TypesBasic
/-!
# Fuel adequacy of the model of `is_subtype`

On regular types (`reg`: every instantiation carries a type constructor, so that `==` is
reflexive and the filter `st != self` of `SimpleClassifier.is_subtype` removes the receiver)
the fuel `2 * (size s + size t) + 2` never runs out.  Without regularity the *code* itself does
not terminate (`RecursionError`): see `Props/C06.lean`, `isSubtype_fuel_needs_reg`.
-/
namespace Heph
namespace Ty

theorem regL_cons {a : Ty} {as : List Ty} (h : regL (a :: as) = true) : reg a = true ∧ regL as = true := by
  simpa [regL] using h

theorem reg_sups {s : Ty} (h : reg s = true) : ∀ x ∈ sups s, reg x = true := by
  apply regL_iff.1
  cases s <;> simp only [sups, regL] <;> simp only [reg, Bool.and_eq_true] at h <;> simp [h]

theorem reg_closure : ∀ (s e : Ty), reg s = true → e ∈ closure s → reg e = true := by
  intro s
  have key : ∀ (s : Ty), (∀ x ∈ sups s, ∀ e, reg x = true → e ∈ closure x → reg e = true) →
      ∀ e, reg s = true → e ∈ closure s → reg e = true := by
    intro s ih e hwf he
    rw [closure_eq] at he
    cases he with
    | head => exact hwf
    | tail _ he =>
      obtain ⟨u, hu, heu⟩ := mem_closureL.1 he
      exact ih u hu e (reg_sups hwf u hu) heu
  induction s using ind' with
  | hb c nm nt p ss ih => exact key _ ih
  | hs nm ss ih => exact key _ ih
  | htp nm v bd ih => exact key _ (by intro x hx; cases hx)
  | hw v bd ih => exact key _ (by intro x hx; cases hx)
  | htc c nm ps ss ih1 ih2 => exact key _ ih2
  | hp nm con as ss ih1 ih2 ih3 => exact key _ ih3
  | hn => exact key _ (by intro x hx; cases hx)
  | he c => exact key _ (by intro x hx; cases hx)

theorem reg_param {nm con as ss} (h : reg (param nm con as ss) = true) :
    isTCon con = true ∧ reg con = true ∧ regL as = true ∧ regL ss = true := by
  simp only [reg, Bool.and_eq_true] at h
  exact ⟨h.1.1.1, h.1.1.2, h.1.2, h.2⟩

theorem reg_wild {v bd} (h : reg (wild v (some bd)) = true) : reg bd = true := by
  simpa [reg, regO] using h

theorem ofBool_ne_fuel (b : Bool) : Res.ofBool b ≠ .fuel := by
  cases b <;> simp [Res.ofBool]

theorem size_wild (v : Nat) (bd : Ty) : size (wild v (some bd)) = 1 + size bd := by
  simp [size, sizeO]

def FuelS (f : Nat) : Prop :=
  ∀ s t, reg s = true → reg t = true → 2 * (size s + size t) + 2 ≤ f → isSub f s t ≠ .fuel
def FuelN (f : Nat) : Prop :=
  ∀ s t, reg s = true → reg t = true → 2 * (size s + size t) + 1 ≤ f → nominal f s t ≠ .fuel
def FuelCL (f : Nat) : Prop :=
  ∀ tps as bs, regL as = true → regL bs = true → 2 * (sizeL as + sizeL bs) + 4 ≤ f →
    containedL f tps as bs ≠ .fuel
def FuelC (f : Nat) : Prop :=
  ∀ a b tp, reg a = true → reg b = true → 2 * (size a + size b) + 3 ≤ f →
    contained f a b tp ≠ .fuel

theorem contained_fuel_step {f : Nat} (ihS : FuelS f) : FuelC (f + 1) := by
  intro a b tp ha hb hf
  simp only [contained]
  split
  · split
    · have hra := reg_wild ha
      have hrb := reg_wild hb
      simp only [size_wild] at hf
      split
      · exact ihS _ _ hra hrb (by omega)
      · split
        · exact ihS _ _ hrb hra (by omega)
        · simp
    · simp
    · simp
  · split
    · have hra := reg_wild ha
      simp only [size_wild] at hf
      split
      · exact ihS _ _ hra hb (by omega)
      · split
        · exact ihS _ _ hb hra (by omega)
        · simp
    · simp
  · split
    · have hrb := reg_wild hb
      simp only [size_wild] at hf
      split
      · exact ihS _ _ ha hrb (by omega)
      · split
        · exact ihS _ _ hrb ha (by omega)
        · simp
    · simp
  · split
    · exact ofBool_ne_fuel _
    · split
      · exact ihS _ _ ha hb (by omega)
      · exact ihS _ _ hb ha (by omega)

theorem containedL_fuel_step {f : Nat} (ihC : FuelC f) (ihCL : FuelCL f) : FuelCL (f + 1) := by
  intro tps as bs hwa hwb hf
  match tps, as, bs with
  | [], _, _ => simp [containedL]
  | _ :: _, [], _ => simp [containedL]
  | _ :: _, _ :: _, [] => simp [containedL]
  | tp :: tps, a :: as, b :: bs =>
    simp only [containedL]
    have ⟨hwa1, hwa2⟩ := regL_cons hwa
    have ⟨hwb1, hwb2⟩ := regL_cons hwb
    simp only [sizeL] at hf
    have := size_pos a
    have := size_pos b
    split
    · exact ihCL _ _ _ hwa2 hwb2 (by omega)
    · rename_i r hne
      intro h
      exact ihC a b tp hwa1 hwb1 (by omega) h

theorem nominal_fuel_step {f : Nat} (ihS : FuelS f) : FuelN (f + 1) := by
  intro s t hs ht hf
  simp only [nominal]
  split
  · simp
  · apply anyRes_ne_fuel
    intro st hst
    obtain ⟨hmem, hne⟩ := List.mem_filter.1 hst
    have hrst := reg_closure s st hs hmem
    have hne' : st ≠ s := by
      intro heq
      subst heq
      simp [beq_refl _ hs] at hne
    have := size_closure_lt hmem hne'
    exact ihS st t hrst ht (by omega)

theorem isSub_fuel_step {f : Nat} (ihS : FuelS f) (ihN : FuelN f) (ihCL : FuelCL f) :
    FuelS (f + 1) := by
  intro s t hs ht hf
  cases s with
  | nothing => simp [isSub]
  | ext c => simp [isSub]
  | builtin c nm nt p ss =>
    simp only [isSub]
    split
    · simp
    · exact ofBool_ne_fuel _
  | simple nm ss =>
    simp only [isSub]
    exact ihN _ _ hs ht (by omega)
  | tparam nm v bd =>
    simp only [isSub]
    split
    · simp
    · exact ofBool_ne_fuel _
  | wild v bd =>
    simp only [isSub]
    split
    · split
      · split
        · have hra := reg_wild hs
          have hrb := reg_wild ht
          simp only [size_wild] at hf
          exact ihS _ _ hra hrb (by omega)
        · simp
      · simp
    · simp
  | tcon c nm ps ss =>
    simp only [isSub]
    split
    · simp
    · split
      · simp
      · split
        · exact ofBool_ne_fuel _
        · simp
  | param nm con as ss =>
    simp only [isSub]
    split
    · simp
    · split
      · split
        · have ⟨_, _, hra, _⟩ := reg_param hs
          have ⟨_, _, hrb, _⟩ := reg_param ht
          simp only [size] at hf
          exact ihCL _ _ _ hra hrb (by omega)
        · simp
      · simp
    · rename_i hne _
      exact ihN _ _ hs ht (by omega)

theorem fuel_all : ∀ f, FuelS f ∧ FuelN f ∧ FuelCL f ∧ FuelC f := by
  intro f
  induction f with
  | zero =>
    refine ⟨?_, ?_, ?_, ?_⟩
    · intro s t _ _ h; omega
    · intro s t _ _ h; have := size_pos s; omega
    · intro tps as bs _ _ h; omega
    · intro a b tp _ _ h; omega
  | succ f ih =>
    obtain ⟨ihS, ihN, ihCL, ihC⟩ := ih
    exact ⟨isSub_fuel_step ihS ihN ihCL, nominal_fuel_step ihS,
      containedL_fuel_step ihC ihCL, contained_fuel_step ihS⟩

end Ty
end Heph
