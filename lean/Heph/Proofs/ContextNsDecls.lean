import Heph.Proofs.ContextGlob
/-! What `get_namespaces_decls` collects: the pairs `(n + (name,), v)` for the namespaces `n`
reachable from the start through real (non-`None`) functions and classes that declare `name`
in the asked map. -/
namespace Heph.Context

theorem mem_setAdd {α : Type} [DecidableEq α] (s : List α) (a x : α) : x ∈ setAdd s a ↔ x ∈ s ∨ x = a := by
  unfold setAdd
  split
  · rename_i h
    simp only [List.contains_iff_mem] at h
    constructor
    · exact Or.inl
    · rintro (h1 | h1)
      · exact h1
      · subst h1; exact h
  · simp

theorem mem_collect (name : String) (ns : Ns) (d : Dict) (acc : List (Ns × Val)) (x : Ns × Val) :
    x ∈ d.foldl (fun a e => if e.1 = name then setAdd a (ns ++ [name], e.2) else a) acc ↔
      x ∈ acc ∨ ∃ v, (name, v) ∈ d ∧ x = (ns ++ [name], v) := by
  induction d generalizing acc with
  | nil => simp
  | cons e r ih =>
    obtain ⟨a, b⟩ := e
    simp only [List.foldl_cons, ih, List.mem_cons, Prod.mk.injEq]
    by_cases h : a = name
    · subst h
      simp only [if_true, mem_setAdd, true_and]
      constructor
      · rintro ((h1 | h1) | ⟨v, h2, h3⟩)
        · exact Or.inl h1
        · exact Or.inr ⟨b, Or.inl rfl, h1⟩
        · exact Or.inr ⟨v, Or.inr h2, h3⟩
      · rintro (h1 | ⟨v, (h2 | h2), h3⟩)
        · exact Or.inl (Or.inl h1)
        · subst h2; exact Or.inl (Or.inr h3)
        · exact Or.inr ⟨v, h2, h3⟩
    · simp only [h, if_false]
      constructor
      · rintro (h1 | ⟨v, h2, h3⟩)
        · exact Or.inl h1
        · exact Or.inr ⟨v, Or.inr h2, h3⟩
      · rintro (h1 | ⟨v, (⟨h2, _⟩ | h2), h3⟩)
        · exact Or.inl h1
        · exact absurd h2.symm h
        · exact Or.inr ⟨v, h2, h3⟩

/-- a finished walk of `get_namespaces_decls` (any fuel) -/
theorem nsDeclsWalk_collects (c : Ctx) (name : String) (k : Kind) (f : Nat) (st : List Ns)
    (acc res : List (Ns × Val)) (h : nsDeclsWalk c name k f st acc = some res) (x : Ns × Val) :
    x ∈ res ↔ x ∈ acc ∨ ∃ s ∈ st, ∃ n v, Reach c false s n ∧ (name, v) ∈ current c n k ∧
      x = (n ++ [name], v) := by
  induction f generalizing st acc with
  | zero =>
    cases st with
    | nil => simp only [nsDeclsWalk, Option.some.injEq] at h; subst h; simp
    | cons ns st => simp [nsDeclsWalk] at h
  | succ f ih =>
    cases st with
    | nil => simp only [nsDeclsWalk, Option.some.injEq] at h; subst h; simp
    | cons ns st =>
      simp only [nsDeclsWalk] at h
      rw [ih _ _ h, mem_collect]
      constructor
      · rintro ((h1 | ⟨v, h2, h3⟩) | ⟨s, hs, n, v, hr, hn, hx⟩)
        · exact Or.inl h1
        · exact Or.inr ⟨ns, List.mem_cons_self, ns, v, .refl _, h2, h3⟩
        · rcases List.mem_append.1 hs with hs | hs
          · exact Or.inr ⟨ns, List.mem_cons_self, n, v, .head (List.mem_reverse.1 hs) hr, hn, hx⟩
          · exact Or.inr ⟨s, List.mem_cons_of_mem _ hs, n, v, hr, hn, hx⟩
      · rintro (h1 | ⟨s, hs, n, v, hr, hn, hx⟩)
        · exact Or.inl (Or.inl h1)
        · rcases List.mem_cons.1 hs with hs | hs
          · subst hs
            rcases (reach_iff c false s n).1 hr with h2 | ⟨child, hc, hr'⟩
            · subst h2; exact Or.inl (Or.inr ⟨v, hn, hx⟩)
            · exact Or.inr ⟨child, List.mem_append.2 (Or.inl (List.mem_reverse.2 hc)), n, v, hr', hn, hx⟩
          · exact Or.inr ⟨s, List.mem_append.2 (Or.inr hs), n, v, hr, hn, hx⟩

end Heph.Context
