import Heph.Proofs.TransJavaBalInv
/-! Full balance proof, expression cases: call arguments, variable declarations, binary
operations, field access, `new`, `instanceof`, assignment, conditionals, function references,
calls (with the vararg array of nested functions) and array expressions. -/
namespace Heph.TransJava
open Heph
set_option linter.unusedSimpArgs false
set_option linter.unusedVariables false
set_option linter.unusedSectionVars false

section cases
variable (e : Env) (he : EnvOK e) {v : St → Node → St × Text} (hv : VOK2 v) (st : St) (hst : StOK2 st)
include hv hst

theorem ok2_callArg (ex : Node) (nm : Option String) (hn : AtomsOK (.callArg ex nm)) :
    StOK2 (visitNode e v st (.callArg ex nm)).1 ∧ Neutral (visitNode e v st (.callArg ex nm)).2 := by
  atoms_unfold hn
  simp only [visitNode]
  have h := hv { st with ident := 0 } ex (hst.with_eq rfl rfl rfl) hn
  generalize v { st with ident := 0 } ex = p at h
  obtain ⟨s1, r⟩ := p
  exact ⟨h.1.with_eq rfl rfl rfl, h.2.1⟩

theorem ok2_varDecl (name : String) (ex : Node) (fin : Bool) (vt inf : Option Ty)
    (hn : AtomsOK (.varDecl name ex fin vt inf)) :
    StOK2 (visitNode e v st (.varDecl name ex fin vt inf)).1 ∧ Neutral (visitNode e v st (.varDecl name ex fin vt inf)).2 := by
  atoms_unfold hn
  obtain ⟨⟨⟨hname, hex⟩, _⟩, hinf⟩ := hn
  simp only [visitNode]
  have h := hv { st with castNumber := true } ex (hst.with_eq rfl rfl rfl) hex
  generalize v { st with castNumber := true } ex = p at h
  obtain ⟨s1, r⟩ := p
  simp only at h ⊢
  refine ⟨h.1.with_eq rfl rfl rfl, ?_⟩
  have h1 := (BrFree.ofB hname).neutral
  have h2 := neutral_typeNameO inf (TyOKO.ofWF hinf) false false
  have h3 := h.2.1
  have h4 : Neutral (if (s1.ns != ["global"]) = true then mainPrefix e s1 "vars" name else "") := by
    split
    · exact BrFree.neutral (brFree_mainPrefix _ _ _ _)
    · exact neutral_empty
  generalize (if (s1.ns != ["global"]) = true then mainPrefix e s1 "vars" name else "") = mp at h4
  cases fin <;> fin_neutral [h1.eq, h2.eq, h3.eq, h4.eq]

theorem ok2_binop (k : String) (l r : Node) (op : String) (hn : AtomsOK (.binop k l r op)) :
    StOK2 (visitNode e v st (.binop k l r op)).1 ∧ Neutral (visitNode e v st (.binop k l r op)).2 := by
  atoms_unfold hn
  obtain ⟨⟨hl, hr⟩, hop⟩ := hn
  simp only [visitNode]
  have h := hv { st with ident := 0 } l (hst.with_eq rfl rfl rfl) hl
  generalize v { st with ident := 0 } l = p at h
  obtain ⟨s1, ra⟩ := p
  simp only at h ⊢
  have h' := hv s1 r h.1 hr
  generalize v s1 r = q at h'
  obtain ⟨s2, rb⟩ := q
  simp only at h' ⊢
  refine ⟨h'.1.with_eq rfl rfl rfl, ?_⟩
  have h1 := h.2.1
  have h2 := h'.2.1
  have h3 := (BrFree.ofB hop).neutral
  fin_neutral [h1.eq, h2.eq, h3.eq]

theorem ok2_fieldAccess (ex : Node) (field : String) (hn : AtomsOK (.fieldAccess ex field)) :
    StOK2 (visitNode e v st (.fieldAccess ex field)).1 ∧ Neutral (visitNode e v st (.fieldAccess ex field)).2 := by
  atoms_unfold hn
  obtain ⟨hex, hf⟩ := hn
  simp only [visitNode]
  have h := hv { st with ident := 0 } ex (hst.with_eq rfl rfl rfl) hex
  generalize v { st with ident := 0 } ex = p at h
  obtain ⟨s1, r⟩ := p
  simp only at h ⊢
  refine ⟨h.1.with_eq rfl rfl rfl, ?_⟩
  have h1 := h.2.1
  have h2 := (BrFree.ofB hf).neutral
  have h3 : Neutral (wrapBottom ex r) := by
    unfold wrapBottom
    split
    · exact neutral_paren h1
    · exact h1
  generalize wrapBottom ex r = w at h3
  fin_neutral [h2.eq, h3.eq]

theorem ok2_newE (t : Ty) (args : List Node) (ci : Bool) (hn : AtomsOK (.newE t args ci)) :
    StOK2 (visitNode e v st (.newE t args ci)).1 ∧ Neutral (visitNode e v st (.newE t args ci)).2 := by
  atoms_unfold hn
  obtain ⟨ht, hargs⟩ := hn
  have ht := TyOK.ofWF ht
  simp only [visitNode]
  have h := visitL_ok2 hv args { st with ident := 0, castNumber := true } (hst.with_eq rfl rfl rfl) hargs
  generalize visitL v { st with ident := 0, castNumber := true } args = p at h
  obtain ⟨s1, rs⟩ := p
  simp only at h ⊢
  refine ⟨h.1.with_eq rfl rfl rfl, ?_⟩
  have hj := neutral_join (sep := ", ") (by decide) h.2.1
  have hcls : Neutral (if ci = true then tyName t ++ "<>" else typeName t false false) := by
    split
    · exact neutral_append (BrFree.neutral ht.tyName) (BrFree.neutral (by decide))
    · exact ht.name _ _
  generalize (if ci = true then tyName t ++ "<>" else typeName t false false) = cls at hcls
  generalize join ", " rs = j at hj
  fin_neutral [hj.eq, hcls.eq]

theorem ok2_isE (ex : Node) (t : Ty) (isNot : Bool) (hn : AtomsOK (.isE ex t isNot)) :
    StOK2 (visitNode e v st (.isE ex t isNot)).1 ∧ Neutral (visitNode e v st (.isE ex t isNot)).2 := by
  atoms_unfold hn
  obtain ⟨hex, ht⟩ := hn
  have ht := TyOK.ofWF ht
  simp only [visitNode]
  have h := hv { st with ident := 0 } ex (hst.with_eq rfl rfl rfl) hex
  generalize v { st with ident := 0 } ex = p at h
  obtain ⟨s1, r⟩ := p
  simp only at h ⊢
  have h1 := h.2.1
  have h2 := ht.getName
  cases hvn : varName? ex with
  | none =>
    simp only
    refine ⟨h.1.with_eq rfl rfl rfl, ?_⟩
    cases isNot <;> fin_neutral [h1.eq, h2.eq]
  | some nm =>
    simp only
    refine ⟨h.1.with_eq rfl rfl rfl, ?_⟩
    have h3 : Neutral nm := by
      cases ex <;> simp only [varName?] at hvn <;> try cases hvn
      atoms_unfold hex
      exact (BrFree.ofB hex).neutral
    cases isNot <;> fin_neutral [h1.eq, h2.eq, h3.eq]

theorem ok2_assign (name : String) (ex : Node) (recv : Option Node) (hn : AtomsOK (.assign name ex recv)) :
    StOK2 (visitNode e v st (.assign name ex recv)).1 ∧ Neutral (visitNode e v st (.assign name ex recv)).2 := by
  atoms_unfold hn
  obtain ⟨⟨hname, hex⟩, hro⟩ := hn
  have hro := AtomsOKL.optList hro
  simp only [visitNode]
  have h := visitL_ok2 hv (optList recv) { st with ident := 0, castNumber := true } (hst.with_eq rfl rfl rfl) hro
  generalize visitL v { st with ident := 0, castNumber := true } (optList recv) = p at h
  obtain ⟨s1, rr⟩ := p
  simp only at h ⊢
  have h' := hv s1 ex h.1 hex
  generalize v s1 ex = q at h'
  obtain ⟨s2, re⟩ := q
  simp only at h' ⊢
  refine ⟨h'.1.with_eq rfl rfl rfl, ?_⟩
  have h1 := (BrFree.ofB hname).neutral
  have h2 := h'.2.1
  cases recv with
  | none => fin_neutral [h1.eq, h2.eq]
  | some rcv =>
    cases rr with
    | nil => fin_neutral [h1.eq, h2.eq]
    | cons r tl =>
      have h3 := neutral_recvExpr rcv r (h.2.1 r (by simp))
      simp only
      generalize (if r != "" then (if isBottomC rcv then "(" ++ r ++ ")." else r ++ ".") else "") = rx at h3
      fin_neutral [h1.eq, h2.eq, h3.eq]

theorem ok2_funcRef (func : String) (recv : Option Node) (sig : Option Ty) (hn : AtomsOK (.funcRef func recv sig)) :
    StOK2 (visitNode e v st (.funcRef func recv sig)).1 ∧ Neutral (visitNode e v st (.funcRef func recv sig)).2 := by
  atoms_unfold hn
  obtain ⟨⟨hf, hr⟩, _⟩ := hn
  have hro := AtomsOKL.optList hr
  have h1 := (BrFree.ofB hf).neutral
  simp only [visitNode]
  have h := visitL_ok2 hv (optList recv) { st with ident := 0 } (hst.with_eq rfl rfl rfl) hro
  generalize visitL v { st with ident := 0 } (optList recv) = p at h
  obtain ⟨s1, rs⟩ := p
  simp only at h ⊢
  refine ⟨h.1.with_eq rfl rfl rfl, ?_⟩
  cases rs with
  | nil =>
    simp only
    (repeat' split) <;>
      exact neutral_append (neutral_append (neutral_append (neutral_sp _) (BrFree.neutral (by decide))) h1) (BrFree.neutral (brFree_semi _))
  | cons r tl =>
    simp only
    have h2 := h.2.1 r (by simp)
    have h3 : Neutral (if r != "" then r ++ "::" else r) := by
      split
      · exact neutral_append h2 (BrFree.neutral (by decide))
      · exact h2
    generalize (if r != "" then r ++ "::" else r) = rx at h3
    fin_neutral [h1.eq, h3.eq]

theorem ok2_cond (c tb fb : Node) (ty : Option Ty) (hn : AtomsOK (.cond c tb fb ty)) :
    StOK2 (visitNode e v st (.cond c tb fb ty)).1 ∧ Neutral (visitNode e v st (.cond c tb fb ty)).2 := by
  atoms_unfold hn
  obtain ⟨⟨⟨hc, ht⟩, hf⟩, _⟩ := hn
  simp only [visitNode]
  have h0 : StOK2 { st with insideIs := true, ident := st.ident + 2 } := hst.with_eq rfl rfl rfl
  have h := hv _ c h0 hc
  generalize v { st with insideIs := true, ident := st.ident + 2 } c = p at h
  obtain ⟨s1, rc⟩ := p
  simp only at h ⊢
  have h1 := h.2.1
  have hs1 := h.1
  split
  · next lexpr rexpr isNot =>
    have hkey : WF ((varName? lexpr, rexpr) : Option String × Ty).2 := by
      atoms_unfold hc; exact hc.2
    cases isNot
    · simp only [Bool.not_false, if_true]
      have hA0 : StOK2 { s1 with ns := s1.ns ++ ["true_block"], smartCasts := s1.smartCasts ++ [(varName? lexpr, rexpr)] } :=
        hs1.push hkey rfl rfl rfl
      have hA := hv _ tb hA0 ht
      generalize v { s1 with ns := s1.ns ++ ["true_block"], smartCasts := s1.smartCasts ++ [(varName? lexpr, rexpr)] } tb = p2 at hA
      obtain ⟨s2, rt⟩ := p2
      simp only at hA ⊢
      have hB0 : StOK2 { s2 with smartCasts := s2.smartCasts.dropLast, visitIsStack := s2.visitIsStack.dropLast, ns := s1.ns ++ ["false_block"] } :=
        hA.1.pop rfl rfl rfl
      have hB := hv _ fb hB0 hf
      generalize v { s2 with smartCasts := s2.smartCasts.dropLast, visitIsStack := s2.visitIsStack.dropLast, ns := s1.ns ++ ["false_block"] } fb = p3 at hB
      obtain ⟨s3, rf⟩ := p3
      simp only at hB ⊢
      exact ⟨hB.1.with_eq rfl rfl rfl, neutral_condText (brFree_identOld _ _) (brFree_semi _) h1 hA.2.1 hB.2.1⟩
    · simp only [Bool.not_true, Bool.false_eq_true, if_false]
      have hA0 : StOK2 { s1 with ns := s1.ns ++ ["true_block"], visitIsStack := s1.visitIsStack.dropLast } :=
        hs1.with_eq rfl rfl rfl
      have hA := hv _ tb hA0 ht
      generalize v { s1 with ns := s1.ns ++ ["true_block"], visitIsStack := s1.visitIsStack.dropLast } tb = p2 at hA
      obtain ⟨s2, rt⟩ := p2
      simp only at hA ⊢
      have hB0 : StOK2 { s2 with ns := s1.ns ++ ["false_block"], smartCasts := s2.smartCasts ++ [(varName? lexpr, rexpr)] } :=
        hA.1.push hkey rfl rfl rfl
      have hB := hv _ fb hB0 hf
      generalize v { s2 with ns := s1.ns ++ ["false_block"], smartCasts := s2.smartCasts ++ [(varName? lexpr, rexpr)] } fb = p3 at hB
      obtain ⟨s3, rf⟩ := p3
      simp only at hB ⊢
      exact ⟨hB.1.pop rfl rfl rfl, neutral_condText (brFree_identOld _ _) (brFree_semi _) h1 hA.2.1 hB.2.1⟩
  · simp only
    have hA := hv s1 tb hs1 ht
    generalize v s1 tb = p2 at hA
    obtain ⟨s2, rt⟩ := p2
    simp only at hA ⊢
    have hB := hv s2 fb hA.1 hf
    generalize v s2 fb = p3 at hB
    obtain ⟨s3, rf⟩ := p3
    simp only at hB ⊢
    exact ⟨hB.1.with_eq rfl rfl rfl, neutral_condText (brFree_identOld _ _) (brFree_semi _) h1 hA.2.1 hB.2.1⟩

/-! ### calls and arrays -/

omit hv hst in
theorem neutral_newArray {t : Ty} (ht : WF t) (b : Bool) :
    Neutral (if b then "(" ++ typeName t false false ++ ") new Object[]" else "new " ++ typeName t false false) := by
  have := (TyOK.ofWF ht).name false false
  split
  · fin_neutral [this.eq]
  · fin_neutral [this.eq]

omit hv hst in
theorem neutral_braces {nw : String} {rs : List Text} (hnw : Neutral nw) (hrs : ∀ r ∈ rs, Neutral r) :
    Neutral (nw ++ "{" ++ join ", " rs ++ "}") := by
  have hj := neutral_join (sep := ", ") (by decide) hrs
  generalize join ", " rs = j at hj
  fin_neutral [hnw.eq, hj.eq]

omit hv hst in
theorem calledDecl_ok (he : EnvOK e) {ns : List String} {func : String} {dns : List String} {d : Node}
    (h : calledDecl e ns func = some (dns, d)) : AtomsOK d := by
  unfold calledDecl at h
  split at h
  · rename_i dns' d' hg
    split at h
    · cases h; exact getDecl_ok he hg
    · cases h
  · cases h

omit hv hst in
theorem callArgs_ok {fdecl : Option (List String × Node)} (hfd : ∀ dns d, fdecl = some (dns, d) → AtomsOK d)
    (nested : Bool) {rs : List Text} (hrs : ∀ r ∈ rs, Neutral r) : ∀ r ∈ callArgs fdecl nested rs, Neutral r := by
  unfold callArgs
  split
  · rename_i dns d
    have hd := hfd dns d rfl
    split
    · rename_i nm pt df hlast
      have hpt : WF pt := funcParams_ok hd (List.mem_of_getLast? hlast)
      split
      · intro r hr
        simp only at hr
        rcases List.mem_append.mp hr with hr | hr
        · exact hrs r (List.mem_of_mem_take hr)
        · simp only [List.mem_singleton] at hr
          rw [hr]
          exact neutral_braces (by unfold varargArrayNew; exact neutral_newArray hpt _)
            (fun x hx => hrs x (List.mem_of_mem_drop hx))
      · exact hrs
    · exact hrs
  · exact hrs

omit hv hst in
theorem neutral_recvMatch (recv : Option Node) (rr : List Text) (hrr : ∀ r ∈ rr, Neutral r) :
    Neutral (match (generalizing := false) recv, rr with
      | some rcv, r :: _ => if r != "" then (if isBottomC rcv then "(" ++ r ++ ")." else r ++ ".") else ""
      | _, _ => "") := by
  cases recv with
  | none => exact neutral_empty
  | some rcv =>
    cases rr with
    | nil => exact neutral_empty
    | cons r tl => exact neutral_recvExpr rcv r (hrr r (by simp))

include he in
theorem ok2_call (func : String) (args : List Node) (recv : Option Node) (targs : List Ty) (ci rc : Bool)
    (hn : AtomsOK (.call func args recv targs ci rc)) :
    StOK2 (visitNode e v st (.call func args recv targs ci rc)).1 ∧
      Neutral (visitNode e v st (.call func args recv targs ci rc)).2 := by
  atoms_unfold hn
  obtain ⟨⟨⟨hf, hargs⟩, hr⟩, _⟩ := hn
  have hro := AtomsOKL.optList hr
  have h1 := (BrFree.ofB hf).neutral
  simp only [visitNode]
  have h := visitL_ok2 hv (optList recv) { st with ident := 0, castNumber := true } (hst.with_eq rfl rfl rfl) hro
  generalize visitL v { st with ident := 0, castNumber := true } (optList recv) = p at h
  obtain ⟨s1, rr⟩ := p
  simp only at h ⊢
  have h' := visitL_ok2 hv args s1 h.1 hargs
  generalize visitL v s1 args = q at h'
  obtain ⟨s2, rs⟩ := q
  simp only at h' ⊢
  refine ⟨h'.1.with_eq rfl rfl rfl, ?_⟩
  have hj := neutral_join (sep := ", ") (by decide)
    (callArgs_ok (fdecl := calledDecl e s2.ns func) (fun dns d hd => calledDecl_ok e he hd)
      (calledNested (calledDecl e s2.ns func)) h'.2.1)
  generalize join ", " (callArgs (calledDecl e s2.ns func) (calledNested (calledDecl e s2.ns func)) rs) = j at hj
  generalize calledNested (calledDecl e s2.ns func) = nested
  have h2 : Neutral (if nested || rc then ".apply" else "") := by
    split <;> exact BrFree.neutral (by decide)
  generalize (if nested || rc then ".apply" else "") = ap at h2
  cases recv with
  | none => cases rc <;> fin_neutral [h1.eq, h2.eq, hj.eq]
  | some rcv =>
    cases rr with
    | nil => cases rc <;> fin_neutral [h1.eq, h2.eq, hj.eq]
    | cons r tl =>
      have h3 := neutral_recvExpr rcv r (h.2.1 r (by simp))
      simp only
      generalize (if r != "" then (if isBottomC rcv then "(" ++ r ++ ")." else r ++ ".") else "") = rx at h3
      cases rc <;> fin_neutral [h1.eq, h2.eq, h3.eq, hj.eq]

omit hv hst in
theorem neutral_emptyArrayNew {t : Ty} (ht : WF t) : Neutral (emptyArrayNew t) := by
  unfold emptyArrayNew
  split
  · rename_i a ha
    have := (TyOK.ofWF (WF_arrayElem ht a ha)).name false false
    split
    · fin_neutral [this.eq]
    · fin_neutral [this.eq]
  · exact neutral_err (by decide)

omit hv hst in
theorem neutral_arrayNew {t : Ty} (ht : WF t) : Neutral (arrayNew t) := by
  have htn := (TyOK.ofWF ht).name false false
  unfold arrayNew
  split
  · split
    · fin_neutral [htn.eq]
    · fin_neutral [htn.eq]
  · exact neutral_err (by decide)
  · fin_neutral [htn.eq]

theorem ok2_arrayE (t : Ty) (len : Nat) (exprs : List Node) (hn : AtomsOK (.arrayE t len exprs)) :
    StOK2 (visitNode e v st (.arrayE t len exprs)).1 ∧ Neutral (visitNode e v st (.arrayE t len exprs)).2 := by
  atoms_unfold hn
  obtain ⟨ht, hex⟩ := hn
  simp only [visitNode]
  split
  · refine ⟨hst, ?_⟩
    have hnw := neutral_emptyArrayNew ht
    generalize emptyArrayNew t = nw at hnw
    fin_neutral [hnw.eq]
  · have h := visitL_ok2 hv exprs { st with castNumber := true, ident := 0 } (hst.with_eq rfl rfl rfl) hex
    generalize visitL v { st with castNumber := true, ident := 0 } exprs = p at h
    obtain ⟨s1, rs⟩ := p
    simp only at h ⊢
    refine ⟨h.1.with_eq rfl rfl rfl, ?_⟩
    have hnw := neutral_arrayNew ht
    generalize arrayNew t = nw at hnw
    have hj := neutral_join (sep := ", ") (by decide) h.2.1
    generalize join ", " rs = j at hj
    fin_neutral [hnw.eq, hj.eq]

end cases

end Heph.TransJava
