import Heph.Model.Capture
import Heph.Proofs.ClosedSound
/-!
# `captureCheck` decides `CapturesOK`; the generator's capture rule implies javac's

* `capture_sound` / `capture_complete` / `captureCheck_error`: the verdict of the checker is the declarative statement.
* `closed_capturesOK`: a program that is `Closed` (whose `Resolves` clauses carry the generator's rule: a captured
  local is a parameter or declared `final`, no assignment reaches outside the lambda) satisfies javac's rule
  `CapturesOK` — provided no parameter is assigned, which `Closed` guarantees as well (`isAssignable` holds of no
  parameter).  So `closedCheck` is the stricter of the two readings and `captureCheck` is the one javac validates.
-/
namespace Heph.Capture
open Heph Heph.Scope

theorem capture_sound (p : Program) : captureCheck p = .ok → CapturesOK p := by
  intro h s hs
  unfold captureCheck at h
  simp only at h
  split at h
  · next hnone =>
    have h1 := List.find?_eq_none.mp hnone s hs
    simpa using h1
  · cases h

theorem capture_complete (p : Program) : CapturesOK p → captureCheck p = .ok := by
  intro h
  unfold captureCheck
  simp only
  split
  · rfl
  · next s hsome =>
    have hmem := List.mem_of_find?_eq_some hsome
    have hbad := List.find?_some hsome
    have := h s hmem
    simp [this] at hbad

theorem captureCheck_iff (p : Program) : captureCheck p = .ok ↔ CapturesOK p :=
  ⟨capture_sound p, capture_complete p⟩

/-- a rejection names a site of the program that breaks the capture rule -/
theorem captureCheck_error (p : Program) (path why : String) :
    captureCheck p = .error path why →
    ∃ s ∈ programSites p, s.path = path ∧ ¬ CaptureOK (assignedNames (programSites p)) s.env s.use := by
  intro h
  unfold captureCheck at h
  simp only at h
  split at h
  · cases h
  · next s hsome =>
    refine ⟨s, List.mem_of_find?_eq_some hsome, ?_, ?_⟩
    · injection h
    · have hbad := List.find?_some hsome
      simpa using hbad

/-- every name in `assignedNames` is the target of an unqualified assignment site -/
theorem mem_assignedNames {ss : List Site} {x : String} (h : x ∈ assignedNames ss) :
    ∃ s ∈ ss, s.use = .assign x none := by
  induction ss with
  | nil => simp [assignedNames] at h
  | cons s ss ih =>
    unfold assignedNames at h
    split at h
    · next y hy =>
      rcases List.mem_cons.mp h with h | h
      · subst h; exact ⟨s, List.mem_cons_self, hy⟩
      · obtain ⟨s', hs', hu⟩ := ih h; exact ⟨s', List.mem_cons_of_mem _ hs', hu⟩
    · obtain ⟨s', hs', hu⟩ := ih h; exact ⟨s', List.mem_cons_of_mem _ hs', hu⟩

/-- a capturable declaration (parameter / `final` variable) is effectively final as soon as no parameter of that
    name is assigned -/
theorem effFinal_of_capturable (assigned : List String) (d : Node)
    (hp : isParamDecl d = true → declName d ∉ assigned) (h : isCapturable d = true) : EffFinal assigned d := by
  cases d with
  | varDecl nm e fin vt inf =>
    simp only [isCapturable] at h
    exact Or.inl h
  | paramDecl nm t va df =>
    have := hp (by simp [isParamDecl])
    simpa [EffFinal, declName] using this
  | _ => simp [isCapturable] at h

/-- **the generator's reading implies javac's**: a closed program in which no assigned name is the name of a
    parameter satisfies the capture rule.  (The side condition is about names only; in a generated program identifiers
    are pairwise distinct — `identifiers_distinct` — and `Closed` lets no assignment resolve to a parameter.) -/
theorem closed_capturesOK (p : Program) (kw : List String) (hc : Closed p kw)
    (hparams : ∀ s ∈ programSites p, ∀ x, ∀ r, (visibleVars s.env x).head? = some r → isParamDecl r.decl = true →
      declName r.decl ∉ assignedNames (programSites p)) :
    CapturesOK p := by
  intro s hs
  have hres := hc s hs
  cases hu : s.use with
  | var x =>
    rw [hu] at hres
    simp only [CaptureOK, RefOK]
    intro r hr hcap
    obtain ⟨r', hr', himp⟩ := (show ResolvesVar s.env x from hres)
    rw [hr] at hr'; cases hr'
    exact effFinal_of_capturable _ _ (hparams s hs x r hr) (himp hcap)
  | assign x recv =>
    rw [hu] at hres
    cases recv with
    | none =>
      simp only [CaptureOK]
      intro r hr
      obtain ⟨r', hr', _, hcap⟩ := (show ResolvesAssign s.env x none from hres)
      rw [hr] at hr'; cases hr'; exact hcap
    | some _ => simp [CaptureOK]
  | call f args recv =>
    rw [hu] at hres
    cases recv with
    | some _ => simp [CaptureOK]
    | none =>
      simp only [CaptureOK, RefOK]
      intro hempty r hr hcap
      have hres' : ResolvesCall s.env f args none := hres
      unfold ResolvesCall at hres'
      rcases hres' with ⟨fm, hfm, _⟩ | harity
      · simp only [candidateFuncs] at hfm
        have : visibleFuncs s.env f = [] := List.isEmpty_iff.mp hempty
        rw [this] at hfm; cases hfm
      · simp only [candidateRefType, hr] at harity
        by_cases hcp : isCapturable r.decl = true
        · exact effFinal_of_capturable _ _ (hparams s hs f r hr) hcp
        · simp [hcap, hcp, funArity] at harity
  | _ => simp [CaptureOK]

end Heph.Capture
