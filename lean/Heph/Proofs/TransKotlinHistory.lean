import Heph.Proofs.TransKotlinState
/-! `tu.is_sam` never answers `True`; a translator object forgets its history. -/
namespace Heph.TransKotlin
open Heph

/-! ## `is_sam` -/

theorem filter_ne_nil_length {α} (p : α → Bool) (l : List α) (h : l.filter p ≠ []) : 0 < l.length := by
  cases l with
  | nil => simp at h
  | cons a t => simp

/-- whenever `get_abstract_functions` is non-empty so is `get_callable_functions`: an abstract
    function of the class or of an ancestor along `superclasses[0]` is itself callable -/
theorem abstract_callable : ∀ (fuel : Nat) (cs : List Node) (c : Node) (l : List Node),
    abstractFns fuel cs c = some l →
    ∃ n, callableCount fuel cs c = some n ∧ (l ≠ [] → 0 < n)
  | 0, _, _, _, h => by simp [abstractFns] at h
  | fuel + 1, cs, c, l, h => by
    cases c with
    | classDecl name ctype isFinal fields supers funcs tparams =>
      simp only [abstractFns] at h
      simp only [callableCount]
      cases supers with
      | nil =>
        simp only [Option.some.injEq] at h
        exact ⟨_, rfl, fun hl => filter_ne_nil_length _ _ (h ▸ hl)⟩
      | cons s rest =>
        simp only at h ⊢
        cases hd : getSuperclassDecl s cs with
        | none =>
          simp only [hd, Option.some.injEq] at h
          exact ⟨_, rfl, fun hl => filter_ne_nil_length _ _ (h ▸ hl)⟩
        | some pd =>
          simp only [hd] at h
          cases hp : abstractFns fuel cs pd with
          | none => simp [hp] at h
          | some inh =>
            simp only [hp, Option.map_some, Option.some.injEq] at h
            obtain ⟨m, hm, hpos⟩ := abstract_callable fuel cs pd inh hp
            refine ⟨funcs.length + m, by simp [hm], fun hl => ?_⟩
            subst h
            by_cases hown : funcs.filter (fun f => !funcHasBody f) = []
            · have : inh ≠ [] := by
                intro hi; apply hl; simp [hown, hi]
              have := hpos this; omega
            · have := filter_ne_nil_length _ _ hown; omega
    | _ => simp_all [abstractFns, callableCount]

/-- `check_decl` never answers `True` (it answers `False`, or the recursion does not end) -/
theorem checkDecl_ne_true (fuel : Nat) (cs : List Node) (c : Node) : checkDecl fuel cs c ≠ some true := by
  cases fuel with
  | zero => simp [checkDecl]
  | succ fuel =>
    cases c with
    | classDecl name ctype isFinal fields supers funcs tparams =>
      simp only [checkDecl]
      cases ha : abstractFns (fuel + 1) cs (.classDecl name ctype isFinal fields supers funcs tparams) with
      | none => cases callableCount (fuel + 1) cs (.classDecl name ctype isFinal fields supers funcs tparams) <;> simp
      | some abs =>
        obtain ⟨n, hn, hpos⟩ := abstract_callable _ _ _ _ ha
        simp only [hn]
        split
        · simp
        · rename_i hcond
          exfalso
          simp only [Bool.or_eq_true, not_or] at hcond
          obtain ⟨⟨_, hn0⟩, hlen⟩ := hcond
          have hne : abs ≠ [] := by intro h; subst h; simp at hlen
          have := hpos hne
          simp at hn0; omega
    | _ => simp [checkDecl]

theorem samType_ne_true (fuel : Nat) (cs : List Node) (t : Option Ty) : samType fuel cs t ≠ some true := by
  cases fuel with
  | zero => simp [samType]
  | succ fuel =>
    simp only [samType]
    split
    · split
      · simp
      · exact checkDecl_ne_true _ _ _
    · split
      · simp
      · exact checkDecl_ne_true _ _ _
    · simp

/-- `tu.is_sam(context, cls_decl=c)` is `False` for every class table -/
theorem isSamDecl_false (cs : List Node) (c : Node) : isSamDecl cs c = false := by
  unfold isSamDecl
  have := checkDecl_ne_true (samFuel cs) cs c
  cases h : checkDecl (samFuel cs) cs c with
  | none => rfl
  | some b => cases b <;> simp_all

theorem isSamType_false (cs : List Node) (t : Option Ty) : isSamType cs t = false := by
  unfold isSamType
  have := samType_ne_true (samFuel cs) cs t
  cases h : samType (samFuel cs) cs t with
  | none => rfl
  | some b => cases b <;> simp_all

/-! ## history -/

/-- agreement of two translator objects on everything `visit_program` reads before it
    overwrites it (`context` and `program` are overwritten first) -/
def Agree (a b : Obj) : Prop :=
  a.st.ident = b.st.ident ∧ a.st.isUnit = b.st.isUnit ∧ a.st.isLambda = b.st.isLambda ∧
  a.st.cast = b.st.cast ∧ a.st.stack = b.st.stack ∧ a.package = b.package

theorem Agree.refl (a : Obj) : Agree a a := ⟨rfl, rfl, rfl, rfl, rfl, rfl⟩

theorem Agree.trans {a b c : Obj} (h : Agree a b) (g : Agree b c) : Agree a c := by
  obtain ⟨h1, h2, h3, h4, h5, h6⟩ := h
  obtain ⟨g1, g2, g3, g4, g5, g6⟩ := g
  exact ⟨h1.trans g1, h2.trans g2, h3.trans g3, h4.trans g4, h5.trans g5, h6.trans g6⟩

theorem programDoc_agree {a b : Obj} (h : Agree a b) (p : Program) : programDoc a p = programDoc b p := by
  obtain ⟨h1, h2, h3, h4, h5, h6⟩ := h
  obtain ⟨⟨i, u, l, c, s, x⟩, pr, pk⟩ := a
  obtain ⟨⟨i', u', l', c', s', x'⟩, pr', pk'⟩ := b
  simp only at h1 h2 h3 h4 h5 h6
  subst h1 h2 h3 h4 h5 h6
  rfl

theorem text_agree {a b : Obj} (h : Agree a b) (p : Program) : text a p = text b p := by
  simp only [text, translate, visitProgram, programDoc_agree h p]

/-- the state after `visit_program`: only `context`, `program` are new, and `ident` is 0 if a
    top-level declaration leaks -/
theorem visitProgram_st (ob : Obj) (p : Program) :
    (visitProgram ob p).st = effL p.decls { ob.st with context := programClasses p } ∧
    (visitProgram ob p).package = ob.package := by
  simp [visitProgram, programDoc, visitL_fst]

theorem visitProgram_agree (ob : Obj) (p : Program) (h : ob.st.ident = 0 ∨ leaksL p.decls = false) :
    Agree (visitProgram ob p) ob := by
  obtain ⟨hs, hp⟩ := visitProgram_st ob p
  refine ⟨?_, ?_, ?_, ?_, ?_, hp⟩ <;> rw [hs] <;> simp only [effL]
  cases hl : leaksL p.decls
  · rfl
  · rcases h with h | h
    · simp [h]
    · simp [hl] at h

theorem after_agree : ∀ (ps : List Program) (ob : Obj), ob.st.ident = 0 → Agree (after ob ps) ob
  | [], ob, _ => Agree.refl ob
  | p :: ps, ob, h => by
      have h1 := visitProgram_agree ob p (Or.inl h)
      have h2 := after_agree ps (visitProgram ob p) (h1.1.trans h)
      exact Agree.trans (by simpa [after] using h2) h1

end Heph.TransKotlin
