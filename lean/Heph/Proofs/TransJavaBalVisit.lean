import Heph.Proofs.TransJavaBal
/-! Bracket balance of the Java translator model's text, node kind by node kind.

`NodeOK` delimits the programs covered and names the hypotheses on the atoms (identifiers,
literals, operators are free of `( ) { } [ ]`; every type that is printed has a balanced name).
`visit_ok`: for such programs every visit answers a *neutral* text (properly nested, all closed)
and keeps the texts collected in `_main_children` / `_main_method` neutral. -/
namespace Heph.TransJava

/-- hypothesis on a type the translator prints: its printed forms are balanced -/
structure TyOK (t : Ty) : Prop where
  name : ∀ bv bx, Neutral (typeName t bv bx)
  getName : Neutral (Ty.getName t)
  tyName : BrFree (tyName t)
  tparam : Neutral (typeParamStr t)

def TyOKO : Option Ty → Prop
  | some t => TyOK t
  | none => True

/-- an identifier: not empty, no white space, no bracket -/
def IdentOK (s : String) : Prop := WordL s.toList ∧ BrFree s

/-- the type a parameter declaration prints (`vararg`: the array's element type) -/
def paramPrinted (t : Ty) (vararg : Bool) : Ty :=
  match vararg, t with
  | true, .param _ _ (a :: _) _ => a
  | _, _ => t

mutual
/-- the fragment of programs for which balance is proved, with the hypotheses on its atoms.
Node kinds mapped to `False` are outside the fragment (see `Props/C02.lean`). -/
def NodeOK : Node → Prop
  | .block .. => False
  | .superInst t _ => TyOK t
  | .classDecl .. => False
  | .varDecl name ex _ _ inferred => BrFree name ∧ NodeOK ex ∧ TyOKO inferred
  | .callArg ex _ => NodeOK ex
  | .fieldDecl name t _ _ _ => BrFree name ∧ TyOK t
  | .paramDecl name t vararg _ => IdentOK name ∧ TyOK (paramPrinted t vararg)
  | .funcDecl .. => False
  | .lambda .. => False
  | .funcRef func recv _ => BrFree func ∧ (match recv with | some r => NodeOK r | none => True)
  | .bottom t => TyOKO t
  | .intC lit _ => BrFree lit
  | .realC lit _ => BrFree lit
  | .boolC lit => BrFree lit
  | .charC lit => BrFree lit
  | .stringC lit => BrFree lit
  | .arrayE .. => False
  | .variable name => BrFree name
  | .isE ex t _ => NodeOK ex ∧ TyOK t
  | .binop _ l r op => NodeOK l ∧ NodeOK r ∧ BrFree op
  | .cond c t f _ => NodeOK c ∧ NodeOK t ∧ NodeOK f
  | .newE t args _ => TyOK t ∧ NodesOK args
  | .fieldAccess ex field => NodeOK ex ∧ BrFree field
  | .call .. => False
  | .assign name ex recv => BrFree name ∧ NodeOK ex ∧ (match recv with | some r => NodeOK r | none => True)
def NodesOK : List Node → Prop
  | [] => True
  | x :: xs => NodeOK x ∧ NodesOK xs
end

theorem NodesOK.mem {xs : List Node} (h : NodesOK xs) : ∀ x ∈ xs, NodeOK x := by
  induction xs with
  | nil => intro x hx; cases hx
  | cons y ys ih =>
    simp only [NodesOK] at h
    intro x hx
    rcases List.mem_cons.mp hx with rfl | hx
    · exact h.1
    · exact ih h.2 x hx

theorem NodesOK.of_mem {xs : List Node} (h : ∀ x ∈ xs, NodeOK x) : NodesOK xs := by
  induction xs with
  | nil => trivial
  | cons y ys ih =>
    simp only [NodesOK]
    exact ⟨h y (by simp), ih fun x hx => h x (by simp [hx])⟩

/-- the texts the state collects for `class Main` are neutral -/
def StOK (st : St) : Prop := (∀ d ∈ st.mainChildren, Neutral d) ∧ Neutral st.mainMethod

/-- what the nested-function printer makes of a parameter's text -/
def ParamTextOK (x : Text) : Prop := Neutral (boxedOf (replaceDots (rsplit1 x))) ∧ Neutral (lastWord x)

/-- the invariant of a visit function -/
def VOK (v : St → Node → St × Text) : Prop :=
  ∀ st n, StOK st → NodeOK n →
    StOK (v st n).1 ∧ Neutral (v st n).2 ∧ (isParamDecl n = true → ParamTextOK (v st n).2)

theorem stOK_init : StOK St.init := by
  constructor
  · intro d hd; cases hd
  · exact neutral_empty

/-! ### small facts -/

theorem neutral_sp (n : Nat) : Neutral (sp n) := BrFree.neutral (brs_sp n)

theorem brFree_lit_err (w : String) (h : BrFree w) : BrFree (err w) := by
  unfold err
  exact brFree_append (brFree_append (by decide) h) (by decide)

theorem neutral_typeNameO (t : Option Ty) (h : TyOKO t) (bv bx : Bool) : Neutral (typeNameO t bv bx) := by
  cases t with
  | none => exact BrFree.neutral (show BrFree (err "None.is_wildcard") by decide)
  | some x => exact h.name bv bx

theorem brFree_semi (st : St) : BrFree (semi st) := by
  unfold semi; split <;> decide

theorem brFree_mainPrefix (e : Env) (st : St) (k n : String) : BrFree (mainPrefix e st k n) := by
  unfold mainPrefix
  split
  · split <;> decide
  · decide

theorem brFree_identOld (st : St) (old : Nat) : BrFree (identOld st old) := by
  unfold identOld; split <;> exact brs_sp _

theorem neutral_lstrip {s : String} (h : Neutral s) : Neutral (lstrip s) := by
  intro st rest; rw [brs_lstrip]; exact h st rest

theorem neutral_strip {s : String} (h : Neutral s) : Neutral (strip s) := by
  intro st rest; rw [brs_strip]; exact h st rest

theorem neutral_collapseWs {s : String} (h : Neutral s) : Neutral (collapseWs s) := by
  intro st rest; rw [brs_collapseWs]; exact h st rest

theorem neutral_addStringAt {s sub : String} (pos : Nat) (h : Neutral s) (hs : BrFree sub) :
    Neutral (addStringAt s sub pos) := by
  intro st rest; rw [brs_addStringAt _ _ _ hs]; exact h st rest

theorem neutral_paren {s : String} (h : Neutral s) : Neutral ("(" ++ s ++ ")") := by
  intro st rest
  simp only [brs_append, List.append_assoc]
  have e1 : brs "(" = ['('] := by decide
  have e2 : brs ")" = [')'] := by decide
  rw [e1, e2]
  simp only [List.cons_append, List.nil_append, scan_open_paren]
  rw [h]; simp

theorem StOK.with_eq {s s' : St} (h : StOK s) (h1 : s'.mainChildren = s.mainChildren)
    (h2 : s'.mainMethod = s.mainMethod) : StOK s' := by
  unfold StOK at *; rw [h1, h2]; exact h

/-! ### lists of children -/

theorem visitL_ok {v : St → Node → St × Text} (hv : VOK v) :
    ∀ (xs : List Node) (st : St), StOK st → NodesOK xs →
      StOK (visitL v st xs).1 ∧ (∀ r ∈ (visitL v st xs).2, Neutral r) := by
  intro xs st hst hxs
  unfold visitL
  suffices h : ∀ (acc : St × List Text), StOK acc.1 → (∀ r ∈ acc.2, Neutral r) →
      StOK (xs.foldl (fun (acc : St × List Text) x => ((v acc.1 x).1, acc.2 ++ [(v acc.1 x).2])) acc).1 ∧
      ∀ r ∈ (xs.foldl (fun (acc : St × List Text) x => ((v acc.1 x).1, acc.2 ++ [(v acc.1 x).2])) acc).2, Neutral r by
    exact h (st, []) hst (by intro r hr; cases hr)
  induction xs with
  | nil => intro acc h1 h2; exact ⟨h1, h2⟩
  | cons x xs ih =>
    intro acc h1 h2
    simp only [NodesOK] at hxs
    simp only [List.foldl_cons]
    have hx := hv acc.1 x h1 hxs.1
    apply ih hxs.2
    · exact hx.1
    · intro r hr
      rcases List.mem_append.mp hr with hr | hr
      · exact h2 r hr
      · simp only [List.mem_singleton] at hr; rw [hr]; exact hx.2.1


/-! ### node kinds -/

theorem Neutral.eq {s : String} (h : Neutral s) : ∀ st rest, scan st (brs s ++ rest) = scan st rest := h

theorem brs_semi (st : St) : brs (semi st) = [] := brFree_semi st
theorem brs_mainPrefix (e : Env) (st : St) (k n : String) : brs (mainPrefix e st k n) = [] := brFree_mainPrefix e st k n
theorem brs_identOld (st : St) (old : Nat) : brs (identOld st old) = [] := brFree_identOld st old

/-- close `Neutral (a ++ b ++ …)`: literals are evaluated, neutral parts are rewritten away -/
syntax "fin_neutral" "[" Lean.Parser.Tactic.simpLemma,* "]" : tactic
macro_rules
  | `(tactic| fin_neutral [$ts,*]) =>
    `(tactic| (intro st' rest
               simp [brs, isBr, brs_sp, brs_semi, brs_mainPrefix, brs_identOld, brs_rep_is, brs_toString_nat,
                     brs_lstrip, $ts,*]))

theorem paramText_ok (name : String) (pt : Ty) (vararg : Bool) (hn : IdentOK name) (ht : TyOK pt) :
    Neutral (typeName pt false false ++ (if vararg then "..." else "") ++ " " ++ name) ∧
    ParamTextOK (typeName pt false false ++ (if vararg then "..." else "") ++ " " ++ name) := by
  have hT : Neutral (typeName pt false false ++ (if vararg then "..." else "")) :=
    neutral_append (ht.name _ _) (by split <;> exact BrFree.neutral (by decide))
  have hname : Neutral name := BrFree.neutral hn.2
  refine ⟨neutral_append (neutral_append hT (BrFree.neutral (by decide))) hname, ?_, ?_⟩
  · have e1 : rsplit1 (typeName pt false false ++ (if vararg then "..." else "") ++ " " ++ name)
        = typeName pt false false ++ (if vararg then "..." else "") := by
      unfold rsplit1
      have : (typeName pt false false ++ (if vararg then "..." else "") ++ " " ++ name).toList
          = (typeName pt false false ++ (if vararg then "..." else "")).toList ++ ' ' :: name.toList := by
        simp [String.toList_append]
      rw [this, rsplit1L_word _ _ hn.1.2, String.ofList_toList]
    rw [e1]
    intro st rest
    rw [brs_boxedOf]
    exact neutral_replaceDots hT st rest
  · have e2 : lastWord (typeName pt false false ++ (if vararg then "..." else "") ++ " " ++ name) = name := by
      have : (typeName pt false false ++ (if vararg then "..." else "") ++ " " ++ name)
          = String.ofList ((typeName pt false false ++ (if vararg then "..." else "")).toList ++ ' ' :: name.toList) := by
        rw [← String.toList_inj]; simp [String.toList_append]
      rw [this, lastWordL_word _ _ hn.1, String.ofList_toList]
    rw [e2]; exact hname

theorem VOK.st {v : St → Node → St × Text} (hv : VOK v) {s : St} {n : Node} (hs : StOK s) (hn : NodeOK n) :
    StOK (v s n).1 := (hv s n hs hn).1
theorem VOK.tx {v : St → Node → St × Text} (hv : VOK v) {s : St} {n : Node} (hs : StOK s) (hn : NodeOK n) :
    Neutral (v s n).2 := (hv s n hs hn).2.1

/-- discharge `StOK` of a state built from visits and field updates -/
macro "st_ok" : tactic => `(tactic| iterate 16 (first
  | done
  | assumption
  | exact stOK_init
  | refine VOK.st ‹VOK _› ?_ (by assumption)
  | refine (visitL_ok ‹VOK _› _ _ ?_ (by assumption)).1
  | refine StOK.with_eq ?_ rfl rfl))

set_option linter.unusedSectionVars false
set_option linter.unusedSimpArgs false

section cases
variable (e : Env) {v : St → Node → St × Text} (hv : VOK v) (st : St) (hst : StOK st)
include hv hst

theorem ok_bottom (t : Option Ty) (hn : NodeOK (.bottom t)) :
    StOK (visitNode e v st (.bottom t)).1 ∧ Neutral (visitNode e v st (.bottom t)).2 := by
  simp only [NodeOK] at hn
  cases t with
  | none =>
    simp only [visitNode]
    refine ⟨hst, ?_⟩
    by_cases hp : parentIsFuncRef st = true <;> fin_neutral [hp]
  | some x =>
    simp only [visitNode]
    refine ⟨hst, ?_⟩
    have := (hn : TyOK x).name false false
    by_cases hb : Ty.beq x .nothing = true <;> by_cases hp : parentIsFuncRef st = true <;>
      fin_neutral [hb, hp, this.eq]

omit hv hst in
theorem ok_leaf_lit (pre lit post : String) (hpre : BrFree pre) (hl : BrFree lit) (hpost : BrFree post) :
    Neutral (sp st.ident ++ pre ++ lit ++ post ++ semi st) := by
  have h1 := hpre.neutral; have h2 := hl.neutral; have h3 := hpost.neutral
  fin_neutral [h1.eq, h2.eq, h3.eq]

theorem ok_consts (n : Node)
    (hk : match n with | .intC .. | .realC .. | .boolC .. | .charC .. | .stringC .. | .variable .. => True | _ => False)
    (hn : NodeOK n) : StOK (visitNode e v st n).1 ∧ Neutral (visitNode e v st n).2 := by
  cases n <;> simp only at hk
  case intC lit t =>
    simp only [NodeOK] at hn
    have h1 := hn.neutral
    have hc : Neutral (intCast t lit) := by
      unfold intCast
      (repeat' split) <;> fin_neutral [h1.eq]
    simp only [visitNode]
    split
    · exact ⟨hst, by fin_neutral [h1.eq]⟩
    · exact ⟨hst, by fin_neutral [hc.eq]⟩
  case realC lit t =>
    simp only [NodeOK] at hn
    have h1 := hn.neutral
    have hc : Neutral (realCast t lit) := by
      unfold realCast
      (repeat' split) <;> fin_neutral [h1.eq]
    simp only [visitNode]
    split
    · exact ⟨hst, by fin_neutral [h1.eq]⟩
    · exact ⟨hst, by fin_neutral [hc.eq]⟩
  case boolC lit =>
    simp only [NodeOK] at hn
    have h1 := hn.neutral
    simp only [visitNode]
    exact ⟨hst, by fin_neutral [h1.eq]⟩
  case charC lit =>
    simp only [NodeOK] at hn
    have h1 := hn.neutral
    simp only [visitNode]
    exact ⟨hst, by fin_neutral [h1.eq]⟩
  case stringC lit =>
    simp only [NodeOK] at hn
    have h1 := hn.neutral
    simp only [visitNode]
    exact ⟨hst, by fin_neutral [h1.eq]⟩
  case «variable» name =>
    simp only [NodeOK] at hn
    have h1 := hn.neutral
    simp only [visitNode]
    exact ⟨hst, by fin_neutral [h1.eq]⟩

theorem ok_decl_leaves (n : Node)
    (hk : match n with | .superInst .. | .fieldDecl .. | .paramDecl .. => True | _ => False)
    (hn : NodeOK n) : StOK (visitNode e v st n).1 ∧ Neutral (visitNode e v st n).2 ∧
      (isParamDecl n = true → ParamTextOK (visitNode e v st n).2) := by
  cases n <;> simp only at hk
  case superInst t args =>
    simp only [NodeOK] at hn
    simp only [visitNode]
    exact ⟨hst, hn.name _ _, by intro h; cases h⟩
  case fieldDecl name t fin co ov =>
    simp only [NodeOK] at hn
    have h1 := hn.1.neutral
    have h2 := hn.2.name false false
    simp only [visitNode]
    refine ⟨hst, ?_, by intro h; cases h⟩
    cases fin <;> fin_neutral [h1.eq, h2.eq]
  case paramDecl name t vararg d =>
    simp only [NodeOK] at hn
    simp only [visitNode]
    have := paramText_ok name (paramPrinted t vararg) vararg hn.1 hn.2
    exact ⟨hst, this.1, fun _ => this.2⟩


theorem ok_callArg (ex : Node) (nm : Option String) (hn : NodeOK (.callArg ex nm)) :
    StOK (visitNode e v st (.callArg ex nm)).1 ∧ Neutral (visitNode e v st (.callArg ex nm)).2 := by
  simp only [NodeOK] at hn
  simp only [visitNode]
  have h := hv { st with ident := 0 } ex (hst.with_eq rfl rfl) hn
  generalize v { st with ident := 0 } ex = p at h
  obtain ⟨s1, r⟩ := p
  exact ⟨h.1.with_eq rfl rfl, h.2.1⟩

theorem ok_varDecl (name : String) (ex : Node) (fin : Bool) (vt inf : Option Ty)
    (hn : NodeOK (.varDecl name ex fin vt inf)) :
    StOK (visitNode e v st (.varDecl name ex fin vt inf)).1 ∧ Neutral (visitNode e v st (.varDecl name ex fin vt inf)).2 := by
  simp only [NodeOK] at hn
  obtain ⟨hname, hex, hinf⟩ := hn
  simp only [visitNode]
  have h := hv { st with castNumber := true } ex (hst.with_eq rfl rfl) hex
  generalize v { st with castNumber := true } ex = p at h
  obtain ⟨s1, r⟩ := p
  simp only at h ⊢
  refine ⟨h.1.with_eq rfl rfl, ?_⟩
  have h1 := hname.neutral
  have h2 := neutral_typeNameO inf hinf false false
  have h3 := h.2.1
  have h4 : Neutral (if (s1.ns != ["global"]) = true then mainPrefix e s1 "vars" name else "") := by
    split
    · exact BrFree.neutral (brFree_mainPrefix _ _ _ _)
    · exact neutral_empty
  generalize (if (s1.ns != ["global"]) = true then mainPrefix e s1 "vars" name else "") = mp at h4
  cases fin <;> fin_neutral [h1.eq, h2.eq, h3.eq, h4.eq]

theorem ok_binop (k : String) (l r : Node) (op : String) (hn : NodeOK (.binop k l r op)) :
    StOK (visitNode e v st (.binop k l r op)).1 ∧ Neutral (visitNode e v st (.binop k l r op)).2 := by
  simp only [NodeOK] at hn
  obtain ⟨hl, hr, hop⟩ := hn
  simp only [visitNode]
  have h := hv { st with ident := 0 } l (hst.with_eq rfl rfl) hl
  generalize v { st with ident := 0 } l = p at h
  obtain ⟨s1, ra⟩ := p
  simp only at h ⊢
  have h' := hv s1 r h.1 hr
  generalize v s1 r = q at h'
  obtain ⟨s2, rb⟩ := q
  simp only at h' ⊢
  refine ⟨h'.1.with_eq rfl rfl, ?_⟩
  have h1 := h.2.1
  have h2 := h'.2.1
  have h3 := hop.neutral
  fin_neutral [h1.eq, h2.eq, h3.eq]

theorem ok_fieldAccess (ex : Node) (field : String) (hn : NodeOK (.fieldAccess ex field)) :
    StOK (visitNode e v st (.fieldAccess ex field)).1 ∧ Neutral (visitNode e v st (.fieldAccess ex field)).2 := by
  simp only [NodeOK] at hn
  obtain ⟨hex, hf⟩ := hn
  simp only [visitNode]
  have h := hv { st with ident := 0 } ex (hst.with_eq rfl rfl) hex
  generalize v { st with ident := 0 } ex = p at h
  obtain ⟨s1, r⟩ := p
  simp only at h ⊢
  refine ⟨h.1.with_eq rfl rfl, ?_⟩
  have h1 := h.2.1
  have h2 := hf.neutral
  have h3 : Neutral (wrapBottom ex r) := by
    unfold wrapBottom
    split
    · exact neutral_paren h1
    · exact h1
  generalize wrapBottom ex r = w at h3
  fin_neutral [h2.eq, h3.eq]

theorem ok_newE (t : Ty) (args : List Node) (ci : Bool) (hn : NodeOK (.newE t args ci)) :
    StOK (visitNode e v st (.newE t args ci)).1 ∧ Neutral (visitNode e v st (.newE t args ci)).2 := by
  simp only [NodeOK] at hn
  obtain ⟨ht, hargs⟩ := hn
  simp only [visitNode]
  have h := visitL_ok hv args { st with ident := 0, castNumber := true } (hst.with_eq rfl rfl) hargs
  generalize visitL v { st with ident := 0, castNumber := true } args = p at h
  obtain ⟨s1, rs⟩ := p
  simp only at h ⊢
  refine ⟨h.1.with_eq rfl rfl, ?_⟩
  have hj := neutral_join (sep := ", ") (by decide) h.2
  have hcls : Neutral (if ci = true then tyName t ++ "<>" else typeName t false false) := by
    split
    · exact neutral_append (BrFree.neutral ht.tyName) (BrFree.neutral (by decide))
    · exact ht.name _ _
  generalize (if ci = true then tyName t ++ "<>" else typeName t false false) = cls at hcls
  generalize join ", " rs = j at hj
  fin_neutral [hj.eq, hcls.eq]

theorem ok_isE (ex : Node) (t : Ty) (isNot : Bool) (hn : NodeOK (.isE ex t isNot)) :
    StOK (visitNode e v st (.isE ex t isNot)).1 ∧ Neutral (visitNode e v st (.isE ex t isNot)).2 := by
  simp only [NodeOK] at hn
  obtain ⟨hex, ht⟩ := hn
  simp only [visitNode]
  have h := hv { st with ident := 0 } ex (hst.with_eq rfl rfl) hex
  generalize v { st with ident := 0 } ex = p at h
  obtain ⟨s1, r⟩ := p
  simp only at h ⊢
  have h1 := h.2.1
  have h2 := ht.getName
  cases hvn : varName? ex with
  | none =>
    simp only
    refine ⟨h.1.with_eq rfl rfl, ?_⟩
    cases isNot <;> fin_neutral [h1.eq, h2.eq]
  | some nm =>
    simp only
    refine ⟨h.1.with_eq rfl rfl, ?_⟩
    have h3 : Neutral nm := by
      cases ex <;> simp only [varName?] at hvn <;> try cases hvn
      simp only [NodeOK] at hex
      exact hex.neutral
    cases isNot <;> fin_neutral [h1.eq, h2.eq, h3.eq]

omit hv hst in
theorem neutral_recvExpr (rcv : Node) (r : Text) (h1 : Neutral r) :
    Neutral (if r != "" then (if isBottomC rcv then "(" ++ r ++ ")." else r ++ ".") else "") := by
  split
  · split
    · fin_neutral [h1.eq]
    · fin_neutral [h1.eq]
  · exact neutral_empty

theorem ok_assign (name : String) (ex : Node) (recv : Option Node) (hn : NodeOK (.assign name ex recv)) :
    StOK (visitNode e v st (.assign name ex recv)).1 ∧ Neutral (visitNode e v st (.assign name ex recv)).2 := by
  have hn' : BrFree name ∧ NodeOK ex ∧ NodesOK (optList recv) := by
    cases recv <;> simp only [NodeOK] at hn <;> simp only [optList, NodesOK] <;> simp_all
  obtain ⟨hname, hex, hro⟩ := hn'
  simp only [visitNode]
  have h := visitL_ok hv (optList recv) { st with ident := 0, castNumber := true } (hst.with_eq rfl rfl) hro
  generalize visitL v { st with ident := 0, castNumber := true } (optList recv) = p at h
  obtain ⟨s1, rr⟩ := p
  simp only at h ⊢
  have h' := hv s1 ex h.1 hex
  generalize v s1 ex = q at h'
  obtain ⟨s2, re⟩ := q
  simp only at h' ⊢
  refine ⟨h'.1.with_eq rfl rfl, ?_⟩
  have h1 := hname.neutral
  have h2 := h'.2.1
  cases recv with
  | none => fin_neutral [h1.eq, h2.eq]
  | some rcv =>
    cases rr with
    | nil => fin_neutral [h1.eq, h2.eq]
    | cons r tl =>
      have h3 := neutral_recvExpr rcv r (h.2 r (by simp))
      simp only
      generalize (if r != "" then (if isBottomC rcv then "(" ++ r ++ ")." else r ++ ".") else "") = rx at h3
      fin_neutral [h1.eq, h2.eq, h3.eq]

end cases

theorem neutral_condText {a rc rt rf z : String} (ha : BrFree a) (hz : BrFree z) (h1 : Neutral rc)
    (h2 : Neutral rt) (h3 : Neutral rf) :
    Neutral (a ++ "((" ++ lstrip rc ++ ") ?\n" ++ rt ++ " : \n " ++ rf ++ ")" ++ z) := by
  have ha := ha.neutral; have hz := hz.neutral
  fin_neutral [ha.eq, hz.eq, h1.eq, h2.eq, h3.eq]

theorem ok_cond (e : Env) {v : St → Node → St × Text} (hv : VOK v) (st : St) (hst : StOK st)
    (c tb fb : Node) (ty : Option Ty) (hn : NodeOK (.cond c tb fb ty)) :
    StOK (visitNode e v st (.cond c tb fb ty)).1 ∧ Neutral (visitNode e v st (.cond c tb fb ty)).2 := by
  simp only [NodeOK] at hn
  obtain ⟨hc, ht, hf⟩ := hn
  simp only [visitNode]
  have h0 : StOK { st with insideIs := true, ident := st.ident + 2 } := hst.with_eq rfl rfl
  have h := hv _ c h0 hc
  generalize v { st with insideIs := true, ident := st.ident + 2 } c = p at h
  obtain ⟨s1, rc⟩ := p
  simp only at h ⊢
  have h1 := h.2.1
  have hs1 := h.1
  split
  · next lexpr rexpr isNot =>
    cases isNot
    · simp only [Bool.not_false, if_true]
      refine ⟨by st_ok, neutral_condText (brFree_identOld _ _) (brFree_semi _) h1 (hv.tx ?_ ht) (hv.tx ?_ hf)⟩
      all_goals st_ok
    · simp only [Bool.not_true, Bool.false_eq_true, if_false]
      refine ⟨by st_ok, neutral_condText (brFree_identOld _ _) (brFree_semi _) h1 (hv.tx ?_ ht) (hv.tx ?_ hf)⟩
      all_goals st_ok
  · simp only
    refine ⟨by st_ok, neutral_condText (brFree_identOld _ _) (brFree_semi _) h1 (hv.tx ?_ ht) (hv.tx ?_ hf)⟩
    all_goals st_ok


theorem ok_funcRef (e : Env) {v : St → Node → St × Text} (hv : VOK v) (st : St) (hst : StOK st)
    (func : String) (recv : Option Node) (sig : Option Ty)
    (hn : BrFree func ∧ (match recv with | some r => NodeOK r | none => True)) :
    StOK (visitNode e v st (.funcRef func recv sig)).1 ∧ Neutral (visitNode e v st (.funcRef func recv sig)).2 := by
  obtain ⟨hf, hr⟩ := hn
  have hro : NodesOK (optList recv) := by
    cases recv <;> simp only [optList, NodesOK] <;> simp_all
  have h1 := hf.neutral
  simp only [visitNode]
  have h := visitL_ok hv (optList recv) { st with ident := 0 } (hst.with_eq rfl rfl) hro
  generalize visitL v { st with ident := 0 } (optList recv) = p at h
  obtain ⟨s1, rs⟩ := p
  simp only at h ⊢
  refine ⟨h.1.with_eq rfl rfl, ?_⟩
  cases rs with
  | nil =>
    simp only
    (repeat' split) <;>
      exact neutral_append (neutral_append (neutral_append (neutral_sp _) (BrFree.neutral (by decide))) h1) (BrFree.neutral (brFree_semi _))
  | cons r tl =>
    simp only
    have h2 := h.2 r (by simp)
    have h3 : Neutral (if r != "" then r ++ "::" else r) := by
      split
      · exact neutral_append h2 (BrFree.neutral (by decide))
      · exact h2
    generalize (if r != "" then r ++ "::" else r) = rx at h3
    fin_neutral [h1.eq, h3.eq]

/-! ### assembly -/

theorem visitNode_ok (e : Env) {v : St → Node → St × Text} (hv : VOK v) (st : St) (hst : StOK st) (n : Node)
    (hn : NodeOK n) :
    StOK (visitNode e v st n).1 ∧ Neutral (visitNode e v st n).2 ∧
      (isParamDecl n = true → ParamTextOK (visitNode e v st n).2) := by
  have np : ∀ {P Q : Prop} {m : Node}, isParamDecl m = false → P ∧ Q → P ∧ Q ∧ (isParamDecl m = true → ParamTextOK (visitNode e v st m).2) :=
    fun hm h => ⟨h.1, h.2, fun h' => by rw [hm] at h'; cases h'⟩
  cases n
  case block => simp only [NodeOK] at hn
  case superInst => exact ok_decl_leaves e hv st hst _ trivial hn
  case classDecl => simp only [NodeOK] at hn
  case varDecl => exact np rfl (ok_varDecl e hv st hst _ _ _ _ _ hn)
  case callArg => exact np rfl (ok_callArg e hv st hst _ _ hn)
  case fieldDecl => exact ok_decl_leaves e hv st hst _ trivial hn
  case paramDecl => exact ok_decl_leaves e hv st hst _ trivial hn
  case funcDecl => simp only [NodeOK] at hn
  case lambda => simp only [NodeOK] at hn
  case funcRef f r sg => exact np rfl (ok_funcRef e hv st hst f r sg (by cases r <;> simpa only [NodeOK] using hn))
  case bottom => exact np rfl (ok_bottom e hv st hst _ hn)
  case intC => exact np rfl (ok_consts e hv st hst _ trivial hn)
  case realC => exact np rfl (ok_consts e hv st hst _ trivial hn)
  case boolC => exact np rfl (ok_consts e hv st hst _ trivial hn)
  case charC => exact np rfl (ok_consts e hv st hst _ trivial hn)
  case stringC => exact np rfl (ok_consts e hv st hst _ trivial hn)
  case arrayE => simp only [NodeOK] at hn
  case «variable» => exact np rfl (ok_consts e hv st hst _ trivial hn)
  case isE => exact np rfl (ok_isE e hv st hst _ _ _ hn)
  case binop => exact np rfl (ok_binop e hv st hst _ _ _ _ hn)
  case cond => exact np rfl (ok_cond e hv st hst _ _ _ _ hn)
  case newE => exact np rfl (ok_newE e hv st hst _ _ _ hn)
  case fieldAccess => exact np rfl (ok_fieldAccess e hv st hst _ _ hn)
  case call => simp only [NodeOK] at hn
  case assign => exact np rfl (ok_assign e hv st hst _ _ _ hn)

theorem route_ok (st : St) (n : Node) (res : Text) (hst : StOK st) (hr : Neutral res) : StOK (route st n res) := by
  unfold route
  split
  · split
    · split
      · exact ⟨hst.1, hr⟩
      · refine ⟨?_, hst.2⟩
        intro d hd
        rcases List.mem_append.mp hd with hd | hd
        · exact hst.1 d hd
        · simp only [List.mem_singleton] at hd; rw [hd]; exact hr
    · refine ⟨?_, hst.2⟩
      intro d hd
      rcases List.mem_append.mp hd with hd | hd
      · exact hst.1 d hd
      · simp only [List.mem_singleton] at hd; rw [hd]; exact hr
    · exact hst
  · exact hst

theorem paramTextOK_fuelMark : ParamTextOK fuelMark := by
  constructor
  · exact BrFree.neutral (by decide)
  · exact BrFree.neutral (by decide)

theorem visit_ok (e : Env) : ∀ f, VOK (visit e f)
  | 0 => by
    intro st n hst _
    exact ⟨hst, BrFree.neutral (show BrFree fuelMark by decide), fun _ => paramTextOK_fuelMark⟩
  | f+1 => by
    intro st n hst hn
    have h := visitNode_ok e (visit_ok e f) { st with nodesStack := tagOf n :: st.nodesStack } (hst.with_eq rfl rfl) n hn
    simp only [visit]
    exact ⟨route_ok _ _ _ (h.1.with_eq rfl rfl) h.2.1, h.2.1, h.2.2⟩

end Heph.TransJava
