import Heph.Proofs.GraphBasic
import Mathlib.Data.List.Nodup
/-!
# `find_all_paths`

The recursion depth is bounded by the number of keys not yet on the path plus one (the last
vertex of a path may be a non-key): the invariant is `keys.length + 1 ≤ fuel + path.length`.
-/
namespace Heph.Graph

theorem isPath_cons_cons (g : Graph) (a b : Nat) (t : List Nat) :
    IsPath g (a :: b :: t) ↔ b ∈ adj g a ∧ IsPath g (b :: t) := Iff.rfl

theorem isPath_singleton (g : Graph) (a : Nat) : IsPath g [a] := trivial

/-- every vertex of a path except possibly the last is a key -/
theorem IsPath.dropLast_keys {g : Graph} : ∀ {p : List Nat}, IsPath g p → ∀ x ∈ p.dropLast, x ∈ keys g
  | [], h => by simp
  | [a], _ => by simp
  | a :: b :: t, h => by
    intro x hx
    rw [List.dropLast_cons_cons, List.mem_cons] at hx
    rcases hx with rfl | hx
    · exact key_of_mem_adj h.1
    · exact IsPath.dropLast_keys h.2 x hx

theorem simplePath_iff (g : Graph) (s : Nat) (p : List Nat) :
    SimplePath g s p ↔ p.head? = some s ∧ IsPath g p ∧ p.Nodup :=
  ⟨fun h => ⟨h.1, h.2.1, h.2.2.1⟩, fun h => ⟨h.1, h.2.1, h.2.2, h.2.1.dropLast_keys⟩⟩

/-- the `for node in graph[start]` loop, once every recursive call is known to answer -/
theorem foldl_paths (rc : Nat → Option (List (List Nat))) (path' : List Nat) :
    ∀ (ns : List Nat) (acc : List (List Nat)),
    (∀ n ∈ ns, n ∉ path' → ∃ r, rc n = some r) →
    ns.foldl (fun acc node =>
        match acc with
        | none => none
        | some paths =>
          if path'.contains node then some paths
          else match rc node with
            | none => none
            | some new => some (paths ++ new)) (some acc)
      = some (acc ++ (ns.filter fun n => !path'.contains n).flatMap fun n => (rc n).getD []) := by
  intro ns
  induction ns with
  | nil => intro acc _; simp
  | cons n ns ih =>
    intro acc h
    simp only [List.foldl_cons]
    by_cases hn : n ∈ path'
    · have hb : path'.contains n = true := by simpa using hn
      simp only [hb, if_true]
      rw [ih acc (fun m hm => h m (List.mem_cons_of_mem _ hm))]
      simp [hn]
    · have hb : path'.contains n = false := by simpa using hn
      obtain ⟨r, hr⟩ := h n (by simp) hn
      simp only [hb, Bool.false_eq_true, if_false, hr]
      rw [ih (acc ++ r) (fun m hm => h m (List.mem_cons_of_mem _ hm))]
      simp [hn, hr]

/-- the paths expected from the call `find_all_paths(graph, start, path)` -/
def Ext (g : Graph) (start : Nat) (path p : List Nat) : Prop :=
  ∃ q, p = path ++ q ∧ q.head? = some start ∧ IsPath g q ∧ (path ++ q).Nodup

theorem ext_nonkey {g : Graph} {start : Nat} {path : List Nat} (hk : start ∉ keys g)
    (hs : start ∉ path) (hp : path.Nodup) (p : List Nat) :
    Ext g start path p ↔ p = path ++ [start] := by
  constructor
  · rintro ⟨q, rfl, hh, hq, _⟩
    match q, hh, hq with
    | [a], hh, _ => simp at hh; rw [hh]
    | a :: b :: t, hh, hq =>
      simp at hh; subst hh
      have := hq.1
      rw [adj_of_not_key hk] at this; simp at this
  · rintro rfl
    refine ⟨[start], rfl, rfl, trivial, ?_⟩
    exact List.nodup_append.2 ⟨hp, by simp, by
      intro a ha b hb; have : b = start := by simpa using hb
      subst this; intro e; subst e; exact hs ha⟩

theorem ext_key {g : Graph} {start : Nat} {path : List Nat}
    (hs : start ∉ path) (hp : path.Nodup) (p : List Nat) :
    Ext g start path p ↔ p = path ++ [start] ∨
      ∃ n ∈ adj g start, n ∉ path ++ [start] ∧ Ext g n (path ++ [start]) p := by
  constructor
  · rintro ⟨q, rfl, hh, hq, hnd⟩
    match q, hh, hq, hnd with
    | [a], hh, _, _ => simp at hh; rw [hh]; exact Or.inl rfl
    | a :: b :: t, hh, hq, hnd =>
      simp at hh; subst hh
      right
      have hnd' : ((path ++ [a]) ++ b :: t).Nodup := by simpa using hnd
      refine ⟨b, hq.1, ?_, b :: t, by simp, rfl, hq.2, hnd'⟩
      intro hb
      exact (List.nodup_append.1 hnd').2.2 b hb b (by simp) rfl
  · rintro (rfl | ⟨n, hn, _, q, rfl, hh, hq, hnd⟩)
    · refine ⟨[start], rfl, rfl, trivial, ?_⟩
      exact List.nodup_append.2 ⟨hp, by simp, by
        intro a ha b hb; have : b = start := by simpa using hb
        subst this; intro e; subst e; exact hs ha⟩
    · match q, hh, hq, hnd with
      | b :: t, hh, hq, hnd =>
        simp at hh; subst hh
        exact ⟨start :: b :: t, by simp, rfl, ⟨hn, hq⟩, by simpa using hnd⟩

theorem allPathsAux_correct (g : Graph) : ∀ (f start : Nat) (path : List Nat),
    path.Nodup → (∀ x ∈ path, x ∈ keys g) → start ∉ path →
    (keys g).length + 1 ≤ f + path.length →
    ∃ l, allPathsAux g f start path = some l ∧ (∀ p, p ∈ l ↔ Ext g start path p) ∧
      (AdjNodup g → l.Nodup) := by
  intro f
  induction f with
  | zero =>
    intro start path hp hsub _ hlen
    have := hp.length_le_of_subset (l₂ := keys g) (fun x hx => hsub x hx)
    omega
  | succ f ih =>
    intro start path hp hsub hs hlen
    simp only [allPathsAux]
    by_cases hk : start ∈ keys g
    · have hb : (keys g).contains start = true := by simpa using hk
      simp only [hb, Bool.not_true, Bool.false_eq_true, if_false]
      have hp' : (path ++ [start]).Nodup := List.nodup_append.2 ⟨hp, by simp, by
        intro a ha b hb; have : b = start := by simpa using hb
        subst this; intro e; subst e; exact hs ha⟩
      have hsub' : ∀ x ∈ path ++ [start], x ∈ keys g := by
        intro x hx
        rcases List.mem_append.1 hx with hx | hx
        · exact hsub x hx
        · have : x = start := by simpa using hx
          subst this; exact hk
      have IH : ∀ n, n ∉ path ++ [start] →
          ∃ l, allPathsAux g f n (path ++ [start]) = some l ∧
            (∀ p, p ∈ l ↔ Ext g n (path ++ [start]) p) ∧ (AdjNodup g → l.Nodup) := by
        intro n hn
        apply ih n _ hp' hsub' hn
        simp only [List.length_append, List.length_cons, List.length_nil]; omega
      refine ⟨_, foldl_paths (fun n => allPathsAux g f n (path ++ [start])) (path ++ [start])
        (adj g start) [path ++ [start]] (fun n _ hn => (IH n hn).imp fun _ h => h.1), ?_, ?_⟩
      · intro p
        rw [ext_key hs hp]
        simp only [List.mem_append, List.mem_singleton, List.mem_flatMap, List.mem_filter,
          Bool.not_eq_true', List.contains_eq_mem, decide_eq_false_iff_not]
        constructor
        · rintro (h | ⟨n, ⟨hn1, hn2⟩, hpn⟩)
          · exact Or.inl h
          · obtain ⟨l, e, hl, _⟩ := IH n (by simpa using hn2)
            rw [e] at hpn
            exact Or.inr ⟨n, hn1, by simpa using hn2, (hl p).1 hpn⟩
        · rintro (h | ⟨n, hn1, hn2, hpn⟩)
          · exact Or.inl h
          · obtain ⟨l, e, hl, _⟩ := IH n (by simpa using hn2)
            refine Or.inr ⟨n, ⟨hn1, by simpa using hn2⟩, ?_⟩
            rw [e]; exact (hl p).2 hpn
      · intro hadj
        have hex : ∀ n, n ∉ path ++ [start] → ∀ p ∈ (allPathsAux g f n (path ++ [start])).getD [],
            ∃ t, p = (path ++ [start]) ++ n :: t := by
          intro n hn p hpn
          obtain ⟨l, e, hl, _⟩ := IH n hn
          rw [e] at hpn
          obtain ⟨q, rfl, hh, _, _⟩ := (hl p).1 hpn
          match q, hh with
          | b :: t, hh => simp at hh; subst hh; exact ⟨t, rfl⟩
        refine List.nodup_append.2 ⟨by simp, ?_, ?_⟩
        · rw [List.nodup_flatMap]
          constructor
          · intro n hn
            have hn2 : n ∉ path ++ [start] := by
              have := (List.mem_filter.1 hn).2; simpa using this
            obtain ⟨l, e, _, hl⟩ := IH n hn2
            rw [e]; exact hl hadj
          · refine List.Pairwise.imp_of_mem ?_ ((hadj start).filter _)
            intro n m hn hm hne p hp1 hp2
            have hn2 : n ∉ path ++ [start] := by
              have := (List.mem_filter.1 hn).2; simpa using this
            have hm2 : m ∉ path ++ [start] := by
              have := (List.mem_filter.1 hm).2; simpa using this
            obtain ⟨t1, e1⟩ := hex n hn2 p hp1
            obtain ⟨t2, e2⟩ := hex m hm2 p hp2
            rw [e1] at e2
            have := List.append_cancel_left e2
            simp at this
            exact hne this.1
        · intro a ha b hb
          have : a = path ++ [start] := by simpa using ha
          subst this
          obtain ⟨n, hn, hbn⟩ := List.mem_flatMap.1 hb
          have hn2 : n ∉ path ++ [start] := by
            have := (List.mem_filter.1 hn).2; simpa using this
          obtain ⟨t, e⟩ := hex n hn2 b hbn
          intro e'
          rw [← e'] at e
          have := congrArg List.length e
          simp at this
    · have hb : (keys g).contains start = false := by simpa using hk
      simp only [hb, Bool.not_false, if_true]
      refine ⟨_, rfl, ?_, fun _ => by simp⟩
      intro p
      rw [ext_nonkey hk hs hp]
      simp

/-- `find_all_paths` answers, with exactly the simple paths from the start vertex, and without
    repetition when the adjacency lists are duplicate-free -/
theorem findAllPaths_correct (g : Graph) (s : Nat) :
    ∃ l, findAllPaths g s = some l ∧ (∀ p, p ∈ l ↔ SimplePath g s p) ∧ (AdjNodup g → l.Nodup) := by
  obtain ⟨l, e, hl, hn⟩ := allPathsAux_correct g ((keys g).length + 2) s []
    (by simp) (by simp) (by simp) (by simp)
  refine ⟨l, e, ?_, hn⟩
  intro p
  rw [hl, simplePath_iff]
  constructor
  · rintro ⟨q, rfl, h1, h2, h3⟩; exact ⟨h1, h2, by simpa using h3⟩
  · rintro ⟨h1, h2, h3⟩; exact ⟨p, by simp, h1, h2, by simpa using h3⟩

end Heph.Graph
