import Heph.Proofs.SubstSyn
/-!
# Substituting with an empty map returns an `==` type (helper lemmas of C07)

`strip` forgets the supertypes lists recorded in copied constructors.  The code's substitution
is a congruence for "same up to `strip`" in the values of the map; with the empty map it returns
a type that is the same up to `strip` when the type is `Consistent`; and types that are the same
up to `strip` are `==` (when well-formed).
-/
namespace Heph.Ty

mutual
theorem hasTV_strip : ∀ t, hasTV (strip t) = hasTV t
  | builtin .. => by simp only [strip]
  | simple .. => by simp only [strip]
  | tparam .. => by simp only [strip, hasTV]
  | wild v b => by simp only [strip, hasTV, hasTVO_stripO b]
  | tcon .. => by simp only [strip]
  | param nm con args ss => by simp only [strip, hasTV, hasTVL_stripL args]
  | nothing => by simp only [strip]
  | ext _ => by simp only [strip]
theorem hasTVL_stripL : ∀ l, hasTVL (stripL l) = hasTVL l
  | [] => by simp only [stripL]
  | x :: xs => by simp only [stripL, hasTVL, hasTV_strip x, hasTVL_stripL xs]
theorem hasTVO_stripO : ∀ o, hasTVO (stripO o) = hasTVO o
  | none => by simp only [stripO]
  | some x => by simp only [stripO, hasTVO, hasTV_strip x]
end

theorem hasTV_eq_of_strip_eq {r r' : Ty} (h : strip r = strip r') : hasTV r = hasTV r' := by
  rw [← hasTV_strip r, h, hasTV_strip]

mutual
theorem beq_of_strip_eq : ∀ t t', wf t = true → strip t = strip t' → beq t t' = true
  | builtin .., t', _, h => by
      cases t' <;> simp [strip] at h
      simp [beq, h]
  | simple n ss, t', hw, h => by
      cases t' <;> simp [strip] at h
      simp only [wf] at hw
      simp [beq, ← h.1, ← h.2, beqL_refl_of_wf ss hw]
  | tparam n v b, t', hw, h => by
      cases t' <;> simp [strip] at h
      simp only [wf] at hw
      simp [beq, h.1, h.2.1, beqO_of_strip_eq b _ hw h.2.2]
  | wild v b, t', hw, h => by
      cases t' <;> simp [strip] at h
      simp only [wf] at hw
      simp [beq, h.1, beqO_of_strip_eq b _ hw h.2]
  | tcon .., t', _, h => by
      cases t' <;> simp [strip] at h
      simp [beq, h]
  | param nm con args ss, t', hw, h => by
      cases t' <;> simp [strip] at h
      rename_i nm' con' args' ss'
      obtain ⟨hn, hcon, ha, hs⟩ := h
      cases con <;> simp [wf] at hw
      rename_i cls cnm ps css
      cases con' <;> simp [stripCon] at hcon
      simp [beq, hn, ← hcon.1, ← hcon.2.2, beqL_refl_of_wf ps hw.2,
        beqL_of_strip_eq ss _ hw.1.1 hs, beqL_of_strip_eq args _ hw.1.2 ha]
  | nothing, t', _, h => by
      cases t' <;> simp [strip] at h
      simp [beq]
  | ext _, t', _, h => by
      cases t' <;> simp [strip] at h
      simp [beq, h]
theorem beqL_of_strip_eq : ∀ l l', wfL l = true → stripL l = stripL l' → beqL l l' = true
  | [], l', _, h => by
      cases l' <;> simp [stripL] at h
      simp [beqL]
  | x :: xs, l', hw, h => by
      cases l' <;> simp [stripL] at h
      simp only [wfL, Bool.and_eq_true] at hw
      simp [beqL, beq_of_strip_eq x _ hw.1 h.1, beqL_of_strip_eq xs _ hw.2 h.2]
theorem beqO_of_strip_eq : ∀ o o', wfO o = true → stripO o = stripO o' → beqO o o' = true
  | none, o', _, h => by
      cases o' <;> simp [stripO] at h
      simp [beqO]
  | some x, o', hw, h => by
      cases o' <;> simp [stripO] at h
      simp only [wfO] at hw
      simp [beqO, beq_of_strip_eq x _ hw h]
end

/-! ### the code's substitution is a congruence for "same up to `strip`" in the map's values -/

theorem stripCon_performSubst (c : Ty) (m : TMap) : stripCon (performSubst c m) = stripCon c := by
  cases c <;> simp [performSubst, stripCon]

theorem strip_mkP_performSubst (con : Ty) (m : TMap) (A : List Ty) :
    strip (mkP (performSubst con m) A) =
      param (conName con) (stripCon con) (stripL A) (stripL (performSubstL (conSups con) m)) := by
  simp only [mkP, strip, conName_performSubst, stripCon_performSubst, conSups_performSubst]

theorem lookup_congr {m m' : TMap} (hm : stripM m = stripM m') (t u u' : Ty) (dflt : Bool)
    (hu : strip u = strip u') :
    strip (match m.get t with
      | none => u
      | some r => if (dflt && hasTV r) = true then u else r) =
    strip (match m'.get t with
      | none => u'
      | some r => if (dflt && hasTV r) = true then u' else r) := by
  have h := stripM_get m t
  rw [hm, stripM_get] at h
  cases h1 : m.get t with
  | none =>
    cases h2 : m'.get t with
    | none => exact hu
    | some r' => simp [h1, h2] at h
  | some r =>
    cases h2 : m'.get t with
    | none => simp [h1, h2] at h
    | some r' =>
      simp only [h1, h2, Option.map_some, Option.some.injEq] at h
      simp only [hasTV_eq_of_strip_eq h.symm]
      split
      · exact hu
      · exact h.symm

mutual
theorem strip_getSubst_congr : ∀ (t : Ty) (m m' : TMap) (dflt : Bool), stripM m = stripM m' →
    strip (getSubst t m dflt) = strip (getSubst t m' dflt)
  | builtin .., m, m', dflt, hm => by
      simp only [getSubst]; exact lookup_congr hm _ _ _ _ rfl
  | simple .., m, m', dflt, hm => by
      simp only [getSubst]; exact lookup_congr hm _ _ _ _ rfl
  | tparam nm v none, m, m', dflt, hm => by
      simp only [getSubst]; exact lookup_congr hm _ _ _ _ rfl
  | tparam nm v (some b), m, m', dflt, hm => by
      simp only [getSubst]
      exact lookup_congr hm _ _ _ _ (by simp only [strip, stripO, strip_getSubst_congr b m m' dflt hm])
  | wild v none, m, m', dflt, hm => by
      simp only [getSubst]; exact lookup_congr hm _ _ _ _ rfl
  | wild v (some b), m, m', dflt, hm => by
      simp only [getSubst, strip, stripO, strip_getSubst_congr b m m' dflt hm]
  | tcon .., m, m', dflt, hm => by
      simp only [getSubst]; exact lookup_congr hm _ _ _ _ rfl
  | param nm con args ss, m, m', dflt, hm => by
      have ha := stripL_getSubstL_congr args m m' dflt hm
      have hmk : stripM (TMap.mk (conParams con) (getSubstL args m dflt)) =
          stripM (TMap.mk (conParams con) (getSubstL args m' dflt)) := by
        rw [stripM_mk, stripM_mk, ha]
      have hs : stripL (performSubstL (conSups con) (TMap.mk (conParams con) (getSubstL args m dflt))) =
          stripL (performSubstL (conSups con) (TMap.mk (conParams con) (getSubstL args m' dflt))) := by
        cases con with
        | tcon cls cnm cps css =>
          simp only [conSups]
          exact stripL_performSubstL_congr css _ _ hmk
        | _ => simp [conSups, performSubstL]
      simp only [getSubst, strip_mkP_performSubst, ha, hs]
  | nothing, m, m', dflt, hm => by
      simp only [getSubst]; exact lookup_congr hm _ _ _ _ rfl
  | ext _, m, m', dflt, hm => by
      simp only [getSubst]; exact lookup_congr hm _ _ _ _ rfl
theorem stripL_getSubstL_congr : ∀ (l : List Ty) (m m' : TMap) (dflt : Bool), stripM m = stripM m' →
    stripL (getSubstL l m dflt) = stripL (getSubstL l m' dflt)
  | [], _, _, _, _ => by simp only [getSubstL]
  | x :: xs, m, m', dflt, hm => by
      simp only [getSubstL, stripL, strip_getSubst_congr x m m' dflt hm,
        stripL_getSubstL_congr xs m m' dflt hm]
theorem stripL_performSubstL_congr : ∀ (css : List Ty) (m m' : TMap), stripM m = stripM m' →
    stripL (performSubstL css m) = stripL (performSubstL css m')
  | [], _, _, _ => by simp only [performSubstL]
  | t :: rest, m, m', hm => by
      cases t with
      | param nm con args ss =>
        simp only [performSubstL, stripL, strip_getSubst_congr (param nm con args ss) m m' true hm,
          stripL_performSubstL_congr rest m m' hm]
      | _ =>
        simp only [performSubstL, stripL, stripL_performSubstL_congr rest m m' hm]
end

/-! ### the empty map -/

theorem TMap.get_nil (k : Ty) : TMap.get [] k = none := rfl

mutual
theorem strip_getSubst_nil : ∀ (t : Ty) (dflt : Bool), Consistent t →
    strip (getSubst t [] dflt) = strip t
  | builtin .., _, _ => by simp only [getSubst, TMap.get_nil]
  | simple .., _, _ => by simp only [getSubst, TMap.get_nil]
  | tparam nm v none, _, _ => by simp only [getSubst, TMap.get_nil]
  | tparam nm v (some b), dflt, h => by
      simp only [Consistent, ConsistentO] at h
      simp only [getSubst, TMap.get_nil, strip, stripO, strip_getSubst_nil b dflt h]
  | wild v none, _, _ => by simp only [getSubst, TMap.get_nil]
  | wild v (some b), dflt, h => by
      simp only [Consistent, ConsistentO] at h
      simp only [getSubst, strip, stripO, strip_getSubst_nil b dflt h]
  | tcon .., _, _ => by simp only [getSubst, TMap.get_nil]
  | param nm con args ss, dflt, h => by
      simp only [Consistent] at h
      obtain ⟨hn, ha, hs⟩ := h
      have ha' := stripL_getSubstL_nil args dflt ha
      have hmk : stripM (TMap.mk (conParams con) (getSubstL args [] dflt)) =
          stripM (TMap.mk (conParams con) args) := by
        rw [stripM_mk, stripM_mk, ha']
      simp only [getSubst, strip_mkP_performSubst, ha',
        stripL_performSubstL_congr (conSups con) _ _ hmk, hs, strip, ← hn]
  | nothing, _, _ => by simp only [getSubst, TMap.get_nil]
  | ext _, _, _ => by simp only [getSubst, TMap.get_nil]
theorem stripL_getSubstL_nil : ∀ (l : List Ty) (dflt : Bool), ConsistentL l →
    stripL (getSubstL l [] dflt) = stripL l
  | [], _, _ => by simp only [getSubstL]
  | x :: xs, dflt, h => by
      simp only [ConsistentL] at h
      simp only [getSubstL, stripL, strip_getSubst_nil x dflt h.1, stripL_getSubstL_nil xs dflt h.2]
end

end Heph.Ty
