import Heph.Proofs.TransScalaDoc
import Heph.Proofs.TransKotlinPrinted
/-! `sem` piece by piece (Scala): a piece is called for by the program iff one of the nodes whose text the
translator prints (`printed`) contributes it (`own`); which node kind contributes which tag.  The
membership lemmas for docs are those of `Proofs/TransKotlinPrinted.lean`. -/
namespace Heph.TransScala
open Heph
open Heph.TransKotlin (Tag Piece Doc isCls attrName isBlock tparamName)
set_option linter.unusedSimpArgs false

def Own (ms : List Node) (pc : Piece) : Prop := ∃ m ∈ ms, pc ∈ own m

theorem Own_nil (pc : Piece) : Own [] pc ↔ False := by simp [Own]
theorem Own_cons (m : Node) (ms : List Node) (pc : Piece) : Own (m :: ms) pc ↔ pc ∈ own m ∨ Own ms pc := by
  simp [Own]
theorem Own_append (a b : List Node) (pc : Piece) : Own (a ++ b) pc ↔ Own a pc ∨ Own b pc := by
  simp [Own, or_and_right, exists_or]

mutual
theorem mem_sem (pc : Piece) : ∀ n : Node, pc ∈ sem n ↔ Own (printed n) pc
  | .block body _ => by simp [sem, printed, own, Own_cons, mem_semL pc body]
  | .superInst _ args => by simp [sem, printed, own, Own_cons, mem_semOL pc args]
  | .classDecl _ _ _ fields supers funcs _ => by
      simp [sem, printed, own, Own_cons, Own_append, mem_semL pc fields, mem_semL pc supers, mem_semL pc funcs, or_assoc]
  | .varDecl _ e _ vt _ => by cases vt <;> simp [sem, printed, own, Own_cons, mem_sem pc e, or_assoc]
  | .callArg e nm => by cases nm <;> simp [sem, printed, own, Own_cons, mem_sem pc e]
  | .fieldDecl .. => by simp [sem, printed, own, Own_cons, Own_nil]
  | .paramDecl _ _ _ dflt => by simp [sem, printed, own, Own_cons, mem_semO pc dflt]
  | .funcDecl _ params rt _ body _ _ _ _ => by
      cases rt <;> simp [sem, printed, own, Own_cons, Own_append, mem_semL pc params, mem_semO pc body, or_assoc] <;> grind
  | .lambda _ params rt body _ => by
      cases rt <;>
        simp [sem, printed, own, Own_cons, Own_append, mem_semL pc params, mem_sem pc body] <;> grind
  | .funcRef _ receiver _ => by simp [sem, printed, own, Own_cons, mem_semO pc receiver, or_comm]
  | .bottom t => by cases t <;> simp [sem, printed, own, Own_cons, Own_nil]
  | .intC .. => by simp [sem, printed, own, Own_cons, Own_nil]
  | .realC .. => by simp [sem, printed, own, Own_cons, Own_nil]
  | .boolC .. => by simp [sem, printed, own, Own_cons, Own_nil]
  | .charC .. => by simp [sem, printed, own, Own_cons, Own_nil]
  | .stringC .. => by simp [sem, printed, own, Own_cons, Own_nil]
  | .arrayE _ len exprs => by
      by_cases h : (len == 0) = true <;>
        simp [sem, printed, own, h, Own_cons, Own_nil, mem_semL pc exprs] <;> grind
  | .variable _ => by simp [sem, printed, own, Own_cons, Own_nil]
  | .binop _ l r _ => by
      simp [sem, printed, own, Own_cons, Own_append, mem_sem pc l, mem_sem pc r] <;> grind
  | .cond c t f _ => by
      simp [sem, printed, own, Own_cons, Own_append, mem_sem pc c, mem_sem pc t, mem_sem pc f]
  | .isE e _ _ => by simp [sem, printed, own, Own_cons, mem_sem pc e] <;> grind
  | .newE t args _ => by
      by_cases h : isCls t clsAny = true <;>
        simp [sem, printed, own, h, Own_cons, Own_nil, mem_semL pc args]
  | .fieldAccess e _ => by simp [sem, printed, own, Own_cons, mem_sem pc e, or_comm]
  | .call _ args receiver targs ci _ => by
      simp [sem, printed, own, Own_cons, Own_append, mem_semO pc receiver, mem_semL pc args] <;> grind
  | .assign _ expr receiver => by
      simp [sem, printed, own, Own_cons, Own_append, mem_semO pc receiver, mem_sem pc expr] <;> grind
theorem mem_semL (pc : Piece) : ∀ ns : List Node, pc ∈ semL ns ↔ Own (printedL ns) pc
  | [] => by simp [semL, printedL, Own_nil]
  | x :: xs => by simp [semL, printedL, Own_append, mem_sem pc x, mem_semL pc xs]
theorem mem_semO (pc : Piece) : ∀ x : Option Node, pc ∈ semO x ↔ Own (printedO x) pc
  | none => by simp [semO, printedO, Own_nil]
  | some x => by simp [semO, printedO, mem_sem pc x]
theorem mem_semOL (pc : Piece) : ∀ x : Option (List Node), pc ∈ semOL x ↔ Own (printedOL x) pc
  | none => by simp [semOL, printedOL, Own_nil]
  | some xs => by simp [semOL, printedOL, mem_semL pc xs]
end

/-! ## which node calls for a piece -/

theorem mem_tparamPieces (pc : Piece) (tps : List Ty) (h : pc ∈ tparamPieces tps) : ∃ n, pc.1 = Tag.tparamD n := by
  simp only [tparamPieces, List.mem_map] at h
  obtain ⟨t, _, rfl⟩ := h
  exact ⟨_, rfl⟩

theorem not_mem_tparamPieces (t : Tag) (x : String) (tps : List Ty) (h : ∀ n, t ≠ Tag.tparamD n) :
    (t, x) ∉ tparamPieces tps := fun hm => by
  obtain ⟨n, hn⟩ := mem_tparamPieces _ _ hm
  exact h n hn

theorem mem_callNames (t : Tag) (x f : String) (b : Bool) (h : (t, x) ∈ callNames f b) : t = Tag.name := by
  simp only [callNames] at h
  split at h
  · simp at h; exact h.1
  · split at h <;> simp at h <;> grind

theorem not_mem_callNames (t : Tag) (x f : String) (b : Bool) (h : t ≠ Tag.name) : (t, x) ∉ callNames f b :=
  fun hm => h (mem_callNames t x f b hm)

theorem varAnnot_own (v x : String) (m : Node) :
    (Tag.varAnnot v, x) ∈ own m ↔ ∃ e f t i, m = .varDecl v e f (some t) i ∧ x = ": " ++ typeName t := by
  have nt := fun tps => not_mem_tparamPieces (Tag.varAnnot v) x tps (by intro n; simp)
  have nc := fun f b => not_mem_callNames (Tag.varAnnot v) x f b (by simp)
  cases m <;> simp [own, nt, nc, arrayTys, arrayCast, targsPieces]
  case varDecl name e f vt i => cases vt <;> simp <;> grind
  case callArg e nm => cases nm <;> simp <;> split <;> simp
  case funcDecl name ps rt inf body fin ov tps ft => cases rt <;> simp
  case lambda nm ps rt body sig => cases rt <;> simp
  case bottom t => cases t <;> simp
  case arrayE t len ex => split <;> (try split) <;> simp
  case newE t a c => split <;> simp

theorem retAnnot_own (f x : String) (m : Node) :
    (Tag.retAnnot f, x) ∈ own m ↔
      ∃ ps t inf body fin ov tps ft, m = .funcDecl f ps (some t) inf body fin ov tps ft ∧ x = ": " ++ typeName t := by
  have nt := fun tps => not_mem_tparamPieces (Tag.retAnnot f) x tps (by intro n; simp)
  have nc := fun g b => not_mem_callNames (Tag.retAnnot f) x g b (by simp)
  cases m <;> simp [own, nt, nc, arrayTys, arrayCast, targsPieces]
  case varDecl name e f vt i => cases vt <;> simp
  case callArg e nm => cases nm <;> simp <;> split <;> simp
  case funcDecl name ps rt inf body fin ov tps ft => cases rt <;> simp <;> grind
  case lambda nm ps rt body sig => cases rt <;> simp
  case bottom t => cases t <;> simp
  case arrayE t len ex => split <;> (try split) <;> simp
  case newE t a c => split <;> simp

theorem targs_own (f x : String) (m : Node) :
    (Tag.targs f, x) ∈ own m ↔
      ∃ args recv targs rc, m = .call f args recv targs false rc ∧ targs ≠ [] ∧
        x = "[" ++ ",".intercalate (targs.map typeName) ++ "]" := by
  have nt := fun tps => not_mem_tparamPieces (Tag.targs f) x tps (by intro n; simp)
  have nc := fun g b => not_mem_callNames (Tag.targs f) x g b (by simp)
  cases m <;> simp [own, nt, nc, arrayTys, arrayCast, targsPieces]
  case varDecl name e f vt i => cases vt <;> simp
  case callArg e nm => cases nm <;> simp <;> split <;> simp
  case funcDecl name ps rt inf body fin ov tps ft => cases rt <;> simp
  case lambda nm ps rt body sig => cases rt <;> simp
  case bottom t => cases t <;> simp
  case arrayE t len ex => split <;> (try split) <;> simp
  case newE t a c => split <;> simp
  case call g a r ta ci rc => cases ci <;> cases ta <;> simp <;> grind

theorem lit_own (x : String) (m : Node) :
    (Tag.lit, x) ∈ own m ↔
      (∃ t, m = .intC x t) ∨ (∃ t, m = .realC x t) ∨ m = .boolC x ∨ m = .charC x ∨ m = .stringC x := by
  have nt := fun tps => not_mem_tparamPieces Tag.lit x tps (by intro n; simp)
  have nc := fun g b => not_mem_callNames Tag.lit x g b (by simp)
  cases m <;> simp [own, nt, nc, arrayTys, arrayCast, targsPieces]
  case varDecl name e f vt i => cases vt <;> simp
  case callArg e nm => cases nm <;> simp <;> split <;> simp
  case funcDecl name ps rt inf body fin ov tps ft => cases rt <;> simp
  case lambda nm ps rt body sig => cases rt <;> simp
  case bottom t => cases t <;> simp
  case arrayE t len ex => split <;> (try split) <;> simp
  case newE t a c => split <;> simp
  all_goals grind

/-- an operator piece is the operator of a binary operation, or `isInstanceOf` of an `is` / `!is` -/
theorem op_own (x : String) (m : Node) :
    (Tag.op, x) ∈ own m ↔
      (∃ k l r, m = .binop k l r x) ∨ (∃ e t b, m = .isE e t b ∧ x = "isInstanceOf") := by
  have nt := fun tps => not_mem_tparamPieces Tag.op x tps (by intro n; simp)
  have nc := fun g b => not_mem_callNames Tag.op x g b (by simp)
  cases m <;> simp [own, nt, nc, arrayTys, arrayCast, targsPieces]
  case varDecl name e f vt i => cases vt <;> simp
  case callArg e nm => cases nm <;> simp <;> split <;> simp
  case funcDecl name ps rt inf body fin ov tps ft => cases rt <;> simp
  case lambda nm ps rt body sig => cases rt <;> simp
  case bottom t => cases t <;> simp
  case arrayE t len ex => split <;> (try split) <;> simp
  case newE t a c => split <;> simp
  all_goals grind

/-- a `new` piece is the class of an instance creation: `1.asInstanceOf[Any]` for `Any`, the bare class
    name when the type arguments can be inferred, the full type otherwise -/
theorem newT_own (explicit : Bool) (x : String) (m : Node) :
    (Tag.newT explicit, x) ∈ own m ↔
      ∃ t args, m = .newE t args (!explicit) ∧
        x = (if isCls t clsAny then "1.asInstanceOf[Any]" else if explicit then typeName t else attrName t) := by
  have nt := fun tps => not_mem_tparamPieces (Tag.newT explicit) x tps (by intro n; simp)
  have nc := fun g b => not_mem_callNames (Tag.newT explicit) x g b (by simp)
  cases m <;> simp [own, nt, nc, arrayTys, arrayCast, targsPieces]
  case varDecl name e f vt i => cases vt <;> simp
  case callArg e nm => cases nm <;> simp <;> split <;> simp
  case funcDecl name ps rt inf body fin ov tps ft => cases rt <;> simp
  case lambda nm ps rt body sig => cases rt <;> simp
  case bottom t => cases t <;> simp
  case arrayE t len ex => split <;> (try split) <;> simp
  case newE t a c => cases c <;> cases explicit <;> split <;> simp <;> grind

end Heph.TransScala
