import Heph.Model.Pickle
/-! Isomorphism of rooted heaps (C13): definitions and basic lemmas. Core Lean only. -/
namespace Heph.Pickle

/-- pointwise relation of two lists of equal length -/
inductive AllRel {α β : Type} (R : α → β → Prop) : List α → List β → Prop
  | nil : AllRel R [] []
  | cons {a b as bs} : R a b → AllRel R as bs → AllRel R (a :: as) (b :: bs)

theorem AllRel.length_eq {α β : Type} {R : α → β → Prop} {xs : List α} {ys : List β} (h : AllRel R xs ys) :
    xs.length = ys.length := by
  induction h with
  | nil => rfl
  | cons _ _ ih => simp [ih]

theorem AllRel.isEmpty_eq {α β : Type} {R : α → β → Prop} {xs : List α} {ys : List β} (h : AllRel R xs ys) :
    xs.isEmpty = ys.isEmpty := by
  cases h <;> rfl

theorem AllRel.map_eq {α β γ : Type} {R : α → β → Prop} {g : α → γ} {g' : β → γ} {xs : List α} {ys : List β}
    (hr : AllRel R xs ys) (hg : ∀ x y, R x y → g x = g' y) : xs.map g = ys.map g' := by
  induction hr with
  | nil => rfl
  | cons hxy _ ihl => simp only [List.map_cons, hg _ _ hxy, ihl]

theorem AllRel.append {α β : Type} {R : α → β → Prop} {xs : List α} {ys : List β} {xs' : List α} {ys' : List β}
    (h : AllRel R xs ys) (h' : AllRel R xs' ys') : AllRel R (xs ++ xs') (ys ++ ys') := by
  induction h with
  | nil => exact h'
  | cons hab _ ih => exact .cons hab ih

/-- two value slots correspond under the address map `f` -/
def ValRel (f : Nat → Option Nat) : Val → Val → Prop
  | .ref a, .ref a' => f a = some a'
  | .ref _, _ => False
  | _, .ref _ => False
  | x, y => x = y

def PairRel (f : Nat → Option Nat) (p q : Val × Val) : Prop := ValRel f p.1 q.1 ∧ ValRel f p.2 q.2

def OptValRel (f : Nat → Option Nat) : Option Val → Option Val → Prop
  | none, none => True
  | some x, some y => ValRel f x y
  | _, _ => False

/-- same kind, same string content, same built/bare status, children corresponding IN ORDER -/
def ObjRel (f : Nat → Option Nat) : Obj → Obj → Prop
  | .str s, .str s' => s = s'
  | .tuple xs, .tuple ys => AllRel (ValRel f) xs ys
  | .list xs, .list ys => AllRel (ValRel f) xs ys
  | .dict xs, .dict ys => AllRel (PairRel f) xs ys
  | .set xs, .set ys => AllRel (ValRel f) xs ys
  | .frozenset xs, .frozenset ys => AllRel (ValRel f) xs ys
  | .global m q, .global m' q' => ValRel f m m' ∧ ValRel f q q'
  | .inst c s, .inst c' s' => ValRel f c c' ∧ OptValRel f s s'
  | .reduced c kvs s, .reduced c' kvs' s' => ValRel f c c' ∧ AllRel (PairRel f) kvs kvs' ∧ OptValRel f s s'
  | _, _ => False

/-- `f` is an isomorphism from the part of `h` reachable from `r` onto the part of `h'` reachable from `r'`:
injective, relates the roots, and every related pair of addresses holds objects of the same kind whose
children are related in order (so the domain is closed under reachability; sharing and cycles are
preserved because `f` is a function and injective). -/
structure IsoW (h : Heap) (r : Val) (h' : Heap) (r' : Val) (f : Nat → Option Nat) : Prop where
  inj : ∀ a b c, f a = some c → f b = some c → a = b
  root : ValRel f r r'
  step : ∀ a a', f a = some a' → ∃ o o', h[a]? = some o ∧ h'[a']? = some o' ∧ ObjRel f o o'

def Iso (h : Heap) (r : Val) (h' : Heap) (r' : Val) : Prop := ∃ f, IsoW h r h' r' f

theorem flat_pairs {f : Nat → Option Nat} {xs ys : List (Val × Val)} (h : AllRel (PairRel f) xs ys) :
    AllRel (ValRel f) (xs.flatMap fun p => [p.1, p.2]) (ys.flatMap fun p => [p.1, p.2]) := by
  induction h with
  | nil => exact .nil
  | cons hab _ ih =>
    simp only [List.flatMap_cons, List.cons_append, List.nil_append]
    exact .cons hab.1 (.cons hab.2 ih)

theorem optRel_toList {f : Nat → Option Nat} {s s' : Option Val} (h : OptValRel f s s') :
    AllRel (ValRel f) s.toList s'.toList := by
  cases s <;> cases s' <;> simp_all [OptValRel, Option.toList]
  · exact .nil
  · exact .cons h .nil

theorem optRel_isSome {f : Nat → Option Nat} {s s' : Option Val} (h : OptValRel f s s') :
    s.isSome = s'.isSome := by
  cases s <;> cases s' <;> simp_all [OptValRel]

theorem ObjRel.tag_eq {f : Nat → Option Nat} {o o' : Obj} (h : ObjRel f o o') : o.tag = o'.tag := by
  cases o <;> cases o' <;> simp_all [ObjRel, Obj.tag]
  · rw [optRel_isSome h.2]
  · rw [optRel_isSome h.2.2]

theorem ObjRel.children_rel {f : Nat → Option Nat} {o o' : Obj} (h : ObjRel f o o') :
    AllRel (ValRel f) o.children o'.children := by
  cases o <;> cases o' <;> simp only [ObjRel] at h <;> try exact h.elim
  · exact .nil
  · exact h
  · exact h
  · exact flat_pairs h
  · exact h
  · exact h
  · exact .cons h.1 (.cons h.2 .nil)
  · exact .cons h.1 (optRel_toList h.2)
  · exact .cons h.1 ((flat_pairs h.2.1).append (optRel_toList h.2.2))

theorem valRel_ref_left {f : Nat → Option Nat} {a : Nat} {v : Val} (h : ValRel f (.ref a) v) :
    ∃ a', v = .ref a' ∧ f a = some a' := by
  cases v <;> simp_all [ValRel]

end Heph.Pickle
