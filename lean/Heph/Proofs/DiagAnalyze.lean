import Heph.Proofs.DiagCrash
import Heph.Proofs.DiagGroup
/-! From `findAll` over a rendered batch to `analyze`; batch independence; tool paths. -/
namespace Heph.Diag

theorem render_nil (c : Compiler) : render c [] = [] := rfl

theorem render_append (c : Compiler) (is1 is2 : List Item) :
    render c (is1 ++ is2) = render c is1 ++ render c is2 := by
  simp [render, unlines_append]

/-- the analysis of a rendered well-formed batch, given that the scanner finds the error items -/
theorem analyze_render_of (c : Compiler) (is : List Item) (h : ∀ i ∈ is, WFItem c i)
    (hf : findAll (matcher c) (render c is) = expected c is) :
    analyze c [] (render c is) = ⟨false, groupByFile (expected c is)⟩ := by
  have h1 : crashSearch c (render c is) = false := crashSearch_render_nil c is h
  have h2 : c = .groovyc → stackOverflowSearch (render c is) = false := by
    intro hc; subst hc
    have := stackOverflowSearch_render is [] h
    simp only [List.append_nil] at this
    rw [this]; rfl
  unfold analyze
  simp only [h1, applyFilters_nil, hf, groupMsgs_eq_groupByFile]
  by_cases hc : c = .groovyc
  · simp [h2 hc]
  · have : (c == Compiler.groovyc) = false := by simpa using hc
    simp [this]

/-- for javac, kotlinc and groovyc what is captured does not depend on what follows -/
theorem expected_append (c : Compiler) (hc : c ≠ .scalac) (is1 is2 : List Item) :
    expected c (is1 ++ is2) = expected c is1 ++ expected c is2 := by
  induction is1 with
  | nil => rfl
  | cons i is ih =>
    cases i with
    | error f l col msg pad det =>
      simp only [List.cons_append, expected, ih, List.cons.injEq, Prod.mk.injEq, true_and, and_true]
      cases c with
      | scalac => exact absurd rfl hc
      | _ => rfl
    | _ => simpa [expected] using ih

/-- the files with an error do not depend on what follows, for all four compilers -/
theorem expected_files_append (c : Compiler) (is1 is2 : List Item) :
    (expected c (is1 ++ is2)).map (·.1) = (expected c is1).map (·.1) ++ (expected c is2).map (·.1) := by
  induction is1 with
  | nil => rfl
  | cons i is ih =>
    cases i with
    | error f l col msg pad det => simp [expected, ih]
    | _ => simpa [expected] using ih

/-- messages of a file in the concatenation of two batch outputs = its messages in the first
followed by its messages in the second -/
theorem batch_independent_of (c : Compiler) (hc : c ≠ .scalac)
    (hfr : ∀ is, (∀ i ∈ is, WFItem c i) → findAll (matcher c) (render c is) = expected c is)
    (is1 is2 : List Item) (h1 : ∀ i ∈ is1, WFItem c i) (h2 : ∀ i ∈ is2, WFItem c i) (f : List Char) :
    lookupFailed f (analyze c [] (render c is1 ++ render c is2)).failed
      = lookupFailed f (analyze c [] (render c is1)).failed
        ++ lookupFailed f (analyze c [] (render c is2)).failed := by
  have h12 : ∀ i ∈ is1 ++ is2, WFItem c i := by
    intro i hi
    rcases List.mem_append.mp hi with hi | hi
    · exact h1 i hi
    · exact h2 i hi
  rw [← render_append, analyze_render_of c _ h12 (hfr _ h12), analyze_render_of c _ h1 (hfr _ h1),
    analyze_render_of c _ h2 (hfr _ h2)]
  simp only [lookupFailed_groupByFile, expected_append c hc, msgsOf_append]

/-- a file is reported for the concatenation iff it is reported for one of the parts -/
theorem batch_files_of (c : Compiler)
    (hfr : ∀ is, (∀ i ∈ is, WFItem c i) → findAll (matcher c) (render c is) = expected c is)
    (is1 is2 : List Item) (h1 : ∀ i ∈ is1, WFItem c i) (h2 : ∀ i ∈ is2, WFItem c i) (f : List Char) :
    f ∈ (analyze c [] (render c is1 ++ render c is2)).failed.map (·.1)
      ↔ f ∈ (analyze c [] (render c is1)).failed.map (·.1)
        ∨ f ∈ (analyze c [] (render c is2)).failed.map (·.1) := by
  have h12 : ∀ i ∈ is1 ++ is2, WFItem c i := by
    intro i hi
    rcases List.mem_append.mp hi with hi | hi
    · exact h1 i hi
    · exact h2 i hi
  rw [← render_append, analyze_render_of c _ h12 (hfr _ h12), analyze_render_of c _ h1 (hfr _ h1),
    analyze_render_of c _ h2 (hfr _ h2)]
  simp only [keys_groupByFile, mem_firstOccs, expected_files_append, List.mem_append]

/-- the files of `expected` are exactly the files of the error items -/
theorem mem_expected_files (c : Compiler) (is : List Item) (f : List Char) :
    f ∈ (expected c is).map (·.1) ↔ ∃ l col msg pad det, Item.error f l col msg pad det ∈ is := by
  induction is with
  | nil => simp [expected]
  | cons i is ih =>
    cases i with
    | error g l col msg pad det =>
      simp only [expected, List.map_cons, List.mem_cons, ih]
      constructor
      · rintro (h | ⟨l', col', msg', pad', det', h⟩)
        · exact ⟨l, col, msg, pad, det, Or.inl (by rw [h])⟩
        · exact ⟨l', col', msg', pad', det', Or.inr h⟩
      · rintro ⟨l', col', msg', pad', det', h | h⟩
        · left; injection h
        · exact Or.inr ⟨l', col', msg', pad', det', h⟩
    | warning g l col msg pad det => simp [expected, ih]
    | note t => simp [expected, ih]
    | summary n => simp [expected, ih]

/-! ## the file names the tool produces are well-formed -/

theorem fileOK_of_stem (c : Compiler) (S : List Char) (hne : S ≠ [])
    (hall : ∀ x ∈ S, isClsJ x = true) : fileOK c (S ++ '.' :: ext c) = true := by
  unfold fileOK
  have hlen : (S ++ '.' :: ext c).length - ('.' :: ext c).length = S.length := by
    simp only [List.length_append]; omega
  simp only [hlen, List.take_left, List.drop_left, Bool.and_eq_true, Bool.not_eq_true',
    List.all_eq_true, beq_self_eq_true, and_true]
  refine ⟨?_, hall⟩
  cases S with
  | nil => exact absurd rfl hne
  | cons _ _ => rfl

theorem isClsJ_of_isTmpChar (x : Char) (h : isTmpChar x = true) : isClsJ x = true := by
  unfold isTmpChar at h
  unfold isClsJ Char.isAlphanum Char.isAlpha
  simp only [Bool.or_eq_true, beq_iff_eq] at h ⊢
  rcases h with (h | h) | h
  · exact Or.inl (Or.inl (Or.inl (Or.inr h)))
  · exact Or.inl (Or.inl (Or.inr h))
  · exact Or.inr h

theorem isClsJ_of_isLower (x : Char) (h : x.isLower = true) : isClsJ x = true :=
  isClsJ_of_isTmpChar x (by simp [isTmpChar, h])

theorem mainName_split (c : Compiler) :
    ∃ nm, mainName c = nm ++ '.' :: ext c ∧ ∀ x ∈ nm, isClsJ x = true := by
  cases c
  · exact ⟨"Main".toList, by decide +kernel, by decide +kernel⟩
  · exact ⟨"program".toList, by decide +kernel, by decide +kernel⟩
  · exact ⟨"Main".toList, by decide +kernel, by decide +kernel⟩
  · exact ⟨"program".toList, by decide +kernel, by decide +kernel⟩

theorem assoc5 (a b c d nm t : List Char) (x : Char) :
    a ++ (b ++ (c ++ (d ++ x :: (nm ++ t)))) = (a ++ (b ++ (c ++ (d ++ x :: nm)))) ++ t := by
  simp

theorem tmpPrefix_cls : ∀ x ∈ "/tmp/tmp".toList, isClsJ x = true := by decide +kernel
theorem srcPart_cls : ∀ x ∈ "/src/".toList, isClsJ x = true := by decide +kernel
theorem slash_cls : isClsJ '/' = true := by decide +kernel

theorem toolPath_fileOK (c : Compiler) (tmp pkg : List Char) (h : ToolNames tmp pkg) :
    fileOK c (toolPath c tmp pkg) = true := by
  obtain ⟨_, htmp, _, hpkg⟩ := h
  simp only [List.all_eq_true] at htmp hpkg
  obtain ⟨nm, hnm1, hnm2⟩ := mainName_split c
  unfold toolPath
  rw [hnm1, assoc5]
  apply fileOK_of_stem
  · intro h0
    have := congrArg List.length h0
    simp only [List.length_append, List.length_cons, List.length_nil] at this
    omega
  · intro x hx
    simp only [List.mem_append, List.mem_cons] at hx
    rcases hx with hx | hx | hx | hx | hx | hx
    · exact tmpPrefix_cls x hx
    · exact isClsJ_of_isTmpChar x (htmp x hx)
    · exact srcPart_cls x hx
    · exact isClsJ_of_isLower x (hpkg x hx)
    · subst hx; exact slash_cls
    · exact hnm2 x hx

end Heph.Diag
