import Heph.Model.TransScala
import Heph.Proofs.TransKotlinState
/-! State discipline of the Scala translator model: what a visit leaves behind.

The leaking nodes are the same as for Kotlin (`TransKotlin.leaks`): `visit_super_instantiation`
assigns `self.ident = 0` and never restores it, `visit_block` does not save `ident`; every other
`visit_*` method of `scala.py` restores every attribute it assigns. -/
namespace Heph.TransScala
open Heph
open Heph.TransKotlin (St Obj push pop leaks leaksL leaksO eff effL effO pop_push isBlock)

mutual
theorem visit_fst : ∀ (n : Node) (st : St), (visit st n).1 = eff n st
  | .block body isFunc, st => by
      simp only [visit, visitL_fst body, effL, eff, leaks, push, pop]; simp
  | .superInst t args, st => by
      simp only [visit, visitOL_fst args, effL, eff, leaks, push, pop]
      cases leaksL (args.getD []) <;> simp
  | .classDecl name ctype isFinal fields supers funcs tparams, st => by
      simp only [visit, visitL_fst fields, visitL_fst supers, visitL_fst funcs, effL, eff, leaks, push, pop]; simp
  | .varDecl name expr isFinal varType inferred, st => by
      simp only [visit, visit_fst expr, eff, leaks, push, pop]
      cases varType <;> simp
  | .callArg expr name, st => by
      simp only [visit, visit_fst expr, eff, leaks, push, pop]; simp
  | .fieldDecl .., st => by simp [visit, eff, leaks]
  | .paramDecl name t vararg dflt, st => by
      simp only [visit, visitO_fst dflt, effO, eff, leaks, push, pop]; simp
  | .funcDecl name params retType inferred body isFinal override tparams ft, st => by
      simp only [visit, visitL_fst params, visitO_fst body, effL, effO, eff, leaks, push, pop]
      cases isBlock body <;> simp
  | .lambda nm params retType body sig, st => by
      simp only [visit, visitL_fst params, visit_fst body, effL, eff, leaks, push, pop]
      cases isBlock (some body) <;> simp
  | .funcRef func receiver sig, st => by
      simp only [visit, visitO_fst receiver, effO, eff, leaks, push, pop]; simp
  | .bottom t, st => by simp [visit, eff, leaks]
  | .intC lit t, st => by simp [visit, eff, leaks]
  | .realC lit t, st => by simp [visit, eff, leaks]
  | .boolC lit, st => by simp [visit, eff, leaks]
  | .charC lit, st => by simp [visit, eff, leaks]
  | .stringC lit, st => by simp [visit, eff, leaks]
  | .arrayE t len exprs, st => by
      simp only [visit, eff, leaks]
      split
      · simp
      · simp only [visitL_fst exprs, effL, push, pop]; simp
  | .variable name, st => by simp [visit, eff, leaks]
  | .binop kind l r op, st => by
      simp only [visit, visit_fst l, visit_fst r, eff, leaks, push, pop]; simp
  | .cond c t f ty, st => by
      simp only [visit, visit_fst c, visit_fst t, visit_fst f, eff, leaks, push, pop]; simp
  | .isE e t isNot, st => by
      simp only [visit, visit_fst e, eff, leaks, push, pop]; simp
  | .newE t args canInfer, st => by
      simp only [visit, visitL_fst args, effL, eff, leaks, push, pop]; simp
  | .fieldAccess e field, st => by
      simp only [visit, visit_fst e, eff, leaks, push, pop]; simp
  | .call func args receiver targs canInfer rc, st => by
      simp only [visit, visitO_fst receiver, visitL_fst args, effL, effO, eff, leaks, push, pop]; simp
  | .assign name expr receiver, st => by
      simp only [visit, visitO_fst receiver, visit_fst expr, effO, eff, leaks, push, pop]; simp
theorem visitL_fst : ∀ (ns : List Node) (st : St), (visitL st ns).1 = effL ns st
  | [], st => by simp [visitL, effL, leaksL]
  | x :: xs, st => by
      simp only [visitL, effL, eff, leaksL, visit_fst x, visitL_fst xs]
      cases leaks x <;> cases leaksL xs <;> simp
theorem visitO_fst : ∀ (x : Option Node) (st : St), (visitO st x).1 = effO x st
  | none, st => by simp [visitO, effO, leaksO]
  | some x, st => by simp only [visitO, effO, eff, leaksO, visit_fst x]
theorem visitOL_fst : ∀ (x : Option (List Node)) (st : St), (visitOL st x).1 = effL (x.getD []) st
  | none, st => by simp [visitOL, effL, leaksL]
  | some xs, st => by simp only [visitOL, Option.getD, visitL_fst xs]
end

/-! ## the class-header test `if type_parameters_res:` -/

theorem append_ne_empty_right (a b : String) (h : b ≠ "") : a ++ b ≠ "" := by
  intro e
  have := congrArg String.length e
  simp only [String.length_append, String.length_empty] at this
  have hb : b.length ≠ 0 := by
    intro h0; exact h (String.length_eq_zero_iff.mp h0)
  omega

/-- every text `visit_type_param` produces is non-empty (it contains ` <: `) -/
theorem typeParamStr_ne_empty (t : Ty) : typeParamStr t ≠ "" := by
  cases t <;> simp only [typeParamStr] <;> try decide
  rename_i nm var bd
  rw [String.append_assoc, String.append_assoc]
  apply append_ne_empty_right
  apply append_ne_empty_right
  intro e
  have := congrArg String.length e
  simp [String.length_append] at this

end Heph.TransScala
