import Heph.Model.Inst
/-!
# `argVariance` (`_get_type_arg_variance`): the decision logic, stated outright
-/
namespace Heph.Inst
open Heph Heph.Ty

theorem mem_argVarianceCore (dis : Dis) (dv : Nat) (ch : Option (Bool × Bool)) (inBound : Bool) (v : Nat) :
    v ∈ argVarianceCore dis dv ch inBound ↔
      v = 0 ∨
      (∃ c, ch = some c ∧ inBound = false ∧ dis.useSiteVariance = false ∧
        ((v = 1 ∧ c.1 = true ∧ (dv = 0 ∨ dv = 1)) ∨
         (v = 2 ∧ c.2 = true ∧ dis.useSiteContravariance = false ∧ dv ≠ 1))) := by
  cases ch with
  | none => simp [argVarianceCore]
  | some c =>
    obtain ⟨usv, usc⟩ := dis
    obtain ⟨c1, c2⟩ := c
    simp only [argVarianceCore]
    cases inBound <;> cases usv <;> cases usc <;> cases c1 <;> cases c2 <;>
      simp <;> (try (by_cases h0 : dv = 0 <;> by_cases h1 : dv = 1 <;> simp [h0, h1] <;> omega))

/-- exact characterisation of the candidate list -/
theorem mem_argVariance (dis : Dis) (tparam : Ty) (vc : Option VChoices) (later : List Bool) (v : Nat) :
    v ∈ argVariance dis tparam vc later ↔
      v = 0 ∨
      (∃ m, vc = some m ∧ later.any id = false ∧ dis.useSiteVariance = false ∧
        ((v = 1 ∧ (m.get tparam).1 = true ∧ (variance tparam = 0 ∨ variance tparam = 1)) ∨
         (v = 2 ∧ (m.get tparam).2 = true ∧ dis.useSiteContravariance = false ∧ variance tparam ≠ 1))) := by
  unfold argVariance
  rw [mem_argVarianceCore]
  cases vc <;> simp

theorem argVariance_head (dis : Dis) (tparam : Ty) (vc : Option VChoices) (later : List Bool) :
    0 ∈ argVariance dis tparam vc later := (mem_argVariance ..).2 (Or.inl rfl)

theorem argVariance_ne_nil (dis : Dis) (tparam : Ty) (vc : Option VChoices) (later : List Bool) :
    argVariance dis tparam vc later ≠ [] := by
  intro h
  have := argVariance_head dis tparam vc later
  rw [h] at this
  cases this

end Heph.Inst
