import Heph.Proofs.TransGroovyState
/-! `visit_program` of the Groovy translator ends in `_reset_state`: a translator object forgets
    everything but its configuration. -/
namespace Heph.TransGroovy
open Heph

/-- the control state right after `__init__` -/
def freshSt (castNumbers : Bool) : St := { alwaysCastNumbers := castNumbers }

/-- `_reset_state` puts every attribute of `St` except `always_cast_numbers` back to its value after `__init__` -/
theorem resetState_eq (st : St) : resetState st = freshSt st.alwaysCastNumbers := rfl

theorem initObj_st (package : Option String) (c : Bool) : (initObj package c).st = freshSt c := rfl

/-- what `visit_program` reads of the object before it overwrites it: everything except
    `context`, `types` (overwritten first) and `program` -/
def ctl (st : St) : St := { st with context := none, typesSet := false }

def Agree (a b : Obj) : Prop := ctl a.st = ctl b.st ∧ a.out = b.out ∧ a.package = b.package

theorem Agree.refl (a : Obj) : Agree a a := ⟨rfl, rfl, rfl⟩
theorem Agree.symm {a b : Obj} (h : Agree a b) : Agree b a := ⟨h.1.symm, h.2.1.symm, h.2.2.symm⟩
theorem Agree.trans {a b c : Obj} (h : Agree a b) (g : Agree b c) : Agree a c :=
  ⟨h.1.trans g.1, h.2.1.trans g.2.1, h.2.2.trans g.2.2⟩

theorem programRun_agree {a b : Obj} (h : Agree a b) (p : GProgram) : programRun a p = programRun b p := by
  obtain ⟨h1, h2, h3⟩ := h
  obtain ⟨⟨i, u, c, n, ii, iif, s, fi, cx, ts, acn⟩, oa, pra, pka⟩ := a
  obtain ⟨⟨i', u', c', n', ii', iif', s', fi', cx', ts', acn'⟩, ob, prb, pkb⟩ := b
  simp only [ctl, St.mk.injEq] at h1
  obtain ⟨e1, e2, e3, e4, e5, e6, e7, e8, -, -, e11⟩ := h1
  simp only at h2 h3
  subst e1 e2 e3 e4 e5 e6 e7 e8 e11 h2 h3
  rfl

theorem text_agree {a b : Obj} (h : Agree a b) (p : GProgram) : text a p = text b p := by
  simp only [text, translate, visitProgram, programRun_agree h p]

/-- the object after `visit_program`, whatever it was before: the control state of a freshly
    constructed translator with the same configuration, empty result lists, the same package -/
theorem visitProgram_resets (ob : Obj) (p : GProgram) :
    (visitProgram ob p).st = freshSt ob.st.alwaysCastNumbers ∧ (visitProgram ob p).out = {} ∧
    (visitProgram ob p).package = ob.package := by
  refine ⟨?_, rfl, rfl⟩
  simp only [visitProgram, programRun, resetState_eq, visitL_fst]

/-- the state just before `_reset_state`: the children handed the control state back, then `self.ident = 2` -/
theorem programRun_st (ob : Obj) (p : GProgram) :
    (programRun ob p).1 = { ob.st with typesSet := true, context := some p.env, ident := 2 } := by
  simp only [programRun, visitL_fst]

/-- `visit_program` makes any two objects with the same package and configuration agree -/
theorem visitProgram_agree (a b : Obj) (p q : GProgram) (hp : a.package = b.package)
    (hc : a.st.alwaysCastNumbers = b.st.alwaysCastNumbers) : Agree (visitProgram a p) (visitProgram b q) := by
  obtain ⟨a1, a2, a3⟩ := visitProgram_resets a p
  obtain ⟨b1, b2, b3⟩ := visitProgram_resets b q
  exact ⟨by rw [a1, b1, hc], by rw [a2, b2], by rw [a3, b3, hp]⟩

theorem after_package : ∀ (ps : List GProgram) (ob : Obj),
    (after ob ps).package = ob.package ∧ (after ob ps).st.alwaysCastNumbers = ob.st.alwaysCastNumbers
  | [], _ => ⟨rfl, rfl⟩
  | p :: ps, ob => by
      have h := after_package ps (visitProgram ob p)
      obtain ⟨a1, _, a3⟩ := visitProgram_resets ob p
      simp only [after, List.foldl_cons] at h ⊢
      exact ⟨h.1.trans a3, h.2.trans (by rw [a1]; rfl)⟩

/-- a freshly constructed translator that has translated any list of programs agrees with itself -/
theorem after_agree : ∀ (ps : List GProgram) (package : Option String) (c : Bool),
    Agree (after (initObj package c) ps) (initObj package c)
  | [], _, _ => Agree.refl _
  | p :: ps, package, c => by
      -- the object after the first program agrees with the fresh one; so do all later ones
      have key : ∀ (qs : List GProgram) (ob : Obj), Agree ob (initObj package c) → Agree (after ob qs) (initObj package c) := by
        intro qs
        induction qs with
        | nil => intro ob h; exact h
        | cons q qs ih =>
          intro ob h
          apply ih
          obtain ⟨a1, a2, a3⟩ := visitProgram_resets ob q
          have hc : ob.st.alwaysCastNumbers = c := by
            have := congrArg St.alwaysCastNumbers h.1
            simpa [ctl, initObj] using this
          exact ⟨by rw [a1, hc]; rfl, by rw [a2]; rfl, by rw [a3]; exact h.2.2⟩
      exact key (p :: ps) _ (Agree.refl _)

end Heph.TransGroovy
