import Heph.Proofs.TransScalaHistory
import Heph.Proofs.TransKotlinDoc
import Heph.Spec.TransScalaSem
/-!
# What the Scala translator model prints, computed from the IR alone

`obs_visit`: for every state, the non-layout pieces of `(visit st n).2` are exactly `sem n`
(`Spec/TransScalaSem.lean`)

* tags only (`strict = false`): for every node, no hypothesis;
* tags and texts (`strict = true`): under `okAt true n` — the condition of every conditional is a node
  whose text starts with its indentation (`indLed`: every expression except a lambda and a `new`).
  `visit_conditional` cuts `self.ident` characters off the front of the condition's text.

The generic lemmas about docs (`obs`, `joinD`, `dropChars`, `declTags`, `noOther`) are those of
`Proofs/TransKotlinDoc.lean`.
-/
namespace Heph.TransScala
open Heph
open Heph.TransKotlin (Tag Piece Doc flatten o sp ind joinD dropChars isCls attrName Frame St Obj push pop
  isBottom isBlock tparamName isDeclTag declTags tparamTags leaks eff
  obsP obs obsL obs_nil obs_append obs_o obs_ind obs_cons_other obsL_nil obsL_cons obsL_append obs_joinD
  obsL_dropLast obs_dropChars_false obs_dropChars_lead obs_ite sp_length obsL_isEmpty obs_ifJoin obs_cons_tag
  ite_obsL noOther noOther_nil noOther_append noOther_cons obs_true_noOther declTags_append declTags_nil
  declTags_cons declTags_obs)

/-! ## the text of an `indLed` node starts with its indentation -/

theorem indLed_head? (c : Node) (st : St) (h : indLed c = true) :
    (visit st c).2.head? = some (Tag.other, sp st.ident) := by
  cases c <;> simp only [indLed, Bool.false_eq_true] at h <;> simp only [visit, ind, o]
  all_goals ((repeat' split) <;> rfl)

theorem indLed_head (c : Node) (st : St) (h : indLed c = true) :
    ∃ r, (visit st c).2 = (Tag.other, sp st.ident) :: r := by
  have := indLed_head? c st h
  cases hd : (visit st c).2 with
  | nil => simp [hd] at this
  | cons a r => simp [hd] at this; exact ⟨r, by rw [this]⟩

/-- the identation a visit leaves behind is 0 or the one it found -/
theorem ident_after_le (n : Node) (st : St) : (visit st n).1.ident ≤ st.ident := by
  rw [visit_fst]; simp only [eff]; cases leaks n <;> simp

/-! ## the main induction -/

theorem obs_tparams (s : Bool) (tps : List Ty) : obsL s (tps.map tparamDoc) = obs s (tparamPieces tps) := by
  induction tps with
  | nil => rfl
  | cons t r ih => simp only [List.map_cons, obsL_cons, ih, tparamPieces, tparamDoc]; rfl

@[simp] theorem tparamPieces_nil : tparamPieces [] = [] := rfl
theorem obs_tparamPieces_cons (s : Bool) (t : Ty) (r : List Ty) :
    obs s (tparamPieces (t :: r)) = obs s (tparamDoc t) ++ obs s (tparamPieces r) := by
  rw [← obs_append]; rfl

mutual
theorem obs_visit (s : Bool) : ∀ (n : Node) (st : St), okAt s n = true → obs s (visit st n).2 = obs s (sem n)
  | .block body isFunc, st, h => by
      simp only [okAt] at h
      simp only [visit, sem]
      generalize hr : visitL _ body = r
      have ihr : obsL s r.2 = obs s (semL body) := by rw [← hr]; exact obs_visitL s body _ h
      rw [← ihr, ← obsL_dropLast]
      cases hl : r.2.getLast? <;> simp [obs_ite]
  | .superInst t args, st, h => by
      simp only [okAt] at h
      have ih := fun st => obs_visitOL s args st h
      cases args with
      | none => simp [visit, sem, semOL, obs, obsP]
      | some xs =>
        have ih' := ih
        simp only [visitOL, semOL] at ih'
        simp only [visit, sem, semOL, visitOL, obs_append, obs_o, obs_joinD, ih']
        simp [obs, obsP]
  | .classDecl name ctype isFinal fields supers funcs tparams, st, h => by
      simp only [okAt, Bool.and_eq_true] at h
      obtain ⟨h1, h2, h3⟩ := h
      have ih1 := fun st => obs_visitL s fields st h1
      have ih2 := fun st => obs_visitL s supers st h2
      have ih3 := fun st => obs_visitL s funcs st h3
      simp only [visit, sem]
      generalize hr1 : visitL _ fields = r1
      have e1 : obsL s r1.2 = obs s (semL fields) := by rw [← hr1]; exact ih1 _
      generalize hr2 : visitL _ supers = r2
      have e2 : obsL s r2.2 = obs s (semL supers) := by rw [← hr2]; exact ih2 _
      generalize hr3 : visitL _ funcs = r3
      have e3 : obsL s r3.2 = obs s (semL funcs) := by rw [← hr3]; exact ih3 _
      have e4 := obs_tparams s tparams
      simp only [obs_ite, obs_append, obs_o, obs_ind, obs_joinD, List.append_nil, ite_obsL]
      rw [e1, e2, e3, e4]
      simp [obs, obsP, classHead]
  | .varDecl name expr isFinal varType inferred, st, h => by
      simp only [okAt] at h
      have ih := fun st => obs_visit s expr st h
      cases varType <;> simp [visit, sem, ih, obs_cons_tag]
  | .callArg expr name, st, h => by
      simp only [okAt] at h
      have ih := fun st => obs_visit s expr st h
      simp only [visit, sem]
      split
      · split <;> simp [ih, obs_cons_tag, *]
      · simp [ih]
  | .fieldDecl name t isFinal canOverride override, st, h => by simp [visit, sem, fieldText]
  | .paramDecl name t vararg dflt, st, h => by
      simp only [okAt] at h
      have ih := fun st => obs_visitO s dflt st h
      cases dflt with
      | none => simp [visit, sem, semO, visitO, paramText, obs_cons_tag]; rfl
      | some d =>
        have ih' := ih
        simp only [visitO, semO, obsL_cons, obsL_nil, List.append_nil] at ih'
        simp [visit, sem, semO, visitO, paramText, obs_cons_tag, ih']; rfl
  | .funcDecl name params retType inferred body isFinal override tparams ft, st, h => by
      simp only [okAt, Bool.and_eq_true] at h
      have ih1 := fun st => obs_visitL s params st h.1
      have ih2 := fun st => obs_visitO s body st h.2
      have e4 := obs_tparams s tparams
      rcases tparams with _ | ⟨tp, tps⟩
      all_goals cases body with
      | none =>
        cases retType <;>
          simp [visit, sem, semO, visitO, obs_cons_tag, obs_ite, ite_obsL, ih1, obs_tparams, obs_tparamPieces_cons, funcHead, flatten]
      | some b =>
        have ih' := ih2
        simp only [visitO, semO, obsL_cons, obsL_nil, List.append_nil] at ih'
        cases retType <;>
          simp [visit, sem, semO, visitO, obs_cons_tag, obs_ite, ite_obsL, ih1, obs_tparams, obs_tparamPieces_cons, funcHead, ih']
  | .lambda nm params retType body sig, st, h => by
      simp only [okAt, Bool.and_eq_true] at h
      have ih1 := fun st => obs_visitL s params st h.1
      have ih2 := fun st => obs_visit s body st h.2
      cases retType <;> simp [visit, sem, obs_cons_tag, ih1, ih2]
  | .funcRef func receiver sig, st, h => by
      simp only [okAt] at h
      have ih := fun st => obs_visitO s receiver st h
      cases receiver with
      | none => simp [visit, sem, semO, visitO, obs_cons_tag]
      | some d =>
        have ih' := ih
        simp only [visitO, semO, obsL_cons, obsL_nil, List.append_nil] at ih'
        simp [visit, sem, semO, visitO, ih', obs_cons_tag]
  | .bottom t, st, h => by cases t <;> simp [visit, sem, obs_cons_tag]
  | .intC lit t, st, h => by
      simp only [visit, sem]
      split <;> simp [obs_cons_tag]
  | .realC lit t, st, h => by simp [visit, sem, obs_cons_tag]
  | .boolC lit, st, h => by simp [visit, sem, obs_cons_tag]
  | .charC lit, st, h => by simp [visit, sem, obs_cons_tag]
  | .stringC lit, st, h => by simp [visit, sem, obs_cons_tag]
  | .arrayE t len exprs, st, h => by
      simp only [okAt] at h
      have ih := fun st => obs_visitL s exprs st h
      simp only [visit, sem, arrayTys, arrayCast]
      split
      · split <;> simp [obs_cons_tag]
      · split <;> simp_all [obs_cons_tag, obs_ite]
  | .variable name, st, h => by simp [visit, sem, obs_cons_tag]
  | .binop kind l r op, st, h => by
      simp only [okAt, Bool.and_eq_true] at h
      have ih1 := fun st => obs_visit s l st h.1
      have ih2 := fun st => obs_visit s r st h.2
      simp only [visit, sem, operandDoc]
      split <;> split <;> simp [ih1, ih2, obs_cons_tag]
  | .cond c t f ty, st, h => by
      simp only [okAt, Bool.and_eq_true] at h
      obtain ⟨h0, hc, ht, hf⟩ := h
      have ihc := fun st => obs_visit s c st hc
      have iht := fun st => obs_visit s t st ht
      have ihf := fun st => obs_visit s f st hf
      simp only [visit, sem, obs_append, obs_o, obs_ind, iht, ihf, List.nil_append, List.append_nil, List.append_assoc]
      congr 1
      cases s with
      | false => rw [obs_dropChars_false, ihc]
      | true =>
        simp only [Bool.not_true, Bool.false_or] at h0
        obtain ⟨r, hr⟩ := indLed_head c { push Frame.other st with ident := (push Frame.other st).ident + 2 } h0
        rw [hr, obs_dropChars_lead, ← hr, ihc]
        rw [sp_length]
        exact Nat.le_trans (ident_after_le f _) (Nat.le_trans (ident_after_le t _) (ident_after_le c _))
  | .isE e t isNot, st, h => by
      simp only [okAt] at h
      have ih := fun st => obs_visit s e st h
      simp [visit, sem, ih, obs_cons_tag]
  | .newE t args canInfer, st, h => by
      simp only [okAt] at h
      have ih := fun st => obs_visitL s args st h
      simp only [visit, sem]
      split <;> simp [ih, obs_cons_tag]
  | .fieldAccess e field, st, h => by
      simp only [okAt] at h
      have ih := fun st => obs_visit s e st h
      simp only [visit, sem, recvDoc]
      split <;> simp [ih, obs_cons_tag]
  | .call func args receiver targs canInfer rc, st, h => by
      simp only [okAt, Bool.and_eq_true] at h
      have ih1 := fun st => obs_visitO s receiver st h.1
      have ih2 := fun st => obs_visitL s args st h.2
      cases receiver with
      | none =>
        simp only [visit, sem, semO, visitO, callNames, targsPieces]
        cases rsplitDot func <;> simp [ih2, obs_cons_tag, obs_ite]
      | some d =>
        have ih' := ih1
        simp only [visitO, semO, obsL_cons, obsL_nil, List.append_nil] at ih'
        simp only [visit, sem, semO, visitO, recvDoc, callNames, targsPieces]
        split <;> simp [ih', ih2, obs_cons_tag, obs_ite]
  | .assign name expr receiver, st, h => by
      simp only [okAt, Bool.and_eq_true] at h
      have ih1 := fun st => obs_visitO s receiver st h.1
      have ih2 := fun st => obs_visit s expr st h.2
      cases receiver with
      | none => simp [visit, sem, semO, visitO, ih2, obs_cons_tag]
      | some d =>
        have ih' := ih1
        simp only [visitO, semO, obsL_cons, obsL_nil, List.append_nil] at ih'
        simp only [visit, sem, semO, visitO, recvDoc]
        split <;> simp [ih', ih2, obs_cons_tag]
theorem obs_visitL (s : Bool) : ∀ (ns : List Node) (st : St), okAtL s ns = true → obsL s (visitL st ns).2 = obs s (semL ns)
  | [], st, _ => by simp [visitL, semL]
  | x :: xs, st, h => by
      simp only [okAtL, Bool.and_eq_true] at h
      simp only [visitL, semL, obsL_cons, obs_append, obs_visit s x st h.1, obs_visitL s xs _ h.2]
theorem obs_visitO (s : Bool) : ∀ (x : Option Node) (st : St), okAtO s x = true → obsL s (visitO st x).2 = obs s (semO x)
  | none, st, _ => by simp [visitO, semO]
  | some x, st, h => by
      simp only [okAtO] at h
      simp only [visitO, semO, obsL_cons, obs_visit s x st h]; simp
theorem obs_visitOL (s : Bool) : ∀ (x : Option (List Node)) (st : St), okAtOL s x = true → obsL s (visitOL st x).2 = obs s (semOL x)
  | none, st, _ => by simp [visitOL, semOL]
  | some xs, st, h => by
      simp only [okAtOL] at h
      simp only [visitOL, semOL, obs_visitL s xs st h]
end

/-! ## consequences for whole programs -/

mutual
theorem okAt_false : ∀ n : Node, okAt false n = true
  | .block body _ => by simp only [okAt, okAtL_false body]
  | .superInst _ args => by simp only [okAt, okAtOL_false args]
  | .classDecl _ _ _ fields supers funcs _ => by
      simp only [okAt, okAtL_false fields, okAtL_false supers, okAtL_false funcs, Bool.and_self]
  | .varDecl _ expr _ _ _ => by simp only [okAt, okAt_false expr]
  | .callArg expr _ => by simp only [okAt, okAt_false expr]
  | .paramDecl _ _ _ dflt => by simp only [okAt, okAtO_false dflt]
  | .funcDecl _ params _ _ body _ _ _ _ => by simp only [okAt, okAtL_false params, okAtO_false body, Bool.and_self]
  | .lambda _ params _ body _ => by simp only [okAt, okAtL_false params, okAt_false body, Bool.and_self]
  | .funcRef _ receiver _ => by simp only [okAt, okAtO_false receiver]
  | .arrayE _ _ exprs => by simp only [okAt, okAtL_false exprs]
  | .binop _ l r _ => by simp only [okAt, okAt_false l, okAt_false r, Bool.and_self]
  | .cond c t f _ => by simp [okAt, okAt_false c, okAt_false t, okAt_false f]
  | .isE e _ _ => by simp only [okAt, okAt_false e]
  | .newE _ args _ => by simp only [okAt, okAtL_false args]
  | .fieldAccess e _ => by simp only [okAt, okAt_false e]
  | .call _ args receiver _ _ _ => by simp only [okAt, okAtO_false receiver, okAtL_false args, Bool.and_self]
  | .assign _ expr receiver => by simp only [okAt, okAtO_false receiver, okAt_false expr, Bool.and_self]
  | .fieldDecl .. | .bottom _ | .intC _ _ | .realC _ _ | .boolC _ | .charC _ | .stringC _ | .variable _ => by
      simp only [okAt]
theorem okAtL_false : ∀ ns : List Node, okAtL false ns = true
  | [] => rfl
  | x :: xs => by simp only [okAtL, okAt_false x, okAtL_false xs, Bool.and_self]
theorem okAtO_false : ∀ x : Option Node, okAtO false x = true
  | none => rfl
  | some x => by simp only [okAtO, okAt_false x]
theorem okAtOL_false : ∀ x : Option (List Node), okAtOL false x = true
  | none => rfl
  | some xs => by simp only [okAtOL, okAtL_false xs]
end

theorem obs_programDoc (s : Bool) (ob : Obj) (p : Program) (h : okAtL s p.decls = true) :
    obs s (programDoc ob p).2 = obs s (semProgram p) := by
  simp only [programDoc, obs_append, obs_o, obs_joinD, List.nil_append, semProgram]
  exact obs_visitL s p.decls _ h

/-! ## `sem` has no layout pieces, and its declaration tags are the inventory -/

theorem noOther_tparams (tps : List Ty) : noOther (tparamPieces tps) = true := by
  induction tps with
  | nil => rfl
  | cons t r ih => simp_all [tparamPieces, noOther]

theorem declTags_tparams (tps : List Ty) : declTags (tparamPieces tps) = tparamTags tps := by
  induction tps with
  | nil => rfl
  | cons t r ih =>
    simp only [tparamPieces, List.map_cons, tparamTags] at ih ⊢
    rw [declTags_cons, ih]; simp [isDeclTag]

theorem declTags_callNames (f : String) (b : Bool) : declTags (callNames f b) = [] := by
  simp only [callNames]
  split
  · simp [declTags_cons, isDeclTag]
  · split <;> simp [declTags_cons, isDeclTag]

theorem noOther_callNames (f : String) (b : Bool) : noOther (callNames f b) = true := by
  simp only [callNames]
  split
  · simp
  · split <;> simp

set_option linter.unusedSimpArgs false

mutual
theorem declTags_sem : ∀ n : Node, declTags (sem n) = inv n
  | .block body _ => by simp only [sem, inv, declTags_semL body]
  | .superInst _ args => by simp [sem, inv, declTags_cons, isDeclTag, declTags_semOL args]
  | .classDecl _ _ _ fields supers funcs tps => by
      simp [sem, inv, declTags_cons, declTags_append, isDeclTag, declTags_semL fields, declTags_semL supers,
        declTags_semL funcs, declTags_tparams]
  | .varDecl _ expr _ vt _ => by
      cases vt <;> simp [sem, inv, declTags_cons, declTags_append, isDeclTag, declTags_sem expr]
  | .callArg expr name => by
      simp only [sem, inv, declTags_append, declTags_sem expr]
      split
      · split <;> simp [declTags_cons, isDeclTag]
      · simp
  | .fieldDecl .. => by simp [sem, inv, declTags_cons, isDeclTag]
  | .paramDecl _ _ _ dflt => by simp [sem, inv, declTags_cons, isDeclTag, declTags_semO dflt]
  | .funcDecl _ params rt _ body _ _ tps _ => by
      cases rt <;> simp [sem, inv, declTags_cons, declTags_append, isDeclTag, declTags_semL params,
        declTags_semO body, declTags_tparams]
  | .lambda _ params rt body _ => by
      cases rt <;>
        simp [sem, inv, declTags_cons, declTags_append, isDeclTag, declTags_semL params, declTags_sem body]
  | .funcRef _ receiver _ => by simp [sem, inv, declTags_cons, declTags_append, isDeclTag, declTags_semO receiver]
  | .bottom t => by cases t <;> simp [sem, inv, declTags_cons, isDeclTag]
  | .intC .. => by simp [sem, inv, declTags_cons, isDeclTag]
  | .realC .. => by simp [sem, inv, declTags_cons, isDeclTag]
  | .boolC .. => by simp [sem, inv, declTags_cons, isDeclTag]
  | .charC .. => by simp [sem, inv, declTags_cons, isDeclTag]
  | .stringC .. => by simp [sem, inv, declTags_cons, isDeclTag]
  | .arrayE t len exprs => by
      simp only [sem, inv, arrayTys, arrayCast]
      split
      · simp [declTags_cons, isDeclTag]
      · split <;> simp [declTags_cons, declTags_append, isDeclTag, declTags_semL exprs]
  | .variable _ => by simp [sem, inv, declTags_cons, isDeclTag]
  | .binop _ l r _ => by simp [sem, inv, declTags_cons, declTags_append, isDeclTag, declTags_sem l, declTags_sem r]
  | .cond c t f _ => by simp [sem, inv, declTags_append, declTags_sem c, declTags_sem t, declTags_sem f]
  | .isE e _ _ => by simp [sem, inv, declTags_cons, declTags_append, isDeclTag, declTags_sem e]
  | .newE t args _ => by
      simp only [sem, inv]
      split <;> simp [declTags_cons, isDeclTag, declTags_semL args]
  | .fieldAccess e _ => by simp [sem, inv, declTags_cons, declTags_append, isDeclTag, declTags_sem e]
  | .call _ args receiver targs ci _ => by
      simp only [sem, inv, declTags_append, declTags_cons, declTags_semO receiver, declTags_semL args,
        declTags_callNames, targsPieces]
      by_cases hc : (!ci && !targs.isEmpty) = true <;> simp [hc, declTags_cons, isDeclTag]
  | .assign _ expr receiver => by
      simp [sem, inv, declTags_cons, declTags_append, isDeclTag, declTags_semO receiver, declTags_sem expr]
theorem declTags_semL : ∀ ns : List Node, declTags (semL ns) = invL ns
  | [] => rfl
  | x :: xs => by simp only [semL, invL, declTags_append, declTags_sem x, declTags_semL xs]
theorem declTags_semO : ∀ x : Option Node, declTags (semO x) = invO x
  | none => rfl
  | some x => by simp only [semO, invO, declTags_sem x]
theorem declTags_semOL : ∀ x : Option (List Node), declTags (semOL x) = invOL x
  | none => rfl
  | some xs => by simp only [semOL, invOL, declTags_semL xs]
end

mutual
theorem noOther_sem : ∀ n : Node, noOther (sem n) = true
  | .block body _ => by simp only [sem, noOther_semL body]
  | .superInst _ args => by simp [sem, noOther_semOL args]
  | .classDecl _ _ _ fields supers funcs tps => by
      simp [sem, noOther_semL fields, noOther_semL supers, noOther_semL funcs, noOther_tparams]
  | .varDecl _ expr _ vt _ => by cases vt <;> simp [sem, noOther_sem expr]
  | .callArg expr name => by
      simp only [sem, noOther_append, noOther_sem expr]
      split
      · split <;> simp
      · simp
  | .fieldDecl .. => by simp [sem]
  | .paramDecl _ _ _ dflt => by simp [sem, noOther_semO dflt]
  | .funcDecl _ params rt _ body _ _ tps _ => by
      cases rt <;> simp [sem, noOther_semL params, noOther_semO body, noOther_tparams]
  | .lambda _ params rt body _ => by
      cases rt <;> simp [sem, noOther_semL params, noOther_sem body]
  | .funcRef _ receiver _ => by simp [sem, noOther_semO receiver]
  | .bottom t => by cases t <;> simp [sem]
  | .intC .. => by simp [sem]
  | .realC .. => by simp [sem]
  | .boolC .. => by simp [sem]
  | .charC .. => by simp [sem]
  | .stringC .. => by simp [sem]
  | .arrayE t len exprs => by
      simp only [sem, arrayTys, arrayCast]
      split
      · simp
      · split <;> simp [noOther_semL exprs]
  | .variable _ => by simp [sem]
  | .binop _ l r _ => by simp [sem, noOther_sem l, noOther_sem r]
  | .cond c t f _ => by simp [sem, noOther_sem c, noOther_sem t, noOther_sem f]
  | .isE e _ _ => by simp [sem, noOther_sem e]
  | .newE t args _ => by
      simp only [sem]
      split <;> simp [noOther_semL args]
  | .fieldAccess e _ => by simp [sem, noOther_sem e]
  | .call _ args receiver targs ci _ => by
      simp only [sem, noOther_append, noOther_cons, noOther_semO receiver, noOther_semL args, noOther_callNames,
        targsPieces]
      split <;> simp
  | .assign _ expr receiver => by simp [sem, noOther_semO receiver, noOther_sem expr]
theorem noOther_semL : ∀ ns : List Node, noOther (semL ns) = true
  | [] => rfl
  | x :: xs => by simp only [semL, noOther_append, noOther_sem x, noOther_semL xs, Bool.and_self]
theorem noOther_semO : ∀ x : Option Node, noOther (semO x) = true
  | none => rfl
  | some x => by simp only [semO, noOther_sem x]
theorem noOther_semOL : ∀ x : Option (List Node), noOther (semOL x) = true
  | none => rfl
  | some xs => by simp only [semOL, noOther_semL xs]
end

end Heph.TransScala
