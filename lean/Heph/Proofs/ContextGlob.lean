import Heph.Proofs.ContextCurrent
/-! The two worklist walks of `context.py` (`_get_declarations_glob`, `get_namespaces_decls`):
fuel adequacy (`walkFuel` is always enough) and what a finished walk has collected, for every
fuel. -/
namespace Heph.Context

/-- the common shape of the two `while namespaces:` loops -/
def genWalk {β : Type} (ch : Ns → List Ns) (upd : β → Ns → β) : Nat → List Ns → β → Option β
  | _, [], acc => some acc
  | 0, _ :: _, _ => none
  | f+1, ns :: st, acc => genWalk ch upd f ((ch ns).reverse ++ st) (upd acc ns)

theorem globWalk_eq (c : Ctx) (k : Kind) (f : Nat) (st : List Ns) (acc : Dict) :
    globWalk c k f st acc =
      genWalk (fun ns => children c ns true) (fun acc ns => aUpdate acc (current c ns k)) f st acc := by
  induction f generalizing st acc with
  | zero => cases st <;> rfl
  | succ f ih =>
    cases st with
    | nil => rfl
    | cons ns st => simp only [globWalk, genWalk, ih]

theorem nsDeclsWalk_eq (c : Ctx) (name : String) (k : Kind) (f : Nat) (st : List Ns) (acc : List (Ns × Val)) :
    nsDeclsWalk c name k f st acc =
      genWalk (fun ns => children c ns false)
        (fun acc ns => (current c ns k).foldl
          (fun a e => if e.1 = name then setAdd a (ns ++ [name], e.2) else a) acc) f st acc := by
  induction f generalizing st acc with
  | zero => cases st <;> rfl
  | succ f ih =>
    cases st with
    | nil => rfl
    | cons ns st => simp only [nsDeclsWalk, genWalk, ih]

/-! ## fuel adequacy -/

def costG (ch : Ns → List Ns) : Nat → Ns → Nat
  | 0, _ => 1
  | d+1, ns => 1 + ((ch ns).map (costG ch d)).sum

theorem cost_eq (c : Ctx) (b : Bool) (d : Nat) (ns : Ns) :
    cost c b d ns = costG (fun ns => children c ns b) d ns := by
  induction d generalizing ns with
  | zero => rfl
  | succ d ih =>
    simp only [cost, costG]
    congr 2
    apply List.map_congr_left
    intro x _
    exact ih x

theorem costG_pos (ch : Ns → List Ns) (d : Nat) (ns : Ns) : 1 ≤ costG ch d ns := by
  cases d <;> simp [costG] <;> omega

/-- a walk over a tree of bounded height never runs out of `Σ cost` fuel -/
theorem genWalk_adequate {β : Type} (ch : Ns → List Ns) (upd : β → Ns → β) (D : Nat)
    (h1 : ∀ ns child, child ∈ ch ns → child.length = ns.length + 1)
    (h2 : ∀ ns, D < ns.length → ch ns = [])
    (fuel : Nat) (st : List Ns) (acc : β)
    (hf : (st.map (fun ns => costG ch (D + 1 - ns.length) ns)).sum ≤ fuel) :
    (genWalk ch upd fuel st acc).isSome = true := by
  induction fuel generalizing st acc with
  | zero =>
    cases st with
    | nil => rfl
    | cons ns st =>
      simp only [List.map_cons, List.sum_cons] at hf
      have := costG_pos ch (D + 1 - ns.length) ns
      omega
  | succ f ih =>
    cases st with
    | nil => rfl
    | cons ns st =>
      simp only [genWalk]
      apply ih
      simp only [List.map_cons, List.sum_cons] at hf
      simp only [List.map_append, List.sum_append, List.map_reverse, List.sum_reverse]
      cases hd : D + 1 - ns.length with
      | zero =>
        have : ch ns = [] := h2 ns (by omega)
        rw [hd] at hf
        simp only [this, List.map_nil, List.sum_nil, costG] at hf ⊢
        omega
      | succ d =>
        rw [hd] at hf
        simp only [costG] at hf
        have : (ch ns).map (fun n => costG ch (D + 1 - n.length) n) = (ch ns).map (costG ch d) := by
          apply List.map_congr_left
          intro child hc
          have := h1 ns child hc
          have : D + 1 - child.length = d := by omega
          rw [this]
        rw [this]
        omega

theorem le_foldl_max (l : List Nat) (init : Nat) :
    init ≤ l.foldl max init ∧ ∀ x ∈ l, x ≤ l.foldl max init := by
  induction l generalizing init with
  | nil => simp
  | cons a r ih =>
    simp only [List.foldl_cons, List.mem_cons]
    have h := ih (max init a)
    refine ⟨by omega, ?_⟩
    rintro x (hx | hx)
    · subst hx; omega
    · exact h.2 x hx

theorem aGet_mem {κ β : Type} [DecidableEq κ] (d : List (κ × β)) (k : κ) (v : β) (h : aGet d k = some v) :
    (k, v) ∈ d := by
  induction d with
  | nil => cases h
  | cons e r ih =>
    obtain ⟨a, b⟩ := e
    rw [aGet_cons] at h
    split at h
    · rename_i hk; cases h; subst hk; exact List.mem_cons_self
    · exact List.mem_cons_of_mem _ (ih h)

/-- a namespace longer than every registered one has no entries -/
theorem current_of_long (c : Ctx) (ns : Ns) (k : Kind) (h : maxLen c < ns.length) : current c ns k = [] := by
  unfold current
  cases hg : aGet c.context ns with
  | none => rfl
  | some e =>
    exfalso
    have hm := aGet_mem _ _ _ hg
    have : ns.length ∈ c.context.map (·.1.length) := List.mem_map_of_mem (f := (·.1.length)) hm
    have := (le_foldl_max (c.context.map (·.1.length)) 0).2 _ this
    unfold maxLen at h
    omega

theorem children_of_long (c : Ctx) (b : Bool) (ns : Ns) (h : maxLen c < ns.length) : children c ns b = [] := by
  unfold children
  rw [current_of_long c ns _ h, current_of_long c ns _ h]
  cases b <;> rfl

theorem children_length (c : Ctx) (b : Bool) (ns child : Ns) (h : child ∈ children c ns b) :
    child.length = ns.length + 1 := by
  unfold children at h
  simp only [List.mem_append, List.mem_map] at h
  rcases h with ⟨n, _, rfl⟩ | ⟨n, _, rfl⟩ <;> simp

/-- `_get_declarations_glob` terminates within the fuel the model passes -/
theorem globDecls_isSome (c : Ctx) (root : String) (k : Kind) : (globDecls c root k).isSome = true := by
  unfold globDecls
  rw [globWalk_eq]
  apply genWalk_adequate _ _ (maxLen c) (children_length c true) (children_of_long c true)
  simp only [List.map_cons, List.map_nil, List.sum_cons, List.sum_nil, walkFuel, cost_eq]
  omega

/-- the walk of `get_namespaces_decls` terminates within the fuel the model passes -/
theorem nsDeclsWalk_isSome (c : Ctx) (name : String) (k : Kind) (ns : Ns) :
    (nsDeclsWalk c name k (walkFuel c false ns) [ns] []).isSome = true := by
  rw [nsDeclsWalk_eq]
  apply genWalk_adequate _ _ (maxLen c) (children_length c false) (children_of_long c false)
  simp only [List.map_cons, List.map_nil, List.sum_cons, List.sum_nil, walkFuel, cost_eq]
  omega

/-! ## what a finished walk has collected -/

/-- `n` is reachable from `s` through declared functions and classes (`b`: also through
    artificial `None` declarations) -/
inductive Reach (c : Ctx) (b : Bool) : Ns → Ns → Prop
  | refl (ns : Ns) : Reach c b ns ns
  | head {ns child n : Ns} : child ∈ children c ns b → Reach c b child n → Reach c b ns n

theorem Reach.tail {c : Ctx} {b : Bool} {s n child : Ns} (h : Reach c b s n) (hc : child ∈ children c n b) :
    Reach c b s child := by
  induction h with
  | refl ns => exact .head hc (.refl _)
  | head h1 _ ih => exact .head h1 (ih hc)

theorem reach_iff (c : Ctx) (b : Bool) (s n : Ns) :
    Reach c b s n ↔ n = s ∨ ∃ child ∈ children c s b, Reach c b child n := by
  constructor
  · intro h
    cases h with
    | refl => exact Or.inl rfl
    | head h1 h2 => exact Or.inr ⟨_, h1, h2⟩
  · rintro (h | ⟨child, h1, h2⟩)
    · subst h; exact .refl _
    · exact .head h1 h2

theorem mem_aKeys_aSet {κ β : Type} [DecidableEq κ] (d : List (κ × β)) (k : κ) (v : β) (x : κ) :
    x ∈ aKeys (aSet d k v) ↔ x ∈ aKeys d ∨ x = k := by
  rw [aKeys_aSet]
  split
  · rename_i h
    constructor
    · exact Or.inl
    · rintro (h1 | h1)
      · exact h1
      · subst h1; exact h
  · simp

theorem mem_aKeys_aUpdate {κ β : Type} [DecidableEq κ] (d1 d2 : List (κ × β)) (x : κ) :
    x ∈ aKeys (aUpdate d1 d2) ↔ x ∈ aKeys d1 ∨ x ∈ aKeys d2 := by
  unfold aUpdate
  induction d2 generalizing d1 with
  | nil => simp [aKeys]
  | cons e r ih =>
    simp only [List.foldl_cons, ih, mem_aKeys_aSet]
    simp only [aKeys, List.map_cons, List.mem_cons]
    constructor
    · rintro ((h | h) | h)
      · exact Or.inl h
      · exact Or.inr (Or.inl h)
      · exact Or.inr (Or.inr h)
    · rintro (h | h | h)
      · exact Or.inl (Or.inl h)
      · exact Or.inl (Or.inr h)
      · exact Or.inr h

theorem mem_aSet {κ β : Type} [DecidableEq κ] (d : List (κ × β)) (k : κ) (v : β) (e : κ × β)
    (h : e ∈ aSet d k v) : e ∈ d ∨ e = (k, v) := by
  induction d with
  | nil => simp only [aSet, List.mem_singleton] at h; exact Or.inr h
  | cons e' r ih =>
    obtain ⟨a, b⟩ := e'
    simp only [aSet] at h
    split at h
    · rename_i hk
      simp only [List.mem_cons] at h ⊢
      rcases h with h | h
      · subst hk; exact Or.inr h
      · exact Or.inl (Or.inr h)
    · simp only [List.mem_cons] at h ⊢
      rcases h with h | h
      · exact Or.inl (Or.inl h)
      · rcases ih h with h' | h'
        · exact Or.inl (Or.inr h')
        · exact Or.inr h'

theorem mem_aUpdate {κ β : Type} [DecidableEq κ] (d1 d2 : List (κ × β)) (e : κ × β)
    (h : e ∈ aUpdate d1 d2) : e ∈ d1 ∨ e ∈ d2 := by
  unfold aUpdate at h
  induction d2 generalizing d1 with
  | nil => exact Or.inl h
  | cons e' r ih =>
    simp only [List.foldl_cons] at h
    rcases ih _ h with h1 | h1
    · rcases mem_aSet _ _ _ _ h1 with h2 | h2
      · exact Or.inl h2
      · exact Or.inr (h2 ▸ List.mem_cons_self)
    · exact Or.inr (List.mem_cons_of_mem _ h1)

/-- a finished global walk (any fuel): its keys are exactly the names of the namespaces
    reachable from the stack (besides what was collected before), and every entry comes from
    such a namespace -/
theorem globWalk_collects (c : Ctx) (k : Kind) (f : Nat) (st : List Ns) (acc d : Dict)
    (h : globWalk c k f st acc = some d) :
    (∀ name, name ∈ aKeys d ↔
      name ∈ aKeys acc ∨ ∃ s ∈ st, ∃ n, Reach c true s n ∧ name ∈ aKeys (current c n k)) ∧
    (∀ e ∈ d, e ∈ acc ∨ ∃ s ∈ st, ∃ n, Reach c true s n ∧ e ∈ current c n k) := by
  induction f generalizing st acc with
  | zero =>
    cases st with
    | nil => simp only [globWalk, Option.some.injEq] at h; subst h; simp
    | cons ns st => simp [globWalk] at h
  | succ f ih =>
    cases st with
    | nil => simp only [globWalk, Option.some.injEq] at h; subst h; simp
    | cons ns st =>
      simp only [globWalk] at h
      obtain ⟨ih1, ih2⟩ := ih _ _ h
      constructor
      · intro name
        rw [ih1, mem_aKeys_aUpdate]
        constructor
        · rintro ((h1 | h1) | ⟨s, hs, n, hr, hn⟩)
          · exact Or.inl h1
          · exact Or.inr ⟨ns, List.mem_cons_self, ns, .refl _, h1⟩
          · rcases List.mem_append.1 hs with hs | hs
            · exact Or.inr ⟨ns, List.mem_cons_self, n, .head (List.mem_reverse.1 hs) hr, hn⟩
            · exact Or.inr ⟨s, List.mem_cons_of_mem _ hs, n, hr, hn⟩
        · rintro (h1 | ⟨s, hs, n, hr, hn⟩)
          · exact Or.inl (Or.inl h1)
          · rcases List.mem_cons.1 hs with hs | hs
            · subst hs
              rcases (reach_iff c true s n).1 hr with h2 | ⟨child, hc, hr'⟩
              · subst h2; exact Or.inl (Or.inr hn)
              · exact Or.inr ⟨child, List.mem_append.2 (Or.inl (List.mem_reverse.2 hc)), n, hr', hn⟩
            · exact Or.inr ⟨s, List.mem_append.2 (Or.inr hs), n, hr, hn⟩
      · intro e he
        rcases ih2 e he with h1 | ⟨s, hs, n, hr, hn⟩
        · rcases mem_aUpdate _ _ _ h1 with h2 | h2
          · exact Or.inl h2
          · exact Or.inr ⟨ns, List.mem_cons_self, ns, .refl _, h2⟩
        · rcases List.mem_append.1 hs with hs | hs
          · exact Or.inr ⟨ns, List.mem_cons_self, n, .head (List.mem_reverse.1 hs) hr, hn⟩
          · exact Or.inr ⟨s, List.mem_cons_of_mem _ hs, n, hr, hn⟩

theorem nodup_globWalk (c : Ctx) (k : Kind) (f : Nat) (st : List Ns) (acc d : Dict)
    (hacc : (aKeys acc).Nodup) (h : globWalk c k f st acc = some d) : (aKeys d).Nodup := by
  induction f generalizing st acc with
  | zero =>
    cases st with
    | nil => simp only [globWalk, Option.some.injEq] at h; subst h; exact hacc
    | cons ns st => simp [globWalk] at h
  | succ f ih =>
    cases st with
    | nil => simp only [globWalk, Option.some.injEq] at h; subst h; exact hacc
    | cons ns st =>
      simp only [globWalk] at h
      exact ih _ _ (nodup_aUpdate _ _ hacc) h

end Heph.Context
