import Heph.Proofs.OracleTotal
/-! The message each reported fault carries. -/
set_option linter.unusedSimpArgs false
namespace Heph.Oracle

theorem progsLoop_lookup {v : Variant} {o : Outcome} {k : Nat} :
    ∀ {ps : List Prog} {st st' : Reported × FS}, progsLoop v o st ps = .ok st' →
    (∀ p ∈ ps, p.pid ≠ k) → st'.1.lookup k = st.1.lookup k := by
  intro ps
  induction ps with
  | nil => intro st st' h _; simp only [progsLoop] at h; cases h; rfl
  | cons p t ih =>
    intro st st' h hne
    simp only [progsLoop] at h
    split at h
    · cases h
    · rename_i st1 h1
      obtain ⟨_, _, a3⟩ := progStep_ok h1
      rw [ih h (fun p' hp' => hne p' (List.mem_cons_of_mem _ hp')),
        a3 k (fun he => hne p (List.mem_cons_self ..) he.symm)]

theorem crashLoop_lookup {v : Variant} {msg : String} {k : Nat} :
    ∀ {ps : List Prog} {st st' : Reported × FS}, crashLoop v msg st ps = .ok st' →
    (∀ p ∈ ps, p.pid ≠ k) → st'.1.lookup k = st.1.lookup k := by
  intro ps
  induction ps with
  | nil => intro st st' h _; simp only [crashLoop] at h; cases h; rfl
  | cons p t ih =>
    intro st st' h hne
    have hk : k ≠ p.pid := fun he => hne p (List.mem_cons_self ..) he.symm
    have ht : ∀ p' ∈ t, p'.pid ≠ k := fun p' hp' => hne p' (List.mem_cons_of_mem _ hp')
    simp only [crashLoop] at h
    split at h
    · split at h
      · rw [ih h ht]; exact lookup_dictSet_ne _ _ _ _ hk
      · exact ih h ht
    · split at h
      · cases h
      · rw [ih h ht]; exact lookup_dictSet_ne _ _ _ _ hk

/-- the message of a program reported by the crash branch -/
theorem crashLoop_msg {v : Variant} {msg : String} :
    ∀ {ps : List Prog} {st st' : Reported × FS}, crashLoop v msg st ps = .ok st' →
    (ps.map (·.pid)).Nodup → ∀ p ∈ ps, (v.crashFix || !p.toolFailed) = true →
    st'.1.lookup p.pid = some (if p.toolFailed then p.err else some msg) := by
  intro ps
  induction ps with
  | nil => intro st st' _ _ p hp; cases hp
  | cons q t ih =>
    intro st st' h hnd p hp hrow
    simp only [List.map_cons, List.nodup_cons, List.mem_map, not_exists, not_and] at hnd
    have hne : ∀ p' ∈ t, p'.pid ≠ q.pid := fun p' hp' he => hnd.1 p' hp' he
    rcases List.mem_cons.1 hp with rfl | hp
    · simp only [crashLoop] at h
      split at h
      · rename_i ht
        split at h
        · rw [crashLoop_lookup h hne, lookup_dictSet_self, ht]; rfl
        · rename_i hv; simp [ht, hv] at hrow
      · rename_i ht
        split at h
        · cases h
        · rw [crashLoop_lookup h hne, lookup_dictSet_self]
          have : p.toolFailed = false := by simpa using ht
          simp [this]
    · simp only [crashLoop] at h
      split at h
      · split at h
        · exact ih h hnd.2 p hp hrow
        · exact ih h hnd.2 p hp hrow
      · split at h
        · cases h
        · exact ih h hnd.2 p hp hrow

theorem filesLoop_cons_inv {v : Variant} {o : Outcome} {inj : Option String} {pid : Nat}
    {st st' : LoopSt} {f : Nat × Bool} {t : List (Nat × Bool)}
    (h : filesLoop v o inj pid st (f :: t) = .ok st') :
    ∃ st1, fileStep v o inj pid st f = .ok st1 ∧ filesLoop v o inj pid st1 t = .ok st' := by
  simp only [filesLoop] at h
  split at h
  · cases h
  · rename_i st1 h1; exact ⟨st1, h1, h⟩

theorem filesLoop_nil_inv {v : Variant} {o : Outcome} {inj : Option String} {pid : Nat}
    {st st' : LoopSt} (h : filesLoop v o inj pid st [] = .ok st') : st' = st := by
  simp only [filesLoop] at h; cases h; rfl

theorem progStep_live_inv {v : Variant} {o : Outcome} {st st' : Reported × FS} {p : Prog}
    (ht : p.toolFailed = false) (h : progStep v o st p = .ok st') :
    ∃ ls, filesLoop v o p.err p.pid ⟨p.err, st.1, st.2⟩ p.files = .ok ls ∧ st'.1 = ls.out := by
  simp only [progStep, ht, Bool.false_eq_true, if_false] at h
  split at h
  · cases h
  · rename_i ls hl
    split at h
    · cases h
    · cases h; exact ⟨ls, hl, rfl⟩

theorem fileStep_correct_inv {v : Variant} {o : Outcome} {inj : Option String} {pid c : Nat}
    {st st' : LoopSt} (hf : o.isFailed c = true) (h : fileStep v o inj pid st (c, true) = .ok st') :
    st'.err = some (joinLines (o.msgs c)) ∧ st'.out = dictSet st.out pid (some (joinLines (o.msgs c))) := by
  simp only [fileStep, hf, Bool.and_self, if_true, stepCorrect] at h
  split at h
  · cases h
  · cases h; exact ⟨rfl, rfl⟩

theorem fileStep_incorrect_inv {v : Variant} {o : Outcome} {inj : Option String} {pid i : Nat}
    {st st' : LoopSt} (hf : o.isFailed i = false) (h : fileStep v o inj pid st (i, false) = .ok st') :
    ∃ m, snbcMessage v inj st pid = some m ∧ st'.err = some m ∧ st'.out = dictSet st.out pid (some m) := by
  simp only [fileStep, hf, Bool.and_false, Bool.false_and, Bool.false_eq_true, if_false, Bool.not_false,
    Bool.and_self, if_true, stepIncorrect] at h
  split at h
  · cases h
  · rename_i m hm
    split at h
    · cases h
    · cases h; exact ⟨m, hm, rfl, rfl⟩

theorem fileStep_none_inv {v : Variant} {o : Outcome} {inj : Option String} {pid : Nat}
    {st st' : LoopSt} {f : Nat × Bool} (hf : mismatchFile o f = false)
    (h : fileStep v o inj pid st f = .ok st') : st' = st := by
  obtain ⟨fid, ex⟩ := f
  cases ex <;> cases hfo : o.isFailed fid <;> simp [mismatchFile, hfo] at hf <;>
    (simp only [fileStep, hfo, Bool.and_true, Bool.and_false, Bool.not_true, Bool.not_false, if_true,
      if_false, Bool.false_eq_true] at h; cases h; rfl)

/-- the message of a reported program of the shape `gen_program` produces (no crash, repaired
    handling of the two mismatches) -/
theorem progStep_msg {v : Variant} (hv : v.bothFix = true) {o : Outcome} (hc : o.crash = none)
    {st st' : Reported × FS} {p : Prog} (h : progStep v o st p = .ok st')
    (hk : p.pid ∉ keys st.1) (hshape : p.toolFailed = true ∨ GenShape p)
    (hrow : (p.toolFailed || p.mismatch o) = true) :
    st'.1.lookup p.pid = some (expectedMsg o p) := by
  by_cases ht : p.toolFailed = true
  · simp only [progStep, ht, if_true] at h
    cases h
    simp [lookup_dictSet_self, expectedMsg, ht]
  have ht' : p.toolFailed = false := by simpa using ht
  rcases hshape with hs | hs
  · exact absurd hs ht
  simp only [ht', Bool.false_or, Prog.mismatch] at hrow
  obtain ⟨ls, hl, hout⟩ := progStep_live_inv ht' h
  rw [hout]
  rcases hs with ⟨c, hfiles⟩ | ⟨c, i, hfiles, herr⟩
  · -- only the program expected to compile
    rw [hfiles] at hl hrow
    simp only [List.any_cons, List.any_nil, Bool.or_false, mismatchFile, Bool.true_and,
      Bool.not_true, Bool.false_and, Bool.or_false] at hrow
    obtain ⟨st1, h1, h2⟩ := filesLoop_cons_inv hl
    cases filesLoop_nil_inv h2
    obtain ⟨_, b2⟩ := fileStep_correct_inv hrow h1
    rw [b2]
    simp [lookup_dictSet_self, expectedMsg, ht', hc, hfiles]
  · -- a program expected to compile and its ill-typed variant
    obtain ⟨e, he⟩ := Option.isSome_iff_exists.1 herr
    rw [hfiles] at hl hrow
    obtain ⟨st1, h1, h2⟩ := filesLoop_cons_inv hl
    obtain ⟨st2, h3, h4⟩ := filesLoop_cons_inv h2
    cases filesLoop_nil_inv h4
    simp only [List.any_cons, List.any_nil, Bool.or_false, mismatchFile, Bool.true_and,
      Bool.not_true, Bool.false_and, Bool.or_false, Bool.not_false, Bool.false_or] at hrow
    cases hfc : o.isFailed c <;> cases hfi : o.isFailed i <;>
      simp only [hfc, hfi, Bool.not_true, Bool.not_false, Bool.or_self, Bool.or_false, Bool.or_true,
        Bool.false_eq_true] at hrow
    · -- accepted / accepted: only the ill-typed variant mismatches
      cases fileStep_none_inv (by simp [mismatchFile, hfc]) h1
      obtain ⟨m, hm, _, b3⟩ := fileStep_incorrect_inv hfi h3
      simp only [snbcMessage, hv, if_true, he] at hm
      rw [if_neg hk] at hm
      cases hm
      rw [b3]
      simp [lookup_dictSet_self, expectedMsg, ht', hc, hfiles, hfc, hfi, he]
    · -- rejected / accepted: both mismatch
      obtain ⟨b1, b2⟩ := fileStep_correct_inv hfc h1
      obtain ⟨m, hm, _, b3⟩ := fileStep_incorrect_inv hfi h3
      simp only [snbcMessage, hv, if_true, he, b2, mem_keys_dictSet, true_or, b1, Option.map_some] at hm
      cases hm
      rw [b3]
      simp [lookup_dictSet_self, expectedMsg, ht', hc, hfiles, hfc, hfi, he]
    · -- rejected / rejected: only the well-typed program mismatches
      obtain ⟨_, b2⟩ := fileStep_correct_inv hfc h1
      cases fileStep_none_inv (by simp [mismatchFile, hfi]) h3
      rw [b2]
      simp [lookup_dictSet_self, expectedMsg, ht', hc, hfiles, hfc, hfi]

theorem progsLoop_msg {v : Variant} (hv : v.bothFix = true) {o : Outcome} (hc : o.crash = none) :
    ∀ {ps : List Prog} {st st' : Reported × FS}, progsLoop v o st ps = .ok st' →
    (ps.map (·.pid)).Nodup → (∀ p ∈ ps, p.pid ∉ keys st.1) →
    ∀ p ∈ ps, (p.toolFailed = true ∨ GenShape p) → (p.toolFailed || p.mismatch o) = true →
    st'.1.lookup p.pid = some (expectedMsg o p) := by
  intro ps
  induction ps with
  | nil => intro st st' _ _ _ p hp; cases hp
  | cons q t ih =>
    intro st st' h hnd hkeys p hp hshape hrow
    simp only [List.map_cons, List.nodup_cons, List.mem_map, not_exists, not_and] at hnd
    have hne : ∀ p' ∈ t, p'.pid ≠ q.pid := fun p' hp' he => hnd.1 p' hp' he
    simp only [progsLoop] at h
    split at h
    · cases h
    · rename_i st1 h1
      obtain ⟨a1, _, _⟩ := progStep_ok h1
      rcases List.mem_cons.1 hp with rfl | hp
      · rw [progsLoop_lookup h hne]
        exact progStep_msg hv hc h1 (hkeys p (List.mem_cons_self ..)) hshape hrow
      · refine ih h hnd.2 (fun p' hp' hk => ?_) p hp hshape hrow
        rw [a1] at hk
        rcases hk with hk | ⟨hk, _⟩
        · exact hkeys p' (List.mem_cons_of_mem _ hp') hk
        · exact hne p' hp' hk

end Heph.Oracle
