import Heph.Spec.Diag
/-! # Grouping lemmas for C14: the `defaultdict` fold of the model is the declarative grouping -/
namespace Heph.Diag

/-! ## `firstOccs` -/

theorem mem_firstOccs (x : List Char) (fs : List (List Char)) : x ∈ firstOccs fs ↔ x ∈ fs := by
  induction fs with
  | nil => simp [firstOccs]
  | cons g fs ih =>
    simp only [firstOccs, List.mem_cons, List.mem_filter, ih, bne_iff_ne, ne_eq]
    by_cases h : x = g <;> simp [h]

theorem firstOccs_nodup (fs : List (List Char)) : (firstOccs fs).Nodup := by
  induction fs with
  | nil => simp [firstOccs]
  | cons g fs ih =>
    simp only [firstOccs, List.nodup_cons]
    exact ⟨by simp, ih.sublist List.filter_sublist⟩

theorem firstOccs_snoc (fs : List (List Char)) (f : List Char) :
    firstOccs (fs ++ [f]) = if f ∈ fs then firstOccs fs else firstOccs fs ++ [f] := by
  induction fs with
  | nil => simp [firstOccs]
  | cons g fs ih =>
    simp only [List.cons_append, firstOccs, ih, List.mem_cons]
    by_cases h1 : f ∈ fs
    · simp [h1]
    · by_cases h2 : f = g
      · subst h2; simp [h1]
      · simp [h1, h2]

/-! ## `msgsOf` -/

theorem msgsOf_append (f : List Char) (es1 es2 : List (List Char × List Char)) :
    msgsOf f (es1 ++ es2) = msgsOf f es1 ++ msgsOf f es2 := by
  simp only [msgsOf, List.filter_append, List.map_append]

theorem msgsOf_eq_nil_of_not_mem (f : List Char) (es : List (List Char × List Char))
    (h : f ∉ es.map (·.1)) : msgsOf f es = [] := by
  simp only [msgsOf, List.map_eq_nil_iff, List.filter_eq_nil_iff, beq_iff_eq]
  intro p hp hpf
  exact h (List.mem_map.2 ⟨p, hp, hpf⟩)

theorem msgsOf_ne_nil_of_mem (f : List Char) (es : List (List Char × List Char))
    (h : f ∈ es.map (·.1)) : msgsOf f es ≠ [] := by
  obtain ⟨p, hp, hpf⟩ := List.mem_map.1 h
  simp only [msgsOf, ne_eq, List.map_eq_nil_iff, List.filter_eq_nil_iff, beq_iff_eq]
  exact fun hall => hall p hp hpf

/-! ## `insertMsg` on a keyed table -/

theorem insertMsg_map_of_not_mem (f m : List Char) (h : List Char → List (List Char))
    (L : List (List Char)) (hf : f ∉ L) :
    insertMsg f m (L.map fun g => (g, h g)) = L.map (fun g => (g, h g)) ++ [(f, [m])] := by
  induction L with
  | nil => simp [insertMsg]
  | cons g L ih =>
    have hg : g ≠ f := fun e => hf (by simp [e])
    have hL : f ∉ L := fun e => hf (by simp [e])
    simp only [List.map_cons, insertMsg, beq_iff_eq, hg, if_false, ih hL, List.cons_append]

theorem insertMsg_map_of_mem (f m : List Char) (h : List Char → List (List Char))
    (L : List (List Char)) (hnd : L.Nodup) (hf : f ∈ L) :
    insertMsg f m (L.map fun g => (g, h g))
      = L.map (fun g => (g, h g ++ if f == g then [m] else [])) := by
  induction L with
  | nil => simp at hf
  | cons g L ih =>
    rw [List.nodup_cons] at hnd
    simp only [List.map_cons, insertMsg]
    by_cases hg : g = f
    · subst hg
      simp only [beq_self_eq_true, if_true, List.cons.injEq, true_and]
      apply List.map_congr_left
      intro x hx
      have : g ≠ x := fun e => hnd.1 (e ▸ hx)
      simp [this]
    · have hL : f ∈ L := by
        rcases List.mem_cons.1 hf with e | e
        · exact absurd e.symm hg
        · exact e
      have hg' : f ≠ g := fun e => hg e.symm
      simp [hg, hg', ih hnd.2 hL]

/-! ## the grouping -/

theorem groupByFile_snoc (es : List (List Char × List Char)) (e : List Char × List Char) :
    groupByFile (es ++ [e]) = insertMsg e.1 e.2 (groupByFile es) := by
  have hm : ∀ g, msgsOf g (es ++ [e]) = msgsOf g es ++ if e.1 == g then [e.2] else [] := by
    intro g
    rw [msgsOf_append]
    congr 1
    by_cases h : e.1 = g <;> simp [msgsOf, h]
  simp only [groupByFile, List.map_append, List.map_cons, List.map_nil, firstOccs_snoc, hm]
  by_cases h : e.1 ∈ es.map (·.1)
  · rw [if_pos h, insertMsg_map_of_mem _ _ _ _ (firstOccs_nodup _) ((mem_firstOccs _ _).2 h)]
  · rw [if_neg h, insertMsg_map_of_not_mem _ _ _ _ (fun h' => h ((mem_firstOccs _ _).1 h'))]
    simp only [List.map_append, List.map_cons, List.map_nil, msgsOf_eq_nil_of_not_mem _ _ h,
      beq_self_eq_true, if_true, List.nil_append, List.append_cancel_right_eq]
    apply List.map_congr_left
    intro x hx
    have : e.1 ≠ x := fun e' => h ((mem_firstOccs _ _).1 (e' ▸ hx))
    simp [this]

theorem groupMsgs_snoc (es : List (List Char × List Char)) (e : List Char × List Char) :
    groupMsgs (es ++ [e]) = insertMsg e.1 e.2 (groupMsgs es) := by
  simp only [groupMsgs, List.foldl_append, List.foldl_cons, List.foldl_nil]

/-- 1. the model's `defaultdict`-style left fold equals the declarative grouping -/
theorem groupMsgs_eq_groupByFile (es : List (List Char × List Char)) :
    groupMsgs es = groupByFile es := by
  have key : ∀ l : List (List Char × List Char), groupMsgs l.reverse = groupByFile l.reverse := by
    intro l
    induction l with
    | nil => rfl
    | cons e l ih => rw [List.reverse_cons, groupMsgs_snoc, groupByFile_snoc, ih]
  have := key es.reverse
  rwa [List.reverse_reverse] at this

/-- 2. looking a file up in the grouping gives exactly its messages, in order -/
theorem lookupFailed_groupByFile (f : List Char) (es : List (List Char × List Char)) :
    lookupFailed f (groupByFile es) = msgsOf f es := by
  have key : ∀ L : List (List Char),
      lookupFailed f (L.map fun g => (g, msgsOf g es)) = if f ∈ L then msgsOf f es else [] := by
    intro L
    induction L with
    | nil => simp [lookupFailed]
    | cons g L ih =>
      simp only [lookupFailed, List.map_cons, List.find?_cons, List.mem_cons] at ih ⊢
      by_cases hg : g = f
      · subst hg; simp
      · have hg' : f ≠ g := fun e => hg e.symm
        have hb : (g == f) = false := by simpa using hg
        simp only [hb, hg', false_or]
        exact ih
  rw [groupByFile, key]
  by_cases h : f ∈ es.map (·.1)
  · rw [if_pos ((mem_firstOccs _ _).2 h)]
  · rw [if_neg (fun h' => h ((mem_firstOccs _ _).1 h')), msgsOf_eq_nil_of_not_mem _ _ h]

theorem keys_groupByFile (es : List (List Char × List Char)) :
    (groupByFile es).map (·.1) = firstOccs (es.map (·.1)) := by
  simp only [groupByFile, List.map_map]
  exact List.map_id' _

/-- 4a. the keys are exactly the files that have an error -/
theorem mem_keys_groupByFile (f : List Char) (es : List (List Char × List Char)) :
    f ∈ (groupByFile es).map (·.1) ↔ ∃ m, (f, m) ∈ es := by
  rw [keys_groupByFile, mem_firstOccs, List.mem_map]
  constructor
  · rintro ⟨⟨g, m⟩, hp, rfl⟩; exact ⟨m, hp⟩
  · rintro ⟨m, hm⟩; exact ⟨(f, m), hm, rfl⟩

/-- 4b. every file occurs once -/
theorem keys_nodup (es : List (List Char × List Char)) : ((groupByFile es).map (·.1)).Nodup := by
  rw [keys_groupByFile]; exact firstOccs_nodup _

/-- 5. no file is listed without a message -/
theorem msgs_nonempty (es : List (List Char × List Char)) : ∀ p ∈ groupByFile es, p.2 ≠ [] := by
  intro p hp
  obtain ⟨g, hg, rfl⟩ := List.mem_map.1 hp
  exact msgsOf_ne_nil_of_mem g es ((mem_firstOccs _ _).1 hg)

end Heph.Diag
