import Heph.Proofs.GraphBasic
/-!
# The depth-first traversal `dfs`

Measure of the worklist: `stack.length + unvisW g vis`, where `unvisW` is the total length of
the adjacency lists of the keys that are not yet marked; it drops by at least one per
iteration and starts at most at `(targets g).length`.
-/
namespace Heph.Graph

/-- the edge relation of `dfs`: any target, key or not -/
def AnyEdge (g : Graph) (a b : Nat) : Prop := b ∈ adj g a

def unvisW : Graph → List Nat → Nat
  | [], _ => 0
  | p :: g, vis => (if vis.contains p.1 then 0 else p.2.length) + unvisW g vis

theorem unvisW_mono (g : Graph) (vis : List Nat) (n : Nat) :
    unvisW g (vis ++ [n]) ≤ unvisW g vis := by
  induction g with
  | nil => simp [unvisW]
  | cons p g ih =>
    simp only [unvisW]
    by_cases h : p.1 ∈ vis
    · have h1 : vis.contains p.1 = true := by simpa using h
      have h2 : (vis ++ [n]).contains p.1 = true := by simp [h]
      simp only [h1, h2, if_true]; omega
    · have h1 : vis.contains p.1 = false := by simpa using h
      simp only [h1, Bool.false_eq_true, if_false]
      split <;> omega

theorem unvisW_add (g : Graph) (vis : List Nat) (n : Nat) (hn : n ∉ vis) :
    unvisW g (vis ++ [n]) + (adj g n).length ≤ unvisW g vis := by
  induction g with
  | nil => simp [unvisW, adj_nil]
  | cons p g ih =>
    simp only [unvisW, adj_cons]
    by_cases hp : p.1 = n
    · subst hp
      have h1 : vis.contains p.1 = false := by simpa using hn
      have h2 : (vis ++ [p.1]).contains p.1 = true := by simp
      have := unvisW_mono g vis p.1
      simp only [h1, h2, if_true, Bool.false_eq_true, if_false]; omega
    · have h2 : (vis ++ [n]).contains p.1 = vis.contains p.1 := by
        simp [hp]
      simp only [h2, hp, if_false]
      omega

theorem unvisW_nil (g : Graph) : unvisW g [] = (targets g).length := by
  induction g with
  | nil => rfl
  | cons p g ih =>
    simp only [unvisW, targets, List.flatMap_cons, List.length_append] at *
    simp [ih]

theorem Star.head {E : Nat → Nat → Prop} {a b c : Nat} (h : E a b) (h2 : Star E b c) :
    Star E a c :=
  Star.trans (Star.step (Star.refl a) h) h2

theorem dfsLoop_correct (g : Graph) : ∀ (f : Nat) (stack vis : List Nat),
    stack.length + unvisW g vis < f →
    ∃ l, dfsLoop g f stack vis = some l ∧ (∀ x ∈ vis, x ∈ l) ∧
      (∀ x ∈ l, x ∈ vis ∨ ∃ n ∈ stack, Star (AnyEdge g) n x) ∧
      ((∀ v ∈ vis, ∀ w ∈ adj g v, w ∈ vis ∨ w ∈ stack) → ∀ v ∈ l, ∀ w ∈ adj g v, w ∈ l) := by
  intro f
  induction f with
  | zero => intro _ _ h; omega
  | succ f ih =>
    intro stack vis hlen
    cases stack with
    | nil =>
      refine ⟨vis, rfl, fun _ h => h, fun _ h => Or.inl h, ?_⟩
      intro hc v hv w hw
      rcases hc v hv w hw with h | h
      · exact h
      · simp at h
    | cons n st =>
      simp only [dfsLoop]
      by_cases hn : n ∈ vis
      · have hb : vis.contains n = true := by simpa using hn
        simp only [hb, if_true]
        obtain ⟨l, h1, h2, h3, h4⟩ := ih st vis (by simp only [List.length_cons] at hlen; omega)
        refine ⟨l, h1, h2, ?_, ?_⟩
        · intro x hx
          rcases h3 x hx with h | ⟨m, hm, hs⟩
          · exact Or.inl h
          · exact Or.inr ⟨m, List.mem_cons_of_mem _ hm, hs⟩
        · intro hc
          apply h4
          intro v hv w hw
          rcases hc v hv w hw with h | h
          · exact Or.inl h
          · rcases List.mem_cons.1 h with h | h
            · exact Or.inl (h ▸ hn)
            · exact Or.inr h
      · have hb : vis.contains n = false := by simpa using hn
        simp only [hb, Bool.false_eq_true, if_false]
        have hm := unvisW_add g vis n hn
        obtain ⟨l, h1, h2, h3, h4⟩ := ih (adj g n ++ st) (vis ++ [n])
          (by simp only [List.length_cons, List.length_append] at hlen ⊢; omega)
        refine ⟨l, h1, fun x hx => h2 x (by simp [hx]), ?_, ?_⟩
        · intro x hx
          rcases h3 x hx with h | ⟨m, hm, hs⟩
          · rcases List.mem_append.1 h with h | h
            · exact Or.inl h
            · have : x = n := by simpa using h
              subst this
              exact Or.inr ⟨x, by simp, Star.refl _⟩
          · rcases List.mem_append.1 hm with hm | hm
            · exact Or.inr ⟨n, by simp, Star.head hm hs⟩
            · exact Or.inr ⟨m, List.mem_cons_of_mem _ hm, hs⟩
        · intro hc
          apply h4
          intro v hv w hw
          rcases List.mem_append.1 hv with hv | hv
          · rcases hc v hv w hw with h | h
            · exact Or.inl (by simp [h])
            · rcases List.mem_cons.1 h with h | h
              · exact Or.inl (by simp [h])
              · exact Or.inr (by simp [h])
          · have : v = n := by simpa using hv
            subst this
            exact Or.inr (by simp [hw])

theorem reachAny_of_star {g : Graph} {s n x : Nat} (hn : n ∈ adj g s)
    (h : Star (AnyEdge g) n x) : ReachAny g s x := by
  induction h with
  | refl => exact ReachAny.one hn
  | step _ he ih => exact ReachAny.step ih he

/-- `dfs` answers (for every graph, well-formed or not), with exactly the vertices other
    than the source that are reachable from it in one or more steps -/
theorem dfs_correct (g : Graph) (s : Nat) :
    ∃ l, dfs g s = some l ∧ ∀ n, n ∈ l ↔ n ≠ s ∧ ReachAny g s n := by
  have hfuel : (adj g s).length + unvisW g [s] < dfsFuel g := by
    have := unvisW_add g [] s (by simp)
    rw [unvisW_nil] at this
    simp only [List.nil_append] at this
    unfold dfsFuel; omega
  obtain ⟨l, h1, h2, h3, h4⟩ := dfsLoop_correct g (dfsFuel g) (adj g s) [s] hfuel
  refine ⟨l.filter (· != s), by simp [dfs, h1], ?_⟩
  intro n
  simp only [List.mem_filter, bne_iff_ne, ne_eq]
  constructor
  · rintro ⟨hn, hne⟩
    refine ⟨hne, ?_⟩
    rcases h3 n hn with h | ⟨m, hm, hs⟩
    · exact absurd (by simpa using h) hne
    · exact reachAny_of_star hm hs
  · rintro ⟨hne, hr⟩
    refine ⟨?_, hne⟩
    have hcl := h4 (by
      intro v hv w hw
      have : v = s := by simpa using hv
      subst this; exact Or.inr hw)
    have hs : s ∈ l := h2 s (by simp)
    clear hne
    induction hr with
    | one h => exact hcl _ hs _ h
    | step _ h ih => exact hcl _ ih _ h

end Heph.Graph
