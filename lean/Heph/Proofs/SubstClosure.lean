import Heph.Proofs.SubstNew
/-!
# `get_supertypes()` of an instance contains every declared super-instance (helper lemmas of C07)
-/
namespace Heph.Ty

theorem closure_eq (t : Ty) : closure t = t :: closureL t.sups := by
  cases t <;> simp [closure, sups, closureL]

theorem self_mem_closure (t : Ty) : t ∈ closure t := by
  rw [closure_eq]; simp

theorem mem_closureL {u : Ty} : ∀ {l : List Ty}, u ∈ closureL l ↔ ∃ s ∈ l, u ∈ closure s
  | [] => by simp [closureL]
  | x :: xs => by
      simp only [closureL, List.mem_append, @mem_closureL u xs, List.mem_cons, exists_eq_or_imp]

theorem mem_closure_iff {u t : Ty} : u ∈ closure t ↔ u = t ∨ ∃ s ∈ t.sups, u ∈ closure s := by
  rw [closure_eq, List.mem_cons, mem_closureL]

mutual
theorem closure_trans : ∀ (t u : Ty), u ∈ closure t → ∀ v ∈ closure u, v ∈ closure t
  | builtin c n nt p ss, u, hu, v, hv => by
      rw [mem_closure_iff] at hu
      rcases hu with rfl | ⟨s, hs, hus⟩
      · exact hv
      · exact mem_closure_iff.2 (Or.inr ⟨s, hs, closureL_trans ss s hs u hus v hv⟩)
  | simple n ss, u, hu, v, hv => by
      rw [mem_closure_iff] at hu
      rcases hu with rfl | ⟨s, hs, hus⟩
      · exact hv
      · exact mem_closure_iff.2 (Or.inr ⟨s, hs, closureL_trans ss s hs u hus v hv⟩)
  | tcon c n ps ss, u, hu, v, hv => by
      rw [mem_closure_iff] at hu
      rcases hu with rfl | ⟨s, hs, hus⟩
      · exact hv
      · exact mem_closure_iff.2 (Or.inr ⟨s, hs, closureL_trans ss s hs u hus v hv⟩)
  | param n con as ss, u, hu, v, hv => by
      rw [mem_closure_iff] at hu
      rcases hu with rfl | ⟨s, hs, hus⟩
      · exact hv
      · exact mem_closure_iff.2 (Or.inr ⟨s, hs, closureL_trans ss s hs u hus v hv⟩)
  | tparam .., u, hu, v, hv => by
      simp only [closure, List.mem_singleton] at hu; subst hu; exact hv
  | wild .., u, hu, v, hv => by
      simp only [closure, List.mem_singleton] at hu; subst hu; exact hv
  | nothing, u, hu, v, hv => by
      simp only [closure, List.mem_singleton] at hu; subst hu; exact hv
  | ext _, u, hu, v, hv => by
      simp only [closure, List.mem_singleton] at hu; subst hu; exact hv
theorem closureL_trans : ∀ (l : List Ty) (s : Ty), s ∈ l →
    ∀ u ∈ closure s, ∀ v ∈ closure u, v ∈ closure s
  | [], s, hs, _, _, _, _ => by simp at hs
  | x :: xs, s, hs, u, hu, v, hv => by
      simp only [List.mem_cons] at hs
      rcases hs with rfl | hs
      · exact closure_trans _ u hu v hv
      · exact closureL_trans xs s hs u hu v hv
end

theorem sups_mem_closure {t u v : Ty} (hu : u ∈ closure t) (hv : v ∈ u.sups) : v ∈ closure t :=
  closure_trans t u hu v (mem_closure_iff.2 (Or.inr ⟨v, hv, self_mem_closure v⟩))

theorem stripCon_instConS (c : Ty) (m : TMap) : stripCon (instConS c m) = stripCon c := by
  cases c <;> simp [instConS, stripCon]

/-- every declared super-instance of `con<args>` is present in `get_supertypes()` of
    `con.new(args)`, with the syntactically substituted arguments and supertypes -/
theorem superInst_mem_closure (con : Ty) (args : List Ty) (h : hasTVL args = false)
    (hcl : closedCon con = true) (hlen : (conParams con).length ≤ args.length)
    {c' : Ty} {as' : List Ty} (hsi : SuperInst con args c' as') :
    hasTVL as' = false ∧ closedCon c' = true ∧ (conParams c').length ≤ as'.length ∧
    ∃ u ∈ closure (tconNew con args), u.isParam = true ∧ stripCon (conOf u) = stripCon c' ∧
      argsOf u = as' ∧ u.sups = conSups (instConS c' (TMap.mk (conParams c') as')) := by
  induction hsi with
  | refl =>
    refine ⟨h, hcl, hlen, tconNew con args, self_mem_closure _, ?_, ?_, ?_, ?_⟩
    · rw [tconNew_eq]; rfl
    · rw [tconNew_eq]; rfl
    · rw [tconNew_eq]; rfl
    · rw [conSups_instConS]; exact tconNew_sups_eq con args h hcl hlen
  | @step c' as' nm c'' bs ss _ hd ih =>
    obtain ⟨htv, hcl', hlen', u, hu, _, _, _, hus⟩ := ih
    have hm := TMap.mk_pres (hasTV · = false) (conParams c') as' (hasTVL_false_mem htv)
    have hcov := TMap.mk_covers (conParams c') as' hlen'
    have hw := supsWithin_mem (closedCon_supsWithin c' hcl') hd
    simp only [tvarsWithin, Bool.and_eq_true, decide_eq_true_eq] at hw
    obtain ⟨⟨ha, hc⟩, hl⟩ := hw
    have htv' := hasTVL_substSL _ hm _ hcov bs ha
    have hl' : (conParams c'').length ≤ (substSL (TMap.mk (conParams c') as') bs).length := by
      rw [length_substSL]; exact hl
    have hv : substS (TMap.mk (conParams c') as') (param nm c'' bs ss) ∈ u.sups := by
      rw [hus, conSups_instConS, instSupsS_eq_map, List.mem_map]
      exact ⟨_, hd, by simp [isParam]⟩
    refine ⟨htv', hc, hl', _, sups_mem_closure hu hv, ?_, ?_, ?_, ?_⟩
    · simp only [substS, isParam]
    · simp only [substS, conOf, stripCon_instConS]
    · simp only [substS, argsOf]
    · simp only [substS, sups]

end Heph.Ty
