import Heph.Model.Inst
import Heph.Proofs.SubD2Sound
/-!
# Lemmas about the leaf functions of the instantiation helpers and about `instOK`
-/
namespace Heph.Inst
open Heph Heph.Ty Heph.Ty.D2

/-! ## `_get_available_types` -/

theorem mem_availableTypes (conName : Option String) (types : List Item) (primitives : Bool) (out : Item) :
    out ∈ availableTypes conName types true primitives ↔
      ∃ it ∈ types, availableStep (conName == some "Array") primitives it = some out := by
  simp [availableTypes, List.mem_filterMap]

theorem availableStep_cls {isArray primitives : Bool} {it : Item} {ct : Nat} {t : Ty}
    (h : availableStep isArray primitives it = some (.cls ct t)) : it = .cls ct t ∧ ct = 0 := by
  unfold availableStep at h
  split at h
  · cases h
  · split at h
    · split at h
      · cases h
      · rename_i hc
        cases h
        exact ⟨rfl, by simpa using hc⟩
    · split at h
      · cases h
      · split at h
        · split at h <;> cases h
        · cases h

theorem availableStep_ty {isArray primitives : Bool} {it : Item} {t' : Ty} {box' : Option Ty}
    (h : availableStep isArray primitives it = some (.ty t' box')) :
    ∃ t box, it = .ty t box ∧ t.isTCon = false ∧
      (isArray = true → t.isTVar = false ∧ t.isParam = false) ∧
      (primitives = false → t' = box.getD t) ∧ (primitives = true → t' = t ∧ box' = box) := by
  unfold availableStep at h
  split at h
  · cases h
  · rename_i hfa
    split at h
    · split at h <;> cases h
    · rename_i t box
      split at h
      · cases h
      · rename_i htc
        refine ⟨t, box, rfl, by simpa using htc, ?_, ?_⟩
        · intro ha
          subst ha
          cases h1 : t.isTVar <;> cases h2 : t.isParam <;> simp_all [forbiddenInArray]
        · split at h
          · rename_i hp
            have hp' : primitives = false := by simpa using hp
            split at h
            · cases h; exact ⟨fun _ => rfl, fun hc => by rw [hp'] at hc; cases hc⟩
            · cases h; exact ⟨fun _ => rfl, fun hc => by rw [hp'] at hc; cases hc⟩
          · rename_i hp
            have hp' : primitives = true := by simpa using hp
            cases h
            exact ⟨fun hc => (by rw [hp'] at hc; cases hc), fun _ => ⟨rfl, rfl⟩⟩

/-! ## `update_type_var_bound_rec` -/

theorem TMap.get_set (m : TMap) (k v k' : Ty) :
    (TMap.set m k v).get k' = m.get k' ∨ (TMap.set m k v).get k' = some v := by
  have key : ∀ ps : TMap,
      TMap.get (ps.map fun p => if beq p.1 k then (p.1, v) else p) k' = TMap.get ps k' ∨
      TMap.get (ps.map fun p => if beq p.1 k then (p.1, v) else p) k' = some v := by
    intro ps
    induction ps with
    | nil => left; rfl
    | cons p ps ih =>
      simp only [TMap.get, List.map_cons, List.find?_cons] at ih ⊢
      by_cases hk : beq p.1 k = true
      · simp only [hk, if_true]
        by_cases hk' : beq p.1 k' = true
        · simp [hk']
        · simp only [hk']
          exact ih
      · simp only [hk, Bool.false_eq_true, if_false]
        by_cases hk' : beq p.1 k' = true
        · simp [hk']
        · simp only [hk']
          exact ih
  unfold TMap.set
  split
  · exact key m
  · simp only [TMap.get, List.find?_append]
    cases hf : List.find? (fun p => beq p.1 k') m with
    | some x => left; simp
    | none =>
      by_cases hk' : beq k k' = true
      · right; simp [hk']
      · left; simp [hk']

/-- the assignment of `b` is `t` itself or (by the code's own `is_subtype`) a supertype of `t` -/
def ChainOK (t : Ty) (m : TMap) (b : Ty) : Prop :=
  ∃ c, m.get b = some c ∧ (c = t ∨ isSubtype t c = .yes)

theorem ChainOK_set {t : Ty} {m : TMap} {b : Ty} (k : Ty) (h : ChainOK t m b) : ChainOK t (TMap.set m k t) b := by
  obtain ⟨c, hc, hcc⟩ := h
  rcases TMap.get_set m k t b with h' | h'
  · exact ⟨c, h'.trans hc, hcc⟩
  · exact ⟨t, h', Or.inl rfl⟩

theorem TMap.get_set_self_of_get (m : TMap) (k v c : Ty) (h : m.get k = some c) :
    (TMap.set m k v).get k = some v := by
  have hany : m.any (fun p => beq p.1 k) = true := by
    simp only [TMap.get, Option.map_eq_some_iff] at h
    obtain ⟨p, hp, _⟩ := h
    have h3 : beq p.1 k = true := List.find?_some (p := fun q : Ty × Ty => beq q.1 k) hp
    exact List.any_eq_true.2 ⟨p, List.mem_of_find?_eq_some hp, h3⟩
  unfold TMap.set
  rw [if_pos hany]
  clear h
  induction m with
  | nil => simp at hany
  | cons p ps ih =>
    simp only [TMap.get, List.map_cons, List.find?_cons]
    by_cases hk : beq p.1 k = true
    · simp [hk]
    · simp only [hk, Bool.false_eq_true, if_false]
      have hps : ps.any (fun p => beq p.1 k) = true := by simpa [hk] using hany
      simpa [TMap.get] using ih hps

/-- updates only ever write `t`: what was fine stays fine -/
theorem updateBoundRec_preserves (tp t : Ty) (targs : List Ty) (idx : List (Ty × Nat)) (m : TMap) :
    ∀ targs' m', updateBoundRec tp t targs idx m = .ok targs' m' → ∀ k, ChainOK t m k → ChainOK t m' k := by
  fun_induction updateBoundRec tp t targs idx m with
  | case1 => intro targs' m' h k hk; cases h; exact hk
  | case2 => intro targs' m' h; cases h
  | case3 _ _ _ _ _ _ _ _ _ _ _ ih => intro targs' m' h k hk; exact ih _ _ h k hk
  | case4 _ _ _ _ _ _ _ _ _ _ _ _ ih => intro targs' m' h k hk; exact ih _ _ h k hk
  | case5 _ _ _ _ _ _ _ _ _ _ _ _ _ _ ih => intro targs' m' h k hk; exact ih _ _ h k (ChainOK_set _ hk)
  | case6 => intro targs' m' h; cases h
  | case7 => intro targs' m' h; cases h
  | case8 => intro targs' m' h k hk; cases h; exact hk

theorem boundChain_cons {name : String} {var : Nat} {bound : Ty} (h : ¬(!bound.isTVar) = true) :
    boundChain (tparam name var (some bound)) = bound :: boundChain bound := by
  have : bound.isTVar = true := by simpa using h
  simp [boundChain, this]

/-- after the call, every assignment along the bound chain `T3 : T2 : T1` of the parameter is
    the new type `t` itself or a supertype of it — provided the chain variables are parameters
    of the list being instantiated (`indexes` knows them; otherwise the code leaves the
    assignment alone, see the comment at the `except KeyError`) -/
theorem updateBoundRec_chain_aux (tp t : Ty) (targs : List Ty) (idx : List (Ty × Nat)) (m : TMap) :
    (∀ b ∈ boundChain tp, (idxGet idx b).isSome = true) →
    ∀ targs' m', updateBoundRec tp t targs idx m = .ok targs' m' → ∀ b ∈ boundChain tp, ChainOK t m' b := by
  fun_induction updateBoundRec tp t targs idx m with
  | case1 name var bound t targs idx m hn =>
    intro _ targs' m' _ b hb
    have : bound.isTVar = false := by simpa using hn
    simp [boundChain, this] at hb
  | case2 => intro _ targs' m' h; cases h
  | case3 name var bound t targs idx m hn cur hget hsub ih =>
    intro hidx targs' m' h b hb
    rw [boundChain_cons hn] at hb hidx
    rcases List.mem_cons.1 hb with rfl | hb'
    · exact updateBoundRec_preserves _ _ _ _ _ _ _ h _ ⟨cur, hget, Or.inr hsub⟩
    · exact ih (fun x hx => hidx x (List.mem_cons_of_mem _ hx)) _ _ h b hb'
  | case4 name var bound t targs idx m hn cur hget hsub hnone ih =>
    intro hidx
    rw [boundChain_cons hn] at hidx
    have := hidx bound (by simp)
    rw [hnone] at this
    cases this
  | case5 name var bound t targs idx m hn cur hget hsub i hi hlt ih =>
    intro hidx targs' m' h b hb
    rw [boundChain_cons hn] at hb hidx
    rcases List.mem_cons.1 hb with rfl | hb'
    · exact updateBoundRec_preserves _ _ _ _ _ _ _ h _ ⟨t, TMap.get_set_self_of_get _ _ _ _ hget, Or.inl rfl⟩
    · exact ih (fun x hx => hidx x (List.mem_cons_of_mem _ hx)) _ _ h b hb'
  | case6 => intro _ targs' m' h; cases h
  | case7 => intro _ targs' m' h; cases h
  | case8 t x targs idx m hne =>
    intro _ targs' m' _ b hb
    cases t <;> simp [boundChain] at hb

/-! ## `instOK` -/

/-- the declarative reading of "the argument `a` respects the (substituted) bound `b'`" -/
def Within (U : Ty → Prop) (top a b' : Ty) : Prop :=
  (∃ v, a = wild v none) ∨ (∃ v, b' = wild v none) ∨
  (∃ v y, b' = wild v (some y) ∧ (beq y top = true ∨ SubT U (argCore a) y)) ∨
  (isWild b' = false ∧ (beq b' top = true ∨ SubT U (argCore a) b'))

theorem withinD_sound {U : Ty → Prop} (hU : ClosedU U) {top a b' : Ty} (ua : U (argCore a)) (ub : U b')
    (h : withinD top a b' = true) : Within U top a b' := by
  unfold withinD at h
  split at h
  · rename_i v ha
    exact Or.inl ⟨v, asProj_some ha⟩
  · split at h
    · rename_i v hb
      exact Or.inr (Or.inl ⟨v, asProj_some hb⟩)
    · rename_i v y hb
      have eb := asProj_some hb
      subst eb
      refine Or.inr (Or.inr (Or.inl ⟨v, y, rfl, ?_⟩))
      simp only [Bool.or_eq_true] at h
      rcases h with h | h
      · exact Or.inl h
      · exact Or.inr (isSubDTop_sound hU ua (closedU_wild hU ub) h)
    · rename_i hb
      refine Or.inr (Or.inr (Or.inr ⟨asProj_none hb, ?_⟩))
      simp only [Bool.or_eq_true] at h
      rcases h with h | h
      · exact Or.inl h
      · exact Or.inr (isSubDTop_sound hU ua ub h)

theorem instOKL_mem {I : InstIn} {σ : TMap} : ∀ {ps : List Ty}, instOKL I σ ps = true →
    ∀ p ∈ ps, ∃ a others, σ.get p = some a ∧ instOK1 I σ p others a = true := by
  intro ps
  induction ps with
  | nil => intro _ p hp; cases hp
  | cons q qs ih =>
    intro h p hp
    simp only [instOKL, Bool.and_eq_true] at h
    rcases List.mem_cons.1 hp with rfl | hp'
    · cases hg : σ.get p with
      | none => rw [hg] at h; simp at h
      | some a => rw [hg] at h; exact ⟨a, qs, rfl, h.1⟩
    · exact ih h.2 p hp'

end Heph.Inst
