import Heph.Proofs.MutationEq
import Heph.Spec.Mutation
/-!
# The slot classification of the overwrite diff

`classify a b = some (f, old, new)` (the change of one slot is a permitted overwrite): `old` is
what the field `f` held in `a`, and it differs from `new`; for the type-argument fields the new
argument list is the old one with exactly the position `i` replaced.
-/
namespace Heph.Mut
open Heph

theorem argDiffs_nil : ∀ (xs ys : List Ty) (i : Nat), argDiffs xs ys i = some [] → xs = ys
  | [], [], _, _ => rfl
  | [], _ :: _, _, h => by simp [argDiffs] at h
  | _ :: _, [], _, h => by simp [argDiffs] at h
  | x :: xs, y :: ys, i, h => by
    simp only [argDiffs] at h
    cases hr : argDiffs xs ys (i + 1) with
    | none => rw [hr] at h; cases h
    | some r =>
      rw [hr] at h
      simp only at h
      by_cases hxy : tyEq x y = true
      · simp only [hxy, if_true, Option.some.injEq] at h
        subst h
        rw [tyEq_iff.1 hxy, argDiffs_nil xs ys (i + 1) hr]
      · simp [hxy] at h

theorem argDiffs_one : ∀ (xs ys : List Ty) (i j : Nat) (o n : Ty),
    argDiffs xs ys i = some [(j, o, n)] →
      i ≤ j ∧ ys = setArg xs (j - i) n ∧ xs[j - i]? = some o ∧ o ≠ n
  | [], [], _, _, _, _, h => by simp [argDiffs] at h
  | [], _ :: _, _, _, _, _, h => by simp [argDiffs] at h
  | _ :: _, [], _, _, _, _, h => by simp [argDiffs] at h
  | x :: xs, y :: ys, i, j, o, n, h => by
    simp only [argDiffs] at h
    cases hr : argDiffs xs ys (i + 1) with
    | none => rw [hr] at h; cases h
    | some r =>
      rw [hr] at h
      simp only at h
      by_cases hxy : tyEq x y = true
      · simp only [hxy, if_true, Option.some.injEq] at h
        subst h
        obtain ⟨h1, h2, h3, h4⟩ := argDiffs_one xs ys (i + 1) j o n hr
        have hj : j - i = (j - (i + 1)) + 1 := by omega
        refine ⟨by omega, ?_, ?_, h4⟩
        · rw [hj, tyEq_iff.1 hxy, h2]; simp [setArg]
        · rw [hj]; simpa using h3
      · have hxy' : tyEq x y = false := by simpa using hxy
        simp only [hxy', Bool.false_eq_true, if_false, Option.some.injEq, List.cons.injEq, Prod.mk.injEq] at h
        obtain ⟨⟨rfl, rfl, rfl⟩, rfl⟩ := h
        have := argDiffs_nil xs ys (i + 1) hr
        subst this
        refine ⟨Nat.le_refl _, by simp [setArg], by simp, ?_⟩
        intro he
        rw [he, tyEq_refl] at hxy'
        cases hxy'

/-- what `classify` accepts: the replaced type is the old content of the field, and differs
    from the new one -/
theorem classify_old {a b : Slot} {f : Field} {old new : Ty} (h : classify a b = some (f, old, new)) :
    slotOld f a = some old ∧ old ≠ new := by
  unfold classify at h
  split at h
  · rename_i x old' n1 n2
    split at h
    · rename_i hc
      simp only [Option.some.injEq, Prod.mk.injEq] at h
      obtain ⟨rfl, rfl, rfl⟩ := h
      simp only [Bool.and_eq_true, Bool.not_eq_true', ] at hc
      refine ⟨rfl, ?_⟩
      intro he
      rw [he, tyEq_refl] at hc
      exact absurd hc.2 (by simp)
    · cases h
  · rename_i x old' n1 n2
    split at h
    · rename_i hc
      simp only [Option.some.injEq, Prod.mk.injEq] at h
      obtain ⟨rfl, rfl, rfl⟩ := h
      simp only [Bool.and_eq_true, Bool.not_eq_true'] at hc
      refine ⟨rfl, ?_⟩
      intro he
      rw [he, tyEq_refl] at hc
      exact absurd hc.2 (by simp)
    · cases h
  · rename_i n1 c1 as s1 ci n2 c2 as' s2 ci'
    split at h
    · rename_i i o n hd
      simp only [Option.some.injEq, Prod.mk.injEq] at h
      obtain ⟨rfl, rfl, rfl⟩ := h
      obtain ⟨_, _, h3, h4⟩ := argDiffs_one _ _ _ _ _ _ hd
      exact ⟨by simpa [slotOld] using h3, h4⟩
    · cases h
  · rename_i ta ci ta' ci'
    split at h
    · rename_i i o n hd
      simp only [Option.some.injEq, Prod.mk.injEq] at h
      obtain ⟨rfl, rfl, rfl⟩ := h
      obtain ⟨_, _, h3, h4⟩ := argDiffs_one _ _ _ _ _ _ hd
      exact ⟨by simpa [slotOld] using h3, h4⟩
    · cases h
  · cases h

end Heph.Mut
