import Heph.Proofs.PickleLoadCont
/-! `load ∘ dump` (C13): strings, classes (STACK_GLOBAL), instances (NEWOBJ … BUILD), reductions
(REDUCE … SETITEMS … BUILD). -/
namespace Heph.Pickle

variable {hr : String → String → Bool} {h : Heap} {g : Nat → Option Nat} {opn : Nat → Prop} {st : DState} {L : LState}

/-! ## saving a string / a class touches no other memo entry -/

theorem get_memoize_ne (st : DState) {a b : Nat} (hne : b ≠ a) : (st.memoize a).get b = st.get b := by
  simp only [DState.get, DState.memoize]
  rw [Array.getElem?_setIfInBounds_ne (Ne.symm hne)]

theorem save_str_get {m : Val} {s : String} {fuel : Nat} {st st1 : DState} (hs : strOf h m = some s)
    (hsave : save h fuel m st = some st1) :
    ∀ b o, h[b]? = some o → (∀ s, o ≠ .str s) → st1.get b = st.get b := by
  intro b o hb hns
  cases m with
  | ref bm =>
    cases hbm : h[bm]? with
    | none => simp [strOf, hbm] at hs
    | some om =>
      cases om <;> simp [strOf, hbm] at hs
      rename_i s0
      cases fuel with
      | zero => simp [save] at hsave
      | succ fuel =>
        simp only [save] at hsave
        cases hg : st.get bm with
        | some i =>
          simp only [hg, Option.some.injEq] at hsave
          subst hsave
          rfl
        | none =>
          simp only [hg, hbm, Option.some.injEq] at hsave
          subst hsave
          have hne : b ≠ bm := by
            intro e
            subst e
            rw [hbm] at hb
            exact hns s0 (Option.some.inj hb).symm
          rw [get_memoize_ne _ hne]
          rfl
  | _ => simp [strOf] at hs

theorem save_cls_get {c : Val} {p : String × String} {fuel : Nat} {st st1 : DState} (hs : clsName h c = some p)
    (hsave : save h fuel c st = some st1) :
    ∀ b o, h[b]? = some o → (∀ s, o ≠ .str s) → (∀ m q, o ≠ .global m q) → st1.get b = st.get b := by
  intro b o hb hns hng
  cases c with
  | ref bc =>
    cases hbc : h[bc]? with
    | none => simp [clsName, hbc] at hs
    | some oc =>
      cases oc <;> simp [clsName, hbc] at hs
      rename_i m q
      cases hm : strOf h m with
      | none => simp [hm] at hs
      | some ms =>
        cases hq : strOf h q with
        | none => simp [hm, hq] at hs
        | some qs =>
          cases fuel with
          | zero => simp [save] at hsave
          | succ fuel =>
            simp only [save] at hsave
            cases hg : st.get bc with
            | some i =>
              simp only [hg, Option.some.injEq] at hsave
              subst hsave
              rfl
            | none =>
              have hck : cellOK h (.global m q) = true := by simp [cellOK, hm, hq]
              simp only [hg, hbc, hck, if_true] at hsave
              split at hsave
              · cases hsave
              rename_i st2 h2
              split at hsave
              · cases hsave
              rename_i st3 h3
              simp only [Option.some.injEq] at hsave
              subst hsave
              have hne : b ≠ bc := by
                intro e
                subst e
                rw [hbc] at hb
                exact hng m q (Option.some.inj hb).symm
              rw [get_memoize_ne _ hne, get_emit, save_str_get hq h3 b o hb hns, save_str_get hm h2 b o hb hns]
  | _ => simp [clsName] at hs

/-! ## the kinds -/

/-- a string: the op-code, MEMOIZE -/
theorem save_str_load {fuel : Nat} (I : Inv hr h g opn st L) {a : Nat} {s : String}
    {st' : DState} (hget : st.get a = none) (ho : h[a]? = some (.str s))
    (hsave : save h (fuel + 1) (.ref a) st = some st') :
    ∃ g' L' v', Sub hr h opn g L g' st' L' ∧ L'.stack = v' :: L.stack ∧ ValRel g' (.ref a) v' := by
  simp only [save, hget, ho, Option.some.injEq] at hsave
  subst hsave
  obtain ⟨L2, hext, I2, hm2, hh2, hstk2⟩ :=
    I.alloc_done (op := .str s) (L1 := L.alloc (.str s)) (o' := .str s) (S := L.stack) rfl rfl rfl rfl hget ho rfl
  exact ⟨_, L2, _, ⟨hext, I2, hm2, hh2⟩, hstk2, upd_self _ _ _⟩

/-- a class: module name, qualified name, STACK_GLOBAL, MEMOIZE -/
theorem save_global_load {fuel : Nat} (ih : SaveOK hr h fuel) (I : Inv hr h g opn st L) {a : Nat} {m q : Val}
    {st' : DState} (hget : st.get a = none) (ho : h[a]? = some (.global m q))
    (hsave : save h (fuel + 1) (.ref a) st = some st') :
    ∃ g' L' v', Sub hr h opn g L g' st' L' ∧ L'.stack = v' :: L.stack ∧ ValRel g' (.ref a) v' := by
  have hok : cellOK h (.global m q) = true := by
    simp only [save, hget, ho] at hsave
    split at hsave
    · assumption
    · cases hsave
  simp only [save, hget, ho, hok, if_true] at hsave
  simp only [cellOK, Bool.and_eq_true, Option.isSome_iff_exists] at hok
  obtain ⟨⟨ms, hms⟩, ⟨qs, hqs⟩⟩ := hok
  split at hsave
  · cases hsave
  rename_i st1 h1
  split at hsave
  · cases hsave
  rename_i st2 h2
  simp only [Option.some.injEq] at hsave
  subst hsave
  obtain ⟨g1, L1, m1, s1, hstk1, hm1⟩ := ih m g opn st L st1 I h1
  obtain ⟨g2, L2, q2, s2, hstk2, hq2⟩ := ih q g1 opn st1 L1 st2 s1.inv h2
  have hgn : st2.get a = none := by
    rw [save_str_get hqs h2 a _ ho (by simp), save_str_get hms h1 a _ ho (by simp)]
    exact hget
  have hs : step hr L2 .stackGlobal = some ({ L2 with stack := L.stack }.alloc (.global m1 q2)) := by
    simp only [step, hstk2, hstk1, s2.inv.strOf (hm1.mono s2.ext) hms, s2.inv.strOf hq2 hqs]
  have hext' := Ext.upd (s2.inv.g_none hgn) L2.heap.size
  obtain ⟨L3, hext3, I3, hm3, hh3, hstk3⟩ :=
    s2.inv.alloc_done (o := .global m q) (o' := .global m1 q2) (S := L.stack) hs rfl rfl rfl hgn ho
      (by simp only [ObjRel]; exact ⟨(hm1.mono s2.ext).mono hext', hq2.mono hext'⟩)
  exact ⟨_, L3, _, ⟨(s1.ext.trans s2.ext).trans hext3, I3, hm3.trans (s2.metas.trans s1.metas),
    (s1.hext.trans s2.hext).trans hh3⟩, hstk3, upd_self _ _ _⟩

theorem HeapExt.set_ge {H H' : Heap} (he : HeapExt H H') {a' : Nat} (hge : H.size ≤ a') (o : Obj) :
    HeapExt H (H'.setIfInBounds a' o) :=
  ⟨by simpa using he.1, fun b hb => by
    rw [Array.getElem?_setIfInBounds_ne (by omega)]; exact he.2 b hb⟩

/-- the optional `state BUILD` tail of an instance / a reduction whose cell `a'` is in progress -/
theorem state_build_load {fuel : Nat} (ih : SaveOK hr h fuel) {a a' : Nat} {o : Obj} {state : Option Val}
    {mk : Option Val → Obj} {S : List Val} {st' : DState}
    (I : Inv hr h g (fun b => opn b ∨ b = a) st L) (hg : g a = some a') (ho : h[a]? = some o)
    (hopen : o.openable = true) (hcell : L.heap[a']? = some (mk none)) (hstk : L.stack = .ref a' :: S)
    (hbuild : ∀ (L1 : LState) (s' : Val), L1.stack = s' :: .ref a' :: S → L1.heap[a']? = some (mk none) →
      step hr L1 .build = some ({ L1 with stack := .ref a' :: S }.setObj a' (mk (some s'))))
    (hsave : (match state with
      | none => some st
      | some s => (save h fuel s st).map (·.emit .build)) = some st') :
    ∃ g' L' s', Ext g g' ∧ Inv hr h g' (fun b => opn b ∨ b = a) st' L' ∧ L'.stack = .ref a' :: S ∧
      L'.metas = L.metas ∧ L'.heap[a']? = some (mk s') ∧ OptValRel g' state s' ∧ HeapExtX a' L.heap L'.heap := by
  cases state with
  | none =>
    simp only [Option.some.injEq] at hsave
    subst hsave
    exact ⟨g, L, none, Ext.refl g, I, hstk, rfl, hcell, trivial, HeapExtX.refl _ _⟩
  | some s =>
    simp only [Option.map_eq_some_iff] at hsave
    obtain ⟨st1, h1, rfl⟩ := hsave
    obtain ⟨g1, L1, s1', s1, hstk1, hs1⟩ := ih s g _ st L st1 I h1
    have hcell1 : L1.heap[a']? = some (mk none) := s1.hext.get hcell
    have hs := hbuild L1 s1' (by rw [hstk1, hstk]) hcell1
    have I2 := s1.inv.emit_set hs rfl (s1.ext a a' hg) ho (Or.inr rfl) hopen rfl
    refine ⟨g1, _, some s1', s1.ext, I2, rfl, s1.metas, ?_, hs1, ?_⟩
    · show (L1.heap.setIfInBounds a' _)[a']? = _
      exact get_set_self hcell1
    · exact (s1.hext.toX a').trans (HeapExtX.set _ _ _)

/-- an instance: class, `()`, NEWOBJ, MEMOIZE, then (if it has a `__dict__`) the state and BUILD -/
theorem save_inst_load {fuel : Nat} (ih : SaveOK hr h fuel) (I : Inv hr h g opn st L) {a : Nat} {cls : Val}
    {state : Option Val} {st' : DState} (hget : st.get a = none) (ho : h[a]? = some (.inst cls state))
    (hsave : save h (fuel + 1) (.ref a) st = some st') :
    ∃ g' L' v', Sub hr h opn g L g' st' L' ∧ L'.stack = v' :: L.stack ∧ ValRel g' (.ref a) v' := by
  have hok : cellOK h (.inst cls state) = true := by
    simp only [save, hget, ho] at hsave
    split at hsave
    · assumption
    · cases hsave
  simp only [save, hget, ho, hok, if_true] at hsave
  simp only [cellOK, Option.isSome_iff_exists] at hok
  obtain ⟨p, hp⟩ := hok
  split at hsave
  · cases hsave
  rename_i st1 h1
  obtain ⟨g1, L1, c1, s1, hstk1, hc1⟩ := ih cls g opn st L st1 I h1
  have hgn : (st1.emit (.tupleN 0)).get a = none := by
    rw [get_emit, save_cls_get hp h1 a _ ho (by simp) (by simp)]
    exact hget
  have I1u := s1.inv.push (op := .tupleN 0) (v := .unit) rfl
  have hs : step hr (L1.push .unit) .newobj = some ({ L1 with stack := L.stack }.alloc (.inst c1 none)) := by
    simp only [step, LState.push, hstk1, s1.inv.clsName hc1 hp]
  obtain ⟨L2, hext2, I2, hm2, hh2, hstk2, hcell2⟩ :=
    I1u.alloc_open (o' := .inst c1 none) (S := L.stack) hs rfl rfl rfl hgn ho rfl
  obtain ⟨g3, L3, s3, hext3, I3, hstk3, hm3, hcell3, hrel3, hX3⟩ :=
    state_build_load (mk := fun s => .inst c1 s) ih I2 (upd_self _ _ _) ho rfl hcell2 hstk2
      (fun L1 s' hstk hcell => by simp only [step, hstk, hcell]) hsave
  have hga := hext3 _ _ (upd_self g1 a L1.heap.size)
  have I4 := I3.close hga ho hcell3
    (by simp only [ObjRel]; exact ⟨(hc1.mono hext2).mono hext3, hrel3⟩)
  exact ⟨g3, L3, _, ⟨(s1.ext.trans hext2).trans hext3, I4, hm3.trans (hm2.trans s1.metas),
    s1.hext.trans (HeapExt.transX hh2 hX3)⟩, hstk3, hga⟩

/-- a reduction (OrderedDict): callee, `()`, REDUCE, MEMOIZE, the items, then (if any) the state and BUILD -/
theorem save_reduced_load {fuel : Nat} (ih : SaveOK hr h fuel) (I : Inv hr h g opn st L) {a : Nat} {callee : Val}
    {kvs : List (Val × Val)} {state : Option Val} {st' : DState} (hget : st.get a = none)
    (ho : h[a]? = some (.reduced callee kvs state))
    (hsave : save h (fuel + 1) (.ref a) st = some st') :
    ∃ g' L' v', Sub hr h opn g L g' st' L' ∧ L'.stack = v' :: L.stack ∧ ValRel g' (.ref a) v' := by
  have hok : cellOK h (.reduced callee kvs state) = true := by
    simp only [save, hget, ho] at hsave
    split at hsave
    · assumption
    · cases hsave
  simp only [save, hget, ho, hok, if_true] at hsave
  simp only [cellOK, Option.isSome_iff_exists] at hok
  obtain ⟨p, hp⟩ := hok
  split at hsave
  · cases hsave
  rename_i st1 h1
  split at hsave
  · cases hsave
  rename_i st2 h2
  obtain ⟨g1, L1, c1, s1, hstk1, hc1⟩ := ih callee g opn st L st1 I h1
  have hgn : (st1.emit (.tupleN 0)).get a = none := by
    rw [get_emit, save_cls_get hp h1 a _ ho (by simp) (by simp)]
    exact hget
  have I1u := s1.inv.push (op := .tupleN 0) (v := .unit) rfl
  have hs : step hr (L1.push .unit) .reduce = some ({ L1 with stack := L.stack }.alloc (.reduced c1 [] none)) := by
    simp only [step, LState.push, hstk1, s1.inv.clsName hc1 hp]
  obtain ⟨L2, hext2, I2, hm2, hh2, hstk2, hcell2⟩ :=
    I1u.alloc_open (o' := .reduced c1 [] none) (S := L.stack) hs rfl rfl rfl hgn ho rfl
  obtain ⟨g3, L3, new, hext3, I3, hstk3, hm3, hcell3, hrel3, hX3⟩ :=
    saveItems_load (ER := PairRel) (mk := fun kvs => .reduced c1 kvs none) (fun _ _ _ _ he hv => PairRel.mono he hv)
      (elemOK_pair ih _) (reduced_multi c1 _ L.stack L.metas) (fun _ => reduced_single c1 _ L.stack) (Or.inr rfl) ho rfl
      kvs 0 _ _ L2 st2 [] [] I2 (upd_self _ _ _) hcell2 (form_start _ _ _ _ _ hstk2 (hm2.trans s1.metas)) h2
  simp only [List.append_nil, List.nil_append] at hcell3
  have hga3 := hext3 _ _ (upd_self g1 a L1.heap.size)
  obtain ⟨g4, L4, s4, hext4, I4, hstk4, hm4, hcell4, hrel4, hX4⟩ :=
    state_build_load (mk := fun s => .reduced c1 new s) ih I3 hga3 ho rfl hcell3 hstk3
      (fun L1 s' hstk hcell => by simp only [step, hstk, hcell]) hsave
  have hga := hext4 _ _ hga3
  have I5 := I4.close hga ho hcell4
    (by simp only [ObjRel]
        exact ⟨((hc1.mono hext2).mono hext3).mono hext4, hrel3.imp fun _ _ => PairRel.mono hext4, hrel4⟩)
  exact ⟨g4, L4, _, ⟨((s1.ext.trans hext2).trans hext3).trans hext4, I5, hm4.trans hm3,
    s1.hext.trans (HeapExt.transX hh2 (hX3.trans hX4))⟩, hstk4, hga⟩

end Heph.Pickle
