import Heph.Proofs.UnifyMap
import Heph.Proofs.TypesSound
/-!
# Soundness of the model of `unify_types` (C10)

Induction on the fuel, simultaneously for `unifyF` and the argument loop `unifyArgs`.  The loop
invariant speaks about *every extension* `σ` of the dict (`ExtOK`), which makes the matching
judgement trivially stable under the later updates of the dict.
-/
namespace Heph
namespace Unify
open Heph.Ty

variable {U : Ty → Prop} {fac : Option Ty}

/-- `σ` is a functional map over the universe that keeps every binding of `u` -/
def ExtOK (U : Ty → Prop) (u σ : UMap) : Prop := Ext u σ ∧ KeysIn U σ ∧ Functional σ

theorem ExtOK.self {u : UMap} (h : MapOK U fac u) : ExtOK U u u := ⟨Ext.refl _, h.keys, h.func⟩

theorem ExtOK.of_ext {m u σ : UMap} (h1 : Ext m u) (h2 : ExtOK U u σ) : ExtOK U m σ :=
  ⟨h1.trans h2.1, h2.2.1, h2.2.2⟩

theorem get_of_extOK (hU : UnivOK U fac) {u σ : UMap} (h : ExtOK U u σ) {k w : Ty} (uk : U k)
    (hm : (k, some w) ∈ u) : σ.get k = some (some w) :=
  (get_iff_mem hU h.2.1 h.2.2 uk _).2 (h.1 k w hm)

theorem isSubtype_subT (hU : UnivOK U fac) {s t : Ty} (us : U s) (ut : U t)
    (h : isSubtype s t = .yes) : SubT U s t :=
  (sound_all hU.closed (fuelFor s t)).1 s t us ut (hU.regular s us) (hU.regular t ut) h

theorem lastSup_true {t t' : Ty} (h : LastSup true t t') : t' = t := by
  cases h; rfl

/-! ## `has_type_variables` with and without the `NotImplementedError` -/

theorem hasTVEL_hasTVL {l : List Ty} (ih : ∀ x ∈ l, ∀ b, hasTVE x = some b → hasTV x = b) :
    ∀ b, hasTVEL l = some b → hasTVL l = b := by
  induction l with
  | nil => intro b h; simp [hasTVEL] at h; simp [hasTVL, h]
  | cons x xs ihl =>
    intro b h
    simp only [hasTVEL] at h
    have hx := ih x List.mem_cons_self
    have hxs := ihl (fun y hy => ih y (List.mem_cons_of_mem _ hy))
    cases hx' : hasTVE x with
    | none => rw [hx'] at h; cases h
    | some bx =>
      rw [hx'] at h
      have := hx bx hx'
      cases bx with
      | true =>
        simp at h
        simp [hasTVL, this, ← h]
      | false =>
        simp at h
        simp [hasTVL, this, hxs b h]

theorem hasTVE_hasTV : ∀ (t : Ty) (b : Bool), hasTVE t = some b → hasTV t = b := by
  intro t
  induction t using ind' with
  | hb c nm nt p ss _ => intro b h; simp [hasTVE] at h; simp [hasTV, h]
  | hs nm ss _ => intro b h; simp [hasTVE] at h; simp [hasTV, h]
  | htp nm v bd _ => intro b h; simp [hasTVE] at h; simp [hasTV, h]
  | hw v bd ih =>
    intro b h
    cases bd with
    | none => simp [hasTVE] at h; simp [hasTV, hasTVO, h]
    | some x => simp only [hasTVE] at h; simp only [hasTV, hasTVO]; exact ih x rfl b h
  | htc c nm ps ss _ _ => intro b h; simp [hasTVE] at h; simp [hasTV, h]
  | hp nm con as ss _ ih _ =>
    intro b h
    simp only [hasTVE] at h
    simp only [hasTV]
    exact hasTVEL_hasTVL ih b h
  | hn => intro b h; simp [hasTVE] at h
  | he c => intro b h; simp [hasTVE] at h

/-! ## the type-variable cases -/

theorem varFinal_ok (hU : UnivOK U fac) {t p : Ty} (ut : U t) (up : U p) {u : UMap}
    (h : varFinal fac t p = .ok u) (hne : u ≠ []) :
    u = [(p, some t)] ∧ BoundOK1 U fac p t := by
  unfold varFinal at h
  split at h
  · rename_i hg
    injection h with h
    exact ⟨h.symm, Or.inr (Or.inl hg)⟩
  · rename_i b hg
    cases hs : isSubtype t b <;> rw [hs] at h <;> simp only [ofRes] at h
    · injection h with h
      have ub := hU.boundRec p b up hg
      exact ⟨h.symm, Or.inr (Or.inr ⟨b, Or.inr hg, Or.inl (isSubtype_subT hU ut ub hs)⟩)⟩
    · injection h with h; exact absurd h.symm hne
    all_goals cases h
  · cases h
  · cases h

theorem varCase_ok (hU : UnivOK U fac) {t p : Ty} (ut : U t) (up : U p) {u : UMap}
    (h : varCase fac t p = .ok u) (hne : u ≠ []) :
    u = [(p, some t)] ∧ BoundOK1 U fac p t := by
  unfold varCase at h
  split at h
  · rename_i htv
    split at h
    · cases h
    · cases h
    · rename_i b1 hg1
      split at h
      · cases h
      · cases h
      · rename_i hg2
        injection h with h
        exact ⟨h.symm, Or.inr (Or.inl hg2)⟩
      · rename_i b2 hg2
        split at h
        · exact varFinal_ok hU ut up h hne
        · rename_i b1'
          cases hs : isSubtype b1' b2 <;> rw [hs] at h <;> simp only [ofRes] at h
          · injection h with h
            have ub2 := hU.boundRec p b2 up hg2
            have ub1 := hU.boundRec t b1' ut hg1
            exact ⟨h.symm, Or.inr (Or.inr ⟨b2, Or.inr hg2,
              Or.inr ⟨htv, b1', hg1, isSubtype_subT hU ub1 ub2 hs⟩⟩)⟩
          · exact varFinal_ok hU ut up h hne
          all_goals cases h
  · exact varFinal_ok hU ut up h hne

/-! ## the head of the loop body -/

/-- what `unwrapProj` hands on, given the variant's hypothesis on the pair -/
theorem unwrap_go {v : Variant} {a b : Ty} {a' : Option Ty} {b2 : Ty}
    (hc : hypOf v a b = true) (h : unwrapProj v a b = .go a' (some b2)) :
    (isWild b = false ∧ a' = some a ∧ b2 = b) ∨
    (∃ vr a1, a = wild vr (some a1) ∧ b = wild vr (some b2) ∧ a' = some a1) := by
  unfold unwrapProj at h
  split at h
  · cases h
  · split at h
    · rename_i hnot hbw
      -- both are wildcards
      have haw : isWild a = true := by
        cases hw : isWild a with
        | true => rfl
        | false => simp [hbw, hw] at hnot
      cases a with
      | wild va ba =>
        cases b with
        | wild vb bb =>
          right
          cases v with
          | asIs =>
            simp only [hypOf, chkVariance, chkStar, isWild, wildVar, boundOf, Bool.and_self,
              Bool.not_true, Bool.false_or, Bool.and_eq_true] at hc
            simp only [boundOf] at h
            injection h with h1 h2
            obtain ⟨hv, hsa, hsb⟩ := hc
            obtain ⟨a1, rfl⟩ := Option.isSome_iff_exists.1 hsa
            have hv' : va = vb := by simpa using hv
            subst hv' h2
            exact ⟨va, a1, rfl, rfl, h1.symm⟩
          | repaired =>
            by_cases hvv : va = vb
            · subst hvv
              cases ba with
              | none => cases bb <;> simp [wildVar, boundOf] at h
              | some a1 =>
                cases bb with
                | none => simp [wildVar, boundOf] at h
                | some b1 =>
                  simp [wildVar, boundOf] at h
                  obtain ⟨h1, h2⟩ := h
                  subst h2
                  exact ⟨va, a1, rfl, rfl, h1.symm⟩
            · simp [wildVar, hvv] at h
        | _ => simp [isWild] at hbw
      | _ => simp [isWild] at haw
    · rename_i _ hbw
      injection h with h1 h2
      injection h2 with h2
      left
      refine ⟨by simpa using hbw, h1.symm, h2.symm⟩

theorem unwrap_skip {v : Variant} {a b : Ty} (h : unwrapProj v a b = .skip) :
    ∃ vr, a = wild vr none ∧ b = wild vr none := by
  unfold unwrapProj at h
  split at h
  · cases h
  · split at h
    · rename_i hnot hbw
      have haw : isWild a = true := by
        cases hw : isWild a with
        | true => rfl
        | false => simp [hbw, hw] at hnot
      cases v with
      | asIs => cases h
      | repaired =>
        cases a with
        | wild va ba =>
          cases b with
          | wild vb bb =>
            by_cases hvv : va = vb
            · subst hvv
              cases ba with
              | none =>
                cases bb with
                | none => exact ⟨va, rfl, rfl⟩
                | some b1 => simp [wildVar, boundOf] at h
              | some a1 => cases bb <;> simp [wildVar, boundOf] at h
            · simp [wildVar, hvv] at h
          | _ => simp [isWild] at hbw
        | _ => simp [isWild] at haw
    · cases h

/-- from a match of the unwrapped pair to a match of the two arguments -/
theorem wrapArg {strict : Bool} {σ : UMap} {a b a1 b2 : Ty}
    (hd : (isWild b = false ∧ a1 = a ∧ b2 = b) ∨
          (∃ vr, a = wild vr (some a1) ∧ b = wild vr (some b2)))
    (h : Matches strict σ a1 b2) : MatchesArg strict σ a b := by
  rcases hd with ⟨hw, rfl, rfl⟩ | ⟨vr, rfl, rfl⟩
  · exact MatchesArg.plain hw h
  · exact MatchesArg.proj h

theorem wrapSame {strict : Bool} {σ : UMap} {a b a1 b2 : Ty}
    (hd : (isWild b = false ∧ a1 = a ∧ b2 = b) ∨
          (∃ vr, a = wild vr (some a1) ∧ b = wild vr (some b2)))
    (h1 : hasTV b2 = false) (h2 : beq a1 b2 = true) : MatchesArg strict σ a b := by
  rcases hd with ⟨_, rfl, rfl⟩ | ⟨vr, rfl, rfl⟩
  · exact MatchesArg.same h1 h2
  · exact MatchesArg.same (by simpa [hasTV, hasTVO] using h1) (by simp [beq, beqO, h2])

theorem unwrapPair_of {a b a1 b2 : Ty}
    (hd : (isWild b = false ∧ a1 = a ∧ b2 = b) ∨
          (∃ vr, a = wild vr (some a1) ∧ b = wild vr (some b2))) :
    unwrapPair a b = some (a1, b2) := by
  rcases hd with ⟨hw, rfl, rfl⟩ | ⟨vr, rfl, rfl⟩
  · simp [unwrapPair, hw]
  · simp [unwrapPair, isWild, boundOf]

theorem univ_of {a b a1 b2 : Ty} (hU : UnivOK U fac) (ua : U a) (ub : U b)
    (hd : (isWild b = false ∧ a1 = a ∧ b2 = b) ∨
          (∃ vr, a = wild vr (some a1) ∧ b = wild vr (some b2))) : U a1 ∧ U b2 := by
  rcases hd with ⟨_, rfl, rfl⟩ | ⟨vr, rfl, rfl⟩
  · exact ⟨ua, ub⟩
  · exact ⟨closedU_wild hU.closed ua, closedU_wild hU.closed ub⟩

/-! ## the simultaneous statement -/

def SoundF (U : Ty → Prop) (fac : Option Ty) (v : Variant) (bn : List (String × String)) (f : Nat) : Prop :=
  ∀ st t p u, U t → U p → allMetF f (hypOf v) t p = true →
    unifyF f v bn fac st t p = .ok u → u ≠ [] →
    MapOK U fac u ∧ ∃ t', LastSup st t t' ∧ ∀ σ, ExtOK U u σ → Matches false σ t' p

def SoundA (U : Ty → Prop) (fac : Option Ty) (v : Variant) (bn : List (String × String)) (f : Nat) : Prop :=
  ∀ as bs m u, (∀ a ∈ as, U a) → (∀ b ∈ bs, U b) → MapOK U fac m →
    allMetL f (hypOf v) as bs = true → unifyArgs f v bn fac as bs m = .ok u → u ≠ [] →
    MapOK U fac u ∧ Ext m u ∧ ∀ σ, ExtOK U u σ → MatchesL false σ as bs

theorem soundF_step (hU : UnivOK U fac) {v : Variant} {bn : List (String × String)} {f : Nat}
    (ihF : SoundF U fac v bn f) (ihA : SoundA U fac v bn f) : SoundF U fac v bn (f + 1) := by
  intro st t p u ut up hall h hne
  simp only [allMetF, Bool.and_eq_true] at hall
  obtain ⟨hall1, hall2⟩ := hall
  simp only [unifyF] at h
  split at h
  · injection h with h; exact absurd h.symm hne
  · split at h
    · rename_i hcond
      have hst : st = false := by
        cases st with
        | false => rfl
        | true => simp at hcond
      subst hst
      split at h
      · injection h with h; exact absurd h.symm hne
      · rename_i s hs
        rw [hs] at hall1
        have us : U s := closedU_sups hU.closed ut s (List.mem_of_getLast? hs)
        obtain ⟨hm, t', hl, hσ⟩ := ihF false s p u us up hall1 h hne
        exact ⟨hm, t', LastSup.up hs hl, hσ⟩
    · split at h
      · -- `t2` is a type variable
        rename_i hptv
        obtain ⟨hu, hb⟩ := varCase_ok hU ut up h hne
        subst hu
        have hm : MapOK U fac [(p, some t)] := by
          refine ⟨?_, ?_, ?_, ?_, ?_⟩
          · intro e he; simp at he; rw [he]; exact up
          · intro k w hkw; simp at hkw; rw [hkw.2]; exact ut
          · exact List.pairwise_singleton _ _
          · intro k w hkw; simp at hkw; rw [hkw.1, hkw.2]; exact hb
          · intro e he; simp at he; rw [he]; rfl
        refine ⟨hm, t, LastSup.here, ?_⟩
        intro σ hσ
        exact Matches.var hptv (get_of_extOK hU hσ up (by simp)) (hU.refl t ut)
      · -- instantiations
        cases t with
        | param nm con as ss =>
          cases p with
          | param nm' con' bs ss' =>
            dsimp only at h hall2
            split at h
            · injection h with h; exact absurd h.symm hne
            · rename_i hcon
              have hbeq : beq con con' = true := by simpa using hcon
              have uas := closedU_args hU.closed ut
              have ubs := closedU_args hU.closed up
              obtain ⟨hm, _, hσ⟩ := ihA as bs [] u uas ubs MapOK.nil hall2 h hne
              exact ⟨hm, _, LastSup.here, fun σ hs => Matches.app hbeq (hσ σ hs)⟩
          | _ => cases h
        | _ => injection h with h; exact absurd h.symm hne

theorem soundA_step (hU : UnivOK U fac) {v : Variant} {bn : List (String × String)} {f : Nat}
    (ihF : SoundF U fac v bn f) (ihA : SoundA U fac v bn f) : SoundA U fac v bn (f + 1) := by
  intro as bs m u uas ubs hm hall h hne
  cases as with
  | nil =>
    simp only [unifyArgs] at h
    injection h with h
    subst h
    exact ⟨hm, Ext.refl _, fun σ _ => MatchesL.nil⟩
  | cons a as' =>
    cases bs with
    | nil => simp only [unifyArgs] at h; cases h
    | cons b bs' =>
      have ua : U a := uas a List.mem_cons_self
      have ub : U b := ubs b List.mem_cons_self
      have uas' : ∀ x ∈ as', U x := fun x hx => uas x (List.mem_cons_of_mem _ hx)
      have ubs' : ∀ x ∈ bs', U x := fun x hx => ubs x (List.mem_cons_of_mem _ hx)
      simp only [allMetL, Bool.and_eq_true] at hall
      obtain ⟨⟨hchk, hrec⟩, hrest⟩ := hall
      -- the common way to go on with the rest of the lists
      have cont : ∀ m', MapOK U fac m' → Ext m m' →
          (∀ σ, ExtOK U m' σ → MatchesArg false σ a b) →
          unifyArgs f v bn fac as' bs' m' = .ok u →
          MapOK U fac u ∧ Ext m u ∧ ∀ σ, ExtOK U u σ → MatchesL false σ (a :: as') (b :: bs') := by
        intro m' hm' hext harg hrun
        obtain ⟨hu, hext', hl⟩ := ihA as' bs' m' u uas' ubs' hm' hrest hrun hne
        exact ⟨hu, hext.trans hext', fun σ hσ =>
          MatchesL.cons (harg σ (ExtOK.of_ext hext' hσ)) (hl σ hσ)⟩
      simp only [unifyArgs] at h
      split at h
      · injection h with h; exact absurd h.symm hne
      · -- skip (repaired code: two star projections)
        rename_i hsk
        obtain ⟨vr, rfl, rfl⟩ := unwrap_skip hsk
        exact cont m hm (Ext.refl _)
          (fun σ _ => MatchesArg.same (by simp [hasTV, hasTVO]) (by simp [beq, beqO])) h
      · cases h
      · rename_i a' b2 hgo
        have hd0 := unwrap_go hchk hgo
        obtain ⟨a1, ha', hd⟩ : ∃ a1, a' = some a1 ∧
            ((isWild b = false ∧ a1 = a ∧ b2 = b) ∨
             (∃ vr, a = wild vr (some a1) ∧ b = wild vr (some b2))) := by
          rcases hd0 with ⟨hw, h1, h2⟩ | ⟨vr, a1, h1, h2, h3⟩
          · exact ⟨a, h1, Or.inl ⟨hw, rfl, h2⟩⟩
          · exact ⟨a1, h3, Or.inr ⟨vr, h1, h2⟩⟩
        subst ha'
        obtain ⟨ua1, ub2⟩ := univ_of hU ua ub hd
        rw [unwrapPair_of hd] at hrec
        simp only [Option.bind_some] at hrec
        split at h
        · cases h
        · -- no type variables in the pattern argument: compare
          rename_i hnotv
          have htv : hasTV b2 = false := hasTVE_hasTV b2 false hnotv
          split at h
          · rename_i hbeq
            have hbeq' : beq a1 b2 = true := by simpa [beqO] using hbeq
            exact cont m hm (Ext.refl _) (fun σ _ => wrapSame hd htv hbeq') h
          · injection h with h; exact absurd h.symm hne
        · -- the pattern argument has type variables
          cases b2 with
          | tparam nm vr obd =>
            cases obd with
            | some bd =>
              -- a bounded type variable
              dsimp only at h
              have ubd : U bd := closedU_tparam hU.closed ub2
              cases hs : isSubtype a1 bd <;> rw [hs] at h <;> simp only [ofRes] at h
              · -- the argument satisfies the bound: assign
                split at h
                · injection h with h; exact absurd h.symm hne
                · rename_i m' hup
                  have hb : BoundOK1 U fac (tparam nm vr (some bd)) a1 :=
                    Or.inr (Or.inr ⟨bd, Or.inl rfl, Or.inl (isSubtype_subT hU ua1 ubd hs)⟩)
                  obtain ⟨hm', hext, hin⟩ := updateMap_ok hU hm ub2 ua1 hb hup
                  exact cont m' hm' hext (fun σ hσ => wrapArg hd
                    (Matches.var rfl (get_of_extOK hU hσ ub2 hin) (hU.refl a1 ua1))) h
              · -- it does not: unify it with the (parameterized) bound
                split at h
                · rename_i hpp
                  simp only [Bool.and_eq_true] at hpp
                  simp only [recPair] at hrec
                  split at h
                  · rename_i res hres
                    split at h
                    · injection h with h; exact absurd h.symm hne
                    · rename_i hrne
                      have hrne' : res ≠ [] := by
                        intro hh; apply hrne; simp [hh]
                      split at h
                      · injection h with h; exact absurd h.symm hne
                      · rename_i m' hmerge
                        obtain ⟨hr, t', hl, hσr⟩ := ihF true a1 bd res ua1 ubd hrec hres hrne'
                        have ht' := lastSup_true hl
                        subst ht'
                        obtain ⟨hm', hext, hextr⟩ := mergeMap_ok hU res m m' hm hr hmerge
                        exact cont m' hm' hext (fun σ hσ => wrapArg hd
                          (Matches.openVar (by intro hh; cases hh) hpp.1 hpp.2
                            (hσr σ (ExtOK.of_ext hextr hσ)))) h
                  · rename_i hnok
                    exact (hnok _ h).elim
                · injection h with h; exact absurd h.symm hne
              all_goals cases h
            | none =>
              -- an unbounded type variable: assign
              dsimp only at h
              split at h
              · injection h with h; exact absurd h.symm hne
              · rename_i m' hup
                have hb : BoundOK1 U fac (tparam nm vr none) a1 := Or.inl rfl
                obtain ⟨hm', hext, hin⟩ := updateMap_ok hU hm ub2 ua1 hb hup
                exact cont m' hm' hext (fun σ hσ => wrapArg hd
                  (Matches.var rfl (get_of_extOK hU hσ ub2 hin) (hU.refl a1 ua1))) h
          | param nm' con' xs ss' =>
            -- an instantiation: recursive call
            dsimp only at h
            simp only [recPair] at hrec
            split at h
            · rename_i hpa
              split at h
              · rename_i res hres
                split at h
                · injection h with h; exact absurd h.symm hne
                · rename_i hrne
                  have hrne' : res ≠ [] := by
                    intro hh; apply hrne; simp [hh]
                  split at h
                  · injection h with h; exact absurd h.symm hne
                  · rename_i m' hmerge
                    obtain ⟨hr, t', hl, hσr⟩ := ihF true a1 _ res ua1 ub2 hrec hres hrne'
                    have ht' := lastSup_true hl
                    subst ht'
                    obtain ⟨hm', hext, hextr⟩ := mergeMap_ok hU res m m' hm hr hmerge
                    exact cont m' hm' hext (fun σ hσ => wrapArg hd
                      (hσr σ (ExtOK.of_ext hextr hσ))) h
              · rename_i hnok
                exact (hnok _ h).elim
            · injection h with h; exact absurd h.symm hne
          | _ => injection h with h; exact absurd h.symm hne

theorem sound_all (hU : UnivOK U fac) (v : Variant) (bn : List (String × String)) :
    ∀ f, SoundF U fac v bn f ∧ SoundA U fac v bn f := by
  intro f
  induction f with
  | zero =>
    constructor
    · intro st t p u _ _ _ h _; simp [unifyF] at h
    · intro as bs m u _ _ _ _ h _; simp [unifyArgs] at h
  | succ f ih => exact ⟨soundF_step hU ih.1 ih.2, soundA_step hU ih.1 ih.2⟩

end Unify
end Heph
