import Heph.Proofs.PickleLoadItems
/-! `load ∘ dump` (C13): what APPEND(S) / SETITEM(S) / ADDITEMS do, and the exact containers (list, dict, set). -/
namespace Heph.Pickle

variable {hr : String → String → Bool} {h : Heap} {g : Nat → Option Nat} {opn : Nat → Prop} {st : DState} {L : LState}

def flatV : Val → List Val := fun x => [x]
def flatP : Val × Val → List Val := fun p => [p.1, p.2]

theorem flatMap_flatV (cur : List Val) : cur.flatMap flatV = cur := by
  induction cur with
  | nil => rfl
  | cons x xs ih => simp [List.flatMap_cons, flatV, ih]

theorem pairs_flatP (cur : List (Val × Val)) : pairs (cur.flatMap flatP) = some cur := by
  induction cur with
  | nil => rfl
  | cons x xs ih =>
    simp only [List.flatMap_cons]
    show pairs (x.1 :: x.2 :: xs.flatMap flatP) = _
    simp only [pairs, ih]
    rfl

/-! ## the VM side of the batch / single op-codes -/

theorem list_multi (a' : Nat) (S : List Val) (M : List (List Val)) :
    MultiSpec hr flatV Obj.list .appends a' S M := by
  intro L cur ys hm hstk hcell
  have hpm := popMark_eq (L := L) hm
  refine ⟨({ L with stack := .ref a' :: S, metas := M } : LState).setObj a' (.list (ys ++ cur)), ?_, rfl, rfl, rfl, rfl⟩
  simp only [step, hpm, extendTop, hcell, hstk, List.reverse_reverse, flatMap_flatV]
  simp

theorem list_single (a' : Nat) (S : List Val) : SingleSpec hr flatV Obj.list .append a' S := by
  intro L x' ys hstk hcell
  simp only [flatV, List.reverse_cons, List.reverse_nil, List.nil_append, List.cons_append] at hstk
  refine ⟨({ L with stack := .ref a' :: S } : LState).setObj a' (.list (ys ++ [x'])), ?_, rfl, rfl, rfl, rfl⟩
  simp only [step, hstk, extendTop, hcell]
  simp

theorem set_multi (a' : Nat) (S : List Val) (M : List (List Val)) :
    MultiSpec hr flatV Obj.set .additems a' S M := by
  intro L cur ys hm hstk hcell
  have hpm := popMark_eq (L := L) hm
  refine ⟨{ ({ L with stack := .ref a' :: S, metas := M } : LState).setObj a' (.set (ys ++ cur)) with
      unready := L.unready + countUnbuilt hr L.heap cur }, ?_, rfl, rfl, rfl, rfl⟩
  simp only [step, hpm, extendTop, hcell, hstk, List.reverse_reverse, flatMap_flatV]
  simp

theorem dict_multi (a' : Nat) (S : List Val) (M : List (List Val)) :
    MultiSpec hr flatP Obj.dict .setitems a' S M := by
  intro L cur ys hm hstk hcell
  have hpm := popMark_eq (L := L) hm
  refine ⟨{ ({ L with stack := .ref a' :: S, metas := M } : LState).setObj a' (.dict (ys ++ cur)) with
      unready := L.unready + countUnbuilt hr L.heap (cur.map (·.1)) }, ?_, rfl, rfl, rfl, rfl⟩
  simp only [step, hpm, extendTop, hcell, hstk, List.reverse_reverse, pairs_flatP]
  simp

theorem dict_single (a' : Nat) (S : List Val) : SingleSpec hr flatP Obj.dict .setitem a' S := by
  intro L x' ys hstk hcell
  simp only [flatP, List.reverse_cons, List.reverse_nil, List.nil_append, List.cons_append] at hstk
  refine ⟨{ ({ L with stack := .ref a' :: S } : LState).setObj a' (.dict (ys ++ [x'])) with
      unready := L.unready + countUnbuilt hr L.heap [x'.1] }, ?_, rfl, rfl, rfl, rfl⟩
  simp only [step, hstk, extendTop, hcell, pairs]
  simp

theorem reduced_multi (c' : Val) (a' : Nat) (S : List Val) (M : List (List Val)) :
    MultiSpec hr flatP (fun kvs => Obj.reduced c' kvs none) .setitems a' S M := by
  intro L cur ys hm hstk hcell
  have hpm := popMark_eq (L := L) hm
  refine ⟨{ ({ L with stack := .ref a' :: S, metas := M } : LState).setObj a' (.reduced c' (ys ++ cur) none) with
      unready := L.unready + countUnbuilt hr L.heap (cur.map (·.1)) }, ?_, rfl, rfl, rfl, rfl⟩
  simp only [step, hpm, extendTop, hcell, hstk, List.reverse_reverse, pairs_flatP]
  simp

theorem reduced_single (c' : Val) (a' : Nat) (S : List Val) :
    SingleSpec hr flatP (fun kvs => Obj.reduced c' kvs none) .setitem a' S := by
  intro L x' ys hstk hcell
  simp only [flatP, List.reverse_cons, List.reverse_nil, List.nil_append, List.cons_append] at hstk
  refine ⟨{ ({ L with stack := .ref a' :: S } : LState).setObj a' (.reduced c' (ys ++ [x']) none) with
      unready := L.unready + countUnbuilt hr L.heap [x'.1] }, ?_, rfl, rfl, rfl, rfl⟩
  simp only [step, hstk, extendTop, hcell, pairs]
  simp

/-! ## writing one element -/

theorem elemOK_val {fuel : Nat} (ih : SaveOK hr h fuel) (opn : Nat → Prop) :
    ElemOK hr h opn flatV ValRel (fun x st => save h fuel x st) := by
  intro x g st L st' I hx
  obtain ⟨g1, L1, v1, s1, hstk1, hv1⟩ := ih x g opn st L st' I hx
  exact ⟨g1, L1, v1, s1, by simpa [flatV] using hstk1, hv1⟩

theorem elemOK_pair {fuel : Nat} (ih : SaveOK hr h fuel) (opn : Nat → Prop) :
    ElemOK hr h opn flatP PairRel (fun (p : Val × Val) st => (save h fuel p.1 st).bind (save h fuel p.2)) := by
  intro x g st L st' I hx
  cases hk : save h fuel x.1 st with
  | none => simp [hk] at hx
  | some st1 =>
    simp only [hk, Option.bind_some] at hx
    obtain ⟨g1, L1, k1, s1, hstk1, hk1⟩ := ih x.1 g opn st L st1 I hk
    obtain ⟨g2, L2, v2, s2, hstk2, hv2⟩ := ih x.2 g1 opn st1 L1 st' s1.inv hx
    refine ⟨g2, L2, (k1, v2), s1.trans s2, ?_, hk1.mono s2.ext, hv2⟩
    simp [flatP, hstk2, hstk1]

/-! ## putting a container together -/

theorem HeapExt.transX {H H0 H' : Heap} (h1 : HeapExt H H0) (h2 : HeapExtX H.size H0 H') : HeapExt H H' :=
  ⟨Nat.le_trans h1.1 h2.1, fun b hb => by
    rw [h2.2 b (Nat.lt_of_lt_of_le hb h1.1) (Nat.ne_of_lt hb), h1.2 b hb]⟩

theorem form_start {α : Type} (flat : α → List Val) (a' : Nat) (S : List Val) (M : List (List Val)) (xs : List α)
    {L : LState} (hstk : L.stack = .ref a' :: S) (hm : L.metas = M) :
    Form flat a' S M (0 % BATCH == 0 || xs.isEmpty) [] L := by
  simp only [Form, Nat.zero_mod, beq_self_eq_true, Bool.true_or, if_true]
  exact ⟨trivial, hstk, hm⟩

/-- a list: EMPTY_LIST MEMOIZE, then the elements -/
theorem save_list_load {fuel : Nat} (ih : SaveOK hr h fuel) (I : Inv hr h g opn st L) {a : Nat} {xs : List Val}
    {st' : DState} (hget : st.get a = none) (ho : h[a]? = some (.list xs))
    (hsave : save h (fuel + 1) (.ref a) st = some st') :
    ∃ g' L' v', Sub hr h opn g L g' st' L' ∧ L'.stack = v' :: L.stack ∧ ValRel g' (.ref a) v' := by
  simp only [save, hget, ho] at hsave
  obtain ⟨L0, hext0, I0, hm0, hh0, hstk0, hcell0⟩ :=
    I.alloc_open (op := .emptyList) (L1 := L.alloc (.list [])) (o' := .list []) (S := L.stack) rfl rfl rfl rfl hget ho rfl
  obtain ⟨g3, L3, new, hext3, I3, hstk3, hm3, hcell3, hrel3, hX3⟩ :=
    saveItems_load (ER := ValRel) (fun _ _ _ _ he hv => ValRel.mono he hv) (elemOK_val ih _) (list_multi _ L.stack L.metas)
      (fun _ => list_single _ L.stack) (Or.inr rfl) ho rfl xs 0 _ _ L0 st' [] [] I0 (upd_self _ _ _) hcell0
      (form_start _ _ _ _ _ hstk0 hm0) hsave
  have I4 := I3.close (hext3 _ _ (upd_self _ _ _)) ho hcell3 (by simpa [ObjRel] using hrel3)
  exact ⟨g3, L3, _, ⟨hext0.trans hext3, I4, hm3, hh0.transX hX3⟩, hstk3, hext3 _ _ (upd_self _ _ _)⟩

/-- a dict: EMPTY_DICT MEMOIZE, then the items -/
theorem save_dict_load {fuel : Nat} (ih : SaveOK hr h fuel) (I : Inv hr h g opn st L) {a : Nat}
    {xs : List (Val × Val)} {st' : DState} (hget : st.get a = none) (ho : h[a]? = some (.dict xs))
    (hsave : save h (fuel + 1) (.ref a) st = some st') :
    ∃ g' L' v', Sub hr h opn g L g' st' L' ∧ L'.stack = v' :: L.stack ∧ ValRel g' (.ref a) v' := by
  simp only [save, hget, ho, Option.map_eq_some_iff] at hsave
  obtain ⟨st2, hsave, rfl⟩ := hsave
  obtain ⟨L0, hext0, I0, hm0, hh0, hstk0, hcell0⟩ :=
    I.alloc_open (op := .emptyDict) (L1 := L.alloc (.dict [])) (o' := .dict []) (S := L.stack) rfl rfl rfl rfl hget ho rfl
  obtain ⟨g3, L3, new, hext3, I3, hstk3, hm3, hcell3, hrel3, hX3⟩ :=
    saveItems_load (ER := PairRel) (fun _ _ _ _ he hv => PairRel.mono he hv) (elemOK_pair ih _) (dict_multi _ L.stack L.metas)
      (fun _ => dict_single _ L.stack) (Or.inr rfl) ho rfl xs 0 _ _ L0 st2 [] [] I0 (upd_self _ _ _) hcell0
      (form_start _ _ _ _ _ hstk0 hm0) hsave
  obtain ⟨L4, I4, hstk4, hm4, hcell4, hX4⟩ :=
    trailingBatch_load (dict_multi _ L.stack L.metas) (Or.inr rfl) ho rfl I3 (hext3 _ _ (upd_self _ _ _)) hcell3 hstk3 hm3
      xs.length
  have I5 := I4.close (hext3 _ _ (upd_self _ _ _)) ho hcell4 (by simpa [ObjRel] using hrel3)
  exact ⟨g3, L4, _, ⟨hext0.trans hext3, I5, hm4, hh0.transX (hX3.trans hX4)⟩, hstk4, hext3 _ _ (upd_self _ _ _)⟩

/-- a set: EMPTY_SET MEMOIZE, then MARK elements ADDITEMS per batch -/
theorem save_set_load {fuel : Nat} (ih : SaveOK hr h fuel) (I : Inv hr h g opn st L) {a : Nat} {xs : List Val}
    {st' : DState} (hget : st.get a = none) (ho : h[a]? = some (.set xs))
    (hsave : save h (fuel + 1) (.ref a) st = some st') :
    ∃ g' L' v', Sub hr h opn g L g' st' L' ∧ L'.stack = v' :: L.stack ∧ ValRel g' (.ref a) v' := by
  simp only [save, hget, ho, Option.map_eq_some_iff] at hsave
  obtain ⟨st2, hsave, rfl⟩ := hsave
  obtain ⟨L0, hext0, I0, hm0, hh0, hstk0, hcell0⟩ :=
    I.alloc_open (op := .emptySet) (L1 := L.alloc (.set [])) (o' := .set []) (S := L.stack) rfl rfl rfl rfl hget ho rfl
  obtain ⟨g3, L3, new, hext3, I3, hstk3, hm3, hcell3, hrel3, hX3⟩ :=
    saveItems_load (ER := ValRel) (single := .additems) (fun _ _ _ _ he hv => ValRel.mono he hv) (elemOK_val ih _)
      (set_multi _ L.stack L.metas)
      (fun hex => by obtain ⟨i, hi⟩ := hex; simp [singleFormOK] at hi) (Or.inr rfl) ho rfl xs 0 _ _ L0 st2 [] [] I0
      (upd_self _ _ _) hcell0 (form_start _ _ _ _ _ hstk0 hm0) hsave
  obtain ⟨L4, I4, hstk4, hm4, hcell4, hX4⟩ :=
    trailingBatch_load (set_multi _ L.stack L.metas) (Or.inr rfl) ho rfl I3 (hext3 _ _ (upd_self _ _ _)) hcell3 hstk3 hm3
      xs.length
  have I5 := I4.close (hext3 _ _ (upd_self _ _ _)) ho hcell4 (by simpa [ObjRel] using hrel3)
  exact ⟨g3, L4, _, ⟨hext0.trans hext3, I5, hm4, hh0.transX (hX3.trans hX4)⟩, hstk4, hext3 _ _ (upd_self _ _ _)⟩

end Heph.Pickle
