import Heph.Proofs.TransJavaBalTy
/-! The hypotheses of the full balance theorem as propositions (`AtomsOK`, `EnvOK`: the Boolean
tests of `Spec/JavaBalance.lean`), and the first consequence: `type_utils.get_type_hint` answers
only well-formed types for well-formed programs, contexts and smart-cast stacks. -/
namespace Heph.TransJava
open Heph Heph.Ty
set_option linter.unusedSimpArgs false
set_option linter.unusedVariables false

/-- the hypotheses on the atoms of a program (`atomsOK`) -/
@[reducible] def AtomsOK (n : Node) : Prop := atomsOK n = true
@[reducible] def AtomsOKL (ns : List Node) : Prop := atomsOKL ns = true
/-- every declaration stored in the context has well-formed atoms (`envOK`) -/
@[reducible] def EnvOK (e : Env) : Prop := envOK e = true
/-- the smart-cast stack holds well-formed types -/
def SCOK (sc : SmartCasts) : Prop := ∀ p ∈ sc, WF p.2

instance (n : Node) : Decidable (AtomsOK n) := inferInstanceAs (Decidable (atomsOK n = true))
instance (ns : List Node) : Decidable (AtomsOKL ns) := inferInstanceAs (Decidable (atomsOKL ns = true))
instance (e : Env) : Decidable (EnvOK e) := inferInstanceAs (Decidable (envOK e = true))

/-- unfold the hypothesis `h : AtomsOK (constructor …)` into the conjunction of its parts -/
macro "atoms_unfold " h:ident : tactic =>
  `(tactic| (try unfold AtomsOK at $h:ident
             unfold atomsOK at $h:ident
             try simp only [Bool.and_eq_true] at $h:ident))

macro "wf_decide" : tactic => `(tactic| (show WF _; unfold WF; decide))

theorem AtomsOKL.mem {xs : List Node} (h : AtomsOKL xs) : ∀ x ∈ xs, AtomsOK x := by
  induction xs with
  | nil => intro x hx; cases hx
  | cons y ys ih =>
    unfold AtomsOKL at h
    simp only [atomsOKL, Bool.and_eq_true] at h
    intro x hx
    rcases List.mem_cons.mp hx with rfl | hx
    · exact h.1
    · exact ih h.2 x hx

theorem AtomsOKL.cons {x : Node} {xs : List Node} (h : AtomsOKL (x :: xs)) : AtomsOK x ∧ AtomsOKL xs := by
  unfold AtomsOKL at h
  simp only [atomsOKL, Bool.and_eq_true] at h
  exact h

theorem AtomsOKL.of_mem {xs : List Node} (h : ∀ x ∈ xs, AtomsOK x) : AtomsOKL xs := by
  induction xs with
  | nil => rfl
  | cons y ys ih =>
    unfold AtomsOKL
    simp only [atomsOKL, Bool.and_eq_true]
    exact ⟨h y (by simp), ih fun x hx => h x (by simp [hx])⟩

theorem AtomsOKL.optList {r : Option Node} (h : (match r with | some x => atomsOK x | none => true) = true) :
    AtomsOKL (optList r) := by
  cases r with
  | none => rfl
  | some x =>
    have h' : atomsOK x = true := h
    show atomsOKL [x] = true
    simp only [atomsOKL, h', Bool.and_self]

/-! ## the context -/

theorem EnvOK.entry {e : Env} (he : EnvOK e) {x : Entry} (hx : x ∈ e.entries) {d : Node} (hd : x.val = some d) :
    AtomsOK d := by
  unfold EnvOK envOK at he
  have := List.all_eq_true.mp he x hx
  rw [hd] at this
  exact this

theorem EnvOK.cur {e : Env} (he : EnvOK e) {ns : List String} {kind : String} {p : String × Option Node}
    (hp : p ∈ e.cur ns kind) {d : Node} (hd : p.2 = some d) : AtomsOK d := by
  simp only [Env.cur, List.mem_map, List.mem_filter] at hp
  obtain ⟨x, ⟨hx, _⟩, rfl⟩ := hp
  exact he.entry hx hd

theorem dictGet_mem {d : Dict} {k : String} {v : Option Node} (h : dictGet d k = some v) : ∃ p ∈ d, p.2 = v := by
  simp only [dictGet, Option.map_eq_some_iff] at h
  obtain ⟨p, hp, rfl⟩ := h
  exact ⟨p, List.mem_of_find?_eq_some hp, rfl⟩

theorem dictGet_join_mem {d : Dict} {k : String} {n : Node} (h : (dictGet d k).join = some n) :
    ∃ p ∈ d, p.2 = some n := by
  cases hg : dictGet d k with
  | none => simp [hg] at h
  | some v =>
    rw [hg] at h
    simp only [Option.join] at h
    obtain ⟨p, hp, hv⟩ := dictGet_mem hg
    exact ⟨p, hp, by rw [hv]; exact h⟩

theorem getDeclRev_ok {e : Env} (he : EnvOK e) (name : String) :
    ∀ (rns : List String) {dns : List String} {d : Node}, getDeclRev e name rns = some (dns, d) → AtomsOK d
  | [], _, _, h => by simp [getDeclRev] at h
  | x :: rest, dns, d, h => by
    simp only [getDeclRev] at h
    split at h
    · rename_i d' hd'
      obtain ⟨p, hp, hv⟩ := dictGet_join_mem hd'
      simp only [dropNone, List.mem_filter] at hp
      cases h
      exact he.cur hp.1 hv
    · exact getDeclRev_ok he name rest h

theorem getDecl_ok {e : Env} (he : EnvOK e) {ns : List String} {name : String} {dns : List String} {d : Node}
    (h : getDecl e ns name = some (dns, d)) : AtomsOK d := getDeclRev_ok he name _ h

theorem WF_tyVoid : WF tyVoid := by unfold WF; decide
theorem WF_tyBoolean : WF tyBoolean := by unfold WF; decide
theorem WF_tyChar : WF tyChar := by unfold WF; decide
theorem WF_tyString : WF tyString := by unfold WF; decide

theorem superType_ok {s : Node} (hs : AtomsOK s) {t : Ty} (h : superType s = some t) : WF t := by
  cases s with
  | superInst =>
    simp only [superType, Option.some.injEq] at h
    atoms_unfold hs
    rw [← h]; exact hs.1
  | _ => simp [superType] at h

/-- `decl.get_type()` of a well-formed declaration -/
theorem declType_ok {d : Node} (hd : AtomsOK d) : tyWFO (declType d) = true := by
  cases d with
  | classDecl name ct fin fields supers funcs tparams =>
    atoms_unfold hd
    obtain ⟨⟨⟨⟨hname, _⟩, hsup⟩, _⟩, htp⟩ := hd
    have hsts : ∀ x ∈ supers.filterMap superType, WF x := by
      intro x hx
      obtain ⟨s, hs, hst⟩ := List.mem_filterMap.mp hx
      exact superType_ok (AtomsOKL.mem hsup s hs) hst
    have htps := (WFL_iff tparams).1 htp
    simp only [declType]
    split
    · show WF (.simple name _)
      rw [WF_node]
      exact ⟨hname, hsts⟩
    · show WF (.tcon _ name tparams _)
      rw [WF_node]
      refine ⟨hname, ?_⟩
      intro c hc
      simp only [children, List.mem_append] at hc
      rcases hc with hc | hc
      · exact htps c hc
      · exact hsts c hc
  | varDecl => atoms_unfold hd; exact hd.2
  | paramDecl => atoms_unfold hd; exact hd.2
  | fieldDecl => atoms_unfold hd; exact hd.2
  | funcDecl => atoms_unfold hd; exact hd.1.1.2
  | lambda => atoms_unfold hd; exact hd.1.1.2
  | _ => rfl

theorem funcTParams_ok {d : Node} (hd : AtomsOK d) : ∀ t ∈ funcTParams d, WF t := by
  cases d with
  | funcDecl =>
    simp only [funcTParams]
    atoms_unfold hd
    exact (WFL_iff _).1 hd.2
  | _ => intro t ht; simp [funcTParams] at ht

/-- the parameter types of a well-formed function declaration -/
theorem funcParams_ok {d : Node} (hd : AtomsOK d) {nm : String} {pt : Ty} {va : Bool} {df : Option Node}
    (h : Node.paramDecl nm pt va df ∈ funcParams d) : WF pt := by
  cases d with
  | funcDecl =>
    simp only [funcParams] at h
    atoms_unfold hd
    have := AtomsOKL.mem hd.1.1.1.1.1.2 _ h
    atoms_unfold this
    exact this.2
  | _ => simp [funcParams] at h

/-! ## `_comp_type`, `_return_type_hint` -/

theorem findSome?_mem {α β : Type} {f : α → Option β} {l : List α} {b : β} (h : l.findSome? f = some b) :
    ∃ a ∈ l, f a = some b := by
  induction l with
  | nil => simp at h
  | cons x xs ih =>
    simp only [List.findSome?_cons] at h
    split at h
    · rename_i b' hb'
      cases h
      exact ⟨x, by simp, hb'⟩
    · obtain ⟨a, ha, hf⟩ := ih h
      exact ⟨a, by simp [ha], hf⟩

theorem declFromInheritance_ok {e : Env} (he : EnvOK e) {t : Ty} (ht : WF t) (name : String) {d : Node} {recT : Ty}
    (h : declFromInheritance e t name = .found d recT) : AtomsOK d ∧ WF recT := by
  unfold declFromInheritance at h
  simp only at h
  have look_ok : ∀ (l : List Ty), (∀ x ∈ l, WF x) → ∀ {d : Node} {st : Ty},
      l.findSome? (fun st => (getDecl e ["global", tyName st] name).map fun p => (p.2, st)) = some (d, st) →
      AtomsOK d ∧ WF st := by
    intro l hl d st hf
    obtain ⟨a, ha, hfa⟩ := findSome?_mem hf
    simp only [Option.map_eq_some_iff] at hfa
    obtain ⟨p, hp, hpe⟩ := hfa
    cases hpe
    exact ⟨getDecl_ok he (dns := p.1) (by rw [hp]), hl _ ha⟩
  split at h
  · rename_i d' st' hf
    cases h
    exact look_ok _ (fun x hx => ht.closure hx) hf
  · split at h
    · cases h
    · split at h
      · rename_i d' st' hf
        cases h
        refine look_ok _ ?_ hf
        intro x hx
        have hx := (List.mem_filter.mp hx).1
        obtain ⟨c, hc, hct⟩ := List.mem_filterMap.mp hx
        obtain ⟨p, hp, hpc⟩ := List.mem_filterMap.mp hc
        have hcok : AtomsOK c := he.cur hp hpc
        have hdt := declType_ok hcok
        cases c <;> simp only at hct <;> try cases hct
        split at hct
        · rw [hct] at hdt; exact hdt
        · cases hct
      · cases h

theorem mapWF_receiver {recT : Ty} (hrec : WF recT) : MapWF (match (generalizing := false) recT with
    | .param _ con args _ => Ty.TMap.mk (Ty.conParams con) args
    | _ => []) := by
  cases recT <;> first | exact MapWF.nil | exact MapWF.mk hrec.args

theorem compType_ok {e : Env} (he : EnvOK e) {t : Option Ty} (ht : tyWFO t = true) (name : String) {targs : List Ty}
    (hta : tyWFL targs = true) : tyWFO (compType e t name targs) = true := by
  unfold compType
  cases t with
  | none => rfl
  | some t =>
    simp only
    split
    · rfl
    · wf_decide
    · rename_i d recT hfound
      obtain ⟨hd, hrec⟩ := declFromInheritance_ok he ht name hfound
      have hdt := declType_ok hd
      split
      · wf_decide
      · rename_i dt hdt'
        rw [hdt'] at hdt
        split
        · show WF _
          apply WF.subst hdt
          have hm0 := mapWF_receiver hrec
          split
          · have hfold : ∀ (l : List (Ty × Ty)) (m : TMap), MapWF m → (∀ kv ∈ l, WF kv.2) →
                MapWF (l.foldl (fun m kv => Ty.TMap.set m kv.1 kv.2) m) := by
              intro l
              induction l with
              | nil => intro m hm _; exact hm
              | cons kv l ih =>
                intro m hm hl
                simp only [List.foldl_cons]
                exact ih _ (hm.set kv.1 (hl kv (by simp))) (fun kv' h => hl kv' (by simp [h]))
            apply hfold _ _ hm0
            intro kv hkv
            exact (WFL_iff targs).1 hta _ (List.of_mem_zip hkv).2
          · exact hm0
        · exact hdt

theorem returnHint_ok {e : Env} (he : EnvOK e) (names : List (String × List Ty))
    (hn : ∀ p ∈ names, tyWFL p.2 = true) {t : Option Ty} (ht : tyWFO t = true) :
    tyWFO (returnHint e names t) = true := by
  unfold returnHint
  have : ∀ (l : List (String × List Ty)), (∀ p ∈ l, tyWFL p.2 = true) → ∀ (t : Option Ty), tyWFO t = true →
      tyWFO (l.foldl (fun acc nt => compType e acc nt.1 nt.2) t) = true := by
    intro l
    induction l with
    | nil => intro _ t ht; exact ht
    | cons x xs ih =>
      intro hl t ht
      simp only [List.foldl_cons]
      exact ih (fun p hp => hl p (by simp [hp])) _ (compType_ok he ht x.1 (hl x (by simp)))
  exact this _ (fun p hp => hn p (by simpa using hp)) t ht

theorem smartCastGet_ok {sc : SmartCasts} (hsc : SCOK sc) {name : String} {t : Ty} (h : smartCastGet sc name = some t) :
    WF t := by
  simp only [smartCastGet, Option.map_eq_some_iff] at h
  obtain ⟨p, hp, rfl⟩ := h
  exact hsc p (by simpa using List.mem_of_find?_eq_some hp)

theorem getDecl_declType_ok {e : Env} (he : EnvOK e) (ns : List String) (name : String) :
    tyWFO ((getDecl e ns name).bind fun p => declType p.2) = true := by
  cases h : getDecl e ns name with
  | none => rfl
  | some p => exact declType_ok (getDecl_ok he (dns := p.1) (d := p.2) (by rw [h]))

theorem names_snoc {names : List (String × List Ty)} (hn : ∀ p ∈ names, tyWFL p.2 = true) {f : String} {ta : List Ty}
    (h : tyWFL ta = true) : ∀ p ∈ names ++ [(f, ta)], tyWFL p.2 = true := by
  intro p hp
  rcases List.mem_append.mp hp with hp | hp
  · exact hn p hp
  · simp only [List.mem_singleton] at hp; rw [hp]; exact h

/-! ## `get_type_hint` -/

mutual
theorem typeHint_ok {e : Env} (he : EnvOK e) (ns : List String) {sc : SmartCasts} (hsc : SCOK sc) :
    ∀ (n : Node) (names : List (String × List Ty)), (∀ p ∈ names, tyWFL p.2 = true) → AtomsOK n →
      tyWFO (typeHint e ns sc names n) = true
  | .intC _ t, names, hn, h => by
    atoms_unfold h
    simp only [typeHint]
    apply returnHint_ok he names hn
    cases t with
    | none => wf_decide
    | some x => exact h.2
  | .realC _ t, names, hn, h => by
    atoms_unfold h
    simp only [typeHint]
    exact returnHint_ok he names hn h.2
  | .boolC _, names, hn, h => by simp only [typeHint]; exact returnHint_ok he names hn WF_tyBoolean
  | .charC _, names, hn, h => by simp only [typeHint]; exact returnHint_ok he names hn WF_tyChar
  | .stringC _, names, hn, h => by simp only [typeHint]; exact returnHint_ok he names hn WF_tyString
  | .binop .., names, hn, h => by simp only [typeHint]; exact returnHint_ok he names hn WF_tyBoolean
  | .isE .., names, hn, h => by simp only [typeHint]; exact returnHint_ok he names hn WF_tyBoolean
  | .newE t _ _, names, hn, h => by
    atoms_unfold h
    simp only [typeHint]; exact returnHint_ok he names hn h.1
  | .arrayE t _ _, names, hn, h => by
    atoms_unfold h
    simp only [typeHint]; exact returnHint_ok he names hn h.1
  | .lambda _ _ _ _ sig, names, hn, h => by
    atoms_unfold h
    simp only [typeHint]; exact returnHint_ok he names hn h.2
  | .block body _, names, hn, h => by
    atoms_unfold h
    simp only [typeHint]; exact returnHint_ok he names hn (typeHintLast_ok he ns hsc body h)
  | .variable name, names, hn, h => by
    simp only [typeHint]
    split
    · rename_i st hst
      exact returnHint_ok he names hn (smartCastGet_ok hsc hst)
    · exact returnHint_ok he names hn (getDecl_declType_ok he ns name)
  | .cond _ _ _ ty, names, hn, h => by
    atoms_unfold h
    simp only [typeHint]; exact returnHint_ok he names hn h.2
  | .bottom t, names, hn, h => by
    atoms_unfold h
    simp only [typeHint]; exact returnHint_ok he names hn h
  | .call func _ none targs _ _, names, hn, h => by
    simp only [typeHint]; exact returnHint_ok he names hn (getDecl_declType_ok he ns func)
  | .call func _ (some r) targs _ _, names, hn, h => by
    atoms_unfold h
    simp only [typeHint]
    exact typeHint_ok he ns hsc r _ (names_snoc hn h.2) h.1.2
  | .funcRef _ _ sig, names, hn, h => by
    atoms_unfold h
    simp only [typeHint]; exact h.2
  | .fieldAccess ex field, names, hn, h => by
    atoms_unfold h
    simp only [typeHint]
    exact typeHint_ok he ns hsc ex _ (names_snoc hn (by rfl)) h.1
  | .superInst .., names, hn, h => by simp only [typeHint]; exact WF_tyVoid
  | .classDecl .., names, hn, h => by simp only [typeHint]; exact WF_tyVoid
  | .varDecl .., names, hn, h => by simp only [typeHint]; exact WF_tyVoid
  | .callArg .., names, hn, h => by simp only [typeHint]; exact WF_tyVoid
  | .fieldDecl .., names, hn, h => by simp only [typeHint]; exact WF_tyVoid
  | .paramDecl .., names, hn, h => by simp only [typeHint]; exact WF_tyVoid
  | .funcDecl .., names, hn, h => by simp only [typeHint]; exact WF_tyVoid
  | .assign .., names, hn, h => by simp only [typeHint]; exact WF_tyVoid
theorem typeHintLast_ok {e : Env} (he : EnvOK e) (ns : List String) {sc : SmartCasts} (hsc : SCOK sc) :
    ∀ (body : List Node), AtomsOKL body → tyWFO (typeHintLast e ns sc body) = true
  | [], _ => by simp only [typeHintLast]; wf_decide
  | [x], h => by
    simp only [typeHintLast]
    exact typeHint_ok he ns hsc x [] (by intro p hp; cases hp) (AtomsOKL.cons h).1
  | _ :: y :: rest, h => by
    simp only [typeHintLast]
    exact typeHintLast_ok he ns hsc (y :: rest) (AtomsOKL.cons h).2
end

end Heph.TransJava
