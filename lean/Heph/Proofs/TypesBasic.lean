import Heph.Model.Types
import Heph.Spec.Subtyping
/-!
# Basic lemmas about the model of `types.py` (used by the C06 proofs)

* an induction principle for `Ty` that hides the nested `List`/`Option` motives;
* `anyRes` inversion;
* `closure`: shape, membership, sizes, `closure_sub` (every element of the closure other than
  the type itself is a declarative supertype);
* inheritance of `wf` (to stored supertypes, closure elements, arguments, bounds);
* `reg`: "every instantiation node carries a type constructor"; under `reg`, `beq` is reflexive.
-/
namespace Heph
namespace Ty

/-- structural induction on `Ty` with list/option hypotheses phrased by membership -/
theorem ind' {P : Ty → Prop}
    (hb : ∀ c nm nt p ss, (∀ x ∈ ss, P x) → P (builtin c nm nt p ss))
    (hs : ∀ nm ss, (∀ x ∈ ss, P x) → P (simple nm ss))
    (htp : ∀ nm v bd, (∀ x, bd = some x → P x) → P (tparam nm v bd))
    (hw : ∀ v bd, (∀ x, bd = some x → P x) → P (wild v bd))
    (htc : ∀ c nm ps ss, (∀ x ∈ ps, P x) → (∀ x ∈ ss, P x) → P (tcon c nm ps ss))
    (hp : ∀ nm con as ss, P con → (∀ x ∈ as, P x) → (∀ x ∈ ss, P x) → P (param nm con as ss))
    (hn : P nothing) (he : ∀ c, P (ext c)) : ∀ t, P t := by
  intro t
  exact Ty.rec (motive_1 := P) (motive_2 := fun l => ∀ x ∈ l, P x)
    (motive_3 := fun o => ∀ x, o = some x → P x)
    hb hs htp hw htc hp hn he
    (by intro x hx; cases hx)
    (by
      intro h tl ih1 ih2 x hx
      cases hx with
      | head => exact ih1
      | tail _ hx => exact ih2 x hx)
    (by intro x hx; cases hx)
    (by intro v ih x hx; cases hx; exact ih)
    t

/-! ## `anyRes` -/

theorem anyRes_yes {xs : List Ty} {f : Ty → Res} (h : anyRes xs f = .yes) :
    ∃ x ∈ xs, f x = .yes := by
  induction xs with
  | nil => simp [anyRes] at h
  | cons x xs ih =>
    simp only [anyRes] at h
    split at h
    · exact ⟨x, List.mem_cons_self, by assumption⟩
    · obtain ⟨y, hy, hf⟩ := ih h
      exact ⟨y, List.mem_cons_of_mem _ hy, hf⟩
    · rename_i hne _
      exact absurd h hne

theorem anyRes_ne_fuel {xs : List Ty} {f : Ty → Res} (h : ∀ x ∈ xs, f x ≠ .fuel) :
    anyRes xs f ≠ .fuel := by
  induction xs with
  | nil => simp [anyRes]
  | cons x xs ih =>
    simp only [anyRes]
    split
    · simp
    · exact ih (fun y hy => h y (List.mem_cons_of_mem _ hy))
    · exact h x List.mem_cons_self

theorem memBeq_iff {x : Ty} {xs : List Ty} : memBeq x xs = true ↔ ∃ e ∈ xs, beq e x = true := by
  simp [memBeq, List.any_eq_true]

/-! ## lists of types -/

theorem wfL_iff {ss : List Ty} : wfL ss = true ↔ ∀ x ∈ ss, wf x = true := by
  induction ss with
  | nil => simp [wfL]
  | cons a as ih => simp [wfL, ih]

theorem wfO_iff {bd : Option Ty} : wfO bd = true ↔ ∀ x, bd = some x → wf x = true := by
  cases bd <;> simp [wfO]

theorem mem_closureL {ss : List Ty} {e : Ty} : e ∈ closureL ss ↔ ∃ u ∈ ss, e ∈ closure u := by
  induction ss with
  | nil => simp [closureL]
  | cons a as ih => simp [closureL, ih]

theorem closure_eq (s : Ty) : closure s = s :: closureL (sups s) := by
  cases s <;> simp [closure, sups, closureL]

theorem self_mem_closure (s : Ty) : s ∈ closure s := by
  rw [closure_eq]; exact List.mem_cons_self

theorem size_pos (s : Ty) : 0 < size s := by
  cases s <;> simp [size] <;> omega

theorem size_le_sizeL {ss : List Ty} {x : Ty} (h : x ∈ ss) : size x ≤ sizeL ss := by
  induction ss with
  | nil => cases h
  | cons a as ih =>
    simp only [sizeL]
    cases h with
    | head => omega
    | tail _ h => have := ih h; omega

theorem sizeL_sups_lt (s : Ty) : sizeL (sups s) < size s := by
  cases s <;> simp [sups, size, sizeL] <;> omega

/-- every element of the closure is at most as large as the type -/
theorem size_closure : ∀ (s e : Ty), e ∈ closure s → size e ≤ size s := by
  intro s
  have key : ∀ (s : Ty), (∀ x ∈ sups s, ∀ e ∈ closure x, size e ≤ size x) →
      ∀ e ∈ closure s, size e ≤ size s := by
    intro s ih e he
    rw [closure_eq] at he
    cases he with
    | head => exact Nat.le_refl _
    | tail _ he =>
      obtain ⟨u, hu, heu⟩ := mem_closureL.1 he
      have h1 := ih u hu e heu
      have h2 := size_le_sizeL hu
      have h3 := sizeL_sups_lt s
      omega
  induction s using ind' with
  | hb c nm nt p ss ih => exact key _ ih
  | hs nm ss ih => exact key _ ih
  | htp nm v bd ih => exact key _ (by intro x hx; cases hx)
  | hw v bd ih => exact key _ (by intro x hx; cases hx)
  | htc c nm ps ss ih1 ih2 => exact key _ ih2
  | hp nm con as ss ih1 ih2 ih3 => exact key _ ih3
  | hn => exact key _ (by intro x hx; cases hx)
  | he c => exact key _ (by intro x hx; cases hx)

/-- an element of the closure other than the type itself is strictly smaller -/
theorem size_closure_lt {s e : Ty} (he : e ∈ closure s) (hne : e ≠ s) : size e < size s := by
  rw [closure_eq] at he
  cases he with
  | head => exact absurd rfl hne
  | tail _ he =>
    obtain ⟨u, hu, heu⟩ := mem_closureL.1 he
    have h1 := size_closure u e heu
    have h2 := size_le_sizeL hu
    have h3 := sizeL_sups_lt s
    omega

/-! ## universes -/

theorem sups_sub_children (s : Ty) : ∀ x ∈ sups s, x ∈ children s := by
  cases s <;> simp [sups, children] <;> intro x hx <;> simp [hx]

theorem closedU_sups {U : Ty → Prop} (hU : ClosedU U) {s : Ty} (hs : U s) : ∀ x ∈ sups s, U x :=
  fun x hx => hU s hs x (sups_sub_children s x hx)

theorem closedU_wild {U : Ty → Prop} (hU : ClosedU U) {v : Nat} {bd : Ty} (h : U (wild v (some bd))) :
    U bd := hU _ h bd (by simp [children])

theorem closedU_tparam {U : Ty → Prop} (hU : ClosedU U) {nm : String} {v : Nat} {bd : Ty}
    (h : U (tparam nm v (some bd))) : U bd := hU _ h bd (by simp [children])

theorem closedU_args {U : Ty → Prop} (hU : ClosedU U) {nm con as ss} (h : U (param nm con as ss)) :
    ∀ a ∈ as, U a := fun a ha => hU _ h a (by simp [children, ha])

/-- a universe contains the supertype closure of its members -/
theorem closedU_closure {U : Ty → Prop} (hU : ClosedU U) :
    ∀ (s e : Ty), U s → e ∈ closure s → U e := by
  intro s
  have key : ∀ (s : Ty), (∀ x ∈ sups s, ∀ e, U x → e ∈ closure x → U e) →
      ∀ e, U s → e ∈ closure s → U e := by
    intro s ih e hs he
    rw [closure_eq] at he
    cases he with
    | head => exact hs
    | tail _ he =>
      obtain ⟨u, hu, heu⟩ := mem_closureL.1 he
      exact ih u hu e (closedU_sups hU hs u hu) heu
  induction s using ind' with
  | hb c nm nt p ss ih => exact key _ ih
  | hs nm ss ih => exact key _ ih
  | htp nm v bd ih => exact key _ (by intro x hx; cases hx)
  | hw v bd ih => exact key _ (by intro x hx; cases hx)
  | htc c nm ps ss ih1 ih2 => exact key _ ih2
  | hp nm con as ss ih1 ih2 ih3 => exact key _ ih3
  | hn => exact key _ (by intro x hx; cases hx)
  | he c => exact key _ (by intro x hx; cases hx)

theorem mem_subtermsL {ss : List Ty} {e : Ty} : e ∈ subtermsL ss ↔ ∃ u ∈ ss, e ∈ subterms u := by
  induction ss with
  | nil => simp [subtermsL]
  | cons a as ih => simp [subtermsL, ih]

theorem mem_subtermsO {bd : Option Ty} {e : Ty} : e ∈ subtermsO bd ↔ ∃ u, bd = some u ∧ e ∈ subterms u := by
  cases bd <;> simp [subtermsO]

theorem self_mem_subterms (s : Ty) : s ∈ subterms s := by
  cases s <;> simp [subterms]

theorem subterms_eq (s : Ty) : subterms s = s :: subtermsL (children s) := by
  cases s with
  | tparam nm v bd => cases bd <;> simp [subterms, children, subtermsL, subtermsO]
  | wild v bd => cases bd <;> simp [subterms, children, subtermsL, subtermsO]
  | tcon c nm ps ss =>
    simp only [subterms, children]
    congr 1
    induction ps with
    | nil => simp [subtermsL]
    | cons a as ih => simp [subtermsL, ih]
  | param nm con as ss =>
    simp only [subterms, children, subtermsL]
    congr 2
    induction as with
    | nil => simp [subtermsL]
    | cons a as ih => simp [subtermsL, ih]
  | _ => simp [subterms, children, subtermsL]

/-- sub-terms of sub-terms are sub-terms -/
theorem subterms_trans : ∀ (s x y : Ty), x ∈ subterms s → y ∈ subterms x → y ∈ subterms s := by
  intro s
  have key : ∀ (s : Ty), (∀ c ∈ children s, ∀ x y, x ∈ subterms c → y ∈ subterms x → y ∈ subterms c) →
      ∀ x y, x ∈ subterms s → y ∈ subterms x → y ∈ subterms s := by
    intro s ih x y hx hy
    rw [subterms_eq s] at hx
    cases hx with
    | head => exact hy
    | tail _ hx =>
      obtain ⟨c, hc, hxc⟩ := mem_subtermsL.1 hx
      rw [subterms_eq s]
      exact List.mem_cons_of_mem _ (mem_subtermsL.2 ⟨c, hc, ih c hc x y hxc hy⟩)
  induction s using ind' with
  | hb c nm nt p ss ih => exact key _ (by simpa [children] using ih)
  | hs nm ss ih => exact key _ (by simpa [children] using ih)
  | htp nm v bd ih => exact key _ (by intro c hc; apply ih; simpa [children] using hc)
  | hw v bd ih => exact key _ (by intro c hc; apply ih; simpa [children] using hc)
  | htc c nm ps ss ih1 ih2 =>
    refine key _ ?_
    intro c hc
    simp only [children, List.mem_append] at hc
    rcases hc with hc | hc
    · exact ih1 c hc
    · exact ih2 c hc
  | hp nm con as ss ih1 ih2 ih3 =>
    refine key _ ?_
    intro c hc
    simp only [children, List.mem_cons, List.mem_append] at hc
    rcases hc with rfl | hc | hc
    · exact ih1
    · exact ih2 c hc
    · exact ih3 c hc
  | hn => exact key _ (by intro c hc; simp [children] at hc)
  | he c => exact key _ (by intro c hc; simp [children] at hc)

theorem closedU_subterms (s : Ty) : ClosedU (fun x => x ∈ subterms s) := by
  intro x hx y hy
  apply subterms_trans s x y hx
  rw [subterms_eq x]
  exact List.mem_cons_of_mem _ (mem_subtermsL.2 ⟨y, hy, self_mem_subterms y⟩)

/-- the least universe of a list of types is a universe and contains them -/
theorem closedU_univ (ts : List Ty) : ClosedU (univ ts) := by
  intro x hx y hy
  obtain ⟨u, hu, hxu⟩ := mem_subtermsL.1 hx
  exact mem_subtermsL.2 ⟨u, hu, closedU_subterms u x hxu y hy⟩

theorem univ_mem {ts : List Ty} {t : Ty} (h : t ∈ ts) : univ ts t :=
  mem_subtermsL.2 ⟨t, h, self_mem_subterms t⟩

/-- the relation grows with the universe -/
theorem SubT.mono {U V : Ty → Prop} (hUV : ∀ x, U x → V x) {s t : Ty} (h : SubT U s t) : SubT V s t := by
  refine SubT.rec (U := U)
    (motive_1 := fun s t _ => SubT V s t)
    (motive_2 := fun tps as bs _ => ContL V tps as bs)
    (motive_3 := fun tp a b _ => Cont V tp a b)
    ?_ ?_ ?_ ?_ ?_ ?_ ?_ ?_ ?_ ?_ ?_ ?_ ?_ ?_ ?_ ?_ ?_ ?_ ?_ ?_ ?_ h
  · intro s t h; exact SubT.refl h
  · intro s t h; exact SubT.reflR h
  · intro s u t hu _ _ ih1 ih2; exact SubT.trans (hUV u hu) ih1 ih2
  · intro t; exact SubT.bot
  · intro c nm p ss t; exact SubT.botBuiltin
  · intro s u h; exact SubT.nominal h
  · intro nm v bd; exact SubT.tvar
  · intro sb ob _ ih; exact SubT.projOut ih
  · intro nm con as ss nm' con' bs ss' hc _ ih; exact SubT.args hc ih
  · intro tps as bs h; exact ContL.stop h
  · intro tp tps a as b bs _ _ ih1 ih2; exact ContL.cons ih1 ih2
  · intro tp a b h; exact Cont.same h
  · intro tp a b h1 h2 h3 _ ih; exact Cont.declCo h1 h2 h3 ih
  · intro tp a b h1 h2 h3 _ ih; exact Cont.declContra h1 h2 h3 ih
  · intro tp a bd h1 _ ih; exact Cont.useOut h1 ih
  · intro tp a bd h1 _ ih; exact Cont.useIn h1 ih
  · intro tp bd bd' _ ih; exact Cont.outOut ih
  · intro tp bd bd' _ ih; exact Cont.inIn ih
  · intro tp a v h; exact Cont.star h
  · intro tp bd b h1 h2 _ ih; exact Cont.projDeclCo h1 h2 ih
  · intro tp bd b h1 h2 _ ih; exact Cont.projDeclContra h1 h2 ih

/-! ## the closure consists of declarative supertypes -/

/-- every element of `get_supertypes()` is the type itself or a declarative supertype -/
theorem closure_sub {U : Ty → Prop} (hU : ClosedU U) :
    ∀ (s e : Ty), U s → e ∈ closure s → e = s ∨ SubT U s e := by
  intro s
  have key : ∀ (s : Ty), (∀ x ∈ sups s, ∀ e, U x → e ∈ closure x → e = x ∨ SubT U x e) →
      ∀ e, U s → e ∈ closure s → e = s ∨ SubT U s e := by
    intro s ih e hs he
    rw [closure_eq] at he
    cases he with
    | head => exact Or.inl rfl
    | tail _ he =>
      obtain ⟨u, hu, heu⟩ := mem_closureL.1 he
      have hUu := closedU_sups hU hs u hu
      rcases ih u hu e hUu heu with h | h
      · subst h; exact Or.inr (SubT.nominal hu)
      · exact Or.inr (SubT.trans hUu (SubT.nominal hu) h)
  induction s using ind' with
  | hb c nm nt p ss ih => exact key _ ih
  | hs nm ss ih => exact key _ ih
  | htp nm v bd ih => exact key _ (by intro x hx; cases hx)
  | hw v bd ih => exact key _ (by intro x hx; cases hx)
  | htc c nm ps ss ih1 ih2 => exact key _ ih2
  | hp nm con as ss ih1 ih2 ih3 => exact key _ ih3
  | hn => exact key _ (by intro x hx; cases hx)
  | he c => exact key _ (by intro x hx; cases hx)

/-! ## inheritance of well-formedness -/

theorem wf_sups {s : Ty} (h : wf s = true) : ∀ x ∈ sups s, wf x = true := by
  apply wfL_iff.1
  cases s <;> simp only [sups, wfL] <;> simp only [wf, Bool.and_eq_true] at h <;> simp [h]

theorem wf_closure : ∀ (s e : Ty), wf s = true → e ∈ closure s → wf e = true := by
  intro s
  have key : ∀ (s : Ty), (∀ x ∈ sups s, ∀ e, wf x = true → e ∈ closure x → wf e = true) →
      ∀ e, wf s = true → e ∈ closure s → wf e = true := by
    intro s ih e hwf he
    rw [closure_eq] at he
    cases he with
    | head => exact hwf
    | tail _ he =>
      obtain ⟨u, hu, heu⟩ := mem_closureL.1 he
      exact ih u hu e (wf_sups hwf u hu) heu
  induction s using ind' with
  | hb c nm nt p ss ih => exact key _ ih
  | hs nm ss ih => exact key _ ih
  | htp nm v bd ih => exact key _ (by intro x hx; cases hx)
  | hw v bd ih => exact key _ (by intro x hx; cases hx)
  | htc c nm ps ss ih1 ih2 => exact key _ ih2
  | hp nm con as ss ih1 ih2 ih3 => exact key _ ih3
  | hn => exact key _ (by intro x hx; cases hx)
  | he c => exact key _ (by intro x hx; cases hx)

theorem wf_param {nm con as ss} (h : wf (param nm con as ss) = true) :
    wf con = true ∧ wfL as = true ∧ wfL ss = true ∧ projOK (conParams con) as = true := by
  simp only [wf, Bool.and_eq_true] at h
  exact ⟨h.1.1.1, h.1.1.2, h.1.2, h.2⟩

theorem wf_wild {v bd} (h : wf (wild v (some bd)) = true) : v ≤ 2 ∧ wf bd = true := by
  simpa [wf, wfO] using h

theorem wf_tparam {nm v bd} (h : wf (tparam nm v (some bd)) = true) : v ≤ 2 ∧ wf bd = true := by
  simpa [wf, wfO] using h

theorem wfL_cons {a : Ty} {as : List Ty} (h : wfL (a :: as) = true) : wf a = true ∧ wfL as = true := by
  simpa [wfL] using h

/-- what `projOK` says about the head position -/
def projOK1 (tp a : Ty) : Bool :=
  (match a with
   | wild v (some _) => (variance tp == 0 || variance tp == v) && (v == 1 || v == 2)
   | _ => true) && variance tp ≤ 2

theorem projOK_cons {tp a : Ty} {tps as : List Ty} (h : projOK (tp :: tps) (a :: as) = true) :
    projOK1 tp a = true ∧ projOK tps as = true := by
  simp only [projOK, Bool.and_eq_true] at h
  simp only [projOK1, Bool.and_eq_true]
  exact ⟨⟨h.1.1, h.1.2⟩, h.2⟩

theorem projOK1_var {tp a : Ty} (h : projOK1 tp a = true) : variance tp ≤ 2 := by
  simp only [projOK1, Bool.and_eq_true, decide_eq_true_eq] at h
  exact h.2

theorem projOK1_wild {tp : Ty} {v : Nat} {bd : Ty} (h : projOK1 tp (wild v (some bd)) = true) :
    (variance tp = 0 ∨ variance tp = v) ∧ (v = 1 ∨ v = 2) := by
  simp only [projOK1, Bool.and_eq_true, Bool.or_eq_true, beq_iff_eq] at h
  exact h.1

/-! ## regular types: every instantiation carries a type constructor -/

mutual
/-- every `ParameterizedType` node has a `TypeConstructor` as its constructor (always true of
    objects built by the constructors of `types.py`; `beq` is reflexive exactly on such types) -/
def reg : Ty → Bool
  | builtin _ _ _ _ ss => regL ss
  | simple _ ss => regL ss
  | tparam _ _ bd => regO bd
  | wild _ bd => regO bd
  | tcon _ _ ps ss => regL ps && regL ss
  | param _ con as ss => isTCon con && reg con && regL as && regL ss
  | nothing => true
  | ext _ => true
def regL : List Ty → Bool
  | [] => true
  | x :: xs => reg x && regL xs
def regO : Option Ty → Bool
  | none => true
  | some x => reg x
end

theorem regL_iff {ss : List Ty} : regL ss = true ↔ ∀ x ∈ ss, reg x = true := by
  induction ss with
  | nil => simp [regL]
  | cons a as ih => simp [regL, ih]

theorem beqL_refl {ss : List Ty} (h : ∀ x ∈ ss, beq x x = true) : beqL ss ss = true := by
  induction ss with
  | nil => simp [beqL]
  | cons a as ih =>
    simp only [beqL, Bool.and_eq_true]
    exact ⟨h a List.mem_cons_self, ih (fun x hx => h x (List.mem_cons_of_mem _ hx))⟩

theorem beq_refl_aux : ∀ (s : Ty), reg s = true →
    beq s s = true ∧ beqL (conParams s) (conParams s) = true := by
  intro s
  induction s using ind' with
  | hb c nm nt p ss ih => intro _; simp [beq, conParams, beqL]
  | hs nm ss ih =>
    intro h
    simp only [reg] at h
    simp only [beq, Bool.and_eq_true, conParams, beqL]
    exact ⟨⟨by simp, beqL_refl (fun x hx => (ih x hx (regL_iff.1 h x hx)).1)⟩, trivial⟩
  | htp nm v bd ih =>
    intro h
    cases bd with
    | none => simp [beq, beqO, conParams, beqL]
    | some b =>
      simp only [reg, regO] at h
      simp [beq, beqO, (ih b rfl h).1, conParams, beqL]
  | hw v bd ih =>
    intro h
    cases bd with
    | none => simp [beq, beqO, conParams, beqL]
    | some b =>
      simp only [reg, regO] at h
      simp [beq, beqO, (ih b rfl h).1, conParams, beqL]
  | htc c nm ps ss ih1 ih2 =>
    intro h
    simp only [reg, Bool.and_eq_true] at h
    refine ⟨by simp [beq], ?_⟩
    simp only [conParams]
    exact beqL_refl (fun x hx => (ih1 x hx (regL_iff.1 h.1 x hx)).1)
  | hp nm con as ss ih1 ih2 ih3 =>
    intro h
    simp only [reg, Bool.and_eq_true] at h
    obtain ⟨⟨⟨h1, h2⟩, h3⟩, h4⟩ := h
    refine ⟨?_, by simp [conParams, beqL]⟩
    cases con with
    | tcon c cn ps css =>
      have hps : beqL ps ps = true := (ih1 h2).2
      simp only [beq, Bool.and_eq_true]
      refine ⟨⟨⟨by simp, ?_⟩, ?_⟩, ?_⟩
      · exact beqL_refl (fun x hx => (ih3 x hx (regL_iff.1 h4 x hx)).1)
      · simp [hps]
      · exact beqL_refl (fun x hx => (ih2 x hx (regL_iff.1 h3 x hx)).1)
    | _ => simp [isTCon] at h1
  | hn => intro _; simp [beq, conParams, beqL]
  | he c => intro _; simp [beq, conParams, beqL]

/-- `x == x` for every regular type -/
theorem beq_refl (s : Ty) (h : reg s = true) : beq s s = true := (beq_refl_aux s h).1

end Ty
end Heph
