import Heph.Proofs.PickleLoadBase
/-! `load ∘ dump` (C13): immediates, memo hits, element sequences, tuples and frozensets. -/
namespace Heph.Pickle

variable {hr : String → String → Bool} {h : Heap} {g : Nat → Option Nat} {opn : Nat → Prop} {st : DState} {L : LState}

/-- the statement proved by induction on the fuel: a successful `save` of `v` is matched by the VM, which pushes
a value related to `v`, leaves the marks and all existing cells alone and extends the address map -/
def SaveOK (hr : String → String → Bool) (h : Heap) (fuel : Nat) : Prop :=
  ∀ (v : Val) (g : Nat → Option Nat) (opn : Nat → Prop) (st : DState) (L : LState) (st' : DState),
    Inv hr h g opn st L → save h fuel v st = some st' →
    ∃ g' L' v', Sub hr h opn g L g' st' L' ∧ L'.stack = v' :: L.stack ∧ ValRel g' v v'

theorem Sub.of_inv_same {L' : LState} {st' : DState} (I' : Inv hr h g opn st' L') (hm : L'.metas = L.metas)
    (hh : L'.heap = L.heap) : Sub hr h opn g L g st' L' :=
  ⟨Ext.refl g, I', hm, by rw [hh]; exact HeapExt.refl _⟩

/-- None, booleans, numbers, the empty tuple -/
theorem save_imm_load (fuel : Nat) {v : Val} (hnr : ∀ a, v ≠ .ref a) {st' : DState} (I : Inv hr h g opn st L)
    (hsave : save h fuel v st = some st') :
    ∃ g' L' v', Sub hr h opn g L g' st' L' ∧ L'.stack = v' :: L.stack ∧ ValRel g' v v' := by
  cases v with
  | ref a => exact absurd rfl (hnr a)
  | none =>
    cases fuel <;> simp only [save, Option.some.injEq] at hsave <;> subst hsave <;>
      exact ⟨g, L.push .none, .none, Sub.of_inv_same (I.push rfl) rfl rfl, rfl, rfl⟩
  | bool b =>
    cases fuel <;> simp only [save, Option.some.injEq] at hsave <;> subst hsave <;>
      exact ⟨g, L.push (.bool b), .bool b, Sub.of_inv_same (I.push rfl) rfl rfl, rfl, rfl⟩
  | int i =>
    cases fuel <;> simp only [save, Option.some.injEq] at hsave <;> subst hsave <;>
      exact ⟨g, L.push (.int i), .int i, Sub.of_inv_same (I.push rfl) rfl rfl, rfl, rfl⟩
  | float s =>
    cases fuel <;> simp only [save, Option.some.injEq] at hsave <;> subst hsave <;>
      exact ⟨g, L.push (.float s), .float s, Sub.of_inv_same (I.push rfl) rfl rfl, rfl, rfl⟩
  | unit =>
    cases fuel <;> simp only [save, Option.some.injEq] at hsave <;> subst hsave <;>
      exact ⟨g, L.push .unit, .unit, Sub.of_inv_same (I.push rfl) rfl rfl, rfl, rfl⟩

/-- a memo hit: BINGET pushes the rebuilt object -/
theorem binget_load (I : Inv hr h g opn st L) {a i : Nat} (hget : st.get a = some i) :
    ∃ a', g a = some a' ∧ Inv hr h g opn (st.emit (.binget i)) (L.push (.ref a')) := by
  obtain ⟨a', ea, em⟩ := I.memo_of a i hget
  refine ⟨a', ea, I.push ?_⟩
  simp only [step, em]

/-- the elements of a tuple / frozenset, one after the other -/
theorem foldlM_load {fuel : Nat} (ih : SaveOK hr h fuel) :
    ∀ (xs : List Val) (g : Nat → Option Nat) (st : DState) (L : LState) (st' : DState),
      Inv hr h g opn st L → xs.foldlM (fun st x => save h fuel x st) st = some st' →
      ∃ g' L' vs, Sub hr h opn g L g' st' L' ∧ L'.stack = vs.reverse ++ L.stack ∧ AllRel (ValRel g') xs vs := by
  intro xs
  induction xs with
  | nil =>
    intro g st L st' I hf
    simp only [List.foldlM_nil, Option.pure_def, Option.some.injEq] at hf
    subst hf
    exact ⟨g, L, [], Sub.of_inv_same I rfl rfl, rfl, .nil⟩
  | cons x xs ihl =>
    intro g st L st' I hf
    simp only [List.foldlM_cons, Option.bind_eq_bind] at hf
    cases hx : save h fuel x st with
    | none => simp [hx] at hf
    | some st1 =>
      rw [hx] at hf
      simp only [Option.bind_some] at hf
      obtain ⟨g1, L1, v1, s1, hstk1, hv1⟩ := ih x g opn st L st1 I hx
      obtain ⟨g2, L2, vs, s2, hstk2, hvs⟩ := ihl g1 st1 L1 st' s1.inv hf
      refine ⟨g2, L2, v1 :: vs, s1.trans s2, ?_, .cons (hv1.mono s2.ext) hvs⟩
      rw [hstk2, hstk1]
      simp

/-- POP × k removes the k topmost values -/
theorem emitPops_load : ∀ (k : Nat) (st : DState) (L : LState) (ws S : List Val), Inv hr h g opn st L →
    L.stack = ws ++ S → ws.length = k →
    Inv hr h g opn (emitPops st k) { L with stack := S }
  | 0, st, L, ws, S, I, hstk, hlen => by
    have : ws = [] := List.eq_nil_of_length_eq_zero hlen
    subst this
    simp only [List.nil_append] at hstk
    simp only [emitPops]
    have : ({ L with stack := S } : LState) = L := by cases L; simp_all
    rw [this]; exact I
  | k + 1, st, L, ws, S, I, hstk, hlen => by
    match ws, hlen with
    | w :: ws, hlen =>
      simp only [emitPops]
      have hs : step hr L .pop = some { L with stack := ws ++ S } := by
        simp only [step, hstk, List.cons_append]
      have I1 := I.emit_same hs rfl rfl
      have := emitPops_load k (st.emit .pop) { L with stack := ws ++ S } ws S I1 rfl (by simpa using hlen)
      exact this

theorem step_tupleN {vs S : List Val} {n : Nat} (hlen : vs.length = n) (h1 : 1 ≤ n) (h3 : n ≤ 3)
    (hstk : L.stack = vs.reverse ++ S) :
    step hr L (.tupleN n) = some ({ L with stack := S }.alloc (.tuple vs)) := by
  subst hlen
  rcases vs with _ | ⟨x, _ | ⟨y, _ | ⟨z, _ | ⟨w, vs⟩⟩⟩⟩
  · simp at h1
  · simp only [List.reverse_cons, List.reverse_nil, List.nil_append, List.cons_append] at hstk
    simp only [List.length_cons, List.length_nil, step, hstk]
  · simp only [List.reverse_cons, List.reverse_nil, List.nil_append, List.cons_append] at hstk
    simp only [List.length_cons, List.length_nil, step, hstk]
  · simp only [List.reverse_cons, List.reverse_nil, List.nil_append, List.cons_append] at hstk
    simp only [List.length_cons, List.length_nil, step, hstk]
  · simp at h3

theorem popMark_eq {M : List (List Val)} {S : List Val} (hm : L.metas = S :: M) :
    L.popMark = some (L.stack.reverse, { L with stack := S, metas := M }) := by
  simp only [LState.popMark, hm]

/-- MARK -/
theorem mark_load (I : Inv hr h g opn st L) :
    Inv hr h g opn (st.emit .mark) { L with metas := L.stack :: L.metas, stack := [] } :=
  I.emit_same rfl rfl rfl

/-- a tuple: elements first, then TUPLE1/2/3 or MARK … TUPLE and MEMOIZE; if the tuple was pickled meanwhile
(it is reachable from its own elements) the elements are popped and the memoised tuple is fetched -/
theorem save_tuple_load {fuel : Nat} (ih : SaveOK hr h fuel) (I : Inv hr h g opn st L) {a : Nat} {xs : List Val}
    {st' : DState} (hget : st.get a = none) (ho : h[a]? = some (.tuple xs))
    (hsave : save h (fuel + 1) (.ref a) st = some st') :
    ∃ g' L' v', Sub hr h opn g L g' st' L' ∧ L'.stack = v' :: L.stack ∧ ValRel g' (.ref a) v' := by
  simp only [save, hget, ho] at hsave
  split at hsave
  · cases hsave
  rename_i hne
  by_cases hsm : xs.length ≤ 3
  · -- TUPLE1 / TUPLE2 / TUPLE3
    simp only [hsm, if_true] at hsave
    split at hsave
    · cases hsave
    rename_i st1 hfold
    obtain ⟨g1, L1, vs, s1, hstk1, hvs⟩ := foldlM_load ih xs g st L st1 I hfold
    have hlen : vs.length = xs.length := hvs.length_eq.symm
    split at hsave
    · rename_i i hgi
      simp only [Option.some.injEq] at hsave
      subst hsave
      have I2 := emitPops_load xs.length st1 L1 vs.reverse L.stack s1.inv hstk1 (by simpa using hlen)
      obtain ⟨a', ea, I3⟩ := binget_load (a := a) (i := i) I2 (by
        have : ∀ k (s : DState), (emitPops s k).get a = s.get a := by
          intro k; induction k with
          | zero => intro s; rfl
          | succ k ihk => intro s; simp only [emitPops]; rw [ihk]; rfl
        rw [this]; exact hgi)
      exact ⟨g1, _, .ref a', ⟨s1.ext, I3, s1.metas, s1.hext⟩, rfl, ea⟩
    · rename_i hgn
      simp only [Option.some.injEq] at hsave
      subst hsave
      have hne' : 1 ≤ xs.length := by
        cases xs with
        | nil => simp at hne
        | cons _ _ => simp
      have hs := step_tupleN (hr := hr) (L := L1) (n := xs.length) hlen hne' hsm hstk1
      obtain ⟨L2, hext, I2, hm2, hh2, hstk2⟩ := s1.inv.alloc_done (o := .tuple xs) (o' := .tuple vs) (S := L.stack) hs rfl rfl rfl hgn ho
        (by simp only [ObjRel]; exact hvs.imp fun _ _ => ValRel.mono (Ext.upd (s1.inv.g_none hgn) _))
      exact ⟨_, L2, _, ⟨s1.ext.trans hext, I2, hm2.trans s1.metas, s1.hext.trans hh2⟩, hstk2, upd_self _ _ _⟩
  · -- MARK … TUPLE
    simp only [hsm, if_false] at hsave
    split at hsave
    · cases hsave
    rename_i st1 hfold
    obtain ⟨g1, L1, vs, s1, hstk1, hvs⟩ := foldlM_load ih xs g (st.emit .mark) _ st1 (mark_load I) hfold
    have hlen : vs.length = xs.length := hvs.length_eq.symm
    have hpm := popMark_eq (L := L1) (M := L.metas) (S := L.stack) s1.metas
    split at hsave
    · rename_i i hgi
      simp only [Option.some.injEq] at hsave
      subst hsave
      have hs : step hr L1 .popMark = some { L1 with stack := L.stack, metas := L.metas } := by
        simp only [step, hpm]
      have I2 := s1.inv.emit_same hs rfl rfl
      obtain ⟨a', ea, I3⟩ := binget_load (a := a) (i := i) I2 hgi
      exact ⟨g1, _, .ref a', ⟨s1.ext, I3, rfl, s1.hext⟩, rfl, ea⟩
    · rename_i hgn
      simp only [Option.some.injEq] at hsave
      subst hsave
      have hvne : vs.isEmpty = false := by
        cases vs with
        | nil => simp at hlen; omega
        | cons _ _ => rfl
      have hs : step hr L1 .tupleMark = some ({ L1 with stack := L.stack, metas := L.metas }.alloc (.tuple vs)) := by
        simp only [step, hpm, hstk1, List.append_nil, List.reverse_reverse, hvne, Bool.false_eq_true, if_false]
      obtain ⟨L2, hext, I2, hm2, hh2, hstk2⟩ := s1.inv.alloc_done (o := .tuple xs) (o' := .tuple vs) (S := L.stack) hs rfl rfl rfl hgn ho
        (by simp only [ObjRel]; exact hvs.imp fun _ _ => ValRel.mono (Ext.upd (s1.inv.g_none hgn) _))
      exact ⟨_, L2, _, ⟨s1.ext.trans hext, I2, hm2, s1.hext.trans hh2⟩, hstk2, upd_self _ _ _⟩

/-- a frozenset: MARK elements FROZENSET MEMOIZE (or POP_MARK BINGET when it was pickled meanwhile) -/
theorem save_frozenset_load {fuel : Nat} (ih : SaveOK hr h fuel) (I : Inv hr h g opn st L) {a : Nat} {xs : List Val}
    {st' : DState} (hget : st.get a = none) (ho : h[a]? = some (.frozenset xs))
    (hsave : save h (fuel + 1) (.ref a) st = some st') :
    ∃ g' L' v', Sub hr h opn g L g' st' L' ∧ L'.stack = v' :: L.stack ∧ ValRel g' (.ref a) v' := by
  simp only [save, hget, ho] at hsave
  split at hsave
  · cases hsave
  rename_i st1 hfold
  obtain ⟨g1, L1, vs, s1, hstk1, hvs⟩ := foldlM_load ih xs g (st.emit .mark) _ st1 (mark_load I) hfold
  have hpm := popMark_eq (L := L1) (M := L.metas) (S := L.stack) s1.metas
  split at hsave
  · rename_i i hgi
    simp only [Option.some.injEq] at hsave
    subst hsave
    have hs : step hr L1 .popMark = some { L1 with stack := L.stack, metas := L.metas } := by
      simp only [step, hpm]
    have I2 := s1.inv.emit_same hs rfl rfl
    obtain ⟨a', ea, I3⟩ := binget_load (a := a) (i := i) I2 hgi
    exact ⟨g1, _, .ref a', ⟨s1.ext, I3, rfl, s1.hext⟩, rfl, ea⟩
  · rename_i hgn
    simp only [Option.some.injEq] at hsave
    subst hsave
    have hs : step hr L1 .frozenset = some
        { ({ L1 with stack := L.stack, metas := L.metas } : LState).alloc (.frozenset vs) with
          unready := L1.unready + countUnbuilt hr L1.heap vs } := by
      simp only [step, hpm, hstk1, List.append_nil, List.reverse_reverse]
    obtain ⟨L2, hext, I2, hm2, hh2, hstk2⟩ := s1.inv.alloc_done (o := .frozenset xs) (o' := .frozenset vs) (S := L.stack) hs rfl rfl rfl hgn ho
      (by simp only [ObjRel]; exact hvs.imp fun _ _ => ValRel.mono (Ext.upd (s1.inv.g_none hgn) _))
    exact ⟨_, L2, _, ⟨s1.ext.trans hext, I2, hm2, s1.hext.trans hh2⟩, hstk2, upd_self _ _ _⟩

end Heph.Pickle
