import Heph.Spec.Unify
import Heph.Proofs.TypesBasic
/-!
# Fuel adequacy of the model of `unify_types`

Every recursive call is on strictly smaller arguments (the last stored supertype of the target,
an argument of the target against an argument of the pattern or against the bound of a pattern
variable), so `size t + size p + 1` units of fuel always suffice: `unifyF` never answers
`.fuel` (`.kfuel` is the fuel of the kernel functions, adequate on regular types by C06/C07).
-/
namespace Heph
namespace Unify
open Heph.Ty

variable (v : Variant) (bn : List (String × String)) (fac : Option Ty)

def FuelF (f : Nat) : Prop :=
  ∀ st t p, size t + size p < f → unifyF f v bn fac st t p ≠ .fuel
def FuelA (f : Nat) : Prop :=
  ∀ as bs m, sizeL as + sizeL bs + 1 < f → unifyArgs f v bn fac as bs m ≠ .fuel

theorem size_last_lt {t s : Ty} (h : (sups t).getLast? = some s) : size s < size t :=
  Nat.lt_of_le_of_lt (size_le_sizeL (List.mem_of_getLast? h)) (sizeL_sups_lt t)

theorem size_boundOf {a x : Ty} (h : boundOf a = some x) : size x < size a := by
  cases a <;> simp [boundOf] at h <;> subst h <;> simp [size, sizeO]

theorem unwrap_size {a b a1 b2 : Ty} (h : unwrapProj v a b = .go (some a1) (some b2)) :
    size a1 ≤ size a ∧ size b2 ≤ size b := by
  unfold unwrapProj at h
  split at h
  · cases h
  · split at h
    · cases v with
      | asIs =>
        simp only at h
        injection h with h1 h2
        exact ⟨Nat.le_of_lt (size_boundOf h1), Nat.le_of_lt (size_boundOf h2)⟩
      | repaired =>
        simp only at h
        split at h
        · cases h
        · split at h
          · cases h
          · rename_i a' b' ha hb
            injection h with h1 h2
            injection h1 with h1
            injection h2 with h2
            subst h1 h2
            exact ⟨Nat.le_of_lt (size_boundOf ha), Nat.le_of_lt (size_boundOf hb)⟩
          · cases h
    · injection h with h1 h2
      injection h1 with h1
      injection h2 with h2
      subst h1 h2
      exact ⟨Nat.le_refl _, Nat.le_refl _⟩

theorem ofRes_ne_fuel {r : Res} {x y : UR} (hx : x ≠ .fuel) (hy : y ≠ .fuel) :
    ofRes r x y ≠ .fuel := by
  cases r <;> simp [ofRes, hx, hy]

theorem varFinal_ne_fuel (t p : Ty) : varFinal fac t p ≠ .fuel := by
  unfold varFinal
  split
  · simp
  · exact ofRes_ne_fuel (by simp) (by simp)
  · simp
  · simp

theorem varCase_ne_fuel (t p : Ty) : varCase fac t p ≠ .fuel := by
  unfold varCase
  split
  · split
    · simp
    · simp
    · split
      · simp
      · simp
      · simp
      · split
        · exact varFinal_ne_fuel fac t p
        · exact ofRes_ne_fuel (by simp) (varFinal_ne_fuel fac t p)
  · exact varFinal_ne_fuel fac t p

theorem fuelF_step {f : Nat} (ihF : FuelF v bn fac f) (ihA : FuelA v bn fac f) :
    FuelF v bn fac (f + 1) := by
  intro st t p hsz
  simp only [unifyF]
  split
  · simp
  · split
    · split
      · simp
      · rename_i s hs
        exact ihF st s p (by have := size_last_lt hs; omega)
    · split
      · exact varCase_ne_fuel fac t p
      · cases t with
        | param nm con as ss =>
          cases p with
          | param nm' con' bs ss' =>
            dsimp only
            split
            · simp
            · apply ihA
              simp only [size] at hsz
              omega
          | _ => simp
        | _ => simp

theorem fuelA_step {f : Nat} (ihF : FuelF v bn fac f) (ihA : FuelA v bn fac f) :
    FuelA v bn fac (f + 1) := by
  intro as bs m hsz
  cases as with
  | nil => simp [unifyArgs]
  | cons a as' =>
    cases bs with
    | nil => simp [unifyArgs]
    | cons b bs' =>
      simp only [sizeL] at hsz
      have pa := size_pos a
      have pb := size_pos b
      have contA : ∀ m', unifyArgs f v bn fac as' bs' m' ≠ .fuel :=
        fun m' => ihA as' bs' m' (by omega)
      simp only [unifyArgs]
      split
      · simp
      · exact contA m
      · simp
      · rename_i a' b2 hgo
        have recF : ∀ a1 y, a' = some a1 → size y ≤ size b2 →
            unifyF f v bn fac true a1 y ≠ .fuel := by
          intro a1 y ha hy
          subst ha
          obtain ⟨h1, h2⟩ := unwrap_size v hgo
          exact ihF true a1 y (by omega)
        have merged : ∀ (res : UMap),
            (if res.isEmpty = true then UR.ok []
             else match mergeMap m res with
               | none => UR.ok []
               | some m' => unifyArgs f v bn fac as' bs' m') ≠ .fuel := by
          intro res
          split
          · simp
          · split
            · simp
            · exact contA _
        split
        · simp
        · split
          · exact contA m
          · simp
        · cases b2 with
          | tparam nm vr obd =>
            cases obd with
            | some bd =>
              dsimp only
              split
              · simp
              · rename_i a1
                apply ofRes_ne_fuel
                · split
                  · simp
                  · exact contA _
                · split
                  · split
                    · exact merged _
                    · exact recF a1 bd rfl (by simp [size, sizeO])
                  · simp
            | none =>
              dsimp only
              split
              · simp
              · exact contA _
          | param nm' con' xs ss' =>
            dsimp only
            split
            · rename_i a1
              split
              · split
                · exact merged _
                · exact recF a1 _ rfl (Nat.le_refl _)
              · simp
            · simp
          | _ => simp

theorem fuel_all : ∀ f, FuelF v bn fac f ∧ FuelA v bn fac f := by
  intro f
  induction f with
  | zero =>
    constructor
    · intro st t p h; omega
    · intro as bs m h; omega
  | succ f ih => exact ⟨fuelF_step v bn fac ih.1 ih.2, fuelA_step v bn fac ih.1 ih.2⟩

end Unify
end Heph
