import Heph.Model.Context
/-! Lemmas about the insertion-ordered dictionaries of `Heph/Model/Context.lean`. -/
namespace Heph.Context

section AList
variable {κ : Type} {β : Type} [DecidableEq κ]

@[simp] theorem aGet_nil (k : κ) : aGet ([] : List (κ × β)) k = none := rfl

theorem aGet_cons (k' : κ) (v : β) (r : List (κ × β)) (k : κ) :
    aGet ((k', v) :: r) k = if k' = k then some v else aGet r k := rfl

theorem aGet_aSet (d : List (κ × β)) (k : κ) (v : β) (k' : κ) :
    aGet (aSet d k v) k' = if k = k' then some v else aGet d k' := by
  induction d with
  | nil => simp [aSet, aGet_cons]
  | cons e r ih =>
    obtain ⟨a, b⟩ := e
    by_cases h : a = k
    · subst h; simp only [aSet, if_true, aGet_cons]; split <;> rfl
    · simp only [aSet, h, if_false, aGet_cons, ih]
      by_cases h1 : a = k'
      · subst h1; simp [Ne.symm h]
      · simp [h1]

theorem aGet_aDel (d : List (κ × β)) (k k' : κ) :
    aGet (aDel d k) k' = if k = k' then none else aGet d k' := by
  induction d with
  | nil => simp [aDel]
  | cons e r ih =>
    obtain ⟨a, b⟩ := e
    unfold aDel at ih ⊢
    by_cases h : a = k
    · subst h
      simp only [List.filter_cons, ne_eq, not_true_eq_false, decide_false, Bool.false_eq_true,
        if_false, ih, aGet_cons]
      split <;> simp_all
    · simp only [List.filter_cons, ne_eq, h, not_false_eq_true, decide_true, if_true, aGet_cons, ih]
      by_cases h1 : a = k'
      · subst h1; simp [Ne.symm h]
      · simp [h1]

theorem aGet_eq_none_iff (d : List (κ × β)) (k : κ) : aGet d k = none ↔ k ∉ aKeys d := by
  induction d with
  | nil => simp [aKeys]
  | cons e r ih =>
    obtain ⟨a, b⟩ := e
    simp only [aGet_cons, aKeys, List.map_cons, List.mem_cons, not_or] at ih ⊢
    by_cases h : a = k
    · subst h; simp
    · simp [h, ih, Ne.symm h]

theorem aDel_of_absent (d : List (κ × β)) (k : κ) (h : aGet d k = none) : aDel d k = d := by
  rw [aGet_eq_none_iff] at h
  unfold aDel
  rw [List.filter_eq_self]
  intro e he
  simp only [ne_eq, decide_not, Bool.not_eq_eq_eq_not, Bool.not_true, decide_eq_false_iff_not]
  intro h1
  exact h (h1 ▸ List.mem_map_of_mem he)

theorem aKeys_aSet (d : List (κ × β)) (k : κ) (v : β) :
    aKeys (aSet d k v) = if k ∈ aKeys d then aKeys d else aKeys d ++ [k] := by
  induction d with
  | nil => simp [aSet, aKeys]
  | cons e r ih =>
    obtain ⟨a, b⟩ := e
    unfold aKeys at ih ⊢
    by_cases h : a = k
    · subst h; simp [aSet]
    · simp only [aSet, h, if_false, List.map_cons, ih, List.mem_cons, Ne.symm h, false_or]
      split <;> simp

theorem aKeys_aDel (d : List (κ × β)) (k : κ) : aKeys (aDel d k) = (aKeys d).filter (· ≠ k) := by
  unfold aKeys aDel
  rw [List.filter_map]
  rfl

theorem nodup_aSet (d : List (κ × β)) (k : κ) (v : β) (h : (aKeys d).Nodup) :
    (aKeys (aSet d k v)).Nodup := by
  rw [aKeys_aSet]
  split
  · exact h
  · rename_i hk
    rw [List.nodup_append]
    refine ⟨h, by simp, ?_⟩
    intro a ha b hb
    simp only [List.mem_singleton] at hb
    subst hb
    intro hab
    exact hk (hab ▸ ha)

theorem nodup_aDel (d : List (κ × β)) (k : κ) (h : (aKeys d).Nodup) : (aKeys (aDel d k)).Nodup := by
  rw [aKeys_aDel]
  exact h.filter _

theorem nodup_aUpdate (d1 d2 : List (κ × β)) (h : (aKeys d1).Nodup) : (aKeys (aUpdate d1 d2)).Nodup := by
  unfold aUpdate
  induction d2 generalizing d1 with
  | nil => exact h
  | cons e r ih => exact ih _ (nodup_aSet d1 e.1 e.2 h)

/-- for a dictionary (unique keys): membership = lookup -/
theorem mem_iff_aGet (d : List (κ × β)) (h : (aKeys d).Nodup) (k : κ) (v : β) :
    (k, v) ∈ d ↔ aGet d k = some v := by
  induction d with
  | nil => simp
  | cons e r ih =>
    obtain ⟨a, b⟩ := e
    simp only [aKeys, List.map_cons, List.nodup_cons] at h
    have ih' := ih h.2
    simp only [List.mem_cons, Prod.mk.injEq, aGet_cons]
    by_cases hk : a = k
    · subst hk
      simp only [true_and, if_true, Option.some.injEq]
      constructor
      · rintro (h1 | h1)
        · exact h1.symm
        · exact absurd (List.mem_map_of_mem (f := (·.1)) h1) h.1
      · intro h1; exact Or.inl h1.symm
    · simp only [hk, if_false]
      rw [← ih']
      constructor
      · rintro (⟨h1, _⟩ | h1)
        · exact absurd h1.symm hk
        · exact h1
      · intro h1; exact Or.inr h1

/-- `d1.update(d2)`: entries of `d2` win -/
theorem aGet_aUpdate (d1 d2 : List (κ × β)) (h : (aKeys d2).Nodup) (k : κ) :
    aGet (aUpdate d1 d2) k = (aGet d2 k).or (aGet d1 k) := by
  unfold aUpdate
  induction d2 generalizing d1 with
  | nil => simp
  | cons e r ih =>
    obtain ⟨a, b⟩ := e
    simp only [aKeys, List.map_cons, List.nodup_cons] at h
    simp only [List.foldl_cons]
    rw [ih _ h.2, aGet_aSet, aGet_cons]
    by_cases hk : a = k
    · subst hk
      have : aGet r a = none := (aGet_eq_none_iff r a).2 h.1
      simp [this]
    · simp [hk]

theorem aUpdate_nil (d : List (κ × β)) : aUpdate d [] = d := rfl

end AList

/-! ## entities -/

theorem Entities.get_set (e : Entities) (k k' : Kind) (d : Dict) :
    (e.set k d).get k' = if k = k' then d else e.get k' := by
  cases k <;> cases k' <;> simp [Entities.set, Entities.get]

theorem toKind_ne_decls (k : EKind) : k.toKind ≠ .decls := by cases k <;> simp [EKind.toKind]

theorem toKind_inj {k k' : EKind} (h : k.toKind = k'.toKind) : k = k' := by
  cases k <;> cases k' <;> simp_all [EKind.toKind]

end Heph.Context
