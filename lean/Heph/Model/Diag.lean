import Heph.Generated.Regex
/-! # Model of `src/compilers/{base,java,kotlin,groovy,scala}.py`

For each of the four compilers a hand-written scanner on `List Char` that is the meaning of
`re.findall(ERROR_REGEX, ·)` for exactly the pattern found in the source (the pattern strings
are regenerated into `Heph/Generated/Regex.lean`; `Heph/Props/C14.lean` compares them with
the strings quoted below), the `re.search(CRASH_REGEX, ·)` tests, Groovy's stack-overflow
rule, `re.sub(p, '', ·)` for literal `p`, and `analyze_compiler_output`.

Python `re` semantics reproduced (str patterns, no flags that matter: `re.MULTILINE` only
changes `^`/`$`, which no pattern uses):
* `.` matches every character except `'\n'`;
* `\d` matches every Unicode decimal digit (category Nd, table `digitRanges`);
* `[a-zA-Z0-9\/_]` is ASCII; Groovy's class also contains the backslash;
* `findall` returns leftmost, non-overlapping matches; at one start position alternatives
  are tried in backtracking order (greedy: longest first; lazy: shortest first) and the first
  success is taken.
Everything is total and structurally recursive (`findAllGo`/`removeGo` walk the list with a
"characters still to skip" counter instead of jumping).
-/
namespace Heph.Diag

inductive Compiler
  | javac | kotlinc | groovyc | scalac
  deriving DecidableEq, Repr

/-! ## character classes -/

/-- code point ranges of Unicode category Nd as seen by `re` of the CPython in use
(Unicode 15.0); compared with the regenerated table by `Props.C14.digitTable_expected` -/
def digitRanges : List (Nat × Nat) :=
  [(48, 57), (1632, 1641), (1776, 1785), (1984, 1993), (2406, 2415), (2534, 2543), (2662, 2671),
   (2790, 2799), (2918, 2927), (3046, 3055), (3174, 3183), (3302, 3311), (3430, 3439), (3558, 3567),
   (3664, 3673), (3792, 3801), (3872, 3881), (4160, 4169), (4240, 4249), (6112, 6121), (6160, 6169),
   (6470, 6479), (6608, 6617), (6784, 6793), (6800, 6809), (6992, 7001), (7088, 7097), (7232, 7241),
   (7248, 7257), (42528, 42537), (43216, 43225), (43264, 43273), (43472, 43481), (43504, 43513),
   (43600, 43609), (44016, 44025), (65296, 65305), (66720, 66729), (68912, 68921), (69734, 69743),
   (69872, 69881), (69942, 69951), (70096, 70105), (70384, 70393), (70736, 70745), (70864, 70873),
   (71248, 71257), (71360, 71369), (71472, 71481), (71904, 71913), (72016, 72025), (72784, 72793),
   (73040, 73049), (73120, 73129), (73552, 73561), (92768, 92777), (92864, 92873), (93008, 93017),
   (120782, 120831), (123200, 123209), (123632, 123641), (124144, 124153), (125264, 125273),
   (130032, 130041)]

/-- `\d` -/
def isDigitPy (c : Char) : Bool := digitRanges.any fun r => r.1 ≤ c.toNat && c.toNat ≤ r.2

/-- `[a-zA-Z0-9\/_]` (Java, Kotlin) -/
def isClsJ (c : Char) : Bool := c.isAlphanum || c == '/' || c == '_'

/-- `[a-zA-Z0-9\\/_]` (Groovy: the class also contains the backslash) -/
def isClsG (c : Char) : Bool := isClsJ c || c == '\\'

/-! ## small pieces -/

/-- literal prefix; the rest after it -/
def eat : List Char → List Char → Option (List Char)
  | [], s => some s
  | _ :: _, [] => none
  | p :: ps, c :: cs => if p == c then eat ps cs else none

/-- `.*` : the text up to the next newline -/
def firstLine (s : List Char) : List Char := s.takeWhile (· != '\n')

/-- what follows `firstLine` (starts with the newline, or is empty) -/
def afterLine (s : List Char) : List Char := s.dropWhile (· != '\n')

/-- `\d+` followed by something that is not a digit: the rest (greedy; no shorter choice can
help because every continuation in the patterns starts with a non-digit literal) -/
def digits1 (s : List Char) : Option (List Char) :=
  match s with
  | c :: _ => if isDigitPy c then some (s.dropWhile isDigitPy) else none
  | [] => none

/-- `[ ]+` greedy -/
def spaces1 (s : List Char) : Option (List Char) :=
  match s with
  | c :: _ => if c == ' ' then some (s.dropWhile (· == ' ')) else none
  | [] => none

/-- `-+` greedy -/
def dashes1 (s : List Char) : Option (List Char) :=
  match s with
  | c :: _ => if c == '-' then some (s.dropWhile (· == '-')) else none
  | [] => none

/-- backtracking over a greedy quantifier: try `f n`, `f (n-1)`, …, `f 1` -/
def firstDown1 (f : Nat → Option α) : Nat → Option α
  | 0 => none
  | k + 1 => match f (k + 1) with
    | some x => some x
    | none => firstDown1 f k

/-- try `f n`, …, `f 0` -/
def firstDown0 (f : Nat → Option α) (n : Nat) : Option α :=
  match firstDown1 f n with
  | some x => some x
  | none => f 0

/-! ## the header `([cls]+.EXT):TAIL` shared by javac, kotlinc and groovyc

A match attempt that gives the class exactly `k` characters: then one arbitrary character
that is not a newline (the unescaped `.`), the extension, a colon, and the compiler specific
tail. Returned: the two groups and the length of the whole match. -/
def attemptHdr (ext : List Char) (tail : List Char → Option (List Char × Nat)) (s : List Char)
    (k : Nat) : Option ((List Char × List Char) × Nat) :=
  match s.drop k with
  | [] => none
  | c :: r1 =>
    if c == '\n' then none else
    match eat (ext ++ [':']) r1 with
    | none => none
    | some r3 =>
      match tail r3 with
      | none => none
      | some (g, n) => some ((s.take k ++ c :: ext, g), k + 1 + (ext.length + 1) + n)

/-- the class is greedy: longest run first, then shorter ones (backtracking) -/
def matchHdr (cls : Char → Bool) (ext : List Char) (tail : List Char → Option (List Char × Nat))
    (s : List Char) : Option ((List Char × List Char) × Nat) :=
  firstDown1 (attemptHdr ext tail s) (s.takeWhile cls).length

/-! ### javac: `([a-zA-Z0-9\/_]+.java):(\d+:[ ]+error:[ ]+.*)(.*?(?=\n{1,}))` -/

/-- `\d+:[ ]+error:[ ]+` at the start of a line -/
def javaShape (l : List Char) : Bool :=
  (do let r ← digits1 l
      let r ← eat [':'] r
      let r ← spaces1 r
      let r ← eat "error:".toList r
      spaces1 r).isSome

/-- group 2 is the rest of the line (`.*` is greedy, the lazy `.*?` stays empty) and the
look-ahead `(?=\n{1,})` asks for a newline right after it; the end of the text is not enough -/
def javaTail (r : List Char) : Option (List Char × Nat) :=
  let l := firstLine r
  if javaShape l && (afterLine r).head? == some '\n' then some (l, l.length) else none

def matchJava : List Char → Option ((List Char × List Char) × Nat) :=
  matchHdr isClsJ "java".toList javaTail

/-! ### kotlinc: `([a-zA-Z0-9\/_]+.kt):\d+:\d+:[ ]+error:[ ]+(.*)` -/

/-- `\d+:\d+:[ ]+error:[ ]+(.*)` on one line: the message -/
def kotlinMsg (l : List Char) : Option (List Char) := do
  let r ← digits1 l
  let r ← eat [':'] r
  let r ← digits1 r
  let r ← eat [':'] r
  let r ← spaces1 r
  let r ← eat "error:".toList r
  spaces1 r

def kotlinTail (r : List Char) : Option (List Char × Nat) :=
  let l := firstLine r
  match kotlinMsg l with
  | some m => some (m, l.length)
  | none => none

def matchKotlin : List Char → Option ((List Char × List Char) × Nat) :=
  matchHdr isClsJ "kt".toList kotlinTail

/-! ### groovyc: `([a-zA-Z0-9\\/_]+.groovy):([\s\S]*?(?=\n{2,}))` -/

/-- lazy `[\s\S]*?` up to the first place where two newlines follow; `none` if there is none -/
def untilBlank : List Char → Option (List Char)
  | [] => none
  | c :: tl =>
    if c == '\n' && tl.head? == some '\n' then some []
    else match untilBlank tl with
      | some b => some (c :: b)
      | none => none

def groovyTail (r : List Char) : Option (List Char × Nat) :=
  match untilBlank r with
  | some b => some (b, b.length)
  | none => none

def matchGroovy : List Char → Option ((List Char × List Char) × Nat) :=
  matchHdr isClsG "groovy".toList groovyTail

/-! ### scalac: `-- .*Error: (.*\.scala):\d+:\d+ -+\n((?:[^-]+))` -/

/-- `:\d+:\d+ -+` ; the rest -/
def scalaPos (r : List Char) : Option (List Char) := do
  let r ← eat [':'] r
  let r ← digits1 r
  let r ← eat [':'] r
  let r ← digits1 r
  let r ← eat [' '] r
  dashes1 r

/-- group 1 gets `b` characters before `.scala`; then the position, the dashes, a newline and
at least one character that is not a dash -/
def scalaAttemptB (total : Nat) (r2 : List Char) (b : Nat) : Option ((List Char × List Char) × Nat) :=
  match eat ".scala".toList (r2.drop b) with
  | none => none
  | some r3 =>
    match scalaPos r3 with
    | some ('\n' :: body) =>
      let m := body.takeWhile (· != '-')
      if m.isEmpty then none
      else some ((r2.take b ++ ".scala".toList, m), total - body.length + m.length)
    | _ => none

/-- the first `.*` gets `a` characters -/
def scalaAttemptA (total : Nat) (r : List Char) (a : Nat) : Option ((List Char × List Char) × Nat) :=
  match eat "Error: ".toList (r.drop a) with
  | none => none
  | some r2 => firstDown0 (scalaAttemptB total r2) (firstLine r2).length

def matchScala (s : List Char) : Option ((List Char × List Char) × Nat) :=
  match eat "-- ".toList s with
  | none => none
  | some r => firstDown0 (scalaAttemptA s.length r) (firstLine r).length

/-! ## `re.findall`: leftmost, non-overlapping -/

def findAllGo (m : List Char → Option (α × Nat)) : List Char → Nat → List α
  | [], _ => []
  | _ :: tl, skip + 1 => findAllGo m tl skip
  | c :: tl, 0 =>
    match m (c :: tl) with
    | some (x, n) => x :: findAllGo m tl (n - 1)
    | none => findAllGo m tl 0

def findAll (m : List Char → Option (α × Nat)) (s : List Char) : List α := findAllGo m s 0

def matcher : Compiler → List Char → Option ((List Char × List Char) × Nat)
  | .javac => matchJava
  | .kotlinc => matchKotlin
  | .groovyc => matchGroovy
  | .scalac => matchScala

/-! ## `re.search(CRASH_REGEX, ·)` -/

/-- a literal in which `none` stands for an unescaped `.` -/
def eatW : List (Option Char) → List Char → Bool
  | [], _ => true
  | _ :: _, [] => false
  | p :: ps, c :: cs =>
    (match p with
     | some x => x == c
     | none => c != '\n') && eatW ps cs

/-- does the (wildcard) literal occur anywhere -/
def searchW (pat : List (Option Char)) : List Char → Bool
  | [] => eatW pat []
  | c :: tl => eatW pat (c :: tl) || searchW pat tl

/-- `(LIT.*)\n(.*)`: the literal occurs and a newline comes somewhere after it -/
def searchThenNl (pat : List Char) : List Char → Bool
  | [] => false
  | c :: tl => (pat.isPrefixOf (c :: tl) && (c :: tl).contains '\n') || searchThenNl pat tl

def lit (s : String) : List (Option Char) := s.toList.map some

/-- `(at org.codehaus.groovy)(.*)` : the two dots are not escaped -/
def groovyCrashPat : List (Option Char) :=
  lit "at org" ++ [none] ++ lit "codehaus" ++ [none] ++ lit "groovy"

/-- `(.*java.lang.StackOverflowError)(.*)` -/
def groovyStackOverflowPat : List (Option Char) :=
  lit "java" ++ [none] ++ lit "lang" ++ [none] ++ lit "StackOverflowError"

/-! ### javac's `CRASH_REGEX`: two variants

The pattern as found, `(java\.lang.*)\n(.*)`, fires on any `java.lang` that is followed by a newline
(finding `java:crash-regex-on-quoted-java.lang`); the repaired pattern
`(java\.lang.*)\n([ \t]+at .*)` also asks for a stack frame line right after the line that
names `java.lang`. The scanner follows whichever of the two the regenerated pattern string
(`Heph.Generated.javaCrashRegex`) is. -/

inductive JavaCrashVariant
  | asis | framed
  deriving DecidableEq, Repr

def javaCrashPatternAsis : String := "(java\\.lang.*)\\n(.*)"
def javaCrashPatternFramed : String := "(java\\.lang.*)\\n([ \\t]+at .*)"

def javaCrashVariantOf (pattern : String) : Option JavaCrashVariant :=
  if pattern == javaCrashPatternAsis then some .asis
  else if pattern == javaCrashPatternFramed then some .framed
  else none

/-- the variant the tree under check implements (an unknown pattern is treated as the repaired
one; `Props.C14.javaCrashPattern_expected` fails for it) -/
def javaCrashVariant : JavaCrashVariant :=
  match javaCrashVariantOf Heph.Generated.javaCrashRegex with
  | some v => v
  | none => .framed

/-- `[ \t]` -/
def isBlank (c : Char) : Bool := c == ' ' || c == '\t'

/-- `[ \t]+at ` at the start of a line (greedy blanks; giving one back cannot help because the
next character would be a blank, not `a`) -/
def frameLine (s : List Char) : Bool :=
  match s with
  | c :: _ => isBlank c && "at ".toList.isPrefixOf (s.dropWhile isBlank)
  | [] => false

/-- `(LIT.*)\n([ \t]+at .*)`: the literal occurs, its line is ended by a newline (`.` does not
match one, so `\n` can only be the end of that very line) and the next line is a frame line -/
def searchThenFrame (pat : List Char) : List Char → Bool
  | [] => false
  | c :: tl =>
    (pat.isPrefixOf (c :: tl) && (match afterLine (c :: tl) with
      | '\n' :: nxt => frameLine nxt
      | _ => false)) || searchThenFrame pat tl

def crashSearchV (v : JavaCrashVariant) : Compiler → List Char → Bool
  | .javac => (match v with
      | .asis => searchThenNl "java.lang".toList           -- `(java\.lang.*)\n(.*)`
      | .framed => searchThenFrame "java.lang".toList)     -- `(java\.lang.*)\n([ \t]+at .*)`
  | .kotlinc => searchThenNl "org.jetbrains.".toList         -- `(org\.jetbrains\..*)\n(.*)`
  | .groovyc => searchW groovyCrashPat
  | .scalac => searchW (lit "at dotty")                      -- `.*at dotty(.*)`

/-- the crash test of the tree under check -/
def crashSearch (c : Compiler) (out : List Char) : Bool := crashSearchV javaCrashVariant c out

def stackOverflowSearch (out : List Char) : Bool := searchW groovyStackOverflowPat out

/-! ## `re.sub(p, '', ·)` for a literal `p` -/

def removeGo (pat : List Char) : List Char → Nat → List Char
  | [], _ => []
  | _ :: tl, skip + 1 => removeGo pat tl skip
  | c :: tl, 0 =>
    if pat.isPrefixOf (c :: tl) then removeGo pat tl (pat.length - 1)
    else c :: removeGo pat tl 0

def removeLit (pat s : List Char) : List Char :=
  if pat.isEmpty then s else removeGo pat s 0

def applyFilters (ps : List (List Char)) (s : List Char) : List Char :=
  ps.foldl (fun acc p => removeLit p acc) s

/-! ## `analyze_compiler_output` -/

abbrev Failed := List (List Char × List (List Char))

/-- `failed[filename].append(msg)` on a `defaultdict(list)`: insertion order of first keys -/
def insertMsg (f m : List Char) : Failed → Failed
  | [] => [(f, [m])]
  | (g, ms) :: rest => if g == f then (g, ms ++ [m]) :: rest else (g, ms) :: insertMsg f m rest

def groupMsgs (ms : List (List Char × List Char)) : Failed :=
  ms.foldl (fun acc p => insertMsg p.1 p.2 acc) []

structure Result where
  crash : Bool
  failed : Failed
  deriving DecidableEq, Repr

/-- `get_filename(match) = match[0]`, `get_error_msg(match) = match[1]` for all four compilers
(the scanners return exactly these two groups). The crash test reads the unfiltered output. -/
def analyze (c : Compiler) (filters : List (List Char)) (out : List Char) : Result :=
  if crashSearch c out then ⟨true, []⟩
  else
    let ms := findAll (matcher c) (applyFilters filters out)
    if c == .groovyc && stackOverflowSearch out && ms.isEmpty then ⟨true, []⟩
    else ⟨false, groupMsgs ms⟩

/-- the same with an explicit javac crash variant (`analyze = analyzeV javaCrashVariant`) -/
def analyzeV (v : JavaCrashVariant) (c : Compiler) (filters : List (List Char)) (out : List Char) :
    Result :=
  if crashSearchV v c out then ⟨true, []⟩
  else
    let ms := findAll (matcher c) (applyFilters filters out)
    if c == .groovyc && stackOverflowSearch out && ms.isEmpty then ⟨true, []⟩
    else ⟨false, groupMsgs ms⟩

theorem analyze_eq_analyzeV : analyze = analyzeV javaCrashVariant := rfl

end Heph.Diag
