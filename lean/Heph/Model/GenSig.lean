import Heph.Model.Subst
/-!
# Decision points `_gen_func_from_existing` (signature of an overriding function) and
# `_gen_func_call` (expected types of the call arguments)

```
# _gen_func_from_existing(func, type_var_map, class_is_final, is_interface)
params = deepcopy(func.params)
type_params, substituted_type_params = self._gen_type_params_from_existing(func, type_var_map)   # random names
type_param_names = [t.name for t in type_params]
ret_type = func.ret_type
for p in params:
    sub_type_map = {k: v for k, v in type_var_map.items() if k.name not in type_param_names}
    old = p.get_type()
    p.param_type = tp.substitute_type(p.get_type(), sub_type_map)
    sub = old != p.get_type()
    if not sub:
        p.param_type = tp.substitute_type(p.get_type(), substituted_type_params)
    p.default = None
... the same for ret_type ...
new_func = self.gen_func_decl(func_name=func.name, etype=ret_type, params=params, type_params=type_params, ...)
```
`type_var_map` is the map of the superclass instantiation (`SuperClassInfo.type_var_map`).

```
# _gen_func_call, after the callee `rand_func` is drawn
params_map = rand_func.receiver_inst; params_map.update(func_type_map or {})
for param in func.params:
    expr_type = tp.substitute_type(param.get_type(), params_map)
    if not param.vararg: arg = self.generate_expr(expr_type, only_leaves, gen_bottom=gen_bottom) ...
    else:
        for _ in range(ut.random.integer(0, 3)):
            args.append(ast.CallArgument(self.generate_expr(expr_type.type_args[0], only_leaves, gen_bottom=gen_bottom)))
```
-/
namespace Heph
namespace Check
open Heph.Ty

/-- `k.name` of a key of a type-variable map (keys are `TypeParameter`s) -/
def keyName : Ty → String
  | tparam nm _ _ => nm
  | t => getName t

/-- `{k: v for k, v in type_var_map.items() if k.name not in type_param_names}` -/
def restrictMap (m : TMap) (tpNames : List String) : TMap :=
  m.filter fun p => !tpNames.contains (keyName p.1)

/-- one component of the overriding signature: substitute with the restricted superclass map;
    when that gives a type `==` to the old one, apply the renaming of the function's own type
    parameters to the (substituted) type -/
def overrideComponent (m : TMap) (tpNames : List String) (ren : TMap) (old : Ty) : Ty :=
  let t := substituteType old (restrictMap m tpNames)
  if beq old t then substituteType t ren else t

/-- the parameter types and the return type `_gen_func_from_existing` hands to `gen_func_decl` -/
def overrideSig (m : TMap) (tpNames : List String) (ren : TMap) (params : List Ty) (ret : Ty) :
    List Ty × Ty :=
  (params.map (overrideComponent m tpNames ren), overrideComponent m tpNames ren ret)

/-- `params_map.update(func_type_map or {})` -/
def mapUpdate (m upd : TMap) : TMap := upd.foldl (fun acc kv => TMap.set acc kv.1 kv.2) m

/-- a parameter of the callee: `get_type()`, `vararg` -/
structure CallParam where
  ty : Ty
  vararg : Bool
deriving Inhabited

/-- the type a call argument bound to `p` is generated at; `none` = `IndexError` /
    `AttributeError` of `expr_type.type_args[0]` -/
def callArgType (m : TMap) (p : CallParam) : Option Ty :=
  let t := substituteType p.ty m
  if p.vararg then (match t with | param _ _ (a :: _) _ => some a | _ => none) else some t

/-- the refinement checked on every recorded call of `_gen_func_call`: the expected types handed
    to `generate_expr`, in order, are one per ordinary parameter and `0..3` per vararg parameter
    (`counts`: the random numbers drawn, recovered by the harness), each the parameter's type under
    the final `params_map` -/
def callArgsExpected (m : TMap) : List CallParam → List Nat → Option (List Ty)
  | [], _ => some []
  | p :: ps, counts =>
      if p.vararg then
        match counts with
        | [] => none
        | k :: counts' =>
            (match callArgType m p, callArgsExpected m ps counts' with
             | some t, some rest => some (List.replicate k t ++ rest)
             | none, some rest => if k == 0 then some rest else none
             | _, none => none)
      else
        match callArgType m p, callArgsExpected m ps counts with
        | some t, some rest => some (t :: rest)
        | _, _ => none

end Check
end Heph
