/-!
# Model of `src/ir/context.py`

`Context` keeps two Python dictionaries:

* `_context : namespace ↦ {'types','funcs','lambdas','vars','classes','decls' ↦ {name ↦ value}}`
  — all of them insertion ordered (`dict` / `OrderedDict`): overwriting a key keeps its
  position, deleting and re-adding moves it to the end;
* `_namespaces : value ↦ namespace`, the reverse index, keyed by Python `==`/`hash` of the
  *value*.

Namespaces (tuples of strings) are `List String`.  The values the repository registers are
AST nodes (compared by identity), `TypeParameter`s (compared structurally: two different
objects can be equal) and `None` (the generator registers `None` as an artificial
declaration).  `Val` keeps exactly what the code can observe of a value: its equality class,
its truthiness (`if decl:` in the module function `get_decl`), whether it `is None` and
whether it is a `ClassDeclaration` (`get_parent_class`).

Insertion-ordered dictionaries are association lists with `aSet` (overwrite in place, else
append) and `aDel`.  Every public method of the class is modelled, branch by branch, with
exceptions as result tags.  The two worklist loops (`_get_declarations_glob`,
`get_namespaces_decls`) take explicit fuel and answer `none` when it runs out; the fuel the
top-level functions pass (`walkFuel`) is proved adequate in `Heph/Proofs/ContextGlob.lean`.
Loops that shorten the namespace by one element per round (`get_parent_class`, module
`get_decl`) are structural recursions over the reversed namespace.
-/
namespace Heph.Context

abbrev Ns := List String

/-- a registered value, as far as `context.py` can observe it -/
inductive Val
  /-- an AST node: identity `id`; `isClass` = `isinstance(v, ast.ClassDeclaration)` -/
  | node (id : Nat) (isClass : Bool)
  /-- a `TypeParameter`; `key` names its `==`-class (name, variance, bound) -/
  | tparam (key : String)
  /-- Python `None` -/
  | none
  deriving DecidableEq, Repr, Inhabited

/-- `bool(v)`: AST nodes and types define neither `__bool__` nor `__len__` -/
def Val.truthy : Val → Bool
  | .none => false
  | _ => true

def Val.isNone : Val → Bool
  | .none => true
  | _ => false

/-- `isinstance(v, ast.ClassDeclaration)` -/
def Val.isClassDecl : Val → Bool
  | .node _ b => b
  | _ => false

/-- the six maps of a namespace -/
inductive Kind
  | types | funcs | lambdas | vars | classes | decls
  deriving DecidableEq, Repr, Inhabited

/-- the five entity kinds of the public `add_*`/`remove_*` methods -/
inductive EKind
  | types | funcs | lambdas | vars | classes
  deriving DecidableEq, Repr, Inhabited

def EKind.toKind : EKind → Kind
  | .types => .types | .funcs => .funcs | .lambdas => .lambdas | .vars => .vars | .classes => .classes

/-- `add_func`, `add_var`, `add_class` also write `'decls'` -/
def EKind.binds : EKind → Bool
  | .funcs | .vars | .classes => true
  | .types | .lambdas => false

/-! ## insertion-ordered dictionaries -/

section AList
variable {κ : Type} {β : Type} [DecidableEq κ]

/-- `d.get(k)` -/
def aGet : List (κ × β) → κ → Option β
  | [], _ => none
  | (k', v) :: r, k => if k' = k then some v else aGet r k

/-- `k in d` -/
def aHas (d : List (κ × β)) (k : κ) : Bool := (aGet d k).isSome

/-- `d[k] = v`: an existing key keeps its position, a new key goes to the end -/
def aSet : List (κ × β) → κ → β → List (κ × β)
  | [], k, v => [(k, v)]
  | (k', v') :: r, k, v => if k' = k then (k', v) :: r else (k', v') :: aSet r k v

/-- `del d[k]` (for a key that may be absent: `d.pop(k, None)`) -/
def aDel (d : List (κ × β)) (k : κ) : List (κ × β) := d.filter (fun e => e.1 ≠ k)

/-- `d.keys()` -/
def aKeys (d : List (κ × β)) : List κ := d.map (·.1)

/-- `d1.update(d2)` -/
def aUpdate (d1 d2 : List (κ × β)) : List (κ × β) := d2.foldl (fun a e => aSet a e.1 e.2) d1

end AList

abbrev Dict := List (String × Val)

/-- the `{k: v for k, v in decls.items() if v is not None}` of `_get_declarations` -/
def dropNone (d : Dict) : Dict := d.filter (fun e => !e.2.isNone)

structure Entities where
  types : Dict := []
  funcs : Dict := []
  lambdas : Dict := []
  vars : Dict := []
  classes : Dict := []
  decls : Dict := []
  deriving DecidableEq, Repr, Inhabited

def Entities.get (e : Entities) : Kind → Dict
  | .types => e.types | .funcs => e.funcs | .lambdas => e.lambdas
  | .vars => e.vars | .classes => e.classes | .decls => e.decls

def Entities.set (e : Entities) (k : Kind) (d : Dict) : Entities :=
  match k with
  | .types => { e with types := d } | .funcs => { e with funcs := d }
  | .lambdas => { e with lambdas := d } | .vars => { e with vars := d }
  | .classes => { e with classes := d } | .decls => { e with decls := d }

structure Ctx where
  /-- `self._context` -/
  context : List (Ns × Entities) := []
  /-- `self._namespaces` (its order is not observable) -/
  namespaces : List (Val × Ns) := []
  deriving DecidableEq, Repr, Inhabited

def Ctx.empty : Ctx := {}

/-! ## mutators -/

/-- `_add_entity` -/
def addEntity (c : Ctx) (ns : Ns) (k : Kind) (name : String) (v : Val) : Ctx :=
  let ents := match aGet c.context ns with
    | some e => e
    | none => ({} : Entities)
  { context := aSet c.context ns (ents.set k (aSet (ents.get k) name v)),
    namespaces := aSet c.namespaces v ns }

/-- `_remove_entity` -/
def removeEntity (c : Ctx) (ns : Ns) (k : Kind) (name : String) : Ctx :=
  match aGet c.context ns with
  | none => c
  | some e =>
    match aGet (e.get k) name with
    | none => c
    | some decl =>
      { context := aSet c.context ns (e.set k (aDel (e.get k) name)),
        namespaces := aDel c.namespaces decl }

/-- `add_type`, `add_func`, `add_lambda`, `add_var`, `add_class` -/
def addK (c : Ctx) (k : EKind) (ns : Ns) (name : String) (v : Val) : Ctx :=
  let c1 := addEntity c ns k.toKind name v
  if k.binds then addEntity c1 ns .decls name v else c1

/-- `remove_type`, `remove_func`, `remove_lambda`, `remove_var`, `remove_class` -/
def removeK (c : Ctx) (k : EKind) (ns : Ns) (name : String) : Ctx :=
  let c1 := removeEntity c ns k.toKind name
  if k.binds then removeEntity c1 ns .decls name else c1

/-- `remove_namespace` -/
def removeNamespace (c : Ctx) (ns : Ns) : Ctx :=
  { c with context := aDel c.context ns }

/-! ## queries -/

/-- `self._context.get(namespace, {}).get(kind, {})` -/
def current (c : Ctx) (ns : Ns) (k : Kind) : Dict :=
  match aGet c.context ns with
  | some e => e.get k
  | none => []

inductive Res (α : Type)
  | ok (a : α)
  | assertionError
  | indexError
  /-- the model's fuel ran out (never the case for the top-level functions: adequacy theorem) -/
  | fuel
  deriving DecidableEq, Repr

def Res.ofOption {α : Type} : Option α → Res α
  | some a => .ok a
  | none => .fuel

/-- the namespaces `find_namespaces(namespace, none)` lists (its `assert` apart):
    one per function name, then one per class name, of the current namespace only -/
def children (c : Ctx) (ns : Ns) (keepNone : Bool) : List Ns :=
  let f := fun (d : Dict) => if keepNone then d else dropNone d
  (aKeys (f (current c ns .funcs))).map (fun n => ns ++ [n]) ++
  (aKeys (f (current c ns .classes))).map (fun n => ns ++ [n])

/-- `find_namespaces`: `get_funcs(namespace, True, none=none)` asserts `len(namespace) >= 1` -/
def findNamespaces (c : Ctx) (ns : Ns) (keepNone : Bool) : Res (List Ns) :=
  if ns = [] then .assertionError else .ok (children c ns keepNone)

/-- the `while namespaces` loop of `_get_declarations_glob`.  The Python list `namespaces`
    is kept reversed (head = the element `pop()` takes; `extend` puts the new elements,
    reversed, in front). -/
def globWalk (c : Ctx) (k : Kind) : Nat → List Ns → Dict → Option Dict
  | _, [], acc => some acc
  | 0, _ :: _, _ => none
  | f+1, ns :: st, acc =>
    globWalk c k f ((children c ns true).reverse ++ st) (aUpdate acc (current c ns k))

/-- longest registered namespace -/
def maxLen (c : Ctx) : Nat := (c.context.map (·.1.length)).foldl max 0

/-- number of `pop()`s of a walk started at `ns` that may descend `d` more levels -/
def cost (c : Ctx) (keepNone : Bool) : Nat → Ns → Nat
  | 0, _ => 1
  | d+1, ns => 1 + ((children c ns keepNone).map (cost c keepNone d)).sum

/-- the fuel the top-level walks use: below an unregistered namespace there is nothing -/
def walkFuel (c : Ctx) (keepNone : Bool) (ns : Ns) : Nat :=
  cost c keepNone (maxLen c + 1 - ns.length) ns

/-- `_get_declarations_glob(namespace, decl_type)` for a non-empty namespace with first
    element `root` -/
def globDecls (c : Ctx) (root : String) (k : Kind) : Option Dict :=
  globWalk c k (walkFuel c true [root]) [[root]] []

/-- the path mode of `_get_declarations`: `OrderedDict` of the root updated along the path -/
def pathUnionGo (c : Ctx) (k : Kind) : Ns → List String → Dict → Dict
  | _, [], acc => acc
  | start, x :: rest, acc =>
    pathUnionGo c k (start ++ [x]) rest (aUpdate acc (current c (start ++ [x]) k))

def pathUnion (c : Ctx) (ns : Ns) (k : Kind) : Dict :=
  match ns with
  | [] => []
  | r :: rest => pathUnionGo c k [r] rest (current c [r] k)

/-- `_get_declarations(namespace, decl_type, only_current, glob, none)` -/
def getDeclarations (c : Ctx) (ns : Ns) (k : Kind) (onlyCurrent glob keepNone : Bool) : Res Dict :=
  match ns with
  | [] => .assertionError
  | r :: rest =>
    let decls : Option Dict :=
      if glob then globDecls c r k
      else if rest = [] || onlyCurrent then some (current c ns k)
      else some (pathUnion c ns k)
    match decls with
    | Option.none => .fuel
    | some d => .ok (if keepNone then d else dropNone d)

/-- a Python `set`: insert if absent (the driver sorts) -/
def setAdd {α : Type} [DecidableEq α] (s : List α) (a : α) : List α :=
  if s.contains a then s else s ++ [a]

/-- the `while namespaces` loop of `get_namespaces_decls` (stack reversed as in `globWalk`) -/
def nsDeclsWalk (c : Ctx) (name : String) (k : Kind) :
    Nat → List Ns → List (Ns × Val) → Option (List (Ns × Val))
  | _, [], acc => some acc
  | 0, _ :: _, _ => none
  | f+1, ns :: st, acc =>
    let acc' := (current c ns k).foldl
      (fun a e => if e.1 = name then setAdd a (ns ++ [name], e.2) else a) acc
    nsDeclsWalk c name k f ((children c ns false).reverse ++ st) acc'

/-- `get_namespaces_decls(namespace, name, decl_type, glob)` -/
def getNamespacesDecls (c : Ctx) (ns : Ns) (name : String) (k : Kind) (glob : Bool) :
    Res (List (Ns × Val)) :=
  if glob then
    match ns with
    | [] => .indexError                                     -- `namespace[0]`
    | r :: _ => Res.ofOption (nsDeclsWalk c name k (walkFuel c false [r]) [[r]] [])
  else if ns = [] then .assertionError                      -- `find_namespaces(())`
  else Res.ofOption (nsDeclsWalk c name k (walkFuel c false ns) [ns] [])

/-- the method `get_decl(namespace, name)`: `None` both for "absent" and for a registered `None` -/
def getDeclM (c : Ctx) (ns : Ns) (name : String) : Val :=
  match aGet (current c ns .decls) name with
  | some v => v
  | none => .none

/-- `get_lambda(namespace, name)` -/
def getLambda (c : Ctx) (ns : Ns) (name : String) : Val :=
  match aGet (current c ns .lambdas) name with
  | some v => v
  | none => .none

/-- `utils.prefix_lst(prefix, lst)`: `any(prefix == lst[:i] for i in range(1, len(prefix) + 1))` -/
def prefixLst (p l : Ns) : Bool := (List.range p.length).any (fun i => p == l.take (i + 1))

/-- `get_declarations_in(namespace)` -/
def getDeclarationsIn (c : Ctx) (ns : Ns) : List (Ns × Dict) :=
  (c.context.filter (fun e => prefixLst ns e.1)).map (fun e => (e.1, e.2.decls))

/-- what `type(...)` of a value can be told apart in the model -/
inductive TypeTag
  | noneType | classDeclaration | otherNode | typeParameter
  deriving DecidableEq, Repr

/-- `get_decl_type(namespace, name)` -/
def getDeclType (c : Ctx) (ns : Ns) (name : String) : TypeTag :=
  match getDeclM c ns name with
  | .none => .noneType
  | .tparam _ => .typeParameter
  | .node _ true => .classDeclaration
  | .node _ false => .otherNode

/-- `get_namespace(decl)` -/
def getNamespace (c : Ctx) (v : Val) : Option Ns := aGet c.namespaces v

/-- `get_parent(namespace)` -/
def getParent (c : Ctx) (ns : Ns) : Val :=
  if ns.length < 2 then .none
  else
    let p := ns.dropLast
    getDeclM c p.dropLast (p.getLastD "")

/-- `'lambda_' in s` -/
def hasInfix (p : List Char) : List Char → Bool
  | [] => p.isEmpty
  | ch :: cs => p.isPrefixOf (ch :: cs) || hasInfix p cs

def isLambdaName (s : String) : Bool := hasInfix "lambda_".toList s.toList

/-- `get_parent_class` over the *reversed* namespace (`namespace[:-1]` is the tail) -/
def getParentClassRev (c : Ctx) : List String → Val
  | [] => .none
  | x :: rest =>
    let ns := (x :: rest).reverse
    let parent := getParent c ns
    if parent.isNone && !(decide (ns.length > 2) && isLambdaName (rest.headD "")) then .none
    else if parent.isClassDecl then parent
    else getParentClassRev c rest

/-- `get_parent_class(namespace)` -/
def getParentClass (c : Ctx) (ns : Ns) : Val := getParentClassRev c ns.reverse

/-- `stop_cond` of the module function `get_decl` -/
def stopCond (limit : Option Ns) (ns : Ns) : Bool :=
  match limit with
  | none => ns.length != 0
  | some l => prefixLst l ns

/-- the `while stop_cond(namespace)` loop of the module function `get_decl`, over the
    *reversed* namespace.  `stop_cond(())` is false whatever the limit (`stopCond_nil`). -/
def getDeclRev (c : Ctx) (name : String) (limit : Option Ns) : List String → Option (Ns × Val)
  | [] => none
  | x :: rest =>
    let ns := (x :: rest).reverse
    if stopCond limit ns then
      -- `context.get_declarations(namespace, True)`: current namespace, `None`s dropped
      match aGet (dropNone (current c ns .decls)) name with
      | some v => if v.truthy then some (ns, v) else getDeclRev c name limit rest
      | none => getDeclRev c name limit rest
    else none

/-- module function `get_decl(context, namespace, decl_name, limit)` -/
def getDecl (c : Ctx) (ns : Ns) (name : String) (limit : Option Ns) : Option (Ns × Val) :=
  getDeclRev c name limit ns.reverse

/-! ## operation histories -/

inductive Op
  | add (k : EKind) (ns : Ns) (name : String) (v : Val)
  | remove (k : EKind) (ns : Ns) (name : String)
  | removeNamespace (ns : Ns)
  deriving DecidableEq, Repr

def step (c : Ctx) : Op → Ctx
  | .add k ns name v => addK c k ns name v
  | .remove k ns name => removeK c k ns name
  | .removeNamespace ns => removeNamespace c ns

def run (ops : List Op) : Ctx := ops.foldl step Ctx.empty

end Heph.Context
