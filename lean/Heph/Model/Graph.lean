/-!
# Model of `src/graph_utils.py`

A graph is the Python `dict` `vertex ↦ list of neighbours` in insertion order; vertices are
natural numbers (the harness numbers the hashable vertices of the real graph).  For `dfs`
the values are lists of `Edge` objects, modelled by the list of their `target`s.

Worklist algorithms take an explicit fuel and answer `none` when it runs out, so that fuel
never makes a theorem true for the wrong reason; `Heph/Proofs/Graph*.lean` proves that the
fuel used by the top-level functions is always enough.

`visited = {v: False for v in graph.keys()}` is modelled by the list `rem` of keys that are
still `False` (a neighbour that is not a key is never in `rem`, exactly like
`vertex in visited and not visited[vertex]`).
-/
namespace Heph.Graph

abbrev Graph := List (Nat × List Nat)

def keys (g : Graph) : List Nat := g.map (·.1)

/-- `graph[v]` for a key, `[]` otherwise (`graph.get(v, [])`). -/
def adj (g : Graph) (v : Nat) : List Nat :=
  match g.find? (·.1 == v) with
  | some p => p.2
  | none => []

/-- Python dictionaries have unique keys. -/
def WFG (g : Graph) : Prop := (keys g).Nodup

/-- the `for vertex in graph[next_v]` loop of `reachable`/`connected`:
    enqueue and mark every neighbour that is an unvisited key -/
def visitAdj : List Nat → List Nat → List Nat → List Nat × List Nat
  | [], q, r => (q, r)
  | w :: ws, q, r =>
    if r.contains w then visitAdj ws (q ++ [w]) (r.erase w) else visitAdj ws q r

/-- the `while queue` loop of `reachable` -/
def bfs (g : Graph) (d : Nat) : Nat → List Nat → List Nat → Option Bool
  | 0, _, _ => none
  | _+1, [], _ => some false
  | f+1, v :: q, r =>
    if v == d then some true
    else
      let qr := visitAdj (adj g v) q r
      bfs g d f qr.1 qr.2

/-- `reachable(graph, start_vertex, dest_vertex)` -/
def reachable (g : Graph) (s d : Nat) : Option Bool :=
  if (keys g).contains s then bfs g d ((keys g).length + 1) [s] ((keys g).erase s)
  else some false

/-- `bi_reachable`: Python `or` short-circuits -/
def biReachable (g : Graph) (s d : Nat) : Option Bool :=
  match reachable g s d with
  | some true => some true
  | some false => reachable g d s
  | none => none

/-- the `for node, adjs in graph.items()` loop of `connected` for the popped vertex `v` -/
def connItems (v : Nat) : Graph → List Nat → List Nat → List Nat × List Nat
  | [], q, r => (q, r)
  | (node, adjs) :: rest, q, r =>
    let qr1 := if v == node then visitAdj adjs q r else (q, r)
    let qr2 := if adjs.contains v && qr1.2.contains node
               then (qr1.1 ++ [node], qr1.2.erase node) else qr1
    connItems v rest qr2.1 qr2.2

def cbfs (g : Graph) (d : Nat) : Nat → List Nat → List Nat → Option Bool
  | 0, _, _ => none
  | _+1, [], _ => some false
  | f+1, v :: q, r =>
    if v == d then some true
    else
      let qr := connItems v g q r
      cbfs g d f qr.1 qr.2

/-- `connected(graph, start_vertex, dest_vertex)` -/
def connected (g : Graph) (s d : Nat) : Option Bool :=
  if (keys g).contains s then cbfs g d ((keys g).length + 1) [s] ((keys g).erase s)
  else some false

/-- all targets occurring in the graph -/
def targets (g : Graph) : List Nat := g.flatMap (·.2)

/-- the recursive `_dfs` as a worklist: `vis` is the set of vertices marked `True`
    (keys and non-keys alike, as `visited[n] = True` creates the entry). -/
def dfsLoop (g : Graph) : Nat → List Nat → List Nat → Option (List Nat)
  | 0, _, _ => none
  | _+1, [], vis => some vis
  | f+1, n :: stack, vis =>
    if vis.contains n then dfsLoop g f stack vis
    else dfsLoop g f (adj g n ++ stack) (vis ++ [n])

def dfsFuel (g : Graph) : Nat := (targets g).length + (keys g).length + 2

/-- `dfs(graph, source)`: the marked vertices other than the source (a Python `set`;
    here in marking order, compared as a set) -/
def dfs (g : Graph) (s : Nat) : Option (List Nat) :=
  (dfsLoop g (dfsFuel g) (adj g s) [s]).map (·.filter (· != s))

/-- `find_all_paths(graph, start, path)`; the fuel bounds the recursion depth -/
def allPathsAux (g : Graph) : Nat → Nat → List Nat → Option (List (List Nat))
  | 0, _, _ => none
  | f+1, start, path =>
    let path' := path ++ [start]
    if !(keys g).contains start then some [path']
    else
      (adj g start).foldl (fun acc node =>
        match acc with
        | none => none
        | some paths =>
          if path'.contains node then some paths
          else match allPathsAux g f node path' with
            | none => none
            | some new => some (paths ++ new)) (some [path'])

def findAllPaths (g : Graph) (s : Nat) : Option (List (List Nat)) :=
  allPathsAux g ((keys g).length + 2) s []

/-- the inner `exist(x, y)` of `find_longest_paths` -/
def existIn (x y : List Nat) : Bool :=
  x.length < y.length && y.take x.length == x

/-- `find_longest_paths(graph, vertex)` -/
def findLongestPaths (g : Graph) (s : Nat) : Option (List (List Nat)) :=
  (findAllPaths g s).map fun paths =>
    if paths.length == 1 then paths
    else paths.filter fun x => !(paths.any fun p => existIn x p)

/-- insertion of a vertex into a Python set, kept as a duplicate-free list -/
def setAdd (s : List Nat) (x : Nat) : List Nat := if s.contains x then s else s ++ [x]

/-- `find_all_reachable` (a set) -/
def findAllReachable (g : Graph) (s : Nat) : Option (List Nat) :=
  (findLongestPaths g s).map fun paths => paths.foldl (fun acc p => p.foldl setAdd acc) []

def allM (xs : List Nat) (f : Nat → Option Bool) : Option (List Nat) :=
  xs.foldl (fun acc n => match acc, f n with
    | some l, some true => some (l ++ [n])
    | some l, some false => some l
    | _, _ => none) (some [])

/-- `find_all_bi_reachable` (a set, in key order) -/
def findAllBiReachable (g : Graph) (v : Nat) : Option (List Nat) :=
  allM (keys g) fun n => biReachable g v n

/-- `find_all_connected` (a set, in key order) -/
def findAllConnected (g : Graph) (v : Nat) : Option (List Nat) :=
  allM (keys g) fun n => connected g v n

def anyM (xs : List Nat) (f : Nat → Option Bool) : Option Bool :=
  match xs with
  | [] => some false
  | x :: xs => match f x with
    | some true => some true
    | some false => anyM xs f
    | none => none

/-- `none_reachable(graph, vertex, none_node)`; the iteration order of the Python set does
    not matter for the answer (an `any` of pure tests) -/
def noneReachable (g : Graph) (v nn : Nat) : Option Bool :=
  match findAllBiReachable g v with
  | some l => anyM l fun x => biReachable g x nn
  | none => Option.none

def noneConnected (g : Graph) (v nn : Nat) : Option Bool :=
  match findAllConnected g v with
  | some l => anyM l fun x => connected g x nn
  | none => Option.none

inductive SrcRes
  | ok (l : List Nat)
  | keyError
  | fuel
deriving Repr, BEq, DecidableEq

/-- predecessors of `v` in key order: `[n for n in graph.keys() if source in graph[n]]` -/
def preds (g : Graph) (v : Nat) : List Nat :=
  (g.filter fun p => p.2.contains v).map (·.1)

/-- the `while len(stack) > 0` loop of `find_sources`; `stack` has its top at the head -/
def srcLoop (g : Graph) : Nat → List Nat → List Nat → List Nat → SrcRes
  | 0, _, _, _ => .fuel
  | _+1, [], _, sources => .ok sources
  | f+1, v :: stack, vis, sources =>
    if !(keys g).contains v then .keyError
    else if vis.contains v then srcLoop g f stack vis sources
    else
      let ps := preds g v
      if ps.isEmpty then srcLoop g f stack (vis ++ [v]) (sources ++ [v])
      else srcLoop g f (ps.reverse ++ stack) (vis ++ [v]) sources

def srcFuel (g : Graph) : Nat := (keys g).length * (keys g).length + (keys g).length + 2

/-- `find_sources(graph, vertex)` -/
def findSources (g : Graph) (v : Nat) : SrcRes := srcLoop g (srcFuel g) [v] [] []

end Heph.Graph
