/-!
# Model of `src/ir/types.py`: values, equality, names, supertypes closure, subtyping

Types are trees that carry their supertypes, exactly as the Python objects do.

* `builtin cls name nothing prim sups` — an instance of a `Builtin` subclass; `cls` is
  `str(type(x))` (`Builtin.__eq__`/`__hash__` look at the class only), `name` is `get_name()`,
  `nothing` says the class overrides `is_subtype` to `return True` (the languages' `Nothing`),
  `prim` is the Java/Groovy `primitive` attribute.
* `simple`, `tparam`, `wild` — `SimpleClassifier`, `TypeParameter`, `WildCardType`; variance
  is the integer `Variance.value` (0 invariant, 1 covariant, 2 contravariant).
* `tcon cls name params sups` — a `TypeConstructor` (or `ArrayType`, `FunctionType`, … given by `cls`).
* `param name con args sups` — a `ParameterizedType`: its (deep-copied) constructor, its
  arguments and its *own* `supertypes` list.
* `nothing` — `tp.Nothing` (the `NothingType` classifier); `ext cls` — `tp.Function` etc.

Python's `x == y` is `beq` (every `__eq__` of `types.py` first compares classes, so the result
does not depend on which operand's method runs).  Set/dict membership is modelled by `beq`
alone: for the keys that occur (`TypeParameter`, `Builtin`) the hash is a function of fields
that `__eq__` compares.
-/
namespace Heph

inductive Ty where
  | builtin (cls : String) (name : String) (nothing : Bool) (prim : Bool) (sups : List Ty)
  | simple (name : String) (sups : List Ty)
  | tparam (name : String) (var : Nat) (bound : Option Ty)
  | wild (var : Nat) (bound : Option Ty)
  | tcon (cls name : String) (params : List Ty) (sups : List Ty)
  | param (name : String) (con : Ty) (args : List Ty) (sups : List Ty)
  | nothing
  | ext (cls : String)
deriving Repr, Inhabited

namespace Ty

def sups : Ty → List Ty
  | builtin _ _ _ _ x => x | simple _ x => x | tcon _ _ _ x => x | param _ _ _ x => x | _ => []

def isParam : Ty → Bool | param .. => true | _ => false
def isWild : Ty → Bool | wild .. => true | _ => false
def isTVar : Ty → Bool | tparam .. => true | _ => false
def isTCon : Ty → Bool | tcon .. => true | _ => false
def isBuiltin : Ty → Bool | builtin .. => true | _ => false
def isPrim : Ty → Bool | builtin _ _ _ p _ => p | _ => false

def conParams : Ty → List Ty | tcon _ _ ps _ => ps | _ => []
def conSups : Ty → List Ty | tcon _ _ _ ss => ss | _ => []
def conName : Ty → String | tcon _ nm _ _ => nm | _ => "?"
def conWithSups : Ty → List Ty → Ty | tcon cls nm ps _, ss => tcon cls nm ps ss | t, _ => t

/-- `TypeParameter.variance.value` (0 for anything that is not a type parameter) -/
def variance : Ty → Nat | tparam _ v _ => v | _ => 0
def boundOf : Ty → Option Ty | tparam _ _ b => b | wild _ b => b | _ => none

def varStr : Nat → String | 1 => "out" | 2 => "in" | _ => ""

mutual
/-- `get_name()` -/
def getName : Ty → String
  | builtin _ nm _ _ _ => nm
  | simple nm _ => nm
  | tparam nm _ _ => nm
  | wild _ _ => "*"
  | tcon _ nm _ _ => nm
  | param nm _ args _ => nm ++ "<" ++ getNameL args ++ ">"
  | nothing => "Nothing"
  | ext cls => cls
def getNameL : List Ty → String
  | [] => ""
  | [x] => getName x
  | x :: y :: xs => getName x ++ ", " ++ getNameL (y :: xs)
end

/-- `str(tp)` of a `TypeParameter` (the only `__str__` that `TypeConstructor.__eq__` reads) -/
def tparamStr : Ty → String
  | tparam nm var bd =>
      (if var != 0 then varStr var ++ " " else "") ++ nm ++
      (match bd with | none => "" | some t => " <: " ++ getName t)
  | t => getName t

def paramsStr (ps : List Ty) : String := "[" ++ ", ".intercalate (ps.map tparamStr) ++ "]"

mutual
/-- `x == y` -/
def beq : Ty → Ty → Bool
  | builtin cls _ _ _ _, builtin cls' _ _ _ _ => cls == cls'
  | simple nm sp, simple nm' sp' => nm == nm' && beqL sp sp'
  | tparam nm var bd, tparam nm' var' bd' => nm == nm' && var == var' && beqO bd bd'
  | wild var bd, wild var' bd' => var == var' && beqO bd bd'
  | tcon cls nm ps _, tcon cls' nm' ps' _ => cls == cls' && nm == nm' && paramsStr ps == paramsStr ps'
  | param nm con args sp, param nm' con' args' sp' =>
      nm == nm' && beqL sp sp' &&
      (match con, con' with
       | tcon cls _ ps _, tcon cls' _ ps' _ => cls == cls' && beqL ps ps'
       | _, _ => false) && beqL args args'
  | nothing, nothing => true
  | ext c, ext c' => c == c'
  | _, _ => false
def beqL : List Ty → List Ty → Bool
  | [], [] => true
  | x :: xs, y :: ys => beq x y && beqL xs ys
  | _, _ => false
def beqO : Option Ty → Option Ty → Bool
  | none, none => true
  | some x, some y => beq x y
  | _, _ => false
end

/-- `x in s` for a Python set/list `s` -/
def memBeq (x : Ty) (xs : List Ty) : Bool := xs.any fun e => beq e x

mutual
/-- `get_supertypes()`: the type itself and the transitive closure of `supertypes`
    (a Python set; kept as a list, duplicates do not matter to any reader) -/
def closure : Ty → List Ty
  | builtin c nm nt p ss => builtin c nm nt p ss :: closureL ss
  | simple nm ss => simple nm ss :: closureL ss
  | tcon c nm ps ss => tcon c nm ps ss :: closureL ss
  | param nm con args ss => param nm con args ss :: closureL ss
  | t => [t]
def closureL : List Ty → List Ty
  | [] => []
  | x :: xs => closure x ++ closureL xs
end

mutual
/-- a structural size, used as fuel by the top-level entry points -/
def size : Ty → Nat
  | builtin _ _ _ _ ss => 1 + sizeL ss
  | simple _ ss => 1 + sizeL ss
  | tparam _ _ bd => 1 + sizeO bd
  | wild _ bd => 1 + sizeO bd
  | tcon _ _ ps ss => 1 + sizeL ps + sizeL ss
  | param _ con args ss => 1 + size con + sizeL args + sizeL ss
  | nothing => 1
  | ext _ => 1
def sizeL : List Ty → Nat
  | [] => 0
  | x :: xs => size x + sizeL xs
def sizeO : Option Ty → Nat
  | none => 0
  | some x => size x
end

/-- answers of the subtype test: Python's `True`/`False`, the exceptions the code can raise,
    and fuel exhaustion of the model (never observed with the fuel of `isSubtype`) -/
inductive Res | yes | no | typeError | attrError | fuel
deriving Repr, BEq, DecidableEq, Inhabited

def Res.ofBool : Bool → Res | true => .yes | false => .no

/-- `any(f(x) for x in xs)` with exceptions propagating, left to right -/
def anyRes (xs : List Ty) (f : Ty → Res) : Res :=
  match xs with
  | [] => .no
  | x :: xs => match f x with
    | .yes => .yes
    | .no => anyRes xs f
    | e => e

mutual
/-- `self.is_subtype(other)` with dynamic dispatch on the class of `self` -/
def isSub : Nat → Ty → Ty → Res
  | 0, _, _ => .fuel
  | f+1, self, other =>
    match self with
    | nothing => .yes
    | ext _ => .no
    | builtin _ _ nt _ _ =>
        if nt then .yes else Res.ofBool (beq other self || memBeq other (closure self))
    | simple _ _ => nominal f self other
    | tparam _ _ bd => (match bd with | none => .no | some bt => Res.ofBool (beq bt other))
    | wild var bd =>
        (match other with
         | wild var' (some ob) =>
            if var == 1 && var' == 1 then
              (match bd with | some sb => isSub f sb ob | none => .attrError)
            else .no
         | _ => .no)
    | tcon _ _ ps _ =>
        (match (closure self).find? (fun st => beq other st) with
         | none => .no
         | some m =>
            if !other.isParam then .yes
            else match m with
              | param _ _ margs _ => Res.ofBool (!(margs.any fun a => memBeq a ps))
              | _ => .attrError)
    | param _ con args _ =>
        match nominal f self other with
        | .yes => .yes
        | .no =>
          (match other with
           | param _ ocon oargs _ =>
              if beq con ocon then containedL f (conParams con) args oargs else .no
           | _ => .no)
        | e => e
/-- `SimpleClassifier.is_subtype` -/
def nominal : Nat → Ty → Ty → Res
  | 0, _, _ => .fuel
  | f+1, self, other =>
    if beq other self then .yes
    else anyRes ((closure self).filter fun st => !(beq st self)) fun st => isSub f st other
/-- the `zip` loop of `ParameterizedType.is_subtype` -/
def containedL : Nat → List Ty → List Ty → List Ty → Res
  | 0, _, _, _ => .fuel
  | f+1, tp :: tps, a :: as, b :: bs =>
      (match contained f a b tp with
       | .yes => containedL f tps as bs
       | r => r)
  | _+1, _, _, _ => .yes
/-- `_is_type_arg_contained(t, other, type_param)` -/
def contained : Nat → Ty → Ty → Ty → Res
  | 0, _, _, _ => .fuel
  | f+1, t, other, tp =>
    let tvar := variance tp
    match t, other with
    | wild tv tb, wild ov ob =>
        (match ob, tb with
         | some ob', some tb' =>
            if tv == 1 && ov == 1 then isSub f tb' ob'
            else if tv == 2 && ov == 2 then isSub f ob' tb'
            else .no
         | none, some _ => .yes
         | _, _ => .no)
    | wild _ tb, _ =>
        (match tb with
         | some tb' =>
            if tvar == 1 then isSub f tb' other
            else if tvar == 2 then isSub f other tb'
            else .no
         | none => .no)
    | _, wild ov ob =>
        (match ob with
         | some ob' =>
            if ov == 1 then isSub f t ob'
            else if ov == 2 then isSub f ob' t
            else .no
         | none => .yes)
    | _, _ =>
        if tvar == 0 then Res.ofBool (beq t other)
        else if tvar == 1 then isSub f t other
        else isSub f other t
end

/-- fuel that always suffices (see `Proofs/TypesFuel.lean`) -/
def fuelFor (s t : Ty) : Nat := 2 * (size s + size t) + 2

/-- `s.is_subtype(t)` -/
def isSubtype (s t : Ty) : Res := isSub (fuelFor s t) s t

/-- the Java `Array` constructor test of `ParameterizedType.is_assignable`
    (`t_constructor == jt.Array`) -/
def isJavaArrayCon (con : Ty) : Bool :=
  match con with
  | tcon cls nm ps _ =>
      cls == "<class 'src.ir.java_types.ArrayType'>" && nm == "Array" && paramsStr ps == "[out T]"
  | _ => false

/-- `self.is_assignable(other)`; `extra` is the regenerated table of
    `(class of self, class of other)` pairs for which a numeric built-in's `is_assignable`
    answers `type(other) in assignable_types` -/
def isAssignable (extra : List (String × String)) (s t : Ty) : Res :=
  match s with
  | builtin cls _ _ _ _ =>
      (match isSubtype s t with
       | .no => (match t with
          | builtin cls' _ _ _ _ => Res.ofBool (extra.any fun p => p.1 == cls && p.2 == cls')
          | _ => .no)
       | r => r)
  | param _ con (a :: _) _ =>
      (match t with
       | param _ ocon (b :: _) _ =>
          if isJavaArrayCon con && isJavaArrayCon ocon && (a.isPrim || b.isPrim) then
            Res.ofBool (beq a b && a.isPrim && b.isPrim)
          else isSubtype s t
       | _ => isSubtype s t)
  | _ => isSubtype s t

end Ty
end Heph
