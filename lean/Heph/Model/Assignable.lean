/-!
# The assignment-target filter of `gen_assignment` (`Generator._get_assignable_vars`)

`_get_assignable_vars` walks `context.get_vars(namespace).values()` (in dict order) and collects the
targets `gen_assignment` chooses from:

```
for var in vars:
    if self._inside_java_lambda: continue
    if not getattr(var, 'is_final', True): variables.append((None, var)); continue
    var_type = self._get_var_type_to_search(var.get_type())
    if not var_type: continue
    if isinstance(getattr(var_type, 't_constructor', None), self.function_type): continue
    cls, type_var_map = self._get_class(var_type)        # TypeError when no class is found
    for field in cls.fields:
        if not field.is_final: variables.append((ast.Variable(var.name), field_sub))
```

The model takes per variable what these helpers answered (recorded by `harness/plugin_assignable`
from the real calls): the `is_final` attribute (`none` = the declaration has no such attribute,
e.g. a `ParameterDeclaration`, read as `True` by `getattr(var, 'is_final', True)`), whether the
type is searched (`_get_var_type_to_search` gives a type that is not a function type), and the
fields (name, `is_final`) of the class `_get_class` found (`none` = it found none).

Core Lean only.
-/
namespace Heph.Assignable

structure VarInfo where
  name : String
  isFinal : Option Bool
  searched : Bool
  fields : Option (List (String × Bool))
deriving Repr, Inhabited

/-- a candidate target: the receiver variable (`none` = the variable itself is assigned), the
    name assigned, and the `is_final` flag of the declaration that was tested -/
structure Cand where
  recv : Option String
  name : String
  isFinal : Bool
deriving Repr, DecidableEq, Inhabited

/-- `getattr(var, 'is_final', True)` -/
def VarInfo.finalAttr (v : VarInfo) : Bool := v.isFinal.getD true

/-- the candidates one variable contributes; `none` = `TypeError` (`_get_class` returned `None`) -/
def varCands (insideJavaLambda : Bool) (v : VarInfo) : Option (List Cand) :=
  if insideJavaLambda then some []
  else if !v.finalAttr then some [⟨none, v.name, false⟩]
  else if !v.searched then some []
  else match v.fields with
    | none => none
    | some fs => some ((fs.filter fun f => !f.2).map fun f => ⟨some v.name, f.1, f.2⟩)

/-- `_get_assignable_vars()`; `none` = the loop raised `TypeError` -/
def assignableVars (insideJavaLambda : Bool) : List VarInfo → Option (List Cand)
  | [] => some []
  | v :: vs => match varCands insideJavaLambda v with
    | none => none
    | some cs => match assignableVars insideJavaLambda vs with
      | none => none
      | some rest => some (cs ++ rest)

end Heph.Assignable
