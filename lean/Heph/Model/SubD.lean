import Heph.Model.Types
import Heph.Model.Subst
import Heph.Spec.Assignable
/-!
# `isSubD`: the executable decider of the specification side (C01)

More complete than the model of the code's `is_subtype` (`Ty.isSub`): reflexive on type
variables (through `==`), follows bound chains, identifies a primitive with its box (looked up in
the table `B` of built-ins of the program's universe), knows the top type, and implements the
star rule (`*` is `out` declared bound).  Proved sound for `Asg` in `Proofs/CheckSubD.lean`
(`isSubD_sound`, for every fuel).  It is only ever used to *accept*; a `false` answer (also on
fuel exhaustion) makes the checker reject.
-/
namespace Heph
namespace Ty

/-- the languages' bottom built-ins and the `Nothing` classifier -/
def isBottomTy : Ty → Bool
  | nothing => true
  | builtin _ _ nt _ _ => nt
  | _ => false

/-- the box of a primitive: the non-primitive built-in of the same class in the table -/
def boxOf (B : List Ty) (s : Ty) : Option Ty :=
  match s with
  | builtin _ _ _ true _ => B.find? fun b => beq b s && !b.isPrim
  | _ => none

mutual
def isSubD (B : List Ty) : Nat → Ty → Ty → Bool
  | 0, _, _ => false
  | f+1, s, t =>
    beq s t || beq t s || isTop t || isBottomTy s ||
    (match s with
     | tparam _ _ (some bd) => isSubD B f bd t
     | wild 1 (some sb) => (match t with | wild 1 (some ob) => isSubD B f sb ob | _ => false)
     | _ => false) ||
    (match boxOf B s with
     | some b => isSubD B f b t
     | none => false) ||
    anySubD B f (sups s) t ||
    (match s, t with
     | param _ con as _, param _ con' bs _ =>
         beq con con' && argsD B f (TMap.mk (conParams con) as) (conParams con) as bs
     | _, _ => false)
/-- some stored supertype is below `t` -/
def anySubD (B : List Ty) : Nat → List Ty → Ty → Bool
  | 0, _, _ => false
  | _+1, [], _ => false
  | f+1, u :: us, t => isSubD B f u t || anySubD B f us t
/-- the arguments `as` are contained in `bs`, position by position (equal lengths required) -/
def argsD (B : List Ty) : Nat → TMap → List Ty → List Ty → List Ty → Bool
  | 0, _, _, _, _ => false
  | _+1, _, [], [], [] => true
  | f+1, m, tp :: tps, a :: as, b :: bs => argD B f m tp a b && argsD B f m tps as bs
  | _+1, _, _, _, _ => false
/-- `a` is contained in `b` at parameter `tp` -/
def argD (B : List Ty) : Nat → TMap → Ty → Ty → Ty → Bool
  | 0, _, _, _, _ => false
  | f+1, m, tp, a, b =>
    beq a b ||
    (match a, b with
     | wild _ none, wild 1 (some y) =>
         isTop y || (match tp with
           | tparam _ _ (some dbd) => isSubD B f (substituteType dbd m) y
           | _ => false)
     | wild _ none, _ => false
     | _, wild _ none => true
     | wild 1 (some x), wild 1 (some y) => isTop y || isSubD B f x y
     | wild 2 (some x), wild 2 (some y) => isSubD B f y x
     | wild _ (some _), wild 1 (some y) => isTop y
     | wild _ (some _), wild _ _ => false
     | wild 1 (some x), _ => variance tp == 1 && isSubD B f x b
     | wild 2 (some x), _ => variance tp == 2 && isSubD B f b x
     | wild _ _, _ => false
     | _, wild 1 (some y) => isTop y || isSubD B f a y
     | _, wild 2 (some y) => isSubD B f y a
     | _, wild _ _ => false
     | _, _ => (variance tp == 1 && isSubD B f a b) || (variance tp == 2 && isSubD B f b a))
end

/-- fuel used by the checker: generous w.r.t. the size of the two types and the table -/
def subDFuel (B : List Ty) (s t : Ty) : Nat := 4 * (size s + size t) + 4 * sizeL B + 16

def isSubDTop (B : List Ty) (s t : Ty) : Bool := isSubD B (subDFuel B s t) s t

end Ty
end Heph
