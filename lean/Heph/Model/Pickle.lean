/-!
# An abstract pickle machine (property C13)

`src/utils.py` saves a program with `pickle.dump(program, f)` and reads it back with
`pickle.load(f)`.  What the property depends on is the *object-graph contract* of the pickle
format.  This file models that contract for the op-codes that occur in pickles of real programs
(enumerated from data by `harness/check_C13.py`, which fails if any other op-code or reduction
shape turns up):

* `Heap`: a finite object graph.  Values that the pickler never memoises (None, booleans, integers,
  floats, the empty tuple) are *immediate* (`Val`); everything else lives at an address.
* `dump h r`: CPython's C pickler (`Modules/_pickle.c`, protocol 4) as a traversal with a memo
  (address ↦ memo index): memo look-up first, containers memoised *before* their elements,
  tuples / frozensets *after* their elements (with the POP … BINGET repair when the tuple was
  reached again through its own elements), instances as `cls () NEWOBJ MEMOIZE state BUILD`
  (what `object.__reduce_ex__(4)` yields), `OrderedDict` as `cls () REDUCE MEMOIZE items… [state BUILD]`,
  classes as `module qualname STACK_GLOBAL MEMOIZE`, batches of 1000 for APPENDS / SETITEMS /
  ADDITEMS including the C implementation's quirks (a one-element exact list or dict uses
  APPEND / SETITEM; an exact dict or set whose size is a positive multiple of 1000 gets a
  trailing empty batch; the iterator form used for `dictitems` writes a trailing single item with
  SETITEM).  Cells that stand for no Python object (`cellOK`: a class whose module / qualified name is not a
  string, an instance whose class is not a class) are refused like dangling references.
* `load ops`: the unpickler's virtual machine (stack, mark stack, memo).  An object created by
  NEWOBJ / REDUCE has **no state** (`state = none`) until its BUILD — and BUILD comes after the
  state's children were unpickled, so inside a cycle a dict can receive a key whose `__dict__` is
  not there yet.  The VM counts such insertions for classes whose `__hash__`/`__eq__` read
  attributes (`unready`).

C-level details (framing, encodings of integers and strings, interning) are not modelled.
Core Lean only. -/
namespace Heph.Pickle

/-- a value slot: immediates are never memoised by the pickler; `ref a` is an address -/
inductive Val where
  | none
  | bool (b : Bool)
  | int (i : Int)
  | float (repr : String)
  | unit                      -- the empty tuple `()`
  | ref (a : Nat)
  deriving DecidableEq, Repr, Inhabited

inductive Obj where
  | str (s : String)
  | tuple (xs : List Val)                         -- non-empty
  | list (xs : List Val)
  | dict (kvs : List (Val × Val))                 -- insertion order
  | set (xs : List Val)                           -- iteration order as exported
  | frozenset (xs : List Val)
  | global (modName qualName : Val)               -- a class used as a value: refs to two `str`
  | inst (cls : Val) (state : Option Val)         -- `cls.__new__(cls)`; `state` = its `__dict__` once BUILT
  | reduced (callee : Val) (kvs : List (Val × Val)) (state : Option Val)  -- `callee()` + dictitems (OrderedDict)
  deriving DecidableEq, Repr, Inhabited

abbrev Heap := Array Obj

inductive Op where
  | none | bool (b : Bool) | int (i : Int) | float (repr : String) | str (s : String)
  | mark | tupleN (n : Nat) | tupleMark
  | emptyList | append | appends
  | emptyDict | setitem | setitems
  | emptySet | additems | frozenset
  | stackGlobal | newobj | reduce | build
  | memoize | binget (i : Nat) | pop | popMark | stop
  deriving DecidableEq, Repr, Inhabited

def Obj.children : Obj → List Val
  | .str _ => []
  | .tuple xs => xs
  | .list xs => xs
  | .dict kvs => kvs.flatMap fun p => [p.1, p.2]
  | .set xs => xs
  | .frozenset xs => xs
  | .global m n => [m, n]
  | .inst c s => c :: s.toList
  | .reduced c kvs s => c :: (kvs.flatMap fun p => [p.1, p.2]) ++ s.toList

/-! ## dump: the pickler -/

structure DState where
  tbl : Array (Option Nat)      -- the memo: address ↦ memo index
  n : Nat                       -- number of memoised objects
  out : Array Op
  deriving Repr

def DState.emit (st : DState) (op : Op) : DState := { st with out := st.out.push op }

def DState.get (st : DState) (a : Nat) : Option Nat := (st.tbl[a]?).getD Option.none

/-- `memo_put` + the MEMOIZE op-code -/
def DState.memoize (st : DState) (a : Nat) : DState :=
  { tbl := st.tbl.setIfInBounds a (some st.n), n := st.n + 1, out := st.out.push .memoize }

def BATCH : Nat := 1000

/-- which C routine writes the elements -/
inductive Style where
  | exact      -- batch_list_exact / batch_dict_exact: single form only when the container has one element
  | iter       -- batch_dict over an iterator (dictitems of a reduction): single form for a trailing single item
  | setStyle   -- save_set: never a single form
  deriving DecidableEq, Repr

/-- may the element at position `i` (first of its batch, last of the container) be written in the single form? -/
def singleFormOK : Style → Nat → Bool
  | .exact, i => i == 0
  | .iter, _ => true
  | .setStyle, _ => false

/-- elements `i, i+1, …` of a container, in batches of `BATCH` between MARK and `multi` -/
def saveItems {α : Type} (saveElem : α → DState → Option DState) (single multi : Op) (style : Style) :
    Nat → List α → DState → Option DState
  | _, [], st => some st
  | i, x :: xs, st =>
    let startB := i % BATCH == 0
    if startB && xs.isEmpty && singleFormOK style i then (saveElem x st).map (·.emit single)
    else
      match saveElem x (if startB then st.emit .mark else st) with
      | Option.none => Option.none
      | some st1 =>
        saveItems saveElem single multi style (i + 1) xs
          (if (i + 1) % BATCH == 0 || xs.isEmpty then st1.emit multi else st1)

/-- the C loops `do { MARK … } while (i == BATCHSIZE)` of an exact dict / a set run once more when the
size is a positive multiple of the batch size -/
def trailingBatch (len : Nat) (multi : Op) (st : DState) : DState :=
  if len != 0 && len % BATCH == 0 then (st.emit .mark).emit multi else st

def emitPops (st : DState) : Nat → DState
  | 0 => st
  | k + 1 => emitPops (st.emit .pop) k

def strOf (h : Heap) : Val → Option String
  | .ref a => match h[a]? with | some (.str s) => some s | _ => Option.none
  | _ => Option.none

/-- (module, qualified name) of a class value -/
def clsName (h : Heap) : Val → Option (String × String)
  | .ref a => match h[a]? with
    | some (.global m q) => match strOf h m, strOf h q with
      | some ms, some qs => some (ms, qs)
      | _, _ => Option.none
    | _ => Option.none
  | _ => Option.none

/-- typing facts about Python objects: the module and the qualified name of a class are strings; the class of an
instance and the callee of a reduction are classes.  A cell that violates them stands for no Python object
(`save_global` fetches `__qualname__` / the module name as strings and looks the class up; `type(obj)` is a
class), and `save` gives up on it like on a dangling reference. -/
def cellOK (h : Heap) : Obj → Bool
  | .global m q => (strOf h m).isSome && (strOf h q).isSome
  | .inst c _ => (clsName h c).isSome
  | .reduced c _ _ => (clsName h c).isSome
  | _ => true

/-- `save(obj)`; `fuel` bounds the nesting depth -/
def save (h : Heap) : Nat → Val → DState → Option DState
  | _, .none, st => some (st.emit .none)
  | _, .bool b, st => some (st.emit (.bool b))
  | _, .int i, st => some (st.emit (.int i))
  | _, .float s, st => some (st.emit (.float s))
  | _, .unit, st => some (st.emit (.tupleN 0))
  | 0, .ref _, _ => Option.none
  | fuel + 1, .ref a, st =>
    match st.get a with
    | some i => some (st.emit (.binget i))
    | Option.none =>
      match h[a]? with
      | Option.none => Option.none
      | some (.str s) => some ((st.emit (.str s)).memoize a)
      | some (.tuple xs) =>
        if xs.isEmpty then Option.none
        else
          let small := xs.length ≤ 3
          match xs.foldlM (fun st x => save h fuel x st) (if small then st else st.emit .mark) with
          | Option.none => Option.none
          | some st1 =>
            match st1.get a with
            | some i =>   -- the tuple was pickled meanwhile (it is reachable from its own elements)
              some (((if small then emitPops st1 xs.length else st1.emit .popMark)).emit (.binget i))
            | Option.none => some ((st1.emit (if small then .tupleN xs.length else .tupleMark)).memoize a)
      | some (.frozenset xs) =>
        match xs.foldlM (fun st x => save h fuel x st) (st.emit .mark) with
        | Option.none => Option.none
        | some st1 =>
          match st1.get a with
          | some i => some ((st1.emit .popMark).emit (.binget i))
          | Option.none => some ((st1.emit .frozenset).memoize a)
      | some (.list xs) =>
        saveItems (fun x st => save h fuel x st) .append .appends .exact 0 xs ((st.emit .emptyList).memoize a)
      | some (.dict kvs) =>
        (saveItems (fun (p : Val × Val) st => (save h fuel p.1 st).bind (save h fuel p.2))
          .setitem .setitems .exact 0 kvs ((st.emit .emptyDict).memoize a)).map
          (trailingBatch kvs.length .setitems)
      | some (.set xs) =>
        (saveItems (fun x st => save h fuel x st) .additems .additems .setStyle 0 xs
          ((st.emit .emptySet).memoize a)).map (trailingBatch xs.length .additems)
      | some (.global m q) =>
        if cellOK h (.global m q) then
          match save h fuel m st with
          | Option.none => Option.none
          | some st1 =>
            match save h fuel q st1 with
            | Option.none => Option.none
            | some st2 => some ((st2.emit .stackGlobal).memoize a)
        else Option.none
      | some (.inst cls state) =>
        if cellOK h (.inst cls state) then
          match save h fuel cls st with
          | Option.none => Option.none
          | some st1 =>
            let st2 := (((st1.emit (.tupleN 0)).emit .newobj).memoize a)
            match state with
            | Option.none => some st2
            | some s => (save h fuel s st2).map (·.emit .build)
        else Option.none
      | some (.reduced callee kvs state) =>
        if cellOK h (.reduced callee kvs state) then
          match save h fuel callee st with
          | Option.none => Option.none
          | some st1 =>
            match saveItems (fun (p : Val × Val) st => (save h fuel p.1 st).bind (save h fuel p.2))
                .setitem .setitems .iter 0 kvs (((st1.emit (.tupleN 0)).emit .reduce).memoize a) with
            | Option.none => Option.none
            | some st2 =>
              match state with
              | Option.none => some st2
              | some s => (save h fuel s st2).map (·.emit .build)
        else Option.none

def dumpFuel (h : Heap) : Nat := (h.size + 1) * (h.size + 1) + 1

def initD (h : Heap) : DState := { tbl := Array.replicate h.size Option.none, n := 0, out := #[] }

/-- `pickle.dumps`: `none` if the graph has a dangling reference, an empty tuple object, an ill-typed class /
instance / reduction cell (`cellOK`), or a cycle through tuples / frozensets only (no such Python object exists) -/
def dump (h : Heap) (r : Val) : Option (List Op) :=
  (save h (dumpFuel h) r (initD h)).map fun st => (st.out.push .stop).toList

/-! ## load: the unpickler -/

structure LState where
  stack : List Val
  metas : List (List Val)
  memo : Array Val
  heap : Heap
  /-- key insertions (SETITEM(S), ADDITEMS, FROZENSET) whose hashing reads an instance of a hash-reading
  class that has not been BUILT yet (`keyUnbuilt`) -/
  unready : Nat
  deriving Repr

def initL : LState := { stack := [], metas := [], memo := #[], heap := #[], unready := 0 }

def LState.push (st : LState) (v : Val) : LState := { st with stack := v :: st.stack }

def LState.alloc (st : LState) (o : Obj) : LState :=
  { st with heap := st.heap.push o, stack := .ref st.heap.size :: st.stack }

/-! ## reachability, the key-cycle proviso -/

def Val.addr? : Val → Option Nat
  | .ref a => some a
  | _ => Option.none

/-- depth-first marking from a work list; `fuel` ≥ number of work-list pops (≤ edges + roots) -/
def reachGo (h : Heap) : Nat → List Nat → Array Bool → Array Bool
  | 0, _, seen => seen
  | _, [], seen => seen
  | fuel + 1, a :: work, seen =>
    if seen.getD a true then reachGo h fuel work seen
    else
      let kids := ((h[a]?).map Obj.children).getD [] |>.filterMap Val.addr?
      reachGo h fuel (kids ++ work) (seen.setIfInBounds a true)

def edgeCount (h : Heap) : Nat := h.toList.foldl (fun n o => n + o.children.length) 0

/-- characteristic vector of the addresses reachable from `v` -/
def reach (h : Heap) (v : Val) : Array Bool :=
  reachGo h (edgeCount h + h.size + 2) (v.addr?.toList) (Array.replicate h.size false)

def keysOf : Obj → List Val
  | .dict kvs => kvs.map (·.1)
  | .reduced _ kvs _ => kvs.map (·.1)
  | .set xs => xs
  | .frozenset xs => xs
  | _ => []

/-- the instances (of hash-reading classes) whose attributes are read when `v` is hashed -/
def hashedInsts (hr : String → String → Bool) (h : Heap) : Nat → Val → List Nat
  | 0, _ => []
  | fuel + 1, .ref a =>
    match h[a]? with
    | some (.inst cls _) => match clsName h cls with
      | some (m, q) => if hr m q then [a] else []
      | Option.none => []
    | some (.tuple xs) => xs.flatMap (hashedInsts hr h fuel)
    | some (.frozenset xs) => xs.flatMap (hashedInsts hr h fuel)
    | _ => []
  | _, _ => []

/-- is hashing `v` going to read the `__dict__` of an instance that has none yet?  The instances whose
`__hash__` runs are `hashedInsts`; such a hash may read on through attribute values (`str(self.type_args)` …),
so every hash-reading instance reachable from them must have been BUILT. -/
def unbuiltAt (hr : String → String → Bool) (h : Heap) (a : Nat) : Bool :=
  match h[a]? with
  | some (.inst cls Option.none) => match clsName h cls with
    | some (m, q) => hr m q
    | Option.none => false
  | _ => false

def keyUnbuilt (hr : String → String → Bool) (h : Heap) (v : Val) : Bool :=
  (hashedInsts hr h 8 v).any fun i =>
    let seen := reach h (.ref i)
    (List.range h.size).any fun a => seen.getD a false && unbuiltAt hr h a

def countUnbuilt (hr : String → String → Bool) (h : Heap) (keys : List Val) : Nat :=
  (keys.filter (keyUnbuilt hr h)).length

/-- `[k1, v1, k2, v2, …]` (bottom of the stack first) → pairs; `none` if odd -/
def pairs : List Val → Option (List (Val × Val))
  | [] => some []
  | k :: v :: rest => (pairs rest).map ((k, v) :: ·)
  | [_] => Option.none

/-- pop the topmost mark: (items since the mark, bottom first; the state with the stack below it) -/
def LState.popMark (st : LState) : Option (List Val × LState) :=
  match st.metas with
  | [] => Option.none
  | s :: ms => some (st.stack.reverse, { st with stack := s, metas := ms })

def LState.setObj (st : LState) (a : Nat) (o : Obj) : LState :=
  { st with heap := st.heap.setIfInBounds a o }

/-- extend the list on top of the stack -/
def extendTop (hr : String → String → Bool) (st : LState) (isPairs : Bool) (isSet : Bool) (items : List Val) :
    Option LState :=
  match st.stack with
  | .ref a :: _ =>
    match st.heap[a]? with
    | some (.list xs) => if isPairs || isSet then Option.none else some (st.setObj a (.list (xs ++ items)))
    | some (.set xs) =>
      if isSet then
        some { st.setObj a (.set (xs ++ items)) with unready := st.unready + countUnbuilt hr st.heap items }
      else Option.none
    | some (.dict kvs) =>
      if isPairs then (pairs items).map fun ps =>
        { st.setObj a (.dict (kvs ++ ps)) with unready := st.unready + countUnbuilt hr st.heap (ps.map (·.1)) }
      else Option.none
    | some (.reduced c kvs s) =>
      if isPairs then (pairs items).map fun ps =>
        { st.setObj a (.reduced c (kvs ++ ps) s) with
          unready := st.unready + countUnbuilt hr st.heap (ps.map (·.1)) }
      else Option.none
    | _ => Option.none
  | _ => Option.none

def step (hr : String → String → Bool) (st : LState) : Op → Option LState
  | .none => some (st.push .none)
  | .bool b => some (st.push (.bool b))
  | .int i => some (st.push (.int i))
  | .float s => some (st.push (.float s))
  | .str s => some (st.alloc (.str s))
  | .mark => some { st with metas := st.stack :: st.metas, stack := [] }
  | .tupleN 0 => some (st.push .unit)
  | .tupleN 1 => match st.stack with
    | x :: rest => some ({ st with stack := rest }.alloc (.tuple [x]))
    | _ => Option.none
  | .tupleN 2 => match st.stack with
    | y :: x :: rest => some ({ st with stack := rest }.alloc (.tuple [x, y]))
    | _ => Option.none
  | .tupleN 3 => match st.stack with
    | z :: y :: x :: rest => some ({ st with stack := rest }.alloc (.tuple [x, y, z]))
    | _ => Option.none
  | .tupleN _ => Option.none
  | .tupleMark => match st.popMark with
    | some (items, st1) => if items.isEmpty then some (st1.push .unit) else some (st1.alloc (.tuple items))
    | Option.none => Option.none
  | .frozenset => match st.popMark with
    | some (items, st1) =>
      some { st1.alloc (.frozenset items) with unready := st1.unready + countUnbuilt hr st1.heap items }
    | Option.none => Option.none
  | .emptyList => some (st.alloc (.list []))
  | .emptyDict => some (st.alloc (.dict []))
  | .emptySet => some (st.alloc (.set []))
  | .append => match st.stack with
    | x :: rest => extendTop hr { st with stack := rest } false false [x]
    | _ => Option.none
  | .appends => match st.popMark with
    | some (items, st1) => extendTop hr st1 false false items
    | Option.none => Option.none
  | .setitem => match st.stack with
    | v :: k :: rest => extendTop hr { st with stack := rest } true false [k, v]
    | _ => Option.none
  | .setitems => match st.popMark with
    | some (items, st1) => extendTop hr st1 true false items
    | Option.none => Option.none
  | .additems => match st.popMark with
    | some (items, st1) => extendTop hr st1 false true items
    | Option.none => Option.none
  | .stackGlobal => match st.stack with
    | q :: m :: rest =>
      match strOf st.heap m, strOf st.heap q with
      | some _, some _ => some ({ st with stack := rest }.alloc (.global m q))
      | _, _ => Option.none
    | _ => Option.none
  | .newobj => match st.stack with
    | .unit :: cls :: rest =>
      match clsName st.heap cls with
      | some _ => some ({ st with stack := rest }.alloc (.inst cls Option.none))
      | Option.none => Option.none
    | _ => Option.none
  | .reduce => match st.stack with
    | .unit :: callee :: rest =>
      match clsName st.heap callee with
      | some _ => some ({ st with stack := rest }.alloc (.reduced callee [] Option.none))
      | Option.none => Option.none
    | _ => Option.none
  | .build => match st.stack with
    | s :: .ref a :: rest =>
      match st.heap[a]? with
      | some (.inst c _) => some ({ st with stack := .ref a :: rest }.setObj a (.inst c (some s)))
      | some (.reduced c kvs _) => some ({ st with stack := .ref a :: rest }.setObj a (.reduced c kvs (some s)))
      | _ => Option.none
    | _ => Option.none
  | .memoize => match st.stack with
    | x :: _ => some { st with memo := st.memo.push x }
    | _ => Option.none
  | .binget i => match st.memo[i]? with
    | some v => some (st.push v)
    | Option.none => Option.none
  | .pop => match st.stack with
    | _ :: rest => some { st with stack := rest }
    | [] => match st.metas with
      | s :: ms => some { st with stack := s, metas := ms }
      | [] => Option.none
  | .popMark => match st.popMark with
    | some (_, st1) => some st1
    | Option.none => Option.none
  | .stop => Option.none      -- handled by `run`

/-- run the op-codes up to the first STOP; `none` on a malformed stream -/
def run (hr : String → String → Bool) : List Op → LState → Option LState
  | [], _ => Option.none
  | .stop :: _, st => some st
  | op :: ops, st => match step hr st op with
    | some st1 => run hr ops st1
    | Option.none => Option.none

def noHash : String → String → Bool := fun _ _ => false

/-- look-up in the table generated from src/ir/*.py: (module, class, `__hash__` reads self, `__eq__` reads self) -/
def hashReadsOf (table : List (String × String × Bool × Bool)) (m q : String) : Bool :=
  table.any fun e => e.1 == m && e.2.1 == q && (e.2.2.1 || e.2.2.2)

/-- `pickle.loads`: the rebuilt heap and the root -/
def load (ops : List Op) : Option (Heap × Val) :=
  match run noHash ops initL with
  | some st => match st.stack with
    | v :: _ => some (st.heap, v)
    | [] => Option.none
  | Option.none => Option.none

/-- number of key insertions that hashed an instance (of a class for which `hr` holds) before its BUILD -/
def unreadyKeys (hr : String → String → Bool) (ops : List Op) : Option Nat :=
  (run hr ops initL).map (·.unready)

/-! ## the key-cycle proviso -/

/-- **the proviso of `keys_ready`**: no container reachable from the root has a key whose hash reads an
instance from which that container is reachable (then the instance is complete — BUILT — whenever
the container receives it, whatever the traversal order) -/
def noKeyCycle (hr : String → String → Bool) (h : Heap) (r : Val) : Bool :=
  let live := reach h r
  (List.range h.size).all fun d =>
    !(live.getD d false) ||
      (match h[d]? with
       | some o => (keysOf o).all fun k =>
           (hashedInsts hr h 8 k).all fun i => !((reach h (.ref i)).getD d false)
       | Option.none => true)

/-! ## well-typed heaps -/

def wellTyped (h : Heap) : Bool := h.toList.all (cellOK h)

/-- the number of objects the pickler memoised (every visited address once) -/
def dumpCount (h : Heap) (r : Val) : Option Nat := (save h (dumpFuel h) r (initD h)).map (·.n)

/-! ## isomorphism of rooted heaps -/

/-- pointwise pairing of two value lists of equal length -/
def zipVals : List Val → List Val → Option (List (Val × Val))
  | [], [] => some []
  | x :: xs, y :: ys => (zipVals xs ys).map ((x, y) :: ·)
  | _, _ => Option.none

def zipPairs : List (Val × Val) → List (Val × Val) → Option (List (Val × Val))
  | [], [] => some []
  | (k, v) :: xs, (k', v') :: ys => (zipPairs xs ys).map fun r => (k, k') :: (v, v') :: r
  | _, _ => Option.none

def zipOpt : Option Val → Option Val → Option (List (Val × Val))
  | Option.none, Option.none => some []
  | some x, some y => some [(x, y)]
  | _, _ => Option.none

/-- same kind, same atoms, same lengths: the list of child pairs that must correspond (in ORDER) -/
def pairUp : Obj → Obj → Option (List (Val × Val))
  | .str s, .str s' => if s == s' then some [] else Option.none
  | .tuple xs, .tuple ys => zipVals xs ys
  | .list xs, .list ys => zipVals xs ys
  | .dict xs, .dict ys => zipPairs xs ys
  | .set xs, .set ys => zipVals xs ys
  | .frozenset xs, .frozenset ys => zipVals xs ys
  | .global m q, .global m' q' => some [(m, m'), (q, q')]
  | .inst c s, .inst c' s' => (zipOpt s s').map ((c, c') :: ·)
  | .reduced c kvs s, .reduced c' kvs' s' =>
    match zipPairs kvs kvs', zipOpt s s' with
    | some ps, some ss => some ((c, c') :: ps ++ ss)
    | _, _ => Option.none
  | _, _ => Option.none

/-- simultaneous traversal building the address correspondence (`fwd`, `bwd`) -/
def isoGo (h h' : Heap) : Nat → List (Val × Val) → Array (Option Nat) → Array (Option Nat) → Bool
  | 0, _, _, _ => false
  | _, [], _, _ => true
  | fuel + 1, (v, v') :: rest, fwd, bwd =>
    match v, v' with
    | .ref a, .ref a' =>
      match (fwd[a]?).getD Option.none, (bwd[a']?).getD Option.none with
      | some b, some c => b == a' && c == a && isoGo h h' fuel rest fwd bwd
      | Option.none, Option.none =>
        match h[a]?, h'[a']? with
        | some o, some o' =>
          match pairUp o o' with
          | some ps => isoGo h h' fuel (ps ++ rest) (fwd.setIfInBounds a (some a')) (bwd.setIfInBounds a' (some a))
          | Option.none => false
        | _, _ => false
      | _, _ => false
    | .ref _, _ => false
    | _, .ref _ => false
    | x, y => x == y && isoGo h h' fuel rest fwd bwd

/-- executable isomorphism test of the parts reachable from the roots -/
def isoCheck (h : Heap) (r : Val) (h' : Heap) (r' : Val) : Bool :=
  isoGo h h' (edgeCount h + 2) [(r, r')] (Array.replicate h.size Option.none) (Array.replicate h'.size Option.none)

/-! ## canonical numbering: addresses in first-visit (depth-first, children in order) order -/

/-- first pass: visit order -/
def orderGo (h : Heap) : Nat → List Val → Array (Option Nat) → Nat → Array (Option Nat) × Nat
  | 0, _, num, n => (num, n)
  | _, [], num, n => (num, n)
  | fuel + 1, v :: work, num, n =>
    match v with
    | .ref a =>
      if a < num.size && ((num[a]?).getD Option.none).isNone then
        orderGo h fuel ((((h[a]?).map Obj.children).getD []) ++ work) (num.setIfInBounds a (some n)) (n + 1)
      else orderGo h fuel work num n
    | _ => orderGo h fuel work num n

def renVal (num : Array (Option Nat)) : Val → Val
  | .ref a => .ref (((num[a]?).getD Option.none).getD 0)
  | v => v

def renObj (num : Array (Option Nat)) : Obj → Obj
  | .str s => .str s
  | .tuple xs => .tuple (xs.map (renVal num))
  | .list xs => .list (xs.map (renVal num))
  | .dict kvs => .dict (kvs.map fun p => (renVal num p.1, renVal num p.2))
  | .set xs => .set (xs.map (renVal num))
  | .frozenset xs => .frozenset (xs.map (renVal num))
  | .global m q => .global (renVal num m) (renVal num q)
  | .inst c s => .inst (renVal num c) (s.map (renVal num))
  | .reduced c kvs s => .reduced (renVal num c) (kvs.map fun p => (renVal num p.1, renVal num p.2)) (s.map (renVal num))

/-- the reachable part, renumbered in first-visit order (the by-value export of a rooted heap) -/
def canon (h : Heap) (r : Val) : Heap × Val :=
  let (num, n) := orderGo h (edgeCount h + 2) [r] (Array.replicate h.size Option.none) 0
  let blank : Heap := Array.replicate n (.str "")
  let out := (List.range h.size).foldl (fun (acc : Heap) a =>
    match (num[a]?).getD Option.none, h[a]? with
    | some i, some o => acc.setIfInBounds i (renObj num o)
    | _, _ => acc) blank
  (out, renVal num r)

/-- observation of a rooted heap to depth `n` through attribute values and container order only -/
inductive Tree where
  | leaf (v : Val)            -- an immediate
  | cut                       -- depth exhausted
  | dangling
  | node (tag : String) (label : String) (kids : List Tree)
  deriving Repr

def Obj.tag : Obj → String × String
  | .str s => ("str", s)
  | .tuple _ => ("tuple", "")
  | .list _ => ("list", "")
  | .dict _ => ("dict", "")
  | .set _ => ("set", "")
  | .frozenset _ => ("frozenset", "")
  | .global _ _ => ("global", "")
  | .inst _ s => ("inst", if s.isSome then "built" else "bare")
  | .reduced _ _ s => ("reduced", if s.isSome then "built" else "bare")

def unfold (h : Heap) : Nat → Val → Tree
  | _, .none => .leaf .none
  | _, .bool b => .leaf (.bool b)
  | _, .int i => .leaf (.int i)
  | _, .float s => .leaf (.float s)
  | _, .unit => .leaf .unit
  | 0, .ref _ => .cut
  | n + 1, .ref a =>
    match h[a]? with
    | Option.none => .dangling
    | some o => .node o.tag.1 o.tag.2 (o.children.map (unfold h n))

end Heph.Pickle
